import SimbodyProofs.C33_lemmas
import SimbodyProofs.C33_PE_lemmas
import SimbodyProofs.C33_WQ_lemmas
import SimbodyProofs.C33_WQ_live
/-!
# C33 — property theorems: parallel executors run every task exactly once, safely

Models: `SimbodyModel/C33.lean` (index bookkeeping), `C33_PE.lean` (ParallelExecutor transition system),
`C33_WQ.lean` (ParallelWorkQueue transition system).  Every theorem below quantifies over *every* thread count,
task count, grid size, subdivision level and *every schedule* (a schedule is any `List Act`: any interleaving of
the threads' atomic steps, with spurious wake-ups of condition variables anywhere).

What the theorems cannot carry (stated once): real schedulers and the C++ memory model are runtime; the unlocked
reads of `finished` / `taskQueue.empty()` in the workers' loop conditions (finding F9) are modelled as sequentially
consistent atomic reads.
-/
namespace C33

/-! ## 1. Pure index bookkeeping -/

/-- ParallelExecutor, static: the per-worker index lists of `execute(task, times)` together contain every index
`0..times-1` exactly once (for every `numMaxThreads`, including the non-threaded branch). -/
theorem stripe_partition (numMaxThreads times : Nat) :
    (peAssignment numMaxThreads times).flatten.Nodup ∧
    ∀ i, i ∈ (peAssignment numMaxThreads times).flatten ↔ i < times :=
  ⟨peAssignment_nodup _ _, mem_peAssignment _ _⟩

/-- `binStart` is monotone, starts at 0 and ends at `gridSize` (any positive bin count). -/
theorem binStart_monotone (g bins : Nat) (hb : 0 < bins) :
    (∀ i j, i ≤ j → j ≤ bins → binStart g bins i ≤ binStart g bins j) ∧
    binStart g bins 0 = 0 ∧ binStart g bins bins = g :=
  let h := binStart_ok g bins hb
  ⟨h.mono, h.zero, h.last⟩

/-- Quadtree partition at bin level, every `levels`: the leaf squares are exactly the bin pairs
(column `b` < row `a` < `2^levels`) outside the 2-bin diagonal triangles, each produced once, and every pass
index is a valid index into `squares`. -/
theorem squares_cover_once (levels : Nat) :
    (∀ a b, (∃ s ∈ allSquares levels, s.x = b ∧ s.y + 1 = a) ↔ (b < a ∧ a < 2 ^ levels ∧ b / 2 ≠ a / 2)) ∧
    ((allSquares levels).map (fun s => (s.x, s.y))).Nodup ∧
    (∀ s ∈ allSquares levels, 1 ≤ s.pass ∧ s.pass - 1 < 2 ^ levels - 1) :=
  ⟨squares_cover levels, squares_keys_nodup levels,
   fun s hs => by have := squares_pass_valid levels hs; omega⟩

/-- `pass_conflict_free` (bin level, every `levels`, every pass): two different entries of `squares[p]` share
neither a column bin nor a row bin, and the column bin of one is not the row bin of the other. -/
theorem pass_conflict_free (levels p : Nat) :
    (passSquares (allSquares levels) p).Pairwise
      (fun s t => s.1 ≠ t.1 ∧ s.2 ≠ t.2 ∧ s.1 ≠ t.2 + 1 ∧ s.2 + 1 ≠ t.1) :=
  passSquares_conflict_free levels p

theorem planInit_ge2 {np : Nat} (h : 2 ≤ np) :
    planInit np = ⟨2 ^ levelsFor np, squaresOf (levelsFor np)⟩ := by
  have : ¬ np < 2 := by omega
  simp [planInit, this, squaresOf, allSquares]

theorem levelsFor_pos (np : Nat) : 1 ≤ levelsFor np := by unfold levelsFor; omega

theorem p2dAllPairs_par {g np : Nat} (h : 2 ≤ np) (rt : RangeType) :
    p2dAllPairs g (planInit np) true rt =
      pairsOf (binStart g (2 ^ levelsFor np)) rt (2 ^ levelsFor np) (squaresOf (levelsFor np)) := by
  rw [planInit_ge2 h]
  have hb : (2 ^ levelsFor np == 1) = false := by
    have : 2 ≤ 2 ^ levelsFor np := by
      calc 2 = 2 ^ 1 := rfl
        _ ≤ 2 ^ levelsFor np := Nat.pow_le_pow_right (by omega) (levelsFor_pos np)
    have := levelsFor_pos np
    simp; omega
  simp only [p2dAllPairs, runsSequential, Bool.not_true, Bool.false_or, hb, Bool.false_eq_true, if_false]
  rfl

/-- `pairs_covered_once`, parallel branch (`numProcessors ≥ 2` reaches `init`), every grid size and range type:
the user invocations `task.execute(i, j)` of one `Parallel2DExecutor::execute` contain every pair of the requested
range exactly once and nothing else. -/
theorem pairs_covered_once (g np : Nat) (h : 2 ≤ np) (rt : RangeType) :
    (p2dAllPairs g (planInit np) true rt).Nodup ∧
    ∀ i j, (i, j) ∈ p2dAllPairs g (planInit np) true rt ↔ InRange rt g i j := by
  rw [p2dAllPairs_par h]
  have hb := binStart_ok g (2 ^ levelsFor np) (Nat.two_pow_pos _)
  exact ⟨pairsOf_nodup hb (levelsFor_pos np) rt, mem_pairsOf_iff hb (levelsFor_pos np) rt⟩

/-- `pairs_covered_once`, sequential branch (single bin: `numProcessors < 2`, with or without an executor — one
triangle of width 1 over everything, run by the caller). -/
theorem pairs_covered_once_seq (g np : Nat) (h : np < 2) (hasExecutor : Bool) (rt : RangeType) :
    (p2dAllPairs g (planInit np) hasExecutor rt).Nodup ∧
    ∀ i j, (i, j) ∈ p2dAllPairs g (planInit np) hasExecutor rt ↔ InRange rt g i j := by
  have hp : planInit np = ⟨1, []⟩ := by simp [planInit, h]
  rw [hp]
  have hs : runsSequential ⟨1, []⟩ hasExecutor = true := by simp [runsSequential]
  simp only [p2dAllPairs, hs, if_true]
  rw [triPairs_eq]
  refine ⟨wedge_nodup _ _ _ _, ?_⟩
  intro i j
  rw [mem_wedge]
  have e0 : binStart g 1 (1 * 0) = 0 := by simp [binStart]
  have e1 : binStart g 1 (1 * (0 + 1)) = g := by simp [binStart]
  rw [e0, e1]
  cases rt <;> simp only [triUpper, InRange] <;> omega

/-- what `Parallel2DExecutor(gridSize, numProcessors)` executes: every pair of the range exactly once, for every
grid size, requested processor count and range type. -/
theorem pairs_covered_once_ctorOwn (g np : Nat) (rt : RangeType) :
    (p2dAllPairs g (ctorOwn g np).1 (ctorOwn g np).2 rt).Nodup ∧
    ∀ i j, (i, j) ∈ p2dAllPairs g (ctorOwn g np).1 (ctorOwn g np).2 rt ↔ InRange rt g i j := by
  simp only [ctorOwn]
  by_cases h : 2 ≤ min np (g / 2)
  · rw [decide_eq_true h]; exact pairs_covered_once g _ h rt
  · rw [decide_eq_false h]; exact pairs_covered_once_seq g _ (by omega) false rt

/-- what `Parallel2DExecutor(gridSize, ParallelExecutor&)` executes, for **every** processor count the machine
reports (the partition is sized from the machine, not from the executor handed in): every pair of the range
exactly once. -/
theorem pairs_covered_once_ctorExt (g ncpu : Nat) (rt : RangeType) :
    (p2dAllPairs g (ctorExt ncpu).1 (ctorExt ncpu).2 rt).Nodup ∧
    ∀ i j, (i, j) ∈ p2dAllPairs g (ctorExt ncpu).1 (ctorExt ncpu).2 rt ↔ InRange rt g i j := by
  by_cases h : 2 ≤ ncpu
  · exact pairs_covered_once g ncpu h rt
  · exact pairs_covered_once_seq g ncpu (by omega) true rt

/-- the one-processor configuration of the external-executor constructor (finding F10, fixed in /repo by taking
the sequential branch when there is a single bin; before the fix `execute` issued `executor->execute(triangle, 0)`
and no pass, i.e. ran nothing): it now runs the single width-1 triangle on the caller and covers the range. -/
theorem ctorExt_one_cpu_sequential (g ncpu : Nat) (h : ncpu < 2) (rt : RangeType) :
    runsSequential (ctorExt ncpu).1 (ctorExt ncpu).2 = true ∧
    ∀ i j, (i, j) ∈ p2dAllPairs g (ctorExt ncpu).1 (ctorExt ncpu).2 rt ↔ InRange rt g i j := by
  refine ⟨by simp [ctorExt, planInit, h, runsSequential], (pairs_covered_once_seq g ncpu h true rt).2⟩

example : ¬ InRange .half 3 2 1 → False := fun h => h (by simp [InRange])   -- the range is not empty there

/-- two invocations may run concurrently only if they share no index -/
def NoShareIdx (p q : Nat × Nat) : Prop := p.1 ≠ q.1 ∧ p.1 ≠ q.2 ∧ p.2 ≠ q.1 ∧ p.2 ≠ q.2

/-- `pass_conflict_free` at index level: within every `executor->execute(…)` call issued by
`Parallel2DExecutor::execute` (the triangle pass and every square pass), the user invocations belonging to two
different task indices never share a row or column index. -/
theorem blocks_conflict_free (g np : Nat) (h : 2 ≤ np) (rt : RangeType) :
    ∀ round ∈ p2dRounds g (planInit np) rt,
      round.Pairwise (fun A B => ∀ p ∈ A, ∀ q ∈ B, NoShareIdx p q) := by
  rw [planInit_ge2 h]
  set L := levelsFor np with hL
  have hL1 : 1 ≤ L := levelsFor_pos np
  have hb := binStart_ok g (2 ^ L) (Nat.two_pow_pos _)
  have hB := two_pow_even hL1
  intro round hr
  simp only [p2dRounds, List.mem_cons, List.mem_map] at hr
  rcases hr with rfl | ⟨sqs, hsqs, rfl⟩
  · rw [List.pairwise_map]
    refine List.Pairwise.imp_of_mem ?_ (List.nodup_range (n := 2 ^ L / 2))
    intro k k' hk hk' hne p hp q hq
    have hk := List.mem_range.mp hk
    have hk' := List.mem_range.mp hk'
    obtain ⟨a, b, ha, hb', hai, hbj, hak, hbk⟩ := tri_bins hb (by omega) (show (p.1, p.2) ∈ _ from hp)
    obtain ⟨a', b', ha', hb'', hai', hbj', hak', hbk'⟩ := tri_bins hb (by omega) (show (q.1, q.2) ∈ _ from hq)
    refine ⟨?_, ?_, ?_, ?_⟩ <;> intro e
    · rw [e] at hai; have := inBin_unique hb ha ha' hai hai'; omega
    · rw [e] at hai; have := inBin_unique hb ha hb'' hai hbj'; omega
    · rw [e] at hbj; have := inBin_unique hb hb' ha' hbj hai'; omega
    · rw [e] at hbj; have := inBin_unique hb hb' hb'' hbj hbj'; omega
  · obtain ⟨pz, _, rfl⟩ := List.mem_map.mp hsqs
    rw [List.pairwise_map]
    have hpw := passSquares_conflict_free L pz
    -- attach membership so that the bounds of every square are available
    refine List.Pairwise.imp_of_mem ?_ hpw
    intro sq sq' hsq hsq' hc p hp q hq
    obtain ⟨s, hs, _, rfl⟩ := mem_passSquares hsq
    obtain ⟨s', hs', _, rfl⟩ := mem_passSquares hsq'
    obtain ⟨b1, b2, _⟩ := sq_mem_bounds hs
    obtain ⟨b1', b2', _⟩ := sq_mem_bounds hs'
    obtain ⟨c1, c2, c3, c4⟩ := hc
    simp only at c1 c2 c3 c4
    have key : ∀ (u v : Nat) (a a' : Nat), a < 2 ^ L → a' < 2 ^ L → a ≠ a' →
        InBin (binStart g (2 ^ L)) a u → InBin (binStart g (2 ^ L)) a' v → u ≠ v := by
      intro u v a a' ha ha' hne hu hv e
      rw [e] at hu
      exact hne (inBin_unique hb ha ha' hu hv)
    have hp' := sq_bins (show (p.1, p.2) ∈ _ from hp)
    have hq' := sq_bins (show (q.1, q.2) ∈ _ from hq)
    rcases hp' with ⟨p1, p2⟩ | ⟨_, p1, p2⟩ <;> rcases hq' with ⟨q1, q2⟩ | ⟨_, q1, q2⟩
    · exact ⟨key _ _ _ _ (by omega) (by omega) (by omega) p1 q1, key _ _ _ _ (by omega) (by omega) (by omega) p1 q2,
             key _ _ _ _ (by omega) (by omega) (by omega) p2 q1, key _ _ _ _ (by omega) (by omega) (by omega) p2 q2⟩
    · exact ⟨key _ _ _ _ (by omega) (by omega) (by omega) p1 q2, key _ _ _ _ (by omega) (by omega) (by omega) p1 q1,
             key _ _ _ _ (by omega) (by omega) (by omega) p2 q2, key _ _ _ _ (by omega) (by omega) (by omega) p2 q1⟩
    · exact ⟨key _ _ _ _ (by omega) (by omega) (by omega) p2 q1, key _ _ _ _ (by omega) (by omega) (by omega) p2 q2,
             key _ _ _ _ (by omega) (by omega) (by omega) p1 q1, key _ _ _ _ (by omega) (by omega) (by omega) p1 q2⟩
    · exact ⟨key _ _ _ _ (by omega) (by omega) (by omega) p2 q2, key _ _ _ _ (by omega) (by omega) (by omega) p2 q1,
             key _ _ _ _ (by omega) (by omega) (by omega) p1 q2, key _ _ _ _ (by omega) (by omega) (by omega) p1 q1⟩

/-! ## 2. ParallelExecutor: every schedule -/
namespace PE

theorem execsOf_map_exec (l : List Nat) : execsOf (l.map WEv.exec) = l := by
  induction l with
  | nil => rfl
  | cons a l ih => simp [execsOf, ih]

theorem execsOf_append (a b : List WEv) : execsOf (a ++ b) = execsOf a ++ execsOf b := by
  induction a with
  | nil => rfl
  | cons x a ih => cases x <;> simp [execsOf, ih]

theorem execsOf_fullLog (n t w : Nat) : execsOf (fullLog n t w) = stripe n t w := by
  simp [fullLog, execsOf_append, execsOf_map_exec, execsOf]

theorem stripes_partition {n : Nat} (hn : 0 < n) (t : Nat) :
    (((List.range n).map (stripe n t)).flatten).Nodup ∧
    ∀ i, i ∈ ((List.range n).map (stripe n t)).flatten ↔ i < t := by
  constructor
  · rw [List.nodup_flatten]
    constructor
    · intro l hl
      obtain ⟨w, _, rfl⟩ := List.mem_map.mp hl
      exact stripe_nodup hn
    · rw [List.pairwise_map]
      refine List.Pairwise.imp_of_mem ?_ (List.nodup_range (n := n))
      intro a b ha hb hab i hi hj
      rw [mem_stripe hn (List.mem_range.mp ha)] at hi
      rw [mem_stripe hn (List.mem_range.mp hb)] at hj
      omega
  · intro i
    simp only [List.mem_flatten, List.mem_map, List.mem_range]
    constructor
    · rintro ⟨l, ⟨w, hw, rfl⟩, hi⟩
      exact ((mem_stripe hn hw).mp hi).1
    · intro hi
      exact ⟨_, ⟨i % n, Nat.mod_lt _ hn, rfl⟩, (mem_stripe hn (Nat.mod_lt _ hn)).mpr ⟨hi, rfl⟩⟩

theorem zip_map_mem {α β : Type} (f : α → β) : ∀ (l : List α) (r : β) (t : α), (r, t) ∈ (l.map f).zip l → r = f t := by
  intro l
  induction l with
  | nil => intro r t h; simp at h
  | cons a l ih =>
    intro r t h
    simp only [List.map_cons, List.zip_cons_cons, List.mem_cons, Prod.mk.injEq] at h
    rcases h with ⟨rfl, rfl⟩ | h
    · rfl
    · exact ih r t h

/-- the state reached by any schedule is reachable; the invariants hold there -/
theorem inv_of_schedule (n : Nat) (hn : 0 < n) (todo : List Nat) (sched : List Act) :
    LockInv (run (init n todo) sched) ∧ PhaseInv (run (init n todo) sched) ∧ (run (init n todo) sched).n = n :=
  reach_inv hn (reach_run sched Reach.init)

/-- `each_index_once`: for every worker count, every sequence of `execute(task, times)` calls and **every
schedule**: whenever an `execute` has returned, the callbacks completed during it contain every index
`0..times-1` exactly once (`r` is the snapshot of the workers' logs taken at the step where `execute` returns). -/
theorem each_index_once (n : Nat) (hn : 0 < n) (todo : List Nat) (sched : List Act) :
    let s := run (init n todo) sched
    s.hist.length = s.doneTimes.length ∧
    ∀ r t, (r, t) ∈ s.hist.zip s.doneTimes →
      ((r.map execsOf).flatten).Nodup ∧ ∀ i, i ∈ (r.map execsOf).flatten ↔ i < t := by
  intro s
  have inv : LockInv s ∧ PhaseInv s ∧ s.n = n := inv_of_schedule n hn todo sched
  clear_value s
  obtain ⟨_, hp, hsn⟩ := inv
  have hh : s.hist = s.doneTimes.map (roundLog s.n) := hp.hist
  refine ⟨by rw [hh]; simp, ?_⟩
  intro r t hrt
  rw [hh] at hrt
  have hr := zip_map_mem _ _ _ _ hrt
  have hsn' : s.n = n := hsn
  subst hr
  have e : (roundLog s.n t).map execsOf = (List.range s.n).map (stripe s.n t) := by
    simp only [roundLog, List.map_map]
    apply List.map_congr_left
    intro w _
    exact execsOf_fullLog _ _ _
  rw [e, hsn']
  exact stripes_partition hn t

/-- `init_before_finish_after`: under every schedule, the callbacks a worker completed during an `execute` that
has returned are exactly: one `initialize`, then its executions, then one `finish` — for each of the `n` workers
(so `initialize`/`finish` are called `n` times whatever `times` is). -/
theorem init_before_finish_after (n : Nat) (hn : 0 < n) (todo : List Nat) (sched : List Act) :
    let s := run (init n todo) sched
    ∀ r t, (r, t) ∈ s.hist.zip s.doneTimes →
      r.length = n ∧ ∀ l ∈ r, ∃ idx : List Nat, l = [WEv.init] ++ idx.map WEv.exec ++ [WEv.fin] := by
  intro s r t hrt
  have inv : LockInv s ∧ PhaseInv s ∧ s.n = n := inv_of_schedule n hn todo sched
  clear_value s
  obtain ⟨_, hp, hsn⟩ := inv
  have hh : s.hist = s.doneTimes.map (roundLog s.n) := hp.hist
  rw [hh] at hrt
  have hr := zip_map_mem _ _ _ _ hrt
  have hsn' : s.n = n := hsn
  subst hr
  refine ⟨by simp [roundLog, hsn'], ?_⟩
  intro l hl
  simp only [roundLog, List.mem_map] at hl
  obtain ⟨w, _, rfl⟩ := hl
  exact ⟨stripe s.n t w, rfl⟩

/-- `finish_mutually_exclusive`: under every schedule, a worker inside `task.finish()` owns the mutex, hence no
two workers are ever inside `finish` at the same time. -/
theorem finish_mutually_exclusive (n : Nat) (hn : 0 < n) (todo : List Nat) (sched : List Act) :
    let s := run (init n todo) sched
    ∀ a b, a < n → b < n → (s.wk a).pc = .inFin → (s.wk b).pc = .inFin →
      a = b ∧ s.mutex = some (.worker a) := by
  intro s a b ha hb hpa hpb
  have inv : LockInv s ∧ PhaseInv s ∧ s.n = n := inv_of_schedule n hn todo sched
  clear_value s
  obtain ⟨hl, _, hsn⟩ := inv
  have hsn' : s.n = n := hsn
  have h1 := hl.w a (by omega) (by rw [hpa]; rfl)
  have h2 := hl.w b (by omega) (by rw [hpb]; rfl)
  rw [h1] at h2
  injection h2 with h2; injection h2 with h2
  exact ⟨h2, h1⟩

/-- `execute_returns_after_all`: under every schedule, whenever the caller is not inside `execute` (before the
call, after it has returned, in the destructor) no worker is inside or committed to a callback: `execute` returns
only after all `initialize`/`execute`/`finish` callbacks have completed, and none starts before the next call. -/
theorem execute_returns_after_all (n : Nat) (hn : 0 < n) (todo : List Nat) (sched : List Act) :
    let s := run (init n todo) sched
    phaseOf s.mpc ≠ .round → ∀ w, w < n → inCallbacks (s.wk w).pc = false := by
  intro s hph w hw
  have inv : LockInv s ∧ PhaseInv s ∧ s.n = n := inv_of_schedule n hn todo sched
  clear_value s
  obtain ⟨_, hp, hsn⟩ := inv
  have hsn' : s.n = n := hsn
  cases hc : inCallbacks (s.wk w).pc
  · rfl
  · exact absurd (wok_callbacks (hp.wk w (by omega)) hc) hph

theorem wround_inExec {n count w : Nat} {x : Worker} (h : WOk .round n count w x) (hp : x.pc = .inExec) :
    x.idx % n = w ∧ x.idx < count := by
  simp only [WOk] at h
  unfold WRound at h
  rw [hp] at h
  exact ⟨h.2.2.2.1, h.2.2.2.2.1⟩

/-- under every schedule, two workers that are inside `task.execute(index)` at the same time work on different
indices, both valid for the current call -/
theorem concurrent_execs_distinct (n : Nat) (hn : 0 < n) (todo : List Nat) (sched : List Act) :
    let s := run (init n todo) sched
    ∀ a b, a < n → b < n → a ≠ b → (s.wk a).pc = .inExec → (s.wk b).pc = .inExec →
      (s.wk a).idx ≠ (s.wk b).idx ∧ (s.wk a).idx < s.count ∧ (s.wk b).idx < s.count := by
  intro s a b ha hb hab hpa hpb
  have inv : LockInv s ∧ PhaseInv s ∧ s.n = n := inv_of_schedule n hn todo sched
  clear_value s
  obtain ⟨_, hp, hsn⟩ := inv
  have hsn' : s.n = n := hsn
  have wa := hp.wk a (by omega)
  have wb := hp.wk b (by omega)
  have hph := wok_callbacks wa (by rw [hpa]; rfl)
  rw [hph] at wa wb
  obtain ⟨ma, la⟩ := wround_inExec wa hpa
  obtain ⟨mb, lb⟩ := wround_inExec wb hpb
  refine ⟨?_, la, lb⟩
  intro e
  rw [e] at ma; omega

/-- `no_deadlock`: in every state reachable by any schedule, unless the caller has finished its program and the
destructor has joined all workers, some thread can take a regular (non-spurious) step: no lost wake-up, no
circular wait. -/
theorem no_deadlock (n : Nat) (hn : 0 < n) (todo : List Nat) (sched : List Act) :
    let s := run (init n todo) sched
    s.mpc ≠ .final → ∃ t, (step s (.step t)).isSome = true := by
  intro s hf
  have inv : LockInv s ∧ PhaseInv s ∧ s.n = n := inv_of_schedule n hn todo sched
  clear_value s
  obtain ⟨hl, hp, _⟩ := inv
  exact no_deadlock_aux hl hp hf

/-- Parallel2DExecutor on top of ParallelExecutor: if the blocks of the pass being executed are pairwise
conflict free (`blocks_conflict_free`), then under every schedule the user invocations of two workers that are
inside `execute` simultaneously never share an index. -/
theorem p2d_no_concurrent_shared_index (n : Nat) (hn : 0 < n) (todo : List Nat) (sched : List Act)
    (round : List (List (Nat × Nat))) (hpw : round.Pairwise (fun A B => ∀ p ∈ A, ∀ q ∈ B, NoShareIdx p q)) :
    let s := run (init n todo) sched
    ∀ a b, a < n → b < n → a ≠ b → (s.wk a).pc = .inExec → (s.wk b).pc = .inExec →
      ∀ A B, round[(s.wk a).idx]? = some A → round[(s.wk b).idx]? = some B →
        ∀ p ∈ A, ∀ q ∈ B, NoShareIdx p q := by
  intro s a b ha hb hab hpa hpb A B hA hB p hp q hq
  have hced : (s.wk a).idx ≠ (s.wk b).idx ∧ (s.wk a).idx < s.count ∧ (s.wk b).idx < s.count :=
    concurrent_execs_distinct n hn todo sched a b ha hb hab hpa hpb
  clear_value s
  obtain ⟨hne, _, _⟩ := hced
  have hsym : ∀ (A B : List (Nat × Nat)), (∀ p ∈ A, ∀ q ∈ B, NoShareIdx p q) → ∀ p ∈ B, ∀ q ∈ A, NoShareIdx p q := by
    intro A B h p hp q hq
    obtain ⟨h1, h2, h3, h4⟩ := h q hq p hp
    exact ⟨fun e => h1 e.symm, fun e => h3 e.symm, fun e => h2 e.symm, fun e => h4 e.symm⟩
  rw [List.pairwise_iff_getElem] at hpw
  obtain ⟨hia, rfl⟩ := List.getElem?_eq_some_iff.mp hA
  obtain ⟨hib, rfl⟩ := List.getElem?_eq_some_iff.mp hB
  rcases Nat.lt_or_gt_of_ne hne with hlt | hgt
  · exact hpw _ _ hia hib hlt p hp q hq
  · exact hsym _ _ (hpw _ _ hib hia hgt) p hp q hq

/-- the composition instantiated with the real partition: for every `numProcessors ≥ 2`, grid size, range type and
every pass `round` of `p2dRounds` (triangle pass or any square pass), under every schedule of the executor, two workers
that are inside `execute` simultaneously run user invocations that share no row/column index. -/
theorem p2d_pass_no_concurrent_shared_index (g np : Nat) (hnp : 2 ≤ np) (rt : RangeType)
    (round : List (List (Nat × Nat))) (hr : round ∈ p2dRounds g (planInit np) rt)
    (n : Nat) (hn : 0 < n) (todo : List Nat) (sched : List Act) :
    let s := run (init n todo) sched
    ∀ a b, a < n → b < n → a ≠ b → (s.wk a).pc = .inExec → (s.wk b).pc = .inExec →
      ∀ A B, round[(s.wk a).idx]? = some A → round[(s.wk b).idx]? = some B →
        ∀ p ∈ A, ∀ q ∈ B, NoShareIdx p q :=
  p2d_no_concurrent_shared_index n hn todo sched round (blocks_conflict_free g np hnp rt round hr)

end PE

/-! ## 3. ParallelWorkQueue: every schedule (one producer) -/
namespace WQ

theorem inv_of_schedule (n q : Nat) (todo : List Op) (sched : List Act) :
    LockInv (run (init n q todo) sched) ∧ DataInv (run (init n q todo) sched) ∧ (run (init n q todo) sched).n = n :=
  reach_inv (reach_run sched Reach.init)

/-- under every schedule no task is ever executed (and deleted) more than once, and tasks that were not added are
never touched -/
theorem task_never_twice (n q : Nat) (todo : List Op) (sched : List Act) :
    let s := run (init n q todo) sched
    ∀ t, s.execCount t ≤ 1 ∧ (s.nextId ≤ t → s.execCount t = 0) := by
  intro s t
  have inv : LockInv s ∧ DataInv s ∧ s.n = n := inv_of_schedule n q todo sched
  clear_value s
  obtain ⟨_, hd, _⟩ := inv
  refine ⟨by rw [hd.ec t]; split <;> omega, ?_⟩
  intro h
  rw [hd.ec t, (hd.locf t).mpr h]; simp

/-- `task_executed_once` / `destructor_drains`: under every schedule, once the destructor has completed every
task that was added has been executed and deleted exactly once (`n ≥ 1` worker threads). -/
theorem task_executed_once (n q : Nat) (hn : 0 < n) (todo : List Op) (sched : List Act) :
    let s := run (init n q todo) sched
    s.ppc = .final → ∀ t, s.execCount t = if t < s.nextId then 1 else 0 := by
  intro s hf t
  have inv : LockInv s ∧ DataInv s ∧ s.n = n := inv_of_schedule n q todo sched
  clear_value s
  obtain ⟨_, hd, hsn⟩ := inv
  have hsn' : s.n = n := hsn
  have hdone := hd.fdone hf
  have hq : s.queue = [] := (hd.exd 0 (by omega) (by rw [hdone 0 (by omega)]; rfl)).2
  exact all_done_of_idle hd hq (fun w hw u => by rw [hdone w hw]; simp) t

/-- `flush_waits_for_all_prior`: under every schedule, at the moment a `flush()` is about to return (it holds the
mutex and has seen `pendingTasks == 0`) every task added before it has been executed and deleted exactly once;
and for every `flush` that has returned the number of completed tasks equalled the number of added tasks. -/
theorem flush_waits_for_all_prior (n q : Nat) (todo : List Op) (sched : List Act) :
    let s := run (init n q todo) sched
    (s.ppc = .flushChk → s.pending = 0 → ∀ t, s.execCount t = if t < s.nextId then 1 else 0) ∧
    (∀ p ∈ s.flushLog, p.1 = p.2) := by
  intro s
  have inv : LockInv s ∧ DataInv s ∧ s.n = n := inv_of_schedule n q todo sched
  clear_value s
  obtain ⟨_, hd, _⟩ := inv
  refine ⟨?_, hd.flush⟩
  intro _ hp0 t
  have hpend := hd.pend
  have hsum : sumN (fun v => load (s.wk v)) s.n = 0 := by omega
  have hq : s.queue = [] := List.eq_nil_of_length_eq_zero (by omega)
  refine all_done_of_idle hd hq ?_ t
  intro w hw u hpc
  have := sumN_zero hsum w hw
  simp [load, runs, hpc, isRun] at this

/-- every access to `taskQueue` / `pendingTasks` other than the reads in the worker's loop condition is made by
the owner of `queueMutex`, and there is at most one owner: two threads are never inside critical sections at
once (`locked_accesses_race_free`; the unlocked reads are finding F9). -/
theorem locked_accesses_exclusive (n q : Nat) (todo : List Op) (sched : List Act) :
    let s := run (init n q todo) sched
    (∀ a b, a < n → b < n → holdsW (s.wk a).pc = true → holdsW (s.wk b).pc = true → a = b) ∧
    (∀ a, a < n → holdsW (s.wk a).pc = true → holdsP s.ppc = false) := by
  intro s
  have inv : LockInv s ∧ DataInv s ∧ s.n = n := inv_of_schedule n q todo sched
  clear_value s
  obtain ⟨hl, _, hsn⟩ := inv
  have hsn' : s.n = n := hsn
  constructor
  · intro a b ha hb hha hhb
    have h1 := hl.w a (by omega) hha
    have h2 := hl.w b (by omega) hhb
    rw [h1] at h2; injection h2 with h2; injection h2 with h2
  · intro a ha hha
    have h1 := hl.w a (by omega) hha
    cases hp : holdsP s.ppc
    · rfl
    · have := hl.m hp; rw [h1] at this; injection this with this; cases this

/-- `no_deadlock` for the work queue (one producer, `n ≥ 1` workers, `queueSize ≥ 1`): in every state reachable by
any schedule — spurious wake-ups and every `notify_one` choice included — unless the destructor has completed, some
thread has an enabled NON-spurious step: no lost wake-up between `addTask`/`flush` and the workers, no circular wait.
(As for ParallelExecutor this is enabledness, not a fairness/termination statement.) -/
theorem no_deadlock (n q : Nat) (hn : 0 < n) (hq : 0 < q) (todo : List Op) (sched : List Act) :
    let s := run (init n q todo) sched
    s.ppc ≠ .final → ∃ t pick, (step s (.step t pick)).isSome = true := by
  intro s hf
  have inv : LockInv s ∧ DataInv s ∧ LiveInv s ∧ s.n = n ∧ s.queueSize = q := reach_live hn (reach_run sched Reach.init)
  clear_value s
  obtain ⟨hl, hd, hv, _, hqs⟩ := inv
  exact no_deadlock_aux hl hd hv (by rw [hqs]; exact hq) hf

end WQ

/-! ## 4. Non-vacuity: concrete schedules reach the interesting states -/

set_option maxRecDepth 1000000 in
/-- a complete run exists: 2 workers, `execute(task, 3)`, round-robin schedule reaches `final` with the full
history -/
example :
    let s := PE.run (PE.init 2 [3]) ((List.range 60).flatMap fun _ => [.step .main, .step (.worker 0), .step (.worker 1)])
    s.mpc = .final ∧ s.doneTimes = [3] ∧ s.hist.map (fun r => r.map PE.execsOf) = [[[0, 2], [1]]] := by decide

set_option maxRecDepth 1000000 in
example :
    let s := WQ.run (WQ.init 2 1 [.add, .add, .flush, .add])
      ((List.range 60).flatMap fun _ => [.step .main 0, .step (.worker 0) 0, .step (.worker 1) 0])
    s.ppc = .final ∧ s.nextId = 3 ∧ s.flushLog = [(2, 2)] ∧ (List.range 4).map s.execCount = [1, 1, 1, 0] := by decide

end C33
