import SimbodyModel.TreeDyn
import SimbodyProofs.TreeDynAbs
import SimbodyProofs.TreeDynAbsMass
import SimbodyProofs.TreeDynRefine

/-!
# TreeDynSim — the EXECUTED recursions of `SimbodyModel/TreeDyn.lean` compute what the abstract twin defines

`absT dec t` maps an executed rose tree `Tr α` to the twin `MBT K (Fin 3 ⊕ Fin 3)`: per body
`d := #H-columns`, `H := hMat b.H`, `phi := phiMat b.l`, `M := b.Mk.toMat`, `DI :=` the matrix of the executed `DI` list,
and the vector fields `ud`, `f`, `a`, `b`, `Fa` filled from the executed inputs (slices of the u-vectors, bias table).

Every theorem has the form: *for every executed tree `t` and every incoming parent acceleration `AP`, the value the
executed passes (`Tr.mapDown` / `Tr.mapUp` with the executed node functions) put at the root of `t` equals the twin's
quantity on `absT t`*.  Because the result tree below a node is, by definition of `mapDown`/`mapUp`, the passes applied to
that subtree with the propagated state, this is a statement about **every node of the executed result**.
-/

open Matrix

namespace TreeDyn
open TreeDynAbs TreeDynAbs.MBT

variable {K : Type} [Field K]

/-! ## abstraction -/

/-- matrix of a list of rows -/
def lmat (d : Nat) (m : List (List K)) : Matrix (Fin d) (Fin d) K := fun i j => (m.getD i []).getD j 0

/-- the twin's body record of an executed body with its decorations -/
def absBd (b : Body K) (di : List (List K)) (ud f : List K) (bias : Bias K) : Bd K I6 :=
  { d := b.H.length, H := hMat b.H, phi := phiMat b.l, M := b.Mk.toMat, DI := lmat b.H.length di,
    f := lvec b.H.length f, ud := lvec b.H.length ud,
    a := bias.a.toVec, b := bias.b.toVec, Fa := bias.F.toVec }

mutual
/-- abstraction of an executed (annotated) tree; `dec` says how a node annotation is read as a twin body -/
def absT {α : Type} (dec : α → Bd K I6) : Tr α → MBT K I6
  | Tr.mk x cs => MBT.mk (dec x) (absL dec cs)
def absL {α : Type} (dec : α → Bd K I6) : List (Tr α) → List (MBT K I6)
  | [] => []
  | c :: cs => absT dec c :: absL dec cs
end

@[simp] theorem bd_absT {α : Type} (dec : α → Bd K I6) (t : Tr α) : bd (absT dec t) = dec t.val := by
  cases t; simp [absT, bd, Tr.val]

/-! ## generic facts about the two passes and about folds -/

theorem foldl_add_toVec {γ : Type} (g : γ → SV K) (l : List γ) (a : SV K) :
    (l.foldl (fun acc c => acc.add (g c)) a).toVec = a.toVec + (l.map (fun c => (g c).toVec)).sum := by
  induction l generalizing a with
  | nil => simp
  | cons x xs ih => simp only [List.foldl_cons, List.map_cons, List.sum_cons, ih, SV.add_toVec]; abel

theorem mapUpL_vals {α β : Type} (f : α → List β → β) (cs : List (Tr α)) :
    (Tr.mapUpL f cs).map Tr.val = cs.map (fun c => (Tr.mapUp f c).val) := by
  induction cs with
  | nil => simp [Tr.mapUpL]
  | cons c cs ih => simp [Tr.mapUpL, ih]

theorem mapUp_val {α β : Type} (f : α → List β → β) (x : α) (cs : List (Tr α)) :
    (Tr.mapUp f (Tr.mk x cs)).val = f x (cs.map (fun c => (Tr.mapUp f c).val)) := by
  simp only [Tr.mapUp, Tr.val, mapUpL_vals]

theorem mapDown_mk {α β γ : Type} (f : γ → α → β × γ) (x : α) (cs : List (Tr α)) (g : γ) :
    Tr.mapDown f (Tr.mk x cs) g = Tr.mk (f g x).1 (Tr.mapDownL f cs (f g x).2) := by
  simp only [Tr.mapDown]

theorem mapDownL_map {α β γ : Type} (f : γ → α → β × γ) (cs : List (Tr α)) (g : γ) :
    Tr.mapDownL f cs g = cs.map (fun c => Tr.mapDown f c g) := by
  induction cs with
  | nil => simp [Tr.mapDownL]
  | cons c cs ih => simp [Tr.mapDownL, ih]

theorem FrPkids_sum (ab fb : Bd K I6 → I6 → K) (pol : Pol K I6) (ms : List (MBT K I6)) (A : I6 → K) :
    FrPkids ab fb pol ms A = (ms.map (fun m => (bd m).phi *ᵥ FrP ab fb pol m ((bd m).phiᵀ *ᵥ A))).sum := by
  induction ms with
  | nil => simp [FrPkids]
  | cons m ms ih => simp [FrPkids, ih]

theorem absL_map {α : Type} (dec : α → Bd K I6) (cs : List (Tr α)) : absL dec cs = cs.map (absT dec) := by
  induction cs with
  | nil => simp [absL]
  | cons c cs ih => simp [absL, ih]

/-- a list of scalars of the right length is the `List.ofFn` of its `lvec` -/
theorem hTMul_eq_ofFn (h : List (SV K)) (f : SV K) :
    hTMul h f = List.ofFn ((hMat h)ᵀ *ᵥ f.toVec) := by
  apply List.ext_getElem
  · simp [hTMul]
  · intro i h1 h2
    have hi : i < h.length := by simpa [hTMul] using h1
    have := hTMul_toVec h f ⟨i, hi⟩
    simp only [List.getElem_ofFn]
    rw [← this]
    simp [List.getD_eq_getElem?_getD, List.getElem?_eq_getElem h1]

/-! ## multiplyByM : `mulMOut` / `mulMIn`  ↔  `accP zb fieldPol` / `FrP zb zb fieldPol` -/

section mulM
variable (v : Array K)

/-- decoration for `multiplyByM(v)`: the node's block of `v` sits in the `ud` field -/
def decV (b : Body K) : Bd K I6 := absBd b [] (slice v b.u0 b.d) [] Bias.zero

/-- the executed result at the root of a subtree: (body, F, tau) -/
def mulMRoot (t : Tr (Body K)) (AP : SV K) : Body K × SV K × List K :=
  (Tr.mapUp mulMIn (Tr.mapDown (mulMOut v) t AP)).val

theorem mulMRoot_mk (b : Body K) (cs : List (Tr (Body K))) (AP : SV K) :
    mulMRoot v (Tr.mk b cs) AP =
      mulMIn (b, (mulMOut v AP b).2) (cs.map (fun c => mulMRoot v c (mulMOut v AP b).2)) := by
  simp only [mulMRoot, mapDown_mk, mapUp_val, mapDownL_map, List.map_map]
  rfl

theorem mulMOut_toVec (b : Body K) (AP : SV K) :
    (mulMOut v AP b).2.toVec
      = accP zb fieldPol (MBT.mk (decV v b) ([] : List (MBT K I6))) ((phiMat b.l)ᵀ *ᵥ AP.toVec) := by
  simp only [mulMOut, accP_zb, SV.add_toVec, phiTMul_toVec, hMul_toVec, fieldPol, bd, decV, absBd, Body.d]
  rfl

mutual
/-- **multiplyByM, every node**: the body is kept, and the spatial force `F` computed by `multiplyByMPass2Inward` is the
twin's `FrP zb zb fieldPol`; hence `tau = ~H F` is the node's block of `M v` as defined on the twin -/
theorem sim_mulM : ∀ (t : Tr (Body K)) (AP : SV K),
    (mulMRoot v t AP).1 = t.val ∧
    (mulMRoot v t AP).2.1.toVec
      = FrP zb zb fieldPol (absT (decV v) t) ((phiMat t.val.l)ᵀ *ᵥ AP.toVec)
  | Tr.mk b cs, AP => by
      have hk := sim_mulM_kids cs (mulMOut v AP b).2
      have hA : (mulMOut v AP b).2.toVec
          = accP zb fieldPol (absT (decV v) (Tr.mk b cs)) ((phiMat b.l)ᵀ *ᵥ AP.toVec) := by
        rw [mulMOut_toVec]; simp only [accP, absT, bd, fieldPol]; rfl
      refine ⟨by rw [mulMRoot_mk]; rfl, ?_⟩
      rw [mulMRoot_mk]
      simp only [mulMIn, Tr.val, foldl_add_toVec, SpI.mulSV_toVec, List.map_map, Function.comp_def]
      rw [hk, hA]
      simp only [absT, FrP, bd, decV, absBd, zb, add_zero]
theorem sim_mulM_kids : ∀ (cs : List (Tr (Body K))) (A : SV K),
    (cs.map (fun c => (phiMul (mulMRoot v c A).1.l (mulMRoot v c A).2.1).toVec)).sum
      = FrPkids zb zb fieldPol (absL (decV v) cs) A.toVec
  | [], A => by simp [absL, FrPkids]
  | c :: cs, A => by
      obtain ⟨h1, h2⟩ := sim_mulM c A
      rw [List.map_cons, List.sum_cons, sim_mulM_kids cs A]
      simp only [absL, FrPkids, phiMul_toVec, h1, h2, bd_absT]
      simp only [decV, absBd]
end

/-- the block of `M v` the executed pass stores at a node is `Hᵀ F` of the twin (as a list of its entries) -/
theorem sim_mulM_tau (t : Tr (Body K)) (AP : SV K) :
    (mulMRoot v t AP).2.2
      = List.ofFn ((hMat t.val.H)ᵀ *ᵥ FrP zb zb fieldPol (absT (decV v) t) ((phiMat t.val.l)ᵀ *ᵥ AP.toVec)) := by
  rw [← (sim_mulM v t AP).2]
  cases t with
  | mk b cs => rw [mulMRoot_mk]; simp only [mulMIn, Tr.val, hTMul_eq_ofFn]

/-- the body acceleration / velocity `J v` the executed outward pass stores at a node is the twin's `accP` -/
theorem sim_mulM_acc (t : Tr (Body K)) (AP : SV K) :
    (Tr.mapDown (mulMOut v) t AP).val.2.toVec
      = accP zb fieldPol (absT (decV v) t) ((phiMat t.val.l)ᵀ *ᵥ AP.toVec) := by
  cases t with
  | mk b cs =>
    simp only [mapDown_mk, Tr.val]
    show (mulMOut v AP b).2.toVec = _
    rw [mulMOut_toVec]; simp only [accP, absT, bd, fieldPol]; rfl
end mulM


/-! ## inverse dynamics : `invOut` / `invIn`  ↔  `accP ab fieldPol` / `FrP ab fb fieldPol`, `resid` -/

theorem ofFn_lvec (d : Nat) (l : List K) (h : l.length = d) : List.ofFn (lvec d l) = l := by
  apply List.ext_getElem
  · simp [h]
  · intro i h1 h2
    simp [lvec, List.getD_eq_getElem?_getD, List.getElem?_eq_getElem h2]

theorem slice_length (v : Array K) (u0 d : Nat) : (slice v u0 d).length = d := by simp [slice]

theorem lsub_ofFn (d : Nat) (a : Fin d → K) (l : List K) (h : l.length = d) :
    lsub (List.ofFn a) l = List.ofFn (a - lvec d l) := by
  apply List.ext_getElem
  · simp [lsub, h]
  · intro i h1 h2
    have hi : i < l.length := by simp [lsub] at h1; omega
    simp [lsub, lvec, List.getD_eq_getElem?_getD, List.getElem?_eq_getElem hi]

/-- the twin's bias parameters read from the node fields -/
abbrev abF : Bd K I6 → I6 → K := fun n => n.a
abbrev fbF : Bd K I6 → I6 → K := fun n => n.b - n.Fa

section invdyn
variable (f udot : Array K)

/-- decoration for inverse dynamics: `u̇` block in `ud`, applied mobility force block in `f`, bias terms from the table -/
def decI (x : Body K × Bias K) : Bd K I6 := absBd x.1 [] (slice udot x.1.u0 x.1.d) (slice f x.1.u0 x.1.d) x.2

/-- the executed result at the root of a subtree: (body, A_GB, F, residual) -/
def invRoot (t : Tr (Body K × Bias K)) (AP : SV K) : Body K × SV K × SV K × List K :=
  (Tr.mapUp (invIn f) (Tr.mapDown (invOut udot) t AP)).val

theorem invRoot_mk (x : Body K × Bias K) (cs : List (Tr (Body K × Bias K))) (AP : SV K) :
    invRoot f udot (Tr.mk x cs) AP =
      invIn f (x.1, x.2, (invOut udot AP x).2) (cs.map (fun c => invRoot f udot c (invOut udot AP x).2)) := by
  simp only [invRoot, mapDown_mk, mapUp_val, mapDownL_map, List.map_map]
  rfl

theorem invOut_toVec (x : Body K × Bias K) (AP : SV K) (cs : List (MBT K I6)) :
    (invOut udot AP x).2.toVec
      = accP abF fieldPol (MBT.mk (decI f udot x) cs) ((phiMat x.1.l)ᵀ *ᵥ AP.toVec) := by
  simp only [invOut, accP, SV.add_toVec, phiTMul_toVec, hMul_toVec, fieldPol, bd, decI, absBd, Body.d, abF]
  rfl

mutual
/-- **inverse dynamics, every node**: the spatial force through the mobilizer computed by
`calcInverseDynamicsPass2Inward` is the twin's `FrP` (bias `a`, `b − F_applied` read from the node) -/
theorem sim_inv : ∀ (t : Tr (Body K × Bias K)) (AP : SV K),
    (invRoot f udot t AP).1 = t.val.1 ∧
    (invRoot f udot t AP).2.2.1.toVec
      = FrP abF fbF fieldPol (absT (decI f udot) t) ((phiMat t.val.1.l)ᵀ *ᵥ AP.toVec)
  | Tr.mk x cs, AP => by
      have hk := sim_inv_kids cs (invOut udot AP x).2
      have hA := invOut_toVec f udot x AP (absL (decI f udot) cs)
      refine ⟨by rw [invRoot_mk]; rfl, ?_⟩
      rw [invRoot_mk]
      simp only [invIn, Tr.val, foldl_add_toVec, SV.sub_toVec, SV.add_toVec, SpI.mulSV_toVec, List.map_map,
        Function.comp_def]
      rw [hk, hA]
      simp only [absT, FrP, bd, decI, absBd, fbF]
      abel
theorem sim_inv_kids : ∀ (cs : List (Tr (Body K × Bias K))) (A : SV K),
    (cs.map (fun c => (phiMul (invRoot f udot c A).1.l (invRoot f udot c A).2.2.1).toVec)).sum
      = FrPkids abF fbF fieldPol (absL (decI f udot) cs) A.toVec
  | [], A => by simp [absL, FrPkids]
  | c :: cs, A => by
      obtain ⟨h1, h2⟩ := sim_inv c A
      rw [List.map_cons, List.sum_cons, sim_inv_kids cs A]
      simp only [absL, FrPkids, phiMul_toVec, h1, h2, bd_absT]
      simp only [decI, absBd]
end

/-- the residual the executed pass stores at a node is the twin's `resid = Hᵀ F − f` -/
theorem sim_inv_resid (t : Tr (Body K × Bias K)) (AP : SV K) :
    (invRoot f udot t AP).2.2.2
      = List.ofFn (resid abF fbF fieldF fieldPol (absT (decI f udot) t) ((phiMat t.val.1.l)ᵀ *ᵥ AP.toVec)) := by
  have h2 := (sim_inv f udot t AP).2
  cases t with
  | mk x cs =>
    simp only [resid, Tr.val] at *
    rw [← h2, invRoot_mk]
    simp only [invIn, hTMul_eq_ofFn]
    rw [lsub_ofFn x.1.H.length _ (slice f x.1.u0 x.1.d) (by simp [slice_length, Body.d])]
    simp only [absT, bd, decI, absBd, fieldF, Body.d]
    rfl

/-- the body acceleration the executed outward pass stores at a node is the twin's `accP` -/
theorem sim_inv_acc (t : Tr (Body K × Bias K)) (AP : SV K) :
    (invRoot f udot t AP).2.1.toVec
      = accP abF fieldPol (absT (decI f udot) t) ((phiMat t.val.1.l)ᵀ *ᵥ AP.toVec) := by
  cases t with
  | mk x cs =>
    rw [invRoot_mk]
    simp only [invIn, Tr.val, absT]
    exact invOut_toVec f udot x AP _
end invdyn

/-! ## multiplyBySystemJacobianTranspose : `jtIn`  ↔  `Zx`, `JT` -/

section jt
variable (forces : Array (SV K))

def decJ (b : Body K) : Bd K I6 := absBd b [] [] [] ⟨SV.zero, SV.zero, forces.getD b.idx SV.zero⟩

def jtRoot (t : Tr (Body K)) : Body K × SV K × List K := (Tr.mapUp (jtIn forces) t).val

theorem jtRoot_mk (b : Body K) (cs : List (Tr (Body K))) :
    jtRoot forces (Tr.mk b cs) = jtIn forces b (cs.map (jtRoot forces)) := by
  simp only [jtRoot, mapUp_val]
  rfl

theorem Zxkids_sum (X : Bd K I6 → I6 → K) (ms : List (MBT K I6)) :
    Zxkids X ms = (ms.map (fun m => (bd m).phi *ᵥ Zx X m)).sum := by
  induction ms with
  | nil => simp [Zxkids]
  | cons m ms ih => simp [Zxkids, ih]

mutual
/-- **Jᵀ F, every node**: the accumulated spatial force is the twin's `Zx` (so `~H z` is the block `JT`) -/
theorem sim_jt : ∀ (t : Tr (Body K)),
    (jtRoot forces t).1 = t.val ∧
    (jtRoot forces t).2.1.toVec = Zx (fun n => n.Fa) (absT (decJ forces) t)
  | Tr.mk b cs => by
      have hk := sim_jt_kids cs
      refine ⟨by rw [jtRoot_mk]; rfl, ?_⟩
      rw [jtRoot_mk]
      simp only [jtIn, foldl_add_toVec, List.map_map, Function.comp_def]
      rw [hk]
      simp only [absT, Zx, decJ, absBd]
theorem sim_jt_kids : ∀ (cs : List (Tr (Body K))),
    (cs.map (fun c => (phiMul (jtRoot forces c).1.l (jtRoot forces c).2.1).toVec)).sum
      = Zxkids (fun n => n.Fa) (absL (decJ forces) cs)
  | [] => by simp [absL, Zxkids]
  | c :: cs => by
      obtain ⟨h1, h2⟩ := sim_jt c
      rw [List.map_cons, List.sum_cons, sim_jt_kids cs]
      simp only [absL, Zxkids, phiMul_toVec, h1, h2, bd_absT]
      simp only [decJ, absBd]
end

theorem sim_jt_block (t : Tr (Body K)) :
    (jtRoot forces t).2.2 = List.ofFn (JT (fun n => n.Fa) (absT (decJ forces) t)) := by
  have h2 := (sim_jt forces t).2
  cases t with
  | mk b cs =>
    simp only [JT]
    rw [← h2, jtRoot_mk]
    simp only [jtIn, hTMul_eq_ofFn, absT, bd, decJ, absBd]
end jt

end TreeDyn
