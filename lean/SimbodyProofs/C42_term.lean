import SimbodyProofs.C42_break

/-! # C42 — termination: the fuel of the three loops is never exhausted -/
namespace C42

theorem foldlM_ne_err {ε σ α : Type} (e : ε) (f : σ → α → Except ε σ) (l : List α)
    (hstep : ∀ s x, x ∈ l → f s x ≠ .error e) : ∀ s, l.foldlM f s ≠ .error e := by
  induction l with
  | nil => intro s h; simp [List.foldlM, pure, Except.pure] at h
  | cons a l ih =>
    intro s h
    simp only [List.foldlM_cons, bind, Except.bind] at h
    cases hfa : f s a with
    | error e' =>
      simp only [hfa] at h
      cases h
      exact hstep s a List.mem_cons_self hfa
    | ok s1 =>
      simp only [hfa] at h
      exact ih (fun s x hx => hstep s x (List.mem_cons_of_mem _ hx)) s1 h

/-- every mobilizer list is shorter than the body list (Ground is never an outboard body) -/
theorem Inv.mobs_lt {g : Input} {s : St} (hI : Inv g s) : s.mobs.length + 1 ≤ s.nb := by
  have hnd : (0 :: outbs s).Nodup := List.nodup_cons.mpr ⟨hI.outb_pos, hI.outb_nodup⟩
  have hlt : ∀ x ∈ 0 :: outbs s, x < s.nb := by
    intro x hx
    rcases List.mem_cons.mp hx with rfl | hx
    · exact Nat.lt_of_lt_of_le hI.nb_pos hI.nb_ge
    · obtain ⟨m, hm, ho⟩ := mem_outbs.mp hx
      rw [← ho]; exact hI.outb_lt m hm
  have := nodup_length_le hnd hlt
  simpa [outbs] using this

/-- the extension loop never needs a second iteration: a candidate returned by the searches is massful -/
theorem extend_nofuel {g : Input} (f : Nat) (s : St) (added : List Nat) : extend g (f + 1) s added ≠ .error .fuel := by
  intro h
  unfold extend at h
  cases hf : findFwd g s (lastOutb s) with
  | some jf =>
    obtain ⟨_, _, _, _, _, hfm⟩ := findFwd_spec hf
    simp only [hf, hfm, if_true] at h
    cases h
  | none =>
    simp only [hf] at h
    cases hr : findRev g s (lastOutb s) with
    | some jr =>
      obtain ⟨_, _, _, _, _, hrm⟩ := findRev_spec hr
      simp only [hr, hrm, if_true] at h
      cases h
    | none => simp [hr] at h

theorem growJoint_nofuel {g : Input} (level : Nat) (st : GS) (j : Nat) : growJoint g level st j ≠ .error .fuel := by
  intro h
  unfold growJoint at h
  cases hjm : st.s.jmob j with
  | some mi =>
    simp only [hjm] at h
    split_ifs at h
  | none =>
    simp only [hjm] at h
    split_ifs at h
    cases hext : extend g ((addMob st.s j).nb + 1) (addMob st.s j) (j :: st.added) with
    | error e =>
      simp only [hext] at h
      cases h
      exact extend_nofuel _ _ _ hext
    | ok p => simp [hext] at h

theorem growLevels_nofuel {g : Input} : ∀ (f level : Nat) (s : St) (added : List Nat),
    Inv g s → M7 g s → s.nb + 2 ≤ f + level → level ≤ s.nb + 1 →
    growLevels g f level s added ≠ .error .fuel := by
  intro f
  induction f with
  | zero => intro level s added _ _ h1 h2; omega
  | succ f ih =>
    intro level s added hI hM h1 h2 h
    unfold growLevels at h
    cases hfold : (List.range s.joints.length).foldlM (growJoint g level) ⟨s, added, false⟩ with
    | error e =>
      simp only [hfold] at h
      cases h
      exact foldlM_ne_err Err.fuel (growJoint g level) _ (fun st x _ => growJoint_nofuel level st x) _ hfold
    | ok st =>
      simp only [hfold] at h
      have hG : GInv g level s st :=
        growFold_spec (st := ⟨s, added, false⟩) ⟨hI, hM, Ext.refl s, by simp⟩ hfold
      by_cases hany : st.any = true
      · simp only [hany, if_true] at h
        obtain ⟨m, hm, hml⟩ := hG.any hany
        have hb := hG.inv.lvl_bound m hm
        have hlt := hG.inv.mobs_lt
        have hnb := hG.ext.nb
        exact ih (level + 1) st.s st.added hG.inv hG.m7 (by omega) (by omega) h
      · simp [hany] at h

theorem growTree_nofuel {g : Input} {s : St} (hI : Inv g s) (hM : M7 g s) : growTree g s ≠ .error .fuel :=
  growLevels_nofuel _ _ _ _ hI hM (by omega) (by omega)

/-! ### the level-1 pass attaches every body that has a usable joint from Ground -/

theorem foldlM_range_succ {ε σ : Type} (f : σ → Nat → Except ε σ) (n : Nat) (s : σ) :
    (List.range (n + 1)).foldlM f s = (do let s1 ← (List.range n).foldlM f s; f s1 n) := by
  rw [List.range_succ, List.foldlM_append]
  simp

/-- in the branch of `growJoint` that adds joint `j`, the result extends `addMob st.s j` -/
theorem growJoint_reach {g : Input} {level : Nat} {s0 : St} {st st' : GS} {j : Nat}
    (hG : GInv g level s0 st) (hj : j < st.s.joints.length) (h : growJoint g level st j = .ok st')
    (hfree : st.s.jmob j = none) (hnl : (jointAt st.s j).mustLoop = false)
    (hx : inTree st.s (jointAt st.s j).parent ≠ inTree st.s (jointAt st.s j).child)
    (hl : inbLevel st.s (jointAt st.s j) + 1 = level) : Ext (addMob st.s j) st'.s := by
  unfold growJoint at h
  have hx' : (inTree st.s (jointAt st.s j).parent == inTree st.s (jointAt st.s j).child) = false := by
    simpa using hx
  have hl' : (inbLevel st.s (jointAt st.s j) + 1 != level) = false := by simp [hl]
  simp only [hfree, hnl, hx', hl', Bool.false_eq_true, if_false] at h
  have hpre : Pre st.s j := ⟨hj, hfree, hnl, hx⟩
  by_cases hstop : ((typeOf g (jointAt st.s j).type).nmob == 0 || decide (0 < massOf g (lastOutb (addMob st.s j)))) = true
  · simp only [hstop, if_true, Except.ok.injEq] at h
    subst h; exact Ext.refl _
  · simp only [hstop, Bool.false_eq_true, if_false] at h
    cases hext : extend g ((addMob st.s j).nb + 1) (addMob st.s j) (j :: st.added) with
    | error e => simp [hext] at h
    | ok p =>
      obtain ⟨s2, added2⟩ := p
      simp only [hext, Except.ok.injEq] at h
      subst h
      obtain ⟨m, l, hinb, houtb, hmlev, hmj, hends, heq⟩ := addMob_eq hpre
      have hO1 : M7open g (addMob st.s j) := by rw [heq]; exact M7open_addMobWith_of_M7 j m hG.m7
      exact (extend_spec _ _ _ _ _ (addMob_inv hG.inv hpre) hO1 hext).2.1

/-- both endpoints of a joint are in the tree right after `addMob` -/
theorem addMob_both {s : St} {j : Nat} (h : Pre s j) :
    inTree (addMob s j) (jointAt s j).parent = true ∧ inTree (addMob s j) (jointAt s j).child = true := by
  obtain ⟨m, l, hinb, houtb, hlev, hmj, hends, heq⟩ := addMob_eq h
  have hE := addMob_ext h
  have hin : inTree (addMob s j) m.inb = true := hE.tree _ (by simp [inTree, hinb])
  have hout : inTree (addMob s j) m.outb = true := by
    rw [heq]; show (upd s.level m.outb (some m.level) m.outb).isSome = true; simp
  rcases hends with ⟨_, hi, ho⟩ | ⟨_, hi, ho⟩
  · rw [← hi, ← ho]; exact ⟨hin, hout⟩
  · rw [← hi, ← ho]; exact ⟨hout, hin⟩

/-- a joint from Ground that may become a tree joint -/
def GroundJoint (s : St) (j : Nat) : Prop :=
  j < s.joints.length ∧ (jointAt s j).parent = 0 ∧ (jointAt s j).mustLoop = false

theorem level1_pass {g : Input} {s : St} {added : List Nat} (hI : Inv g s) (hM : M7 g s) (hB : PhaseB g s) :
    ∀ n, n ≤ s.joints.length → ∀ st, (List.range n).foldlM (growJoint g 1) ⟨s, added, false⟩ = .ok st →
      GInv g 1 s st ∧ ∀ j, j < n → GroundJoint s j → inTree st.s (jointAt s j).child = true := by
  intro n
  induction n with
  | zero =>
    intro _ st h
    simp [pure, Except.pure] at h
    subst h
    exact ⟨⟨hI, hM, Ext.refl s, by simp⟩, by intro j hj; omega⟩
  | succ k ih =>
    intro hk st h
    rw [foldlM_range_succ] at h
    simp only [bind, Except.bind] at h
    cases hpre : (List.range k).foldlM (growJoint g 1) ⟨s, added, false⟩ with
    | error e => simp [hpre] at h
    | ok st1 =>
      simp only [hpre] at h
      obtain ⟨hG1, hdone⟩ := ih (Nat.le_of_succ_le hk) st1 hpre
      have hkl : k < st1.s.joints.length := by rw [hG1.ext.joints]; exact hk
      have hG := growJoint_spec hG1 hkl h
      -- monotonicity from st1 to st
      have hE : Ext st1.s st.s :=
        (growJoint_spec (s0 := st1.s) ⟨hG1.inv, hG1.m7, Ext.refl _, hG1.any⟩ hkl h).ext
      refine ⟨hG, ?_⟩
      intro j hj hgj
      by_cases hjk : j = k
      · subst hjk
        obtain ⟨_, hp0, hnl⟩ := hgj
        have hja : jointAt st1.s j = jointAt s j := jointAt_congr hG1.ext.joints j
        have hI1 := hG1.inv
        have hptree : inTree st1.s (jointAt st1.s j).parent = true := by
          rw [hja, hp0]; simp [inTree, hI1.lvl0]
        cases hjm : st1.s.jmob j with
        | some mi =>
          -- already a mobilizer: both endpoints are in the tree
          have hmem := (hI1.jmob_some j).mp (by rw [hjm]; rfl)
          obtain ⟨m, hm, hmj⟩ := mem_mjoints.mp hmem
          have hout : inTree st1.s m.outb = true := (hI1.tree _).mpr (Or.inr (mem_outbs.mpr ⟨m, hm, rfl⟩))
          have hinb : inTree st1.s m.inb = true := by
            obtain ⟨_, l, hl, _⟩ := hI1.levels m hm
            simp [inTree, hl]
          rcases (hI1.mob_kind m hm).2 with hk' | hk'
          · rcases hk'.2.2 with ⟨_, _, ho⟩ | ⟨_, hi, _⟩
            · rw [hmj, hja] at ho; rw [← ho]; exact hE.tree _ hout
            · rw [hmj, hja] at hi; rw [← hi]; exact hE.tree _ hinb
          · exfalso
            have h1 := hk'.1
            have h2 := hI1.outb_lt m hm
            have h3 := (hB.ext hG1.ext).nb
            omega
        | none =>
          by_cases hc : inTree st1.s (jointAt st1.s j).child = true
          · rw [← hja]; exact hE.tree _ hc
          · have hc' : inTree st1.s (jointAt st1.s j).child = false := by simpa using hc
            have hx : inTree st1.s (jointAt st1.s j).parent ≠ inTree st1.s (jointAt st1.s j).child := by
              rw [hptree, hc']; simp
            have hlev : inbLevel st1.s (jointAt st1.s j) + 1 = 1 := by
              unfold inbLevel
              rw [hja, hp0, hI1.lvl0]
            have hreach := growJoint_reach hG1 hkl h hjm (by rw [hja]; exact hnl) hx hlev
            have hboth := addMob_both (s := st1.s) (j := j) ⟨hkl, hjm, by rw [hja]; exact hnl, hx⟩
            rw [← hja]; exact hreach.tree _ hboth.2
      · exact hE.tree _ (hdone j (by omega) hgj)

/-- a body with a usable joint from Ground that is not yet in the tree -/
def Pending (s : St) : Prop := ∃ j, GroundJoint s j ∧ inTree s (jointAt s j).child = false

theorem growTree_progress {g : Input} {s s1 : St} (hI : Inv g s) (hM : M7 g s) (hB : PhaseB g s)
    (h : growTree g s = .ok s1) (hP : Pending s) : s.mobs.length < s1.mobs.length := by
  obtain ⟨j, hgj, hout⟩ := hP
  unfold growTree growLevels at h
  cases hfold : (List.range s.joints.length).foldlM (growJoint g 1) ⟨s, [], false⟩ with
  | error e => simp [hfold] at h
  | ok st =>
    simp only [hfold] at h
    obtain ⟨hG, hdone⟩ := level1_pass hI hM hB s.joints.length (Nat.le_refl _) st hfold
    have hin_st := hdone j hgj.1 hgj
    have hE1 : Ext st.s s1 := by
      by_cases hany : st.any = true
      · simp only [hany, if_true] at h
        exact (growLevels_spec _ _ _ _ _ hG.inv hG.m7 h).2.2
      · simp only [hany, Bool.false_eq_true, if_false, Except.ok.injEq] at h
        subst h; exact Ext.refl _
    have hE : Ext s s1 := hG.ext.trans hE1
    have hin1 : inTree s1 (jointAt s j).child = true := hE1.tree _ hin_st
    obtain ⟨ext, hext⟩ := hE.mobs
    cases ext with
    | nil =>
      exfalso
      have hI1 : Inv g s1 := by
        by_cases hany : st.any = true
        · simp only [hany, if_true] at h
          exact (growLevels_spec _ _ _ _ _ hG.inv hG.m7 h).1
        · simp only [hany, Bool.false_eq_true, if_false, Except.ok.injEq] at h
          subst h; exact hG.inv
      have h1 := (hI1.tree (jointAt s j).child).mp hin1
      have : outbs s1 = outbs s := by simp [outbs, hext]
      rw [this] at h1
      have h2 := (hI.tree (jointAt s j).child).mpr h1
      unfold inTree at hout
      rw [hout] at h2; cases h2
    | cons a t => rw [hext]; simp

theorem outer_nofuel {g : Input} : ∀ (f : Nat) (s : St) (p : Nat),
    Inv g s → M7 g s → PhaseB g s → (p = 1 → Pending s) → p ≤ 1 → g.bodies.length + 1 ≤ f + s.mobs.length + p →
    outer g f s ≠ .error .fuel := by
  intro f
  induction f with
  | zero =>
    intro s p hI _ hB _ hp1 hsum
    have := hI.mobs_lt
    have := hB.nb
    omega
  | succ f ih =>
    intro s p hI hM hB hp hp1 hsum h
    unfold outer at h
    cases hg : growTree g s with
    | error e =>
      simp only [hg] at h
      cases h
      exact growTree_nofuel hI hM hg
    | ok s1 =>
      simp only [hg] at h
      obtain ⟨hI1, hM1, hE1⟩ := growTree_spec hI hM hg
      have hB1 := hB.ext hE1
      have hlen : s.mobs.length + p ≤ s1.mobs.length := by
        by_cases hp' : p = 1
        · have := growTree_progress hI hM hB hg (hp hp'); omega
        · have := hE1.length_le; omega
      cases hc : chooseNewBaseBody s1 with
      | none => simp [hc] at h
      | some b =>
        simp only [hc] at h
        obtain ⟨hbout, hb0, hbn⟩ := choose_some hc
        rw [hB1.nb] at hbn
        refine ih (connectToGround s1 b) 1 (connect_inv hI1 hbn) (connect_M7 hI1 hM1) (hB1.connect b) ?_ (Nat.le_refl _) ?_ h
        · intro _
          refine ⟨s1.joints.length, ⟨by simp [connectToGround], ?_, ?_⟩, ?_⟩
          · rw [jointAt_connect_len]
          · rw [jointAt_connect_len]
          · rw [jointAt_connect_len]; exact hbout
        · show g.bodies.length + 1 ≤ f + s1.mobs.length + 1
          omega

/-- **Termination.**  On a legal input the fuel of the model's three loops is never exhausted, i.e. the model
returns what the (fuel-free) C++ loops return: a result or one of the three documented errors. -/
theorem generate_nofuel {g : Input} (hW : WF g) : generate g ≠ .error .fuel := by
  intro h
  unfold generate at h
  cases h1 : step1 g with
  | error e =>
    simp only [h1] at h
    cases h
    unfold step1 at h1
    refine foldlM_ne_err Err.fuel (checkBody g) _ ?_ _ h1
    intro s x _ hx
    unfold checkBody at hx
    dsimp only at hx
    split_ifs at hx <;> cases hx
  | ok s1 =>
    simp only [h1] at h
    obtain ⟨hI1, hM1, hB1, _⟩ := step1_spec hW h1
    cases h2 : outer g (g.bodies.length + 1) s1 with
    | error e =>
      simp only [h2] at h
      cases h
      exact outer_nofuel _ s1 0 hI1 hM1 hB1 (by intro h0; cases h0) (Nat.zero_le _) (by omega) h2
    | ok s2 => simp [h2] at h

end C42
