import SimbodyProofs.TreeDynAbs
import SimbodyProofs.TreeDynAbsMass
import SimbodyProofs.TreeDynRefine
import SimbodyProofs.TreeDynSim
import SimbodyProofs.TreeDynSimAbi
import SimbodyProofs.TreeDynSimFwd
import Mathlib.Tactic.Linarith
import Mathlib.Tactic.Positivity
import Mathlib.Tactic.NormNum

/-!
# C01 — mass-matrix operators agree; M is symmetric positive definite; KE = ½ uᵀ M u

Statements are about the abstract twin `TreeDynAbs.MBT` of the executable model `SimbodyModel/TreeDyn.lean`:
*any* rose tree, *any* joint dimension per body, *any* hinge matrices `H`, shift operators `phi`,
spatial inertias `M`, over *any* field `K` (ordered field for positive definiteness).
A vector of generalized coordinates is a *policy* (`Pol`): the block of the vector belonging to a body
(`fieldPol` reads an arbitrary vector stored in the node).  With zero bias (`zb`):

* block of `M v` at a node            = `Hᵀ (FrP zb zb v)`     (`multiplyByMPass1Outward/Pass2Inward`)
* block of `M⁻¹ f` at a node          = `udotA zb zb fm`           (`multiplyByMInvPass1Inward/Pass2Outward`, `f` = the `f` fields)
* `wᵀ M v`                            = `Sq v w`,   `KE`       = `Σ ½ Vᵀ M_k V`

`WF t` = all body inertias symmetric and every `DI` is a two-sided inverse of `D = Hᵀ P H`; it is *derived*
from symmetric positive definite body inertias and injective hinge maps in `WF_of_posdef` (Schur complement),
and validated numerically on every correspondence case (`O wf 1`).
The last section restates the refinement lemmas tying the structured 6-D operations of the executable model
to the dense matrices used here.
-/

open Matrix

namespace C01
open TreeDynAbs TreeDynAbs.MBT

variable {K : Type} [Field K] {ι : Type} [Fintype ι] [DecidableEq ι]

/-- **M (M⁻¹ f) = f.**  Run the inverse operator (articulated-body passes with zero bias) on the `f` fields,
feed the result to the O(n) product: at *every* node the block of the product is that node's `f`
(`fm` assigns the blocks of `f`; `fieldF` reads them from the nodes). -/
theorem mulM_mulMInv (fm : MobF K ι) (t : MBT K ι) (Ap : ι → K) (h : WF t) :
    AllN zb (udotA zb zb fm)
      (fun t Ap => (bd t).Hᵀ *ᵥ FrP zb zb (udotA zb zb fm) t Ap = fm t) t Ap :=
  allN_of_forall zb (udotA zb zb fm) _ (fun t Ap h => residual_root zb zb fm t Ap h) t Ap h

/-- **M⁻¹ (M v) = v.**  If the `f` fields hold the blocks of `M v` (for an arbitrary vector/policy `v`),
the inverse operator returns `v` at every node. -/
theorem mulMInv_mulM (fm : MobF K ι) (v : Pol K ι) (t : MBT K ι) (Ap : ι → K) (h : WF t)
    (hf : AllN zb v (fun t Ap => (bd t).Hᵀ *ᵥ FrP zb zb v t Ap = fm t) t Ap) :
    AllN zb v (fun t Ap => udotA zb zb fm t Ap = v t Ap) t Ap :=
  (inverse_core zb zb fm v t Ap h hf).2

/-- forest form (the bodies hanging off Ground, which has zero acceleration) of `mulM_mulMInv` -/
theorem forest_mulM_mulMInv (fm : MobF K ι) (cs : List (MBT K ι)) (h : ∀ c ∈ cs, WF c) :
    AllNk zb (udotA zb zb fm)
      (fun t Ap => (bd t).Hᵀ *ᵥ FrP zb zb (udotA zb zb fm) t Ap = fm t) cs 0 :=
  allNk_of_forall zb (udotA zb zb fm) _ (fun t Ap h => residual_root zb zb fm t Ap h) cs 0 h

/-- forest form of `mulMInv_mulM` -/
theorem forest_mulMInv_mulM (fm : MobF K ι) (v : Pol K ι) (cs : List (MBT K ι)) (h : ∀ c ∈ cs, WF c)
    (hf : AllNk zb v (fun t Ap => (bd t).Hᵀ *ᵥ FrP zb zb v t Ap = fm t) cs 0) :
    AllNk zb v (fun t Ap => udotA zb zb fm t Ap = v t Ap) cs 0 :=
  (inverse_kids zb zb fm v cs 0 h hf).2

/-- the O(n) product is the congruence `Jᵀ diag(M_k) J`:  `wᵀ(M v) = Σ_k A_k(w)ᵀ M_k A_k(v)` -/
theorem mulM_is_JtMJ (v w : Pol K ι) (t : MBT K ι) : Sq v w t 0 0 = En v w t 0 0 := by
  rw [Sq_eq_En]; simp

/-- **M is symmetric**: `wᵀ (M v) = vᵀ (M w)` for all vectors `v`, `w` (all body inertias symmetric) -/
theorem mulM_symm (v w : Pol K ι) (t : MBT K ι) (hM : ∀ m ∈ bds t, m.Mᵀ = m.M) :
    Sq v w t 0 0 = Sq w v t 0 0 := by
  rw [mulM_is_JtMJ, mulM_is_JtMJ, En_symm v w t 0 0 hM]

/-- forest form of `mulM_symm` -/
theorem forest_mulM_symm (v w : Pol K ι) (cs : List (MBT K ι)) (hM : ∀ m ∈ bdsL cs, m.Mᵀ = m.M) :
    Sqk v w cs 0 0 = Sqk w v cs 0 0 := by
  rw [Sqk_eq_Enk, Sqk_eq_Enk, Enk_symm v w cs 0 0 hM]; simp

/-- **KE = ½ uᵀ M u** (`calcKineticEnergy` sums `½ V_kᵀ M_k V_k` over the bodies) -/
theorem ke_eq_half_uMu (u : Pol K ι) (t : MBT K ι) : KE u t 0 = Sq u u t 0 0 / 2 := by
  rw [KE_eq_half_En, mulM_is_JtMJ]

/-- forest form of `ke_eq_half_uMu` -/
theorem forest_ke_eq_half_uMu (u : Pol K ι) (cs : List (MBT K ι)) : KEk u cs 0 = Sqk u u cs 0 0 / 2 := by
  rw [KEk_eq_half_Enk, Sqk_eq_Enk]; simp

section order
variable [LinearOrder K] [IsStrictOrderedRing K]

/-- **M is positive definite**: if every body inertia is a positive definite form and every hinge map is
injective then `vᵀ M v > 0` unless `v` vanishes at every node -/
theorem mulM_posdef (v : Pol K ι) (t : MBT K ι) (hM : ∀ m ∈ bds t, PDq m.M)
    (hH : ∀ m ∈ bds t, ∀ u, m.H *ᵥ u = 0 → u = 0)
    (hv : ¬ AllN zb v (fun t Ap => v t Ap = 0) t 0) : 0 < Sq v v t 0 0 := by
  rw [mulM_is_JtMJ]
  rcases En_pos_or_zero v t hM hH with h | h
  · exact absurd h hv
  · exact h

/-- forest form of `mulM_posdef` -/
theorem forest_mulM_posdef (v : Pol K ι) (cs : List (MBT K ι)) (hM : ∀ m ∈ bdsL cs, PDq m.M)
    (hH : ∀ m ∈ bdsL cs, ∀ u, m.H *ᵥ u = 0 → u = 0)
    (hv : ¬ AllNk zb v (fun t Ap => v t Ap = 0) cs 0) : 0 < Sqk v v cs 0 0 := by
  rw [Sqk_eq_Enk]
  rcases Enk_pos_or_zero v cs hM hH with h | h
  · exact absurd h hv
  · simpa using h

/-- kinetic energy is non-negative (positive semidefinite body inertias suffice) -/
theorem ke_nonneg (u : Pol K ι) (t : MBT K ι) (V : ι → K) (hM : ∀ m ∈ bds t, PSDq m.M) : 0 ≤ KE u t V := by
  rw [KE_eq_half_En]
  have := En_nonneg u t V hM
  positivity

/-- **`WF` is not an extra assumption**: symmetric positive definite body inertias, injective hinge maps and
`DI = D⁻¹` (what `D.invert()` delivers) imply `WF` — every `D = Hᵀ P H` is invertible (Schur complement) -/
theorem WF_of_posdef (t : MBT K ι) (hM : ∀ m ∈ bds t, m.Mᵀ = m.M ∧ PDq m.M)
    (hH : ∀ m ∈ bds t, ∀ u, m.H *ᵥ u = 0 → u = 0) (hDI : DIok t) : WF t :=
  (WF_and_PD_of_posdef t hM hH hDI).1

/-- the articulated body inertia of every such tree is again positive definite -/
theorem abi_posdef (t : MBT K ι) (hM : ∀ m ∈ bds t, m.Mᵀ = m.M ∧ PDq m.M)
    (hH : ∀ m ∈ bds t, ∀ u, m.H *ᵥ u = 0 → u = 0) (hDI : DIok t) : PDq (P t) :=
  (WF_and_PD_of_posdef t hM hH hDI).2

end order

/-- articulated body inertias and `P⁺` are symmetric -/
theorem abi_symm (t : MBT K ι) (h : WF t) : (P t)ᵀ = P t ∧ (PP t)ᵀ = PP t :=
  ⟨P_symm t h, PP_symm t h⟩

/-! ## non-vacuity: a 3-body tree over ℚ satisfying every hypothesis used above -/

section example_tree
/-- one body with a 1-dimensional "spatial" space: `H = phi = M = DI = 1` -/
abbrev b1 : Bd ℚ (Fin 1) :=
  { d := 1, H := 1, phi := 1, M := 1, DI := 1, f := fun _ => 3, ud := fun _ => 2,
    a := 0, b := 0, Fa := 0 }
/-- root with two leaf children -/
abbrev t3 : MBT ℚ (Fin 1) := MBT.mk b1 [MBT.mk b1 [], MBT.mk b1 []]

theorem leaf_WF : WF (MBT.mk b1 []) := by
  refine WF.mk b1 [] (by simp) (by simp) ?_ ?_
  · simp [P, Pkids]
  · simp [P, Pkids]

theorem leaf_PP : PP (MBT.mk b1 []) = 0 := by
  rw [PP_mk]; simp [P, Pkids]

theorem t3_WF : WF t3 := by
  refine WF.mk b1 _ (by simp) ?_ ?_ ?_
  · intro c hc
    simp only [List.mem_cons, List.not_mem_nil, or_false, or_self] at hc
    rw [hc]; exact leaf_WF
  · simp only [P]; rw [Pkids_cons, Pkids_cons, leaf_PP]; simp [Pkids]
  · simp only [P]; rw [Pkids_cons, Pkids_cons, leaf_PP]; simp [Pkids]

example : ∃ t : MBT ℚ (Fin 1), WF t ∧ (bds t).length = 3 := ⟨t3, t3_WF, by simp [t3, bds, bdsL]⟩
end example_tree

/-! ## refinement: the structured operations of the executable model are these dense operations -/

section refine
open TreeDyn
variable {F : Type} [Field F]

/-- `PhiMatrix * SpatialVec` of the executable model is `phi *ᵥ ·` with `phi = [1 l×; 0 1]` -/
theorem refine_phiMul (l : V3 F) (f : SV F) : (phiMul l f).toVec = phiMat l *ᵥ f.toVec := phiMul_toVec l f
/-- `~PhiMatrix * SpatialVec` is `phiᵀ *ᵥ ·` -/
theorem refine_phiTMul (l : V3 F) (a : SV F) : (phiTMul l a).toVec = (phiMat l)ᵀ *ᵥ a.toVec := phiTMul_toVec l a
/-- `SpatialInertia * SpatialVec` is `M *ᵥ ·` with the symmetric matrix `toSpatialMat()` -/
theorem refine_spatialInertia (s : SpI F) (a : SV F) :
    (s.mulSV a).toVec = s.toMat *ᵥ a.toVec ∧ s.toMatᵀ = s.toMat := ⟨SpI.mulSV_toVec s a, SpI.toMat_symm s⟩
/-- `ArticulatedInertia * SpatialVec`, construction from a spatial inertia, and sums -/
theorem refine_artInertia (p q : ArtI F) (s : SpI F) (a : SV F) :
    (p.mulSV a).toVec = p.toMat *ᵥ a.toVec ∧ (ArtI.ofSpI s).toMat = s.toMat ∧
    (p.add q).toMat = p.toMat + q.toMat ∧ (p.sub q).toMat = p.toMat - q.toMat :=
  ⟨ArtI.mulSV_toVec p a, ArtI.ofSpI_toMat s, ArtI.add_toMat p q, ArtI.sub_toMat p q⟩
/-- `ArticulatedInertia::shift(l)` (the 72-flop `halfCrossDiff` formula) is `phi P phiᵀ` -/
theorem refine_abiShift (p : ArtI F) (l : V3 F) : (p.shift l).toMat = phiMat l * p.toMat * (phiMat l)ᵀ :=
  ArtI.shift_toMat p l
/-- the explicit symmetrisation in `realizeArticulatedBodyInertiasInward` does not change a symmetric block -/
theorem refine_symmetrize (m : M33 F) (h : m.toMatᵀ = m.toMat) (h2 : (2 : F) ≠ 0) :
    (Sym3.symmetrize m).toMat = m.toMat := Sym3.symmetrize_toMat m h h2
/-- `H * u` (fold over the list of hinge columns) and `~H * F` (one spatial dot product per column) of the executable
model are the dense products with the `6 × d` matrix `hMat h` -/
theorem refine_hinge (h : List (SV F)) (u : List F) (f : SV F) (j : Fin h.length) :
    (hMul h u).toVec = hMat h *ᵥ lvec h.length u ∧ (hTMul h f).getD j 0 = ((hMat h)ᵀ *ᵥ f.toVec) j :=
  ⟨hMul_toVec h u, hTMul_toVec h f j⟩
/-- spatial dot product (`~H F`, kinetic energy) is the dense dot product -/
theorem refine_dot (a b : SV F) : a.dot b = a.toVec ⬝ᵥ b.toVec := SV.dot_toVec a b
end refine


/-! ## simulation: the EXECUTED passes of `SimbodyModel/TreeDyn.lean` compute the twin's quantities at every node

`absT dec t` is the twin tree of an executed tree (`H := hMat b.H`, `phi := phiMat b.l`, `M := b.Mk.toMat`,
`DI :=` matrix of the executed `DI`, vector blocks = slices of the executed u-vectors).  Each statement is for every executed
(sub)tree and every incoming parent acceleration, i.e. for every node of the executed result.
NOT proved: the packing of the per-node blocks into the u-vector (`slice` / `scatter`, disjointness of the `u0` ranges), the
construction of the tree from the flat parent array (`build`), that `ginv` inverts `D` (`WF` is a hypothesis, validated per case
by `O wf`), and therefore the end-to-end identities `multiplyByM (multiplyByMInv f) = f` on arrays. -/
section simulation
open TreeDyn
variable {F : Type} [Field F]

/-- executed `multiplyByM`: at every node the stored block of `M v` is `Hᵀ F` with `F` the twin's `FrP zb zb` run on the
blocks of `v`, and the stored body acceleration is the twin's `accP` -/
theorem exec_mulM (v : Array F) (t : Tr (Body F)) (AP : SV F) :
    (mulMRoot v t AP).2.2
        = List.ofFn ((hMat t.val.H)ᵀ *ᵥ FrP zb zb fieldPol (absT (decV v) t) ((phiMat t.val.l)ᵀ *ᵥ AP.toVec)) ∧
    (Tr.mapDown (mulMOut v) t AP).val.2.toVec
        = accP zb fieldPol (absT (decV v) t) ((phiMat t.val.l)ᵀ *ᵥ AP.toVec) :=
  ⟨sim_mulM_tau v t AP, sim_mulM_acc v t AP⟩

/-- executed `realizeArticulatedBodyInertiasInward`: at every node `P`, `P⁺` (with the explicit symmetrisation) and
`G = P H DI` are the twin's — given `WF` of the abstracted result (every executed `D·DI = 1`), no prescribed mobilizer, char ≠ 2 -/
theorem exec_abi (ex : Body F → List F × List F × Bias F) (h2 : (2 : F) ≠ 0) (t : Tr (Body F)) (hnp : NoPresc t)
    (hwf : WF (absT (decA ex) (Tr.mapUp abiIn t))) : AbiOK ex (Tr.mapUp abiIn t) :=
  (sim_abi ex h2 t hnp hwf).2

/-- executed `multiplyByMInv`: at every node the stored block of `M⁻¹ f` is the twin's `udotA zb zb` (run on the blocks of
`f`) and the propagated acceleration is `accP zb` -/
theorem exec_mulMInv (f : Array F) (ta : Tr (Body F × Abi F)) (AP : SV F) (hok : AbiOK (exM f) ta)
    (hwf : WF (absT (decA (exM f)) ta)) :
    (mInvDown f ta AP).1.2
        = List.ofFn (udotA zb zb fieldF (absT (decA (exM f)) ta) ((phiMat ta.val.1.l)ᵀ *ᵥ AP.toVec)) ∧
    (mInvDown f ta AP).2.toVec
        = accP zb (udotA zb zb fieldF) (absT (decA (exM f)) ta) ((phiMat ta.val.1.l)ᵀ *ᵥ AP.toVec) :=
  sim_mInv_down f ta AP hok hwf
end simulation


/-! ## the positive-definiteness hypothesis is satisfiable by the executable data type (6-D) -/
section posdef6
open TreeDyn
variable {K : Type} [Field K] [LinearOrder K] [IsStrictOrderedRing K]

/-- the quadratic form of a spatial inertia: `xᵀ M x = m ( wᵀ(G − pointMass(p)) w + |v − p × w|² )` -/
theorem spatialInertia_quadratic (s : SpI K) (w v : V3 K) :
    (⟨w, v⟩ : SV K).toVec ⬝ᵥ (s.toMat *ᵥ (⟨w, v⟩ : SV K).toVec)
      = s.m * (w.dot ((s.G.sub (Sym3.pointMassAt s.p)).mulVec w) + (v.sub (s.p.cross w)).dot (v.sub (s.p.cross w))) := by
  rw [← SpI.mulSV_toVec, ← SV.dot_toVec]
  cases s with
  | mk m p G =>
    cases p; cases G; cases w; cases v
    simp only [SV.dot, SpI.mulSV, SV.smul, V3.dot, V3.smul, V3.add, V3.sub, V3.cross, Sym3.mulVec, Sym3.sub,
      Sym3.pointMassAt]
    ring


theorem v3_dot_self_nonneg (a : V3 K) : 0 ≤ a.dot a := by
  simp only [V3.dot]; nlinarith [mul_self_nonneg a.x, mul_self_nonneg a.y, mul_self_nonneg a.z]

theorem v3_dot_self_pos (a : V3 K) (h : a.x ≠ 0 ∨ a.y ≠ 0 ∨ a.z ≠ 0) : 0 < a.dot a := by
  simp only [V3.dot]
  rcases h with h | h | h
  · have := mul_self_pos.mpr h; nlinarith [mul_self_nonneg a.y, mul_self_nonneg a.z]
  · have := mul_self_pos.mpr h; nlinarith [mul_self_nonneg a.x, mul_self_nonneg a.z]
  · have := mul_self_pos.mpr h; nlinarith [mul_self_nonneg a.x, mul_self_nonneg a.y]

/-- **a rigid body's spatial inertia matrix is positive definite**: positive mass and positive definite central unit
inertia `G − pointMass(p)` (what `Inertia` validity of a non-degenerate body means) -/
theorem spatialInertia_posdef (s : SpI K) (hm : 0 < s.m)
    (hG : ∀ w : V3 K, (w.x ≠ 0 ∨ w.y ≠ 0 ∨ w.z ≠ 0) → 0 < w.dot ((s.G.sub (Sym3.pointMassAt s.p)).mulVec w)) :
    PDq s.toMat := by
  intro x hx
  -- every vector on Fin 3 ⊕ Fin 3 is the embedding of a spatial vector
  set w : V3 K := ⟨x (Sum.inl 0), x (Sum.inl 1), x (Sum.inl 2)⟩ with hw
  set v : V3 K := ⟨x (Sum.inr 0), x (Sum.inr 1), x (Sum.inr 2)⟩ with hv
  have hxe : x = (⟨w, v⟩ : SV K).toVec := by
    funext i
    rcases i with i | i <;> fin_cases i <;> simp [SV.toVec, V3.toFun, hw, hv]
  rw [hxe, spatialInertia_quadratic]
  apply mul_pos hm
  by_cases hw0 : w.x ≠ 0 ∨ w.y ≠ 0 ∨ w.z ≠ 0
  · have h1 := hG w hw0
    have h2 := v3_dot_self_nonneg (v.sub (s.p.cross w))
    linarith
  · push Not at hw0
    obtain ⟨h0, h1, h2⟩ := hw0
    have hcross : s.p.cross w = ⟨0, 0, 0⟩ := by
      simp only [V3.cross, h0, h1, h2]; simp
    have hq : w.dot ((s.G.sub (Sym3.pointMassAt s.p)).mulVec w) = 0 := by
      simp only [V3.dot, Sym3.mulVec, h0, h1, h2]; simp
    have hvne : v.x ≠ 0 ∨ v.y ≠ 0 ∨ v.z ≠ 0 := by
      by_contra hcon
      push Not at hcon
      apply hx
      funext i
      rcases i with i | i <;> fin_cases i
      · exact h0
      · exact h1
      · exact h2
      · exact hcon.1
      · exact hcon.2.1
      · exact hcon.2.2
    have hs : v.sub (s.p.cross w) = v := by rw [hcross]; cases v; simp [V3.sub]
    rw [hq, hs, zero_add]
    exact v3_dot_self_pos v hvne

/-- a pin about `z` is an injective hinge map -/
theorem pin_injective (u : Fin 1 → K) (h : hMat [(⟨⟨0, 0, 1⟩, ⟨0, 0, 0⟩⟩ : SV K)] *ᵥ u = 0) : u = 0 := by
  funext j
  have := congrFun h (Sum.inl 2)
  fin_cases j
  simpa [hMat, Matrix.mulVec, dotProduct, SV.toVec, V3.toFun] using this

/-- non-vacuity in 6-D: a body with mass 2, mass centre `(1,0,0)` and unit central inertia satisfies the hypotheses of
`spatialInertia_posdef` (so `mulM_posdef` / `WF_of_posdef` apply to executed trees built from such bodies and pins) -/
example : PDq (SpI.toMat (⟨2, ⟨1, 0, 0⟩, ⟨1, 2, 2, 0, 0, 0⟩⟩ : SpI ℚ)) := by
  apply spatialInertia_posdef
  · norm_num
  · intro w hw
    have : w.dot ((Sym3.sub (⟨1, 2, 2, 0, 0, 0⟩ : Sym3 ℚ) (Sym3.pointMassAt ⟨1, 0, 0⟩)).mulVec w) = w.dot w := by
      cases w; simp [V3.dot, Sym3.mulVec, Sym3.sub, Sym3.pointMassAt]; ring
    rw [this]; exact v3_dot_self_pos w hw
end posdef6

end C01
