import SimbodyProofs.ForceLaws_lemmas
import SimbodyModel.Gen.ForceParams

/-!
# C38 — non-contact force elements follow their documented laws

`…_law_eq_doc` : the force the code applies (model `SimbodyModel/ForceLaws.lean`, mirrored from `calcForce`)
equals the documented law (the `doc…` definitions, written from the header documentation only);
`…_pe_eq_doc` likewise for the potential energy.  All statements hold over an arbitrary field (ordered where
the code branches), for every pose, velocity, station and parameter value.
`param_change_effective_next_realize` is the cache condition under which a parameter written between two
realizations is seen by the next one (clause "changes … take effect at the next realization").
-/
set_option linter.unusedSectionVars false
namespace ForceLaws
open V3
variable {K : Type} [Field K]

/-! ### two-point elements -/

theorem tpSpring_law_eq_doc (sqrt : K → K) (k x0 : K) (X1 X2 : Pose K) (s1 s2 : V3 K) :
    tpSpringForce sqrt k x0 X1 X2 s1 s2 = docTpSpringForce sqrt k x0 X1 X2 s1 s2 := by
  simp only [tpSpringForce, docTpSpringForce, applyAt, Pose.apply]
  generalize sqrt _ = d
  refine Prod.ext ?_ ?_ <;> apply SpF.ext' <;> apply V3.ext' <;>
    simp [cross, smul, divS] <;> ring

theorem tpSpring_pe_eq_doc (sqrt : K → K) (k x0 : K) (X1 X2 : Pose K) (s1 s2 : V3 K) :
    tpSpringPE sqrt k x0 X1 X2 s1 s2 = docTpSpringPE sqrt k x0 X1 X2 s1 s2 := by
  simp only [tpSpringPE, docTpSpringPE, Pose.apply]
  generalize sqrt _ = d
  ring

theorem tpDamper_law_eq_doc (sqrt : K → K) (c : K) (X1 X2 : Pose K) (V1 V2 : Vel K) (s1 s2 : V3 K) :
    tpDamperForce sqrt c X1 X2 V1 V2 s1 s2 = docTpDamperForce sqrt c X1 X2 V1 V2 s1 s2 := by
  simp only [tpDamperForce, docTpDamperForce, applyAt, Pose.apply]
  generalize sqrt _ = d
  refine Prod.ext ?_ ?_ <;> apply SpF.ext' <;> apply V3.ext' <;>
    simp [cross, smul, divS] <;> ring

theorem tpConst_law_eq_doc (sqrt : K → K) (f : K) (X1 X2 : Pose K) (s1 s2 : V3 K) :
    tpConstForce sqrt f X1 X2 s1 s2 = docTpConstForce sqrt f X1 X2 s1 s2 := by
  simp only [tpConstForce, docTpConstForce, applyAt, Pose.apply]
  generalize sqrt _ = d
  refine Prod.ext ?_ ?_ <;> apply SpF.ext' <;> apply V3.ext' <;>
    simp [cross, smul, divS] <;> ring

theorem constForce_law_eq_doc (X : Pose K) (station force : V3 K) :
    constForce X station force = docConstForce X station force := by
  simp only [constForce, docConstForce, applyAt, Pose.apply]
  apply SpF.ext' <;> apply V3.ext' <;> simp [cross]

/-- `ConstantTorque`: a pure moment, no force -/
theorem constTorque_law (torque : V3 K) : (constTorque torque).m = torque ∧ (constTorque torque).f = V3.zero :=
  ⟨rfl, rfl⟩

/-! ### mobility elements -/

theorem mobSpring_law_eq_doc (k q0 q : K) : mobSpringForce k q0 q = docMobSpringForce k q0 q := by
  simp only [mobSpringForce, docMobSpringForce]; ring

theorem mobSpring_pe_eq_doc (k q0 q : K) : mobSpringPE k q0 q = docMobSpringPE k q0 q := by
  simp only [mobSpringPE, docMobSpringPE]; ring

theorem mobDamper_law_eq_doc (c u : K) : mobDamperForce c u = docMobDamperForce c u := by
  simp only [mobDamperForce, docMobDamperForce]; ring

theorem globalDamper_law_eq_doc (c : K) (u : List K) : globalDamperForce c u = docGlobalDamperForce c u := by
  simp only [globalDamperForce, docGlobalDamperForce]
  apply List.map_congr_left; intro a _; ring

section ordered
variable [LinearOrder K] [IsStrictOrderedRing K]

/-- `MobilityLinearStop`: the coded force (with its `k == 0` and `d == 0` shortcuts) is the documented
piecewise law, for all parameter values and states -/
theorem mobStop_law_eq_doc (k d qLow qHigh q qdot : K) :
    mobStopForce k d qLow qHigh q qdot = docMobStopForce k d qLow qHigh q qdot := by
  unfold mobStopForce docMobStopForce
  by_cases hk : ¬ (k < 0) ∧ ¬ (0 < k)
  · have hk0 : k = 0 := le_antisymm (not_lt.mp hk.2) (not_lt.mp hk.1)
    subst hk0
    simp [kmin, kmax]
  · rw [if_neg hk]
    by_cases hd : ¬ (d < 0) ∧ ¬ (0 < d)
    · have hd0 : d = 0 := le_antisymm (not_lt.mp hd.2) (not_lt.mp hd.1)
      subst hd0
      simp
    · simp only [if_neg hd]

theorem mobStop_pe_eq_doc (k qLow qHigh q : K) :
    mobStopPE k qLow qHigh q = docMobStopPE k qLow qHigh q := by
  unfold mobStopPE docMobStopPE
  by_cases hk : ¬ (k < 0) ∧ ¬ (0 < k)
  · have hk0 : k = 0 := le_antisymm (not_lt.mp hk.2) (not_lt.mp hk.1)
    subst hk0
    simp
  · rw [if_neg hk]
    split_ifs <;> ring

/-- in bounds the stop is silent -/
theorem mobStop_inside (k d qLow qHigh q qdot : K) (h1 : qLow ≤ q) (h2 : q ≤ qHigh) :
    mobStopForce k d qLow qHigh q qdot = 0 ∧ mobStopPE k qLow qHigh q = 0 := by
  rw [mobStop_law_eq_doc, mobStop_pe_eq_doc]
  simp [docMobStopForce, docMobStopPE, not_lt.mpr h1, not_lt.mpr h2]

/-! ### cable spring (tension law on the cable length) -/

/-- **CableSpring**: the coded tension, power loss and energy (with the slack shortcut `x == 0`) are the documented
`f = f_stretch + max(-f_stretch, f_stretch*c*xdot)`, `powerLoss = f_rate*xdot`, `pe = k x²/2`, `x = max(0, L-L0)` -/
theorem cable_law_eq_doc (k c L0 L Ldot : K) :
    (cableSpring k c L0 L Ldot).f = (docCableSpring k c L0 L Ldot).f
    ∧ (cableSpring k c L0 L Ldot).powerLoss = (docCableSpring k c L0 L Ldot).powerLoss
    ∧ (cableSpring k c L0 L Ldot).pe = (docCableSpring k c L0 L Ldot).pe := by
  simp only [cableSpring, docCableSpring]
  by_cases h : ¬ (kmax 0 (L - L0) < 0) ∧ ¬ (0 < kmax 0 (L - L0))
  · have h0 : kmax 0 (L - L0) = 0 := le_antisymm (not_lt.mp h.2) (not_lt.mp h.1)
    simp only [h0]
    simp [kmax]
  · simp only [if_neg h]
    refine ⟨?_, ?_, ?_⟩ <;> first | trivial | rfl | ring

/-- a slack cable (`L ≤ L0`) carries no tension, loses no power, stores no energy -/
theorem cable_slack (k c L0 L Ldot : K) (h : L ≤ L0) :
    (cableSpring k c L0 L Ldot).f = 0 ∧ (cableSpring k c L0 L Ldot).powerLoss = 0 ∧ (cableSpring k c L0 L Ldot).pe = 0 := by
  have hx : kmax 0 (L - L0) = 0 := by
    unfold kmax; rw [if_neg]; linarith
  simp [cableSpring, hx]

/-- the tension is never negative -/
theorem cable_tension_nonneg (k c L0 L Ldot : K) : 0 ≤ (cableSpring k c L0 L Ldot).f := by
  simp only [cableSpring]
  split_ifs with h
  · exact le_refl _
  · unfold kmax
    split_ifs <;> nlinarith

/-! ### gravity -/

omit [LinearOrder K] [IsStrictOrderedRing K] in
theorem uniformGravity_law_eq_doc (g : V3 K) (bodies : List (GBody K)) :
    uniformGravityForce g bodies = docUniformGravityForce g bodies := by
  simp only [uniformGravityForce, docUniformGravityForce]
  apply List.map_congr_left; intro b _
  simp only [applyAt, Pose.apply]
  apply SpF.ext' <;> apply V3.ext' <;> simp [cross]

omit [LinearOrder K] [IsStrictOrderedRing K] in
/-- `UniformGravity` reports the documented potential energy `Σ m |g| (h − zeroHeight)` (as coded after the
repair 5f9a9c23; the pinned source subtracted `m·zeroHeight`, key `UniformGravity.zeroHeight.pe_eq_doc`). -/
theorem uniformGravity_pe_eq_doc (g : V3 K) (gmag zeroHeight : K) (bodies : List (GBody K)) :
    uniformGravityPE g gmag zeroHeight bodies = docUniformGravityPE g gmag zeroHeight bodies := by
  simp only [uniformGravityPE, docUniformGravityPE]
  apply foldl_congr'
  intro pe b
  simp only [Pose.apply]
  ring

omit [LinearOrder K] [IsStrictOrderedRing K] in
/-- historical witness (pinned source): per body the OLD coded energy `pe − m (g·p + zeroHeight)` differed from the
documented one by `m (|g|−1) zeroHeight` -/
theorem uniformGravity_pe_step_gap_old (g : V3 K) (gmag zeroHeight pe : K) (b : GBody K) :
    (pe - b.mass * (dot g (b.X.p + b.X.R.mulVec b.com) + zeroHeight))
      - (pe + (-(b.mass * dot g (b.X.apply b.com)) - b.mass * gmag * zeroHeight))
    = b.mass * (gmag - 1) * zeroHeight := by
  simp only [Pose.apply]; ring

theorem gravity_law_eq_doc (d : V3 K) (g : K) (bodies : List (GBody K)) :
    gravityForce d g bodies = docGravityForce d g bodies := by
  unfold gravityForce docGravityForce
  by_cases hg : ¬ (g < 0) ∧ ¬ (0 < g)
  · have hg0 : g = 0 := le_antisymm (not_lt.mp hg.2) (not_lt.mp hg.1)
    subst hg0
    rw [if_pos hg]
    apply List.map_congr_left; intro b _
    split_ifs
    · rfl
    · simp only [applyAt]
      apply SpF.ext' <;> apply V3.ext' <;> simp [cross, smul]
  · rw [if_neg hg]
    apply List.map_congr_left; intro b _
    split_ifs
    · rfl
    · simp only [applyAt, Pose.apply]
      apply SpF.ext' <;> apply V3.ext' <;> simp [cross, smul] <;> ring

omit [LinearOrder K] [IsStrictOrderedRing K] in
theorem foldl_add_zero_step {α : Type} (f : K → α → K) (h : ∀ pe a, f pe a = pe) (l : List α) (pe : K) :
    l.foldl f pe = pe := by
  induction l generalizing pe with
  | nil => rfl
  | cons a t ih => simp only [List.foldl_cons, h, ih]

theorem gravity_pe_eq_doc (d : V3 K) (g z : K) (bodies : List (GBody K)) :
    gravityPE d g z bodies = docGravityPE d g z bodies := by
  unfold gravityPE docGravityPE
  by_cases hg : ¬ (g < 0) ∧ ¬ (0 < g)
  · have hg0 : g = 0 := le_antisymm (not_lt.mp hg.2) (not_lt.mp hg.1)
    subst hg0
    rw [if_pos hg]
    symm
    apply foldl_add_zero_step
    intro pe b; split_ifs <;> ring
  · rw [if_neg hg]
    apply foldl_congr'
    intro pe b
    split_ifs
    · rfl
    · simp only [Pose.apply, dot, smul, V3.add_x, V3.add_y, V3.add_z, V3.neg_x, V3.neg_y, V3.neg_z]; ring

/-- an excluded body feels nothing and contributes no energy -/
theorem gravity_excluded (d : V3 K) (g z : K) (b : GBody K) (hb : b.immune = true) :
    gravityForce d g [b] = [SpF.zero] ∧ gravityPE d g z [b] = 0 := by
  constructor
  · unfold gravityForce; split_ifs <;> simp [hb]
  · unfold gravityPE; split_ifs <;> simp [hb]
end ordered

/-! ### linear bushing: documented generalized forces, energy, dissipation rate -/

theorem bushing_f_eq_doc (X1 X2 : Pose K) (V1 V2 : Vel K) (XF XM : Pose K) (k c : Vec6 K) (qr cq sq : V3 K) :
    let o := bushing X1 X2 V1 V2 XF XM k c qr cq sq
    o.f = docBushingF k c o.q o.qdot := by
  simp only [bushing, docBushingF]
  apply Vec6.ext' <;> apply V3.ext' <;> simp

theorem bushing_pe_eq_doc (X1 X2 : Pose K) (V1 V2 : Vel K) (XF XM : Pose K) (k c : Vec6 K) (qr cq sq : V3 K) :
    let o := bushing X1 X2 V1 V2 XF XM k c qr cq sq
    o.pe = docBushingPE k o.q := by
  simp only [bushing, docBushingPE]; ring

theorem bushing_power_eq_doc (X1 X2 : Pose K) (V1 V2 : Vel K) (XF XM : Pose K) (k c : Vec6 K) (qr cq sq : V3 K) :
    let o := bushing X1 X2 V1 V2 XF XM k c qr cq sq
    o.power = docBushingPower c o.qdot := by
  simp only [bushing, docBushingPower]; ring

/-- the translational coordinates are `p_FM`, the position of `M`'s origin in `F` -/
theorem bushing_q_translation (X1 X2 : Pose K) (V1 V2 : Vel K) (XF XM : Pose K) (k c : Vec6 K) (qr cq sq : V3 K) :
    let o := bushing X1 X2 V1 V2 XF XM k c qr cq sq
    o.q.t = (X1.comp XF).invApply ((X2.comp XM).p) ∧ o.q.r = qr := by
  constructor <;> rfl

/-! ### parameter changes take effect at the next realization -/

/-- If a position-only (cached) element's parameter write invalidates Position (`posOnly → invalidatesPosition`,
C16's table condition), then after `setParams` the next Dynamics realization applies `calcF newParams`,
whatever was cached before. -/
theorem param_change_effective_next_realize {P F : Type} (posOnly invalidatesPosition : Bool)
    (hTable : posOnly = true → invalidatesPosition = true) (calcF : P → F) (newParams : P) (c : ElemCache F) :
    (realizeDyn posOnly calcF newParams (setParams invalidatesPosition c)).1 = calcF newParams := by
  unfold realizeDyn setParams
  cases posOnly with
  | false => simp
  | true => simp [hTable rfl]

/-- non-vacuity of the hypothesis, and what happens without it: a position-only element whose parameter
invalidates only Dynamics keeps applying the stale cached force (finding F4, `MobilityLinearSpring`). -/
theorem param_change_stale_without_table {P F : Type} (calcF : P → F) (newParams : P) (old : F) :
    (realizeDyn true calcF newParams (setParams false ⟨some old⟩)).1 = old := by
  simp [realizeDyn, setParams]

example : (realizeDyn true (fun k : Int => -k * 3) 10 (setParams true ⟨some (-3)⟩)).1 = -30 := by decide
example : (realizeDyn true (fun k : Int => -k * 3) 10 (setParams false ⟨some (-3)⟩)).1 = -3 := by decide

/-! ### the cache condition instantiated on the table extracted from the current source

`SimbodyModel/Gen/ForceParams.lean` is regenerated on every run (translator `checks/C16.py: gen_force_params`, also run by
`checks/C38.py`) from `ForceImpl.h`, `Force*.cpp`, …: per `ForceImpl` subclass the value of `dependsOnlyOnPositions()` and the
`Stage` of every `allocateDiscreteVariable` (0..10 = Empty..Infinity, Position = 5). -/

/-- a row satisfies the table condition: a position-only (cached) element has no parameter variable whose write leaves
Position valid -/
def rowOK (r : C16.Gen.FClass) : Bool :=
  match r.posOnly with
  | some true => r.paramStages.all (fun g => decide (g ≤ 5))
  | _ => true

/-- every built-in force class of the current source satisfies the table condition (this is what failed for
`MobilityLinearSpringImpl` on the pinned tree: `posOnly = true`, parameter stage 7 — finding F4) -/
theorem param_table_ok : C16.Gen.table.all rowOK = true := by decide

/-- **parameter changes take effect at the next realization, for every built-in force class**: for each row of the
extracted table whose caching flag is known (all but `Force::Custom`, which delegates to user code), and each of its
parameter variables (allocation stage `g`), a write (which invalidates stage `g` and above, hence Position iff `g ≤ 5`)
followed by a Dynamics realization applies `calcF newParams`, whatever the cache held -/
theorem param_change_effective_all_classes (r : C16.Gen.FClass) (hr : r ∈ C16.Gen.table) (po : Bool) (hpo : r.posOnly = some po)
    (g : Nat) (hg : g ∈ r.paramStages) {P F : Type} (calcF : P → F) (newParams : P) (c : ElemCache F) :
    (realizeDyn po calcF newParams (setParams (decide (g ≤ 5)) c)).1 = calcF newParams := by
  apply param_change_effective_next_realize
  intro hpo1
  subst hpo1
  have hall := param_table_ok
  rw [List.all_eq_true] at hall
  have hrow := hall r hr
  simp only [rowOK, hpo, List.all_eq_true] at hrow
  exact hrow g hg

end ForceLaws
