import SimbodyProofs.C34_lemmas

/-!
# C34 — property theorems: contact surface queries are geometrically correct

All statements are over an arbitrary linear ordered field `K`; `sqrt` is any function with the algebraic
specification `SqrtSpec` (or, where only one value is used, with that instance of it as a hypothesis).
The definitions they speak about (`SimbodyModel/C34.lean`) mirror the C++ and are the ones the driver runs
against the real library on every check.

Sections: (A) gradient / Hessian are the derivatives of the implicit function (jets), (B) nearest point is on
the surface and minimal, (C) inside flag = sign of the implicit function, (D) support points maximise,
(E) bounding spheres contain, (F) ray queries return the first hit.
-/
namespace Geom
variable {K : Type} [Field K] [LinearOrder K] [IsStrictOrderedRing K]

/-! ## (A) gradient and Hessian are derivatives: `(f (p + εh)).e = ∇f(p)·h`, `(∇f (p + εh)).e = H h` -/

omit [LinearOrder K] [IsStrictOrderedRing K] in
theorem HS.gradient_is_derivative (p h : V3 K) :
    (HS.value (liftV p h)).e = V3.dot (HS.grad p) h ∧ epsV (HS.grad (liftV p h)) = M3.mulVec (HS.hess p) h := by
  simp [HS.value, HS.grad, HS.hess, diag3, V3.dot, liftV, epsV, M3.mulVec]

omit [LinearOrder K] [IsStrictOrderedRing K] in
/-- `Sphere::Impl::calcSurfaceValue/Gradient` (the `r² − |x|²` override) -/
theorem Sph.gradient_is_derivative (r : K) (p h : V3 K) :
    (Sph.value (Jet1.const r) (liftV p h)).e = V3.dot (Sph.grad p) h := by
  simp [Sph.value, Sph.grad, V3.dot, V3.smul, liftV]
  ring

omit [LinearOrder K] [IsStrictOrderedRing K] in
theorem Sph.hessian_is_derivative (p h : V3 K) :
    epsV (Sph.grad (liftV p h)) = M3.mulVec Sph.hess h := by
  simp [Sph.grad, Sph.hess, diag3, V3.dot, V3.smul, liftV, epsV, M3.mulVec]

omit [LinearOrder K] [IsStrictOrderedRing K] in
/-- `SphereImplicitFunction::calcValue/calcDerivative` (`1 − |x|²/r²`) -/
theorem Sph.implicit_gradient_is_derivative (r : K) (hr : r ≠ 0) (p h : V3 K) :
    (Sph.implicit (Jet1.const r) (liftV p h)).e = V3.dot (Sph.implicitGrad r p) h := by
  simp [Sph.implicit, Sph.implicitGrad, V3.dot, liftV, sq]
  field_simp
  ring

omit [LinearOrder K] [IsStrictOrderedRing K] in
theorem Sph.implicit_hessian_is_derivative (r : K) (hr : r ≠ 0) (p h : V3 K) :
    epsV (Sph.implicitGrad (Jet1.const r) (liftV p h)) = M3.mulVec (Sph.implicitHess r) h := by
  simp [Sph.implicitGrad, Sph.implicitHess, diag3, V3.dot, liftV, epsV, M3.mulVec, sq]
  refine ⟨?_, ?_, ?_⟩ <;> (field_simp)

omit [LinearOrder K] [IsStrictOrderedRing K] in
theorem Cyl.gradient_is_derivative (r : K) (p h : V3 K) :
    (Cyl.value (Jet1.const r) (liftV p h)).e = V3.dot (Cyl.grad p) h := by
  simp [Cyl.value, Cyl.grad, V3.dot, liftV]
  ring

omit [LinearOrder K] [IsStrictOrderedRing K] in
theorem Cyl.hessian_is_derivative (p h : V3 K) :
    epsV (Cyl.grad (liftV p h)) = M3.mulVec Cyl.hess h := by
  simp [Cyl.grad, Cyl.hess, diag3, V3.dot, liftV, epsV, M3.mulVec]

omit [LinearOrder K] [IsStrictOrderedRing K] in
theorem Cyl.implicit_gradient_is_derivative (r : K) (hr : r ≠ 0) (p h : V3 K) :
    (Cyl.implicit (Jet1.const r) (liftV p h)).e = V3.dot (Cyl.implicitGrad r p) h := by
  simp [Cyl.implicit, Cyl.implicitGrad, V3.dot, liftV, sq]
  field_simp
  ring

omit [LinearOrder K] [IsStrictOrderedRing K] in
theorem Cyl.implicit_hessian_is_derivative (r : K) (hr : r ≠ 0) (p h : V3 K) :
    epsV (Cyl.implicitGrad (Jet1.const r) (liftV p h)) = M3.mulVec (Cyl.implicitHess r) h := by
  simp [Cyl.implicitGrad, Cyl.implicitHess, diag3, V3.dot, liftV, epsV, M3.mulVec, sq]
  refine ⟨?_, ?_⟩ <;> (field_simp)

omit [LinearOrder K] [IsStrictOrderedRing K] in
theorem Ell.gradient_is_derivative (a : V3 K) (ha : a.x ≠ 0 ∧ a.y ≠ 0 ∧ a.z ≠ 0) (p h : V3 K) :
    (Ell.value (constV a) (liftV p h)).e = V3.dot (Ell.grad a p) h := by
  obtain ⟨h0, h1, h2⟩ := ha
  simp [Ell.value, Ell.grad, V3.dot, liftV, constV]
  field_simp
  ring

omit [LinearOrder K] [IsStrictOrderedRing K] in
theorem Ell.hessian_is_derivative (a : V3 K) (ha : a.x ≠ 0 ∧ a.y ≠ 0 ∧ a.z ≠ 0) (p h : V3 K) :
    epsV (Ell.grad (constV a) (liftV p h)) = M3.mulVec (Ell.hess a) h := by
  obtain ⟨h0, h1, h2⟩ := ha
  simp [Ell.grad, Ell.hess, diag3, V3.dot, liftV, constV, epsV, M3.mulVec]
  refine ⟨?_, ?_, ?_⟩ <;> (field_simp)

/-- torus: `√` is lifted to jets by `Jet1.sqrtJ` (its definition is the chain rule for `√`) -/
theorem Tor.gradient_is_derivative (sqrt : K → K) (R r : K) (hr : r ≠ 0) (p h : V3 K)
    (hs0 : sqrt (p.x * p.x + p.y * p.y) ≠ 0) :
    (Tor.value (Jet1.sqrtJ sqrt) (Jet1.const R) (Jet1.const r) (liftV p h)).e
      = V3.dot (Tor.grad sqrt R r p) h := by
  simp [Tor.value, Tor.grad, V3.dot, liftV, sq]
  generalize sqrt (p.x * p.x + p.y * p.y) = s at hs0 ⊢
  have h2 : (2 : K) ≠ 0 := two_ne_zero
  field_simp
  ring

theorem Tor.hessian_is_derivative (sqrt : K → K) (R r : K) (hr : r ≠ 0) (p h : V3 K)
    (hs : sqrt (p.x * p.x + p.y * p.y) * sqrt (p.x * p.x + p.y * p.y) = p.x * p.x + p.y * p.y)
    (hs0 : sqrt (p.x * p.x + p.y * p.y) ≠ 0) :
    epsV (Tor.grad (Jet1.sqrtJ sqrt) (Jet1.const R) (Jet1.const r) (liftV p h))
      = M3.mulVec (Tor.hess sqrt R r p) h := by
  simp [Tor.grad, Tor.hess, V3.dot, liftV, epsV, M3.mulVec, sq]
  generalize sqrt (p.x * p.x + p.y * p.y) = s at hs hs0 ⊢
  have h2 : (2 : K) ≠ 0 := two_ne_zero
  have hxy : p.x * p.x + p.y * p.y ≠ 0 := by rw [← hs]; exact mul_ne_zero hs0 hs0
  rw [← hs]
  refine ⟨?_, ?_, ?_⟩
  · field_simp
    linear_combination (h.x * R * 2) * hs
  · field_simp
    linear_combination (h.y * R * 2) * hs
  · field_simp


/-! ## (B) nearest point: on the surface, and no surface point is nearer -/

omit [IsStrictOrderedRing K] in
theorem HS.nearest_on_surface (p : V3 K) :
    HS.value (HS.nearest p).pt = 0 ∧ V3.normSq (HS.nearest p).normal = 1 := by
  simp [HS.value, HS.nearest, V3.normSq, V3.dot]

theorem HS.nearest_is_minimal (p q : V3 K) (hq : HS.value q = 0) :
    V3.normSq (V3.sub p (HS.nearest p).pt) ≤ V3.normSq (V3.sub p q) := by
  simp only [HS.value] at hq
  simp only [HS.nearest, V3.normSq, V3.dot, V3.sub, hq]
  nlinarith [mul_self_nonneg (p.y - q.y), mul_self_nonneg (p.z - q.z)]

/-- sphere: `s = sqrt |p|²` with `s² = |p|²`, `s ≠ 0` (query not at the centre) -/
theorem Sph.nearest_on_surface (sqrt : K → K) (r : K) (p : V3 K)
    (hs : sqrt (V3.normSq p) * sqrt (V3.normSq p) = V3.normSq p) (h0 : sqrt (V3.normSq p) ≠ 0) :
    Sph.value r (Sph.nearest sqrt r p).pt = 0 ∧ V3.normSq (Sph.nearest sqrt r p).normal = 1 := by
  simp only [Sph.value, Sph.nearest, V3.unit, V3.sdiv, V3.dot, V3.normSq] at *
  generalize sqrt (p.x * p.x + p.y * p.y + p.z * p.z) = s at hs h0 ⊢
  constructor
  · field_simp
    linear_combination (r * r) * hs
  · field_simp
    linear_combination (-1 : K) * hs

theorem Sph.nearest_is_minimal (sqrt : K → K) (r : K) (hr : 0 ≤ r) (p q : V3 K)
    (hs : sqrt (V3.normSq p) * sqrt (V3.normSq p) = V3.normSq p) (h0 : 0 < sqrt (V3.normSq p))
    (hq : Sph.value r q = 0) :
    V3.normSq (V3.sub p (Sph.nearest sqrt r p).pt) ≤ V3.normSq (V3.sub p q) := by
  have hqn : V3.normSq q = r * r := by
    simp only [Sph.value, V3.normSq] at hq ⊢; linear_combination -hq
  have hdot : V3.dot p q ≤ sqrt (V3.normSq p) * r := dot_le_mul (le_of_lt h0) hr hs.symm (le_of_eq hqn)
  have h0' : sqrt (V3.normSq p) ≠ 0 := ne_of_gt h0
  simp only [Sph.nearest, V3.unit, V3.sdiv, V3.dot, V3.normSq, V3.sub] at *
  generalize sqrt (p.x * p.x + p.y * p.y + p.z * p.z) = s at hs h0 h0' hdot ⊢
  have e1 : (p.x - p.x / s * r) * (p.x - p.x / s * r) + (p.y - p.y / s * r) * (p.y - p.y / s * r)
      + (p.z - p.z / s * r) * (p.z - p.z / s * r) = (s - r) * (s - r) := by
    field_simp
    linear_combination (-((s - r) * (s - r))) * hs
  rw [e1]
  nlinarith

/-- the surface of the box with half lengths `h` -/
def Box.OnSurface (h q : V3 K) : Prop :=
  (|q.x| ≤ h.x ∧ |q.y| ≤ h.y ∧ |q.z| ≤ h.z) ∧ (|q.x| = h.x ∨ |q.y| = h.y ∨ |q.z| = h.z)


/-- cylinder, generic branch of `calcSurfaceUnitNormal` (gradient not tiny, i.e. query not on the axis) -/
theorem Cyl.nearest_on_surface (sqrt : K → K) (tiny sqrtEps : K) (hat : V3 K) (r : K) (p : V3 K)
    (hgen : ¬ (sqrt (V3.normSq (Cyl.grad p)) < tiny))
    (hs : sqrt (V3.normSq (Cyl.grad p)) * sqrt (V3.normSq (Cyl.grad p)) = V3.normSq (Cyl.grad p))
    (h0 : sqrt (V3.normSq (Cyl.grad p)) ≠ 0) :
    Cyl.value r (Cyl.nearest sqrt tiny sqrtEps hat r p).pt = 0 ∧
    V3.normSq (Cyl.nearest sqrt tiny sqrtEps hat r p).normal = 1 := by
  unfold Cyl.nearest unitNormalOf
  simp only [if_neg hgen]
  simp only [Cyl.value, Cyl.grad, V3.sdiv, V3.neg, V3.dot, V3.normSq] at *
  generalize sqrt (-2 * p.x * (-2 * p.x) + -2 * p.y * (-2 * p.y) + 0 * 0) = m at hs h0 ⊢
  constructor
  · field_simp
    linear_combination (r * r) * hs
  · field_simp
    linear_combination (-1 : K) * hs

theorem Cyl.nearest_is_minimal (sqrt : K → K) (tiny sqrtEps : K) (hat : V3 K) (r : K) (hr : 0 ≤ r) (p q : V3 K)
    (hgen : ¬ (sqrt (V3.normSq (Cyl.grad p)) < tiny))
    (hs : sqrt (V3.normSq (Cyl.grad p)) * sqrt (V3.normSq (Cyl.grad p)) = V3.normSq (Cyl.grad p))
    (h0 : 0 < sqrt (V3.normSq (Cyl.grad p)))
    (hq : Cyl.value r q = 0) :
    V3.normSq (V3.sub p (Cyl.nearest sqrt tiny sqrtEps hat r p).pt) ≤ V3.normSq (V3.sub p q) := by
  have hqn : V3.normSq (⟨q.x, q.y, 0⟩ : V3 K) = r * r := by
    simp only [Cyl.value, V3.normSq, V3.dot] at hq ⊢; linear_combination -hq
  have h2 : (0:K) ≤ sqrt (V3.normSq (Cyl.grad p)) / 2 := by positivity
  have hpn : V3.normSq (⟨p.x, p.y, 0⟩ : V3 K) = sqrt (V3.normSq (Cyl.grad p)) / 2 * (sqrt (V3.normSq (Cyl.grad p)) / 2) := by
    have : sqrt (V3.normSq (Cyl.grad p)) / 2 * (sqrt (V3.normSq (Cyl.grad p)) / 2)
        = (sqrt (V3.normSq (Cyl.grad p)) * sqrt (V3.normSq (Cyl.grad p))) / 4 := by ring
    rw [this, hs]; simp only [Cyl.grad, V3.normSq, V3.dot]; ring
  have hdot := dot_le_mul h2 hr hpn (le_of_eq hqn)
  have h0' : sqrt (V3.normSq (Cyl.grad p)) ≠ 0 := ne_of_gt h0
  unfold Cyl.nearest unitNormalOf
  simp only [if_neg hgen]
  simp only [Cyl.grad, V3.sdiv, V3.neg, V3.dot, V3.normSq, V3.sub] at *
  generalize sqrt (-2 * p.x * (-2 * p.x) + -2 * p.y * (-2 * p.y) + 0 * 0) = m at hs h0 h0' hdot h2 hpn ⊢
  have e1 : (p.x - (-(-2 * p.x) / m * r + 0)) * (p.x - (-(-2 * p.x) / m * r + 0))
      + (p.y - (-(-2 * p.y) / m * r + 0)) * (p.y - (-(-2 * p.y) / m * r + 0))
      + (p.z - (-0 / m * r + p.z)) * (p.z - (-0 / m * r + p.z)) = (m / 2 - r) * (m / 2 - r) := by
    field_simp
    linear_combination (-((m - 2 * r) * (m - 2 * r))) * hs
  rw [e1]
  nlinarith [mul_self_nonneg (p.z - q.z)]

omit [LinearOrder K] [IsStrictOrderedRing K] in
/-- the seven coefficients built by the code are those of
`Π(t+aᵢ²)² − Σ aᵢ² pᵢ² Π_{j≠i}(t+aⱼ²)²` -/
theorem Ell.secular_polynomial_expansion (r p : V3 K) (t : K) :
    Ell.horner (Ell.secularCoeffs r p) t =
      (t + r.x * r.x) ^ 2 * (t + r.y * r.y) ^ 2 * (t + r.z * r.z) ^ 2
      - r.x * r.x * (p.x * p.x) * (t + r.y * r.y) ^ 2 * (t + r.z * r.z) ^ 2
      - r.y * r.y * (p.y * p.y) * (t + r.x * r.x) ^ 2 * (t + r.z * r.z) ^ 2
      - r.z * r.z * (p.z * p.z) * (t + r.x * r.x) ^ 2 * (t + r.y * r.y) ^ 2 := by
  simp only [Ell.horner, Ell.secularCoeffs, List.foldl]
  ring

omit [IsStrictOrderedRing K] in
/-- ellipsoid: if `t` is a root of the degree-6 polynomial and the guard `t + aᵢ² ≠ 0` holds, the returned
point lies on the surface.  (Without the guard it does not: `Ell.guard_is_needed`, finding F5.) -/
theorem Ell.nearest_on_surface (r p : V3 K) (t : K) (hr : r.x ≠ 0 ∧ r.y ≠ 0 ∧ r.z ≠ 0)
    (hg : t + r.x * r.x ≠ 0 ∧ t + r.y * r.y ≠ 0 ∧ t + r.z * r.z ≠ 0)
    (hroot : Ell.horner (Ell.secularCoeffs r p) t = 0) :
    Ell.value r (Ell.nearestWith r p t).pt = 0 := by
  rw [Ell.secular_polynomial_expansion] at hroot
  obtain ⟨h0, h1, h2⟩ := hr
  obtain ⟨g0, g1, g2⟩ := hg
  simp only [Ell.value, Ell.nearestWith]
  rw [Ell.surface_identity (r.x * r.x) (r.y * r.y) (r.z * r.z) t p.x p.y p.z
    (mul_ne_zero h0 h0) (mul_ne_zero h1 h1) (mul_ne_zero h2 h2) g0 g1 g2, hroot, zero_div]

omit [IsStrictOrderedRing K] in
/-- KKT: `p − x = t · (xᵢ/aᵢ²)`, i.e. the offset is parallel to the (unnormalised) returned normal -/
theorem Ell.nearest_kkt (r p : V3 K) (t : K) (hr : r.x ≠ 0 ∧ r.y ≠ 0 ∧ r.z ≠ 0)
    (hg : t + r.x * r.x ≠ 0 ∧ t + r.y * r.y ≠ 0 ∧ t + r.z * r.z ≠ 0) :
    V3.sub p (Ell.nearestWith r p t).pt = V3.smul t (Ell.nearestWith r p t).normal := by
  obtain ⟨h0, h1, h2⟩ := hr
  obtain ⟨g0, g1, g2⟩ := hg
  simp only [Ell.nearestWith, V3.sub, V3.smul, V3.mk.injEq]
  exact ⟨Ell.kkt_component _ t p.x (mul_ne_zero h0 h0) g0, Ell.kkt_component _ t p.y (mul_ne_zero h1 h1) g1,
    Ell.kkt_component _ t p.z (mul_ne_zero h2 h2) g2⟩

/-- ellipsoid: with `t + aᵢ² > 0` (which the largest real root satisfies for a generic query) the KKT point
is the global minimiser of the distance over the surface -/
theorem Ell.nearest_is_minimal (r p : V3 K) (t : K) (hr : r.x ≠ 0 ∧ r.y ≠ 0 ∧ r.z ≠ 0)
    (hg : 0 < t + r.x * r.x ∧ 0 < t + r.y * r.y ∧ 0 < t + r.z * r.z)
    (hon : Ell.value r (Ell.nearestWith r p t).pt = 0) (q : V3 K) (hq : Ell.value r q = 0) :
    V3.normSq (V3.sub p (Ell.nearestWith r p t).pt) ≤ V3.normSq (V3.sub p q) := by
  obtain ⟨h0, h1, h2⟩ := hr
  obtain ⟨g0, g1, g2⟩ := hg
  have key := Ell.minimal_identity (r.x * r.x) (r.y * r.y) (r.z * r.z) t p.x p.y p.z q.x q.y q.z
    (mul_ne_zero h0 h0) (mul_ne_zero h1 h1) (mul_ne_zero h2 h2) (ne_of_gt g0) (ne_of_gt g1) (ne_of_gt g2)
  simp only [Ell.value, Ell.nearestWith, V3.normSq, V3.dot, V3.sub] at hon hq ⊢
  rw [hon, hq] at key
  have t0 : 0 ≤ (p.x * (r.x * r.x) / (t + r.x * r.x) - q.x) ^ 2 * ((t + r.x * r.x) / (r.x * r.x)) :=
    mul_nonneg (sq_nonneg _) (div_nonneg g0.le (mul_self_nonneg _))
  have t1 : 0 ≤ (p.y * (r.y * r.y) / (t + r.y * r.y) - q.y) ^ 2 * ((t + r.y * r.y) / (r.y * r.y)) :=
    mul_nonneg (sq_nonneg _) (div_nonneg g1.le (mul_self_nonneg _))
  have t2 : 0 ≤ (p.z * (r.z * r.z) / (t + r.z * r.z) - q.z) ^ 2 * ((t + r.z * r.z) / (r.z * r.z)) :=
    mul_nonneg (sq_nonneg _) (div_nonneg g2.le (mul_self_nonneg _))
  linarith
/-- torus (`Torus::Impl::findNearestPoint`, generic branch: query off the z axis and off the centre circle, tube
radius `r ≤ R`): the returned point is on the surface -/
theorem Tor.nearest_on_surface (sqrt : K → K) (hsq : SqrtSpec sqrt) (eps R r : K) (hr : 0 < r) (hrR : r ≤ R) (q : V3 K)
    (hgen : ¬ (absK (sqrt (V3.normSq ⟨q.x, q.y, 0⟩)) < eps))
    (hn : 0 < sqrt (V3.normSq ⟨q.x, q.y, 0⟩))
    (hcc : sqrt (V3.normSq ⟨q.x, q.y, 0⟩) ≠ R ∨ q.z ≠ 0) :
    Tor.value sqrt R r (Tor.nearestPt sqrt eps R r q) = 0 := by
  have e0 : (⟨q.x - 0 * (q.x * 0 + q.y * 0 + q.z * 1), q.y - 0 * (q.x * 0 + q.y * 0 + q.z * 1),
      q.z - 1 * (q.x * 0 + q.y * 0 + q.z * 1)⟩ : V3 K) = ⟨q.x, q.y, 0⟩ := by
    simp
  unfold Tor.nearestPt
  simp only [e0, if_neg hgen]
  have hn2 := hsq.sq (V3.normSq ⟨q.x, q.y, 0⟩) (normSq_nonneg _)
  generalize sqrt (V3.normSq ⟨q.x, q.y, 0⟩) = n at hn hn2 hcc
  have hn0 : n ≠ 0 := ne_of_gt hn
  simp only [V3.normSq, V3.dot, mul_zero, add_zero] at hn2
  -- W = |q - P|²
  have hW : V3.normSq (V3.sub q (V3.smul R (V3.sdiv ⟨q.x, q.y, 0⟩ n))) = (n - R) * (n - R) + q.z * q.z := by
    simp only [V3.normSq, V3.dot, V3.sub, V3.smul, V3.sdiv, zero_div, mul_zero, sub_zero]
    field_simp
    linear_combination (-((n - R) * (n - R))) * hn2
  have hWpos : 0 < (n - R) * (n - R) + q.z * q.z := by
    rcases hcc with h | h
    · have : 0 < (n - R) * (n - R) := mul_self_pos.mpr (sub_ne_zero.mpr h)
      nlinarith [mul_self_nonneg q.z]
    · have : 0 < q.z * q.z := mul_self_pos.mpr h
      nlinarith [mul_self_nonneg (n - R)]
  have hw2 := hsq.sq _ (le_of_lt hWpos)
  have hwn := hsq.nonneg _ (le_of_lt hWpos)
  simp only [V3.unit, hW]
  generalize sqrt ((n - R) * (n - R) + q.z * q.z) = w at hw2 hwn
  have hw0 : w ≠ 0 := by
    intro h; rw [h] at hw2; linarith
  have hwpos : 0 < w := lt_of_le_of_ne hwn (Ne.symm hw0)
  -- k = R + r (n - R)/w ≥ 0
  have habs : -(w) ≤ n - R ∧ n - R ≤ w := by
    constructor
    · have : -(n - R) ≤ w := le_of_sq_le hwn (by nlinarith [mul_self_nonneg q.z])
      linarith
    · exact le_of_sq_le hwn (by nlinarith [mul_self_nonneg q.z])
  have hk : 0 ≤ R + r * ((n - R) / w) := by
    have : -1 ≤ (n - R) / w := by rw [le_div_iff₀ hwpos]; linarith [habs.1]
    nlinarith
  simp only [Tor.value, V3.add, V3.smul, V3.sdiv, V3.sub, sq, zero_div, mul_zero, sub_zero, zero_add]
  have hxy : (R * (q.x / n) + r * ((q.x - R * (q.x / n)) / w)) * (R * (q.x / n) + r * ((q.x - R * (q.x / n)) / w))
      + (R * (q.y / n) + r * ((q.y - R * (q.y / n)) / w)) * (R * (q.y / n) + r * ((q.y - R * (q.y / n)) / w))
      = (R + r * ((n - R) / w)) * (R + r * ((n - R) / w)) := by
    field_simp
    linear_combination (-((R * w + r * (n - R)) ^ 2)) * hn2
  rw [hxy, sqrt_mul_self sqrt hsq _ hk]
  field_simp
  linear_combination (r ^ 2) * hw2

/-- brick (`Geo::Box::findClosestPointOnSurface`): the returned point is on the box surface and no surface
point is nearer to the query -/
theorem Box.nearest_on_surface_and_minimal (h p : V3 K) (hh : 0 ≤ h.x ∧ 0 ≤ h.y ∧ 0 ≤ h.z) :
    Box.OnSurface h (Box.closestSurface h p).1 ∧
    ∀ q, Box.OnSurface h q → V3.normSq (V3.sub p (Box.closestSurface h p).1) ≤ V3.normSq (V3.sub p q) := by
  obtain ⟨hx0, hy0, hz0⟩ := hh
  have sx := Box.clamp1_spec h.x p.x hx0
  have sy := Box.clamp1_spec h.y p.y hy0
  have sz := Box.clamp1_spec h.z p.z hz0
  unfold Box.closestSurface Box.closestSolid
  rcases ex : Box.clamp1 h.x p.x with ⟨x, ix⟩
  rcases ey : Box.clamp1 h.y p.y with ⟨y, iy⟩
  rcases ez : Box.clamp1 h.z p.z with ⟨z, iz⟩
  rw [ex] at sx; rw [ey] at sy; rw [ez] at sz
  simp only at sx sy sz ⊢
  obtain ⟨bx, ex1, ex2, mx⟩ := sx
  obtain ⟨by', ey1, ey2, my⟩ := sy
  obtain ⟨bz, ez1, ez2, mz⟩ := sz
  by_cases hall : (ix && iy && iz) = true
  · -- the query is inside the box
    simp only [hall, if_true]
    simp only [Bool.and_eq_true] at hall
    obtain ⟨⟨hix, hiy⟩, hiz⟩ := hall
    have e1 := ex1 hix; have e2 := ey1 hiy; have e3 := ez1 hiz
    subst e1; subst e2; subst e3
    simp only [absK_eq_abs]
    have dxn : 0 ≤ h.x - |p.x| := by linarith
    have dyn : 0 ≤ h.y - |p.y| := by linarith
    have dzn : 0 ≤ h.z - |p.z| := by linarith
    -- distance from an inside point to any surface point is at least the distance to the face it lies on
    have far : ∀ q, Box.OnSurface h q → ∀ m, 0 ≤ m → m ≤ h.x - |p.x| → m ≤ h.y - |p.y| → m ≤ h.z - |p.z| →
        m * m ≤ V3.normSq (V3.sub p q) := by
      intro q hq m hm m1 m2 m3
      simp only [V3.normSq, V3.dot, V3.sub]
      rcases hq.2 with hf | hf | hf
      · have := Box.face_dist h.x p.x q.x hf bx
        nlinarith [mul_self_nonneg (p.y - q.y), mul_self_nonneg (p.z - q.z)]
      · have := Box.face_dist h.y p.y q.y hf by'
        nlinarith [mul_self_nonneg (p.x - q.x), mul_self_nonneg (p.z - q.z)]
      · have := Box.face_dist h.z p.z q.z hf bz
        nlinarith [mul_self_nonneg (p.x - q.x), mul_self_nonneg (p.y - q.y)]
    split_ifs with c1 c2 c3
    · -- z face
      refine ⟨⟨⟨bx, by', le_of_eq (Box.toSide_abs _ _ hz0)⟩, Or.inr (Or.inr (Box.toSide_abs _ _ hz0))⟩, ?_⟩
      intro q hq
      have := far q hq (h.z - |p.z|) dzn (by linarith) (by linarith) le_rfl
      simp only [V3.normSq, V3.dot, V3.sub, sub_self, mul_zero, zero_add] at this ⊢
      rw [Box.toSide_dist _ _ bz]; exact this
    · -- y face
      refine ⟨⟨⟨bx, le_of_eq (Box.toSide_abs _ _ hy0), bz⟩, Or.inr (Or.inl (Box.toSide_abs _ _ hy0))⟩, ?_⟩
      intro q hq
      have := far q hq (h.y - |p.y|) dyn (by linarith) le_rfl (by linarith [not_lt.mp c2])
      simp only [V3.normSq, V3.dot, V3.sub, sub_self, mul_zero, zero_add, add_zero] at this ⊢
      rw [Box.toSide_dist _ _ by']; exact this
    · -- z face
      refine ⟨⟨⟨bx, by', le_of_eq (Box.toSide_abs _ _ hz0)⟩, Or.inr (Or.inr (Box.toSide_abs _ _ hz0))⟩, ?_⟩
      intro q hq
      have := far q hq (h.z - |p.z|) dzn (by linarith) (by linarith [not_lt.mp c1]) le_rfl
      simp only [V3.normSq, V3.dot, V3.sub, sub_self, mul_zero, zero_add] at this ⊢
      rw [Box.toSide_dist _ _ bz]; exact this
    · -- x face
      refine ⟨⟨⟨le_of_eq (Box.toSide_abs _ _ hx0), by', bz⟩, Or.inl (Box.toSide_abs _ _ hx0)⟩, ?_⟩
      intro q hq
      have := far q hq (h.x - |p.x|) dxn le_rfl (by linarith [not_lt.mp c1]) (by linarith [not_lt.mp c3])
      simp only [V3.normSq, V3.dot, V3.sub, sub_self, mul_zero, zero_add, add_zero] at this ⊢
      rw [Box.toSide_dist _ _ bx]; exact this
  · -- the query is outside: the clamped point
    have hf : (ix && iy && iz) = false := by simpa using hall
    simp only [hf, Bool.false_eq_true, if_false]
    have hsome : |x| = h.x ∨ |y| = h.y ∨ |z| = h.z := by
      cases ix
      · exact Or.inl (ex2 rfl)
      · cases iy
        · exact Or.inr (Or.inl (ey2 rfl))
        · cases iz
          · exact Or.inr (Or.inr (ez2 rfl))
          · exact absurd rfl hall
    refine ⟨⟨⟨bx, by', bz⟩, hsome⟩, ?_⟩
    intro q hq
    have a := mx q.x hq.1.1
    have b := my q.y hq.1.2.1
    have c := mz q.z hq.1.2.2
    simp only [V3.normSq, V3.dot, V3.sub]
    linarith

/-! ## (C) inside flag = sign of the implicit function -/

omit [IsStrictOrderedRing K] in
theorem HS.inside_iff_sign (p : V3 K) : (HS.nearest p).inside = true ↔ 0 ≤ HS.value p := by
  simp [HS.nearest, HS.value]

theorem Sph.inside_iff_sign (sqrt : K → K) (r : K) (hr : r ≠ 0) (p : V3 K) :
    ((Sph.nearest sqrt r p).inside = true ↔ 0 ≤ Sph.value r p) ∧
    ((Sph.nearest sqrt r p).inside = true ↔ 0 ≤ Sph.implicit r p) := by
  have hr2 : 0 < r * r := mul_self_pos.mpr hr
  have key : (Sph.nearest sqrt r p).inside = true ↔ V3.normSq p ≤ r * r := by simp [Sph.nearest]
  rw [key]
  simp only [Sph.value, Sph.implicit, sq, V3.normSq, V3.dot]
  rw [sub_nonneg, div_le_one hr2]
  constructor
  · constructor <;> intro h <;> linarith
  · rfl

theorem Cyl.inside_iff_sign (sqrt : K → K) (tiny sqrtEps : K) (hat : V3 K) (r : K) (hr : r ≠ 0) (p : V3 K) :
    ((Cyl.nearest sqrt tiny sqrtEps hat r p).inside = true ↔ 0 ≤ Cyl.value r p) ∧
    ((Cyl.nearest sqrt tiny sqrtEps hat r p).inside = true ↔ 0 ≤ Cyl.implicit r p) := by
  have hr2 : 0 < r * r := mul_self_pos.mpr hr
  have key : (Cyl.nearest sqrt tiny sqrtEps hat r p).inside = true ↔ p.x * p.x + p.y * p.y ≤ r * r := by
    simp [Cyl.nearest]
  rw [key]
  simp only [Cyl.value, Cyl.implicit, sq]
  rw [sub_nonneg, div_le_one hr2]
  constructor
  · constructor <;> intro h <;> linarith
  · rfl

/-- ellipsoid: the flag is the *strict* sign (`f > 0`); it differs from the other shapes only on the surface -/
theorem Ell.inside_iff_sign (r p : V3 K) (t : K) :
    (Ell.nearestWith r p t).inside = true ↔ 0 < Ell.value r p := by
  simp only [Ell.nearestWith, Ell.value, decide_eq_true_eq]
  constructor <;> intro h
  · have : p.x * p.x / (r.x * r.x) + p.y * p.y / (r.y * r.y) + p.z * p.z / (r.z * r.z) < 1 := by
      simpa [div_eq_mul_inv] using h
    linarith
  · have : p.x * p.x / (r.x * r.x) + p.y * p.y / (r.y * r.y) + p.z * p.z / (r.z * r.z) < 1 := by linarith
    simpa [div_eq_mul_inv] using this

/-! ## (D) support points maximise the direction over the solid -/

/-- sphere: `d` a unit vector; `⟨d, r d⟩ = r ≥ ⟨d, x⟩` for every `x` in the ball; the support point is on the surface -/
theorem Sph.support_maximises (r : K) (hr : 0 ≤ r) (d x : V3 K) (hd : V3.normSq d = 1)
    (hx : 0 ≤ Sph.value r x) :
    V3.dot d x ≤ V3.dot d (Sph.support r d) ∧ Sph.value r (Sph.support r d) = 0 := by
  have hx' : V3.normSq x ≤ r * r := by simp only [Sph.value, V3.normSq] at hx ⊢; linarith
  have h1 : V3.dot d x ≤ 1 * r := dot_le_mul zero_le_one hr (by rw [hd]; ring) hx'
  simp only [Sph.support, Sph.value, V3.dot, V3.smul, V3.normSq] at *
  constructor
  · nlinarith
  · linear_combination (-(r * r)) * hd

/-- ellipsoid (`findPointWithThisUnitNormal`): Cauchy–Schwarz in the scaled coordinates `xᵢ/aᵢ` -/
theorem Ell.support_maximises (sqrt : K → K) (r d x : V3 K) (hr : r.x ≠ 0 ∧ r.y ≠ 0 ∧ r.z ≠ 0)
    (hs : sqrt (V3.normSq ⟨d.x * r.x, d.y * r.y, d.z * r.z⟩) * sqrt (V3.normSq ⟨d.x * r.x, d.y * r.y, d.z * r.z⟩)
        = V3.normSq ⟨d.x * r.x, d.y * r.y, d.z * r.z⟩)
    (h0 : 0 < sqrt (V3.normSq ⟨d.x * r.x, d.y * r.y, d.z * r.z⟩))
    (hx : 0 ≤ Ell.value r x) :
    V3.dot d x ≤ V3.dot d (Ell.support sqrt r d) ∧ Ell.value r (Ell.support sqrt r d) = 0 := by
  obtain ⟨a0, a1, a2⟩ := hr
  have hw : V3.normSq (⟨x.x / r.x, x.y / r.y, x.z / r.z⟩ : V3 K) ≤ 1 * 1 := by
    simp only [Ell.value, V3.normSq, V3.dot] at hx ⊢
    have e : x.x / r.x * (x.x / r.x) + x.y / r.y * (x.y / r.y) + x.z / r.z * (x.z / r.z)
        = x.x * x.x / (r.x * r.x) + x.y * x.y / (r.y * r.y) + x.z * x.z / (r.z * r.z) := by
      field_simp
    rw [e]; linarith
  have hdot := dot_le_mul (le_of_lt h0) zero_le_one hs.symm hw
  have hm := ne_of_gt h0
  simp only [Ell.support, Ell.value, V3.dot, V3.sdiv, V3.normSq] at *
  generalize sqrt (d.x * r.x * (d.x * r.x) + d.y * r.y * (d.y * r.y) + d.z * r.z * (d.z * r.z)) = m at hs h0 hm hdot ⊢
  constructor
  · have e1 : d.x * r.x * (x.x / r.x) + d.y * r.y * (x.y / r.y) + d.z * r.z * (x.z / r.z)
        = d.x * x.x + d.y * x.y + d.z * x.z := by field_simp
    have e2 : d.x * (d.x * r.x * r.x / m) + d.y * (d.y * r.y * r.y / m) + d.z * (d.z * r.z * r.z / m) = m := by
      field_simp
      linear_combination (-1 : K) * hs
    rw [e2]; rw [e1] at hdot; linarith
  · field_simp
    linear_combination hs

/-- brick (`Geo::Box::findSupportPoint`): the chosen vertex maximises `⟨d, ·⟩` over the solid box -/
theorem Box.support_maximises (h d x : V3 K) (hx : |x.x| ≤ h.x ∧ |x.y| ≤ h.y ∧ |x.z| ≤ h.z) :
    V3.dot d x ≤ V3.dot d (Box.support h d) ∧ Box.containsPoint h (Box.support h d) = true := by
  obtain ⟨hx0, hx1, hx2⟩ := hx
  have b0 := abs_le.mp hx0; have b1 := abs_le.mp hx1; have b2 := abs_le.mp hx2
  have c0 : d.x * x.x ≤ d.x * (if d.x < 0 then -h.x else h.x) := by
    split_ifs with hd
    · nlinarith [b0.1]
    · nlinarith [b0.2, not_lt.mp hd]
  have c1 : d.y * x.y ≤ d.y * (if d.y < 0 then -h.y else h.y) := by
    split_ifs with hd
    · nlinarith [b1.1]
    · nlinarith [b1.2, not_lt.mp hd]
  have c2 : d.z * x.z ≤ d.z * (if d.z < 0 then -h.z else h.z) := by
    split_ifs with hd
    · nlinarith [b2.1]
    · nlinarith [b2.2, not_lt.mp hd]
  have hh0 : 0 ≤ h.x := le_trans (abs_nonneg _) hx0
  have hh1 : 0 ≤ h.y := le_trans (abs_nonneg _) hx1
  have hh2 : 0 ≤ h.z := le_trans (abs_nonneg _) hx2
  constructor
  · simp only [Box.support, V3.dot]; linarith
  · simp only [Box.support, Box.containsPoint, Bool.and_eq_true, not_decide_lt, absK_eq_abs]
    refine ⟨⟨?_, ?_⟩, ?_⟩
    · split_ifs <;> simp [abs_of_nonneg hh0]
    · split_ifs <;> simp [abs_of_nonneg hh1]
    · split_ifs <;> simp [abs_of_nonneg hh2]

/-! ## (E) bounding spheres (centre = origin) contain the solid -/

theorem Sph.bounding_contains (r : K) (x : V3 K) (hx : 0 ≤ Sph.value r x) :
    V3.normSq x ≤ Sph.boundRadius r * Sph.boundRadius r := by
  simp only [Sph.value, Sph.boundRadius, V3.normSq] at *; linarith

theorem Ell.bounding_contains (r x : V3 K) (hr : 0 < r.x ∧ 0 < r.y ∧ 0 < r.z) (hx : 0 ≤ Ell.value r x) :
    V3.normSq x ≤ Ell.boundRadius r * Ell.boundRadius r := by
  obtain ⟨a0, a1, a2⟩ := hr
  have m0 : r.x ≤ Ell.boundRadius r := le_trans (le_maxK_left _ _) (le_maxK_left _ _)
  have m1 : r.y ≤ Ell.boundRadius r := le_trans (le_maxK_right _ _) (le_maxK_left _ _)
  have m2 : r.z ≤ Ell.boundRadius r := le_maxK_right _ _
  generalize Ell.boundRadius r = M at m0 m1 m2 ⊢
  have q0 : r.x * r.x ≤ M * M := by nlinarith
  have q1 : r.y * r.y ≤ M * M := by nlinarith
  have q2 : r.z * r.z ≤ M * M := by nlinarith
  have e0 : x.x * x.x ≤ M * M * (x.x * x.x / (r.x * r.x)) := by
    rw [mul_div_assoc']; rw [le_div_iff₀ (by positivity)]; nlinarith [mul_self_nonneg x.x]
  have e1 : x.y * x.y ≤ M * M * (x.y * x.y / (r.y * r.y)) := by
    rw [mul_div_assoc']; rw [le_div_iff₀ (by positivity)]; nlinarith [mul_self_nonneg x.y]
  have e2 : x.z * x.z ≤ M * M * (x.z * x.z / (r.z * r.z)) := by
    rw [mul_div_assoc']; rw [le_div_iff₀ (by positivity)]; nlinarith [mul_self_nonneg x.z]
  simp only [Ell.value, V3.normSq, V3.dot] at hx ⊢
  have hM : 0 ≤ M * M := mul_self_nonneg M
  nlinarith

theorem Box.bounding_contains (sqrt : K → K) (h x : V3 K)
    (hs : sqrt (V3.normSq h) * sqrt (V3.normSq h) = V3.normSq h)
    (hx : |x.x| ≤ h.x ∧ |x.y| ≤ h.y ∧ |x.z| ≤ h.z) :
    V3.normSq x ≤ Box.boundRadius sqrt h * Box.boundRadius sqrt h := by
  obtain ⟨hx0, hx1, hx2⟩ := hx
  simp only [Box.boundRadius]; rw [hs]
  simp only [V3.normSq, V3.dot]
  have := abs_le.mp hx0; have := abs_le.mp hx1; have := abs_le.mp hx2
  nlinarith [abs_nonneg x.x, abs_nonneg x.y, abs_nonneg x.z]

theorem Tor.bounding_contains (sqrt : K → K) (R r : K) (hR : 0 ≤ R) (hr : 0 < r) (x : V3 K)
    (hs : sqrt (x.x * x.x + x.y * x.y) * sqrt (x.x * x.x + x.y * x.y) = x.x * x.x + x.y * x.y)
    (hx : 0 ≤ Tor.value sqrt R r x) :
    V3.normSq x ≤ Tor.boundRadius R r * Tor.boundRadius R r := by
  simp only [Tor.value, Tor.boundRadius, V3.normSq, V3.dot, sq] at *
  generalize sqrt (x.x * x.x + x.y * x.y) = ρ at hs hx ⊢
  have hr2 : 0 < r * r := by positivity
  rw [sub_nonneg, div_le_one hr2] at hx
  have hu : (R - ρ) * (R - ρ) ≤ r * r := by nlinarith [mul_self_nonneg x.z]
  have hu' : ρ - R ≤ r := by
    apply le_of_sq_le hr.le; nlinarith
  nlinarith [mul_self_nonneg x.z]

/-! ## (F) ray queries return the first surface hit -/

/-- the point at parameter `s` along the ray -/
def rayPt (o d : V3 K) (s : K) : V3 K := V3.add o (V3.smul s d)

/-- half space (`eps = SignificantReal > 0`; rays with `|dₓ| < eps` are treated as parallel): a reported hit is at a
non-negative distance, on the plane, and nothing closer along the ray is on the plane; if no hit is reported
for a non-parallel ray the ray never meets the plane -/
theorem HS.ray_first_hit (eps : K) (heps : 0 < eps) (o d : V3 K) :
    match HS.ray eps o d with
    | none => |d.x| < eps ∨ ∀ s, 0 ≤ s → HS.value (rayPt o d s) ≠ 0
    | some (dist, _) => 0 ≤ dist ∧ HS.value (rayPt o d dist) = 0 ∧
        ∀ s, 0 ≤ s → s < dist → HS.value (rayPt o d s) ≠ 0 := by
  unfold HS.ray
  rw [absK_eq_abs]
  simp only []
  split_ifs with h1 h2
  · exact Or.inl h1
  · right
    intro s hs
    simp only [HS.value, rayPt, V3.add, V3.smul]
    have hd : d.x ≠ 0 := by
      intro h0; rw [h0, div_zero] at h2; exact lt_irrefl _ h2
    have e : o.x + s * d.x = d.x * (o.x / d.x + s) := by field_simp
    rw [e]
    exact mul_ne_zero hd (ne_of_gt (by linarith))
  · by_cases hd : d.x = 0
    · -- impossible: |0| < eps
      exfalso; apply h1; rw [hd, abs_zero]; exact heps
    · simp only [HS.value, rayPt, V3.add, V3.smul]
      refine ⟨by linarith [not_lt.mp h2], by field_simp; ring, ?_⟩
      intro s hs0 hs1
      have e : o.x + s * d.x = d.x * (o.x / d.x + s) := by field_simp
      rw [e]
      exact mul_ne_zero hd (ne_of_lt (by linarith))

omit [LinearOrder K] [IsStrictOrderedRing K] in
/-- along a ray with unit direction, `|o + s d|² − r² = s² − 2 b s + c` with `b = −d·o`, `c = |o|² − r²` -/
theorem Sph.ray_quadratic (r : K) (o d : V3 K) (s : K) (hd : V3.normSq d = 1) :
    V3.normSq (rayPt o d s) - r * r = s * s - 2 * (-(V3.dot d o)) * s + (V3.normSq o - r * r) := by
  simp only [rayPt, V3.normSq, V3.dot, V3.add, V3.smul] at *
  linear_combination (s * s) * hd

/-- sphere, unit direction, origin not on the surface: a reported hit is at a non-negative distance, on the sphere,
and no point of the ray before it is on the sphere; if no hit is reported the ray (s ≥ 0) misses the sphere -/
theorem Sph.ray_first_hit (sqrt : K → K) (hsq : SqrtSpec sqrt) (r : K) (o d : V3 K) (hd : V3.normSq d = 1)
    (ho : V3.normSq o ≠ r * r) :
    match Sph.ray sqrt r o d with
    | none => ∀ s, 0 ≤ s → V3.normSq (rayPt o d s) ≠ r * r
    | some (dist, _) => 0 ≤ dist ∧ V3.normSq (rayPt o d dist) = r * r ∧
        ∀ s, 0 ≤ s → s < dist → V3.normSq (rayPt o d s) ≠ r * r := by
  have quad := fun s => Sph.ray_quadratic r o d s hd
  unfold Sph.ray
  simp only []
  generalize hb : -(V3.dot d o) = b at quad ⊢
  generalize hc : V3.normSq o - r * r = c at quad ⊢
  have hc0 : c ≠ 0 := by rw [← hc]; exact sub_ne_zero.mpr ho
  split_ifs with h1 h2 h3 h4
  · -- outside, towards, negative discriminant
    intro s hs0 heq
    have := quad s; rw [heq, sub_self] at this
    nlinarith [mul_self_nonneg (s - b)]
  · -- outside, hit at b - √disc
    have hD : 0 ≤ b * b - c := not_lt.mp h3
    have hs := hsq.sq _ hD
    have hn := hsq.nonneg _ hD
    generalize sqrt (b * b - c) = w at hs hn ⊢
    have hwb : w < b := by
      by_contra hcon
      have : b * b ≤ w * w := by nlinarith [not_lt.mp hcon]
      nlinarith
    refine ⟨by linarith, ?_, ?_⟩
    · have := quad (b - w); nlinarith
    · intro s hs0 hs1 heq
      have := quad s; rw [heq, sub_self] at this
      nlinarith
  · -- outside, pointing away
    intro s hs0 heq
    have := quad s; rw [heq, sub_self] at this
    nlinarith [not_lt.mp h2]
  · -- inside: disc = b² − c ≥ b² ≥ 0, never negative
    exfalso
    have : c ≤ 0 := not_lt.mp h1
    nlinarith [mul_self_nonneg b]
  · -- inside, hit at b + √disc
    have hcneg : c < 0 := lt_of_le_of_ne (not_lt.mp h1) hc0
    have hD : 0 ≤ b * b - c := not_lt.mp h4
    have hs := hsq.sq _ hD
    have hn := hsq.nonneg _ hD
    generalize sqrt (b * b - c) = w at hs hn ⊢
    have hwb : b < w ∧ -b < w := by
      constructor <;> (by_contra hcon; have := not_lt.mp hcon; nlinarith)
    refine ⟨by linarith [hwb.2], ?_, ?_⟩
    · have := quad (b + w); nlinarith
    · intro s hs0 hs1 heq
      have := quad s; rw [heq, sub_self] at this
      nlinarith [hwb.1, hwb.2]


omit [LinearOrder K] [IsStrictOrderedRing K] in
/-- along a ray, `rx²·(1 − f)` of the ellipsoid is the quadratic `a s² − 2 b s + c` of the code (`sy = rx²/ry²`, `sz = rx²/rz²`) -/
theorem Ell.ray_quadratic (r o d : V3 K) (s : K) :
    let sy := r.x * r.x / (r.y * r.y)
    let sz := r.x * r.x / (r.z * r.z)
    let p := rayPt o d s
    p.x * p.x + sy * p.y * p.y + sz * p.z * p.z - r.x * r.x
      = (V3.dot ⟨d.x, sy * d.y, sz * d.z⟩ d) * s * s - 2 * (-(V3.dot ⟨d.x, sy * d.y, sz * d.z⟩ o)) * s
        + (o.x * o.x + sy * o.y * o.y + sz * o.z * o.z - r.x * r.x) := by
  simp only [rayPt, V3.dot, V3.add, V3.smul]; ring

/-- ellipsoid ray query (origin not on the surface, `a = d·S d > 0`): with `Q(s) = a s² − 2 b s + c` the scaled implicit
function along the ray (`Q < 0` inside, `Q > 0` outside), a reported hit is at a non-negative distance, is a root of `Q`,
and `Q` has no root before it; from **inside** (`c < 0`) a hit is always reported and it is the unique non-negative
root; a reported miss means `Q` has no non-negative root -/
theorem Ell.ray_first_hit (sqrt : K → K) (hsq : SqrtSpec sqrt) (r o d : V3 K)
    (ha : 0 < V3.dot ⟨d.x, r.x * r.x / (r.y * r.y) * d.y, r.x * r.x / (r.z * r.z) * d.z⟩ d)
    (hc : o.x * o.x + r.x * r.x / (r.y * r.y) * o.y * o.y + r.x * r.x / (r.z * r.z) * o.z * o.z - r.x * r.x ≠ 0) :
    let a := V3.dot ⟨d.x, r.x * r.x / (r.y * r.y) * d.y, r.x * r.x / (r.z * r.z) * d.z⟩ d
    let b := -(V3.dot ⟨d.x, r.x * r.x / (r.y * r.y) * d.y, r.x * r.x / (r.z * r.z) * d.z⟩ o)
    let c := o.x * o.x + r.x * r.x / (r.y * r.y) * o.y * o.y + r.x * r.x / (r.z * r.z) * o.z * o.z - r.x * r.x
    match Ell.ray sqrt r o d with
    | none => 0 < c ∧ ∀ s, 0 ≤ s → a * s * s - 2 * b * s + c ≠ 0
    | some (dist, _) => 0 ≤ dist ∧ a * dist * dist - 2 * b * dist + c = 0 ∧
        (∀ s, 0 ≤ s → s < dist → a * s * s - 2 * b * s + c ≠ 0) ∧
        (c < 0 → ∀ s, 0 ≤ s → a * s * s - 2 * b * s + c = 0 → s = dist) := by
  intro a b c
  have hc0 : c ≠ 0 := hc
  have ha' : 0 < a := ha
  have ea : a = V3.dot ⟨d.x, r.x * r.x / (r.y * r.y) * d.y, r.x * r.x / (r.z * r.z) * d.z⟩ d := rfl
  have eb : b = -(V3.dot ⟨d.x, r.x * r.x / (r.y * r.y) * d.y, r.x * r.x / (r.z * r.z) * d.z⟩ o) := rfl
  have ec : c = o.x * o.x + r.x * r.x / (r.y * r.y) * o.y * o.y + r.x * r.x / (r.z * r.z) * o.z * o.z - r.x * r.x := rfl
  unfold Ell.ray
  simp only []
  rw [← ea, ← eb, ← ec]
  clear_value a b c
  clear ea eb ec hc ha
  rename' a => A, b => B, c => C
  -- a·Q(s) = (A s − B)² − (B² − A C)
  have key : ∀ s : K, A * (A * s * s - 2 * B * s + C) = (A * s - B) * (A * s - B) - (B * B - A * C) := by intro s; ring
  split_ifs with h1 h2 h3 h4
  · -- outside, towards, negative discriminant
    refine ⟨h1, fun s _ heq => ?_⟩
    have := key s; rw [heq, mul_zero] at this
    nlinarith [mul_self_nonneg (A * s - B)]
  · -- outside, hit at (B − w)/A
    have hD : 0 ≤ B * B - A * C := not_lt.mp h3
    have hs := hsq.sq _ hD
    have hn := hsq.nonneg _ hD
    generalize sqrt (B * B - A * C) = w at hs hn ⊢
    have hwb : w < B := by
      by_contra hcon
      have : B * B ≤ w * w := by nlinarith [not_lt.mp hcon]
      nlinarith
    have hA : A ≠ 0 := ne_of_gt ha'
    refine ⟨div_nonneg (by linarith) ha'.le, ?_, ?_, fun hneg => absurd hneg (not_lt.mpr h1.le)⟩
    · field_simp; nlinarith
    · intro s hs0 hs1 heq
      have := key s; rw [heq, mul_zero] at this
      have hlt : A * s < B - w := by rwa [lt_div_iff₀ ha', mul_comm] at hs1
      nlinarith
  · -- outside, pointing away
    refine ⟨h1, fun s hs0 heq => ?_⟩
    have hB := not_lt.mp h2
    nlinarith [mul_nonneg ha'.le (mul_self_nonneg s), mul_nonneg hs0 (neg_nonneg.mpr hB)]
  · -- inside: discriminant is positive
    exfalso
    have : C ≤ 0 := not_lt.mp h1
    nlinarith [mul_self_nonneg B, mul_nonneg ha'.le (neg_nonneg.mpr this)]
  · -- inside, hit at (B + w)/A
    have hcneg : C < 0 := lt_of_le_of_ne (not_lt.mp h1) hc0
    have hD : 0 ≤ B * B - A * C := not_lt.mp h4
    have hs := hsq.sq _ hD
    have hn := hsq.nonneg _ hD
    generalize sqrt (B * B - A * C) = w at hs hn ⊢
    have hAC : A * C < 0 := mul_neg_of_pos_of_neg ha' hcneg
    have hwb : B < w ∧ -B < w := by
      constructor <;> (by_contra hcon; have := not_lt.mp hcon; nlinarith)
    have hA : A ≠ 0 := ne_of_gt ha'
    refine ⟨div_nonneg (by linarith [hwb.2]) ha'.le, ?_, ?_, ?_⟩
    · field_simp; nlinarith
    · intro s hs0 hs1 heq
      have := key s; rw [heq, mul_zero] at this
      have hlt : A * s < B + w := by rwa [lt_div_iff₀ ha', mul_comm] at hs1
      have hge : 0 ≤ A * s := mul_nonneg ha'.le hs0
      nlinarith [hwb.1, hwb.2]
    · intro _ s hs0 heq
      have := key s; rw [heq, mul_zero] at this
      have hge : 0 ≤ A * s := mul_nonneg ha'.le hs0
      -- (A s − B)² = w², and A s − B > −w, so A s − B = w
      have hfac : (A * s - B - w) * (A * s - B + w) = 0 := by nlinarith
      rcases mul_eq_zero.mp hfac with h | h
      · rw [eq_div_iff hA]; linarith
      · exfalso; nlinarith [hwb.1, hwb.2]

/-! ## round 2: the largest real root satisfies the guard; unit normal; sphere curvature; box flag -/

omit [LinearOrder K] [IsStrictOrderedRing K] in
/-- the value of the code's polynomial at `t = −a_x²` is `−a_x² p_x² (a_y²−a_x²)² (a_z²−a_x²)² ≤ 0` -/
theorem Ell.secular_at_minus_axis_x (r p : V3 K) :
    Ell.horner (Ell.secularCoeffs r p) (-(r.x * r.x))
      = -(r.x * r.x * (p.x * p.x) * (r.y * r.y - r.x * r.x) ^ 2 * (r.z * r.z - r.x * r.x) ^ 2) := by
  rw [Ell.secular_polynomial_expansion]; ring
omit [LinearOrder K] [IsStrictOrderedRing K] in
theorem Ell.secular_at_minus_axis_y (r p : V3 K) :
    Ell.horner (Ell.secularCoeffs r p) (-(r.y * r.y))
      = -(r.y * r.y * (p.y * p.y) * (r.x * r.x - r.y * r.y) ^ 2 * (r.z * r.z - r.y * r.y) ^ 2) := by
  rw [Ell.secular_polynomial_expansion]; ring
omit [LinearOrder K] [IsStrictOrderedRing K] in
theorem Ell.secular_at_minus_axis_z (r p : V3 K) :
    Ell.horner (Ell.secularCoeffs r p) (-(r.z * r.z))
      = -(r.z * r.z * (p.z * p.z) * (r.x * r.x - r.z * r.z) ^ 2 * (r.y * r.y - r.z * r.z) ^ 2) := by
  rw [Ell.secular_polynomial_expansion]; ring

/-- abstract step: a polynomial value `P t0 < 0` at `t0`, a root `t` beyond which `P` is positive ⇒ `t0 < t` -/
theorem Ell.guard_of_largest (P : K → K) (t t0 : K) (hroot : P t = 0) (hlargest : ∀ t', t < t' → 0 < P t') (hneg : P t0 < 0) :
    0 < t - t0 := by
  rcases lt_trichotomy t t0 with h | h | h
  · exact absurd (hlargest t0 h) (not_lt.mpr hneg.le)
  · rw [h] at hroot; rw [hroot] at hneg; exact absurd hneg (lt_irrefl 0)
  · linarith

/-- **the largest real root satisfies the guard** (review D, C34-4): for a generic query (no coordinate zero) of an
ellipsoid with three different semi-axes, a root `t` of the code's polynomial beyond which the polynomial is positive
(= its largest real root, leading coefficient 1) has `t + aᵢ² > 0` for all three axes -/
theorem Ell.largest_root_guarded (r p : V3 K) (t : K)
    (hr : r.x ≠ 0 ∧ r.y ≠ 0 ∧ r.z ≠ 0) (hp : p.x ≠ 0 ∧ p.y ≠ 0 ∧ p.z ≠ 0)
    (hd : r.x * r.x ≠ r.y * r.y ∧ r.x * r.x ≠ r.z * r.z ∧ r.y * r.y ≠ r.z * r.z)
    (hroot : Ell.horner (Ell.secularCoeffs r p) t = 0)
    (hlargest : ∀ t', t < t' → 0 < Ell.horner (Ell.secularCoeffs r p) t') :
    0 < t + r.x * r.x ∧ 0 < t + r.y * r.y ∧ 0 < t + r.z * r.z := by
  obtain ⟨rx, ry, rz⟩ := hr; obtain ⟨px, py, pz⟩ := hp; obtain ⟨dxy, dxz, dyz⟩ := hd
  have pos : ∀ a q u v : K, a ≠ 0 → q ≠ 0 → u ≠ 0 → v ≠ 0 → -(a * a * (q * q) * u ^ 2 * v ^ 2) < 0 := by
    intro a q u v ha hq hu hv
    have h3 : 0 < u ^ 2 := by positivity
    have h4 : 0 < v ^ 2 := by positivity
    have := mul_pos (mul_pos (mul_pos (mul_self_pos.mpr ha) (mul_self_pos.mpr hq)) h3) h4
    linarith
  refine ⟨?_, ?_, ?_⟩
  · have := Ell.guard_of_largest _ t (-(r.x * r.x)) hroot hlargest
      (by rw [Ell.secular_at_minus_axis_x]; exact pos _ _ _ _ rx px (sub_ne_zero.mpr (Ne.symm dxy)) (sub_ne_zero.mpr (Ne.symm dxz)))
    linarith
  · have := Ell.guard_of_largest _ t (-(r.y * r.y)) hroot hlargest
      (by rw [Ell.secular_at_minus_axis_y]; exact pos _ _ _ _ ry py (sub_ne_zero.mpr dxy) (sub_ne_zero.mpr (Ne.symm dyz)))
    linarith
  · have := Ell.guard_of_largest _ t (-(r.z * r.z)) hroot hlargest
      (by rw [Ell.secular_at_minus_axis_z]; exact pos _ _ _ _ rz pz (sub_ne_zero.mpr dxz) (sub_ne_zero.mpr dyz))
    linarith

/-- **generic query**: the point computed from the largest real root is on the ellipsoid and is the nearest surface point
(composition of `largest_root_guarded`, `nearest_on_surface`, `nearest_is_minimal`) -/
theorem Ell.nearest_correct_generic (r p : V3 K) (t : K)
    (hr : r.x ≠ 0 ∧ r.y ≠ 0 ∧ r.z ≠ 0) (hp : p.x ≠ 0 ∧ p.y ≠ 0 ∧ p.z ≠ 0)
    (hd : r.x * r.x ≠ r.y * r.y ∧ r.x * r.x ≠ r.z * r.z ∧ r.y * r.y ≠ r.z * r.z)
    (hroot : Ell.horner (Ell.secularCoeffs r p) t = 0)
    (hlargest : ∀ t', t < t' → 0 < Ell.horner (Ell.secularCoeffs r p) t') :
    Ell.value r (Ell.nearestWith r p t).pt = 0 ∧
    ∀ q, Ell.value r q = 0 → V3.normSq (V3.sub p (Ell.nearestWith r p t).pt) ≤ V3.normSq (V3.sub p q) := by
  have hg := Ell.largest_root_guarded r p t hr hp hd hroot hlargest
  have hon := Ell.nearest_on_surface r p t hr ⟨ne_of_gt hg.1, ne_of_gt hg.2.1, ne_of_gt hg.2.2⟩ hroot
  exact ⟨hon, fun q hq => Ell.nearest_is_minimal r p t hr hg hon q hq⟩

/-- the normal returned by `Ellipsoid::findNearestPoint` is a unit vector and `−∇f/(2m)`, `m > 0`: it points along the
outward normal of the implicit function at the returned point -/
theorem Ell.nearest_unit_normal (sqrt : K → K) (hsq : SqrtSpec sqrt) (r p : V3 K) (t : K)
    (hn : 0 < V3.normSq (Ell.nearestWith r p t).normal) :
    V3.normSq (Ell.nearest sqrt r p t).normal = 1 ∧ 0 < sqrt (V3.normSq (Ell.nearestWith r p t).normal) ∧
    V3.smul (2 * sqrt (V3.normSq (Ell.nearestWith r p t).normal)) (Ell.nearest sqrt r p t).normal
      = V3.neg (Ell.grad r (Ell.nearest sqrt r p t).pt) := by
  have hm2 := hsq.sq _ hn.le
  have hm0 : sqrt (V3.normSq (Ell.nearestWith r p t).normal) ≠ 0 := by
    intro h; rw [h, mul_zero] at hm2; exact absurd hm2 (ne_of_lt hn)
  have hmpos : 0 < sqrt (V3.normSq (Ell.nearestWith r p t).normal) := lt_of_le_of_ne (hsq.nonneg _ hn.le) (Ne.symm hm0)
  refine ⟨unit_normSq sqrt _ hm2 hm0, hmpos, ?_⟩
  simp only [Ell.nearest, V3.unit, V3.sdiv, V3.smul, V3.neg, Ell.grad]
  generalize sqrt (V3.normSq (Ell.nearestWith r p t).normal) = m at hm0
  simp only [Ell.nearestWith]
  simp only [V3.mk.injEq]
  refine ⟨?_, ?_, ?_⟩ <;> field_simp

/-- sphere: the generic curvature routine on the sphere's gradient/Hessian gives `1/r` in every tangent direction -/
theorem Sph.curvInDir_eq (tiny r : K) (hr : r ≠ 0) (htiny : tiny ≤ 2) (p d : V3 K)
    (hp : V3.dot p p = r * r) (hd : V3.dot d d = 1) :
    curvInDir tiny (Sph.grad p) (V3.sdiv p r) Sph.hess d = Sph.curvature r := by
  have k : V3.dot d (M3.mulVec Sph.hess d) = -2 := by
    simp only [Sph.hess, diag3, M3.mulVec, V3.dot] at hd ⊢; linear_combination (-2) * hd
  have g : V3.dot (Sph.grad p) (V3.sdiv p r) = -2 * r := by
    simp only [Sph.grad, V3.smul, V3.sdiv, V3.dot] at hp ⊢
    field_simp
    linear_combination (-1) * hp
  have ha : ¬ (absK (-2 : K) < tiny) := by
    simp only [absK]; norm_num; linarith
  simp only [curvInDir, k, g, ha, if_false, Sph.curvature]
  field_simp

/-- `Geo::Box::findClosestPointOnSurface`: the returned flag is `containsPoint` -/
theorem Box.closestSurface_flag (h p : V3 K) : (Box.closestSurface h p).2 = Box.containsPoint h p := by
  have c1 : ∀ hh c : K, (Box.clamp1 hh c).2 = !decide (hh < absK c) := by
    intro hh c
    simp only [Box.clamp1, absK]
    split_ifs <;> simp <;> linarith
  have e : (Box.closestSolid h p).2 = Box.containsPoint h p := by
    simp only [Box.closestSolid, Box.containsPoint, c1]
  simp only [Box.closestSurface]
  rw [← e]
  generalize Box.closestSolid h p = cs
  obtain ⟨c, ins⟩ := cs
  cases ins <;> simp
  split_ifs <;> rfl

/-! ## finding F5 at the level of the model, and non-vacuity of the hypotheses used above -/

/-- **F5**: the guard `t + aᵢ² ≠ 0` of `Ell.nearest_on_surface` cannot be dropped.  Radii (3,2,1), query
(1/10,0,0) (on two symmetry planes, inside the evolute): the largest real root of the code's polynomial is
`t = −1 = −a₂²`, for which the guard fails on the z axis (`t + a_z² = 0`: the z component `p_z a_z²/(t + a_z²)` is `0/0`,
deliberately **not** evaluated here — over ℚ Lean's `0/0 = 0` would make it 0, over `Float` it is NaN, the C++ gets a root
`−1 + δ` from Jenkins–Traub and returns 0).  The x and y components are well defined, `(9/80, 0)`, and **no** point of the
ellipsoid with these x, y has `z = 0` (it needs `z² = 1 − (9/80)²/9`): whatever the z formula yields near `0/0 → 0`, the
returned point (0.1125, 0, 0) is off the surface (round 2: restated without relying on `0/0 = 0`; review D, C34-1). -/
theorem Ell.guard_is_needed :
    Ell.horner (Ell.secularCoeffs (⟨3, 2, 1⟩ : V3 ℚ) ⟨1 / 10, 0, 0⟩) (-1) = 0 ∧
    (∀ t : ℚ, Ell.horner (Ell.secularCoeffs (⟨3, 2, 1⟩ : V3 ℚ) ⟨1 / 10, 0, 0⟩) t = 0 → t ≤ -1) ∧
    ((-1 : ℚ) + 1 * 1 = 0) ∧
    (Ell.nearestWith (⟨3, 2, 1⟩ : V3 ℚ) ⟨1 / 10, 0, 0⟩ (-1)).pt.x = 9 / 80 ∧
    (Ell.nearestWith (⟨3, 2, 1⟩ : V3 ℚ) ⟨1 / 10, 0, 0⟩ (-1)).pt.y = 0 ∧
    (∀ z : ℚ, Ell.value (⟨3, 2, 1⟩ : V3 ℚ) ⟨9 / 80, 0, z⟩ = 0 → z * z = 6391 / 6400) ∧
    Ell.value (⟨3, 2, 1⟩ : V3 ℚ) ⟨9 / 80, 0, 0⟩ ≠ 0 := by
  refine ⟨?_, ?_, by norm_num, ?_, ?_, ?_, ?_⟩
  · rw [Ell.secular_polynomial_expansion]; norm_num
  · intro t ht
    by_contra hc
    push Not at hc
    rw [Ell.secular_polynomial_expansion] at ht
    have e : (t + (3:ℚ) * 3) ^ 2 * (t + 2 * 2) ^ 2 * (t + 1 * 1) ^ 2
        - 3 * 3 * (1 / 10 * (1 / 10)) * (t + 2 * 2) ^ 2 * (t + 1 * 1) ^ 2
        - 2 * 2 * (0 * 0) * (t + 3 * 3) ^ 2 * (t + 1 * 1) ^ 2 - 1 * 1 * (0 * 0) * (t + 3 * 3) ^ 2 * (t + 2 * 2) ^ 2
        = (t + 1) ^ 2 * (t + 4) ^ 2 * ((t + 9) ^ 2 - 9 / 100) := by ring
    rw [e] at ht
    have h1 : 0 < t + 1 := by linarith
    have h4 : 0 < t + 4 := by linarith
    have h9 : 0 < (t + 9) ^ 2 - 9 / 100 := by nlinarith
    have := mul_pos (mul_pos (pow_pos h1 2) (pow_pos h4 2)) h9
    linarith
  · norm_num [Ell.nearestWith]
  · norm_num [Ell.nearestWith]
  · intro z hz
    simp only [Ell.value] at hz
    linarith
  · norm_num [Ell.value]

/-- non-vacuity of the sphere hypotheses: `p = (3,4,0)`, `sqrt 25 = 5` -/
example : (fun _ : ℚ => (5:ℚ)) (V3.normSq ⟨3, 4, 0⟩) * (fun _ : ℚ => (5:ℚ)) (V3.normSq ⟨3, 4, 0⟩)
      = V3.normSq (⟨3, 4, 0⟩ : V3 ℚ) ∧ (0:ℚ) < (fun _ : ℚ => (5:ℚ)) (V3.normSq ⟨3, 4, 0⟩) := by
  norm_num [V3.normSq, V3.dot]

/-- non-vacuity of the ellipsoid hypotheses: radii (3,2,1), query (6,0,0): `t = 9` is a root with `t + aᵢ² > 0`,
and the returned point is (3,0,0) -/
example : Ell.horner (Ell.secularCoeffs (⟨3, 2, 1⟩ : V3 ℚ) ⟨6, 0, 0⟩) 9 = 0 ∧
    (0:ℚ) < 9 + 3 * 3 ∧ (Ell.nearestWith (⟨3, 2, 1⟩ : V3 ℚ) ⟨6, 0, 0⟩ 9).pt = ⟨3, 0, 0⟩ := by
  refine ⟨?_, by norm_num, ?_⟩
  · rw [Ell.secular_polynomial_expansion]; norm_num
  · norm_num [Ell.nearestWith]

/-- non-vacuity of the ray theorem's branch conditions: sphere r = 1, origin (−2,0,0), direction (1,0,0):
`c = 3 > 0`, `b = 2 > 0`, `disc = 1 ≥ 0`, hit at distance `b − 1 = 1` -/
example : V3.normSq (⟨1, 0, 0⟩ : V3 ℚ) = 1 ∧ V3.normSq (⟨-2, 0, 0⟩ : V3 ℚ) ≠ 1 * 1 ∧
    V3.normSq (rayPt (⟨-2, 0, 0⟩ : V3 ℚ) ⟨1, 0, 0⟩ 1) = 1 * 1 := by
  norm_num [V3.normSq, V3.dot, rayPt, V3.add, V3.smul]

end Geom
