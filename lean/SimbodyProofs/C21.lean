import SimbodyModel.C21
import Mathlib.Tactic.Ring
import Mathlib.Tactic.Linarith
import Mathlib.Tactic.NormNum
import Mathlib.Tactic.Positivity
import Mathlib.Algebra.Order.Field.Basic
import Mathlib.Algebra.Order.Ring.Unbundled.Rat
import Mathlib.Algebra.Order.Ring.Abs
/-!
# C21 — property theorems: integrators keep constrained states on the manifold

Model: `SimbodyModel/C21.lean` (decision structure of `attemptDAEStep`, step acceptance, the three hand-out paths;
`project` is an oracle) and the exact acceptance contract the driver evaluates on every returned state.
-/
namespace C21
section Field
variable {K : Type} [Field K] [LinearOrder K] [IsStrictOrderedRing K]

omit [Field K] [IsStrictOrderedRing K] in
/-- `attemptDAEStep` reports convergence only for a state that went through both projections successfully, unless the
error estimate was beyond the gate `2^p·accuracy` ("converged, but isn't worth projecting") -/
theorem dae_converged_projected_or_gated (i : DAEIn K) (h : (attemptDAEStep i).1 = true) :
    (attemptDAEStep i).2 = .projected ∨ i.gate < i.errNorm := by
  unfold attemptDAEStep attemptDAECore at h ⊢
  by_cases hg : i.gate < i.errNorm
  · exact Or.inr hg
  · left
    have hg' : ¬ i.gate < i.errNorm := hg
    cases h1 : i.odeConverged <;> cases h2 : i.projQok <;> cases h3 : i.projUok <;> simp_all [not_lt.mp hg', not_lt.mpr (not_lt.mp hg')]

omit [IsStrictOrderedRing K] in
/-- the gate never excludes a step that meets the accuracy requirement: `accuracy ≤ 2^p · accuracy` -/
theorem gate_ge_acc [IsStrictOrderedRing K] (p : Nat) (acc : K) (h : 0 ≤ acc) : acc ≤ (2 : K) ^ p * acc := by
  have : (1 : K) ≤ 2 ^ p := one_le_pow₀ (by norm_num)
  nlinarith

/-- **accepted_step_projected**: for an error-controlled integrator whose step was accepted because it met the accuracy
requirement (not because a user minimum step size forced acceptance), the advanced state is the output of successful
`projectQ` and `projectU` — for every ODE result, error norm and projection outcome. -/
theorem accepted_step_projected (i : DAEIn K) (acc : K) (hgate : acc ≤ i.gate)
    (h : stepAccepted true false (attemptDAEStep i).1 i.errNorm acc = true) :
    (attemptDAEStep i).2 = .projected := by
  unfold stepAccepted at h
  simp only [if_true, Bool.or_false, Bool.and_eq_true, decide_eq_true_eq] at h
  rcases dae_converged_projected_or_gated i h.1 with hp | hg
  · exact hp
  · exact absurd (lt_of_lt_of_le hg (le_trans h.2 hgate)) (lt_irrefl _)

/-- … whereas a user minimum step size (`setMinimumStepSize` / `setFixedStepSize`) can force acceptance of a step whose
error estimate was beyond the gate, i.e. of an UNPROJECTED state — the decision structure has this hole, and the
implementation exhibits it (harness keys `AbstractIntegratorRep.minStepForced.*`, notes/C21.md). -/
theorem min_step_forced_may_be_unprojected :
    ∃ (i : DAEIn Rat) (acc : Rat), acc ≤ i.gate ∧
      stepAccepted true true (attemptDAEStep i).1 i.errNorm acc = true ∧ (attemptDAEStep i).2 = .raw :=
  ⟨⟨true, 100, 16, true, true⟩, 1, by norm_num, by decide, by decide⟩

omit [Field K] [IsStrictOrderedRing K] in
/-- (definitional) an integrator without error control accepts every trial step, converged or not (the TODO in `takeOneStep`) -/
theorem no_error_control_accepts_anything (minForced converged : Bool) (e acc : K) :
    stepAccepted false minForced converged e acc = true := by
  simp [stepAccepted]

/-- (definitional: reads off the table of `handOut`; used by `callProv_inv`) a projected advanced state is handed out as
projected on every path, except interpolated states with projection of interpolated states off (prescribed only); a
failed projection hands out nothing. -/
theorem handOut_cases (projectInterpolated projOK : Bool) (adv p : Prov) (h : Handed)
    (hadv : adv = .projected) (e : handOut projectInterpolated adv projOK h = some p) :
    p = .projected ∨ (p = .prescribed ∧ projectInterpolated = false ∧ h = .interpolated) := by
  subst hadv
  cases h <;> cases projectInterpolated <;> cases projOK <;> simp [handOut] at e <;> simp [← e]

/-! ## the executed decision structure: `stepLoop`, `callProv`, `sessionProv` (what the driver replays against the code) -/

omit [Field K] [LinearOrder K] [IsStrictOrderedRing K] in
/-- **stepLoop_projected**: for an error-controlled integrator without a forcing minimum step size, whatever the sequence
of trial steps (ODE failures, gated steps, projection failures in any order), the step that is finally accepted left the
advanced state projected — provided only that a step within accuracy is never gated (`gate_ge_acc`). -/
theorem stepLoop_projected : ∀ (atts : List Att) (cf ef : Nat) (p : Prov) (cf' ef' : Nat),
    (∀ a ∈ atts, a.errWithinAcc = true → a.gateExceeded = false) →
    stepLoop true false atts cf ef = some (p, cf', ef') → p = .projected := by
  intro atts
  induction atts with
  | nil => intro cf ef p cf' ef' _ h; simp [stepLoop] at h
  | cons a rest ih =>
    intro cf ef p cf' ef' hg h
    unfold stepLoop at h
    simp only [] at h
    split at h
    · rename_i hacc
      injection h with h1
      injection h1 with h2 _
      rw [← h2]
      have hga := hg a List.mem_cons_self
      unfold stepAcceptedB attemptDAECore at hacc
      unfold attemptDAECore
      cases h1 : a.odeConverged <;> cases h2 : a.gateExceeded <;> cases h3 : a.projQok <;> cases h4 : a.projUok <;>
        cases h5 : a.errWithinAcc <;> simp_all
    · exact ih _ _ _ _ _ (fun b hb => hg b (List.mem_cons_of_mem _ hb)) h

omit [Field K] [LinearOrder K] [IsStrictOrderedRing K] in
/-- the counters only grow, and a forced / non-error-controlled loop accepts the very first trial step -/
theorem stepLoop_first_accepted (hasErrCtl : Bool) (a : Att) (rest : List Att) (cf ef : Nat)
    (h : hasErrCtl = false ∨ True) :
    stepLoop hasErrCtl true (a :: rest) cf ef =
      some ((attemptDAECore a.odeConverged a.gateExceeded a.projQok a.projUok).2.1,
            (if (attemptDAECore a.odeConverged a.gateExceeded a.projQok a.projUok).1 then cf else cf + 1), ef) := by
  unfold stepLoop stepAcceptedB
  cases hasErrCtl <;> simp

omit [Field K] [LinearOrder K] [IsStrictOrderedRing K] in
/-- one `stepTo` call keeps a projected advanced state projected and hands out a projected state, or a prescribed-only
interpolated one when the user turned projection of interpolated states off -/
theorem callProv_inv (projInterp : Bool) (c : CallObs) (a2 r : Prov)
    (hg : ∀ atts, c.step = some atts → ∀ a ∈ atts, a.errWithinAcc = true → a.gateExceeded = false)
    (h : callProv true false projInterp .projected c = some (a2, r)) :
    a2 = .projected ∧ (r = .projected ∨ (r = .prescribed ∧ projInterp = false ∧ c.interp = true)) := by
  unfold callProv at h
  split at h
  · cases h
  · -- advanced state after the (optional) internal step
    have hadv1 : ∀ a1, (match c.step with
        | none => some Prov.projected
        | some atts => Option.map (fun x => x.1) (stepLoop true false atts 0 0)) = some a1 → a1 = .projected := by
      intro a1 e
      cases hs : c.step with
      | none => rw [hs] at e; simpa using e.symm
      | some atts =>
        rw [hs] at e
        simp only [Option.map_eq_some_iff] at e
        obtain ⟨⟨p, cf, ef⟩, e1, e2⟩ := e
        rw [← e2]
        exact stepLoop_projected atts 0 0 p cf ef (hg atts hs) e1
    simp only [] at h
    split at h
    · cases h
    · rename_i a1 e1
      have := hadv1 a1 e1; subst this
      split at h
      · cases h
      · rename_i a2' e2
        have ha2 : a2' = .projected := by
          split at e2
          · rcases handOut_cases projInterp c.projOK .projected a2' .backedUp rfl e2 with q | ⟨_, _, q⟩
            · exact q
            · cases q
          · simpa using e2.symm
        subst ha2
        split at h
        · cases h
        · rename_i r' e3
          injection h with h1; injection h1 with h2 h3; subst h2; subst h3
          refine ⟨rfl, ?_⟩
          split at e3
          · rename_i hi
            rcases handOut_cases projInterp c.projOK .projected r' .interpolated rfl e3 with q | ⟨q1, q2, _⟩
            · exact Or.inl q
            · exact Or.inr ⟨q1, q2, hi⟩
          · rcases handOut_cases projInterp c.projOK .projected r' .stepState rfl e3 with q | ⟨_, _, q⟩
            · exact Or.inl q
            · cases q

omit [Field K] [LinearOrder K] [IsStrictOrderedRing K] in
/-- **session_returned_projected**: over a whole session of an error-controlled integrator without a forcing minimum
step size, started from the projected state `initialize` produces, EVERY state handed out by `stepTo` — for every
sequence of trial-step outcomes, events, back-ups and interpolations — is the output of successful projections, or a
prescribed-only interpolated state when projection of interpolated states is off. -/
theorem session_returned_projected (projInterp : Bool) : ∀ (calls : List CallObs),
    (∀ c ∈ calls, ∀ atts, c.step = some atts → ∀ a ∈ atts, a.errWithinAcc = true → a.gateExceeded = false) →
    ∀ p ∈ sessionProv true false projInterp .projected calls, p = .projected ∨ (p = .prescribed ∧ projInterp = false) := by
  intro calls
  induction calls with
  | nil => intro _ p hp; simp [sessionProv] at hp
  | cons c cs ih =>
    intro hg p hp
    unfold sessionProv at hp
    split at hp
    · simp at hp
    · rename_i a2 r e
      obtain ⟨h1, h2⟩ := callProv_inv projInterp c a2 r (hg c List.mem_cons_self) e
      subst h1
      simp only [List.mem_cons] at hp
      rcases hp with rfl | hp
      · rcases h2 with q | ⟨q1, q2, _⟩
        · exact Or.inl q
        · exact Or.inr ⟨q1, q2⟩
      · exact ih (fun c' hc' => hg c' (List.mem_cons_of_mem _ hc')) p hp

/-- with a forcing minimum step size the same session function returns a RAW state (the finding) -/
theorem forced_session_may_return_raw :
    sessionProv true true true .projected
      [{ step := some [{ odeConverged := true, gateExceeded := true, projQok := true, projUok := true, errWithinAcc := false }],
         backedUp := false, interp := false, projOK := true }] = [.raw] := by
  decide

/-- the projection limit `max(2·tol, √tol)` never refuses a state that is already within tolerance -/
theorem projection_limit_ge_tol (tol sqrtTol : K) (h : 0 ≤ tol) : tol ≤ max (2 * tol) sqrtTol :=
  le_trans (by linarith) (le_max_left _ _)

/-! ## the acceptance contract -/

theorem foldl_sq_ge (v : List K) : ∀ (s : K), s ≤ v.foldl (fun s x => s + x * x) s ∧
    ∀ x ∈ v, s + x * x ≤ v.foldl (fun s x => s + x * x) s := by
  induction v with
  | nil => intro s; exact ⟨le_refl _, fun x hx => by simp at hx⟩
  | cons y ys ih =>
    intro s
    simp only [List.foldl_cons]
    obtain ⟨h1, h2⟩ := ih (s + y * y)
    have hy : 0 ≤ y * y := mul_self_nonneg y
    refine ⟨by linarith, ?_⟩
    intro x hx
    simp only [List.mem_cons] at hx
    rcases hx with rfl | hx
    · exact h1
    · have := h2 x hx
      linarith

/-- RMS acceptance bounds every single (weighted) constraint error: `xᵢ² ≤ n·tol²` -/
theorem accept_rms_each (tol nK : K) (v : List K) (h : acceptRMS tol nK v = true) :
    ∀ x ∈ v, x * x ≤ nK * (tol * tol) := by
  intro x hx
  unfold acceptRMS at h
  simp only [Bool.or_eq_true, decide_eq_true_eq] at h
  rcases h with h | h
  · cases v with
    | nil => simp at hx
    | cons a as => simp at h
  · have := (foldl_sq_ge v 0).2 x hx
    unfold sumSq at h
    linarith

omit [IsStrictOrderedRing K] in
/-- infinity-norm acceptance bounds every single error: `|xᵢ| ≤ tol` -/
theorem accept_inf_each [IsStrictOrderedRing K] (tol : K) (v : List K) (h : acceptInf tol v = true) :
    ∀ x ∈ v, |x| ≤ tol := by
  intro x hx
  unfold acceptInf at h
  rw [List.all_eq_true] at h
  have := h x hx
  simp only [Bool.and_eq_true, decide_eq_true_eq] at this
  exact abs_le.mpr ⟨by linarith [this.2], this.1⟩

/-- **accept_state_sound**: acceptance of a returned state (what the driver checks in exact arithmetic) means that every
weighted holonomic position error, every quaternion normalisation error and every weighted velocity error is bounded by
`√n·tol` (RMS norm) resp. `tol` (infinity norm) -/
theorem accept_state_sound (useInf : Bool) (tol : K) (p : List K) (nP : K) (q : List K) (nQ : K) (u : List K) (nV : K)
    (h : acceptState useInf tol p nP q nQ u nV = true) :
    (useInf = true → (∀ x ∈ p, |x| ≤ tol) ∧ (∀ x ∈ q, |x| ≤ tol) ∧ (∀ x ∈ u, |x| ≤ tol)) ∧
    (useInf = false → (∀ x ∈ p, x * x ≤ nP * (tol * tol)) ∧ (∀ x ∈ q, x * x ≤ nQ * (tol * tol)) ∧
                      (∀ x ∈ u, x * x ≤ nV * (tol * tol))) := by
  unfold acceptState acceptNorm at h
  simp only [Bool.and_eq_true] at h
  obtain ⟨⟨h1, h2⟩, h3⟩ := h
  constructor
  · intro hi; subst hi
    simp only [if_true] at h1 h2 h3
    exact ⟨accept_inf_each tol p h1, accept_inf_each tol q h2, accept_inf_each tol u h3⟩
  · intro hi; subst hi
    simp only [Bool.false_eq_true, if_false] at h1 h2 h3
    exact ⟨accept_rms_each tol nP p h1, accept_rms_each tol nQ q h2, accept_rms_each tol nV u h3⟩

end Field

/-- non-vacuity: a concrete state accepted / rejected by the contract over ℚ -/
example : acceptState (K := Rat) false (1/1000) [1/2000, -1/1500] 2 [1/100000] 1 [] 0 = true := by decide +kernel
example : acceptState (K := Rat) false (1/1000) [1/200, -1/1500] 2 [1/100000] 1 [] 0 = false := by decide +kernel
/-- the hypotheses of `accepted_step_projected` are satisfiable -/
example : stepAccepted (K := Rat) true false (attemptDAEStep ⟨true, 1/2, 16, true, true⟩).1 (1/2) 1 = true ∧ (1 : Rat) ≤ 16 := by
  constructor
  · decide +kernel
  · norm_num

end C21
