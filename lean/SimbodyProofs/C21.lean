import SimbodyModel.C21
import Mathlib.Tactic.Ring
import Mathlib.Tactic.Linarith
import Mathlib.Tactic.NormNum
import Mathlib.Tactic.Positivity
import Mathlib.Algebra.Order.Field.Basic
import Mathlib.Algebra.Order.Ring.Unbundled.Rat
import Mathlib.Algebra.Order.Ring.Abs
/-!
# C21 — property theorems: integrators keep constrained states on the manifold

Model: `SimbodyModel/C21.lean` (decision structure of `attemptDAEStep`, step acceptance, the three hand-out paths;
`project` is an oracle) and the exact acceptance contract the driver evaluates on every returned state.
-/
namespace C21
section Field
variable {K : Type} [Field K] [LinearOrder K] [IsStrictOrderedRing K]

omit [Field K] [IsStrictOrderedRing K] in
/-- `attemptDAEStep` reports convergence only for a state that went through both projections successfully, unless the
error estimate was beyond the gate `2^p·accuracy` ("converged, but isn't worth projecting") -/
theorem dae_converged_projected_or_gated (i : DAEIn K) (h : (attemptDAEStep i).1 = true) :
    (attemptDAEStep i).2 = .projected ∨ i.gate < i.errNorm := by
  unfold attemptDAEStep at h ⊢
  split
  · rename_i h1; simp [h1] at h
  · split
    · rename_i h2; exact Or.inr h2
    · split
      · rename_i h1 h2 h3; simp [h1, h2, h3] at h
      · split
        · rename_i h1 h2 h3 h4; simp [h1, h2, h3, h4] at h
        · exact Or.inl rfl

omit [IsStrictOrderedRing K] in
/-- the gate never excludes a step that meets the accuracy requirement: `accuracy ≤ 2^p · accuracy` -/
theorem gate_ge_acc [IsStrictOrderedRing K] (p : Nat) (acc : K) (h : 0 ≤ acc) : acc ≤ (2 : K) ^ p * acc := by
  have : (1 : K) ≤ 2 ^ p := one_le_pow₀ (by norm_num)
  nlinarith

/-- **accepted_step_projected**: for an error-controlled integrator whose step was accepted because it met the accuracy
requirement (not because a user minimum step size forced acceptance), the advanced state is the output of successful
`projectQ` and `projectU` — for every ODE result, error norm and projection outcome. -/
theorem accepted_step_projected (i : DAEIn K) (acc : K) (hgate : acc ≤ i.gate)
    (h : stepAccepted true false (attemptDAEStep i).1 i.errNorm acc = true) :
    (attemptDAEStep i).2 = .projected := by
  unfold stepAccepted at h
  simp only [if_true, Bool.or_false, Bool.and_eq_true, decide_eq_true_eq] at h
  rcases dae_converged_projected_or_gated i h.1 with hp | hg
  · exact hp
  · exact absurd (lt_of_lt_of_le hg (le_trans h.2 hgate)) (lt_irrefl _)

/-- … whereas a user minimum step size (`setMinimumStepSize` / `setFixedStepSize`) can force acceptance of a step whose
error estimate was beyond the gate, i.e. of an UNPROJECTED state — the decision structure has this hole, and the
implementation exhibits it (harness keys `AbstractIntegratorRep.minStepForced.*`, notes/C21.md). -/
theorem min_step_forced_may_be_unprojected :
    ∃ (i : DAEIn Rat) (acc : Rat), acc ≤ i.gate ∧
      stepAccepted true true (attemptDAEStep i).1 i.errNorm acc = true ∧ (attemptDAEStep i).2 = .raw :=
  ⟨⟨true, 100, 16, true, true⟩, 1, by norm_num, by decide, by decide⟩

omit [Field K] [IsStrictOrderedRing K] in
/-- the same hole for an integrator without error control whose ODE step did not converge (the TODO in `takeOneStep`) -/
theorem no_error_control_accepts_anything (minForced converged : Bool) (e acc : K) :
    stepAccepted false minForced converged e acc = true := by
  simp [stepAccepted]

/-- **returned_states_projected**: if the advanced state is a projected one, every state `stepTo` hands out — the step
state, an interpolated report / event before-state, the backed-up advanced state — is the output of a successful
projection, except interpolated states when the user turned projection of interpolated states off (those are
prescribed-only, as documented); a failed projection hands out nothing (it throws). -/
theorem returned_states_projected (projectInterpolated projOK : Bool) (adv p : Prov) (h : Handed)
    (hadv : adv = .projected) (e : handOut projectInterpolated adv projOK h = some p) :
    p = .projected ∨ (p = .prescribed ∧ projectInterpolated = false ∧ h = .interpolated) := by
  subst hadv
  cases h <;> cases projectInterpolated <;> cases projOK <;> simp [handOut] at e <;> simp [← e]

/-- the projection limit `max(2·tol, √tol)` never refuses a state that is already within tolerance -/
theorem projection_limit_ge_tol (tol sqrtTol : K) (h : 0 ≤ tol) : tol ≤ max (2 * tol) sqrtTol :=
  le_trans (by linarith) (le_max_left _ _)

/-! ## the acceptance contract -/

theorem foldl_sq_ge (v : List K) : ∀ (s : K), s ≤ v.foldl (fun s x => s + x * x) s ∧
    ∀ x ∈ v, s + x * x ≤ v.foldl (fun s x => s + x * x) s := by
  induction v with
  | nil => intro s; exact ⟨le_refl _, fun x hx => by simp at hx⟩
  | cons y ys ih =>
    intro s
    simp only [List.foldl_cons]
    obtain ⟨h1, h2⟩ := ih (s + y * y)
    have hy : 0 ≤ y * y := mul_self_nonneg y
    refine ⟨by linarith, ?_⟩
    intro x hx
    simp only [List.mem_cons] at hx
    rcases hx with rfl | hx
    · exact h1
    · have := h2 x hx
      linarith

/-- RMS acceptance bounds every single (weighted) constraint error: `xᵢ² ≤ n·tol²` -/
theorem accept_rms_each (tol nK : K) (v : List K) (h : acceptRMS tol nK v = true) :
    ∀ x ∈ v, x * x ≤ nK * (tol * tol) := by
  intro x hx
  unfold acceptRMS at h
  simp only [Bool.or_eq_true, decide_eq_true_eq] at h
  rcases h with h | h
  · cases v with
    | nil => simp at hx
    | cons a as => simp at h
  · have := (foldl_sq_ge v 0).2 x hx
    unfold sumSq at h
    linarith

omit [IsStrictOrderedRing K] in
/-- infinity-norm acceptance bounds every single error: `|xᵢ| ≤ tol` -/
theorem accept_inf_each [IsStrictOrderedRing K] (tol : K) (v : List K) (h : acceptInf tol v = true) :
    ∀ x ∈ v, |x| ≤ tol := by
  intro x hx
  unfold acceptInf at h
  rw [List.all_eq_true] at h
  have := h x hx
  simp only [Bool.and_eq_true, decide_eq_true_eq] at this
  exact abs_le.mpr ⟨by linarith [this.2], this.1⟩

/-- **accept_state_sound**: acceptance of a returned state (what the driver checks in exact arithmetic) means that every
weighted holonomic position error, every quaternion normalisation error and every weighted velocity error is bounded by
`√n·tol` (RMS norm) resp. `tol` (infinity norm) -/
theorem accept_state_sound (useInf : Bool) (tol : K) (p : List K) (nP : K) (q : List K) (nQ : K) (u : List K) (nV : K)
    (h : acceptState useInf tol p nP q nQ u nV = true) :
    (useInf = true → (∀ x ∈ p, |x| ≤ tol) ∧ (∀ x ∈ q, |x| ≤ tol) ∧ (∀ x ∈ u, |x| ≤ tol)) ∧
    (useInf = false → (∀ x ∈ p, x * x ≤ nP * (tol * tol)) ∧ (∀ x ∈ q, x * x ≤ nQ * (tol * tol)) ∧
                      (∀ x ∈ u, x * x ≤ nV * (tol * tol))) := by
  unfold acceptState acceptNorm at h
  simp only [Bool.and_eq_true] at h
  obtain ⟨⟨h1, h2⟩, h3⟩ := h
  constructor
  · intro hi; subst hi
    simp only [if_true] at h1 h2 h3
    exact ⟨accept_inf_each tol p h1, accept_inf_each tol q h2, accept_inf_each tol u h3⟩
  · intro hi; subst hi
    simp only [Bool.false_eq_true, if_false] at h1 h2 h3
    exact ⟨accept_rms_each tol nP p h1, accept_rms_each tol nQ q h2, accept_rms_each tol nV u h3⟩

end Field

/-- non-vacuity: a concrete state accepted / rejected by the contract over ℚ -/
example : acceptState (K := Rat) false (1/1000) [1/2000, -1/1500] 2 [1/100000] 1 [] 0 = true := by decide +kernel
example : acceptState (K := Rat) false (1/1000) [1/200, -1/1500] 2 [1/100000] 1 [] 0 = false := by decide +kernel
/-- the hypotheses of `accepted_step_projected` are satisfiable -/
example : stepAccepted (K := Rat) true false (attemptDAEStep ⟨true, 1/2, 16, true, true⟩).1 (1/2) 1 = true ∧ (1 : Rat) ≤ 16 := by
  constructor
  · decide +kernel
  · norm_num

end C21
