import SimbodyModel.C24
import Mathlib.LinearAlgebra.Matrix.NonsingularInverse
import Mathlib.LinearAlgebra.Matrix.DotProduct
import Mathlib.Tactic.Linarith
import Mathlib.Tactic.Ring
import Mathlib.Tactic.NormNum

/-!
# C24 — property theorems: what "solves what it claims" means, and soundness of the acceptance contracts

* `lu_solve_unique`, `residual_zero_characterises`: for an invertible matrix a zero residual characterises *the* solution;
* `minNorm_unique_and_minimal`: normal equations + `x ∈ range Aᵀ` characterise the unique minimum-norm least-squares
  solution (any ordered field, any finite index types);
* the contracts themselves (`luAccept`, `lsAccept`, `minNormAccept`, `svdAccept`, `eigAccept`, `invAccept`, `pinvAccept`) are
  executable Bool predicates whose *definition is the statement*; their unfoldings (`*_sound`) live in
  `SimbodyProofs/C24_lemmas.lean` and are not counted as property theorems.  NOT proved: that the exact reference
  (`rref`/`nullBasis`/`exactRank`) is correct (it is certified at run time by `refAccept` + `minNormAccept`: every null vector is
  checked to lie exactly in the kernel, the vectors have a unit pattern, count + rank = n, rank A = rank Aᵀ, and QTZ's reported
  rank must agree), nor any link from contract acceptance to the hypotheses of `minNorm_unique_and_minimal`;
* `svdRank_*`: the rank-by-threshold rule as coded.
-/
set_option linter.unusedSectionVars false
open Matrix
namespace C24

section Mat
variable {m n : Type} [Fintype m] [Fintype n] [DecidableEq m] [DecidableEq n]
variable {K : Type} [Field K] [LinearOrder K] [IsStrictOrderedRing K]

/-- `v·v ≥ 0` -/
theorem dot_self_nonneg (v : n → K) : 0 ≤ v ⬝ᵥ v := by
  unfold dotProduct; exact Finset.sum_nonneg (fun i _ => mul_self_nonneg (v i))

/-- orthogonality of the residual to the range of `A` -/
theorem resid_orth (A : Matrix m n K) (r : m → K) (d : n → K) (h : Aᵀ *ᵥ r = 0) : r ⬝ᵥ (A *ᵥ d) = 0 := by
  rw [dotProduct_mulVec, ← mulVec_transpose, h]; simp

/-- **minNorm_unique_and_minimal**: if `x` satisfies the normal equations `Aᵀ(Ax − b) = 0` and lies in the range of `Aᵀ`
(equivalently is orthogonal to the null space of `A`), then (1) `x` minimises `‖Az − b‖²` over all `z`, and (2) among all
solutions `y` of the normal equations `x` has the smallest norm, and is the only one with that norm -/
theorem minNorm_unique_and_minimal (A : Matrix m n K) (b : m → K) (x : n → K) (w : m → K)
    (hne : Aᵀ *ᵥ (A *ᵥ x - b) = 0) (hx : x = Aᵀ *ᵥ w) :
    (∀ z, (A *ᵥ x - b) ⬝ᵥ (A *ᵥ x - b) ≤ (A *ᵥ z - b) ⬝ᵥ (A *ᵥ z - b)) ∧
    (∀ y, Aᵀ *ᵥ (A *ᵥ y - b) = 0 → x ⬝ᵥ x ≤ y ⬝ᵥ y ∧ (y ⬝ᵥ y = x ⬝ᵥ x → y = x)) := by
  constructor
  · intro z
    have e : A *ᵥ z - b = (A *ᵥ x - b) + A *ᵥ (z - x) := by rw [mulVec_sub]; abel
    have o := resid_orth A (A *ᵥ x - b) (z - x) hne
    rw [e, add_dotProduct, dotProduct_add, dotProduct_add, o, dotProduct_comm (A *ᵥ (z - x)) (A *ᵥ x - b), o]
    have := dot_self_nonneg (A *ᵥ (z - x))
    linarith
  · intro y hy
    -- A (y - x) = 0
    have hd : Aᵀ *ᵥ (A *ᵥ (y - x)) = 0 := by
      have : A *ᵥ (y - x) = (A *ᵥ y - b) - (A *ᵥ x - b) := by rw [mulVec_sub]; abel
      rw [this, mulVec_sub, hy, hne, sub_zero]
    have hAd : A *ᵥ (y - x) = 0 := by
      apply dotProduct_self_eq_zero.mp
      exact resid_orth A (A *ᵥ (y - x)) (y - x) hd
    -- x ⟂ (y - x)
    have hxo : x ⬝ᵥ (y - x) = 0 := by
      have h1 : (Aᵀ *ᵥ w) ⬝ᵥ (y - x) = 0 := by
        rw [dotProduct_comm, dotProduct_mulVec, ← mulVec_transpose, transpose_transpose, hAd]; simp
      rw [← hx] at h1; exact h1
    have ey : y = x + (y - x) := by abel
    have expand : y ⬝ᵥ y = x ⬝ᵥ x + (y - x) ⬝ᵥ (y - x) := by
      conv_lhs => rw [ey]
      rw [add_dotProduct, dotProduct_add, dotProduct_add, hxo, dotProduct_comm (y - x) x, hxo]; ring
    have nn := dot_self_nonneg (y - x)
    refine ⟨by linarith, fun heq => ?_⟩
    have : (y - x) ⬝ᵥ (y - x) = 0 := by linarith
    have := dotProduct_self_eq_zero.mp this
    exact sub_eq_zero.mp this

omit [LinearOrder K] [IsStrictOrderedRing K] [Fintype n] [DecidableEq n] in
/-- **lu_solve_unique**: for an invertible matrix the solution of `A x = b` is unique -/
theorem lu_solve_unique (A : Matrix m m K) (b x y : m → K) (hA : A.det ≠ 0) (hx : A *ᵥ x = b) (hy : A *ᵥ y = b) : x = y := by
  have hu : IsUnit A := (Matrix.isUnit_iff_isUnit_det A).mpr (isUnit_iff_ne_zero.mpr hA)
  exact (mulVec_injective_iff_isUnit.mpr hu) (hx.trans hy.symm)

omit [LinearOrder K] [IsStrictOrderedRing K] [Fintype n] [DecidableEq n] in
/-- residual zero characterises the solution: `A x = b ↔ x = A⁻¹ b` -/
theorem residual_zero_characterises (A : Matrix m m K) (b x : m → K) (hA : A.det ≠ 0) :
    A *ᵥ x = b ↔ x = A⁻¹ *ᵥ b := by
  have hu : IsUnit A.det := isUnit_iff_ne_zero.mpr hA
  constructor
  · intro h; rw [← h, mulVec_mulVec, nonsing_inv_mul A hu, one_mulVec]
  · intro h; rw [h, mulVec_mulVec, mul_nonsing_inv A hu, one_mulVec]
end Mat

/-! ## meaning of the `descendingNonneg` check used by the SVD contract -/

/-- what `descendingNonneg` means -/
theorem descendingNonneg_spec (l : List Rat) (h : descendingNonneg l = true) :
    l.Pairwise (fun a b => b ≤ a) ∧ ∀ a ∈ l, 0 ≤ a := by
  induction l with
  | nil => simp
  | cons a l ih =>
    cases l with
    | nil => simp only [descendingNonneg, decide_eq_true_eq] at h; simp [h]
    | cons b rest =>
      simp only [descendingNonneg, Bool.and_eq_true, decide_eq_true_eq] at h
      obtain ⟨p, q⟩ := ih h.2
      have hb : 0 ≤ b := q b List.mem_cons_self
      refine ⟨List.pairwise_cons.mpr ⟨?_, p⟩, ?_⟩
      · intro c hc
        rcases List.mem_cons.mp hc with rfl | hc'
        · exact h.1
        · exact le_trans ((List.pairwise_cons.mp p).1 c hc') h.1
      · intro c hc
        rcases List.mem_cons.mp hc with rfl | hc'
        · exact le_trans hb h.1
        · exact q c hc'

/-! ## the rank-by-threshold rule of `FactorSVDRep::computeSVD` -/
section Rank
variable {K : Type} [Field K] [LinearOrder K] [IsStrictOrderedRing K]

/-- the rank never exceeds the number of singular values -/
theorem svdRank_le_length (values : List K) (rcond : K) : svdRank values rcond ≤ values.length := by
  unfold svdRank; exact List.length_filter_le _ _

/-- for values in descending order the counted ones form a prefix: the rank `r` says the first `r` values exceed
`rcond·σ₁` and none of the others does -/
theorem filter_eq_takeWhile_of_descending (t : K) (l : List K) (h : l.Pairwise (fun a b => b ≤ a)) :
    l.filter (fun v => decide (t < v)) = l.takeWhile (fun v => decide (t < v)) := by
  induction l with
  | nil => rfl
  | cons a l ih =>
    have hp := List.pairwise_cons.mp h
    by_cases ha : t < a
    · simp only [List.filter_cons, List.takeWhile_cons, ha, decide_true, if_true]; rw [ih hp.2]
    · simp only [List.filter_cons, List.takeWhile_cons, ha, decide_false, Bool.false_eq_true, if_false]
      apply List.filter_eq_nil_iff.mpr
      intro b hb
      have : b ≤ a := hp.1 b hb
      simp only [decide_eq_true_eq, not_lt]
      exact le_trans this (not_lt.mp ha)

theorem svdRank_prefix (values : List K) (rcond : K) (h : values.Pairwise (fun a b => b ≤ a)) :
    svdRank values rcond = (values.takeWhile (fun v => decide (rcond * values.getD 0 0 < v))).length := by
  unfold svdRank; rw [filter_eq_takeWhile_of_descending _ _ h]

/-- a larger threshold can only lower the rank (σ₁ ≥ 0) -/
theorem svdRank_antitone (values : List K) (r1 r2 : K) (h12 : r1 ≤ r2) (h0 : 0 ≤ values.getD 0 0) :
    svdRank values r2 ≤ svdRank values r1 := by
  unfold svdRank
  apply List.Sublist.length_le
  apply List.monotone_filter_right
  intro v hv
  simp only [decide_eq_true_eq] at hv ⊢
  exact lt_of_le_of_lt (mul_le_mul_of_nonneg_right h12 h0) hv
end Rank

/-! ## non-vacuity -/
example : luAccept (1 / 1000) [[2, 1], [1, 3]] [3, 4] [1, 1] = true := by
  norm_num [luAccept, dot, absDot, absR]
example : svdRank ([3, 2, 0] : List Rat) (1 / 10) = 2 := by
  norm_num [svdRank, List.filter]
example : minNormAccept (1 / 1000) [[1, 1]] [1, -1] [[-1, 1]] = false := by
  norm_num [minNormAccept, mulVec, dot]
example : minNormAccept (1 / 1000) [[1, 1]] [1, 1] [[-1, 1]] = true := by
  norm_num [minNormAccept, mulVec, dot]

end C24
