import SimbodyModel.Proto
import SimbodyModel.C42
/-! Driver for C42: answers every `I graph T … B … J …` record with the canonical `O` lines of the model
(`C42.generate`), in exactly the format of `harness/C42.cpp`. -/
open Proto C42

def typeName (t : Nat) : String := if t = 0 then "weld" else if t = 1 then "free" else s!"t{t - 2}"

def optI (o : Option Nat) : String := match o with | some n => toString n | none => "-1"

def takeGroups (k : Nat) : Nat → List Nat → Option (List (List Nat) × List Nat)
  | 0, rest => some ([], rest)
  | n + 1, rest =>
    if rest.length < k then none else
    match takeGroups k n (rest.drop k) with
    | some (gs, r) => some (rest.take k :: gs, r)
    | none => none

/-- parse `T n (nmob good)* B n (mass base)* J n (type parent child loop)*` -/
def parseGraph (toks : List String) : Option Input :=
  match toks with
  | "T" :: nT :: r1 =>
    match takeGroups 2 nT.toNat! (r1.takeWhile (· ≠ "B") |>.map String.toNat!) with
    | some (ts, []) =>
      match r1.dropWhile (· ≠ "B") with
      | "B" :: nB :: r2 =>
        match takeGroups 2 nB.toNat! (r2.takeWhile (· ≠ "J") |>.map String.toNat!) with
        | some (bs, []) =>
          match r2.dropWhile (· ≠ "J") with
          | "J" :: nJ :: r3 =>
            match takeGroups 4 nJ.toNat! (r3.map String.toNat!) with
            | some (js, []) =>
              some { userTypes := ts.map (fun t => ⟨t.getD 0 0, t.getD 1 0 != 0⟩),
                     bodies := ⟨0, false⟩ :: bs.map (fun b => ⟨b.getD 0 0, b.getD 1 0 != 0⟩),
                     joints := js.map (fun j => ⟨j.getD 0 0, j.getD 1 0, j.getD 2 0, j.getD 3 0 != 0, false⟩) }
            | _ => none
          | _ => none
        | _ => none
      | _ => none
    | _ => none
  | _ => none

def errName : Err → String
  | .masslessFree => "massless_free"
  | .masslessNotInternal => "massless_notinternal"
  | .terminalMassless => "terminal_massless"
  | .fuel => "MODEL_FUEL_EXHAUSTED"

def b2s (b : Bool) : String := if b then "1" else "0"

def render (s : St) : List String :=
  let hdr := s!"O graph OK {s.nb} {s.joints.length} {s.mobs.length} {s.cons.length}"
  let jref (j : Nat) : String := if (jointAt s j).addedBase then "-1" else toString j
  let mobLines := (List.range s.mobs.length).map (fun k =>
    let m := s.mobs.getD k ⟨0, 0, 0, 0, false⟩
    let masterNum := match s.master m.outb with | some ms => ms | none => m.outb
    s!"O mob {k} {jref m.joint} {m.inb} {masterNum} {m.level} {b2s m.rev} {b2s (s.master m.outb).isSome} " ++
    s!"{b2s (jointAt s m.joint).addedBase} {1 + (s.slaves masterNum).length} {typeName (jointAt s m.joint).type}")
  let loopLines := (List.range s.cons.length).map (fun k =>
    let c := s.cons.getD k ⟨0, 0, 0, 0⟩
    s!"O loop {k} {typeName c.type} {jref c.joint} {c.parent} {c.child}")
  let bodyLines := (List.range s.nb).map (fun b =>
    let sl := s.slaves b
    s!"O body {b} {optI (s.level b)} {optI (s.bmob b)} {optI (s.master b)} {sl.length}" ++
      sl.foldl (fun acc x => acc ++ " " ++ toString x) "")
  let jointLines := (List.range s.joints.length).map (fun j =>
    let jt := jointAt s j
    s!"O joint {j} {jt.type} {jt.parent} {jt.child} {b2s jt.mustLoop} {optI (s.jmob j)} {optI (s.jloop j)} {b2s jt.addedBase}")
  hdr :: (mobLines ++ loopLines ++ bodyLines ++ jointLines)

def main : IO Unit := do
  let lines ← readStdinLines
  let out ← IO.getStdout
  for ln in lines do
    match tokens ln with
    | "I" :: "graph" :: rest =>
      out.putStrLn ln.trimAscii.toString
      match parseGraph rest with
      | some g =>
        if !g.wf then out.putStrLn "O graph ILLEGAL_INPUT" else
        match generate g with
        | .ok s => for l in render s do out.putStrLn l
        | .error e => out.putStrLn ("O graph EXC:" ++ errName e)
      | none => out.putStrLn "O graph PARSE_ERROR"
    | _ => pure ()
