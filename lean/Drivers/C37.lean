import SimbodyModel.ForceLawsDriver
/-! Driver for C37: the shared force-law driver (`SimbodyModel/ForceLawsDriver.lean`). -/
def main : IO Unit := ForceLawsDriver.main
