import SimbodyModel.Proto
import SimbodyModel.C22
import SimbodyModel.Gen.EventTables
/-! Driver for C22.
* `I loc …`  : recompute `t1`, the first pass, the whole localisation loop, the estimates and the event order of one internal
  step with the model at `Float` (literals 0.1 / 0.95 / 1.001 come from the generated `Gen/EventTables.lean`).
* `I win …`  : acceptance (kind K) of what the integrator reported about one event window: reported triggers ⊆ the model's
  candidates on the final window, same transitions, order = model's `sortEvents`, estimates strictly inside / at the top.
* `I sess …` : bookkeeping record of an end-to-end session (answered `O sess 1`).
* `I ts …`   : every TimeStepper return: `tsDispatch status` agrees with what was invoked. -/
open Proto C22

def inf : Float := Float.ofBits 0x7ff0000000000000

structure W where
  kind : Nat
  a : Float
  b : Float
  mask : Nat
  window : Float

def wval (w : W) (t : Float) : Float :=
  match w.kind with
  | 0 => t - w.a
  | 1 => Float.sin (w.a * t + w.b)
  | _ => (t - w.a) * (t - w.b)

partial def parseW : Nat → List String → List W × List String
  | 0, rest => ([], rest)
  | n + 1, k :: a :: b :: m :: win :: rest =>
    let (ws, r) := parseW n rest
    ({ kind := k.toNat!, a := hexToFloat a, b := hexToFloat b, mask := m.toNat!, window := hexToFloat win } :: ws, r)
  | _, rest => ([], rest)

def fmax (a b : Float) : Float := if a < b then b else a

def locRecord (toks : List String) : String :=
  match toks with
  | accTs :: signif :: t0 :: h :: tMax :: tReport :: n :: rest =>
    let accTs := hexToFloat accTs
    let signif := hexToFloat signif
    let t0 := hexToFloat t0
    let h := hexToFloat h
    let tMax := hexToFloat tMax
    let tReport := hexToFloat tReport
    let n := n.toNat!
    let (ws, _) := parseW n rest
    let wsA := ws.toArray
    let infos : Nat → TrigInfo Float := fun i =>
      match wsA[i]? with
      | some w => { mask := w.mask, window := w.window, id := i }
      | none => { mask := 0, window := 0, id := i }
    let eval : Float → Nat → Float := fun t i =>
      match wsA[i]? with
      | some w => wval w t
      | none => 0
    let t1 := chooseT1 Gen.c095F Gen.c1001F t0 h tMax
    let minWindow := signif * fmax 1 t1
    match localize Gen.bufferFractionF inf accTs infos eval n t0 t1 tReport minWindow 200 with
    | .noEvent => "O loc 0"
    | .fuelOut => "O loc FUEL"
    | .event r =>
      -- setTriggeredEvents: sort by (estimate, id)
      let keyed := (r.c.ests.zip r.c.cands)
      let sorted := sortEvents keyed
      let transOf : Nat → Nat := fun idx =>
        match (r.c.cands.zip r.c.trans).find? (fun p => p.1 == idx) with
        | some p => p.2
        | none => 0
      let body := sorted.foldl (fun s p => s ++ " " ++ toString p.2 ++ " " ++ toString (transOf p.2) ++ " " ++ floatToHex p.1) ""
      "O loc 1 " ++ floatToHex r.tLow ++ " " ++ floatToHex r.tHigh ++ " " ++ toString sorted.length ++ body
  | _ => "O loc PARSE"

structure WinRow where
  mask : Nat
  window : Float
  eLow : Float
  eHigh : Float
  pos : Int         -- position in the reported list, -1 if not reported
  trans : Nat
  est : Float

partial def parseRows : Nat → List String → List WinRow
  | 0, _ => []
  | n + 1, m :: win :: el :: eh :: pos :: tr :: est :: rest =>
    { mask := m.toNat!, window := hexToFloat win, eLow := hexToFloat el, eHigh := hexToFloat eh,
      pos := pos.toInt!, trans := tr.toNat!, est := hexToFloat est } :: parseRows n rest
  | _, _ => []

def winRecord (toks : List String) : String :=
  match toks with
  | accTs :: signif :: tLow :: tHigh :: n :: rest =>
    let accTs := hexToFloat accTs
    let signif := hexToFloat signif
    let tLow := hexToFloat tLow
    let tHigh := hexToFloat tHigh
    let rows := (parseRows n.toNat! rest).toArray
    let isCP := rest.contains "cpodes"
    let infos : Nat → TrigInfo Float := fun i =>
      match rows[i]? with
      | some w => { mask := w.mask, window := w.window, id := i }
      | none => { mask := 0, window := 0, id := i }
    let eLow : Nat → Float := fun i => match rows[i]? with | some w => w.eLow | none => 0
    let eHigh : Nat → Float := fun i => match rows[i]? with | some w => w.eHigh | none => 0
    let minWindow := signif * fmax 1 tHigh
    -- model: which triggers show a monitored transition across the final window, and which transition
    let c := findEventCandidates Gen.bufferFractionF inf accTs infos (List.range rows.size) tLow eLow tHigh eHigh 1 minWindow
    let reported := (List.range rows.size).filter (fun i => match rows[i]? with | some w => w.pos ≥ 0 | none => false)
    let subsetOK := reported.all (fun i => c.cands.contains i)
    let transOK := reported.all (fun i =>
      match (c.cands.zip c.trans).find? (fun p => p.1 == i), rows[i]? with
      | some p, some w => p.2 == w.trans
      | _, _ => false)
    -- order: reported positions must be the model's order of (estimate, id)
    let keyed := reported.map (fun i => (match rows[i]? with | some w => w.est | none => 0, i))
    let sorted := sortEvents keyed
    let orderOK := (List.range sorted.length).all (fun k =>
      match sorted[k]?, (match sorted[k]? with | some p => rows[p.2]? | none => none) with
      | some _, some w => w.pos == Int.ofNat k
      | _, _ => false)
    -- estimates: the assert of setTriggeredEvents (tlo < est <= thi); for the modelled family also the buffer-zone bound
    let estOK := reported.all (fun i => match rows[i]? with | some w => tLow < w.est && w.est ≤ tHigh | none => false)
    let nonEmpty := !reported.isEmpty
    -- 1: everything accepted; 0: some listed trigger does not change sign in its monitored direction across the two returned
    -- states (the harness reads the same values and must say the same); anything else is a model/implementation disagreement
    if !(orderOK && estOK && nonEmpty) then
      "O win BAD order=" ++ toString orderOK ++ " est=" ++ toString estOK ++ " cp=" ++ toString isCP
    else if subsetOK && transOK then "O win 1" else "O win 0"
  | _ => "O win PARSE"

partial def tsRows : Nat → List String → Bool
  | 0, _ => true
  | n + 1, st :: nT :: nS :: nR :: rest =>
    let nT := nT.toNat!
    let nS := nS.toNat!
    let nR := nR.toNat!
    let ok :=
      match tsDispatch st.toNat! with
      | some (.handle 2) => nT ≥ 1 && nS == 0 && nR == 0      -- triggered handlers only
      | some (.handle 3) => nS ≥ 1 && nT == 0 && nR == 0      -- scheduled handlers only
      | some (.handle _) => nT == 0 && nS == 0 && nR == 0     -- TimeAdvanced / Termination: no user handler of these kinds here
      | some .report => nT == 0 && nS == 0                     -- reporters only (possibly none: plain stepTo(time) report)
      | some .continueLoop => nT == 0 && nS == 0 && nR == 0
      | some .returnToCaller => nT == 0 && nS == 0 && nR == 0
      | none => false
    ok && tsRows n rest
  | _, _ => false

def tsRecord (toks : List String) : String :=
  match toks with
  | _integ :: k :: rest => if tsRows k.toNat! rest then "O ts 1" else "O ts 0"
  | _ => "O ts PARSE"

def main : IO Unit := do
  let lines ← readStdinLines
  let out ← IO.getStdout
  for ln in lines do
    match tokens ln with
    | "I" :: "loc" :: rest => out.putStrLn ln.trimAscii.toString; out.putStrLn (locRecord rest)
    | "I" :: "win" :: rest => out.putStrLn ln.trimAscii.toString; out.putStrLn (winRecord rest)
    | "I" :: "sess" :: _ => out.putStrLn ln.trimAscii.toString; out.putStrLn "O sess 1"
    | "I" :: "ts" :: rest => out.putStrLn ln.trimAscii.toString; out.putStrLn (tsRecord rest)
    | _ => pure ()
