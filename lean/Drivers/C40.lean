import SimbodyModel.Proto
import SimbodyModel.C40
/-! Driver for C40.  All tokens are hex doubles.

* `I diffcol order acc y0i nf ypObs ymObs fy0[nf] fplus[nf] fminus[nf]`
    → `O pts yplus yminus` (the model's perturbed coordinate values; `yminus = y0i` for order 1)
      `O col d[nf]`        (difference quotients from the user-function values logged by the harness)
  The logged values are presented to the model as a function that is defined only at the observed points
  (NaN elsewhere), so a model step that differs from the implementation's yields NaN.
* `I method m dflt` → `O method order`
* `I apiroute shape route nf n fseed` → `O apiroute ok|EXC` (shape rule of the three entry points)
-/
open Proto C40

def nat (x : Float) : Nat := x.toUInt64.toNat
def nan : Float := 0.0 / 0.0

def accFac (order : Nat) (acc : Float) : Float :=
  if order = 1 then Float.sqrt acc else Float.pow acc (1.0 / 3.0)

def main : IO Unit := do
  let lines ← readStdinLines
  let out ← IO.getStdout
  for ln in lines do
    match tokens ln with
    | "I" :: "diffcol" :: args =>
      out.putStrLn ln.trimAscii.toString
      match args.map hexToFloat with
      | orderF :: acc :: y0 :: nfF :: ypObs :: ymObs :: rest =>
        let order := nat orderF
        let nf := nat nfF
        let fy0 := rest.take nf
        let fplus := (rest.drop nf).take nf
        let fminus := (rest.drop (2 * nf)).take nf
        let af := accFac order acc
        let h := stepH af y0
        out.putStrLn (fmtFloats "O pts" [y0 + h, if order = 1 then y0 else y0 - h])
        let col := (List.range nf).map (fun k =>
          let f : Float → Float := fun t =>
            if t.toBits == ypObs.toBits then fplus.getD k nan
            else if t.toBits == ymObs.toBits then fminus.getD k nan else nan
          if order = 1 then forwardDiff f af y0 (fy0.getD k nan) else centralDiff f af y0)
        out.putStrLn (fmtFloats "O col" col)
      | _ => out.putStrLn "O diffcol ERR"
    | "I" :: "method" :: args =>
      out.putStrLn ln.trimAscii.toString
      match args.map hexToFloat with
      | [m, d] => out.putStrLn (fmtFloats "O method" [Float.ofNat (methodOrder (nat m) (nat d))])
      | _ => out.putStrLn "O method ERR"
    | "I" :: "apiroute" :: args =>
      out.putStrLn ln.trimAscii.toString
      match args.map hexToFloat with
      | [_shape, route, nf, n, _seed] => out.putStrLn (if routeAllowed (nat route) (nat nf) (nat n) then "O apiroute ok" else "O apiroute EXC")
      | _ => out.putStrLn "O apiroute ERR"
    | "I" :: _ => out.putStrLn ln.trimAscii.toString; out.putStrLn "O ERR"
    | _ => pure ()
