import SimbodyModel.Proto
import SimbodyModel.C39
/-!
Driver for C39.
  `I select req nEq nIneq hasLim`  -> `O select <code | EXC>`         (model: `C39.select`, CFSQP library absent)
  `I opt <20 ints> <doubles> <log>` -> `O opt <code> <1 | 0:clauses>`   (exact-`Rat` contract `C39.accept` +
        own-logic checks: `construct`, `lbfgsConverged`, wrapper call counts, Differentiator stencil blocks)
-/
open Proto C39

structure Cur where
  toks : Array String
  pos : Nat

def Cur.int (c : Cur) : Nat × Cur := ((c.toks.getD c.pos "0").toNat!, { c with pos := c.pos + 1 })
def Cur.flt (c : Cur) : Float × Cur := (hexToFloat (c.toks.getD c.pos "0"), { c with pos := c.pos + 1 })
def Cur.ints (c : Cur) (k : Nat) : Array Nat × Cur :=
  (List.range k).foldl (fun (acc : Array Nat × Cur) _ => let (v, c') := acc.2.int; (acc.1.push v, c')) (#[], c)
def Cur.flts (c : Cur) (k : Nat) : Array Float × Cur :=
  (List.range k).foldl (fun (acc : Array Float × Cur) _ => let (v, c') := acc.2.flt; (acc.1.push v, c')) (#[], c)

-- NB: the conversions are done once, *before* the accessor closures are built (a `let` inside a curried definition
-- would be re-evaluated at every access)
def vecOf (r : Array Rat) (i : Nat) : Rat := r.getD i 0
def matOf (r : Array Rat) (ncols : Nat) (i j : Nat) : Rat := r.getD (i * ncols + j) 0
def optOf (r : Array (Option Rat)) (i : Nat) : Option Rat := r.getD i none
def toRats (a : Array Float) : Array Rat := a.map floatToRat
def toOptRats (a : Array Float) : Array (Option Rat) :=
  a.map (fun x => if x.isInf || x.isNaN then none else some (floatToRat x))

def rq (num : Int) (den : Nat) : Rat := mkRat num den
def absR (x : Rat) : Rat := if x < 0 then -x else x
def maxR (a b : Rat) : Rat := if a < b then b else a

def sameBits (a b : List Float) : Bool :=
  a.length == b.length && (a.zip b).all (fun (x, y) => x.toBits == y.toBits)

/-- greedy parse of a list of evaluation points into Differentiator blocks `x, stencil(x)`; returns number of
blocks recognised -/
partial def parseBlocks (order : Nat) (accFac : Float) (pts : Array (List Float)) (i blocks : Nat) : Nat :=
  if i ≥ pts.size then blocks else
  let x := pts[i]!
  let st := stencil order accFac 0.1 x
  let k := st.length
  if i + k < pts.size && (List.range k).all (fun j => sameBits (pts[i + 1 + j]!) (st.getD j [])) then
    parseBlocks order accFac pts (i + 1 + k) (blocks + 1)
  else parseBlocks order accFac pts (i + 1) blocks

def optRecord (toks : Array String) : String := Id.run do
  let c : Cur := ⟨toks, 0⟩
  let (iv, c) := c.ints 20
  let req := iv[0]!; let algCode := iv[1]!; let n := iv[2]!; let nEq := iv[3]!; let nIneq := iv[4]!
  let hasLim := iv[5]! != 0; let numGrad := iv[6]! != 0; let numJac := iv[7]! != 0; let method := iv[8]!
  let ptype := iv[9]!; let status := iv[10]!; let nEval := iv[11]!; let nObj := iv[12]!; let nGrad := iv[13]!
  let _nCon := iv[14]!; let nJac := iv[15]!; let nLog := iv[16]!; let forceFail := iv[19]!; let haveStar := iv[17]! != 0 && forceFail != 2 && forceFail != 3
  let nc := nEq + nIneq
  let (tolF_, c) := c.flt; let (ctolF, c) := c.flt; let (cRF, c) := c.flt; let (accF, c) := c.flt
  let (Lf, c) := c.flts (n * n); let (bf, c) := c.flts n
  let (lof, c) := c.flts n; let (hif, c) := c.flts n
  let (Cf, c) := c.flts (nc * n); let (df, c) := c.flts nc
  let (xsf, c) := c.flts n; let (multf, c) := c.flts nc; let (zlof, c) := c.flts n; let (zhif, c) := c.flts n
  let (x0f, c) := c.flts n; let (fretF, c) := c.flt; let (xretf, c) := c.flts n
  let (envLof, c) := c.flts n; let (envHif, c) := c.flts n
  -- log
  let mut cur := c
  let mut logK : Array Nat := #[]
  let mut logX : Array (Array Float) := #[]
  for _ in [0:nLog] do
    let (k, c1) := cur.int
    let (x, c2) := c1.flts n
    logK := logK.push k; logX := logX.push x; cur := c2
  -- selection + constructor
  let modelAlg : Nat := match construct false (Alg.ofCode req) nc hasLim n with
    | some a => a.toCode | none => 6
  if status == 2 then return s!"O opt {modelAlg} 1"
  let alg := Alg.ofCode algCode
  let Lr := toRats Lf; let br := toRats bf; let lor := toOptRats lof; let hir := toOptRats hif
  let Cr := toRats Cf; let dr := toRats df
  let x0r := toRats x0f; let xretr := toRats xretf; let envLor := toRats envLof; let envHir := toRats envHif
  let xsr := toRats xsf; let multr := toRats multf; let zlor := toRats zlof; let zhir := toRats zhif
  let logR : List (Array Rat) := logX.toList.map toRats
  let P : Problem Rat := {
      n := n, nEq := nEq, nIneq := nIneq, ptype := ptype, cR := floatToRat cRF,
      L := matOf Lr n, b := vecOf br, lo := optOf lor, hi := optOf hir, C := matOf Cr n, d := vecOf dr }
  let tol := floatToRat tolF_; let ctol := floatToRat ctolF; let fret := floatToRat fretF
  let x0 := vecOf x0r; let xret := vecOf xretr
  let numdiff := alg != .cmaes && (numGrad || (numJac && nc > 0))
  let startInside := inBox n P.lo P.hi x0
  let accFacF : Float := if method == 1 then Float.pow accF (1.0 / 3.0) else Float.sqrt accF
  let accFac := floatToRat accFacF
  let envLo := vecOf envLor; let envHi := vecOf envHir
  -- limits the evaluations are held to
  let relax : Rat := if alg == .interiorPoint then rq 10000001 1000000000000000 else 0
  let expand (i : Nat) : Rat :=
    if numdiff then rq 1001 1000 * accFac * maxR (rq 1 10) (maxR (absR (envLo i)) (absR (envHi i))) else 0
  let loE : Nat → Option Rat := fun i => (P.lo i).map (fun a => a - relax * maxR 1 (absR a) - expand i)
  let hiE : Nat → Option Rat := fun i => (P.hi i).map (fun a => a + relax * maxR 1 (absR a) + expand i)
  let evalPts : List (Nat → Rat) :=
    (if nEval > 0 then [envLo, envHi] else []) ++ logR.map vecOf
  let graderr : Rat := if numGrad then (if method == 1 then rq 1 10000000 else rq 1 10000) * (1 + absR fret) else 0
  let boundSq : Rat := match alg with
    | .lbfgs => let t := tol * maxR (rq 1 10) (absR fret) * rq 1001 1000 + graderr; (n : Rat) * t * t
    | .lbfgsb => 2 * (rq 22 100000000 + 50 * (n : Rat) * (tol + graderr) * (tol + graderr)) * maxR 1 (absR (P.F (vecOf xsr)))
    | .interiorPoint => let t := 20 * (tol + ctol + graderr) + rq 1 100000; t * t
    | .cmaes => if hasLim then rq 25 10000 else (let t := 10 * sqrtUpper tol + rq 1 10000; t * t)
    | _ => 1
  let start := if alg == .lbfgsb then clampTo P.lo P.hi x0 else x0
  let o : Outcome Rat := {
      alg := alg, x0 := x0, fret := fret, xret := xret, evals := evalPts, ctol := ctol * rq 1000001 1000000,
      tolF := if alg == .interiorPoint then rq 1 1000000 else rq 1 10000000000,
      slack := rq 1 10000000000 * (1 + absR (P.F start)),
      loE := loE, hiE := hiE,
      checkEvals := !(alg == .interiorPoint && !startInside),
      boundSq := boundSq }
  let cert : Option (Cert Rat) := if haveStar then some { xs := vecOf xsr, mult := vecOf multr, zlo := vecOf zlor, zhi := vecOf zhir } else none
  let mut fails : List String := []
  if algCode != modelAlg then fails := fails ++ ["select"]
  if status == 0 then
    fails := fails ++ failures P cert o
    -- simbody's lbfgs termination test must hold at the returned point (analytic gradient, quadratic: exact gradient)
    if alg == .lbfgs && !numGrad && ptype == 0 then
      if !(lbfgsConverged n (rq 1 10) (tol * rq 1001 1000) fret xret (quadGrad n P.A P.b xret)) then fails := fails ++ ["lbfgsStop"]
  else
    -- an exception was thrown: limits on the evaluations and on the vector left behind, and no worsening by descent methods
    if honoursLimits alg && hasLim && !numdiff && (alg != .interiorPoint || startInside) then
      if !(allInBox n loE hiE evalPts) then fails := fails ++ ["exc.evalbox"]
      if alg != .cmaes && !(inBox n loE hiE xret) then fails := fails ++ ["exc.leftbox"]
    if isDescent alg then
      if !(notWorse (P.F xret) (P.F start) (rq 1 10000000000 * (1 + absR (P.F start)))) then fails := fails ++ ["exc.descent"]
  -- wrapper logic: which user virtuals are reachable
  if alg == .cmaes then
    if nGrad + nJac != 0 then fails := fails ++ ["cmaesCallsDerivatives"]
  else
    if numGrad && nGrad != 0 then fails := fails ++ ["numgradCallsUserGradient"]
    if !numGrad && nGrad == 0 && nEval > 0 then fails := fails ++ ["userGradientNeverCalled"]
    if numJac && nc > 0 && nJac != 0 then fails := fails ++ ["numjacCallsUserJacobian"]
  -- Differentiator stencil blocks in the objective log (bit-exact), when the whole log is present
  if numGrad && alg != .cmaes && nLog == nEval && nEval > 0 then
    let order := if method == 1 then 2 else 1
    let objPts : Array (List Float) := ((logK.zip logX).filter (fun (k, _) => k == 0)).map (fun (_, x) => x.toList)
    let blocks := parseBlocks order accFacF objPts 0 0
    let k := stencilSize order n
    if blocks == 0 then fails := fails ++ ["noStencilBlock"]
    -- each "FG" of the L-BFGS(-B) drivers is objectiveFuncWrapper + gradientFuncWrapper = 2 + k objective calls
    if status == 0 && alg == .lbfgsb && nObj != blocks * (k + 2) then fails := fails ++ ["lbfgsbCallCount"]
    if status == 0 && alg == .lbfgs && nObj != blocks * (k + 2) + 1 then fails := fails ++ ["lbfgsCallCount"]
  if fails.isEmpty then return s!"O opt {modelAlg} 1"
  else return s!"O opt {modelAlg} 0:{String.intercalate "," fails}"

def selectRecord (toks : List String) : String :=
  match toks.map String.toNat! with
  | [req, nEq, nIneq, lim] =>
    match select false (Alg.ofCode req) (nEq + nIneq) (lim != 0) with
    | some a => s!"O select {a.toCode}"
    | none => "O select EXC"
  | _ => "O select ERR"

def main : IO Unit := do
  let lines ← readStdinLines
  let out ← IO.getStdout
  for ln in lines do
    if ln.startsWith "I " then out.putStrLn ln.trimAscii.toString
    match tokens ln with
    | "I" :: "select" :: rest => out.putStrLn (selectRecord rest)
    | "I" :: "opt" :: rest => out.putStrLn (optRecord rest.toArray)
    | "I" :: "floor" :: _ => out.putStrLn "O floor 1"
    | "I" :: fn :: _ => out.putStrLn ("O " ++ fn ++ " ERR")
    | _ => pure ()
