import SimbodyModel.Proto
import SimbodyModel.C41
/-! Driver for C41.  All tokens are hex doubles (integers travel as exactly representable doubles).

* `I stepUp x`                               → `O stepUp s ds d2s d3s  sd dsd d2sd d3sd`
* `I stepAny y0 yr x0 ooxr x`                → `O stepAny y dy d2y d3y`
* `I fstep y0 y1 x0 x1 x`                    → `O fstep v d1 d2 d3`            (`Function_<Real>::Step`)
* `I fconst v`                               → `O fconst v 0`
* `I flin n c[n+1] x[n] j`                   → `O flin value d/dxj d²(=0)`
* `I fpoly nc c[nc] x order`                 → `O fpoly d_order`   (order 0 = value)
* `I fsin a w p t order`                     → `O fsin d_order`
* `I splder m n ider t x[n] c[n]`            → `O splder value`                 (`GCVSPLUtil::splder`)
-/
open Proto C41

def nat (x : Float) : Nat := x.toUInt64.toNat

def handle (fn : String) (a : List Float) : Option (List Float) :=
  match fn, a with
  | "stepUp", [x] =>
    some [stepUp x, dstepUp x, d2stepUp x, d3stepUp x, stepDown x, dstepDown x, d2stepDown x, d3stepDown x]
  | "stepAny", [y0, yr, x0, ooxr, x] =>
    some [stepAny y0 yr x0 ooxr x, dstepAny yr x0 ooxr x, d2stepAny yr x0 ooxr x, d3stepAny yr x0 ooxr x]
  | "fstep", [y0, y1, x0, x1, x] =>
    let f := StepFn.mk' y0 y1 x0 x1
    some [f.value x, f.deriv 1 x, f.deriv 2 x, f.deriv 3 x]
  | "fconst", [v] => some [constValue v, constDeriv v]
  | "flin", nf :: rest =>
    let n := nat nf
    let cs := rest.take (n + 1)
    let xs := (rest.drop (n + 1)).take n
    match rest.drop (2 * n + 1) with
    | [jf] => some [linearValue cs xs, linearDeriv cs [nat jf], linearDeriv cs [nat jf, nat jf]]
    | _ => none
  | "fpoly", ncf :: rest =>
    let nc := nat ncf
    let cs := rest.take nc
    match rest.drop nc with
    | [x, k] => some [if nat k = 0 then polyValue cs x else polyDeriv Float.ofNat cs (nat k) x]
    | _ => none
  | "fsin", [a, w, p, t, k] =>
    let ph := w * t + p
    some [sinusoidDeriv (nat k) a w (Float.sin ph) (Float.cos ph)]
  | "splder", mf :: nf :: iderf :: t :: rest =>
    let m := nat mf
    let n := nat nf
    let x := (rest.take n).toArray
    let c := ((rest.drop n).take n).toArray
    if rest.length != 2 * n then none else
    some [splder Float.ofNat (nat iderf) m n t x c]
  | "ponly", [k] => some [k]          -- predicate-only record (bicubic surface, coverage floor): nothing modelled
  | _, _ => none

def main : IO Unit := runPure handle
