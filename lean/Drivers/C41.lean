import SimbodyModel.Proto
import SimbodyModel.C41
/-! Driver for C41.  All tokens are hex doubles (integers travel as exactly representable doubles).

* `I stepUp x`                               → `O stepUp s ds d2s d3s  sd dsd d2sd d3sd`
* `I stepAny y0 yr x0 ooxr x`                → `O stepAny y dy d2y d3y`
* `I fstep y0 y1 x0 x1 x`                    → `O fstep v d1 d2 d3`            (`Function_<Real>::Step`)
* `I fconst v`                               → `O fconst v 0`
* `I flin n c[n+1] x[n] j`                   → `O flin value d/dxj d²(=0)`
* `I fpoly nc c[nc] x maxOrder`              → `O fpoly value d1 … d_maxOrder`
* `I fsin a w p t maxOrder`                  → `O fsin d0 … d_maxOrder`
* `I splder m n t x[n] c[n]`                 → `O splder d0 … d_{2m}`           (`GCVSPLUtil::splder`)
-/
open Proto C41

def nat (x : Float) : Nat := x.toUInt64.toNat

def handle (fn : String) (a : List Float) : Option (List Float) :=
  match fn, a with
  | "stepUp", [x] =>
    some [stepUp x, dstepUp x, d2stepUp x, d3stepUp x, stepDown x, dstepDown x, d2stepDown x, d3stepDown x]
  | "stepAny", [y0, yr, x0, ooxr, x] =>
    some [stepAny y0 yr x0 ooxr x, dstepAny yr x0 ooxr x, d2stepAny yr x0 ooxr x, d3stepAny yr x0 ooxr x]
  | "fstep", [y0, y1, x0, x1, x] =>
    let f := StepFn.mk' y0 y1 x0 x1
    some [f.value x, f.deriv 1 x, f.deriv 2 x, f.deriv 3 x]
  | "fconst", [v] => some [constValue v, constDeriv v]
  | "flin", nf :: rest =>
    let n := nat nf
    let cs := rest.take (n + 1)
    let xs := (rest.drop (n + 1)).take n
    match rest.drop (2 * n + 1) with
    | [jf] => some [linearValue cs xs, linearDeriv cs [nat jf], linearDeriv cs [nat jf, nat jf]]
    | _ => none
  | "fpoly", ncf :: rest =>
    let nc := nat ncf
    let cs := rest.take nc
    match rest.drop nc with
    | [x, mo] =>
      some (polyValue cs x :: (List.range (nat mo)).map (fun k => polyDeriv Float.ofNat cs (k + 1) x))
    | _ => none
  | "fsin", [a, w, p, t, mo] =>
    let ph := w * t + p
    some ((List.range (nat mo + 1)).map (fun k => sinusoidDeriv k a w (Float.sin ph) (Float.cos ph)))
  | "splder", mf :: nf :: t :: rest =>
    let m := nat mf
    let n := nat nf
    let x := (rest.take n).toArray
    let c := ((rest.drop n).take n).toArray
    if rest.length != 2 * n then none else
    some ((List.range (2 * m + 1)).map (fun ider => splder Float.ofNat ider m n t x c))
  | _, _ => none

def main : IO Unit := runPure handle
