import SimbodyModel.Proto
import SimbodyModel.Mobilizer
import SimbodyModel.MobilizerIO
/-! Driver for C06: answers `I tree …` with the model's body poses and velocities of the (quaternion-mode) tree
described by the record; the harness reports them from the Euler-converted state of the real system. -/
open Proto Mobilizer MobilizerIO

def treeLoop : List (Nat × Body) → Array (Xf Float × SV Float) → Nat → List String → List String
  | [], _, _, acc => acc.reverse
  | (p, b) :: rest, done, i, acc =>
    let (X_GP, V_GP) := done.getD p (Xf.one, SV.zero)
    let k := b.kin X_GP V_GP
    let acc := line ("V_GB." ++ toString i) (svL k.V_GBv) :: line ("X_GB." ++ toString i) (xfL k.X_GBv) :: acc
    treeLoop rest (done.push (k.X_GBv, k.V_GBv)) (i + 1) acc

partial def parseBodies : Nat → List String → List (Nat × Body) → Option (List (Nat × Body))
  | 0, _, acc => some acc.reverse
  | n + 1, p :: ty :: rev :: euler :: ax :: rest, acc =>
    match parseBody ty rev euler ax ((rest.take 45).map hexToFloat) with
    | some b => parseBodies n (rest.drop 45) ((p.toNat!, b) :: acc)
    | none => none
  | _, _, _ => none

def answerTree (toks : List String) : List String :=
  match toks with
  | nS :: rest =>
    match parseBodies nS.toNat! rest [] with
    | some bodies => treeLoop bodies #[(Xf.one, SV.zero)] 1 []
    | none => ["O tree ERR"]
  | _ => ["O tree ERR"]

def main : IO Unit := do
  let lines ← readStdinLines
  let out ← IO.getStdout
  for ln in lines do
    match tokens ln with
    | "I" :: "tree" :: rest =>
      out.putStrLn ln.trimAscii.toString
      for l in answerTree rest do out.putStrLn l
    | "I" :: _ => out.putStrLn ln.trimAscii.toString
    | _ => pure ()
