import SimbodyModel.Proto
import SimbodyModel.Mobilizer
import SimbodyModel.MobilizerIO
/-! Driver for C06: answers `I tree …` with the model's body poses and velocities of the (quaternion-mode) tree
described by the record; the harness reports them from the Euler-converted state of the real system. -/
open Proto Mobilizer MobilizerIO

def treeLoop : List (Nat × Body) → Array (Xf Float × SV Float) → Nat → List String → List String
  | [], _, _, acc => acc.reverse
  | (p, b) :: rest, done, i, acc =>
    let (X_GP, V_GP) := done.getD p (Xf.one, SV.zero)
    let k := b.kin X_GP V_GP
    let acc := line ("V_GB." ++ toString i) (svL k.V_GBv) :: line ("X_GB." ++ toString i) (xfL k.X_GBv) :: acc
    treeLoop rest (done.push (k.X_GBv, k.V_GBv)) (i + 1) acc

partial def parseBodies : Nat → List String → List (Nat × Body) → Option (List (Nat × Body))
  | 0, _, acc => some acc.reverse
  | n + 1, p :: ty :: rev :: euler :: ax :: rest, acc =>
    match parseBody ty rev euler ax ((rest.take 45).map hexToFloat) with
    | some b => parseBodies n (rest.drop 45) ((p.toNat!, b) :: acc)
    | none => none
  | _, _, _ => none

def answerTree (toks : List String) : List String :=
  match toks with
  | nS :: rest =>
    match parseBodies nS.toNat! rest [] with
    | some bodies => treeLoop bodies #[(Xf.one, SV.zero)] 1 []
    | none => ["O tree ERR"]
  | _ => ["O tree ERR"]

/-- `q` and `−q` are the same rotation: make the component of largest magnitude positive -/
def canonQuat (q : List Float) : List Float :=
  let m := q.foldl (fun (acc : Float) x => if x.abs > acc.abs then x else acc) 0
  if m < 0 then q.map (fun x => -x) else q

/-- `I e2q <type> a0 a1 a2 p0 p1 p2` : the quaternion `convertToQuaternions` must return for Euler angles `a` -/
def answerE2Q (toks : List String) : List String :=
  match toks with
  | ty :: rest =>
    let d := rest.map hexToFloat
    let h (i : Nat) : Float := d.getD i 0 / 2
    let e := eulerQuat (Float.cos (h 0)) (Float.sin (h 0)) (Float.cos (h 1)) (Float.sin (h 1)) (Float.cos (h 2)) (Float.sin (h 2))
    let q := canonQuat [e.a, e.b, e.c, e.d]
    let tail := if ty == "free" || ty == "freeline" then (d.drop 3).take 3 else []
    [line "quat" (q ++ tail)]
  | _ => ["O quat ERR"]

/-- `I fb <mob record>` : transform / velocity of the FunctionBased mirror (`Spec.fbX0`, inverted if reversed) -/
def answerFB (c : Case) : List String :=
  let b := c.body
  let k := b.kin Xf.one SV.zero
  match b.spec.fbX0 b.C with
  | some X => [line "X_FM" (xfL (realizeX b.rev X)), line "V_FM" (svL k.V_FM)]
  | none => ["O fb ERR"]

def main : IO Unit := do
  let lines ← readStdinLines
  let out ← IO.getStdout
  for ln in lines do
    match tokens ln with
    | "I" :: "tree" :: rest =>
      out.putStrLn ln.trimAscii.toString
      for l in answerTree rest do out.putStrLn l
    | "I" :: "e2q" :: rest =>
      out.putStrLn ln.trimAscii.toString
      for l in answerE2Q rest do out.putStrLn l
    | "I" :: "fb" :: rest =>
      out.putStrLn ln.trimAscii.toString
      match parseCase rest with
      | some c => for l in answerFB c do out.putStrLn l
      | none => out.putStrLn "O fb ERR"
    | "I" :: _ => out.putStrLn ln.trimAscii.toString
    | _ => pure ()
