import SimbodyModel.Proto
import SimbodyModel.C09
/-! Driver for C09: answers the records of harness/C09.cpp with the definitions of `SimbodyModel/C09.lean`
instantiated at `Float`.

* `projQ` / `projU`: entry norm + worst index recomputed by `entryNormQ` / `normW`; if the skeleton (`runQ` / `runU`)
  leaves through an early exit every result field is predicted by it; on the Newton path (whose per-iteration error
  vectors are not observable through the public API) the observed results must be accepted by the contract
  `acceptsQ` / `acceptsU`, otherwise the answer is `REJECT`.
* `projQt` / `projUt` (only when the per-iteration hook of notes/C09_hook.patch is in the library): the traced error
  vectors are the oracle; the FULL skeleton predicts every result field.
* `normq`, `packQ`, `packU`, `minnorm`: the model function on the exported inputs.
* `chk`: implementation-only predicates, answered `O chk 1`. -/
open Proto C09

abbrev F := Float

def sqrtF (x : F) : F := Float.sqrt x
def nanF : F := 0.0 / 0.0

def optF (x : Option F) : F := match x with | some v => v | none => nanF
def ofNaN (x : F) : Option F := if x.isNaN then none else some x
def b2s (b : Bool) : String := if b then "1" else "0"

structure Parsed where
  o : Opts F
  rest : List String

def parseOpts (t : List String) : Parsed :=
  let flags := (t.getD 0 "0").toNat!
  let acc := hexToFloat (t.getD 1 "0"); let ov := hexToFloat (t.getD 2 "0")
  let lim := hexToFloat (t.getD 3 "0"); let sig := hexToFloat (t.getD 4 "0")
  let bit := fun (k : Nat) => (flags / k) % 2 == 1
  ⟨{ acc := acc, overshoot := ov, limit := if lim.isInf && lim > 0 then none else some lim, sig := sig,
      localOnly := bit 1, dontThrow := bit 2, useInf := bit 4, force := bit 8 }, t.drop 5⟩

def parseObs (t : List String) : Obs F × List String :=
  let st := Status.ofCode (t.getD 0 "-1").toInt!
  let its := (t.getD 1 "0").toNat!
  let any := (t.getD 2 "0") == "1"; let lim := (t.getD 3 "0") == "1"; let thr := (t.getD 4 "0") == "1"
  let rst := (t.getD 5 "0") == "1"
  let nin := hexToFloat (t.getD 6 "0"); let nout := hexToFloat (t.getD 7 "0")
  (⟨st, any, lim, its, nin, ofNaN nout, thr, rst⟩, t.drop 8)

/-- `|a − b| ≤ 1e-12·|b|`: a decision that a different summation order / FMA could flip; then nothing is predicted -/
def nearF (a b : F) : Bool := (a - b).abs ≤ 1e-12 * b.abs

def limitNear (limit : Option F) (n : F) : Bool := match limit with | none => false | some l => nearF n l

def fmtResult (fn : String) (normIn : F) (worst : Int) (st : Status) (its : Nat) (any lim thr rst : Bool) (nout : Option F) : String :=
  s!"O {fn} {floatToHex normIn} {worst} {st.code} {its} {b2s any} {b2s lim} {b2s thr} {b2s rst} {floatToHex (optF nout)}"

def fmtObs (fn : String) (normIn : F) (worst : Int) (ob : Obs F) : String :=
  fmtResult fn normIn worst ob.status ob.its ob.anyChange ob.limitExceeded ob.threw ob.restored ob.normOut

def handleProjQ (t : List String) : String :=
  let p := parseOpts t
  let mHolo := (p.rest.getD 0 "0").toNat!; let mQuats := (p.rest.getD 1 "0").toNat!
  let r := p.rest.drop 2
  let qerr0 := (r.take (mHolo + mQuats)).map hexToFloat
  let r := r.drop (mHolo + mQuats)
  let tp := (r.take mHolo).map hexToFloat
  let (ob, r) := parseObs (r.drop mHolo)
  let quatAfter := (r.take mQuats).map hexToFloat
  let perr0 := qerr0.take mHolo; let quat0 := qerr0.drop mHolo
  let o := p.o
  let e := entryNormQ sqrtF o.useInf perr0 tp quat0
  -- the MODEL decides which exit is taken: run the skeleton; 0 iterations = an early exit (projection limit / nothing
  -- to do / quaternions only), whose inputs are all observable, so every field is predicted.  Otherwise the Newton path.
  let orc : OracleQ F := { perr0 := perr0, w := tp, quat0 := quat0, chgA := ob.anyChange, quatA := quatAfter,
                           perrIt := fun _ => [], perrBack := fun _ => [], chgB := false, quatB := [] }
  let res := runQ sqrtF o orc
  -- a decision within 1e-12 relative of its threshold is not predicted (the harness tags the record `boundary`)
  if nearF e.perrIn o.acc || nearF e.quatIn o.acc || limitNear o.limit e.normIn then fmtObs "projQ" e.normIn e.worst ob
  else if res.its == 0 then
    -- `restored`: predicted when the skeleton does not touch q; after a quaternion-only normalisation the bits may or
    -- may not change, the observed value is echoed
    fmtResult "projQ" e.normIn e.worst res.status res.its res.anyChange res.limitExceeded res.threw
      (if res.normalized then ob.restored else true) res.normOut
  else if acceptsQ o mQuats e.perrIn e.quatIn ob then fmtObs "projQ" e.normIn e.worst ob
  else "O projQ REJECT"

def handleProjU (t : List String) : String :=
  let p := parseOpts t
  let m := (p.rest.getD 0 "0").toNat!
  let r := p.rest.drop 1
  let uerr0 := (r.take m).map hexToFloat
  let tpv := ((r.drop m).take m).map hexToFloat
  let (ob, _) := parseObs (r.drop (2 * m))
  let o := p.o
  let e := normW sqrtF o.useInf (scale uerr0 tpv)
  let orc : OracleU F := { verr0 := uerr0, w := tpv, verrIt := fun _ => [], verrBack := fun _ => [] }
  let res := runU sqrtF o orc
  if nearF e.1 o.acc || limitNear o.limit e.1 then fmtObs "projU" e.1 e.2 ob
  else if res.its == 0 then
    fmtResult "projU" e.1 e.2 res.status res.its res.anyChange res.limitExceeded res.threw true res.normOut
  else if acceptsU o e.1 ob then fmtObs "projU" e.1 e.2 ob
  else "O projU REJECT"

/-- one hook event `event iter n vals[n]` -/
structure Ev where
  event : Nat
  iter : Nat
  vals : List F

def parseEvents : Nat → List String → List Ev
  | 0, _ => []
  | k + 1, t =>
    let n := (t.getD 2 "0").toNat!
    ⟨(t.getD 0 "0").toNat!, (t.getD 1 "0").toNat!, ((t.drop 3).take n).map hexToFloat⟩ :: parseEvents k (t.drop (3 + n))

def findEv (evs : List Ev) (event iter : Nat) : List F :=
  match evs.find? (fun e => e.event == event && e.iter == iter) with
  | some e => e.vals
  | none => []

def findEvAny (evs : List Ev) (event : Nat) : Option Ev := evs.find? (fun e => e.event == event)

/-- hook trace of projectQ replayed through the full skeleton -/
def handleProjQt (t : List String) : String :=
  let p := parseOpts t
  let mHolo := (p.rest.getD 0 "0").toNat!
  let r := p.rest.drop 2
  let tp := (r.take mHolo).map hexToFloat
  let r := r.drop mHolo
  let evs := parseEvents (r.getD 0 "0").toNat! (r.drop 1)
  let e0 := findEv evs 0 0
  let a := findEvAny evs 3; let b := findEvAny evs 4
  let orc : OracleQ F :=
    { perr0 := e0.take mHolo, w := tp, quat0 := e0.drop mHolo,
      chgA := (a.map (·.iter)).getD 0 == 1, quatA := (a.map (·.vals)).getD [],
      perrIt := fun i => findEv evs 1 (i + 1), perrBack := fun i => findEv evs 2 (i + 1),
      chgB := (b.map (·.iter)).getD 0 == 1, quatB := (b.map (·.vals)).getD [] }
  let res := runQ sqrtF p.o orc
  fmtResult "projQt" (optF res.normIn) res.worst res.status res.its res.anyChange res.limitExceeded res.threw
    ((res.obs 0).restored) res.normOut

def handleProjUt (t : List String) : String :=
  let p := parseOpts t
  let m := (p.rest.getD 0 "0").toNat!
  let r := p.rest.drop 1
  let tpv := (r.take m).map hexToFloat
  let r := r.drop m
  let evs := parseEvents (r.getD 0 "0").toNat! (r.drop 1)
  let orc : OracleU F :=
    { verr0 := findEv evs 0 0, w := tpv, verrIt := fun i => findEv evs 1 (i + 1), verrBack := fun i => findEv evs 2 (i + 1) }
  let res := runU sqrtF p.o orc
  fmtResult "projUt" (optF res.normIn) res.worst res.status res.its res.anyChange res.limitExceeded res.threw
    ((res.obs 0).restored) res.normOut

def handleNormq (t : List String) : String :=
  let v := t.map hexToFloat
  let q := normalizeQuat sqrtF (⟨v.getD 0 0, v.getD 1 0, v.getD 2 0, v.getD 3 0⟩ : Quat F)
  fmtFloats "O normq" [q.w, q.x, q.y, q.z]

def handlePack (fn : String) (t : List String) : String :=
  let n := (t.getD 0 "0").toNat!; let nf := (t.getD 1 "0").toNat!
  let free := ((t.drop 2).take nf).map String.toNat!
  let fl := (t.drop (2 + nf)).map hexToFloat
  let all := fl.take n; let packedIn := (fl.drop n).take nf; let base := (fl.drop (n + nf)).take n
  fmtFloats ("O " ++ fn) (pack free all 0 ++ unpack free packedIn base)

def rowsOf (m n : Nat) (xs : List F) : List (List F) := (List.range m).map (fun i => (xs.drop (i * n)).take n)

def maxAbsL (xs : List F) : F := xs.foldl (fun a x => if x.abs > a then x.abs else a) 0

def certOk (M : List (List F)) (lam rhs : List F) : Bool :=
  let resid := List.zipWith (· - ·) (mulVecL M lam) rhs
  maxAbsL resid ≤ 1e-9 * (if maxAbsL rhs > 1e-300 then maxAbsL rhs else 1e-300)

def handleMinnorm (t : List String) : String :=
  -- which m n nf free… A[m*n] tp[m] Wu[n] u0[n] b[m]
  let which := t.getD 0 "q"
  let m := (t.getD 1 "0").toNat!; let n := (t.getD 2 "0").toNat!; let nf := (t.getD 3 "0").toNat!
  let free := ((t.drop 4).take nf).map String.toNat!
  let fl := (t.drop (4 + nf)).map hexToFloat
  let A := rowsOf m n (fl.take (m * n))
  let tp := (fl.drop (m * n)).take m
  let wu := (fl.drop (m * n + m)).take n
  let u0 := (fl.drop (m * n + m + n)).take n
  let b := (fl.drop (m * n + m + 2 * n)).take m
  -- column scale: position level `Wu⁻¹`; velocity level projectU's relative scale `uRelScale(u0, Wu)`
  let winv := if which == "u" then uRelScale u0 wu else invertAll wu
  let r := minNormStep n free A tp winv b
  -- certificate: the multipliers must solve  (A' A'ᵀ) λ = Tp b  (then `min_norm_of_multiplier` applies)
  if certOk r.2.2 r.2.1 (List.zipWith (· * ·) tp b) then fmtFloats "O minnorm" r.1 else "O minnorm ERR"

def handleMinnormN (t : List String) : String :=
  -- m nq nu nf free… Pq[m*nq] N[nq*nu] NInv[nu*nq] tp[m] Wu[nu] b[m]
  let m := (t.getD 0 "0").toNat!; let nq := (t.getD 1 "0").toNat!; let nu := (t.getD 2 "0").toNat!
  let nf := (t.getD 3 "0").toNat!
  let free := ((t.drop 4).take nf).map String.toNat!
  let fl := (t.drop (4 + nf)).map hexToFloat
  let Pq := rowsOf m nq (fl.take (m * nq)); let fl := fl.drop (m * nq)
  let Nm := rowsOf nq nu (fl.take (nq * nu)); let fl := fl.drop (nq * nu)
  let NInv := rowsOf nu nq (fl.take (nu * nq)); let fl := fl.drop (nu * nq)
  let tp := fl.take m; let wu := (fl.drop m).take nu; let b := (fl.drop (m + nu)).take m
  let r := minNormStepN nq nu free Pq Nm NInv tp (invertAll wu) b
  if certOk r.2.2 r.2.1 (List.zipWith (· * ·) tp b) then fmtFloats "O minnormN" r.1 else "O minnormN ERR"

def handleDispatch (t : List String) : String :=
  -- acc threwQ threwU
  let acc := hexToFloat (t.getD 0 "0")
  let o := defaultOpts (1e-4 : F) 0.1 0.0 acc
  let thr := projectThrows ((t.getD 1 "0") == "1") ((t.getD 2 "0") == "1")
  let flags := (if o.localOnly then 1 else 0) + (if o.dontThrow then 2 else 0) + (if o.useInf then 4 else 0) + (if o.force then 8 else 0)
  let lim : F := match o.limit with | none => 1.0 / 0.0 | some l => l
  s!"O dispatch {floatToHex o.acc} {floatToHex o.overshoot} {floatToHex lim} {flags} {b2s thr} 1"

def quatOf (v : List F) : Quat F := ⟨v.getD 0 0, v.getD 1 0, v.getD 2 0, v.getD 3 0⟩
def quatL (q : Quat F) : List F := [q.w, q.x, q.y, q.z]

def handleNormqP (t : List String) : String :=
  -- free1 free2 q1(4) q2(4)
  let f1 := (t.getD 0 "0") == "1"; let f2 := (t.getD 1 "0") == "1"
  let v := (t.drop 2).map hexToFloat
  let r := normalizeQuatsMasked sqrtF [(f1, quatOf (v.take 4)), (f2, quatOf (v.drop 4))]
  fmtFloats "O normqP" (r.foldr (fun p acc => quatL p.2 ++ acc) [])

def handleErrq (t : List String) : String :=
  -- quat(4) errest(4): normalise, then remove the error estimate's component along the unit quaternion
  let v := t.map hexToFloat
  let qn := normalizeQuat sqrtF (quatOf (v.take 4))
  fmtFloats "O errq" (quatL qn ++ quatL (projectErrEst qn (quatOf (v.drop 4))))

def main : IO Unit := do
  let lines ← readStdinLines
  let out ← IO.getStdout
  for ln in lines do
    match tokens ln with
    | "I" :: fn :: _s :: _k :: _r :: args =>
      out.putStrLn ln.trimAscii.toString
      let ans :=
        if fn == "chk" then "O chk 1"
        else if fn == "projQ" then handleProjQ args
        else if fn == "projU" then handleProjU args
        else if fn == "projQt" then handleProjQt args
        else if fn == "projUt" then handleProjUt args
        else if fn == "normq" then handleNormq args
        else if fn == "packQ" || fn == "packU" then handlePack fn args
        else if fn == "minnorm" then handleMinnorm args
        else if fn == "minnormN" then handleMinnormN args
        else if fn == "dispatch" then handleDispatch args
        else if fn == "normqP" then handleNormqP args
        else if fn == "errq" then handleErrq args
        else "O " ++ fn ++ " ERR"
      out.putStrLn ans
    | _ => pure ()
