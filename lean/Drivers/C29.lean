import SimbodyModel.Proto
import SimbodyModel.C29
/-! Driver for C29: answers every `I <fn>[F] <hex>…` record of harness/C29.cpp with the model
(`SimbodyModel/Spatial.lean` at `Float`). -/
open Proto Spatial

def m2l (m : Mat33 Float) : List Float := [m.m00, m.m01, m.m02, m.m10, m.m11, m.m12, m.m20, m.m21, m.m22]
def v2l (v : Vec3 Float) : List Float := [v.x, v.y, v.z]
def s2l (s : SymMat33 Float) : List Float := [s.xx, s.yy, s.zz, s.xy, s.xz, s.yz]
def sv2l (a : SpatialVec Float) : List Float := v2l a.w ++ v2l a.v
/-- 6×6 row-major -/
def sm2l (m : SpatialMat Float) : List Float :=
  [m.a00.m00, m.a00.m01, m.a00.m02, m.a01.m00, m.a01.m01, m.a01.m02,
   m.a00.m10, m.a00.m11, m.a00.m12, m.a01.m10, m.a01.m11, m.a01.m12,
   m.a00.m20, m.a00.m21, m.a00.m22, m.a01.m20, m.a01.m21, m.a01.m22,
   m.a10.m00, m.a10.m01, m.a10.m02, m.a11.m00, m.a11.m01, m.a11.m02,
   m.a10.m10, m.a10.m11, m.a10.m12, m.a11.m10, m.a11.m11, m.a11.m12,
   m.a10.m20, m.a10.m21, m.a10.m22, m.a11.m20, m.a11.m21, m.a11.m22]
def si2l (s : SpatialInertia Float) : List Float := [s.m] ++ v2l s.p ++ s2l s.G
def mp2l (s : MassProperties Float) : List Float := [s.mass] ++ v2l s.com ++ s2l s.G
def abi2l (p : ArticulatedInertia Float) : List Float := s2l p.M ++ s2l p.J ++ m2l p.F

def takeV (a : List Float) : Option (Vec3 Float × List Float) :=
  match a with | x :: y :: z :: r => some (⟨x, y, z⟩, r) | _ => none
def takeS (a : List Float) : Option (SymMat33 Float × List Float) :=
  match a with | a :: b :: c :: d :: e :: f :: r => some (⟨a, b, c, d, e, f⟩, r) | _ => none
def takeM (a : List Float) : Option (Mat33 Float × List Float) :=
  match a with | a :: b :: c :: d :: e :: f :: g :: h :: i :: r => some (⟨a, b, c, d, e, f, g, h, i⟩, r) | _ => none
def takeSV (a : List Float) : Option (SpatialVec Float × List Float) := do
  let (w, r) ← takeV a
  let (v, r) ← takeV r
  pure (⟨w, v⟩, r)
def takeSI (a : List Float) : Option (SpatialInertia Float × List Float) :=
  match a with
  | m :: r => do
    let (p, r) ← takeV r
    let (g, r) ← takeS r
    pure (⟨m, p, g⟩, r)
  | _ => none
def takeX (a : List Float) : Option (Transform Float × List Float) := do
  let (R, r) ← takeM a
  let (p, r) ← takeV r
  pure (⟨R, p⟩, r)
def takeABI (a : List Float) : Option (ArticulatedInertia Float × List Float) := do
  let (M, r) ← takeS a
  let (J, r) ← takeS r
  let (F, r) ← takeM r
  pure (⟨M, J, F⟩, r)
def takeSM (a : List Float) : Option (SpatialMat Float × List Float) :=
  match a with
  | a0 :: a1 :: a2 :: b0 :: b1 :: b2 :: a3 :: a4 :: a5 :: b3 :: b4 :: b5 :: a6 :: a7 :: a8 :: b6 :: b7 :: b8 ::
    c0 :: c1 :: c2 :: d0 :: d1 :: d2 :: c3 :: c4 :: c5 :: d3 :: d4 :: d5 :: c6 :: c7 :: c8 :: d6 :: d7 :: d8 :: r =>
    some (⟨⟨a0, a1, a2, a3, a4, a5, a6, a7, a8⟩, ⟨b0, b1, b2, b3, b4, b5, b6, b7, b8⟩,
           ⟨c0, c1, c2, c3, c4, c5, c6, c7, c8⟩, ⟨d0, d1, d2, d3, d4, d5, d6, d7, d8⟩⟩, r)
  | _ => none

def handle (fn0 : String) (a : List Float) : Option (List Float) :=
  let fn := if fn0.endsWith "F" then (fn0.dropEnd 1).toString else fn0
  match fn with
  | "pointMass" => do let (p, r) ← takeV a; match r with | [m] => pure (s2l (Inertia.pointMassAt p m)) | _ => none
  | "shiftFrom" => do
    let (I, r) ← takeS a; let (p, r) ← takeV r
    match r with | [m] => pure (s2l (Inertia.shiftFromMassCenter I p m)) | _ => none
  | "shiftTo" => do
    let (I, r) ← takeS a; let (p, r) ← takeV r
    match r with | [m] => pure (s2l (Inertia.shiftToMassCenter I p m) ++ [I.trace]) | _ => none
  | "reexpressI" => do let (I, r) ← takeS a; let (R, _) ← takeM r; pure (s2l (Inertia.reexpress I R))
  | "reexpressIInv" => do let (I, r) ← takeS a; let (R, _) ← takeM r; pure (s2l (Inertia.reexpress I R.transpose))
  | "unitPointMass" => do let (p, _) ← takeV a; pure (s2l (UnitInertia.pointMassAt p))
  | "unitShiftFrom" => do let (G, r) ← takeS a; let (p, _) ← takeV r; pure (s2l (UnitInertia.shiftFromCentroid G p))
  | "unitShiftTo" => do let (G, r) ← takeS a; let (p, _) ← takeV r; pure (s2l (UnitInertia.shiftToCentroid G p) ++ [G.trace])
  | "sphere" => match a with | [r] => some (s2l (UnitInertia.sphere r)) | _ => none
  | "cylZ" => match a with | [r, h] => some (s2l (UnitInertia.cylinderAlongZ r h)) | _ => none
  | "cylY" => match a with | [r, h] => some (s2l (UnitInertia.cylinderAlongY r h)) | _ => none
  | "cylX" => match a with | [r, h] => some (s2l (UnitInertia.cylinderAlongX r h)) | _ => none
  | "brick" => match a with | [x, y, z] => some (s2l (UnitInertia.brick x y z)) | _ => none
  | "ellipsoid" => match a with | [x, y, z] => some (s2l (UnitInertia.ellipsoid x y z)) | _ => none
  | "isValid" => match a with
    | signif :: r => do let (S, _) ← takeS r; pure [if Inertia.isValidInertiaMatrix signif S then 1 else 0]
    | _ => none
  | "siMulVec" => do let (s, r) ← takeSI a; let (V, _) ← takeSV r; pure (sv2l (s.mulVec V))
  | "siShift" => do let (s, r) ← takeSI a; let (S, _) ← takeV r; pure (si2l (s.shift S))
  | "siReexpress" => do let (s, r) ← takeSI a; let (R, _) ← takeM r; pure (si2l (s.reexpress R))
  | "siTransform" => do let (s, r) ← takeSI a; let (X, _) ← takeX r; pure (si2l (s.transform X))
  | "siTransformInv" => do let (s, r) ← takeSI a; let (X, _) ← takeX r; pure (si2l (s.transform X.invert))
  | "siAdd" => do let (s, r) ← takeSI a; let (t, _) ← takeSI r; pure (si2l (s.add t))
  | "siDense" => do let (s, _) ← takeSI a; pure (sm2l s.toSpatialMat)
  | "abiOfSi" => do let (s, _) ← takeSI a; pure (abi2l (ArticulatedInertia.ofSpatialInertia s))
  | "abiMulVec" => do let (P, r) ← takeABI a; let (V, _) ← takeSV r; pure (sv2l (P.mulVec V))
  | "abiShift" => do let (P, r) ← takeABI a; let (s, _) ← takeV r; pure (abi2l (P.shift s))
  | "abiDense" => do let (P, _) ← takeABI a; pure (sm2l P.toSpatialMat)
  | "mpInertias" => do
    let (s, r) ← takeSI a; let (X, _) ← takeX r
    let mp : MassProperties Float := ⟨s.m, s.p, s.G⟩
    pure (s2l mp.calcInertia ++ s2l mp.calcCentralInertia ++ s2l (mp.calcShiftedInertia X.p) ++ s2l (mp.calcTransformedInertia X))
  | "mpShifted" => do
    let (s, r) ← takeSI a; let (S, _) ← takeV r
    let mp : MassProperties Float := ⟨s.m, s.p, s.G⟩
    pure (mp2l (mp.calcShiftedMassProps S))
  | "mpTransformed" => do
    let (s, r) ← takeSI a; let (X, _) ← takeX r
    let mp : MassProperties Float := ⟨s.m, s.p, s.G⟩
    pure (mp2l (mp.calcTransformedMassProps X))
  | "mpReexpress" => do
    let (s, r) ← takeSI a; let (R, _) ← takeM r
    let mp : MassProperties Float := ⟨s.m, s.p, s.G⟩
    pure (mp2l (mp.reexpress R))
  | "mpDense" => do
    let (s, _) ← takeSI a
    let mp : MassProperties Float := ⟨s.m, s.p, s.G⟩
    pure (sm2l mp.toSpatialMat)
  | "mpOfInertia" => match a with
    | m :: r => do let (c, r) ← takeV r; let (I, _) ← takeS r; pure (mp2l (MassProperties.ofInertia m c I))
    | _ => none
  | "shiftVel" => do let (V, r) ← takeSV a; let (x, _) ← takeV r; pure (sv2l (shiftVelocityBy V x))
  | "shiftForce" => do let (V, r) ← takeSV a; let (x, _) ← takeV r; pure (sv2l (shiftForceBy V x))
  | "shiftAcc" => do
    let (A, r) ← takeSV a; let (w, r) ← takeV r; let (x, _) ← takeV r
    pure (sv2l (shiftAccelerationBy A w x))
  | "shiftFromTo" => do
    let (V, r) ← takeSV a; let (w, r) ← takeV r; let (p, r) ← takeV r; let (q, _) ← takeV r
    pure (sv2l (shiftVelocityFromTo V p q) ++ sv2l (shiftForceFromTo V p q) ++ sv2l (shiftAccelerationFromTo V w p q))
  | "relVel" => do
    let (XA, r) ← takeX a; let (VA, r) ← takeSV r; let (XB, r) ← takeX r; let (VB, _) ← takeSV r
    pure (sv2l (findRelativeVelocity XA VA XB VB) ++ sv2l (findRelativeVelocityInF (XB.p.sub XA.p) VA VB))
  | "relAcc" => do
    let (XA, r) ← takeX a; let (VA, r) ← takeSV r; let (AA, r) ← takeSV r
    let (XB, r) ← takeX r; let (VB, r) ← takeSV r; let (AB, _) ← takeSV r
    pure (sv2l (findRelativeAcceleration XA VA AA XB VB AB) ++ sv2l (findRelativeAccelerationInF (XB.p.sub XA.p) VA AA VB AB))
  | "reverseRelVel" => do
    let (X, r) ← takeX a; let (V, _) ← takeSV r
    pure (sv2l (reverseRelativeVelocity X V) ++ sv2l (reverseRelativeVelocityInA X V))
  | "phiVec" => do
    let (l, r) ← takeV a; let (V, _) ← takeSV r
    pure (sv2l (phiMulVec l V) ++ sv2l (phiTMulVec l V))
  | "phiMat" => do
    let (l, r) ← takeV a; let (m, _) ← takeSM r
    pure (sm2l (phiMulMat l m) ++ sm2l (matMulPhi m l) ++ sm2l (phiTMulMat l m) ++ sm2l (matMulPhiT m l)
          ++ sm2l (phiMat l) ++ sm2l (phiTMat l))
  | _ => none

def main : IO Unit := runPure handle
