import SimbodyModel.Proto
import SimbodyModel.TreeDyn
import SimbodyModel.TreeDynIO
import SimbodyModel.C15
/-! Driver for C15: answers `I agg …` with the model's system aggregates and composite-body inertias. -/
open Proto TreeDyn C15

def readV3s (c : Cur) : Nat → List (V3 Float) × Cur
  | 0 => ([], c)
  | n + 1 =>
    let (h, c1) := c.v3
    let (t, c2) := readV3s c1 n
    (h :: t, c2)

def answer (toks : List String) : List String :=
  let (h, c) := parseHeader toks
  let nb := h.nb
  let (pos, c) := readV3s c nb
  let (vs, c) := c.svs nb
  let (as, _) := c.svs nb
  let posA := pos.toArray
  let vA := vs.toArray
  let aA := as.toArray
  -- bodies are exported in index order 1..nb
  let kin : List (BodyKin Float) := h.bodies.map (fun b =>
    ⟨b.Mk, posA.getD (b.idx - 1) V3.zero, vA.getD (b.idx - 1) SV.zero, aA.getD (b.idx - 1) SV.zero⟩)
  let roots := forest h.bodies
  let u0 : Array Float := #[]
  -- kinetic energy from the reported body velocities: Σ ½ V·(Mk V)
  let ke := kin.foldl (fun (acc : Float) b => acc + (b.V.dot (b.Mk.mulSV b.V)) / 2) 0
  let cbi := compositeInertias roots
  let cbiOut := h.bodies.foldr (fun (b : Body Float) (acc : List Float) =>
    match cbi.find? (fun x => x.1.idx == b.idx) with
    | some x => x.2.toList ++ acc
    | none => acc) []
  let _ := u0
  [ outLine "mass" [sysMass kin],
    outLine "com" (sysCom kin).toList,
    outLine "comV" (sysComVel kin).toList,
    outLine "comA" (sysComAcc kin).toList,
    outLine "inertiaO" (sysOriginInertia kin).toList,
    outLine "central" (sysCentralInertia kin).toList,
    outLine "momO" (sysMomentumOrigin kin).toList,
    outLine "momC" (sysCentralMomentum kin).toList,
    outLine "ke" [ke],
    outLine "cbi" cbiOut ]

def main : IO Unit := do
  let lines ← readStdinLines
  let out ← IO.getStdout
  for ln in lines do
    if ln.startsWith "I " then
      out.putStrLn ln.trimAscii.toString
      match tokens ln with
      | "I" :: "agg" :: rest => for o in answer rest do out.putStrLn o
      | _ => out.putStrLn "O ERR"
