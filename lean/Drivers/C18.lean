import SimbodyModel.Proto
import SimbodyModel.C18
/-!
Driver for C18 (`flow='driver_first'`):  `drv_C18 gen <seed> <n> [full]`
generates `n` random *legal* operation sequences (legality decided by `C18.legal`) over 1..4 State objects
with 1..4 subsystems, as `I …` lines, each followed by the model's expected result token and canonical
observation of every State object (`O …` lines).  The C++ harness replays the `I` lines on real
`SimTK::State`s and prints the same lines; comparison is exact.

Observation lines: `O res <token>` then one `O S<k> …` per State object; objects not named by the operation
are printed as an FNV-1a digest `h<16 hex>` of their full observation unless mode `full` is given.
-/
open Proto C18

/-! ### canonical observation -/

def keyStr (k : Key) : String := s!"{k.1}.{k.2}"
def keysStr (l : List Key) : String := if l.isEmpty then "-" else "+".intercalate (l.map keyStr)
def natsStr (l : List Nat) : String := if l.isEmpty then "-" else ",".intercalate (l.map toString)
def intsStr (l : List Int) : String := if l.isEmpty then "-" else ",".intercalate (l.map toString)
def optT (t : Option Int) : String := match t with | some v => toString v | none => "nan"
def b01 (b : Bool) : String := if b then "1" else "0"

def obsDV (v : DV) : String :=
  s!"a{v.alloc}i{v.inval}v{v.value}n{v.valVer}t{optT v.tLast}u{match v.auto with | some c => toString c | none => "-"}d{keysStr v.deps}"

def obsCE (sb : Sub) (e : CE) : String :=
  s!"a{e.alloc}d{e.dep}c{e.comp}r{b01 (e.upToDate sb)}v{e.value}n{e.valVer}s{e.stamp}p{b01 e.preQ}{b01 e.preU}{b01 e.preZ}d{keysStr e.deps}"

def trigCounts (sb : Sub) : List Nat :=
  (List.range 10).map (fun g => ((sb.trig.filter (fun t => t.stage == g)).map Tr.n).sum)

def obsSub (st : St) (s : Nat) (sb : Sub) : String :=
  let base := s!"| {sb.cur} v={natsStr sb.vers}"
  let m := if st.sys ≥ 2 then s!" n={sb.nq}@{st.qStart s},{sb.nu}@{st.uStart s},{sb.nz}@{st.zStart s}" else ""
  let i := if st.sys ≥ 3 then
      s!" e={(sb.qerrInfo.map Al.n).sum},{(sb.uerrInfo.map Al.n).sum},{(sb.udoterrInfo.map Al.n).sum} tr={natsStr (trigCounts sb)}"
    else ""
  let d := " D " ++ (if sb.dvs.isEmpty then "-" else ";".intercalate (sb.dvs.map obsDV))
  let c := " C " ++ (if sb.ces.isEmpty then "-" else ";".intercalate (sb.ces.map (obsCE sb)))
  base ++ m ++ i ++ d ++ c

def obsSt (st : St) : String :=
  let head := s!"sys={st.sys} sv={natsStr (st.sysVers.take (st.sys + 1))} topo={st.sysVers.getD 1 0} ver={st.qVer},{st.uVer},{st.zVer} qd={keysStr st.qDeps} ud={keysStr st.uDeps} zd={keysStr st.zDeps}"
  let t := if st.sys ≥ 1 then s!" t={optT st.t}" else " t=-"
  let y := if st.sys ≥ 2 then s!" y={intsStr st.q}/{intsStr st.u}/{intsStr st.z}" else ""
  let i := if st.sys ≥ 3 then
      let tot (f : Sub → Nat) := (st.subs.map f).sum
      s!" ie={tot (fun sb => (sb.qerrInfo.map Al.n).sum)},{tot (fun sb => (sb.uerrInfo.map Al.n).sum)},{tot (fun sb => (sb.udoterrInfo.map Al.n).sum)},{tot (fun sb => (sb.trig.map Tr.n).sum)}"
    else ""
  let subs := (mapI (fun s sb => " " ++ obsSub st s sb) st.subs)
  head ++ t ++ y ++ i ++ s!" ns={st.subs.length}" ++ String.join subs

def obsSlot (o : Option St) : String := match o with | some st => obsSt st | none => "dead"

def fnv1a (s : String) : UInt64 :=
  s.toUTF8.foldl (fun h b => (h ^^^ b.toUInt64) * 0x100000001b3) 0xcbf29ce484222325

def digest (s : String) : String := "h" ++ natToHex (fnv1a s).toNat 16

/-! ### textual form of operations (parsed by the harness) -/

def wStr (w : Option (Nat × Int)) : String := match w with | some (i, v) => s!"{i} {v}" | none => "-1 0"
def keyList (l : List Key) : String := s!"{l.length}" ++ String.join (l.map (fun k => s!" {k.1} {k.2}"))
def intList (l : List Int) : String := s!"{l.length}" ++ String.join (l.map (fun v => s!" {v}"))

def sopStr : SOp → String
  | .advSub s g => s!"advSub {s} {g}"
  | .advSys g => s!"advSys {g}"
  | .invalAll g => s!"invalAll {g}"
  | .invalCache g => s!"invalCache {g}"
  | .allocQ s v => s!"allocQ {s} {intList v}"
  | .allocU s v => s!"allocU {s} {intList v}"
  | .allocZ s v => s!"allocZ {s} {intList v}"
  | .allocQErr s n => s!"allocQErr {s} {n}"
  | .allocUErr s n => s!"allocUErr {s} {n}"
  | .allocUDotErr s n => s!"allocUDotErr {s} {n}"
  | .allocTrig s g n => s!"allocTrig {s} {g} {n}"
  | .allocDV s i v => s!"allocDV {s} {i} {v}"
  | .allocAutoDV s i v ud => s!"allocAutoDV {s} {i} {v} {ud}"
  | .allocCE s d c v => s!"allocCE {s} {d} {c} {v}"
  | .allocCEpre s d c q u z dvs ces v => s!"allocCEpre {s} {d} {c} {b01 q} {b01 u} {b01 z} {keyList dvs} {keyList ces} {v}"
  | .mark s c => s!"mark {s} {c}"
  | .unmark s c => s!"unmark {s} {c}"
  | .markDVUpd s d => s!"markDVUpd {s} {d}"
  | .setCE s c v => s!"setCE {s} {c} {v}"
  | .getCE s c => s!"getCE {s} {c}"
  | .setDV s d v => s!"setDV {s} {d} {v}"
  | .updQ w => s!"updQ {wStr w}"
  | .updU w => s!"updU {wStr w}"
  | .updZ w => s!"updZ {wStr w}"
  | .updQsub s w => s!"updQsub {s} {wStr w}"
  | .updUsub s w => s!"updUsub {s} {wStr w}"
  | .updZsub s w => s!"updZsub {s} {wStr w}"
  | .updY => "updY"
  | .setTime v => s!"setTime {v}"
  | .updUW => "updUW" | .updZW => "updZW"
  | .updUWsub s => s!"updUWsub {s}" | .updZWsub s => s!"updZWsub {s}"
  | .updQErrW => "updQErrW" | .updUErrW => "updUErrW"
  | .updQErrWsub s => s!"updQErrWsub {s}" | .updUErrWsub s => s!"updUErrWsub {s}"
  | .autoUpdate => "autoUpdate"
  | .setTopoVer v => s!"setTopoVer {v}"

def opStr : Op → String
  | .on k o => s!"on {k} {sopStr o}"
  | .copyNew k => s!"copyNew {k}"
  | .copyAssign s d => s!"copyAssign {s} {d}"
  | .moveNew k => s!"moveNew {k}"
  | .moveAssign s d => s!"moveAssign {s} {d}"
  | .clear k => s!"clear {k}"
  | .setNumSubs k n => s!"setNumSubs {k} {n}"
  | .addSub k => s!"addSub {k}"
  | .snap k => s!"snap {k}"
  | .diff k => s!"diff {k}"
  | .probeStale k s c => s!"probeStale {k} {s} {c}"

def resStr : Res → String
  | .ok => "ok" | .idx n => s!"idx:{n}" | .val v => s!"val:{v}" | .exc c => s!"EXC:{c}"

/-- State objects named by the operation (printed in full) -/
def touched (w : World) : Op → List Nat
  | .on k _ | .clear k | .setNumSubs k _ | .addSub k | .snap k | .diff k | .probeStale k _ _ => [k]
  | .copyNew k | .moveNew k => [k, w.sts.length]
  | .copyAssign s d | .moveAssign s d => [s, d]

def obsLines (w : World) (tch : List Nat) (full : Bool) : List String :=
  mapI (fun k o =>
    let s := obsSlot o
    s!"O S{k} " ++ (if full || tch.contains k then s else digest s)) w.sts

/-! ### generator -/

structure Gen where
  g : SplitMix
  goal : Nat := 0

def Gen.below (x : Gen) (n : Nat) : Nat × Gen := let (v, g') := x.g.below n; (v, { x with g := g' })

def pickLive (x : Gen) (w : World) : Option (Nat × St) × Gen :=
  let lives := (mapI (fun k o => (k, o)) w.sts).filterMap (fun (k, o) => o.map (fun st => (k, st)))
  if lives.isEmpty then (none, x) else
  let (i, x) := x.below lives.length
  (lives[i]?, x)

def randVals (x : Gen) : List Int × Gen :=
  let (n, x) := x.below 3
  let (a, x) := x.below 7
  let (b, x) := x.below 7
  ((([Int.ofNat a - 3, Int.ofNat b - 3, 2] : List Int).take (n + (if a == 0 then 0 else 1))).take 3, x)

def randKeys (x : Gen) (cands : List Key) (maxn : Nat) : List Key × Gen :=
  if cands.isEmpty then ([], x) else
  let (n, x) := x.below (maxn + 1)
  let rec go (i : Nat) (x : Gen) (acc : List Key) : List Key × Gen :=
    match i with
    | 0 => (acc, x)
    | i + 1 =>
      let (j, x) := x.below cands.length
      let k := cands.getD j (0, 0)
      go i x (if acc.contains k then acc else acc ++ [k])
  go n x []

/-- a progress operation towards realizing the next stage -/
def progressOp (x : Gen) (st : St) : Option SOp × Gen :=
  if st.subs.isEmpty then (none, x) else
  let nxt := st.sys + 1
  if nxt > 9 then (none, x) else
  let lag := (mapI (fun s (sb : Sub) => (s, sb)) st.subs).filter (fun (_, sb) => sb.cur < nxt)
  let (ah, x) := x.below 8
  let (as, x) := x.below st.subs.length
  -- now and then a subsystem runs ahead of the system by more than one stage
  if ah == 0 && (st.subs.getD as {}).cur < 9 then (some (.advSub as ((st.subs.getD as {}).cur + 1)), x) else
  if lag.isEmpty then (some (.advSys nxt), x) else
  let (i, x) := x.below lag.length
  match lag[i]? with
  | some (s, sb) => (some (.advSub s (sb.cur + 1)), x)
  | none => (none, x)

def propose (x : Gen) (w : World) : Op × Gen :=
  let (pk, x) := pickLive x w
  match pk with
  | none => (.clear 0, x)
  | some (k_, st) =>
  let k := k_
  let ns := st.subs.length
  if ns == 0 then
    let (n, x) := x.below 8
    let (c, x) := x.below 3
    (if c == 0 then .addSub k else .setNumSubs k (n + 1), x)
  else
  let (r0, x) := x.below 100
  let (s0, x) := x.below ns
  -- allocation phase: while little has been allocated and some subsystem can still allocate, mostly allocate
  let low := (mapI (fun i (sb : Sub) => (i, sb)) st.subs).filter (fun (_, sb) => sb.cur < 2)
  let (li, x) := x.below (max 1 low.length)
  let (ph, x) := x.below 100
  let allocPhase := !low.isEmpty && st.numCE < 2 * ns + 2 && ph < 55
  let s := if allocPhase then (low.getD li (0, default)).1 else s0
  let r := if allocPhase then 22 + r0 % 29 else r0
  let sb := st.subs.getD s {}
  -- allocation attempts at a stage where they throw are kept, but rare
  let r := if !allocPhase && 22 ≤ r && r < 51 && sb.cur ≥ 2 && ph ≥ 8 then (if ph < 60 then 55 else 75) else r
  let wantProgress := x.goal > st.sys
  if (wantProgress && r < 80 && !allocPhase) || r < 18 then
    let (o, x) := progressOp x st
    match o with
    | some o => (.on k o, x)
    | none => (.on k (.invalAll 4), x)
  else if r < 22 then       -- start a realization burst
    let (g, x) := x.below 9
    let (o, x) := progressOp { x with goal := g + 1 } st
    (match o with | some o => .on k o | none => .on k .autoUpdate, x)
  else if r < 30 then       -- plain cache entry (sometimes with bad stages -> exception)
    let (d, x) := x.below 11
    let (c, x) := x.below 4
    let (e, x) := x.below 6
    let (v, x) := x.below 50
    let dep := if e == 0 then d else 1 + d % 9
    let comp := if c == 0 then dep else if c == 1 then 10 else if c == 2 then min 10 (dep + e) else (if e == 1 then dep - 1 else min 10 (dep + 1))
    (.on k (.allocCE s dep comp v), x)
  else if r < 38 then       -- cache entry with prerequisites
    let (d, x) := x.below 9
    let (c, x) := x.below 3
    let (q, x) := x.below 3
    let (u, x) := x.below 4
    let (z, x) := x.below 4
    let (v, x) := x.below 50
    let dep := 1 + d
    let comp := if c == 0 then 10 else if c == 1 then min 10 (dep + 2) else dep
    let (dks, x) := randKeys x st.allDVKeys 2
    let (cks, x) := randKeys x (st.allCEs.map (·.1)) 2
    (.on k (.allocCEpre s dep comp (q == 0) (u == 0) (z == 0) dks cks v), x)
  else if r < 44 then       -- discrete variables
    let (i, x) := x.below 11
    let (a, x) := x.below 3
    let (v, x) := x.below 50
    let (ud, x) := x.below 9
    (if a == 0 then .on k (.allocAutoDV s i v (ud + 1)) else .on k (.allocDV s i v), x)
  else if r < 48 then
    let (c, x) := x.below 3
    let (vals, x) := randVals x
    (.on k (if c == 0 then .allocQ s vals else if c == 1 then .allocU s vals else .allocZ s vals), x)
  else if r < 51 then
    let (c, x) := x.below 4
    let (n, x) := x.below 3
    let (g, x) := x.below 7
    (.on k (if c == 0 then .allocQErr s (n + 1) else if c == 1 then .allocUErr s (n + 1)
            else if c == 2 then .allocUDotErr s (n + 1) else .allocTrig s (3 + g) (n + 1)), x)
  else if r < 62 then       -- mark / unmark / markDVUpd  (chosen among entries for which the call is legal)
    let allc := st.allCEs
    let markable := allc.filter (fun (k, e) => (st.subs.getD k.1 {}).cur + 1 ≥ e.dep)
    let useful := markable.filter (fun (k, e) => !st.isRealized k && (st.subs.getD k.1 {}).cur ≥ e.dep)
    let autos := st.allDVKeys.filter (fun k => match st.dv? k with | some d => d.auto.isSome | none => false)
    let (a, x) := x.below 8
    if a == 0 && !allc.isEmpty then
      let (i, x) := x.below allc.length
      let k := (allc.getD i ((0, 0), default)).1
      (.on k_ (.unmark k.1 k.2), x)
    else if a == 1 && !autos.isEmpty then
      let (i, x) := x.below autos.length
      let k := autos.getD i (0, 0)
      (.on k_ (.markDVUpd k.1 k.2), x)
    else
      let pool := if a < 6 && !useful.isEmpty then useful else markable
      if pool.isEmpty then (.on k_ (.allocCE s 4 10 7), x) else
      let (i, x) := x.below pool.length
      let k := (pool.getD i ((0, 0), default)).1
      (.on k_ (.mark k.1 k.2), x)
  else if r < 66 then
    let allc := st.allCEs
    if allc.isEmpty then (.on k_ (.allocCE s 5 5 9), x) else
    let (i, x) := x.below allc.length
    let k := (allc.getD i ((0, 0), default)).1
    let (a, x) := x.below 3
    let (v, x) := x.below 50
    (.on k_ (if a == 0 then .setCE k.1 k.2 (Int.ofNat v + 100) else .getCE k.1 k.2), x)
  else if r < 72 then
    let alld := st.allDVKeys
    if alld.isEmpty then (.on k_ (.allocDV s 6 3), x) else
    let (i, x) := x.below alld.length
    let k := alld.getD i (0, 0)
    let (v, x) := x.below 50
    (.on k_ (.setDV k.1 k.2 (Int.ofNat v + 200)), x)
  else if r < 82 then       -- continuous variables, time, weights
    let (a, x) := x.below 17
    let (i, x) := x.below 4
    let (v, x) := x.below 20
    let (wr, x) := x.below 3
    let wv : Option (Nat × Int) := if wr == 0 then none else some (i % (max 1 (max st.q.length (max st.u.length st.z.length))), Int.ofNat v - 10)
    let o : SOp := match a with
      | 0 => .updQ wv | 1 => .updU wv | 2 => .updZ wv
      | 3 => .updQsub s wv | 4 => .updUsub s wv | 5 => .updZsub s wv
      | 6 => .updY | 7 | 8 => .setTime (Int.ofNat v - 5)
      | 9 => .updUW | 10 => .updZW | 11 => .updUWsub s | 12 => .updZWsub s
      | 13 => .updQErrW | 14 => .updUErrW | 15 => .updQErrWsub s | _ => .updUErrWsub s
    (.on k o, x)
  else if r < 86 then
    let (g, x) := x.below 9
    let (lo, x) := x.below 5
    let (a, x) := x.below 2
    let g := if lo == 0 then g + 1 else 4 + g % 6       -- mostly run-time stages
    (.on k (if a == 0 then .invalAll g else .invalCache g), x)
  else if r < 89 then
    -- write / mark an update value first when there is an auto-update variable whose update entry can be marked
    let autos := st.allDVKeys.filterMap (fun dk => match st.dv? dk with
      | some d => (match d.auto with | some cx => some (dk, cx) | none => none) | none => none)
    let ready := autos.filter (fun (dk, cx) => st.isRealized (dk.1, cx))
    let (a, x) := x.below 3
    if ready.isEmpty && !autos.isEmpty && a != 0 then
      let (i, x) := x.below autos.length
      let (dk, cx) := autos.getD i ((0, 0), 0)
      let (v, x) := x.below 50
      (if a == 1 then .on k (.setCE dk.1 cx (Int.ofNat v + 300)) else .on k (.markDVUpd dk.1 dk.2), x)
    else (.on k .autoUpdate, x)
  else if r < 95 then       -- several State objects
    let (a, x) := x.below 7
    let (j, x) := x.below (max 1 w.sts.length)
    let (cl, x) := x.below 4
    (match a with
      | 0 | 1 => .copyNew k
      | 2 | 3 => .copyAssign k j
      | 4 => .moveNew k
      | 5 => .moveAssign k j
      | _ => if cl == 0 then .clear j else .copyAssign j k, x)
  else if r < 97 then
    let (a, x) := x.below 2
    (if a == 0 then .snap k else .diff k, x)
  else if r < 98 then
    let (v, x) := x.below 5
    (.on k (.setTopoVer (v + 1)), x)
  else
    let (c, x) := x.below (max 1 sb.ces.length)
    (.on k (.getCE s c), x)

/-- next legal operation (retry; falls back to an always-legal one) -/
def nextOp (x : Gen) (w : World) : Op × Gen :=
  let rec go (tries : Nat) (x : Gen) : Op × Gen :=
    match tries with
    | 0 => (.clear 0, x)
    | t + 1 =>
      let (op, x) := propose x w
      if legal w op then (op, x) else go t x
  go 40 x

def genSeq (out : IO.FS.Stream) (seed : Nat) (idx : Nat) (len : Nat) (full : Bool) : IO Unit := do
  let mut x : Gen := { g := ⟨UInt64.ofNat (seed * 1000003 + idx * 7919 + 17)⟩ }
  let (ns0, x1) := x.below 4
  let (big, x1) := x1.below 5                 -- one sequence in five: 5–8 subsystems (PerSubsystemInfo array regrows)
  let ns := if big == 0 then ns0 + 4 else ns0
  let (gl, x1) := x1.below 14
  x := { x1 with goal := if gl < 9 then gl + 1 else 0 }
  let mut w : World := { sts := [some { subs := List.replicate (ns + 1) {} }] }
  out.putStrLn (s!"I reset {ns + 1}" ++ (if full then " full" else ""))
  out.putStrLn "O res ok"
  for l in obsLines w [0] full do out.putStrLn l
  for _ in [0:len] do
    let (op, x2) := nextOp x w
    x := x2
    let r := res w op
    let tch := touched w op
    w := step w op
    -- once the goal of a realization burst is reached forget it
    match w.live (tch.getD 0 0) with
    | some st => if st.sys ≥ x.goal then x := { x with goal := 0 }
    | none => pure ()
    out.putStrLn ("I " ++ opStr op)
    out.putStrLn ("O res " ++ resStr r)
    for l in obsLines w tch full do out.putStrLn l

/-- The copy scenario behind finding `copy.stale_stamp.cache_valid`: a lazy cache entry (depends-on stage `dep`)
is computed and marked `j+1` times in the source with the stage invalidated in between, the source is left
just below `dep`, copied, and the copy is realized to `dep` and invalidated `m` times.  The entry is never
marked in the copy, so it must not read valid there. -/
def probeOps (dep j m : Nat) : List Op :=
  let adv (k : Nat) (from_ to : Nat) : List Op :=
    (List.range (to - from_)).flatMap (fun i => [.on k (.advSub 0 (from_ + i + 1)), .on k (.advSys (from_ + i + 1))])
  let cyc (k : Nat) : List Op := [.on k (.invalAll dep)] ++ adv k (dep - 1) dep
  [.on 0 (.allocCE 0 dep 10 5)] ++ adv 0 0 dep ++
  (List.range j).flatMap (fun _ => [.on 0 (.mark 0 0)] ++ cyc 0) ++
  [.on 0 (.mark 0 0), .on 0 (.invalAll dep), .copyNew 0] ++ adv 1 (min (dep - 1) 3) dep ++
  (List.range m).flatMap (fun _ => cyc 1) ++ [.probeStale 1 0 0]

def runOps (out : IO.FS.Stream) (ops : List Op) (full : Bool) : IO Bool := do
  let mut w : World := { sts := [some { subs := List.replicate 1 {} }] }
  out.putStrLn ("I reset 1" ++ (if full then " full" else ""))
  out.putStrLn "O res ok"
  for l in obsLines w [0] full do out.putStrLn l
  for op in ops do
    if !legal w op then
      IO.eprintln s!"drv_C18: probe operation not legal: {opStr op}"
      return false
    let r := res w op
    let tch := touched w op
    w := step w op
    out.putStrLn ("I " ++ opStr op)
    out.putStrLn ("O res " ++ resStr r)
    for l in obsLines w tch full do out.putStrLn l
  return true

def main (args : List String) : IO UInt32 := do
  let out ← IO.getStdout
  match args with
  | "gen" :: seedS :: nS :: rest =>
    let seed := seedS.toNat!
    let n := nS.toNat!
    let full := rest.contains "full"
    -- the copy scenarios first (a few parameter choices derived from the seed)
    let mut g : SplitMix := ⟨UInt64.ofNat (seed * 77 + 5)⟩
    for i in [0:6] do
      let (d, g1) := g.below 8
      let (j, g2) := g1.below 3
      let (mm, g3) := g2.below 4
      g := g3
      let dep := if i == 0 then 5 else 2 + d
      let jj := if i == 0 then 0 else j
      let m := if i < 4 then jj else mm
      let ok ← runOps out (probeOps dep jj m) full
      if !ok then return 3
    -- directed histories behind the findings about early marks and un-notified prerequisites
    let adv (from_ to : Nat) : List Op :=
      (List.range (to - from_)).flatMap (fun i => [.on 0 (.advSub 0 (from_ + i + 1)), .on 0 (.advSys (from_ + i + 1))])
    let early : List Op := [.on 0 (.allocCE 0 5 10 3)] ++ adv 0 4 ++ [.on 0 (.mark 0 0), .on 0 (.updQ none)] ++ adv 4 5
    let swap : List Op := [.on 0 (.allocAutoDV 0 7 1 4), .on 0 (.allocCEpre 0 4 10 false false false [(0, 0)] [] 10)] ++ adv 0 4 ++
      [.on 0 (.setCE 0 0 2), .on 0 (.markDVUpd 0 0), .on 0 (.mark 0 1), .on 0 .autoUpdate]
    let upstream : List Op := [.on 0 (.allocCE 0 4 10 5), .on 0 (.allocCEpre 0 4 10 false false false [] [(0, 0)] 50)] ++ adv 0 4 ++
      [.on 0 (.mark 0 0), .on 0 (.mark 0 1), .on 0 (.setCE 0 0 7)]
    for ops in [early, swap, upstream] do
      let ok ← runOps out ops full
      if !ok then return 3
    for i in [0:n] do
      genSeq out seed i 70 full
    return 0
  | _ =>
    IO.eprintln "usage: drv_C18 gen <seed> <n> [full]"
    return 2
