import SimbodyModel.Proto
import SimbodyModel.C27
/-! Driver for C27: answers every `I <fn> <hex>…` record of harness/C27.cpp with the model's result
(`SimbodyModel/Spatial.lean` instantiated at `Float`; `sqrt`, `atan2`, `cos`, `sin` are libm's).
A trailing `F` in the function name marks the single-precision instantiation of the C++ template: the same
model is evaluated in double on the (float-representable) inputs, with the float values of the `Eps`-dependent
thresholds; the harness widens the tolerance for those records. -/
open Proto Spatial

def ax (x : Float) : Axis := Axis.ofIdx x.toUInt64.toNat
def flag (x : Float) : Bool := x != 0
def trig (a : Float) : Trig Float := ⟨Float.cos a, Float.sin a⟩
def m2l (m : Mat33 Float) : List Float := [m.m00, m.m01, m.m02, m.m10, m.m11, m.m12, m.m20, m.m21, m.m22]
def v2l (v : Vec3 Float) : List Float := [v.x, v.y, v.z]
def q2l (q : Quaternion Float) : List Float := [q.w, q.x, q.y, q.z]
def s2l (s : SymMat33 Float) : List Float := [s.xx, s.yy, s.zz, s.xy, s.xz, s.yz]
def x2l (x : Transform Float) : List Float := m2l x.R ++ v2l x.p

def epsD : Float := 2.220446049250313e-16
def epsF : Float := 1.1920928955078125e-07
def piD : Float := 3.141592653589793
/-- `NTraits<float>::getPi()` as a double -/
def piF : Float := 3.1415927410125732

def handle (fn0 : String) (a : List Float) : Option (List Float) :=
  let isF := fn0.endsWith "F"
  let fn := if isF then (fn0.dropEnd 1).toString else fn0
  let sqrt := Float.sqrt
  let atan2 := Float.atan2
  -- Rotation.cpp uses the *double* constants `Eps`, `SqrtEps` in both instantiations
  let eps4 := 4 * epsD
  let sqrtEps := Float.sqrt epsD
  -- Quaternion.cpp uses NTraits<P>
  let epsSq := if isF then epsF * epsF else epsD * epsD
  let pi := if isF then piF else piD
  match fn, a with
  | "aboutAxis", [x, t] => some (m2l (Rotation.aboutAxis (trig t) (ax x)))
  | "two", [sp, x1, x2, t1, t2] => some (m2l (Rotation.fromTwoAngles (flag sp) (trig t1) (ax x1) (trig t2) (ax x2)))
  | "three", [sp, x1, x2, x3, t1, t2, t3] =>
    some (m2l (Rotation.fromThreeAngles (flag sp) (trig t1) (ax x1) (trig t2) (ax x2) (trig t3) (ax x3)))
  | "xyzcs", [c0, c1, c2, s0, s1, s2] => some (m2l (Rotation.bodyFixedXYZ ⟨c0, s0⟩ ⟨c1, s1⟩ ⟨c2, s2⟩))
  | "fromQuat", [w, x, y, z] => some (m2l (Rotation.fromQuaternion ⟨w, x, y, z⟩))
  | "quatNormalize", [w, x, y, z] => some (q2l (Quaternion.normalize sqrt ⟨w, x, y, z⟩))
  | "quatMul", [w, x, y, z, w2, x2, y2, z2] => some (q2l (Quaternion.multiply sqrt ⟨w, x, y, z⟩ ⟨w2, x2, y2, z2⟩))
  | "toQuat", [r0, r1, r2, r3, r4, r5, r6, r7, r8] =>
    some (q2l (Rotation.toQuaternion sqrt ⟨r0, r1, r2, r3, r4, r5, r6, r7, r8⟩))
  | "approx", [r0, r1, r2, r3, r4, r5, r6, r7, r8] =>
    some (m2l (Rotation.fromApproximateMat33 sqrt ⟨r0, r1, r2, r3, r4, r5, r6, r7, r8⟩))
  | "angleAxis", [t, x, y, z] => some (m2l (Rotation.fromAngleAboutNonUnitVector sqrt (trig (t / 2)) ⟨x, y, z⟩))
  | "toAngleAxis", [r0, r1, r2, r3, r4, r5, r6, r7, r8] =>
    some (q2l (Rotation.toAngleAxis sqrt atan2 pi epsSq ⟨r0, r1, r2, r3, r4, r5, r6, r7, r8⟩))
  | "quatFromAngleAxis", [t, x, y, z] =>
    some (q2l (Quaternion.fromAngleAxis (trig (t / 2)) (Vec3.normalize sqrt ⟨x, y, z⟩)))
  | "quatToAngleAxis", [w, x, y, z] => some (q2l (Quaternion.toAngleAxis sqrt atan2 pi epsSq ⟨w, x, y, z⟩))
  | "toOne", [x, r0, r1, r2, r3, r4, r5, r6, r7, r8] =>
    some [Rotation.toOneAngle atan2 ⟨r0, r1, r2, r3, r4, r5, r6, r7, r8⟩ (ax x)]
  | "toTwo", [sp, x1, x2, r0, r1, r2, r3, r4, r5, r6, r7, r8] =>
    let r := Rotation.toTwoAngles sqrt atan2 (flag sp) ⟨r0, r1, r2, r3, r4, r5, r6, r7, r8⟩ (ax x1) (ax x2)
    some [r.1, r.2]
  | "toThree", [sp, x1, x2, x3, r0, r1, r2, r3, r4, r5, r6, r7, r8] =>
    let r := Rotation.toThreeAngles sqrt atan2 eps4 3 (flag sp) ⟨r0, r1, r2, r3, r4, r5, r6, r7, r8⟩ (ax x1) (ax x2) (ax x3)
    some [r.1, r.2.1, r.2.2]
  | "unitVec", [x, y, z] => some (v2l (Vec3.normalize sqrt ⟨x, y, z⟩))
  | "perp", [x, y, z] => some (v2l (Vec3.perp sqrt (Vec3.normalize sqrt ⟨x, y, z⟩)))
  | "oneAxis", [x, y, z, xi] => some (m2l (Rotation.fromOneAxis sqrt (Vec3.normalize sqrt ⟨x, y, z⟩) (ax xi)))
  | "twoAxes", [x, y, z, xi, vx, vy, vz, xj] =>
    let vj : Vec3 Float := ⟨vx, vy, vz⟩
    some (m2l (Rotation.fromTwoAxes sqrt sqrtEps (Vec3.normalize sqrt ⟨x, y, z⟩) (ax xi) vj (ax xj) (vj.normSq == 0)))
  | "reexpress", [r0, r1, r2, r3, r4, r5, r6, r7, r8, sxx, syy, szz, sxy, sxz, syz] =>
    some (s2l (Rotation.reexpressSymMat33 ⟨r0, r1, r2, r3, r4, r5, r6, r7, r8⟩ ⟨sxx, syy, szz, sxy, sxz, syz⟩))
  | "reexpressInv", [r0, r1, r2, r3, r4, r5, r6, r7, r8, sxx, syy, szz, sxy, sxz, syz] =>
    some (s2l (Rotation.reexpressSymMat33 (Mat33.transpose ⟨r0, r1, r2, r3, r4, r5, r6, r7, r8⟩) ⟨sxx, syy, szz, sxy, sxz, syz⟩))
  | "rotMul", [r0, r1, r2, r3, r4, r5, r6, r7, r8, t0, t1, t2, t3, t4, t5, t6, t7, t8] =>
    some (m2l (Mat33.mul ⟨r0, r1, r2, r3, r4, r5, r6, r7, r8⟩ ⟨t0, t1, t2, t3, t4, t5, t6, t7, t8⟩))
  | "rotTMul", [r0, r1, r2, r3, r4, r5, r6, r7, r8, t0, t1, t2, t3, t4, t5, t6, t7, t8] =>
    some (m2l (Mat33.mul (Mat33.transpose ⟨r0, r1, r2, r3, r4, r5, r6, r7, r8⟩) ⟨t0, t1, t2, t3, t4, t5, t6, t7, t8⟩))
  | "rotDiv", [r0, r1, r2, r3, r4, r5, r6, r7, r8, t0, t1, t2, t3, t4, t5, t6, t7, t8] =>
    some (m2l (Mat33.mul ⟨r0, r1, r2, r3, r4, r5, r6, r7, r8⟩ (Mat33.transpose ⟨t0, t1, t2, t3, t4, t5, t6, t7, t8⟩)))
  | "rotVec", [r0, r1, r2, r3, r4, r5, r6, r7, r8, x, y, z] =>
    let R : Mat33 Float := ⟨r0, r1, r2, r3, r4, r5, r6, r7, r8⟩
    some (v2l (R.mulVec ⟨x, y, z⟩) ++ v2l (R.tmulVec ⟨x, y, z⟩))
  | "xfCompose", [r0, r1, r2, r3, r4, r5, r6, r7, r8, p0, p1, p2, t0, t1, t2, t3, t4, t5, t6, t7, t8, u0, u1, u2] =>
    let X : Transform Float := ⟨⟨r0, r1, r2, r3, r4, r5, r6, r7, r8⟩, ⟨p0, p1, p2⟩⟩
    let Y : Transform Float := ⟨⟨t0, t1, t2, t3, t4, t5, t6, t7, t8⟩, ⟨u0, u1, u2⟩⟩
    some (x2l (X.compose Y) ++ x2l (X.invCompose Y) ++ x2l (X.composeInv Y) ++ x2l (X.invCompose Y.invert))
  | "xfInvert", [r0, r1, r2, r3, r4, r5, r6, r7, r8, p0, p1, p2] =>
    let X : Transform Float := ⟨⟨r0, r1, r2, r3, r4, r5, r6, r7, r8⟩, ⟨p0, p1, p2⟩⟩
    some (x2l X.invert ++ v2l X.pInv)
  | "xfShift", [r0, r1, r2, r3, r4, r5, r6, r7, r8, p0, p1, p2, x, y, z] =>
    let X : Transform Float := ⟨⟨r0, r1, r2, r3, r4, r5, r6, r7, r8⟩, ⟨p0, p1, p2⟩⟩
    let s : Vec3 Float := ⟨x, y, z⟩
    some (v2l (X.shiftFrameStationToBase s) ++ v2l (X.shiftBaseStationToFrame s) ++ v2l (X.invShiftFrameStationToBase s)
          ++ v2l (X.invShiftBaseStationToFrame s) ++ v2l (X.xformFrameVecToBase s) ++ v2l (X.xformBaseVecToFrame s))
  | _, _ => none

def main : IO Unit := runPure handle
