import SimbodyModel.Proto
import SimbodyModel.C21
/-! Driver for C21: `I st …` records (one per state an integrator returned) are answered by the acceptance contract of
`SimbodyModel/C21.lean` evaluated in exact rational arithmetic (doubles read bit-exactly; tolerance widened by the same
1e-9 relative slack the harness uses).  `I sess …` is a bookkeeping record. -/
open Proto C21

partial def takePairs : Nat → List String → List Rat × List String
  | 0, rest => ([], rest)
  | n + 1, e :: w :: rest =>
    let (l, r) := takePairs n rest
    (floatToRat (hexToFloat e) * floatToRat (hexToFloat w) :: l, r)
  | _, rest => ([], rest)

partial def takeOnes : Nat → List String → List Rat × List String
  | 0, rest => ([], rest)
  | n + 1, e :: rest =>
    let (l, r) := takeOnes n rest
    (floatToRat (hexToFloat e) :: l, r)
  | _, rest => ([], rest)

def stRecord (toks : List String) : String :=
  match toks with
  | tol :: inf :: must :: mh :: rest =>
    let tolF := hexToFloat tol
    let allFinite := (rest.filter (fun t => t.length == 16)).all (fun t => (hexToFloat t).isFinite)
    let tol := floatToRat tolF * (1 + mkRat 1 1000000000)
    let (p, rest) := takePairs mh.toNat! rest
    match rest with
    | nq :: rest =>
      let (q, rest) := takeOnes nq.toNat! rest
      match rest with
      | mu :: rest =>
        let (u, _) := takePairs mu.toNat! rest
        if must == "0" then "O st 1"
        else if !allFinite then "O st 0"
        else if acceptState (inf == "1") tol p (mkRat p.length 1) q (mkRat q.length 1) u (mkRat u.length 1) then "O st 1" else "O st 0"
      | _ => "O st PARSE"
    | _ => "O st PARSE"
  | _ => "O st PARSE"

def main : IO Unit := do
  let lines ← readStdinLines
  let out ← IO.getStdout
  for ln in lines do
    match tokens ln with
    | "I" :: "st" :: rest => out.putStrLn ln.trimAscii.toString; out.putStrLn (stRecord rest)
    | "I" :: "sess" :: _ => out.putStrLn ln.trimAscii.toString; out.putStrLn "O sess 1"
    | _ => pure ()
