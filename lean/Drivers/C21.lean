import SimbodyModel.Proto
import SimbodyModel.C21
/-! Driver for C21: `I st …` records (one per state an integrator returned) are answered by the acceptance contract of
`SimbodyModel/C21.lean` evaluated in exact rational arithmetic (doubles read bit-exactly; tolerance widened by the same
1e-9 relative slack the harness uses).  `I sess …` is a bookkeeping record. -/
open Proto C21

partial def takePairs : Nat → List String → List Rat × List String
  | 0, rest => ([], rest)
  | n + 1, e :: w :: rest =>
    let (l, r) := takePairs n rest
    (floatToRat (hexToFloat e) * floatToRat (hexToFloat w) :: l, r)
  | _, rest => ([], rest)

partial def takeOnes : Nat → List String → List Rat × List String
  | 0, rest => ([], rest)
  | n + 1, e :: rest =>
    let (l, r) := takeOnes n rest
    (floatToRat (hexToFloat e) :: l, r)
  | _, rest => ([], rest)

def stRecord (toks : List String) : String :=
  match toks with
  | tol :: inf :: must :: mh :: rest =>
    let tolF := hexToFloat tol
    let allFinite := (rest.filter (fun t => t.length == 16)).all (fun t => (hexToFloat t).isFinite)
    let tol := floatToRat tolF * (1 + mkRat 1 1000000000)
    let (p, rest) := takePairs mh.toNat! rest
    match rest with
    | nq :: rest =>
      let (q, rest) := takeOnes nq.toNat! rest
      match rest with
      | mu :: rest =>
        let (u, _) := takePairs mu.toNat! rest
        if must == "0" then "O st 1"
        else if !allFinite then "O st 0"
        else if acceptState (inf == "1") tol p (mkRat p.length 1) q (mkRat q.length 1) u (mkRat u.length 1) then "O st 1" else "O st 0"
      | _ => "O st PARSE"
    | _ => "O st PARSE"
  | _ => "O st PARSE"

/-- one projection call of the trace: kind ('Q'/'U'), DontThrow option, outcome, time == returned time, time == advanced time -/
structure PCall where
  kind : String
  dontThrow : Bool
  ok : Bool
  atRet : Bool
  atAdv : Bool

partial def parseCalls : List String → List PCall
  | k :: d :: o :: r :: a :: rest =>
    if k == "Q" || k == "U" then { kind := k, dontThrow := d == "1", ok := o == "1", atRet := r == "1", atAdv := a == "1" } :: parseCalls rest
    else []
  | _ => []

/-- group the DontThrow calls (trial steps) into attempts; `none` = the call pattern is impossible for attemptDAEStep
(projectU without a successful projectQ before it, or a successful projectQ not followed by projectU) -/
partial def attemptsOf : List PCall → Option (List Att)
  | [] => some []
  | q :: rest =>
    if q.kind != "Q" then none else
    -- what the model says happens after this projectQ outcome
    let pred := attemptDAECore true false q.ok true
    if pred.2.2.2 then     -- model: projectU is called next
      match rest with
      | u :: rest' =>
        if u.kind != "U" then none else
        (attemptsOf rest').map (fun l => { odeConverged := true, gateExceeded := false, projQok := q.ok, projUok := u.ok, errWithinAcc := false } :: l)
      | [] => none
    else
      match rest with
      | u :: _ => if u.kind == "U" then none else
        (attemptsOf rest).map (fun l => { odeConverged := true, gateExceeded := false, projQok := q.ok, projUok := false, errWithinAcc := false } :: l)
      | [] => some [{ odeConverged := true, gateExceeded := false, projQok := q.ok, projUok := false, errWithinAcc := false }]

def markLast : List Att → List Att
  | [] => []
  | [a] => [{ a with errWithinAcc := true }]
  | a :: rest => a :: markLast rest

def provChar : Prov → String
  | .projected => "P"
  | _ => "R"

/-- replay one `I orc` record; returns the O line and the provenance of the advanced state afterwards -/
def orcRecord (adv : Prov) (toks : List String) : String × Prov :=
  match toks with
  | hec :: forced :: pin :: status :: interp :: nSteps :: dErr :: infS :: peS :: bar :: rest =>
    if bar != "|" then ("O orc PARSE", adv) else
    let hasErrCtl := hec == "1"
    let forced := forced == "1"
    let projInterp := pin == "1"
    let calls := parseCalls rest
    let stepCalls := calls.filter (·.dontThrow)
    let throwCalls := calls.filter (fun c => !c.dontThrow)
    let nFail := (stepCalls.filter (fun c => !c.ok)).length
    -- every projection call of the integrator must carry the options the user set on the integrator:
    -- UseInfinityNorm <- setUseInfinityNorm, ForceProjection <- setProjectEveryStep (both helpers, throwing or not)
    let optBits := calls.foldl (fun acc _ => acc ++ infS ++ peS) "o"
    match attemptsOf stepCalls with
    | none => ("O orc TRACE_SHAPE", adv)
    | some vis =>
      let gated : Att := { odeConverged := true, gateExceeded := true, projQok := true, projUok := true, errWithinAcc := false }
      let step : Option (List Att) :=
        if nSteps == "0" then none
        else if forced then some (if vis.isEmpty then [gated] else vis)
        else some (if vis.isEmpty then [gated] else markLast vis)
      -- with a forced minimum step every trial step is accepted: more than one visible attempt is impossible
      if forced && vis.length > 1 then ("O orc FORCED_RETRY", adv) else
      let obs : CallObs := { step := step,
                             backedUp := throwCalls.any (fun c => c.kind == "U" && c.atAdv && !c.atRet),
                             interp := interp == "1",
                             projOK := throwCalls.all (·.ok) }
      -- error-test failures: the visible failed attempts are a lower bound (gated attempts are invisible), none if forced
      let efOK := match step with
        | none => true
        | some atts => match stepLoop hasErrCtl forced atts 0 0 with
          | some (_, _, ef) => if forced then dErr.toNat! == 0 else ef ≤ dErr.toNat!
          | none => true
      match callProv hasErrCtl forced projInterp adv obs with
      | none => ("O orc EXC X " ++ toString nFail ++ " X " ++ optBits, adv)
      | some (a2, r) =>
        if !efOK then ("O orc ERRTEST_COUNT", a2) else
        ("O orc " ++ status ++ " " ++ provChar r ++ " " ++ toString nFail ++ " " ++ provChar a2 ++ " " ++ optBits, a2)
  | _ => ("O orc PARSE", adv)

def tagOf (toks : List String) : String :=
  match toks.dropWhile (· != "seed") with
  | _ :: a :: b :: c :: _ => a ++ " " ++ b ++ " " ++ c
  | _ => ""

def main : IO Unit := do
  let lines ← readStdinLines
  let out ← IO.getStdout
  let mut adv : Prov := .projected
  let mut lastTag := ""
  for ln in lines do
    match tokens ln with
    | "I" :: "orc" :: rest =>
      out.putStrLn ln.trimAscii.toString
      let tag := tagOf rest
      if tag != lastTag then
        adv := .projected       -- Integrator::initialize projects (ForceProjection) and throws if it cannot
        lastTag := tag
      let (o, a2) := orcRecord adv rest
      adv := a2
      out.putStrLn o
    | "I" :: "st" :: rest => out.putStrLn ln.trimAscii.toString; out.putStrLn (stRecord rest)
    | "I" :: "sess" :: _ => out.putStrLn ln.trimAscii.toString; out.putStrLn "O sess 1"
    | _ => pure ()
