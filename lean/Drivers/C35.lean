import SimbodyModel.Proto
import SimbodyModel.C35
/-! Driver for C35: answers `I col.<pair> <class> <hex>…` with the model's contact (`SimbodyModel/C35.lean` at `Float`).
Transforms travel as 12 numbers: the rotation by rows, then the translation.  Records `p.*` carry implementation-side
contract predicates only (iterative pairs). -/
open Proto Geom Geom.Col

def fl (xs : List Float) : String := xs.foldl (fun s x => s ++ " " ++ floatToHex x) ""
def xf (l : List Float) : Xf Float :=
  match l with
  | [a, b, c, d, e, f, g, h, i, x, y, z] => ⟨⟨⟨a, b, c⟩, ⟨d, e, f⟩, ⟨g, h, i⟩⟩, ⟨x, y, z⟩⟩
  | _ => ⟨⟨⟨1, 0, 0⟩, ⟨0, 1, 0⟩, ⟨0, 0, 1⟩⟩, ⟨0, 0, 0⟩⟩

def outContact (fn : String) (c : Option (Contact Float)) : String :=
  match c with
  | none => "O " ++ fn ++ " 0"
  | some c =>
    let lo := if c.rad1 < c.rad2 then c.rad1 else c.rad2
    let hi := if c.rad1 < c.rad2 then c.rad2 else c.rad1
    "O " ++ fn ++ " 1 " ++ toString c.s1 ++ " " ++ toString c.s2 ++ fl (c.point.toList ++ c.normal.toList ++ [c.depth, lo, hi])

def handle (fn : String) (a : List Float) : Option String :=
  match fn with
  | "col.hs_sph" =>
    if a.length == 16 then
      let X1 := xf (a.take 12)
      match a.drop 12 with
      | [x, y, z, r] => some (outContact fn (hsSphere 0 1 X1 ⟨x, y, z⟩ r))
      | _ => none
    else none
  | "col.sph_sph" =>
    match a with
    | [x1, y1, z1, x2, y2, z2, r1, r2] => some (outContact fn (sphereSphere Float.sqrt 0 1 ⟨x1, y1, z1⟩ ⟨x2, y2, z2⟩ r1 r2))
    | _ => none
  | "col.hs_ell" =>
    if a.length == 27 then
      let X1 := xf (a.take 12); let X2 := xf ((a.drop 12).take 12)
      match a.drop 24 with
      | [ax, ay, az] => some (outContact fn (hsEllipsoid Float.sqrt 0 1 X1 X2 ⟨ax, ay, az⟩))
      | _ => none
    else none
  -- the same three pairs through the order dispatch of GeneralContactSubsystem; first token order: 0 = (A,B), 1 = (B,A)
  | "col.detect" =>
    match a with
    | ord :: kind :: rest =>
      if rest.length == 28 then
        let XA := xf (rest.take 12); let XB := xf ((rest.drop 12).take 12)
        let pr := rest.drop 24
        let (sa, sb) : Shape Float × Shape Float :=
          if kind == 0 then (.halfSpace, .sphere pr[0]!)
          else if kind == 1 then (.sphere pr[0]!, .sphere pr[1]!)
          else (.halfSpace, .ellipsoid ⟨pr[0]!, pr[1]!, pr[2]!⟩)
        let A : Placed Float := ⟨0, sa, XA⟩
        let B : Placed Float := ⟨1, sb, XB⟩
        -- in the (B,A) order B is added first (index 0)
        -- canonical form (the sweep-and-prune of the subsystem decides the raw call order): roles 0,1 and the normal
        -- oriented from the surface with index 0 to the other one
        let canon (c : Option (Contact Float)) : Option (Contact Float) :=
          c.map (fun c => { c with s1 := 0, s2 := 1, normal := c.normalFrom 0 })
        if ord == 0 then some (outContact fn (canon (detect Float.sqrt (fun _ _ => none) A B)))
        else some (outContact fn (canon (detect Float.sqrt (fun _ _ => none) { B with idx := 0 } { A with idx := 1 })))
      else none
    | _ => none
  | _ => none

def main : IO Unit := do
  let lines ← readStdinLines
  let out ← IO.getStdout
  for ln in lines do
    match tokens ln with
    | "I" :: fn :: rest =>
      out.putStrLn ln.trimAscii.toString
      if fn.startsWith "p." then out.putStrLn ("O " ++ fn ++ " -")
      else
        match handle fn ((rest.drop 1).map hexToFloat) with
        | some l => out.putStrLn l
        | none => out.putStrLn ("O " ++ fn ++ " ERR")
    | _ => pure ()
