import SimbodyModel.Proto
import SimbodyModel.C28
/-! Driver for C28: answers every `I <fn>[F] <hex>…` record of harness/C28.cpp with the model
(`SimbodyModel/C28.lean` at `Float`).  Angles arrive as angles; the driver takes `cos`/`sin` (libm) and hands the
model trig pairs, exactly as the angle-taking C++ overloads do. -/
open Proto Spatial Spatial.Rotation

def trig (a : Float) : Trig Float := ⟨Float.cos a, Float.sin a⟩
def m2l (m : Mat33 Float) : List Float := [m.m00, m.m01, m.m02, m.m10, m.m11, m.m12, m.m20, m.m21, m.m22]
def v2l (v : Vec3 Float) : List Float := [v.x, v.y, v.z]
def q2l (q : Quaternion Float) : List Float := [q.w, q.x, q.y, q.z]
def m43l (m : Mat43 Float) : List Float := v2l m.r0 ++ v2l m.r1 ++ v2l m.r2 ++ v2l m.r3
def m34l (m : Mat34 Float) : List Float := q2l m.r0 ++ q2l m.r1 ++ q2l m.r2

def handle (fn0 : String) (a : List Float) : Option (List Float) :=
  let fn := if fn0.endsWith "F" then (fn0.dropEnd 1).toString else fn0
  match fn, a with
  | "NB", [_, q1, q2] => some (m2l (calcNForBodyXYZInBodyFrame (trig q1) (trig q2)))
  | "NP", [q0, q1, _] => some (m2l (calcNForBodyXYZInParentFrame (trig q0) (trig q1)))
  | "NInvB", [_, q1, q2] => some (m2l (calcNInvForBodyXYZInBodyFrame (trig q1) (trig q2)))
  | "NInvP", [q0, q1, _] => some (m2l (calcNInvForBodyXYZInParentFrame (trig q0) (trig q1)))
  | "NDotB", [_, q1, q2, d0, d1, d2] => some (m2l (calcNDotForBodyXYZInBodyFrame (trig q1) (trig q2) ⟨d0, d1, d2⟩))
  | "NDotP", [q0, q1, _, d0, d1, d2] =>
    some (m2l (calcNDotForBodyXYZInParentFrame (trig q0) (trig q1) (1 / Float.cos q1) ⟨d0, d1, d2⟩))
  | "mulNP", [q0, q1, x, y, z] =>
    let t0 := trig q0
    let t1 := trig q1
    let oo := 1 / t1.c
    let v : Vec3 Float := ⟨x, y, z⟩
    some (v2l (multiplyByBodyXYZ_N_P t0 t1 oo v) ++ v2l (multiplyByBodyXYZ_NT_P t0 t1 oo v))
  | "mulNInvP", [q0, q1, x, y, z] =>
    let v : Vec3 Float := ⟨x, y, z⟩
    some (v2l (multiplyByBodyXYZ_NInv_P (trig q0) (trig q1) v) ++ v2l (multiplyByBodyXYZ_NInvT_P (trig q0) (trig q1) v))
  | "wBtoQd", [_, q1, q2, x, y, z] => some (v2l (convertAngVelInBodyFrameToBodyXYZDot (trig q1) (trig q2) ⟨x, y, z⟩))
  | "qdToWB", [_, q1, q2, x, y, z] => some (v2l (convertBodyXYZDotToAngVelInBodyFrame (trig q1) (trig q2) ⟨x, y, z⟩))
  | "wdBtoQdd", [_, q1, q2, x, y, z, dx, dy, dz] =>
    some (v2l (convertAngVelDotInBodyFrameToBodyXYZDotDot (trig q1) (trig q2) ⟨x, y, z⟩ ⟨dx, dy, dz⟩))
  | "aPtoQdd", [q0, q1, d0, d1, d2, bx, by', bz] =>
    let t1 := trig q1
    some (v2l (convertAngAccInParentToBodyXYZDotDot (trig q0) t1 (1 / t1.c) ⟨d0, d1, d2⟩ ⟨bx, by', bz⟩))
  | "w321", [_, q1, q2, x, y, z] => some (v2l (convertAngVelToBodyFixed321Dot (trig q1) (trig q2) ⟨x, y, z⟩))
  | "qd321", [_, q1, q2, x, y, z] => some (v2l (convertBodyFixed321DotToAngVel (trig q1) (trig q2) ⟨x, y, z⟩))
  | "wd321", [_, q1, q2, x, y, z, dx, dy, dz] =>
    some (v2l (convertAngVelDotToBodyFixed321DotDot (trig q1) (trig q2) ⟨x, y, z⟩ ⟨dx, dy, dz⟩))
  | "NQ", [w, x, y, z] => some (m43l (calcUnnormalizedNForQuaternion ⟨w, x, y, z⟩))
  | "NDotQ", [w, x, y, z] => some (m43l (calcUnnormalizedNDotForQuaternion ⟨w, x, y, z⟩))
  | "NInvQ", [w, x, y, z] => some (m34l (calcUnnormalizedNInvForQuaternion ⟨w, x, y, z⟩))
  | "wToQdQ", [w, x, y, z, a, b, c] => some (q2l (convertAngVelToQuaternionDot ⟨w, x, y, z⟩ ⟨a, b, c⟩))
  | "qdQToW", [w, x, y, z, a, b, c, d] => some (v2l (convertQuaternionDotToAngVel ⟨w, x, y, z⟩ ⟨a, b, c, d⟩))
  | "wdToQddQ", [w, x, y, z, a, b, c, d, e, f] =>
    some (q2l (convertAngVelDotToQuaternionDotDot ⟨w, x, y, z⟩ ⟨a, b, c⟩ ⟨d, e, f⟩))
  | _, _ => none

def main : IO Unit := runPure handle
