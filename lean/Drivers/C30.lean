import SimbodyModel.Proto
import SimbodyModel.C30
/-! Driver for C30: answers `I quadReal a b c`, `I quadCx ar ai br bi cr ci` with the model's roots. -/
open Proto C30

def eps64 : Float := 2.220446049250313e-16

/-- principal complex square root (stable form), stands for `std::sqrt(std::complex<double>)` -/
def csqrtF (z : Cx Float) : Cx Float :=
  let r := Float.sqrt (z.re * z.re + z.im * z.im)
  if z.re == 0 && z.im == 0 then ⟨0, 0⟩
  else if z.re ≥ 0 then
    let t := Float.sqrt ((r + z.re) / 2)
    ⟨t, z.im / (2 * t)⟩
  else
    let t := Float.sqrt ((r - z.re) / 2)
    ⟨Float.abs z.im / (2 * t), if z.im.toBits >>> 63 == 1 then -t else t⟩   -- copysign(t, im): -0.0 selects the lower branch, as in C99 csqrt

def handle (fn : String) (a : List Float) : Option (List Float) :=
  match fn, a with
  | "quadReal", [a, b, c] =>
    let (r1, r2) := quadReal Float.sqrt eps64 a b c
    some [r1.re, r1.im, r2.re, r2.im]
  | "quadCx", [ar, ai, br, bi, cr, ci] =>
    let (r1, r2) := quadCx csqrtF (br == 0 && bi == 0) ⟨ar, ai⟩ ⟨br, bi⟩ ⟨cr, ci⟩
    some [r1.re, r1.im, r2.re, r2.im]
  | _, _ => none

def eps32 : Float := 1.1920928955078125e-07

def pairs : List Float → List (Cx Rat)
  | a :: b :: rest => ⟨floatToRat a, floatToRat b⟩ :: pairs rest
  | _ => []

/-- kind-K record: `I polyCheck n <coeffs (n+1 pairs)> <roots (n pairs)>` -/
def polyCheck (toks : List String) : String :=
  match toks with
  | nS :: rest =>
    let n := nS.toNat!
    let fs := rest.map hexToFloat
    if fs.any (fun x => !x.isFinite) then "O polyCheck 0" else
    let all := pairs fs
    let coeffs := all.take (n + 1)
    let roots := all.drop (n + 1)
    let tol : Rat := mkRat (1000000 * n) (2 ^ 52)   -- 10x the loosest harness bound: the harness predicate alarms first, with the input
    if polyAccept tol coeffs roots then "O polyCheck 1" else "O polyCheck 0"
  | _ => "O polyCheck ERR"

def main : IO Unit := do
  let lines ← readStdinLines
  let out ← IO.getStdout
  for ln in lines do
    if ln.startsWith "I " then out.putStrLn ln.trimAscii.toString
    match tokens ln with
    | "I" :: "polyCheck" :: rest => out.putStrLn (polyCheck rest)
    | "I" :: "polyFloat" :: _ => out.putStrLn "O polyFloat -"
    | "I" :: "quadRealF" :: args =>
      match args.map hexToFloat with
      | [a, b, c] =>
        let (r1, r2) := quadReal Float.sqrt eps32 a b c
        out.putStrLn (fmtFloats "O quadRealF" [r1.re, r1.im, r2.re, r2.im])
      | _ => out.putStrLn "O quadRealF ERR"
    | "I" :: fn :: args =>
      match handle fn (args.map hexToFloat) with
      | some r => out.putStrLn (fmtFloats ("O " ++ fn) r)
      | none   => out.putStrLn ("O " ++ fn ++ " ERR")
    | _ => pure ()
