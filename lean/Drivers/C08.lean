import SimbodyModel.Proto
import SimbodyModel.C08
/-! Driver for C08.  Records:
  `I loopFD n m fullrank M(n·n) G(m·n) f(n) b(m)`  →  `O loopFD 1 udot(n) [λ(m) if fullrank=1]`
      computed by `C08.loopFD` at `Float`; `minv` = dense LU with partial pivoting of the exported
      mass matrix, `pinv` = Gaussian elimination with complete pivoting, pivots below `1e-9·max` dropped (free
      multipliers set to 0) — any solution of the consistent system gives the same `udot`.
  `I loopFDmask …` → `O loopFDmask 1 udot [λ]`  (`C08.loopFDList`: assembly of the enabled rows by the model, see below).
  `I power n m G(m·n) λ(m) u(n)` → `O power 1 p`   (`C08.power`).
  `I chk …` → `O chk 1`. -/
open Proto C08

abbrev F := Float

@[noinline] def toVec {n : Nat} (a : Array F) : Vec F n := fun i => a[i.val]!   -- noinline: keeps `minv x`, `pinv r` evaluated once (a PAP over the computed array)
def ofVec {n : Nat} (v : Vec F n) : Array F := Array.ofFn v
def toMat {m n : Nat} (a : Array F) : Mat F m n := fun i j => a[i.val * n + j.val]!

/-- LU factorisation with partial pivoting of a flat row-major `n×n` matrix; returns (LU, row permutation) -/
def luFactor (n : Nat) (A0 : FloatArray) : FloatArray × Array Nat := Id.run do
  let mut A := A0
  let mut perm : Array Nat := Array.range n
  for k in [0:n] do
    let mut p := k
    let mut best := (A.get! (k * n + k)).abs
    for i in [k+1:n] do
      let v := (A.get! (i * n + k)).abs
      if v > best then best := v; p := i
    if p != k then
      for j in [0:n] do
        let a := A.get! (k * n + j); let b := A.get! (p * n + j)
        A := (A.set! (k * n + j) b).set! (p * n + j) a
      let pk := perm[k]!; let pp := perm[p]!
      perm := (perm.set! k pp).set! p pk
    let piv := A.get! (k * n + k)
    for i in [k+1:n] do
      let fct := A.get! (i * n + k) / piv
      A := A.set! (i * n + k) fct
      for j in [k+1:n] do
        A := A.set! (i * n + j) (A.get! (i * n + j) - fct * A.get! (k * n + j))
  return (A, perm)

def luSolve (n : Nat) (LU : FloatArray) (perm : Array Nat) (b : Array F) : Array F := Id.run do
  let mut y : Array F := (Array.range n).map (fun i => b[perm[i]!]!)
  for i in [0:n] do
    let mut s := y[i]!
    for j in [0:i] do
      s := s - LU.get! (i * n + j) * y[j]!
    y := y.set! i s
  for ii in [0:n] do
    let i := n - 1 - ii
    let mut s := y[i]!
    for j in [i+1:n] do
      s := s - LU.get! (i * n + j) * y[j]!
    y := y.set! i (s / LU.get! (i * n + i))
  return y

/-- a solution of the (possibly rank-deficient, consistent) system `A y = r` (flat row-major `m×m`): complete pivoting,
pivots below `tol·|first pivot|` are dropped and the corresponding unknowns set to zero -/
def solveRankDef (m : Nat) (A0 : FloatArray) (r0 : Array F) (tol : F) : Array F := Id.run do
  let mut A := A0
  let mut r := r0
  let mut perm : Array Nat := Array.range m
  let mut rank := 0
  let mut first := 0.0
  for k in [0:m] do
    let mut pi := k; let mut pj := k; let mut best := 0.0
    for i in [k:m] do
      for j in [k:m] do
        let v := (A.get! (i * m + j)).abs
        if v > best then best := v; pi := i; pj := j
    if k == 0 then first := best
    if best ≤ tol * first || best == 0.0 then break
    rank := k + 1
    if pi != k then
      for j in [0:m] do
        let a := A.get! (k * m + j); let b := A.get! (pi * m + j)
        A := (A.set! (k * m + j) b).set! (pi * m + j) a
      let bk := r[k]!; let bp := r[pi]!
      r := (r.set! k bp).set! pi bk
    if pj != k then
      for i in [0:m] do
        let a := A.get! (i * m + k); let b := A.get! (i * m + pj)
        A := (A.set! (i * m + k) b).set! (i * m + pj) a
      let ck := perm[k]!; let cp := perm[pj]!
      perm := (perm.set! k cp).set! pj ck
    let piv := A.get! (k * m + k)
    for i in [k+1:m] do
      let fct := A.get! (i * m + k) / piv
      for j in [k:m] do
        A := A.set! (i * m + j) (A.get! (i * m + j) - fct * A.get! (k * m + j))
      r := r.set! i (r[i]! - fct * r[k]!)
  let mut z := Array.replicate m 0.0
  for kk in [0:rank] do
    let k := rank - 1 - kk
    let mut s := r[k]!
    for j in [k+1:rank] do
      s := s - A.get! (k * m + j) * z[j]!
    z := z.set! k (s / A.get! (k * m + k))
  let mut y := Array.replicate m 0.0
  for k in [0:m] do
    y := y.set! (perm[k]!) z[k]!
  return y

def flat (a : Array F) : FloatArray := FloatArray.mk a

/-- `C08.loopFD`, evaluated stage by stage (`loopFD_stages`: the same value); every intermediate vector is materialised
as an `Array` (data, evaluated once) before it is fed to the next stage -/
def loopFDStaged {m n : Nat} (minv : Vec F n → Vec F n) (pinv : Vec F m → Vec F m) (G : Mat F m n) (f : Vec F n) (b : Vec F m) :
    Array F × Array F :=
  let u0a : Array F := ofVec (stageUdot0 minv f)
  let rhsa : Array F := ofVec (stageRhs G (toVec u0a) b)
  let lama : Array F := ofVec (stageLam pinv (toVec rhsa))
  let udota : Array F := ofVec (stageUdot minv G f (toVec lama))
  (udota, lama)

def rowsOf (m n : Nat) (a : Array F) : Array (Array F) := (Array.range m).map (fun i => a.extract (i * n) (i * n + n))

def doLoopFD (toks : List String) : String :=
  match toks with
  | nS :: mS :: frS :: rest =>
    let n := nS.toNat!; let m := mS.toNat!; let fullrank := frS.toNat!
    let fl : Array F := (rest.map hexToFloat).toArray
    let Ma := fl.extract 0 (n * n)
    let Ga := fl.extract (n * n) (n * n + m * n)
    let fa := fl.extract (n * n + m * n) (n * n + m * n + n)
    let ba := fl.extract (n * n + m * n + n) (n * n + m * n + n + m)
    let (LU, perm) := luFactor n (flat Ma)
    let minv : Vec F n → Vec F n := fun x => let a := luSolve n LU perm (ofVec x); toVec a
    let G : Mat F m n := toMat Ga
    -- A = G M⁻¹ ~G built with the model's own operator, column by column
    let Acols : Array (Array F) := (Array.range m).map (fun j =>
      ofVec (gMinvGt minv G (fun i : Fin m => if i.val == j then 1.0 else 0.0)))
    let Aflat : FloatArray := flat ((Array.range (m * m)).map (fun k => (Acols[k % m]!)[k / m]!))
    let pinv : Vec F m → Vec F m := fun r => let a := solveRankDef m Aflat (ofVec r) 1e-9; toVec a
    let res := loopFDStaged minv pinv G (toVec fa) (toVec ba)
    let out := [1.0] ++ res.1.toList ++ (if fullrank == 1 then res.2.toList else [])
    fmtFloats "O loopFD" out
  | _ => "O loopFD ERR"

/-- `I loopFDmask n mfull fullrank mask(mfull × 0/1) M(n·n) Gfull(mfull·n) f(n) bfull(mfull)`: the FULL constraint matrix / bias with all
constraints enabled plus the row mask; the model assembles the enabled rows itself (`C08.loopFDList`) and must reproduce the
masked system's `udot` (and `λ` when the masked `G` has full row rank) -/
def doLoopFDMask (toks : List String) : String :=
  match toks with
  | nS :: mS :: frS :: rest =>
    let n := nS.toNat!; let mf := mS.toNat!; let fullrank := frS.toNat!
    let en : List Bool := (rest.take mf).map (fun t => t == "1")
    let fl : Array F := ((rest.drop mf).map hexToFloat).toArray
    let Ma := fl.extract 0 (n * n)
    let Ga := fl.extract (n * n) (n * n + mf * n)
    let fa := fl.extract (n * n + mf * n) (n * n + mf * n + n)
    let ba := fl.extract (n * n + mf * n + n) (n * n + mf * n + n + mf)
    let (LU, perm) := luFactor n (flat Ma)
    let minv : Vec F n → Vec F n := fun x => let a := luSolve n LU perm (ofVec x); toVec a
    let rows : List (List F) := (List.range mf).map (fun i => (Ga.extract (i * n) (i * n + n)).toList)
    -- `G M⁻¹ ~G` of the assembled (enabled) rows, built once with the model's own `assemble` and `gMinvGt`
    -- (function-valued vectors are re-evaluated on every component access, so nothing expensive may sit inside `pinv`)
    let ra := assemble en rows
    let ma := ra.length
    let Ga : Mat F ma n := ofRows ra
    let Acols : Array (Array F) := (Array.range ma).map (fun j =>
      ofVec (gMinvGt minv Ga (fun i : Fin ma => if i.val == j then 1.0 else 0.0)))
    let Aflat : FloatArray := flat ((Array.range (ma * ma)).map (fun k => (Acols[k % ma]!)[k / ma]!))
    -- `loopFDList en rows b f` = `loopFD` on `ofRows (assemble en rows)` (`loopFDList_eq`), evaluated stage by stage
    let pinv : Vec F ma → Vec F ma := fun r => toVec (solveRankDef ma Aflat (ofVec r) 1e-9)
    let bl := assemble en ba.toList
    let res := loopFDStaged minv pinv Ga (toVec fa) (fun i : Fin ma => bl.getD i.val 0)
    fmtFloats "O loopFDmask" ([1.0] ++ res.1.toList ++ (if fullrank == 1 then res.2.toList else []))
  | _ => "O loopFDmask ERR"

def doPower (toks : List String) : String :=
  match toks with
  | nS :: mS :: rest =>
    let n := nS.toNat!; let m := mS.toNat!
    let fl : Array F := (rest.map hexToFloat).toArray
    let G : Mat F m n := toMat (fl.extract 0 (m * n))
    let lam : Vec F m := toVec (fl.extract (m * n) (m * n + m))
    let u : Vec F n := toVec (fl.extract (m * n + m) (m * n + m + n))
    fmtFloats "O power" [1.0, power G lam u]
  | _ => "O power ERR"

def main : IO Unit := do
  let lines ← readStdinLines
  let out ← IO.getStdout
  for ln in lines do
    match tokens ln with
    | "I" :: "chk" :: _ => out.putStrLn ln.trimAscii.toString; out.putStrLn "O chk 1"
    | "I" :: "loopFD" :: rest => out.putStrLn ln.trimAscii.toString; out.putStrLn (doLoopFD rest)
    | "I" :: "loopFDmask" :: rest => out.putStrLn ln.trimAscii.toString; out.putStrLn (doLoopFDMask rest)
    | "I" :: "power" :: rest => out.putStrLn ln.trimAscii.toString; out.putStrLn (doPower rest)
    | "I" :: fn :: _ => out.putStrLn ln.trimAscii.toString; out.putStrLn ("O " ++ fn ++ " ERR")
    | _ => pure ()
