import SimbodyModel.Proto
import SimbodyModel.C08
/-! Driver for C08.  Records:
  `I loopFD n m fullrank M(n·n) G(m·n) f(n) b(m)`  →  `O loopFD udot(n) [λ(m) if fullrank=1]`
      computed by `C08.loopFD` at `Float`; `minv` = dense Gaussian elimination with partial pivoting on the exported
      mass matrix, `pinv` = Gaussian elimination with complete pivoting, pivots below `1e-9·max` dropped (free
      multipliers set to 0) — any solution of the consistent system gives the same `udot`.
  `I power n m G(m·n) λ(m) u(n)` → `O power p`   (`C08.power`).
  `I chk …` → `O chk 1`. -/
open Proto C08

abbrev F := Float

def toVec {n : Nat} (a : Array F) : Vec F n := fun i => a[i.val]!
def ofVec {n : Nat} (v : Vec F n) : Array F := Array.ofFn v
def toMat {m n : Nat} (a : Array F) : Mat F m n := fun i j => a[i.val * n + j.val]!

/-- solve `A x = b` (square, nonsingular) by Gaussian elimination with partial pivoting -/
def solveSquare (n : Nat) (A0 : Array (Array F)) (b0 : Array F) : Array F := Id.run do
  let mut A := A0
  let mut b := b0
  for k in [0:n] do
    -- pivot
    let mut p := k
    for i in [k+1:n] do
      if (A[i]!)[k]!.abs > (A[p]!)[k]!.abs then p := i
    let rk := A[k]!; let rp := A[p]!
    A := (A.set! k rp).set! p rk
    let bk := b[k]!; let bp := b[p]!
    b := (b.set! k bp).set! p bk
    let piv := (A[k]!)[k]!
    for i in [k+1:n] do
      let fct := (A[i]!)[k]! / piv
      let mut row := A[i]!
      for j in [k:n] do
        row := row.set! j (row[j]! - fct * (A[k]!)[j]!)
      A := A.set! i row
      b := b.set! i (b[i]! - fct * b[k]!)
  let mut x := Array.replicate n 0.0
  for kk in [0:n] do
    let k := n - 1 - kk
    let mut s := b[k]!
    for j in [k+1:n] do
      s := s - (A[k]!)[j]! * x[j]!
    x := x.set! k (s / (A[k]!)[k]!)
  return x

/-- a solution of the (possibly rank-deficient, consistent) symmetric system `A y = r`: complete pivoting,
pivots below `tol·|first pivot|` are dropped and the corresponding unknowns set to zero -/
def solveRankDef (m : Nat) (A0 : Array (Array F)) (r0 : Array F) (tol : F) : Array F := Id.run do
  let mut A := A0
  let mut r := r0
  let mut perm : Array Nat := Array.range m      -- column permutation
  let mut rank := 0
  let mut first := 0.0
  for k in [0:m] do
    -- complete pivot search in the trailing block
    let mut pi := k; let mut pj := k; let mut best := 0.0
    for i in [k:m] do
      for j in [k:m] do
        let v := (A[i]!)[j]!.abs
        if v > best then best := v; pi := i; pj := j
    if k == 0 then first := best
    if best ≤ tol * first || best == 0.0 then break
    rank := k + 1
    -- swap rows k,pi
    let rk := A[k]!; let rp := A[pi]!
    A := (A.set! k rp).set! pi rk
    let bk := r[k]!; let bp := r[pi]!
    r := (r.set! k bp).set! pi bk
    -- swap columns k,pj
    A := A.map (fun row => let a := row[k]!; let b := row[pj]!; (row.set! k b).set! pj a)
    let ck := perm[k]!; let cp := perm[pj]!
    perm := (perm.set! k cp).set! pj ck
    let piv := (A[k]!)[k]!
    for i in [k+1:m] do
      let fct := (A[i]!)[k]! / piv
      let mut row := A[i]!
      for j in [k:m] do
        row := row.set! j (row[j]! - fct * (A[k]!)[j]!)
      A := A.set! i row
      r := r.set! i (r[i]! - fct * r[k]!)
  let mut z := Array.replicate m 0.0
  for kk in [0:rank] do
    let k := rank - 1 - kk
    let mut s := r[k]!
    for j in [k+1:rank] do
      s := s - (A[k]!)[j]! * z[j]!
    z := z.set! k (s / (A[k]!)[k]!)
  let mut y := Array.replicate m 0.0
  for k in [0:m] do
    y := y.set! (perm[k]!) z[k]!
  return y

def rowsOf (m n : Nat) (a : Array F) : Array (Array F) := (Array.range m).map (fun i => a.extract (i * n) (i * n + n))

def doLoopFD (toks : List String) : String :=
  match toks with
  | nS :: mS :: frS :: rest =>
    let n := nS.toNat!; let m := mS.toNat!; let fullrank := frS.toNat!
    let fl : Array F := (rest.map hexToFloat).toArray
    let Ma := fl.extract 0 (n * n)
    let Ga := fl.extract (n * n) (n * n + m * n)
    let fa := fl.extract (n * n + m * n) (n * n + m * n + n)
    let ba := fl.extract (n * n + m * n + n) (n * n + m * n + n + m)
    let Mrows := rowsOf n n Ma
    let minv : Vec F n → Vec F n := fun x => let a := solveSquare n Mrows (ofVec x); toVec a
    let G : Mat F m n := toMat Ga
    -- A = G M⁻¹ ~G built with the model's own operator, column by column
    let Acols : Array (Array F) := (Array.range m).map (fun j =>
      ofVec (gMinvGt minv G (fun i : Fin m => if i.val == j then 1.0 else 0.0)))
    let Arows : Array (Array F) := (Array.range m).map (fun i => (Array.range m).map (fun j => (Acols[j]!)[i]!))
    let pinv : Vec F m → Vec F m := fun r => let a := solveRankDef m Arows (ofVec r) 1e-9; toVec a
    let res := loopFD minv pinv G (toVec fa) (toVec ba)
    let out := (ofVec res.udot).toList ++ (if fullrank == 1 then (ofVec res.lam).toList else [])
    fmtFloats "O loopFD" out
  | _ => "O loopFD ERR"

def doPower (toks : List String) : String :=
  match toks with
  | nS :: mS :: rest =>
    let n := nS.toNat!; let m := mS.toNat!
    let fl : Array F := (rest.map hexToFloat).toArray
    let G : Mat F m n := toMat (fl.extract 0 (m * n))
    let lam : Vec F m := toVec (fl.extract (m * n) (m * n + m))
    let u : Vec F n := toVec (fl.extract (m * n + m) (m * n + m + n))
    fmtFloats "O power" [power G lam u]
  | _ => "O power ERR"

def main : IO Unit := do
  let lines ← readStdinLines
  let out ← IO.getStdout
  for ln in lines do
    match tokens ln with
    | "I" :: "chk" :: _ => out.putStrLn ln.trimAscii.toString; out.putStrLn "O chk 1"
    | "I" :: "loopFD" :: rest => out.putStrLn ln.trimAscii.toString; out.putStrLn (doLoopFD rest)
    | "I" :: "power" :: rest => out.putStrLn ln.trimAscii.toString; out.putStrLn (doPower rest)
    | "I" :: fn :: _ => out.putStrLn ln.trimAscii.toString; out.putStrLn ("O " ++ fn ++ " ERR")
    | _ => pure ()
