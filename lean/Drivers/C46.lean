import SimbodyModel.Proto
import SimbodyModel.C46
/-! Driver for C46.  In the model a simulation is a pure function of its definition, initial state and options, and
an instance's operations do not depend on what else ran in the process (`SimbodyProofs/C46.lean`:
`interleaving_isolated`, `repeat_deterministic`).  So the model's prediction for every scenario of
`harness/C46.cpp` is: all compared trajectories are bit-identical, and in an interleaving instance `i` performs
`C46.count sched i` operations. -/
open Proto C46

def main : IO Unit := do
  let lines ← readStdinLines
  let out ← IO.getStdout
  for ln in lines do
    match tokens ln with
    | "I" :: "repeat" :: _ =>
      out.putStrLn ln.trimAscii.toString
      out.putStrLn "O repeat 1"
    | "I" :: "aux" :: _ =>
      out.putStrLn ln.trimAscii.toString
      out.putStrLn "O aux 1"
    | "I" :: "fork" :: _ =>
      out.putStrLn ln.trimAscii.toString
      out.putStrLn "O fork 1"
    | "I" :: "interleave" :: n :: rest =>
      out.putStrLn ln.trimAscii.toString
      let sched := (rest.take n.toNat!).map String.toNat!
      out.putStrLn s!"O interleave {count sched 0} {count sched 1} {count sched 2} 1 1 1"
    | _ => pure ()
