import SimbodyModel.Proto
import SimbodyModel.C32
/-! Driver for C32 (record grammar: see `harness/C32.cpp`).  Strings travel as `s<hex>`, bit patterns as `b<16 hex>` (NaN: `nan`). -/
open Proto C32

def unhexStr (t : String) : List Char :=
  let cs := t.toList.drop 1               -- leading 's' keeps the comparator from reading 16 hex digits as a double
  let rec go : List Char → List Char
    | a :: b :: r => Char.ofNat (hexDigit a * 16 + hexDigit b) :: go r
    | _ => []
  go cs

def hexStr (s : List Char) : String :=
  "s" ++ String.ofList (s.flatMap (fun c => (natToHex (c.toNat % 256) 2).toList))

/-- exact conversion of a dyadic rational magnitude to `Float` -/
def magToFloat (q : Rat) : Float :=
  if q = 0 then 0.0 else
  let n := q.num.toNat
  let k := q.den.log2                     -- den = 2^k
  -- strip trailing zero bits so that the odd part fits 53 bits
  let tz := (n &&& (n ^^^ (n - 1))).log2  -- index of lowest set bit
  let m := n >>> tz
  m.toUInt64.toFloat.scaleB ((tz : Int) - (k : Int))

def fvTok (v : FV) : String :=
  match v with
  | .nan => "nan"
  | .inf neg => if neg then "bfff0000000000000" else "b7ff0000000000000"
  | .fin ⟨neg, mag⟩ => let f := magToFloat mag; "b" ++ floatToHex (if neg then -f else f)

def optFV (tag : String) (r : Option FV) : String :=
  match r with
  | none => "O " ++ tag ++ " 0"
  | some v => "O " ++ tag ++ " 1 " ++ fvTok v

/-- class-insensitive comparison of a parsed value with a bit pattern -/
def fvMatches (v : FV) (bits : String) : Bool :=
  let f := hexToFloat (String.ofList (bits.toList.drop 1))
  match v with
  | .nan => f.isNaN
  | _ => fvTok v == bits

def convScalar (ty : String) (t : List Char) : Option String :=
  match ty with
  | "d" => (tryConvertDouble t).map fvTok
  | "f" => (tryConvertFloat t).map fvTok
  | "i" => (tryConvertInt (-2147483648) 2147483647 t).map toString
  | "b" => (tryConvertBool t).map (fun b => if b then "1" else "0")
  | _ => none

def joinSp (l : List String) : String := l.foldl (fun s x => s ++ " " ++ x) ""

/-- tree tokens: `E tag nattr (name value)* ... X` / `V text` / `C comment`; the model maps every attribute value and
text through the write→read composition and leaves the structure alone -/
partial def treeMap (file cond : Bool) : List String → List String
  | "E" :: tag :: na :: rest =>
    let n := na.toNat!
    let rec attrs : Nat → List String → List String × List String
      | 0, r => ([], r)
      | k + 1, nm :: v :: r =>
        let v' := match (if file then attrRoundTripFile cond (unhexStr v) else attrRoundTrip cond (unhexStr v)) with | some x => hexStr x | none => "ERR"
        let (a, r') := attrs k r
        (nm :: v' :: a, r')
      | _, r => ([], r)
    let (a, r) := attrs n rest
    "E" :: tag :: na :: a ++ treeMap file cond r
  | "V" :: t :: rest =>
    (match (if file then textRoundTripFile cond (unhexStr t) else textRoundTrip cond (unhexStr t)) with | some x => "V" :: hexStr x :: [] | none => ["V", "ERR"]) ++ treeMap file cond rest
  | "C" :: t :: rest =>
    -- comments are written and read verbatim; a file read normalises their line ends like everything else
    "C" :: (if file then hexStr (normalizeNL (unhexStr t)) else t) :: treeMap file cond rest
  | x :: rest => x :: treeMap file cond rest
  | [] => []

def answer (toks : List String) : List String :=
  match toks with
  | ["cvtD", h] => [optFV "cvtD" (tryConvertDouble (unhexStr h))]
  | ["cvtF", h] => [optFV "cvtF" (tryConvertFloat (unhexStr h))]
  | ["cvtB", h] => [match tryConvertBool (unhexStr h) with
                    | none => "O cvtB 0" | some b => "O cvtB 1 " ++ (if b then "1" else "0")]
  | ["cvtI", h] => [match tryConvertInt (-2147483648) 2147483647 (unhexStr h) with
                    | none => "O cvtI 0" | some v => "O cvtI 1 " ++ toString v]
  | ["cvtL", h] => [match tryConvertInt (-9223372036854775808) 9223372036854775807 (unhexStr h) with
                    | none => "O cvtL 0" | some v => "O cvtL 1 " ++ toString v]
  | ["cvtC", h] => [match tryConvertComplex (unhexStr h) with
                    | none => "O cvtC 0" | some (re, im) => "O cvtC 1 " ++ fvTok re ++ " " ++ fvTok im]
  | ["rtD", bits, h] =>
    let r := tryConvertDouble (unhexStr h)
    [optFV "rtD" r, "O rtD.fmt " ++ (match r with | some v => if fvMatches v bits then "1" else "0" | none => "0")]
  | ["rtF", bits, h] =>
    let r := tryConvertFloat (unhexStr h)
    [optFV "rtF" r, "O rtF.fmt " ++ (match r with | some v => if fvMatches v bits then "1" else "0" | none => "0")]
  | ["unf", kind, ty, k, h] =>
    let s := unhexStr h
    if kind == "F" then
      match readFixed (convScalar ty) k.toNat! s with
      | some (vs, _) => ["O unf 1" ++ joinSp vs]
      | none => ["O unf 0"]
    else if kind == "H" then
      -- Mat<M,N,complex>: every row is written and read through `~row` (Hermitian transpose), so the text holds the
      -- conjugates of the elements: the imaginary parts (odd positions) come back with the sign flipped
      match readFixed (convScalar ty) k.toNat! s with
      | some (vs, _) =>
        let flip (t : String) : String :=
          if t == "nan" then t else
          let n := hexToNat (String.ofList (t.toList.drop 1))
          "b" ++ natToHex (n ^^^ (2 ^ 63)) 16
        ["O unf 1" ++ joinSp ((List.range vs.length).map (fun i => if i % 2 = 1 then flip (vs.getD i "") else vs.getD i ""))]
      | none => ["O unf 0"]
    else if kind == "S" then
      -- SymMat<M>: read a full M×M Mat, then `isNumericallySymmetric` (every pair incl. the diagonal compared through
      -- a difference, so a non-finite entry fails), then keep the lower triangle
      match readFixed (convScalar ty) k.toNat! s with
      | some (vs, _) =>
        let m := k.toNat!.sqrt
        let ok := (List.range m).all (fun i => (List.range m).all (fun j =>
          let a := vs.getD (i * m + j) ""; let b := vs.getD (j * m + i) ""
          a == b && a != "b7ff0000000000000" && a != "bfff0000000000000"))   -- NaN == NaN passes, Inf - Inf does not
        -- `setFromSymmetric`: diagonal copied, off-diagonal stored as `(m(i,j) + m(j,i))/2` in binary64 (overflows to ±Inf
        -- for magnitudes above DBL_MAX/2)
        let toF (t : String) : Float := if t == "nan" then (0.0 / 0.0) else hexToFloat (String.ofList (t.toList.drop 1))
        let ofF (x : Float) : String := if x.isNaN then "nan" else "b" ++ floatToHex x
        let out := (List.range (m * m)).map (fun idx =>
          let i := idx / m; let j := idx % m
          if i = j then vs.getD idx "" else
          ofF ((toF (vs.getD (i * m + j) "") + toF (vs.getD (j * m + i) "")) / 2))
        if ok then ["O unf 1" ++ joinSp out] else ["O unf 0"]
      | none => ["O unf 0"]
    else if kind == "R" then
      -- RowVector_: `Vector_<E> vt(~v); return readUnformatted(in, vt);` reads into a copy: success, nothing stored
      match readArray (convScalar ty) k.toNat! s with
      | some _ => ["O unf 1 0"]
      | none => ["O unf 0"]
    else
      match readArray (convScalar ty) k.toNat! s with
      | some es => ["O unf 1 " ++ toString es.length ++ joinSp es.flatten]
      | none => ["O unf 0"]
  | ["xenc", kq, cond, h] => ["O xenc " ++ hexStr (encode (kq == "1") (cond == "1") (unhexStr h))]
  | ["xdec", mode, h] =>
    let s := unhexStr h
    -- the raw data is followed by the rest of the document (`GetEntity` looks ahead for `;`)
    let r := if mode == "0" then elementText false (s ++ "</r>".toList)
             else if mode == "1" then elementText true (s ++ "</r>".toList)
             else decodeKeep '"' (s ++ "\" /></r>".toList)
    [match r with | some t => "O xdec 1 " ++ hexStr t | none => "O xdec 0"]
  | "xtree" :: cond :: rest =>
    -- one undecodable value makes the whole document unreadable (`Xml::readFromString` throws)
    let out := treeMap false (cond == "1") rest
    [if out.contains "ERR" then "O xtree EXC" else "O xtree" ++ joinSp out]
  | "xtreeF" :: cond :: rest =>
    let out := treeMap true (cond == "1") rest
    [if out.contains "ERR" then "O xtreeF EXC" else "O xtreeF" ++ joinSp out]
  | fn :: _ => ["O " ++ fn ++ " ERR"]
  | [] => ["O ERR"]

def main : IO Unit := do
  let lines ← readStdinLines
  let out ← IO.getStdout
  for ln in lines do
    match tokens ln with
    | "I" :: rest =>
      out.putStrLn ln.trimAscii.toString
      for l in answer rest do out.putStrLn l
    | _ => pure ()
