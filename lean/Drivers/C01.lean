import SimbodyModel.Proto
import SimbodyModel.TreeDyn
import SimbodyModel.TreeDynIO
import SimbodyModel.C01
/-! Driver for C01: answers `I tree …` with the model's `mulM`, `mulMInv`, `ke`, `abi`, `wf`, `calcM`, `calcMInv`. -/
open Proto TreeDyn

def answer (toks : List String) : List String :=
  let (h, c) := parseHeader toks
  let nu := h.nu
  let (v, c) := c.flts nu
  let (f, c) := c.flts nu
  let (u, _) := c.flts nu
  let roots := forest h.bodies
  let abi := abiForest roots
  let wfOk := (C01.wfResiduals abi).all (fun r => r.abs ≤ 1e-8)
  let base := [ outLine "mulM" (multiplyByM roots nu v).toList,
                outLine "mulMInv" (multiplyByMInv abi nu f).toList,
                outLine "ke" [kineticEnergy roots u],
                outLine "abi" (C01.abiList abi h.bodies),
                "O wf " ++ (if wfOk then "1" else "0") ]
  if h.flag == 1 then
    base ++ [ outLine "calcM" ((calcM roots nu).foldr (fun col acc => col.toList ++ acc) []),
              outLine "calcMInv" ((calcMInv abi nu).foldr (fun col acc => col.toList ++ acc) []) ]
  else base

def main : IO Unit := do
  let lines ← readStdinLines
  let out ← IO.getStdout
  for ln in lines do
    if ln.startsWith "I " then
      out.putStrLn ln.trimAscii.toString
      match tokens ln with
      | "I" :: "tree" :: rest => for o in answer rest do out.putStrLn o
      | _ => out.putStrLn "O ERR"
