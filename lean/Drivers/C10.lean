import SimbodyModel.Proto
import SimbodyModel.C10
import SimbodyModel.TreeDyn
import SimbodyModel.TreeDynIO
/-! Driver for C10: answers the harness's records with the definitions of `SimbodyModel/C10.lean` at `Float`.

* `I presc …`   instance partition, pools, prescribeQ / prescribeU scatter, known udot slots
* `I aba …`     the two ABA passes with prescribed nodes (`TreeDyn.forwardDynamics`) on exported tree data: udot and tau
* `I elim …`    dense block elimination (free udot, tau), `findMotionForces`, `calcMotionPower`
* `I sin …`     `Motion::Sinusoid` value / derivatives at the three levels from the trig pair
* `I steady …`  `Motion::Steady` rates (+ `setOneRate`)
* `I lockseq …` lock / lockAt / unlock / setQ / setU bookkeeping, one observation per operation
* `I chk …`     implementation-only predicates: answered `O chk 1`

Every record carries `<seed> <case#>` as its first two arguments (ignored here). -/
open Proto C10

abbrev F := Float

/-- sequential token reader -/
structure Rd where
  ts : List String

namespace Rd
def nat (r : Rd) : Nat × Rd := match r.ts with | t :: rest => (t.toNat!, ⟨rest⟩) | [] => (0, r)
def int (r : Rd) : Int × Rd := match r.ts with | t :: rest => (t.toInt!, ⟨rest⟩) | [] => (0, r)
def flt (r : Rd) : F × Rd := match r.ts with | t :: rest => (hexToFloat t, ⟨rest⟩) | [] => (0.0 / 0.0, r)
def flts (r : Rd) (n : Nat) : List F × Rd := ((r.ts.take n).map hexToFloat, ⟨r.ts.drop n⟩)
def nats (r : Rd) (n : Nat) : List Nat × Rd := ((r.ts.take n).map String.toNat!, ⟨r.ts.drop n⟩)
end Rd

def fmtInts (tag : String) (xs : List Int) : String := tag ++ (xs.foldl (fun s x => s ++ " " ++ toString x) "")
def fmtNats (tag : String) (xs : List Nat) : String := tag ++ (xs.foldl (fun s x => s ++ " " ++ toString x) "")

/-- `nmob {qx ux nq nu lockLevel lockedQ(nq) lockedU(nu) hasMotion disabled level method
cbPos cbPosDot cbPosDotDot (nq each) cbVel cbVelDot cbAcc (nu each) NInv(nu·nq row major) NDotU(nq)} NQ q NU u` -/
def readMobs : Nat → Rd → List (MobIn F) × Rd
  | 0, r => ([], r)
  | n + 1, r =>
    let (qx, r) := r.nat; let (ux, r) := r.nat
    let (nq, r) := r.nat; let (nu, r) := r.nat; let (ll, r) := r.int
    let (lq, r) := r.flts nq; let (lu, r) := r.flts nu
    let (has, r) := r.nat; let (dis, r) := r.nat; let (lvl, r) := r.int; let (mth, r) := r.int
    let (c0, r) := r.flts nq; let (c1, r) := r.flts nq; let (c2, r) := r.flts nq
    let (c3, r) := r.flts nu; let (c4, r) := r.flts nu; let (c5, r) := r.flts nu
    let (ni, r) := r.flts (nu * nq); let (ndu, r) := r.flts nq
    let nInv : List (List F) := (List.range nu).map (fun i => (ni.drop (i * nq)).take nq)
    let md : Option MotionDesc := if has == 1 then some ⟨dis == 1, Level.ofInt lvl, Method.ofInt mth⟩ else none
    let (rest, r) := readMobs n r
    (⟨qx, ux, nq, nu, Level.ofInt ll, lq, lu, md, c0, c1, c2, c3, c4, c5, nInv, ndu⟩ :: rest, r)

def handlePresc (r : Rd) : List String :=
  let (nmob, r) := r.nat
  let (mobs, r) := readMobs nmob r
  let (nq, r) := r.nat; let (q, r) := r.flts nq
  let (nu, r) := r.nat; let (u, _) := r.flts nu
  let P := partition mobs
  let (q', u') := prescribe mobs q u
  let udot := knownUDot mobs (List.replicate nu (0.0 / 0.0 : F))
  [fmtFloats "O presc q" q', fmtFloats "O presc u" u',
   fmtInts "O presc methods" (P.methods.foldr (fun m acc => m.q.toInt :: m.u.toInt :: m.udot.toInt :: acc) []),
   fmtNats "O presc freeQ" P.freeQ, fmtNats "O presc freeU" P.freeU, fmtNats "O presc freeUDot" P.freeUDot,
   fmtNats "O presc knownUDot" P.presForce,
   fmtFloats "O presc udotKnown" (P.presForce.map (fun i => udot.getD i (0.0 / 0.0)))]


/-- `0 nb nu {idx parent d u0 l(3) m p(3) G(6) H(6 d)}×nb presc(nb) a(6 nb) b(6 nb) F(6 (nb+1)) f(nu) udotP(nu) fscale`:
the two passes of `calcTreeAccelerations` with prescribed nodes (`TreeDyn.abiForest`, `TreeDyn.forwardDynamics`);
output: udot (nu), tau packed in body order (= `getMotionMultipliers`), fscale echoed -/
def handleAba (toks : List String) : List String :=
  let (h, c) := TreeDyn.parseHeader toks
  let nu := h.nu; let nb := h.nb
  let flags := (List.range nb).map (fun k => (c.toks.getD (c.pos + k) "0") == "1")
  let c : TreeDyn.Cur := { c with pos := c.pos + nb }
  let (a, c) := c.svs nb
  let (b, c) := c.svs nb
  let (fB, c) := c.svs (nb + 1)
  let (f, c) := c.flts nu
  let (udp, c) := c.flts nu
  let (fscale, _) := c.flt
  let bodies := (h.bodies.zip flags).map (fun bf => { bf.1 with presc := bf.2 })
  let aA := a.toArray; let bA := b.toArray; let fA := fB.toArray
  let bias : Array (TreeDyn.Bias F) := (Array.range (nb + 1)).map (fun i =>
    if i == 0 then ⟨TreeDyn.SV.zero, TreeDyn.SV.zero, fA.getD 0 TreeDyn.SV.zero⟩
    else ⟨aA.getD (i - 1) TreeDyn.SV.zero, bA.getD (i - 1) TreeDyn.SV.zero, fA.getD i TreeDyn.SV.zero⟩)
  let abi := TreeDyn.abiForest (TreeDyn.forest bodies)
  let fwd := TreeDyn.forwardDynamics abi bias f udp
  let udot := (TreeDyn.udotOf nu fwd).toList
  let known := (fwd.filter (fun x => x.body.presc)).toArray.qsort (fun x y => x.body.idx < y.body.idx)
  let tau := known.toList.foldr (fun x acc => x.tau ++ acc) []
  [fmtFloats "O aba" (udot ++ tau ++ [fscale])]

def rowsOf (n : Nat) (xs : List F) : List (List F) := (List.range n).map (fun i => (xs.drop (i * n)).take n)

/-- `n nr np r… p… M(n·n) f(n) u(n) udot_p(np) fscale` (`fscale` is echoed: scale of the comparison) -/
def handleElim (r : Rd) : List String :=
  let (n, r) := r.nat; let (nr, r) := r.nat; let (np, r) := r.nat
  let (ri, r) := r.nats nr; let (pi, r) := r.nats np
  let (m, r) := r.flts (n * n); let (f, r) := r.flts n; let (u, r) := r.flts n; let (udp, r) := r.flts np
  let (fscale, _) := r.flt
  let M := rowsOf n m
  let (udr, tau) := elim M f ri pi udp
  [fmtFloats "O elim" (assemble n ri pi udr udp ++ tau ++ unpackTau n pi tau ++ [motionPower tau pi u, fscale])]

/-- `a w p t c s` -/
def handleSin (r : Rd) : List String :=
  let (a, r) := r.flt; let (w, r) := r.flt; let (p, r) := r.flt; let (_t, r) := r.flt; let (c, r) := r.flt; let (s, _) := r.flt
  let m : Sinusoid F := ⟨a, w, p⟩
  -- position level: q, qdot, qdotdot;  velocity level: u, udot;  acceleration level: udot
  [fmtFloats "O sin" [m.value s, m.dot c, m.dotdot s, m.value s, m.dot c, m.value s]]

/-- `nu nGiven r0..r5 setIdx setVal`; `nGiven = 0` means the scalar constructor -/
def handleSteady (r : Rd) : List String :=
  let (nu, r) := r.nat; let (ng, r) := r.nat; let (rs, r) := r.flts 6; let (si, r) := r.int; let (sv, _) := r.flt
  let m0 : Steady F := if ng == 0 then Steady.ofReal (rs.getD 0 0) else Steady.ofVec (rs.take ng)
  let m := if si < 0 then m0 else m0.setOne si.toNat sv
  [fmtFloats "O steady" (m.velocity nu ++ m.velocityDot nu)]

def observe (m : Mob F) : String :=
  let lv := m.lockValue
  fmtFloats ("O lockseq " ++ toString m.lockLevel.toInt ++ " " ++ (if m.isLocked then "1" else "0") ++ " " ++ toString lv.length)
    (lv ++ m.q ++ m.u)

def runOps : Nat → Mob F → Rd → List String
  | 0, _, _ => []
  | n + 1, m, r =>
    let (op, r) := r.nat; let (lvl, r) := r.int; let (k, r) := r.nat; let (vs, r) := r.flts k
    let m' := match op with
      | 0 => m.lock (Level.ofInt lvl)
      | 1 => m.lockAt (Level.ofInt lvl) vs
      | 2 => m.unlock
      | 3 => m.setQ vs
      | _ => m.setU vs
    observe m' :: runOps n m' r

/-- `nq nu defLevel q0(nq) nops {op level n vals(n)}` -/
def handleLockSeq (r : Rd) : List String :=
  let (nq, r) := r.nat; let (nu, r) := r.nat; let (dl, r) := r.int; let (q0, r) := r.flts nq; let (nops, r) := r.nat
  let m := Mob.init q0 nu (Level.ofInt dl)
  observe m :: runOps nops m r

def main : IO Unit := do
  let lines ← readStdinLines
  let out ← IO.getStdout
  for ln in lines do
    match tokens ln with
    | "I" :: fn :: _seed :: _case :: args =>
      out.putStrLn ln.trimAscii.toString
      let r : Rd := ⟨args⟩
      let res := match fn with
        | "chk" => ["O chk 1"]
        | "presc" => handlePresc r
        | "elim" => handleElim r
        | "aba" => handleAba (_seed :: _case :: args)
        | "sin" => handleSin r
        | "steady" => handleSteady r
        | "lockseq" => handleLockSeq r
        | _ => ["O " ++ fn ++ " ERR"]
      for l in res do out.putStrLn l
    | _ => pure ()
