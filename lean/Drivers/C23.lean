import SimbodyModel.Proto
import SimbodyModel.C23
/-! Driver for C23.  All tokens are hex doubles.  `flag` = 1 marks an interpolated report state (observed only), 0 a
completed integrator step.

* `I buf nops (code x y z)*`   ops on a `Measure_Delay_Buffer<Real>` pair (current / other):
      1 append tEarliest tNow v | 2 prepend t v _ | 3 other.copyInAndUpdate(current, tEarliest, tNow, v); swap |
      4 query tDelay | 5 clear
    → `O sizes …` (after every op) / `O vals …` (queries) / `O final t v t v …`   (capacities depend on `Array_`'s
      allocation policy and are not compared; the harness checks `size ≤ capacity`)
* `I ext op N t0 v0 (flag t v)*N`        → `O val …` / `O time …`   (op 0 MaxAbs, 1 Maximum, 2 MinAbs, 3 Minimum)
* `I extd op N t0 v0 (flag t v vdot)*N`  → `O val …`                (`getValue(s,1)` of an Extreme)
* `I extvec op N v0[3] (flag v[3])*N`    → `O val …`                (Extreme of a Vec3 measure, element-wise)
* `I delay d N t0 v0 (flag t v)*N`       → `O val …`
* `I diff N t0 v0 (flag t v)*N`          → `O val …`                (Differentiate, approximation in use)
* `I integ euler N ic t0 v0 (t v)*N`     → `O zdot …` / `O z …`     (Integrate: zdot = operand at every step; z predicted when
                                                                    the integrator is explicit Euler, else `O z` is empty)
* `I arith a w p t c k`                  → `O arith s0 s1 s2 s3 plus minus scale`
-/
open Proto C23

def nat (x : Float) : Nat := x.toUInt64.toNat
def nan : Float := 0.0 / 0.0

def triples : List Float → List (Bool × Float × Float)
  | f :: a :: b :: rest => (f == 1.0, a, b) :: triples rest
  | _ => []
def quads : List Float → List (Bool × Float × Float × Float)
  | f :: a :: b :: c :: rest => (f == 1.0, a, b, c) :: quads rest
  | _ => []
def vec3s : List Float → List (Bool × List Float)
  | f :: a :: b :: c :: rest => (f == 1.0, [a, b, c]) :: vec3s rest
  | _ => []
def pairs : List Float → List (Float × Float)
  | a :: b :: rest => (a, b) :: pairs rest
  | _ => []

def opOf (n : Nat) : Op := match n with | 0 => .maxAbs | 1 => .maximum | 2 => .minAbs | _ => .minimum

structure BufRun where
  cur : Buf Float
  other : Buf Float
  sizes : Array Float
  vals : Array Float

def runBuf (ops : List Float) : BufRun := Id.run do
  let mut r : BufRun := { cur := Buf.empty, other := Buf.empty, sizes := #[], vals := #[] }
  let mut rest := ops
  while !rest.isEmpty do
    match rest with
    | code :: x :: y :: z :: more =>
      rest := more
      let c := nat code
      if c = 1 then r := { r with cur := r.cur.append x y z }
      else if c = 2 then r := { r with cur := r.cur.prepend x y }
      else if c = 3 then
        let upd := r.other.copyInAndUpdate r.cur x y z
        r := { r with cur := upd, other := r.cur }
      else if c = 4 then r := { r with vals := r.vals.push ((r.cur.valueAt x).getD nan) }
      else r := { r with cur := Buf.empty }
      r := { r with sizes := r.sizes.push (Float.ofNat r.cur.size) }
    | _ => rest := []
  return r

/-- the derivative reported by an Extreme along a trajectory -/
def extdRun (op : Op) : ExtSt Float → List (Bool × Float × Float × Float) → List Float
  | _, [] => []
  | st, (rep, t, v, vd) :: rest =>
    extDeriv op st v vd :: extdRun op (if rep then st else extAdvance op st t v) rest

def main : IO Unit := do
  let lines ← readStdinLines
  let out ← IO.getStdout
  for ln in lines do
    match tokens ln with
    | "I" :: fn :: args =>
      out.putStrLn ln.trimAscii.toString
      let fs := args.map hexToFloat
      match fn, fs with
      | "buf", _ :: ops =>
        let r := runBuf ops
        out.putStrLn (fmtFloats "O sizes" r.sizes.toList)
        out.putStrLn (fmtFloats "O vals" r.vals.toList)
        out.putStrLn (fmtFloats "O final" (r.cur.entries.foldr (fun e acc => e.1 :: e.2 :: acc) []))
      | "ext", opf :: _ :: t0 :: v0 :: steps =>
        let obs := extRunF (opOf (nat opf)) (extInit t0 v0) (triples steps)
        out.putStrLn (fmtFloats "O val" (obs.map (·.1)))
        out.putStrLn (fmtFloats "O time" (obs.map (·.2.1)))
      | "extd", opf :: _ :: t0 :: v0 :: steps =>
        out.putStrLn (fmtFloats "O val" (extdRun (opOf (nat opf)) (extInit t0 v0) (quads steps)))
      | "extvec", opf :: _ :: a :: b :: c :: steps =>
        out.putStrLn (fmtFloats "O val" ((extVecRunF (opOf (nat opf)) [a, b, c] (vec3s steps)).flatten))
      | "delay", d :: _ :: t0 :: v0 :: steps =>
        let var := delayInit d t0 v0
        let obs := delayRunF d var Buf.empty (triples steps)
        out.putStrLn (fmtFloats "O val" (obs.map (·.getD nan)))
      | "diff", _ :: t0 :: v0 :: steps =>
        out.putStrLn (fmtFloats "O val" (diffRunF (diffInit t0 v0) (triples steps)))
      | "integ", euler :: _ :: ic :: t0 :: v0 :: steps =>
        let ps := pairs steps
        out.putStrLn (fmtFloats "O zdot" (integZDot v0 :: ps.map (fun p => integZDot p.2)))
        out.putStrLn (fmtFloats "O z" (if euler == 1.0 then integInit ic :: integEulerRun (integInit ic) t0 v0 ps else [integInit ic]))
      | "arith", [a, w, p, t, c, k] =>
        let arg := w * t + p
        let s := Float.sin arg; let co := Float.cos arg
        let s0 := sinusoid 0 a w s co
        out.putStrLn (fmtFloats "O arith" [s0, sinusoid 1 a w s co, sinusoid 2 a w s co, sinusoid 3 a w s co,
                                           plus (scale c s0) k, minus (scale c s0) k, scale c s0])
      | _, _ => out.putStrLn ("O " ++ fn ++ " ERR")
    | _ => pure ()
