import SimbodyModel.Proto
import SimbodyModel.C23
/-! Driver for C23.  All tokens are hex doubles.

* `I buf nops (code x y z)*`   ops on a `Measure_Delay_Buffer<Real>` pair (current / other):
      1 append tEarliest tNow v | 2 prepend t v _ | 3 other.copyInAndUpdate(current, tEarliest, tNow, v); swap |
      4 query tDelay | 5 clear
    → `O sizes …` (after every op) / `O vals …` (queries) / `O final t v t v …`   (capacities depend on `Array_`'s
      allocation policy and are not compared; the harness checks `size ≤ capacity`)
* `I ext op N t0 v0 (t v)*N`        → `O val …` / `O time …`     (Extreme on an integrator trajectory; op 0 MaxAbs,1 Maximum,2 MinAbs,3 Minimum)
* `I delay d N t0 v0 (t v)*N`       → `O val …`
* `I diff N t0 v0 (t v)*N`          → `O val …`                  (Differentiate, approximation in use)
* `I arith a w p t c k`             → `O arith s0 s1 s2 s3 plus minus scale`
-/
open Proto C23

def nat (x : Float) : Nat := x.toUInt64.toNat
def nan : Float := 0.0 / 0.0

def pairs : List Float → List (Float × Float)
  | a :: b :: rest => (a, b) :: pairs rest
  | _ => []

def opOf (n : Nat) : Op := match n with | 0 => .maxAbs | 1 => .maximum | 2 => .minAbs | _ => .minimum

structure BufRun where
  cur : Buf Float
  other : Buf Float
  sizes : Array Float
  caps : Array Float
  vals : Array Float

def runBuf (ops : List Float) : BufRun := Id.run do
  let mut r : BufRun := { cur := Buf.empty, other := Buf.empty, sizes := #[], caps := #[], vals := #[] }
  let mut rest := ops
  while !rest.isEmpty do
    match rest with
    | code :: x :: y :: z :: more =>
      rest := more
      let c := nat code
      if c = 1 then r := { r with cur := r.cur.append x y z }
      else if c = 2 then r := { r with cur := r.cur.prepend x y }
      else if c = 3 then
        let upd := r.other.copyInAndUpdate r.cur x y z
        r := { r with cur := upd, other := r.cur }
      else if c = 4 then r := { r with vals := r.vals.push ((r.cur.valueAt x).getD nan) }
      else r := { r with cur := Buf.empty }
      r := { r with sizes := r.sizes.push (Float.ofNat r.cur.size), caps := r.caps.push (Float.ofNat r.cur.cap) }
    | _ => rest := []
  return r

def main : IO Unit := do
  let lines ← readStdinLines
  let out ← IO.getStdout
  for ln in lines do
    match tokens ln with
    | "I" :: fn :: args =>
      out.putStrLn ln.trimAscii.toString
      let fs := args.map hexToFloat
      match fn, fs with
      | "buf", _ :: ops =>
        let r := runBuf ops
        out.putStrLn (fmtFloats "O sizes" r.sizes.toList)
        out.putStrLn (fmtFloats "O vals" r.vals.toList)
        out.putStrLn (fmtFloats "O final" (r.cur.entries.foldr (fun e acc => e.1 :: e.2 :: acc) []))
      | "ext", opf :: _ :: t0 :: v0 :: steps =>
        let obs := extRun (opOf (nat opf)) (extInit t0 v0) (pairs steps)
        out.putStrLn (fmtFloats "O val" (obs.map (·.1)))
        out.putStrLn (fmtFloats "O time" (obs.map (·.2.1)))
      | "delay", d :: _ :: t0 :: v0 :: steps =>
        let var := delayInit d t0 v0
        let obs := delayRun d var Buf.empty (pairs steps)
        out.putStrLn (fmtFloats "O val" (obs.map (·.getD nan)))
      | "diff", _ :: t0 :: v0 :: steps =>
        let ps := pairs steps
        let ts := t0 :: ps.map (·.1)
        let flagged := (ps.zip ts).map (fun (p, tprev) => (p.1, p.2, p.1 == tprev))
        out.putStrLn (fmtFloats "O val" (diffRun (diffInit t0 v0) flagged))
      | "arith", [a, w, p, t, c, k] =>
        let arg := w * t + p
        let s := Float.sin arg; let co := Float.cos arg
        let s0 := sinusoid 0 a w s co
        out.putStrLn (fmtFloats "O arith" [s0, sinusoid 1 a w s co, sinusoid 2 a w s co, sinusoid 3 a w s co,
                                           plus (scale c s0) k, minus (scale c s0) k, scale c s0])
      | _, _ => out.putStrLn ("O " ++ fn ++ " ERR")
    | _ => pure ()
