import SimbodyModel.Proto
import SimbodyModel.C44
/-! Driver for C44.  All input tokens are hex doubles (integers travel as exactly representable doubles).

Problem encoding (shared by `pgs`, `pgsbil`, `plus`):
  m p nExp nUncond nUni nBnd nState nCons hasApplied tol maxIters sor0
  A[m*m] (row major)  D[m]  participating[p]  expanding[nExp]  piExpand[m]  verrStart[m]  verrApplied[m if hasApplied]
  uncond groups: (size, rows…)*   uni contacts: (Nk sign nF Fk… type mu)*   bounded: (ix lb ub)*
  state-limited: (nF Fk… knownN mu)*   constraint-limited: (nF Fk… nN Nk… mu)*
* `I pgs <problem>`     → `O conv c` / `O pi …` / `O verr …` / `O cond …`      (PGSImpulseSolver::solve)
* `I pgsbil <problem>`  → `O conv c` / `O pi …`                                 (PGSImpulseSolver::solveBilateral)
* `I plus <problem> checkLinear tol scale pi[m]` → `O plus 1|0`   (exact-rational contract on what PLUS returned)
-/
open Proto C44

def nat (x : Float) : Nat := x.toUInt64.toNat

abbrev Rd := StateM (List Float)
def rd1 : Rd Float := do
  let s ← get
  match s with
  | x :: r => set r; pure x
  | [] => pure (0.0 / 0.0)
def rdN (n : Nat) : Rd (List Float) := do
  let s ← get
  set (s.drop n); pure (s.take n)
def rdNat : Rd Nat := do pure (nat (← rd1))
def rdNats (n : Nat) : Rd (List Nat) := do pure ((← rdN n).map nat)
def rdMany {α : Type} (n : Nat) (f : Rd α) : Rd (List α) := do
  let mut out : Array α := #[]
  for _ in [0:n] do out := out.push (← f)
  pure out.toList

structure Parsed where
  P : Problem Float
  tol : Float
  maxIters : Nat
  sor0 : Float

def rdProblem : Rd Parsed := do
  let m ← rdNat; let p ← rdNat; let nExp ← rdNat; let nUncond ← rdNat; let nUni ← rdNat
  let nBnd ← rdNat; let nState ← rdNat; let nCons ← rdNat; let hasApplied ← rdNat
  let tol ← rd1; let maxIters ← rdNat; let sor0 ← rd1
  let Aflat ← rdN (m * m)
  let A : Array (Array Float) := (Array.range m).map (fun r => ((Aflat.drop (r * m)).take m).toArray)
  let D ← rdN m
  let part ← rdNats p
  let expd ← rdNats nExp
  let piE ← rdN m
  let verr ← rdN m
  let vapp ← if hasApplied = 1 then rdN m else pure []
  let uncond ← rdMany nUncond (do let k ← rdNat; rdNats k)
  let uni ← rdMany nUni (do
    let Nk ← rdNat; let sign ← rd1; let nF ← rdNat; let Fk ← rdNats nF; let type ← rdNat; let mu ← rd1
    pure ({ Nk := Nk, sign := sign, Fk := Fk, type := type, mu := mu } : UniContact Float))
  let bnd ← rdMany nBnd (do
    let ix ← rdNat; let lb ← rd1; let ub ← rd1
    pure ({ ix := ix, lb := lb, ub := ub } : Bounded Float))
  let stl ← rdMany nState (do
    let nF ← rdNat; let Fk ← rdNats nF; let kn ← rd1; let mu ← rd1
    pure ({ Fk := Fk, knownN := kn, mu := mu } : StateLtd Float))
  let cl ← rdMany nCons (do
    let nF ← rdNat; let Fk ← rdNats nF; let nN ← rdNat; let Nk ← rdNats nN; let mu ← rd1
    pure ({ Fk := Fk, Nk := Nk, mu := mu } : ConsLtd Float))
  pure { P := { m := m, A := A, D := D.toArray, participating := part, expanding := expd, piExpand := piE.toArray,
                verrStart := verr.toArray, verrApplied := vapp.toArray, uncond := uncond, uniContact := uni,
                bounded := bnd, stateLtd := stl, consLtd := cl },
         tol := tol, maxIters := maxIters, sor0 := sor0 }

def inf : Float := 1.0 / 0.0

def pad (n : Nat) (l : List Nat) : List Nat := if l.length = n then l else List.replicate n 9

def codes (l : List Nat) : String := l.foldl (fun s c => s ++ " " ++ toString c) ""

def toRatProblem (P : Problem Float) : Problem Rat :=
  let r := floatToRat
  { m := P.m, A := P.A.map (·.map r), D := P.D.map r, participating := P.participating, expanding := P.expanding,
    piExpand := P.piExpand.map r, verrStart := P.verrStart.map r, verrApplied := P.verrApplied.map r,
    uncond := P.uncond,
    uniContact := P.uniContact.map (fun c => { Nk := c.Nk, sign := r c.sign, Fk := c.Fk, type := c.type, mu := r c.mu }),
    bounded := P.bounded.map (fun b => { ix := b.ix, lb := r b.lb, ub := r b.ub }),
    stateLtd := P.stateLtd.map (fun s => { Fk := s.Fk, knownN := r s.knownN, mu := r s.mu }),
    consLtd := P.consLtd.map (fun c => { Fk := c.Fk, Nk := c.Nk, mu := r c.mu }) }

def main : IO Unit := do
  let lines ← readStdinLines
  let out ← IO.getStdout
  let mut nrec : Nat := 0
  for ln in lines do
    match tokens ln with
    | "I" :: fn :: args =>
      out.putStrLn ln.trimAscii.toString
      let fs := args.map hexToFloat
      if fn == "summary" then
        out.putStrLn s!"O summary {nrec}"
        continue
      nrec := nrec + 1
      if fn == "pgs" || fn == "pgsbil" then
        let (q, _) := rdProblem.run fs
        let P := q.P
        let pK := Float.ofNat P.participating.length
        let R := pgsSolve Float.sqrt P pK q.tol q.sor0 0.1 0.8 inf q.maxIters
        out.putStrLn ("O conv " ++ (if R.converged then "1" else "0"))
        out.putStrLn (fmtFloats "O pi" R.pi.toList)
        if fn == "pgs" then
          out.putStrLn (fmtFloats "O verr" R.verrOut.toList)
          out.putStrLn ("O cond" ++ codes (pad P.uniContact.length R.last.uniCond) ++ " |"
            ++ codes (pad P.uniContact.length R.last.fricCond) ++ " |" ++ codes (pad P.bounded.length R.last.bndCond) ++ " |"
            ++ codes (pad P.stateLtd.length R.last.stateCond) ++ " |" ++ codes (pad P.consLtd.length R.last.consCond))
      else if fn == "plus" then
        let ((q, rest), _) := (do let q ← rdProblem; let r ← get; pure (q, r) : Rd (Parsed × List Float)).run fs
        match rest with
        | chk :: tol :: scale :: pis =>
          if fs.any (fun x => !x.isFinite) then out.putStrLn "O plus 0" else
          let PR := toRatProblem q.P
          let rhs := assembleRhs PR
          let ok := plusAccept PR rhs (pis.map floatToRat).toArray (floatToRat tol) (floatToRat scale) (nat chk = 1)
          out.putStrLn (if ok then "O plus 1" else "O plus 0")
        | _ => out.putStrLn "O plus ERR"
      else out.putStrLn ("O " ++ fn ++ " ERR")
    | _ => pure ()
