import SimbodyModel.Proto
import SimbodyModel.Mobilizer
import SimbodyModel.MobilizerIO
/-! Driver for C03: answers `I mob …` (one body on Ground) and `I tree …` (small trees) with the model's position and
velocity kinematics, `N`, `NInv`, `NDot` products, `qdot`, `qdotdot` and the mobilizer Coriolis acceleration. -/
open Proto Mobilizer MobilizerIO

def answerMob (c : Case) : List String :=
  let b := c.body
  let S := b.spec
  let k := b.kin Xf.one SV.zero
  let R := k.X_FM.R
  [line "X_FM" (xfL k.X_FM), line "V_FM" (svL k.V_FM), line "H_FM" (hL k.H_FM), line "H" (hL k.H),
   line "X_GB" (xfL k.X_GBv), line "V_GB" (svL k.V_GBv),
   line "vS" (v3L (stationVel k.X_GBv k.V_GBv c.station)),
   line "qdot" k.qdot,
   line "qdotdot" (S.qdotdot b.C R k.qdot b.u c.udot),
   line "Nvu" (S.mulN b.C R c.vu), line "NTvq" (S.mulNT b.C R c.vq),
   line "NInvvq" (S.mulNInv b.C R c.vq), line "NInvTvu" (S.mulNInvT b.C R c.vu),
   line "NDotvu" (S.mulNDot b.C R k.qdot c.vu), line "NDotTvq" (S.mulNDotT b.C R k.qdot c.vq),
   line "Vcor" (svL k.V_GBv ++ svL k.cor)]

/-- bodies come parent-first; `done` holds (X_GB, V_GB) of Ground and of the bodies processed so far -/
def treeLoop : List (Nat × Body) → Array (Xf Float × SV Float) → Nat → List String → List String × Array (Xf Float × SV Float)
  | [], done, _, acc => (acc.reverse, done)
  | (p, b) :: rest, done, i, acc =>
    let (X_GP, V_GP) := done.getD p (Xf.one, SV.zero)
    let k := b.kin X_GP V_GP
    let acc := line ("Vcor." ++ toString i) (svL k.V_GBv ++ svL k.cor) :: line ("V_GB." ++ toString i) (svL k.V_GBv)
                 :: line ("X_GB." ++ toString i) (xfL k.X_GBv) :: acc
    treeLoop rest (done.push (k.X_GBv, k.V_GBv)) (i + 1) acc

partial def parseBodies : Nat → List String → List (Nat × Body) → Option (List (Nat × Body) × List String)
  | 0, rest, acc => some (acc.reverse, rest)
  | n + 1, p :: ty :: rev :: euler :: ax :: rest, acc =>
    match parseBody ty rev euler ax ((rest.take 45).map hexToFloat) with
    | some b => parseBodies n (rest.drop 45) ((p.toNat!, b) :: acc)
    | none => none
  | _, _, _ => none

def answerTree (toks : List String) : List String :=
  match toks with
  | nS :: rest =>
    match parseBodies nS.toNat! rest [] with
    | some (bodies, tail) =>
      let station := v3Of (tail.map hexToFloat)
      let (ls, done) := treeLoop bodies #[(Xf.one, SV.zero)] 1 []
      let (Xl, Vl) := done.getD (done.size - 1) (Xf.one, SV.zero)
      ls ++ [line "vS" (v3L (stationVel Xl Vl station))]
    | none => ["O tree ERR"]
  | _ => ["O tree ERR"]

def main : IO Unit := do
  let lines ← readStdinLines
  let out ← IO.getStdout
  for ln in lines do
    match tokens ln with
    | "I" :: "mobfb" :: rest =>     -- FunctionBased mirror: same model as the built-in type (C06 `fbX0_eq_X0`)
      out.putStrLn ln.trimAscii.toString
      match parseCase rest with
      | some c => for l in answerMob c do out.putStrLn l
      | none => out.putStrLn "O mob ERR"
    | "I" :: "mob" :: rest =>
      out.putStrLn ln.trimAscii.toString
      match parseCase rest with
      | some c => for l in answerMob c do out.putStrLn l
      | none => out.putStrLn "O mob ERR"
    | "I" :: "tree" :: rest =>
      out.putStrLn ln.trimAscii.toString
      for l in answerTree rest do out.putStrLn l
    | "I" :: _ => out.putStrLn ln.trimAscii.toString
    | _ => pure ()
