import SimbodyModel.Proto
import SimbodyModel.C34
/-! Driver for C34: answers every `I <fn> <class> <hex>…` record of harness/C34.cpp with the model's value
(`SimbodyModel/C34.lean` instantiated at `Float`).  `<class>` is the input-class tag of the harness (it only
selects predicate keys on the C++ side and is ignored here).  Records whose `<fn>` starts with `p.` carry
implementation-side predicates only and are answered with `O <fn> -`. -/
open Proto Geom

def eps64 : Float := 2.220446049250313e-16
def significant : Float := Float.pow eps64 0.875
def tinyR : Float := Float.pow eps64 1.25
def sqrtEps : Float := Float.sqrt eps64
def hatV : V3 Float := ⟨1, 1.1, 1.2⟩
def fsqrt : Float → Float := Float.sqrt

def v3 (a b c : Float) : V3 Float := ⟨a, b, c⟩
def bit (b : Bool) : String := if b then "1" else "0"
def fl (xs : List Float) : String := xs.foldl (fun s x => s ++ " " ++ floatToHex x) ""
def m3l (m : M3 Float) : List Float := m.r0.toList ++ m.r1.toList ++ m.r2.toList

def outNearest (fn : String) (n : Nearest Float) : List String :=
  ["O " ++ fn ++ fl n.pt.toList ++ " " ++ bit n.inside ++ fl n.normal.toList]

def outRay (fn : String) (h : RayHit Float) : List String :=
  match h with
  | none => ["O " ++ fn ++ " 0"]
  | some (d, n) => ["O " ++ fn ++ " 1" ++ fl (d :: n.toList)]

/-- largest real root of the model's degree-6 polynomial: bisection of the model polynomial on
`(−m, U)`, `m` = smallest `aᵢ²` among axes with `pᵢ ≠ 0` (the polynomial is negative just right of `−m` and
positive at the Cauchy bound `U`), joined with the double roots `−aᵢ²` of the axes with `pᵢ = 0`. -/
def ellLargestRoot (r p : V3 Float) : Float := Id.run do
  let cs := Ell.secularCoeffs r p
  let sqs := [(r.x * r.x, p.x), (r.y * r.y, p.y), (r.z * r.z, p.z)]
  let nz := sqs.filter (fun (_, q) => q != 0)
  let zs := sqs.filter (fun (_, q) => q == 0)
  let dbl := zs.foldl (fun acc (a2, _) => if -a2 > acc then -a2 else acc) (-1.0e300)
  if nz.isEmpty then return dbl
  let m := nz.foldl (fun acc (a2, _) => if a2 < acc then a2 else acc) 1.0e300
  let U := 1 + cs.foldl (fun acc c => if c.abs > acc then c.abs else acc) 0
  let mut lo := -m
  let mut hi := U
  for _ in [0:200] do
    let mid := 0.5 * (lo + hi)
    if Ell.horner cs mid < 0 then lo := mid else hi := mid
  let t := 0.5 * (lo + hi)
  return (if dbl > t then dbl else t)

def handle (fn : String) (a : List Float) : Option (List String) :=
  match fn, a with
  | "consts", _ => some ["O consts" ++ fl [eps64, significant, tinyR, sqrtEps]]
  -- half space
  | "hs.nearest", [x, y, z] => some (outNearest fn (HS.nearest (v3 x y z)))
  | "hs.ray", [ox, oy, oz, dx, dy, dz] => some (outRay fn (HS.ray significant (v3 ox oy oz) (v3 dx dy dz)))
  | "hs.val", [x, y, z] =>
    let p := v3 x y z
    some ["O hs.val" ++ fl (HS.value p :: (HS.grad p).toList ++ m3l (HS.hess p))]
  -- sphere
  | "sph.nearest", [r, x, y, z] => some (outNearest fn (Sph.nearest fsqrt r (v3 x y z)))
  | "sph.ray", [r, ox, oy, oz, dx, dy, dz] => some (outRay fn (Sph.ray fsqrt r (v3 ox oy oz) (v3 dx dy dz)))
  | "sph.val", [r, x, y, z] =>
    let p := v3 x y z
    some ["O sph.val" ++ fl (Sph.value r p :: (Sph.grad p).toList ++ m3l Sph.hess),
          "O sph.imp" ++ fl (Sph.implicit r p :: (Sph.implicitGrad r p).toList ++ m3l (Sph.implicitHess r))]
  | "sph.support", [r, dx, dy, dz] => some ["O sph.support" ++ fl (Sph.support r (v3 dx dy dz)).toList]
  | "sph.bound", [r] => some ["O sph.bound" ++ fl [0, 0, 0, Sph.boundRadius r]]
  | "sph.curv", [r, x, y, z, _dx, _dy, _dz] =>
    let p := v3 x y z
    some ["O sph.curv" ++ fl [Sph.curvature r, gaussCurv (Sph.grad p) Sph.hess]]
  -- cylinder
  | "cyl.nearest", [r, x, y, z] => some (outNearest fn (Cyl.nearest fsqrt tinyR sqrtEps hatV r (v3 x y z)))
  | "cyl.ray", [r, ox, oy, oz, dx, dy, dz] => some (outRay fn (Cyl.ray fsqrt r (v3 ox oy oz) (v3 dx dy dz)))
  | "cyl.val", [r, x, y, z] =>
    let p := v3 x y z
    some ["O cyl.val" ++ fl (Cyl.value r p :: (Cyl.grad p).toList ++ m3l Cyl.hess),
          "O cyl.imp" ++ fl (Cyl.implicit r p :: (Cyl.implicitGrad r p).toList ++ m3l (Cyl.implicitHess r))]
  | "cyl.curv", [_r, x, y, z, dx, dy, dz] =>
    let p := v3 x y z
    some ["O cyl.curv" ++ fl [Cyl.curvInDirection fsqrt tinyR p (v3 dx dy dz), gaussCurv (Cyl.grad p) Cyl.hess]]
  -- ellipsoid
  | "ell.nearest", [a, b, c, x, y, z] =>
    let r := v3 a b c; let p := v3 x y z
    some (outNearest fn (Ell.nearest fsqrt r p (ellLargestRoot r p)))
  | "ell.ray", [a, b, c, ox, oy, oz, dx, dy, dz] =>
    some (outRay fn (Ell.ray fsqrt (v3 a b c) (v3 ox oy oz) (v3 dx dy dz)))
  | "ell.val", [a, b, c, x, y, z] =>
    let r := v3 a b c; let p := v3 x y z
    some ["O ell.val" ++ fl (Ell.value r p :: (Ell.grad r p).toList ++ m3l (Ell.hess r))]
  | "ell.support", [a, b, c, dx, dy, dz] =>
    some ["O ell.support" ++ fl (Ell.support fsqrt (v3 a b c) (v3 dx dy dz)).toList]
  | "ell.bound", [a, b, c] => some ["O ell.bound" ++ fl [0, 0, 0, Ell.boundRadius (v3 a b c)]]
  | "ell.curv", [a, b, c, x, y, z, dx, dy, dz] =>
    let r := v3 a b c; let p := v3 x y z
    let g := Ell.grad r p
    let nn := unitNormalOf fsqrt tinyR sqrtEps hatV (Ell.grad r) p
    some ["O ell.curv" ++ fl [curvInDir tinyR g nn (Ell.hess r) (v3 dx dy dz), gaussCurv g (Ell.hess r)]]
  | "tor.curv", [R, r, x, y, z, dx, dy, dz] =>
    let p := v3 x y z
    let g := Tor.grad fsqrt R r p
    let nn := unitNormalOf fsqrt tinyR sqrtEps hatV (Tor.grad fsqrt R r) p
    some ["O tor.curv" ++ fl [curvInDir tinyR g nn (Tor.hess fsqrt R r p) (v3 dx dy dz), gaussCurv g (Tor.hess fsqrt R r p)]]
  | "ell.dir", [a, b, c, x, y, z] =>
    let r := v3 a b c; let q := v3 x y z
    some ["O ell.dir" ++ fl ((Ell.pointInSameDirection fsqrt r q).toList ++ (Ell.unitNormalAt fsqrt r q).toList)]
  -- torus
  | "tor.nearest", [R, r, x, y, z] => some ["O tor.nearest" ++ fl (Tor.nearestPt fsqrt eps64 R r (v3 x y z)).toList]
  | "tor.val", [R, r, x, y, z] =>
    let p := v3 x y z
    some ["O tor.val" ++ fl (Tor.value fsqrt R r p :: (Tor.grad fsqrt R r p).toList ++ m3l (Tor.hess fsqrt R r p))]
  | "tor.bound", [R, r] => some ["O tor.bound" ++ fl [0, 0, 0, Tor.boundRadius R r]]
  -- brick / Geo::Box
  | "box.nearest", [hx, hy, hz, x, y, z] =>
    let h := v3 hx hy hz; let p := v3 x y z
    let (cs, ins) := Box.closestSurface h p
    let (cb, insb) := Box.closestSolid h p
    some ["O box.nearest" ++ fl cs.toList ++ " " ++ bit ins ++ fl cb.toList ++ " " ++ bit insb ++ " "
            ++ bit (Box.containsPoint h p) ++ fl [Box.distSq h p]]
  | "box.support", [hx, hy, hz, dx, dy, dz] =>
    some ["O box.support" ++ fl (Box.support (v3 hx hy hz) (v3 dx dy dz)).toList]
  | "box.bound", [hx, hy, hz] => some ["O box.bound" ++ fl [0, 0, 0, Box.boundRadius fsqrt (v3 hx hy hz)]]
  | _, _ => none

def main : IO Unit := do
  let lines ← readStdinLines
  let out ← IO.getStdout
  for ln in lines do
    match tokens ln with
    | "I" :: fn :: rest =>
      out.putStrLn ln.trimAscii.toString
      if fn.startsWith "p." then out.putStrLn ("O " ++ fn ++ " -")
      else
        -- first token after fn is the input-class tag (not a number)
        let args := (rest.drop 1).map hexToFloat
        match handle fn args with
        | some ls => for l in ls do out.putStrLn l
        | none => out.putStrLn ("O " ++ fn ++ " ERR")
    | _ => pure ()
