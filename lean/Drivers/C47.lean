import SimbodyModel.Proto
import SimbodyModel.C47
/-! Driver for C47: the analytic geodesic loops of the model (`R = dR * R` per knot) at `Float`.
* `geo.sph cls r p0(3) ta(3) L N` / `geo.cyl cls R p0(3) ta(3) L N` → one `O … knot` line per knot:
  arc length, point, tangent, jacobiRot, jacobiRotDot, jacobiTrans, jacobiTransDot
* `geo.sphPQ cls r P Q tP tQ`, `geo.cylPQ cls R P Q tP tQ` → length of `calcGeodesicAnalytical`
* `p.*` → predicates only -/
open Proto Geom Geom.Geo

def fl (xs : List Float) : String := xs.foldl (fun s x => s ++ " " ++ floatToHex x) ""
def twoPi : Float := 6.283185307179586
def knotLine (fn : String) (k : Knot Float) : String :=
  "O " ++ fn ++ fl ([k.s] ++ k.point.toList ++ k.tangent.toList ++ [k.jRot, k.jRotDot, k.jTrans, k.jTransDot])

def handle (fn : String) (a : List Float) : List String :=
  match fn, a with
  | "geo.sph", [r, px, py, pz, tx, ty, tz, L, Nf] =>
    let N := Nf.toUInt64.toNat
    let n := V3.unit Float.sqrt ⟨px, py, pz⟩
    let t := startTangent Float.sqrt n ⟨tx, ty, tz⟩
    let dAngle := L / (r * (Nf - 1))
    -- the loop as coded: `R = dR * R` once per knot (proved equal to the closed form `Sph.knot` at the trig pair of k·dAngle)
    (List.range N).map (fun k =>
      knotLine fn (Sph.knotLoop r n t (Float.cos dAngle) (Float.sin dAngle) k (L * (k.toFloat / (Nf - 1)))))
  | "geo.cyl", [R, px, py, pz, tx, ty, tz, L, Nf] =>
    let N := Nf.toUInt64.toNat
    let n0 := V3.unit Float.sqrt ⟨px, py, 0⟩
    let t0 := startTangent Float.sqrt n0 ⟨tx, ty, tz⟩
    let angle := Cyl.omega R n0 t0 * L
    let dAngle := angle / (Nf - 1)
    (List.range N).map (fun k =>
      knotLine fn (Cyl.knotLoop R n0 t0 pz (Float.cos dAngle) (Float.sin dAngle) k (L * (k.toFloat / (Nf - 1)))))
  | "geo.sphPQ", [r, px, py, pz, qx, qy, qz, ax, ay, az, bx, b_y, bz] =>
    ["O geo.sphPQ" ++ fl [sphPQLength Float.sqrt Float.atan2 twoPi r ⟨px, py, pz⟩ ⟨qx, qy, qz⟩ ⟨ax, ay, az⟩ ⟨bx, b_y, bz⟩]]
  | "geo.cylPQ", [R, px, py, pz, qx, qy, qz, ax, ay, az, bx, b_y, bz] =>
    ["O geo.cylPQ" ++ fl [cylPQLength Float.sqrt Float.atan2 twoPi R ⟨px, py, pz⟩ ⟨qx, qy, qz⟩ ⟨ax, ay, az⟩ ⟨bx, b_y, bz⟩]]
  | _, _ => ["O " ++ fn ++ " ERR"]

def main : IO Unit := do
  let lines ← readStdinLines
  let out ← IO.getStdout
  for ln in lines do
    match tokens ln with
    | "I" :: fn :: rest =>
      out.putStrLn ln.trimAscii.toString
      if fn.startsWith "p." then out.putStrLn ("O " ++ fn ++ " -")
      else for l in handle fn ((rest.drop 1).map hexToFloat) do out.putStrLn l
    | _ => pure ()
