import SimbodyModel.Proto
import SimbodyModel.C33
import SimbodyModel.C33_PE
import SimbodyModel.C33_WQ
/-! Driver for C33.  Answers the harness records with what the *model* predicts:

* `I pe …`  : runs the ParallelExecutor transition system (`C33.PE.step`) under a seeded random schedule (with
  spurious wake-ups) to its final state and reports, per `execute`, the numbers of `initialize`/`finish` callbacks
  and the sorted executed indices found in the ghost history;
* `I p2d …` : the static partition (`C33.planInit`, `p2dRounds`) composed with the same transition system (one
  `execute` per pass);
* `I wq …`  : runs the ParallelWorkQueue transition system (`C33.WQ.step`) likewise.

* `I petrace …` : the callback-level trace logged by the harness is replayed on `C33.PE.step`: every logged event must be
  the enabled visible step of the named thread (silent steps are taken eagerly, NO spurious wake-ups), the caller's
  return must find `waitingThreadCount == n`, and the destructor must reach `final`.

The proved theorems say the `pe`/`p2d`/`wq` observations do not depend on the schedule; the schedule seed is the harness' `yseed`. -/
open Proto

namespace C33Drv

def runsOf (xs : List Nat) : List String :=
  let sorted := (xs.toArray.qsort (· < ·)).toList
  let rec go (l : List Nat) (start cur : Nat) (acc : Array String) (fuel : Nat) : Array String :=
    match fuel, l with
    | 0, _ => acc
    | _, [] => acc.push s!"{start}-{cur}"
    | f + 1, x :: r => if x == cur + 1 then go r start x acc f else go r x x (acc.push s!"{start}-{cur}") f
  match sorted with
  | [] => []
  | x :: r => (go r x x #[] (r.length + 1)).toList

/-- compact the closure chain of `wk` (pure optimisation: same function on `0..n-1`, default elsewhere) -/
def compactPE (s : C33.PE.State) : C33.PE.State :=
  let arr := (List.range s.n).toArray.map s.wk
  let dflt := s.wk s.n
  { s with wk := fun v => if h : v < arr.size then arr[v] else dflt }

/-- seeded random schedule until the caller reaches `final` (or the fuel runs out) -/
partial def runPE (s : C33.PE.State) (g : SplitMix) (fuel : Nat) : C33.PE.State × Bool :=
  if s.mpc == .final then (s, true)
  else if fuel == 0 then (s, false)
  else
    let s := if fuel % 64 == 0 then compactPE s else s
    let (r, g) := g.below (s.n + 1)
    let (sp, g) := g.below 16
    let tid : C33.PE.Tid := if r == 0 then .main else .worker (r - 1)
    -- an occasional spurious wake-up of the chosen thread
    let s := if sp == 0 then (C33.PE.step s (.spurious tid)).getD s else s
    match C33.PE.step s (.step tid) with
    | some s' => runPE s' g (fuel - 1)
    | none =>
      -- chosen thread not enabled: take the first enabled one in cyclic order
      let cands := (List.range (s.n + 1)).map (fun k => (r + k) % (s.n + 1))
      let next := cands.findSome? (fun k =>
        C33.PE.step s (.step (if k == 0 then .main else .worker (k - 1))))
      match next with
      | some s' => runPE s' g (fuel - 1)
      | none => (s, false)

def countEv (p : C33.PE.WEv → Bool) (round : List (List C33.PE.WEv)) : Nat :=
  (round.map (fun l => (l.filter p).length)).foldl (· + ·) 0

def isInit : C33.PE.WEv → Bool | .init => true | _ => false
def isFin : C33.PE.WEv → Bool | .fin => true | _ => false

/-- per `execute` call: (ninit, nfinish, executed task indices) as predicted by the model for `threads` -/
def peModel (threads : Nat) (seed : Nat) (times : List Nat) : Option (List (Nat × Nat × List Nat)) :=
  if threads < 2 then
    -- `numMaxThreads < 2`: the caller runs initialize; execute(0..times-1); finish
    some (times.map fun t => (1, 1, (C33.peAssignment threads t).flatten))
  else
    let work := times.foldl (· + ·) 0
    let (s, ok) := runPE (C33.PE.init threads times) ⟨UInt64.ofNat (seed + 1)⟩ (400 * (work + 40 * threads * (times.length + 1)) + 10000)
    if ok && s.hist.length == times.length then
      some (s.hist.map fun round => (countEv isInit round, countEv isFin round, (round.map C33.PE.execsOf).flatten))
    else none

def handlePE (toks : List String) : List String :=
  match toks with
  | th :: ys :: ts =>
    match peModel th.toNat! ys.toNat! (ts.map String.toNat!) with
    | some rounds =>
      (List.range rounds.length).zip rounds |>.map fun (r, (ni, nf, idx)) =>
        " ".intercalate (["O", "pe", toString r, toString ni, toString nf] ++ runsOf idx)
    | none => ["O pe MODEL-STUCK"]
  | _ => ["O pe ERR"]

/-! ### validation of a callback-level trace as a run of the ParallelExecutor transition system (no spurious wake-ups) -/

/-- a worker step that is not a user-visible event: everything except `initialize`, entering/leaving
`task.execute`, entering/leaving `task.finish` -/
def silentW (s : C33.PE.State) (w : Nat) : Bool :=
  let x := s.wk w
  match x.pc with
  | .loopTest | .lockAcq | .waitChk | .reacq | .unlock1 | .test2 | .clearRun => true
  | .exec => !(x.idx < x.cnt)
  | _ => false

/-- let every worker take all the silent steps it can (they are deterministic; the order is irrelevant) -/
partial def saturate (s : C33.PE.State) (fuel : Nat) : C33.PE.State :=
  if fuel == 0 then s else
  let (s', changed) := (List.range s.n).foldl (fun (acc : C33.PE.State × Bool) w =>
      let (st, ch) := acc
      if silentW st w then
        match C33.PE.step st (.step (.worker w)) with
        | some st' => (st', true)
        | none => (st, ch)
      else (st, ch)) (s, false)
  if changed then saturate s' (fuel - 1) else s'

def stepW (s : C33.PE.State) (w : Nat) : Option C33.PE.State := C33.PE.step s (.step (.worker w))
def stepM (s : C33.PE.State) : Option C33.PE.State := C33.PE.step s (.step .main)

/-- process one logged event; `none` = the transition system cannot do that now -/
def applyEvent (s : C33.PE.State) (ev : String) : Option C33.PE.State :=
  let kind := ev.front
  let body := (ev.drop 1).toString
  let parts := body.splitOn ":"
  let w := (parts.headD "0").toNat!
  let idx := ((parts.drop 1).headD "0").toNat!
  let sat (x : Option C33.PE.State) : Option C33.PE.State := x.map (fun st => saturate st 10000)
  match kind with
  | 'C' =>   -- the caller enters execute(): idle -> lock -> setup -> waitChk -> blocked (predicate false) / stays
    if s.mpc != .idle || s.todo.isEmpty then none else
    sat ((stepM s).bind stepM |>.bind stepM |>.bind stepM)
  | 'R' =>   -- execute() returns: the caller must have been woken by the last finish (or never blocked)
    let s1 := if s.mpc == .reacq then stepM s else some s
    match s1 with
    | some st => if st.mpc == .waitChk && st.waiting == st.n then sat (stepM st) else none
    | none => none
  | 'i' => if (s.wk w).pc == .init then sat (stepW s w) else none
  | 'b' => if (s.wk w).pc == .exec && (s.wk w).idx == idx && (s.wk w).idx < (s.wk w).cnt then sat (stepW s w) else none
  | 'e' => if (s.wk w).pc == .inExec && (s.wk w).idx == idx then sat (stepW s w) else none
  | 'f' => if (s.wk w).pc == .finLock then sat (stepW s w) else none      -- needs the mutex: rejects overlapping finish()
  | 'g' => if (s.wk w).pc == .inFin then sat (stepW s w) else none
  | _ => none

/-- the destructor: from `idle` with nothing left to do, every thread runs (no spurious wake-ups) until `final` -/
partial def shutdown (s : C33.PE.State) (fuel : Nat) : Bool :=
  if s.mpc == .final then true
  else if fuel == 0 then false
  else
    let cands : List C33.PE.Tid := .main :: (List.range s.n).map .worker
    match cands.findSome? (fun t => C33.PE.step s (.step t)) with
    | some s' => shutdown s' (fuel - 1)
    | none => false

def handleTrace (toks : List String) : String :=
  match toks with
  | th :: rest =>
    let times := (rest.takeWhile (· != "|")).map String.toNat!
    let events := (rest.dropWhile (· != "|")).drop 1
    let n := th.toNat!
    let s0 := saturate (C33.PE.init n times) 10000
    let rec go (s : C33.PE.State) (evs : List String) (k : Nat) : String :=
      match evs with
      | [] => "O petrace REJECT-no-shutdown-event"
      | "X" :: _ =>
        if s.mpc == .idle && s.todo.isEmpty && s.hist.length == times.length then
          (if shutdown s (200 * (n + 2)) then "O petrace ok" else "O petrace REJECT-shutdown-stuck")
        else s!"O petrace REJECT@{k}:X"
      | ev :: more =>
        match applyEvent (if k % 64 == 0 then compactPE s else s) ev with
        | some s' => go s' more (k + 1)
        | none => s!"O petrace REJECT@{k}:{ev}"
    go s0 events 0
  | _ => "O petrace ERR"

def rtOf : Nat → C33.RangeType
  | 0 => .full
  | 1 => .half
  | _ => .halfPlusDiag

/-- (ninit, nfinish, pairs) -/
def p2dModel (ext : Bool) (g np rt seed ncpu : Nat) : Option (Nat × Nat × List (Nat × Nat)) :=
  let (plan, hasExec, threads) :=
    if ext then ((C33.ctorExt ncpu).1, true, np)
    else ((C33.ctorOwn g np).1, (C33.ctorOwn g np).2, min np (g / 2))
  let R := rtOf rt
  if C33.runsSequential plan hasExec then some (1, 1, C33.p2dAllPairs g plan hasExec R)
  else
    let rounds := C33.p2dRounds g plan R
    match peModel threads seed (rounds.map List.length) with
    | none => none
    | some obs =>
      -- executed task indices of every pass -> the blocks they stand for -> user pairs
      let pairs := (rounds.zip obs).map (fun (blocks, (_, _, idx)) => (idx.map (fun i => blocks.getD i [])).flatten)
      -- only the triangle task forwards `initialize`, only the last square pass forwards `finish`
      let ninit := match obs.head? with | some (ni, _, _) => ni | none => 0
      let nfin := if plan.squares.isEmpty then 0 else match obs.getLast? with | some (_, nf, _) => nf | none => 0
      some (ninit, nfin, pairs.flatten)

def handleP2D (toks : List String) : List String :=
  let go (ext : Bool) (g np rt ys ncpu : Nat) : List String :=
    match p2dModel ext g np rt ys ncpu with
    | some (ni, nf, pairs) =>
      [" ".intercalate (["O", "p2d", toString ni, toString nf] ++ runsOf (pairs.map fun (i, j) => i * (if g > 0 then g else 1) + j))]
    | none => ["O p2d MODEL-STUCK"]
  match toks with
  | ["own", g, np, rt, ys] => go false g.toNat! np.toNat! rt.toNat! ys.toNat! 0
  | ["ext", g, np, rt, ys, ncpu] => go true g.toNat! np.toNat! rt.toNat! ys.toNat! ncpu.toNat!
  | _ => ["O p2d ERR"]

/-- the internal partition of `Parallel2DExecutor(grid, numProcessors)` as the model computes it (compared with what the
optional trace hook reports: `binStart[0..bins]` and the squares of every pass in `push_back` order) -/
def handlePlan (toks : List String) : List String :=
  match toks with
  | [g, np] =>
    let plan := (C33.ctorOwn g.toNat! np.toNat!).1
    let bins := " ".intercalate (["O", "p2dplan", "bins"] ++ (List.range (plan.bins + 1)).map (fun i => toString (C33.binStart g.toNat! plan.bins i)))
    let passes := ((List.range plan.squares.length).zip plan.squares).filter (fun (_, sqs) => !sqs.isEmpty) |>.map fun (p, sqs) =>
      " ".intercalate (["O", "p2dplan", "pass", toString p] ++ sqs.map (fun (x, y) => s!"{x}:{y}"))
    bins :: passes
  | _ => ["O p2dplan ERR"]

def compactWQ (s : C33.WQ.State) : C33.WQ.State :=
  let arr := (List.range s.n).toArray.map s.wk
  let dflt := s.wk s.n
  let ec := (List.range (s.nextId + 1)).toArray.map s.execCount
  { s with wk := fun v => if h : v < arr.size then arr[v] else dflt,
           execCount := fun t => if h : t < ec.size then ec[t] else 0,
           loc := fun _ => .fresh }   -- `loc` is proof-only ghost state; the driver never reads it

partial def runWQ (s : C33.WQ.State) (g : SplitMix) (fuel : Nat) : C33.WQ.State × Bool :=
  if s.ppc == .final then (s, true)
  else if fuel == 0 then (s, false)
  else
    let s := if fuel % 64 == 0 then compactWQ s else s
    let (r, g) := g.below (s.n + 1)
    let (sp, g) := g.below 16
    let (pick, g) := g.below (s.n + 1)
    let tid : C33.WQ.Tid := if r == 0 then .main else .worker (r - 1)
    let s := if sp == 0 then (C33.WQ.step s (.spurious tid)).getD s else s
    match C33.WQ.step s (.step tid pick) with
    | some s' => runWQ s' g (fuel - 1)
    | none =>
      let cands := (List.range (s.n + 1)).map (fun k => (r + k) % (s.n + 1))
      let next := cands.findSome? (fun k =>
        C33.WQ.step s (.step (if k == 0 then .main else .worker (k - 1)) pick))
      match next with
      | some s' => runWQ s' g (fuel - 1)
      | none => (s, false)

def parseOps (toks : List String) : List C33.WQ.Op :=
  toks.flatMap fun t =>
    if t == "f" then [C33.WQ.Op.flush]
    else if t.startsWith "a" then List.replicate (t.drop 1).toString.toNat! C33.WQ.Op.add
    else []

def handleWQ (toks : List String) : List String :=
  match toks with
  | qs :: th :: ys :: ops =>
    let prog := parseOps ops
    let n := th.toNat!
    let (s, ok) := runWQ (C33.WQ.init n qs.toNat! prog) ⟨UInt64.ofNat (ys.toNat! + 1)⟩ (400 * (prog.length + 4) * (n + 2) + 10000)
    if ok then
      let executed := ((List.range s.nextId).map s.execCount).foldl (· + ·) 0
      [" ".intercalate (["O", "wq", toString executed, toString s.completed] ++ s.flushLog.map (fun p => toString p.1))]
    else ["O wq MODEL-STUCK"]
  | _ => ["O wq ERR"]

end C33Drv

def main : IO Unit := do
  let lines ← readStdinLines
  let out ← IO.getStdout
  for ln in lines do
    match tokens ln with
    | "I" :: fn :: args =>
      out.putStrLn ln.trimAscii.toString
      let res :=
        if fn == "pe" then C33Drv.handlePE args
        else if fn == "petrace" then [C33Drv.handleTrace args]
        else if fn == "p2dplan" then C33Drv.handlePlan args
        else if fn == "p2d" then C33Drv.handleP2D args
        else if fn == "wq" then C33Drv.handleWQ args
        else ["O " ++ fn ++ " ERR"]
      for r in res do out.putStrLn r
    | _ => pure ()
