import SimbodyModel.Proto
import SimbodyModel.C33
import SimbodyModel.C33_PE
import SimbodyModel.C33_WQ
/-! Driver for C33.  Answers the harness records with what the *model* predicts:

* `I pe …`  : runs the ParallelExecutor transition system (`C33.PE.step`) under a seeded random schedule (with
  spurious wake-ups) to its final state and reports, per `execute`, the numbers of `initialize`/`finish` callbacks
  and the sorted executed indices found in the ghost history;
* `I p2d …` : the static partition (`C33.planInit`, `p2dRounds`) composed with the same transition system (one
  `execute` per pass);
* `I wq …`  : runs the ParallelWorkQueue transition system (`C33.WQ.step`) likewise.

The proved theorems say these observations do not depend on the schedule; the schedule seed is the harness' `yseed`. -/
open Proto

namespace C33Drv

def runsOf (xs : List Nat) : List String :=
  let sorted := (xs.toArray.qsort (· < ·)).toList
  let rec go (l : List Nat) (start cur : Nat) (acc : Array String) (fuel : Nat) : Array String :=
    match fuel, l with
    | 0, _ => acc
    | _, [] => acc.push s!"{start}-{cur}"
    | f + 1, x :: r => if x == cur + 1 then go r start x acc f else go r x x (acc.push s!"{start}-{cur}") f
  match sorted with
  | [] => []
  | x :: r => (go r x x #[] (r.length + 1)).toList

/-- compact the closure chain of `wk` (pure optimisation: same function on `0..n-1`, default elsewhere) -/
def compactPE (s : C33.PE.State) : C33.PE.State :=
  let arr := (List.range s.n).toArray.map s.wk
  let dflt := s.wk s.n
  { s with wk := fun v => if h : v < arr.size then arr[v] else dflt }

/-- seeded random schedule until the caller reaches `final` (or the fuel runs out) -/
partial def runPE (s : C33.PE.State) (g : SplitMix) (fuel : Nat) : C33.PE.State × Bool :=
  if s.mpc == .final then (s, true)
  else if fuel == 0 then (s, false)
  else
    let s := if fuel % 64 == 0 then compactPE s else s
    let (r, g) := g.below (s.n + 1)
    let (sp, g) := g.below 16
    let tid : C33.PE.Tid := if r == 0 then .main else .worker (r - 1)
    -- an occasional spurious wake-up of the chosen thread
    let s := if sp == 0 then (C33.PE.step s (.spurious tid)).getD s else s
    match C33.PE.step s (.step tid) with
    | some s' => runPE s' g (fuel - 1)
    | none =>
      -- chosen thread not enabled: take the first enabled one in cyclic order
      let cands := (List.range (s.n + 1)).map (fun k => (r + k) % (s.n + 1))
      let next := cands.findSome? (fun k =>
        C33.PE.step s (.step (if k == 0 then .main else .worker (k - 1))))
      match next with
      | some s' => runPE s' g (fuel - 1)
      | none => (s, false)

def countEv (p : C33.PE.WEv → Bool) (round : List (List C33.PE.WEv)) : Nat :=
  (round.map (fun l => (l.filter p).length)).foldl (· + ·) 0

def isInit : C33.PE.WEv → Bool | .init => true | _ => false
def isFin : C33.PE.WEv → Bool | .fin => true | _ => false

/-- per `execute` call: (ninit, nfinish, executed task indices) as predicted by the model for `threads` -/
def peModel (threads : Nat) (seed : Nat) (times : List Nat) : Option (List (Nat × Nat × List Nat)) :=
  if threads < 2 then
    -- `numMaxThreads < 2`: the caller runs initialize; execute(0..times-1); finish
    some (times.map fun t => (1, 1, (C33.peAssignment threads t).flatten))
  else
    let work := times.foldl (· + ·) 0
    let (s, ok) := runPE (C33.PE.init threads times) ⟨UInt64.ofNat (seed + 1)⟩ (400 * (work + 40 * threads * (times.length + 1)) + 10000)
    if ok && s.hist.length == times.length then
      some (s.hist.map fun round => (countEv isInit round, countEv isFin round, (round.map C33.PE.execsOf).flatten))
    else none

def handlePE (toks : List String) : List String :=
  match toks with
  | th :: ys :: ts =>
    match peModel th.toNat! ys.toNat! (ts.map String.toNat!) with
    | some rounds =>
      (List.range rounds.length).zip rounds |>.map fun (r, (ni, nf, idx)) =>
        " ".intercalate (["O", "pe", toString r, toString ni, toString nf] ++ runsOf idx)
    | none => ["O pe MODEL-STUCK"]
  | _ => ["O pe ERR"]

def rtOf : Nat → C33.RangeType
  | 0 => .full
  | 1 => .half
  | _ => .halfPlusDiag

/-- (ninit, nfinish, pairs) -/
def p2dModel (ext : Bool) (g np rt seed ncpu : Nat) : Option (Nat × Nat × List (Nat × Nat)) :=
  let (plan, hasExec, threads) :=
    if ext then ((C33.ctorExt ncpu).1, true, np)
    else ((C33.ctorOwn g np).1, (C33.ctorOwn g np).2, min np (g / 2))
  let R := rtOf rt
  if C33.runsSequential plan hasExec then some (1, 1, C33.p2dAllPairs g plan hasExec R)
  else
    let rounds := C33.p2dRounds g plan R
    match peModel threads seed (rounds.map List.length) with
    | none => none
    | some obs =>
      -- executed task indices of every pass -> the blocks they stand for -> user pairs
      let pairs := (rounds.zip obs).map (fun (blocks, (_, _, idx)) => (idx.map (fun i => blocks.getD i [])).flatten)
      -- only the triangle task forwards `initialize`, only the last square pass forwards `finish`
      let ninit := match obs.head? with | some (ni, _, _) => ni | none => 0
      let nfin := if plan.squares.isEmpty then 0 else match obs.getLast? with | some (_, nf, _) => nf | none => 0
      some (ninit, nfin, pairs.flatten)

def handleP2D (toks : List String) : List String :=
  let go (ext : Bool) (g np rt ys ncpu : Nat) : List String :=
    match p2dModel ext g np rt ys ncpu with
    | some (ni, nf, pairs) =>
      [" ".intercalate (["O", "p2d", toString ni, toString nf] ++ runsOf (pairs.map fun (i, j) => i * (if g > 0 then g else 1) + j))]
    | none => ["O p2d MODEL-STUCK"]
  match toks with
  | ["own", g, np, rt, ys] => go false g.toNat! np.toNat! rt.toNat! ys.toNat! 0
  | ["ext", g, np, rt, ys, ncpu] => go true g.toNat! np.toNat! rt.toNat! ys.toNat! ncpu.toNat!
  | _ => ["O p2d ERR"]

def compactWQ (s : C33.WQ.State) : C33.WQ.State :=
  let arr := (List.range s.n).toArray.map s.wk
  let dflt := s.wk s.n
  let ec := (List.range (s.nextId + 1)).toArray.map s.execCount
  { s with wk := fun v => if h : v < arr.size then arr[v] else dflt,
           execCount := fun t => if h : t < ec.size then ec[t] else 0,
           loc := fun _ => .fresh }   -- `loc` is proof-only ghost state; the driver never reads it

partial def runWQ (s : C33.WQ.State) (g : SplitMix) (fuel : Nat) : C33.WQ.State × Bool :=
  if s.ppc == .final then (s, true)
  else if fuel == 0 then (s, false)
  else
    let s := if fuel % 64 == 0 then compactWQ s else s
    let (r, g) := g.below (s.n + 1)
    let (sp, g) := g.below 16
    let (pick, g) := g.below (s.n + 1)
    let tid : C33.WQ.Tid := if r == 0 then .main else .worker (r - 1)
    let s := if sp == 0 then (C33.WQ.step s (.spurious tid)).getD s else s
    match C33.WQ.step s (.step tid pick) with
    | some s' => runWQ s' g (fuel - 1)
    | none =>
      let cands := (List.range (s.n + 1)).map (fun k => (r + k) % (s.n + 1))
      let next := cands.findSome? (fun k =>
        C33.WQ.step s (.step (if k == 0 then .main else .worker (k - 1)) pick))
      match next with
      | some s' => runWQ s' g (fuel - 1)
      | none => (s, false)

def parseOps (toks : List String) : List C33.WQ.Op :=
  toks.flatMap fun t =>
    if t == "f" then [C33.WQ.Op.flush]
    else if t.startsWith "a" then List.replicate (t.drop 1).toString.toNat! C33.WQ.Op.add
    else []

def handleWQ (toks : List String) : List String :=
  match toks with
  | qs :: th :: ys :: ops =>
    let prog := parseOps ops
    let n := th.toNat!
    let (s, ok) := runWQ (C33.WQ.init n qs.toNat! prog) ⟨UInt64.ofNat (ys.toNat! + 1)⟩ (400 * (prog.length + 4) * (n + 2) + 10000)
    if ok then
      let executed := ((List.range s.nextId).map s.execCount).foldl (· + ·) 0
      [" ".intercalate (["O", "wq", toString executed, toString s.completed] ++ s.flushLog.map (fun p => toString p.1))]
    else ["O wq MODEL-STUCK"]
  | _ => ["O wq ERR"]

end C33Drv

def main : IO Unit := do
  let lines ← readStdinLines
  let out ← IO.getStdout
  for ln in lines do
    match tokens ln with
    | "I" :: fn :: args =>
      out.putStrLn ln.trimAscii.toString
      let res :=
        if fn == "pe" then C33Drv.handlePE args
        else if fn == "p2d" then C33Drv.handleP2D args
        else if fn == "wq" then C33Drv.handleWQ args
        else ["O " ++ fn ++ " ERR"]
      for r in res do out.putStrLn r
    | _ => pure ()
