import SimbodyModel.Proto
import SimbodyModel.C16
import SimbodyModel.C18
/-!
Driver for C16 (`flow='harness_first'`): replays the histories the harness generated (`I …` lines) on the model
`C16.St`, with the force elements instantiated from the table `Gen.table` that is regenerated from the source on
every run (`Force.ofClass`), and answers each record with the model's prediction of what the implementation lets
us observe: system stage, for every Force::Gravity `isForceCacheValid/getNumEvaluations`, for every Custom probe
force its `calcForce` call count, and at `check` records whether the totals differ from a fresh State's.
-/
open Proto C16 C16.Gen

/-! ### bridge to the C18 model

The matter subsystem's five lazy entries are also run on the *C18* State model (`SimbodyModel/C18.lean`): one
subsystem, the entries allocated with exactly the prerequisites of `Gen.matterEntries`, one discrete variable per
invalidated stage 2..7, q/u/z pools; every C16 operation is translated into the State-level calls the library makes.
After every record the stage and the five `isCacheValueRealized` answers of the C18 model must equal the C16 model's
(`mvalid`) — otherwise the O line carries `BRIDGE-MISMATCH`, which the correspondence check reports.  This is an
executed cross-check on every generated history, not a proof. -/
structure Bridge where
  b : C18.St := {}
  ok : Bool := true        -- every translated call was legal and did not throw in the C18 model

def Bridge.app (br : Bridge) (op : C18.SOp) : Bridge :=
  { b := C18.stepS br.b op, ok := br.ok && C18.legalS br.b op && (C18.excOf br.b op).isNone }

def meIdx (e : ME) : Nat := match e with | .pk => 0 | .cbi => 1 | .abi => 2 | .vk => 3 | .abv => 4

def Bridge.valid (br : Bridge) (e : ME) : Bool := br.b.isRealized (0, meIdx e)

def Bridge.ensure (br : Bridge) (e : ME) : Bridge := if br.valid e then br else br.app (.mark 0 (meIdx e))

/-- `System::realize` up to stage g -/
def Bridge.realize (br : Bridge) (g : Nat) : Bridge :=
  (List.range 10).foldl (fun br k =>
    if br.b.sys < k ∧ k ≤ g then
      let br := if k == 2 then ((br.app (.allocQ 0 [0])).app (.allocU 0 [0])).app (.allocZ 0 [0]) else br
      let br := if k == 5 then br.ensure .pk else br
      let br := if k == 6 then br.ensure .vk else br
      let br := if k == 8 then (br.ensure .abi).ensure .abv else br
      (br.app (.advSub 0 k)).app (.advSys k)
    else br) br

def Bridge.fresh : Bridge :=
  let br : Bridge := { b := { subs := [{}] } }
  -- realizeTopology: one discrete variable per invalidated stage 2..7, then the entries of Gen.matterEntries
  let br := (List.range 6).foldl (fun br i => br.app (.allocDV 0 (i + 2) 0)) br
  let br := Gen.matterEntries.foldl (fun br (e : Gen.MEntry) =>
    let pre := e.pre.filterMap (fun n => (Gen.matterEntries.findIdx? (fun x => x.name == n)).map (fun i => ((0, i) : C18.Key)))
    br.app (.allocCEpre 0 e.dep e.comp e.q e.u e.z [] pre 0)) br
  br.realize 2

/-- a variable invalidating stage g changed -/
def Bridge.inval (br : Bridge) (g v : Nat) : Bridge :=
  if 2 ≤ g ∧ g ≤ 7 then br.app (.setDV 0 (g - 2) (Int.ofNat v)) else { br with ok := false }

def Bridge.step (br : Bridge) (fs : List Force) (st : St) : Op → Bridge
  | .setT v => br.app (.setTime (Int.ofNat v))
  | .setQ _ => br.app (.updQ none)
  | .setU _ => br.app (.updU none)
  | .setZ _ => br.app (.updZ none)
  | .setParam i j v =>
    match ((fs.getD i default).paramStages)[j]? with
    | some g => if (fs.getD i default).gravity then br else br.inval g v
    | none => br
  | .setEnabled _ _ => br.inval 3 0
  | .gravSet i _ v _ _ => if (fs.getD i default).gravity then br.inval 7 v else br
  | .realize g => br.realize (min g 9)
  | .gravQuery _ | .peQuery => br
  | .setInst v => br.inval 3 v
  | .setOpt v => br.inval 2 v
  | .mRealize e => if legal fs st (.mRealize e) then br.ensure e else br
  | .mInvalidate e =>
    let br := if e.comp ≤ 9 then br.app (.invalCache e.comp) else br
    br.app (.unmark 0 (meIdx e))
  | .invalAll g => if 3 ≤ g ∧ g ≤ 9 then br.app (.invalAll g) else { br with ok := false }

structure Sim where
  fs : List Force := []
  custom : List Bool := []      -- which elements are Custom probes
  st : St := {}
  br : Bridge := {}

def Sim.bridgeStr (s : Sim) : String :=
  let agree := s.br.ok && s.br.b.sys == s.st.stage && ME.all.all (fun e => s.br.valid e == s.st.mvalid e)
  if agree then "" else
    " BRIDGE-MISMATCH(c18: ok=" ++ toString s.br.ok ++ s!" stage={s.br.b.sys} m=" ++
      String.join (ME.all.map (fun e => if s.br.valid e then "1" else "0")) ++ ")"

def obsStr (s : Sim) : String :=
  let parts := (List.range s.fs.length).filterMap (fun i =>
    let f := s.fs.getD i default
    if f.gravity then
      some s!" g{i}={if s.st.stage ≥ 5 && s.st.lazyFresh.getD i false then 1 else 0}/{s.st.evals.getD i 0}"
    else if s.custom.getD i false then some s!" c{i}={s.st.calls.getD i 0}"
    else none)
  let mflags := String.join (ME.all.map (fun e => if s.st.mvalid e then "1" else "0"))
  s!"{s.st.stage}" ++ String.join parts ++ s!" m={mflags}" ++ s.bridgeStr

/-- `Class` or `Class@g`: a user-written (`Force::Custom`) element with a state parameter of its own invalidating stage g -/
def findClass (name : String) : Option FClass :=
  match name.splitOn "@" with
  | [n] => Gen.table.find? (fun c => c.name == n)
  | [n, g] => (Gen.table.find? (fun c => c.name == n)).map (fun c => { c with paramStages := [g.toNat!] })
  | _ => none

/-- `I model nf {cls custom enabled zeroMag}*` -/
def parseModel (toks : List String) : Option Sim :=
  match toks with
  | nS :: rest =>
    let n := nS.toNat!
    let rec go (k : Nat) (r : List String) (fs : List Force) (cu en ze : List Bool) : Option Sim :=
      match k with
      | 0 =>
        let ps := fs.map (fun f => f.paramStages.map (fun _ => 0))
        some { fs := fs, custom := cu, st := fresh fs { params := ps, enabled := en, zeroMag := ze }, br := Bridge.fresh }
      | k + 1 =>
        match r with
        | cls :: c :: e :: z :: r' =>
          match findClass cls with
          | some fc => go k r' (fs ++ [Force.ofClass fc (c == "1")]) (cu ++ [fc.posOnly.isNone]) (en ++ [e == "1"]) (ze ++ [z == "1"])
          | none => none
        | _ => none
    go n rest [] [] [] []
  | _ => none

def parseME (n : String) : Option ME :=
  match n with
  | "pk" => some .pk | "cbi" => some .cbi | "abi" => some .abi | "vk" => some .vk | "abv" => some .abv
  | _ => none

def setterIdx (name : String) : Option Nat :=
  let l := Gen.gravitySetters.map (·.1)
  match l.findIdx? (· == name) with
  | some k => some k
  | none => none

def parseOp (toks : List String) : Option Op :=
  match toks with
  | ["setT", v] => some (.setT v.toNat!)
  | ["setQ", v] => some (.setQ v.toNat!)
  | ["setU", v] => some (.setU v.toNat!)
  | ["setZ", v] => some (.setZ v.toNat!)
  | ["setParam", i, j, v] => some (.setParam i.toNat! j.toNat! v.toNat!)
  | ["setEnabled", i, b] => some (.setEnabled i.toNat! (b == "1"))
  | ["gravSet", i, j, v, z, name] => (setterIdx name).map (fun k => .gravSet i.toNat! j.toNat! v.toNat! (z == "1") k)
  | ["setInst", v] => some (.setInst v.toNat!)
  | ["setOpt", v] => some (.setOpt v.toNat!)
  | ["mRealize", e] => (parseME e).map .mRealize
  | ["mInvalidate", e] => (parseME e).map .mInvalidate
  | ["invalAll", g] => some (.invalAll g.toNat!)
  | ["realize", g] => some (.realize g.toNat!)
  | ["gravQuery", i] => some (.gravQuery i.toNat!)
  | ["peQuery"] => some .peQuery
  | _ => none

/-- `check`: realize the history state to Acceleration and compare its totals with a fresh State's; the fresh
State's realization uses the same force objects, whose counters therefore advance too -/
def doCheck (s : Sim) : Sim × Bool :=
  let st1 := step s.fs (s.st.realize s.fs 8) (.mRealize .cbi)     -- the comparison also asks for composite-body inertias
  let f0 := fresh s.fs st1.vars
  let f1 := ({ f0 with calls := st1.calls, evals := st1.evals } : St).realize s.fs 8
  let br1 := (s.br.realize 8).step s.fs (s.st.realize s.fs 8) (.mRealize .cbi)
  ({ s with st := { st1 with calls := f1.calls, evals := f1.evals }, br := br1 }, st1.total != f1.total)

def main : IO UInt32 := do
  let lines ← readStdinLines
  let out ← IO.getStdout
  let mut sim : Sim := {}
  for ln in lines do
    match tokens ln with
    | "I" :: "model" :: rest =>
      out.putStrLn ln.trimAscii.toString
      match parseModel rest with
      | some s => sim := s; out.putStrLn ("O obs " ++ obsStr sim)
      | none => out.putStrLn "O obs ERR:unknown-force-class"
    | ["I", "check"] =>
      out.putStrLn ln.trimAscii.toString
      let (s, stale) := doCheck sim
      sim := s
      out.putStrLn ("O obs " ++ obsStr sim ++ s!" stale={if stale then 1 else 0}")
    | "I" :: rest =>
      out.putStrLn ln.trimAscii.toString
      match parseOp rest with
      | some op =>
        sim := { sim with st := step sim.fs sim.st op, br := sim.br.step sim.fs sim.st op }
        out.putStrLn ("O obs " ++ obsStr sim)
      | none => out.putStrLn "O obs ERR:unknown-op"
    | _ => pure ()
  return 0
