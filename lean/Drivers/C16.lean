import SimbodyModel.Proto
import SimbodyModel.C16
/-!
Driver for C16 (`flow='harness_first'`): replays the histories the harness generated (`I …` lines) on the model
`C16.St`, with the force elements instantiated from the table `Gen.table` that is regenerated from the source on
every run (`Force.ofClass`), and answers each record with the model's prediction of what the implementation lets
us observe: system stage, for every Force::Gravity `isForceCacheValid/getNumEvaluations`, for every Custom probe
force its `calcForce` call count, and at `check` records whether the totals differ from a fresh State's.
-/
open Proto C16 C16.Gen

structure Sim where
  fs : List Force := []
  custom : List Bool := []      -- which elements are Custom probes
  st : St := {}

def obsStr (s : Sim) : String :=
  let parts := (List.range s.fs.length).filterMap (fun i =>
    let f := s.fs.getD i default
    if f.gravity then
      some s!" g{i}={if s.st.stage ≥ 5 && s.st.lazyFresh.getD i false then 1 else 0}/{s.st.evals.getD i 0}"
    else if s.custom.getD i false then some s!" c{i}={s.st.calls.getD i 0}"
    else none)
  let mflags := String.join (ME.all.map (fun e => if s.st.mvalid e then "1" else "0"))
  s!"{s.st.stage}" ++ String.join parts ++ s!" m={mflags}"

/-- `Class` or `Class@g`: a user-written (`Force::Custom`) element with a state parameter of its own invalidating stage g -/
def findClass (name : String) : Option FClass :=
  match name.splitOn "@" with
  | [n] => Gen.table.find? (fun c => c.name == n)
  | [n, g] => (Gen.table.find? (fun c => c.name == n)).map (fun c => { c with paramStages := [g.toNat!] })
  | _ => none

/-- `I model nf {cls custom enabled zeroMag}*` -/
def parseModel (toks : List String) : Option Sim :=
  match toks with
  | nS :: rest =>
    let n := nS.toNat!
    let rec go (k : Nat) (r : List String) (fs : List Force) (cu en ze : List Bool) : Option Sim :=
      match k with
      | 0 =>
        let ps := fs.map (fun f => f.paramStages.map (fun _ => 0))
        some { fs := fs, custom := cu, st := fresh fs { params := ps, enabled := en, zeroMag := ze } }
      | k + 1 =>
        match r with
        | cls :: c :: e :: z :: r' =>
          match findClass cls with
          | some fc => go k r' (fs ++ [Force.ofClass fc (c == "1")]) (cu ++ [fc.posOnly.isNone]) (en ++ [e == "1"]) (ze ++ [z == "1"])
          | none => none
        | _ => none
    go n rest [] [] [] []
  | _ => none

def parseME (n : String) : Option ME :=
  match n with
  | "pk" => some .pk | "cbi" => some .cbi | "abi" => some .abi | "vk" => some .vk | "abv" => some .abv
  | _ => none

def setterIdx (name : String) : Option Nat :=
  let l := Gen.gravitySetters.map (·.1)
  match l.findIdx? (· == name) with
  | some k => some k
  | none => none

def parseOp (toks : List String) : Option Op :=
  match toks with
  | ["setT", v] => some (.setT v.toNat!)
  | ["setQ", v] => some (.setQ v.toNat!)
  | ["setU", v] => some (.setU v.toNat!)
  | ["setZ", v] => some (.setZ v.toNat!)
  | ["setParam", i, j, v] => some (.setParam i.toNat! j.toNat! v.toNat!)
  | ["setEnabled", i, b] => some (.setEnabled i.toNat! (b == "1"))
  | ["gravSet", i, j, v, z, name] => (setterIdx name).map (fun k => .gravSet i.toNat! j.toNat! v.toNat! (z == "1") k)
  | ["setInst", v] => some (.setInst v.toNat!)
  | ["setOpt", v] => some (.setOpt v.toNat!)
  | ["mRealize", e] => (parseME e).map .mRealize
  | ["mInvalidate", e] => (parseME e).map .mInvalidate
  | ["realize", g] => some (.realize g.toNat!)
  | ["gravQuery", i] => some (.gravQuery i.toNat!)
  | ["peQuery"] => some .peQuery
  | _ => none

/-- `check`: realize the history state to Acceleration and compare its totals with a fresh State's; the fresh
State's realization uses the same force objects, whose counters therefore advance too -/
def doCheck (s : Sim) : Sim × Bool :=
  let st1 := step s.fs (s.st.realize s.fs 8) (.mRealize .cbi)     -- the comparison also asks for composite-body inertias
  let f0 := fresh s.fs st1.vars
  let f1 := ({ f0 with calls := st1.calls, evals := st1.evals } : St).realize s.fs 8
  ({ s with st := { st1 with calls := f1.calls, evals := f1.evals } }, st1.total != f1.total)

def main : IO UInt32 := do
  let lines ← readStdinLines
  let out ← IO.getStdout
  let mut sim : Sim := {}
  for ln in lines do
    match tokens ln with
    | "I" :: "model" :: rest =>
      out.putStrLn ln.trimAscii.toString
      match parseModel rest with
      | some s => sim := s; out.putStrLn ("O obs " ++ obsStr sim)
      | none => out.putStrLn "O obs ERR:unknown-force-class"
    | ["I", "check"] =>
      out.putStrLn ln.trimAscii.toString
      let (s, stale) := doCheck sim
      sim := s
      out.putStrLn ("O obs " ++ obsStr sim ++ s!" stale={if stale then 1 else 0}")
    | "I" :: rest =>
      out.putStrLn ln.trimAscii.toString
      match parseOp rest with
      | some op =>
        sim := { sim with st := step sim.fs sim.st op }
        out.putStrLn ("O obs " ++ obsStr sim)
      | none => out.putStrLn "O obs ERR:unknown-op"
    | _ => pure ()
  return 0
