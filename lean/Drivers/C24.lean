import SimbodyModel.Proto
import SimbodyModel.C24
/-! Driver for C24.  All tokens are hex doubles; matrices are row major.  `tolk` is the tolerance in units of
`n·eps` (`eps` = 2⁻⁵² for double, 2⁻²³ for float element types; `prec` = 0 double, 1 float).

* `I lu prec n tolk A[n²] b[n] x[n]`                         → `O lu 1|0`        (`luAccept`; LU, LLT and square solves)
* `I ls prec m n tolk exact rank A[mn] b[m] x[n]`            → `O ls a r`        (`lsAccept`; if `exact`=1 the matrix is
      small-integer valued: `a` also requires `minNormAccept` on the exact null basis, `r` = (reported rank = exact rank))
* `I svd prec m n tolk A[mn] Ut[m²] S[min] Vt[n²]`           → `O svd 1|0`
* `I svdrank k rcond S[k]`                                   → `O svdrank r`     (rank by threshold as coded)
* `I eig prec n tolk A[n²] lr[n] li[n] Vr[n²] Vi[n²]`        → `O eig 1|0`       (vectors as rows)
* `I inv prec n tolk A[n²] X[n²]`                            → `O inv 1|0`
* `I pinv prec n tolk A[n²] X[n²]`                           → `O pinv 1|0`      (Moore–Penrose conditions 1,2)
* `I qtzdiag prec m n t`                                     → `O qtzdiag r`     (rank of the m×n matrix diag(1,t,0…) under the default rcond)
* `I svddiag prec m n t`                                     → `O svddiag 1|0`   (does FactorSVD::solve keep the singular value t?)
-/
open Proto C24

def nat (x : Float) : Nat := x.toUInt64.toNat
def toMat (fs : List Float) (rows cols : Nat) : Mat :=
  (List.range rows).map (fun r => ((fs.drop (r * cols)).take cols).map floatToRat)

def epsOf (prec : Nat) : Rat := if prec = 1 then mkRat 1 (2 ^ 23) else mkRat 1 (2 ^ 52)
def tolOf (prec : Nat) (n : Nat) (tolk : Float) : Rat := floatToRat tolk * (max n 1 : Nat) * epsOf prec

def b01 (b : Bool) : String := if b then "1" else "0"

/-- `NTraits<P>::getSignificant()` = eps^(7/8) as the implementation computes it (std::pow) -/
def significant (prec : Nat) : Float :=
  if prec = 1 then Float.pow 1.1920928955078125e-07 0.875 else Float.pow 2.220446049250313e-16 0.875

def handle (fn : String) (fs : List Float) : String :=
  if fs.any (fun x => !x.isFinite) then "O " ++ fn ++ " 0" else
  match fn, fs with
  | "lu", prec :: nf :: tolk :: rest =>
    let n := nat nf
    let A := toMat rest n n
    let b := ((rest.drop (n * n)).take n).map floatToRat
    let x := ((rest.drop (n * n + n)).take n).map floatToRat
    "O lu " ++ b01 (luAccept (tolOf (nat prec) n tolk) A b x)
  | "ls", prec :: mf :: nf :: tolk :: exact :: rank :: rest =>
    let m := nat mf; let n := nat nf
    let A := toMat rest m n
    let b := ((rest.drop (m * n)).take m).map floatToRat
    let x := ((rest.drop (m * n + m)).take n).map floatToRat
    let tol := tolOf (nat prec) (max m n) tolk
    let a := lsAccept tol A n b x
    if nat exact = 1 then
      "O ls " ++ b01 (a && refAccept A n && minNormAccept tol A x (nullBasis A n)) ++ " " ++ b01 (nat rank == 999 || exactRank A n == nat rank)
    else "O ls " ++ b01 a ++ " 1"
  | "svd", prec :: mf :: nf :: tolk :: rest =>
    let m := nat mf; let n := nat nf; let k := min m n
    let A := toMat rest m n
    let Ut := toMat (rest.drop (m * n)) m m
    let S := ((rest.drop (m * n + m * m)).take k).map floatToRat
    let Vt := toMat (rest.drop (m * n + m * m + k)) n n
    "O svd " ++ b01 (svdAccept (tolOf (nat prec) (max m n) tolk) A n Ut S Vt)
  | "svdrank", kf :: rcond :: rest =>
    "O svdrank " ++ toString (svdRank (rest.take (nat kf)) rcond)
  | "eig", prec :: nf :: tolk :: rest =>
    let n := nat nf
    let A := toMat rest n n
    let lr := ((rest.drop (n * n)).take n).map floatToRat
    let li := ((rest.drop (n * n + n)).take n).map floatToRat
    let Vr := toMat (rest.drop (n * n + 2 * n)) n n
    let Vi := toMat (rest.drop (2 * n * n + 2 * n)) n n
    "O eig " ++ b01 (eigAccept (tolOf (nat prec) n tolk) A lr li Vr Vi)
  | "inv", prec :: nf :: tolk :: rest =>
    let n := nat nf
    "O inv " ++ b01 (invAccept (tolOf (nat prec) n tolk) (toMat rest n n) (toMat (rest.drop (n * n)) n n))
  | "pinv", prec :: nf :: tolk :: rest =>
    let n := nat nf
    "O pinv " ++ b01 (pinvAccept (tolOf (nat prec) n tolk) (toMat rest n n) (toMat (rest.drop (n * n)) n n))
  | "qtzdiag", [prec, m, n, t] =>
    "O qtzdiag " ++ toString (qtzDiagRank Float.ofNat (nat m) (nat n) (significant (nat prec)) t)
  | "svddiag", [prec, m, n, t] =>
    "O svddiag " ++ b01 (svdDiagKeeps Float.ofNat (nat m) (nat n) (significant (nat prec)) t)
  | _, _ => "O " ++ fn ++ " ERR"

def main : IO Unit := do
  let lines ← readStdinLines
  let out ← IO.getStdout
  for ln in lines do
    match tokens ln with
    | "I" :: fn :: args =>
      out.putStrLn ln.trimAscii.toString
      out.putStrLn (handle fn (args.map hexToFloat))
    | _ => pure ()
