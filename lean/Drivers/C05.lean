import SimbodyModel.Proto
import SimbodyModel.Mobilizer
import SimbodyModel.MobilizerIO
/-! Driver for C05: answers `I mob …` with the *documented* cross-mobilizer transform
(`Spec.docX0`, inverted for a reversed mobilizer) and the mobilizer velocity `V_FM = H_FM·u`. -/
open Proto Mobilizer MobilizerIO

def answer (c : Case) : List String :=
  let b := c.body
  let k := b.kin Xf.one SV.zero
  -- documented pose: X_F0M0 from the header's definition; a reversed mobilizer gives the inverse motion
  let Xdoc := realizeX b.rev (b.spec.docX0 b.C)
  -- setUToFitVelocity(target): a reversed node first maps the target into its defining frames (`reverseSpatialVelocity`)
  let X0 := b.spec.X0 b.C
  let V0 := findV_F0M0 b.rev k.X_FM c.target
  let fitU := match b.spec.fitU b.C X0 V0 with
    | some u => [line "fitU" u]
    | none => []
  -- setQToFitTranslation(station) from the default state (forward mobilizers only)
  let fitQ := if b.rev then [] else
    match b.spec.fitQtrans c.station with
    | some q => [line "fitQt" q]
    | none => []
  [line "X_FM" (xfL Xdoc), line "V_FM" (svL k.V_FM)] ++ fitU ++ fitQ

def main : IO Unit := do
  let lines ← readStdinLines
  let out ← IO.getStdout
  for ln in lines do
    match tokens ln with
    | "I" :: "mob" :: rest =>
      out.putStrLn ln.trimAscii.toString
      match parseCase rest with
      | some c => for l in answer c do out.putStrLn l
      | none => out.putStrLn "O mob ERR"
    | "I" :: _ => out.putStrLn ln.trimAscii.toString
    | _ => pure ()
