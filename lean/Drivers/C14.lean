import SimbodyModel.Proto
import SimbodyModel.TreeDyn
import SimbodyModel.TreeDynIO
import SimbodyModel.C14
import SimbodyModel.C01
/-! Driver for C14: answers `I react …` with the model's accelerations and mobilizer reactions (both routes). -/
open Proto TreeDyn

def readSVs (c : Cur) (n : Nat) : Array (SV Float) × Cur :=
  let (l, c') := c.svs n
  (l.toArray, c')

def readV3s (c : Cur) : Nat → List (V3 Float) × Cur
  | 0 => ([], c)
  | n + 1 =>
    let (h, c1) := c.v3
    let (t, c2) := readV3s c1 n
    (h :: t, c2)

def readNats (c : Cur) : Nat → List Nat × Cur
  | 0 => ([], c)
  | n + 1 =>
    let (h, c1) := c.nat
    let (t, c2) := readNats c1 n
    (h :: t, c2)

def answer (toks : List String) : List String :=
  let (h, c) := parseHeader toks
  let nu := h.nu
  let nb := h.nb
  let (presc, c) := readNats c nb
  let (a, c) := readSVs c nb
  let (b, c) := readSVs c nb
  let (fB, c) := readSVs c (nb + 1)
  let (f, c) := c.flts nu
  let (udotP, c) := c.flts nu
  let (pBM, c) := readV3s c nb
  let (pPF, _) := readV3s c nb
  let pBMa := pBM.toArray
  let pPFa := pPF.toArray
  -- bodies are exported in index order 1..nb
  let bodies : List (Body Float) := (h.bodies.zip presc).map (fun (x : Body Float × Nat) => { x.1 with presc := x.2 == 1 })
  let bias : Array (Bias Float) := (Array.range (nb + 1)).map (fun i =>
    if i == 0 then ⟨SV.zero, SV.zero, fB.getD 0 SV.zero⟩
    else ⟨a.getD (i - 1) SV.zero, b.getD (i - 1) SV.zero, fB.getD i SV.zero⟩)
  let roots := forest bodies
  let abi := abiForest roots
  let fwd := forwardDynamics abi bias f udotP
  let udot := udotOf nu fwd
  let inv := inverseDynamics roots bias f udot
  let byIdx (out : AccNode Float → List Float) : List Float :=
    C14.inBodyOrder bodies fwd (fun x => x.body.idx) out
  let z3 : V3 Float := V3.zero
  let tau := scatter nu (fwd.map (fun x => (x.body.u0, x.tau)))
  -- Ground: R_0 = −F_0 + Σ_base Φ(l) R_k   (z⁺ of the Ground node); every query about Ground reports ±R_0
  let r0 : SV Float := fwd.foldl (fun (acc : SV Float) x =>
      if x.body.parent == 0 then acc.add (phiMul x.body.l (reactionAtOrigin x)) else acc) (fB.getD 0 SV.zero).neg
  let r0n := r0.neg
  -- WF hypothesis of the theorems, per case: D·DI = 1 at every non-prescribed body
  let wfOk := (C01.wfResiduals abi).all (fun r => r.abs ≤ 1e-8)
  [ outLine "udot" udot.toList,
    outLine "accel" (byIdx (fun x => x.A.toList)),
    outLine "reactM" (byIdx (fun x => (C14.reactionAtM (reactionAtOrigin x) (pBMa.getD (x.body.idx - 1) z3)).toList)),
    outLine "reactB" (byIdx (fun x => (reactionAtOrigin x).toList)),
    outLine "reactP" (byIdx (fun x => (C14.reactionOnParent (reactionAtOrigin x) x.body.l).toList)),
    outLine "reactPF" (byIdx (fun x => (C14.reactionOnParentAtF (reactionAtOrigin x) x.body.l (pPFa.getD (x.body.idx - 1) z3)).toList)),
    outLine "freebody" (C14.inBodyOrder bodies inv (fun x => x.1.idx)
        (fun x => (C14.reactionAtM x.2.2.1 (pBMa.getD (x.1.idx - 1) z3)).toList)),
    outLine "tau" tau.toList,
    outLine "ground" (r0.toList ++ r0.toList ++ r0.toList ++ r0.toList ++ r0n.toList ++ r0n.toList),
    "O wf " ++ (if wfOk then "1" else "0") ]

def main : IO Unit := do
  let lines ← readStdinLines
  let out ← IO.getStdout
  for ln in lines do
    if ln.startsWith "I " then
      out.putStrLn ln.trimAscii.toString
      match tokens ln with
      | "I" :: "react" :: rest => for o in answer rest do out.putStrLn o
      | "I" :: "summary" :: _ => out.putStrLn "O summary 1"
      | _ => out.putStrLn "O ERR"
