import SimbodyModel.Proto
import SimbodyModel.C19
/-! Driver for C19: replays every `I sess …` record through the status machine of `SimbodyModel/C19.lean`
instantiated at `T := Rat` (doubles read exactly; `+∞` ↦ 2^1024) and prints the observation after every call.

The oracle answers of *intermediate* internal steps of one `stepTo` call (calls that took `n ≥ 2` internal steps)
are not observable through the public API; they only have to exist.  The driver supplies evenly spaced times
strictly below every pending stop — the model's result does not depend on that choice as long as none of the
intermediate steps forces a return, which is exactly what the implementation exhibited. -/
open Proto C19

def big : Rat := mkRat (2 ^ 1024) 1

def tokToRat (s : String) : Rat :=
  let x := hexToFloat s
  if x.isFinite then floatToRat x else if x > 0 then big else -big

def ratToHex (r : Rat) : String := floatToHex (Float.ofInt r.num / Float.ofNat r.den)

def b2s (b : Bool) : String := if b then "1" else "0"

def obs (s : St Rat) : String :=
  ratToHex s.time ++ " " ++ ratToHex s.tAdv ++ " " ++ b2s s.useInterp ++ " " ++ b2s s.over

def min3 (a b c : Rat) : Rat := mn a (mn b c)

/-- synthesize the oracle list of one call: `n` internal steps, the last one ending at `tAdv` (event/`tLow`) -/
def mkOracle (o : Opts Rat) (s : St Rat) (report sched : Rat) (n : Nat) (tAdv : Rat) (ev : Bool) (tLow : Rat) : List (Ans Rat) :=
  if n = 0 then [] else
  let a0 := s.tAdv
  let bound := mn (min3 report sched o.finalTime) (if ev then tLow else tAdv)
  let mids := (List.range (n - 1)).map (fun (i : Nat) => ({ t1 := a0 + (bound - a0) * mkRat (Int.ofNat (i + 1)) n, event := false, tLow := 0 } : Ans Rat))
  mids ++ [{ t1 := tAdv, event := ev, tLow := tLow }]

partial def runOps (o : Opts Rat) (s : St Rat) (ops : List String) (acc : Array String) : Array String :=
  match ops with
  | "r" :: l :: t :: rest =>
    if !reinitOK s then acc.push "O r ILLEGAL" else
    let s' := reinit (l == "1") (t == "1") s
    runOps o s' rest (acc.push ("O r " ++ obs s'))
  | k :: rep :: sch :: n :: tadv :: ev :: tlow :: rest =>
    if k != "s" && k != "b" then acc.push "O c PARSE" else
    let report := tokToRat rep
    let sched := tokToRat sch
    if !assertsOK report sched s && s.scs != .finalReturned then acc.push "O c ILLEGAL" else
    let orc := mkOracle o s report sched n.toNat! (tokToRat tadv) (ev == "1") (tokToRat tlow)
    match stepTo o report sched orc s with
    | .ret st s' [] => runOps o s' rest (acc.push ("O c " ++ toString st.code ++ " " ++ obs s'))
    | .ret _ _ _ => acc.push "O c UNUSED_INTERNAL_STEPS"
    | .refused s' => runOps o s' rest (acc.push "O c EXC")
    | .starved _ => acc.push "O c NEEDS_MORE_INTERNAL_STEPS"
    | .badOracle _ => acc.push "O c TAKEONESTEP_CONTRACT_VIOLATED"
  | [] => acc
  | _ => acc.push "O c PARSE"

def session (toks : List String) : Array String :=
  match toks with
  | integ :: t0 :: fin :: retEvery :: limit :: allowInterp :: rest =>
    match rest.dropWhile (· != "|") with
    | _ :: ops =>
      if integ.startsWith "CPodes" then
        -- CPodesIntegratorRep has its own stepTo: contract predicates only (P lines of the harness)
        #["O cp " ++ toString (ops.filter (fun t => t == "s" || t == "b" || t == "r")).length]
      else
        let o : Opts Rat := { finalTime := if fin == "-" then big else tokToRat fin,
                              returnEvery := retEvery == "1", stepLimit := limit.toNat!,
                              noInterp := allowInterp == "0" }
        runOps o (init (tokToRat t0)) ops #[]
    | [] => #["O c PARSE"]
  | _ => #["O c PARSE"]

def main : IO Unit := do
  let lines ← readStdinLines
  let out ← IO.getStdout
  for ln in lines do
    match tokens ln with
    | "I" :: "sess" :: rest =>
      out.putStrLn ln.trimAscii.toString
      for l in session rest do out.putStrLn l
    | _ => pure ()
