import SimbodyModel.Proto
import SimbodyModel.ConstraintEq
/-! Driver for C07: answers the harness's `I <ConstraintType> …` records with the model's
perr / pverr / paerr (verr/vaerr/aerr) and constraint forces, all definitions of
`SimbodyModel/ConstraintEq.lean` instantiated at `Float`.  `I chk …` records (implementation-only
predicates) are answered with `O chk 1`. -/
open Proto ConstraintEq

abbrev F := Float

/-- tiny reader over a token list of doubles -/
structure Rd where
  xs : List F

namespace Rd
def f (r : Rd) : F × Rd := match r.xs with | x :: t => (x, ⟨t⟩) | [] => (0.0 / 0.0, r)
def v3 (r : Rd) : V3 F × Rd :=
  let (x, r) := r.f; let (y, r) := r.f; let (z, r) := r.f; (⟨x, y, z⟩, r)
def m33 (r : Rd) : M33 F × Rd :=
  let (a, r) := r.v3; let (b, r) := r.v3; let (c, r) := r.v3; (⟨a, b, c⟩, r)
def xf (r : Rd) : Xf F × Rd := let (R, r) := r.m33; let (p, r) := r.v3; (⟨R, p⟩, r)
def sv (r : Rd) : SV F × Rd := let (w, r) := r.v3; let (v, r) := r.v3; (⟨w, v⟩, r)
def kin (r : Rd) : Kin F × Rd :=
  let (X, r) := r.xf; let (V, r) := r.sv; let (A, r) := r.sv; (⟨X, V, A⟩, r)
def many (r : Rd) (n : Nat) : List F × Rd := (r.xs.take n, ⟨r.xs.drop n⟩)
end Rd

def pairL (p : F × F) : List F := [p.1, p.2]
def sqrtF (x : F) : F := Float.sqrt x
def invF (x : F) : F := 1.0 / x

/-- body-type constraints: all tokens are doubles -/
def handleBody (fn : String) (a : List F) : Option (List F) :=
  let r : Rd := ⟨a⟩
  match fn with
  | "PointInPlane" =>
    let (n, r) := r.v3; let (h, r) := r.f; let (s, r) := r.v3
    let (A, r) := r.kin; let (B, r) := r.kin; let (Fo, r) := r.kin; let (lam, _) := r.f
    let b := toAncestor A B; let f := toAncestor A Fo
    let c : PointInPlane.Par F := ⟨n, h, s⟩
    let fr := PointInPlane.forces c b.X f.X lam
    some ([PointInPlane.perr c b.X f.X, PointInPlane.pverr c b.X f.X b.V f.V,
           PointInPlane.paerr c b.X f.X b.V f.V b.A f.A] ++ fr.1.toList ++ fr.2.toList)
  | "PointOnLine" =>
    let (x, r) := r.v3; let (y, r) := r.v3; let (P, r) := r.v3; let (s, r) := r.v3
    let (A, r) := r.kin; let (B, r) := r.kin; let (Fo, r) := r.kin; let (l0, r) := r.f; let (l1, _) := r.f
    let b := toAncestor A B; let f := toAncestor A Fo
    let c : PointOnLine.Par F := ⟨x, y, P, s⟩
    let fr := PointOnLine.forces c b.X f.X l0 l1
    some (pairL (PointOnLine.perr c b.X f.X) ++ pairL (PointOnLine.pverr c b.X f.X b.V f.V) ++
          pairL (PointOnLine.paerr c b.X f.X b.V f.V b.A f.A) ++ fr.1.toList ++ fr.2.toList)
  | "ConstantAngle" =>
    let (ab, r) := r.v3; let (af, r) := r.v3; let (ca, r) := r.f
    let (A, r) := r.kin; let (B, r) := r.kin; let (Fo, r) := r.kin; let (lam, _) := r.f
    let b := toAncestor A B; let f := toAncestor A Fo
    let c : ConstantAngle.Par F := ⟨ab, af, ca⟩
    let fr := ConstantAngle.forces c b.X f.X lam
    some ([ConstantAngle.perr c b.X f.X, ConstantAngle.pverr c b.X f.X b.V f.V,
           ConstantAngle.paerr c b.X f.X b.V f.V b.A f.A] ++ fr.1.toList ++ fr.2.toList)
  | "ConstantOrientation" =>
    let (RB, r) := r.m33; let (RF, r) := r.m33
    let (A, r) := r.kin; let (B, r) := r.kin; let (Fo, r) := r.kin; let (lam, _) := r.v3
    let b := toAncestor A B; let f := toAncestor A Fo
    let c : ConstantOrientation.Par F := ⟨RB, RF⟩
    let fr := ConstantOrientation.forces c b.X f.X lam
    some ((ConstantOrientation.perr c b.X f.X).toList ++ (ConstantOrientation.pverr c b.X f.X b.V f.V).toList ++
          (ConstantOrientation.paerr c b.X f.X b.V f.V b.A f.A).toList ++ fr.1.toList ++ fr.2.toList)
  | "Ball" =>
    let (p1, r) := r.v3; let (p2, r) := r.v3
    let (A, r) := r.kin; let (B1, r) := r.kin; let (B2, r) := r.kin; let (lam, _) := r.v3
    let b := toAncestor A B1; let f := toAncestor A B2
    let c : Ball.Par F := ⟨p1, p2⟩
    let fr := Ball.forces c b.X f.X lam
    some ((Ball.perr c b.X f.X).toList ++ (Ball.pverr c b.X f.X b.V f.V).toList ++
          (Ball.paerr c b.X f.X b.V f.V b.A f.A).toList ++ fr.1.toList ++ fr.2.toList)
  | "Weld" =>
    let (FB, r) := r.xf; let (FF, r) := r.xf
    let (A, r) := r.kin; let (B, r) := r.kin; let (Fo, r) := r.kin; let (lt, r) := r.v3; let (lf, _) := r.v3
    let b := toAncestor A B; let f := toAncestor A Fo
    let c : Weld.Par F := ⟨FB, FF⟩
    let pe := Weld.perr c b.X f.X; let ve := Weld.pverr c b.X f.X b.V f.V
    let ae := Weld.paerr c b.X f.X b.V f.V b.A f.A
    let fr := Weld.forces c b.X f.X lt lf
    some (pe.1.toList ++ pe.2.toList ++ ve.1.toList ++ ve.2.toList ++ ae.1.toList ++ ae.2.toList ++
          fr.1.toList ++ fr.2.toList)
  | "NoSlip1D" =>
    let (P, r) := r.v3; let (n, r) := r.v3
    let (A, r) := r.kin; let (C, r) := r.kin; let (B0, r) := r.kin; let (B1, r) := r.kin; let (lam, _) := r.f
    let cc := toAncestor A C; let b0 := toAncestor A B0; let b1 := toAncestor A B1
    let c : NoSlip1D.Par F := ⟨P, n⟩
    let fr := NoSlip1D.forces c cc.X b0.X b1.X lam
    some ([NoSlip1D.verr c cc.X b0.X b1.X b0.V b1.V,
           NoSlip1D.vaerr c cc.X b0.X b1.X cc.V b0.V b1.V b0.A b1.A] ++
          fr.1.toList ++ fr.2.1.toList ++ fr.2.2.toList)
  | "Rod" =>
    let (pF, r) := r.v3; let (pB, r) := r.v3; let (d, r) := r.f
    let (A, r) := r.kin; let (Fo, r) := r.kin; let (B, r) := r.kin; let (lam, _) := r.f
    let f := toAncestor A Fo; let b := toAncestor A B
    let c : Rod.Par F := ⟨pF, pB, d⟩
    let fr := Rod.forces sqrtF invF c f.X b.X lam
    some ([Rod.perr sqrtF c f.X b.X, Rod.pverr sqrtF invF c f.X b.X f.V b.V,
           Rod.paerr sqrtF invF c f.X b.X f.V b.V f.A b.A] ++ fr.1.toList ++ fr.2.toList)
  | "PointOnPlaneContact" =>
    let (XP, r) := r.xf; let (pF, r) := r.v3
    let (A, r) := r.kin; let (S, r) := r.kin; let (B, r) := r.kin
    let (ln, r) := r.f; let (l0, r) := r.f; let (l1, _) := r.f
    let s := toAncestor A S; let b := toAncestor A B
    let c : PointOnPlaneContact.Par F := ⟨XP, pF⟩
    let fr := PointOnPlaneContact.forces c s.X b.X ln l0 l1
    some ([PointOnPlaneContact.perr c s.X b.X, PointOnPlaneContact.pverr c s.X b.X s.V b.V] ++
          pairL (PointOnPlaneContact.verr c s.X b.X s.V b.V) ++
          [PointOnPlaneContact.paerr c s.X b.X s.V b.V s.A b.A] ++
          pairL (PointOnPlaneContact.vaerr c s.X b.X s.V b.V s.A b.A) ++ fr.1.toList ++ fr.2.toList)
  | _ => none

/-- accumulate per-argument forces per mobility slot: the sum is reported at the first argument addressing a slot,
later arguments addressing the same slot report 0 (the implementation adds into one mobility-force entry) -/
def mergeSlots (slots : List Nat) (fs : List F) : List F :=
  let idx := List.range slots.length
  idx.map (fun i =>
    let s := slots.getD i 0
    if (slots.take i).contains s then 0.0
    else (idx.foldl (fun acc j => if slots.getD j 0 == s then acc + fs.getD j 0.0 else acc) 0.0))

def q3s : List F → List (Q3 F)
  | q :: qd :: qdd :: t => ⟨q, qd, qdd⟩ :: q3s t
  | _ => []

def rowsOf (n : Nat) (xs : List F) : List (List F) := (List.range n).map (fun i => (xs.drop (i * n)).take n)

/-- mobility-type constraints: `<par…> nArgs slot… (q qd qdd)… [f grad… hess…] lambda` -/
def handleMob (fn : String) (toks : List String) : Option (List F) :=
  let nPar := match fn with | "ConstantCoordinate" | "ConstantSpeed" | "ConstantAcceleration" => 1 | _ => 0
  let par := (toks.take nPar).map hexToFloat
  let toks := toks.drop nPar
  match toks with
  | nS :: rest =>
    let n := nS.toNat!
    let slots := (rest.take n).map String.toNat!
    let fl := (rest.drop n).map hexToFloat
    let args := q3s (fl.take (3 * n))
    let fl := fl.drop (3 * n)
    match fn with
    | "ConstantCoordinate" =>
      let x := args.getD 0 ⟨0, 0, 0⟩; let lam := fl.getD 0 0
      some [ConstantCoordinate.perr (par.getD 0 0) x, ConstantCoordinate.pverr x, ConstantCoordinate.paerr x,
            ConstantCoordinate.qforce lam]
    | "ConstantSpeed" =>
      let x := args.getD 0 ⟨0, 0, 0⟩; let lam := fl.getD 0 0
      some [ConstantSpeed.verr (par.getD 0 0) x.q, ConstantSpeed.vaerr x.qd, ConstantSpeed.uforce lam]
    | "ConstantAcceleration" =>
      let x := args.getD 0 ⟨0, 0, 0⟩; let lam := fl.getD 0 0
      some [ConstantAcceleration.aerr (par.getD 0 0) x.qd, ConstantAcceleration.uforce lam]
    | "PrescribedMotion" =>
      let x := args.getD 0 ⟨0, 0, 0⟩
      let f := fl.getD 0 0; let fd := fl.getD 1 0; let fdd := fl.getD 2 0; let lam := fl.getD 3 0
      some [PrescribedMotion.perr x f, PrescribedMotion.pverr x fd, PrescribedMotion.paerr x fdd,
            PrescribedMotion.qforce lam]
    | "CoordinateCoupler" =>
      let f := fl.getD 0 0; let g := (fl.drop 1).take n; let H := rowsOf n ((fl.drop (1 + n)).take (n * n))
      let lam := fl.getD (1 + n + n * n) 0
      let qd := args.map (·.qd); let qdd := args.map (·.qdd)
      some ([CoordinateCoupler.perr f, CoordinateCoupler.pverr g qd, CoordinateCoupler.paerr g H qd qdd] ++
            mergeSlots slots (CoordinateCoupler.qforces g lam))
    | "SpeedCoupler" =>
      let f := fl.getD 0 0; let g := (fl.drop 1).take n
      let lam := fl.getD (1 + n + n * n) 0
      -- the number of speed arguments = number of leading arguments whose third entry (unused) is exactly 0 and
      -- which the harness lists first; it is passed implicitly: forces are reported for speed arguments only,
      -- the harness prints exactly that many force tokens.  Speeds come first; coordinates carry qdd ≠ 0 in general,
      -- so the count is transmitted explicitly as the last token.
      let ns := (fl.getD (2 + n + n * n) 0).toUInt64.toNat
      let xd := args.map (·.qd)
      some ([SpeedCoupler.verr f, SpeedCoupler.vaerr g xd] ++
            mergeSlots (slots.take ns) (SpeedCoupler.uforces ns g lam))
    | _ => none
  | _ => none

def isMob (fn : String) : Bool :=
  fn == "ConstantCoordinate" || fn == "ConstantSpeed" || fn == "ConstantAcceleration" ||
  fn == "PrescribedMotion" || fn == "CoordinateCoupler" || fn == "SpeedCoupler"

def main : IO Unit := do
  let lines ← readStdinLines
  let out ← IO.getStdout
  for ln in lines do
    match tokens ln with
    | "I" :: "chk" :: _ =>
      out.putStrLn ln.trimAscii.toString
      out.putStrLn "O chk 1"
    | "I" :: fn :: args =>
      out.putStrLn ln.trimAscii.toString
      let r := if isMob fn then handleMob fn args else handleBody fn (args.map hexToFloat)
      match r with
      | some r => out.putStrLn (fmtFloats ("O " ++ fn) r)
      | none   => out.putStrLn ("O " ++ fn ++ " ERR")
    | _ => pure ()
