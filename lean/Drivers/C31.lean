import SimbodyModel.Proto
import SimbodyModel.C31
/-! Driver for C31: answers the records of `harness/C31.cpp` with the model's outputs (see that file for the
record grammar).  Doubles are computed with the model instantiated at `Float`; raw SFMT words are exact. -/
open Proto C31

abbrev cvF : Nat → Float := res53ToFloat

def seedOf (s : String) : UInt32 :=
  -- C++: `int seed` -> `uint32_t` (mod 2³²)
  let i : Int := s.toInt!
  (i % 4294967296).toNat.toUInt32

def fuelG : Nat := 1000

def uDraws (n : Nat) (u : Uniform Float) : List Float × Uniform Float := Id.run do
  let mut u := u
  let mut out : Array Float := #[]
  for _ in [0:n] do
    let (v, u') := u.getValue cvF
    u := u'
    out := out.push v
  return (out.toList, u)

def uSkip (n : Nat) (u : Uniform Float) : Uniform Float := Id.run do
  let mut u := u
  for _ in [0:n] do
    u := (u.getValue cvF).2
  return u

def gDraws (n : Nat) (g : Gaussian Float) : List Float × Gaussian Float := Id.run do
  let mut g := g
  let mut out : Array Float := #[]
  for _ in [0:n] do
    let (v, g') := g.getValue cvF Float.log Float.sqrt fuelG
    g := g'
    out := out.push v
  return (out.toList, g)

def newU (seed : UInt32) (mn mx : Float) : Uniform Float := (Uniform.new 0 mn mx).setSeed seed
def newG (seed : UInt32) (m s : Float) : Gaussian Float := (Gaussian.new 0 m s).setSeed seed

/-- `(int) std::floor(x)` for |x| < 2³¹ -/
def floorInt (x : Float) : Int :=
  let f := Float.floor x
  if f < 0 then -((-f).toUInt64.toNat : Int) else (f.toUInt64.toNat : Int)

def fmtNats (tag : String) (xs : List Nat) : String := tag ++ xs.foldl (fun s x => s ++ " " ++ toString x) ""
def fmtInts (tag : String) (xs : List Int) : String := tag ++ xs.foldl (fun s x => s ++ " " ++ toString x) ""

def sfmtSkip32 (n : Nat) (s : SFMT) : SFMT := Id.run do
  let mut s := s
  for _ in [0:n] do s := (genRand32 s).2
  return s
def sfmtSkip64 (n : Nat) (s : SFMT) : SFMT := Id.run do
  let mut s := s
  for _ in [0:n] do s := (genRand64 s).2
  return s

def lastN {α} (k : Nat) (l : List α) : List α := l.drop (l.length - k)

def stats (xs : List Float) : Float × Float :=
  let n := xs.length.toUInt64.toFloat
  let s := xs.foldl (· + ·) 0
  let mean := s / n
  let ss := xs.foldl (fun a x => a + (x - mean) * (x - mean)) 0
  (mean, ss / (n - 1))

def answer (toks : List String) : String :=
  match toks with
  | ["U", seed, mn, mx, skip, n] =>
    let u := uSkip skip.toNat! (newU (seedOf seed) (hexToFloat mn) (hexToFloat mx))
    fmtFloats "O U" (uDraws n.toNat! u).1
  | ["UI", seed, mn, mx, skip, n] => Id.run do
    let mut u := uSkip skip.toNat! (newU (seedOf seed) (hexToFloat mn) (hexToFloat mx))
    let mut out : Array Int := #[]
    for _ in [0:n.toNat!] do
      let (v, u') := u.getIntValue cvF floorInt; u := u'; out := out.push v
    return fmtInts "O UI" out.toList
  | ["STI", seed, a, b, n] => Id.run do
    let lo := a.toInt!
    let hi := b.toInt!
    let mut u := newU (seedOf seed) (Float.ofInt lo) (Float.ofInt hi)
    let mut cnt : Array Nat := Array.replicate (hi - lo).toNat 0
    let mut outside := 0
    for _ in [0:n.toNat!] do
      let (v, u') := u.getIntValue cvF floorInt; u := u'
      if v ≥ lo ∧ v < hi then cnt := cnt.modify (v - lo).toNat (· + 1) else outside := outside + 1
    return fmtNats "O STI" (cnt.toList ++ [outside])
  | ["REF", seed, n] => Id.run do
    -- words 0-2, 622-625, n-2, n-1 of the gen_rand32 stream, the checksum xor_i w_i*(2i+1), and Uniform(0,1) draw n/2
    let nn := n.toNat!
    let mut s := initGenRand (seedOf seed)
    let mut out : Array Nat := #[]
    let mut x : UInt32 := 0
    for i in [0:nn] do
      let (v, s') := genRand32 s; s := s'
      x := x ^^^ (v * (2 * i + 1).toUInt32)
      if i < 3 || (i ≥ 622 && i < 626) || i + 2 ≥ nn then out := out.push v.toNat
    out := out.push x.toNat
    let u := uSkip (nn / 2 - 1) (newU (seedOf seed) 0 1)
    return fmtNats "O REF" out.toList ++ " " ++ floatToHex (u.getValue cvF).1
  | ["G", seed, m, s, skip, n] =>
    let g := (gDraws skip.toNat! (newG (seedOf seed) (hexToFloat m) (hexToFloat s))).2
    fmtFloats "O G" (gDraws n.toNat! g).1
  | ["FA", seed, mn, mx, len, sh] =>
    fmtFloats "O FA" (lastN sh.toNat! (uDraws len.toNat! (newU (seedOf seed) (hexToFloat mn) (hexToFloat mx))).1)
  | ["FAG", seed, m, s, len, sh] =>
    fmtFloats "O FAG" (lastN sh.toNat! (gDraws len.toNat! (newG (seedOf seed) (hexToFloat m) (hexToFloat s))).1)
  | ["RS", seedA, k, seedB, n] =>
    let (pre, u) := uDraws k.toNat! (newU (seedOf seedA) 0 1)
    fmtFloats "O RS" (lastN 1 pre ++ (uDraws n.toNat! (u.setSeed (seedOf seedB))).1)
  | ["RSG", seedA, k, seedB, n] =>
    let (pre, g) := gDraws k.toNat! (newG (seedOf seedA) 0 1)
    fmtFloats "O RSG" (lastN 1 pre ++ (gDraws n.toNat! (g.setSeed (seedOf seedB))).1)
  | ["IL", seedA, seedB, n, mask] => Id.run do
    let mut a := newU (seedOf seedA) 0 1
    let mut b := newU (seedOf seedB) 0 1
    let m := mask.toNat!
    let mut out : Array Float := #[]
    for j in [0:n.toNat!] do
      if (m >>> j) % 2 = 1 then
        let (v, a') := a.getValue cvF; a := a'; out := out.push v
      else
        let (v, b') := b.getValue cvF; b := b'; out := out.push v
    return fmtFloats "O IL" out.toList
  | ["SM", seed, mn, mx, k, which, mn2, mx2, n] =>
    let (pre, u) := uDraws k.toNat! (newU (seedOf seed) (hexToFloat mn) (hexToFloat mx))
    let w := which.toNat!
    let u := if w = 0 || w = 1 then u.setMin (hexToFloat mn2) else u
    let u := if w = 0 || w = 2 then u.setMax (hexToFloat mx2) else u
    fmtFloats "O SM" (lastN 1 pre ++ (uDraws n.toNat! u).1)
  | ["S32", seed, skip, n] => Id.run do
    let mut s := sfmtSkip32 skip.toNat! (initGenRand (seedOf seed))
    let mut out : Array Nat := #[]
    for _ in [0:n.toNat!] do
      let (v, s') := genRand32 s; s := s'; out := out.push v.toNat
    return fmtNats "O S32" out.toList
  | ["S64", seed, skip, n] => Id.run do
    let mut s := sfmtSkip64 skip.toNat! (initGenRand (seedOf seed))
    let mut out : Array Nat := #[]
    for _ in [0:n.toNat!] do
      let (v, s') := genRand64 s; s := s'; out := out.push v.toNat
    return fmtNats "O S64" out.toList
  | ["SF64", seed, size, reps, sh] => Id.run do
    let mut s := initGenRand (seedOf seed)
    let mut last : Array UInt64 := #[]
    for _ in [0:reps.toNat!] do
      let (a, s') := fillArray64 s size.toNat!; s := s'; last := a
    return fmtNats "O SF64" (lastN sh.toNat! (last.toList.map (·.toNat)))
  | ["SF32", seed, size, reps, sh] => Id.run do
    let mut s := initGenRand (seedOf seed)
    let mut last : Array UInt32 := #[]
    for _ in [0:reps.toNat!] do
      let (a, s') := fillArray32 s size.toNat!; s := s'; last := a
    return fmtNats "O SF32" (lastN sh.toNat! (last.toList.map (·.toNat)))
  | ["SMIX", seed, k, size, n] => Id.run do
    -- k full state blocks through gen_rand64 (k·N64 draws leave idx = N32), then fill_array64(size), then n draws
    let mut s := sfmtSkip64 (k.toNat! * N64) (initGenRand (seedOf seed))
    let (a, s') := fillArray64 s size.toNat!
    s := s'
    let mut out : Array Nat := (lastN 2 (a.toList.map (·.toNat))).toArray
    for _ in [0:n.toNat!] do
      let (v, s'') := genRand64 s; s := s''; out := out.push v.toNat
    return fmtNats "O SMIX" out.toList
  | ["KAT"] => Id.run do
    let mut s := initGenRand 1234
    let mut out : Array Nat := #[]
    for _ in [0:5] do
      let (v, s') := genRand32 s; s := s'; out := out.push v.toNat
    return fmtNats "O KAT" out.toList
  | ["KATP"] => fmtFloats "O KATP" (uDraws 3 (newU 1234 0 1)).1
  | ["STU", seed, mn, mx, n] =>
    let (m, v) := stats (uDraws n.toNat! (newU (seedOf seed) (hexToFloat mn) (hexToFloat mx))).1
    fmtFloats "O STU" [m, v]
  | ["STG", seed, mu, sd, n] =>
    let (m, v) := stats (gDraws n.toNat! (newG (seedOf seed) (hexToFloat mu) (hexToFloat sd))).1
    fmtFloats "O STG" [m, v]
  | ["F8", raw, mn, mx, mode] =>
    -- the value `UniformImpl::getValue` returns when the raw 64-bit word drawn is `raw`
    let mnF := hexToFloat mn
    let mxF := hexToFloat mx
    let v := uniformFormula mnF (mxF - mnF) (cvF (res53Num raw.toNat!.toUInt64))
    if mode == "1" then fmtInts "O F8" [floorInt v] else fmtFloats "O F8" [v]
  | fn :: _ => "O " ++ fn ++ " ERR"
  | [] => "O ERR"

def main : IO Unit := do
  let lines ← readStdinLines
  let out ← IO.getStdout
  for ln in lines do
    match tokens ln with
    | "I" :: rest =>
      out.putStrLn ln.trimAscii.toString
      out.putStrLn (answer rest)
    | _ => pure ()
