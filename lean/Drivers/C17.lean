import SimbodyModel.Proto
import SimbodyModel.C17
/-! Driver for C17.  For every record `I cf threads after mode D qcode ucode nf {dbd en par pos dep nc {slot:val:reps}}…` it builds the
transcription of the current code for the whole subsystem with its enabled mask (`C17.configSubsystem`), runs the transition system (`C17.run`) along the
sequential — hence race-free — schedule, checks that all workers completed, and prints the resulting shared
arrays (plus, in mode `NonCached`, the content of the position-only cache that `realizeSubsystemDynamicsImpl` adds
afterwards).  `total_order_independent` says every race-free complete schedule gives this same value. -/
open Proto

namespace C17Drv

/-- force arrays: integer vectors under componentwise addition (missing entries are 0) -/
structure V where
  a : List Int

def V.add : List Int → List Int → List Int
  | [], ys => ys
  | xs, [] => xs
  | x :: xs, y :: ys => (x + y) :: V.add xs ys

instance : Add V := ⟨fun x y => ⟨V.add x.a y.a⟩⟩
instance : OfNat V 0 := ⟨⟨[]⟩⟩

def unit (slot : Nat) (v : Int) : V := ⟨List.replicate slot 0 ++ [v]⟩

def parseContrib (factor : Int) (t : String) : V :=
  match t.splitOn ":" with
  | [s, v, r] => unit s.toNat! (v.toInt! * factor * r.toInt!)
  | _ => 0

/-- parse `nf` forces (`dbd en par pos dep nc contribs…`) from the token list; `dbd` (disabled by default) is history
only: what matters to the model is the current enabled flag.  `dep` selects the state-dependent factor of the value. -/
partial def parseForces (qcode ucode : Int) (nf : Nat) (toks : List String) (acc : Array (C17.MForce V)) : Array (C17.MForce V) :=
  if nf == 0 then acc else
  match toks with
  | _dbd :: en :: par :: pos :: dep :: nc :: rest =>
    let n := nc.toNat!
    let cs := rest.take n
    let factor : Int := if dep == "1" then 1 + qcode else if dep == "2" then 1 + ucode else 1
    let value : V := cs.foldl (fun s t => s + parseContrib factor t) 0
    parseForces qcode ucode (nf - 1) (rest.drop n) (acc.push ⟨en == "1", ⟨par == "1", pos == "1", value⟩⟩)
  | _ => acc

def modeOf : Nat → C17.Mode
  | 0 => .all
  | 1 => .cachedAndNonCached
  | _ => .nonCached

def padTo (D : Nat) (v : V) : List Int := v.a ++ List.replicate (D - v.a.length) 0

def handle (toks : List String) : String :=
  match toks with
  | th :: af :: md :: d :: qc :: uc :: nf :: rest =>
    let all := (parseForces qc.toInt! uc.toInt! nf.toNat! rest #[]).toList
    let forces := C17.enabledElts all
    let mode := modeOf md.toNat!
    let hp := C17.subsystemHasParallel all
    -- the subsystem state reached by the recorded order of setNumberOfThreads / realizeTopology
    let st0 := C17.SubState.init 16
    let st := if af == "1" then (st0.apply (.realizeTopology hp)).apply (.setNumberOfThreads th.toNat!)
              else (st0.apply (.setNumberOfThreads th.toNat!)).apply (.realizeTopology hp)
    let D := d.toNat!
    -- mode NonCached: the caller then adds the cache filled by an earlier CachedAndNonCached realization
    let cache : V := if mode == .nonCached then C17.cacheSum forces else 0
    if !C17.ThreadSafe st then
      -- outside the validity of the transition-system model (non-parallel task on >= 2 workers): unreachable for the
      -- current transition (`threadSafe_reachable`); kept so that a regression of the model prints the demanded sum
      " ".intercalate (["O", "cf"] ++ (padTo D (C17.serialSumD mode forces + cache)).map toString)
    else
    let c := C17.configOfState st mode all
    let s := C17.run c (C17.init (0 : V)) (C17.sequentialSchedule c)
    let complete := (List.range c.n).all (fun w => (s.wk w).pc == .done)
    if !complete then "O cf MODEL-INCOMPLETE" else
    " ".intercalate (["O", "cf"] ++ (padTo D (s.shared + cache)).map toString)
  | _ => "O cf ERR"

end C17Drv

def main : IO Unit := do
  let lines ← readStdinLines
  let out ← IO.getStdout
  for ln in lines do
    match tokens ln with
    | "I" :: "cf" :: args =>
      out.putStrLn ln.trimAscii.toString
      out.putStrLn (C17Drv.handle args)
    | "I" :: fn :: _ =>
      out.putStrLn ln.trimAscii.toString
      out.putStrLn ("O " ++ fn ++ " ERR")
    | _ => pure ()
