import SimbodyModel.Proto
import SimbodyModel.C17
/-! Driver for C17.  For every record `I cf threads mode D nf {dbd en par pos nc {slot:val:reps}}…` it builds the
transcription of the current code for the whole subsystem with its enabled mask (`C17.configSubsystem`), runs the transition system (`C17.run`) along the
sequential — hence race-free — schedule, checks that all workers completed, and prints the resulting shared
arrays (plus, in mode `NonCached`, the content of the position-only cache that `realizeSubsystemDynamicsImpl` adds
afterwards).  `total_order_independent` says every race-free complete schedule gives this same value. -/
open Proto

namespace C17Drv

/-- force arrays: integer vectors under componentwise addition (missing entries are 0) -/
structure V where
  a : List Int

def V.add : List Int → List Int → List Int
  | [], ys => ys
  | xs, [] => xs
  | x :: xs, y :: ys => (x + y) :: V.add xs ys

instance : Add V := ⟨fun x y => ⟨V.add x.a y.a⟩⟩
instance : OfNat V 0 := ⟨⟨[]⟩⟩

def unit (slot : Nat) (v : Int) : V := ⟨List.replicate slot 0 ++ [v]⟩

def parseContrib (t : String) : V :=
  match t.splitOn ":" with
  | [s, v, r] => unit s.toNat! (v.toInt! * r.toInt!)
  | _ => 0

/-- parse `nf` forces (`dbd en par pos nc contribs…`) from the token list; `dbd` (disabled by default) is history only:
what matters to the model is the current enabled flag -/
partial def parseForces (nf : Nat) (toks : List String) (acc : Array (C17.MForce V)) : Array (C17.MForce V) :=
  if nf == 0 then acc else
  match toks with
  | _dbd :: en :: par :: pos :: nc :: rest =>
    let n := nc.toNat!
    let cs := rest.take n
    let value : V := cs.foldl (fun s t => s + parseContrib t) 0
    parseForces (nf - 1) (rest.drop n) (acc.push ⟨en == "1", ⟨par == "1", pos == "1", value⟩⟩)
  | _ => acc

def modeOf : Nat → C17.Mode
  | 0 => .all
  | 1 => .cachedAndNonCached
  | _ => .nonCached

def handle (toks : List String) : String :=
  match toks with
  | th :: md :: d :: nf :: rest =>
    let all := (parseForces nf.toNat! rest #[]).toList
    let forces := C17.enabledElts all
    let mode := modeOf md.toNat!
    let c := C17.configSubsystem th.toNat! mode all
    let s := C17.run c (C17.init (0 : V)) (C17.sequentialSchedule c)
    let complete := (List.range c.n).all (fun w => (s.wk w).pc == .done)
    if !complete then "O cf MODEL-INCOMPLETE" else
    -- mode NonCached: the caller then adds the cache filled by an earlier CachedAndNonCached realization
    let cache : V := if mode == .nonCached then C17.sumList ((forces.filter (·.posOnly)).map (·.value)) else 0
    let total := (s.shared + cache).a
    let D := d.toNat!
    let padded := total ++ List.replicate (D - total.length) 0
    " ".intercalate (["O", "cf"] ++ padded.map toString)
  | _ => "O cf ERR"

end C17Drv

def main : IO Unit := do
  let lines ← readStdinLines
  let out ← IO.getStdout
  for ln in lines do
    match tokens ln with
    | "I" :: "cf" :: args =>
      out.putStrLn ln.trimAscii.toString
      out.putStrLn (C17Drv.handle args)
    | "I" :: fn :: _ =>
      out.putStrLn ln.trimAscii.toString
      out.putStrLn ("O " ++ fn ++ " ERR")
    | _ => pure ()
