import SimbodyModel.Proto
import SimbodyModel.C20
/-! Driver for C20: replays fixed-step trajectories (`traj`), single controlled steps (`vstep`), and
reports interpolated inside a step (`istep`) with the model definitions of `SimbodyModel/C20.lean` at `Float`. -/
open Proto C20

instance : NatCast Float := ⟨Float.ofNat⟩

abbrev FV := LV Float

/-- right-hand side description, as printed by harness/C20.cpp -/
structure Rhs where
  kind : Nat
  nq : Nat
  nz : Nat
  deg : Nat
  M : Array Float
  C : Array Float

def Rhs.ny (r : Rhs) : Nat := 2 * r.nq + r.nz

/-- same arithmetic order as `Rhs::eval` in the harness -/
def Rhs.eval (r : Rhs) (t : Float) (y : FV) : FV :=
  let ya := y.xs.toArray
  let n := r.ny
  if r.kind == 1 then ⟨[ya[1]!, -(r.M[0]! * Float.sin ya[0]!)]⟩
  else
    ⟨(List.range n).map fun i =>
      let s := (List.range n).foldl (fun s j => s + r.M[i * n + j]! * ya[j]!) 0.0
      let p := (List.range r.deg).foldl (fun p k => p * t + r.C[i * (r.deg + 1) + (r.deg - 1 - k)]!)
                 r.C[i * (r.deg + 1) + r.deg]!
      s + p⟩

def parseRhs (toks : List String) : Option (Rhs × List String) :=
  match toks with
  | k :: nq :: nz :: dg :: rest =>
    let kind := k.toNat!; let nq := nq.toNat!; let nz := nz.toNat!; let deg := dg.toNat!
    let n := 2 * nq + nz
    let nM := if kind == 1 then 1 else n * n
    let nC := if kind == 1 then 0 else n * (deg + 1)
    let M := (rest.take nM).map hexToFloat
    let C := ((rest.drop nM).take nC).map hexToFloat
    some (⟨kind, nq, nz, deg, M.toArray, C.toArray⟩, rest.drop (nM + nC))
  | _ => none

def ones (n : Nat) : List Float := List.replicate n 1.0

/-- `TinyReal = pow(eps, 1.25)` -/
def tinyReal : Float := Float.pow 2.220446049250313e-16 1.25

/-- one `attemptDAEStep` of the named method from `(t0,y0)` to `t1`: `(y1, yErrEst, converged)` -/
def attemptStep (method : String) (r : Rhs) (acc t0 t1 : Float) (y0 : FV) : FV × FV × Bool :=
  let f := r.eval
  let f0 := f t0 y0
  match method with
  | "merson" => let s := mersonStep LV.abs f t0 t1 y0 f0; (s.1, s.2, true)
  | "rkf"    => let s := rkfStep f t0 t1 y0 f0; (s.1, s.2, true)
  | "rk3"    => let s := rk3Step LV.abs f t0 t1 y0 f0; (s.1, s.2, true)
  | "rk2"    => let s := rk2Step LV.abs f t0 t1 y0 f0; (s.1, s.2, true)
  | "euler"  => let s := eulerStep f t0 t1 y0 f0; (s.1, s.2, true)
  | _ =>
    -- partitioned methods: y = (q,u,z)
    let nq := r.nq
    let q0 : FV := ⟨y0.xs.take nq⟩
    let u0 : FV := ⟨(y0.xs.drop nq).take nq⟩
    let z0 : FV := ⟨y0.xs.drop (2 * nq)⟩
    let ud0 : FV := ⟨(f0.xs.drop nq).take nq⟩
    let zd0 : FV := ⟨f0.xs.drop (2 * nq)⟩
    let nmul : FV → FV → FV := fun _ u => u
    let g : Float → FV → FV → FV → FV × FV := fun t q u z =>
      let d := f t ⟨q.xs ++ u.xs ++ z.xs⟩
      (⟨(d.xs.drop nq).take nq⟩, ⟨d.xs.drop (2 * nq)⟩)
    if method == "see2" then
      let s := see2Step nmul g t0 t1 q0 u0 z0 ud0 zd0
      (⟨s.1.1.xs ++ s.1.2.1.xs ++ s.1.2.2.xs⟩, ⟨s.2.1.xs ++ s.2.2.1.xs ++ s.2.2.2.xs⟩, true)
    else if method == "verlet" then
      let qd0 : FV := ⟨f0.xs.take nq⟩
      let deriv : Float → FV → FV → FV → FV × FV × FV := fun t q u z =>
        let d := f t ⟨q.xs ++ u.xs ++ z.xs⟩
        (⟨d.xs.take nq⟩, ⟨(d.xs.drop nq).take nq⟩, ⟨d.xs.drop (2 * nq)⟩)
      -- the harness system sets qdotdot = udot
      let s := verletStep (LV.norm Float.sqrt) tinyReal acc deriv t0 t1 q0 u0 z0 qd0 ud0 zd0 ud0
      (⟨s.1.1.xs ++ s.1.2.1.xs ++ s.1.2.2.xs⟩, ⟨s.2.1.1.xs ++ s.2.1.2.1.xs ++ s.2.1.2.2.xs⟩, s.2.2)
    else
      let s := seeStep nmul t0 t1 q0 u0 z0 ud0 zd0
      (⟨s.1.xs ++ s.2.1.xs ++ s.2.2.xs⟩, ⟨y0.xs.map (fun _ => 0.0)⟩, true)

def errOrderOf (method : String) : Nat :=
  match method with
  | "merson" => 4 | "rkf" => 4 | "rk3" => 3 | "verlet" => 3 | "rk2" => 2 | "euler" => 2 | "see2" => 2 | _ => 1

/-- `calcErrorNorm` on the estimate of a step that started at `y0` -/
def stepErrNorm (useInf : Bool) (r : Rhs) (y0 err : FV) : Float :=
  let nq := r.nq
  let u0 := (y0.xs.drop nq).take nq
  let z0 := y0.xs.drop (2 * nq)
  errNorm Float.sqrt useInf (ones nq) (relScale u0 (ones nq)) (relScale z0 (ones r.nz))
    (err.xs.take nq) ((err.xs.drop nq).take nq) (err.xs.drop (2 * nq))

def inf : Float := 1.0 / 0.0

def optOf (x : Float) : Option Float := if x == -1.0 then none else some x

/-- the whole `takeOneStep` of an error-controlled method -/
def controlledStep (method : String) (useInf : Bool) (r : Rhs) (acc t0 : Float) (y0 : FV)
    (hcur tMax : Float) (umin umax : Option Float) : StepResult Float FV :=
  let attempt : Float → FV × Float × Bool := fun t1 =>
    let a := attemptStep method r acc t0 t1 y0
    -- a step that did not converge is given the error norm Infinity by takeOneStep
    let en := if a.2.2 then stepErrNorm useInf r y0 a.2.1 else inf
    (a.1, en, en.isFinite)
  takeOneStep Float.pow acc umin umax (errOrderOf method) attempt t0 tMax 60 hcur 0

def doTraj (toks : List String) : String :=
  match toks with
  | method :: rest =>
    match parseRhs rest with
    | some (r, rest) =>
      let fs := rest.take (r.ny + 2) |>.map hexToFloat
      let t0 := fs.head!
      let y0 : FV := ⟨(fs.drop 1).take r.ny⟩
      let h := fs.getLast!
      let nsteps := (rest.drop (r.ny + 2)).head!.toNat!
      let (_, _, out) := (List.range nsteps).foldl (fun (st : Float × FV × List Float) _ =>
        let (t, y, out) := st
        if method == "see" then
          let c := chooseT1 t h inf
          let a := attemptStep method r 1e-3 t c.1 y
          (c.1, a.1, out ++ [c.1] ++ a.1.xs)
        else
          let s := controlledStep method false r 1e-3 t y h inf (some h) (some h)
          (s.t1, s.y1, out ++ [s.t1] ++ s.y1.xs)) (t0, y0, [])
      fmtFloats "O traj" out
    | none => "O traj ERR"
  | _ => "O traj ERR"

def doVstep (toks : List String) : String :=
  match toks with
  | method :: ui :: rest =>
    match parseRhs rest with
    | some (r, rest) =>
      let fs := rest.map hexToFloat
      let acc := fs.head!
      let t0 := (fs.drop 1).head!
      let y0 : FV := ⟨(fs.drop 2).take r.ny⟩
      let tl := fs.drop (2 + r.ny)
      match tl with
      | [hcur, tMax, umin, umax] =>
        let s := controlledStep method (ui == "1") r acc t0 y0 hcur tMax (optOf umin) (optOf umax)
        fmtFloats "O vstep" ([s.t1] ++ s.y1.xs ++ [s.lastStep, s.nextStep]) ++ " " ++ toString s.failures
          ++ (if s.ok then "" else " FUEL")
      | _ => "O vstep ERR"
    | none => "O vstep ERR"
  | _ => "O vstep ERR"

def isLinearInterp (method : String) : Bool := method == "euler" || method == "see" || method == "see2"

/-- internal steps from `(t,y)` until the advanced time reaches `tr`, then the (interpolated) report -/
def istepLoop (method : String) (useInf : Bool) (r : Rhs) (acc : Float) (umin umax : Option Float) (tr : Float) :
    Nat → Float → FV → Float → Nat → List Float × Nat
  | 0, t, y, _, n => ([t] ++ y.xs, n)
  | fuel + 1, t, y, h, n =>
    let (t1, y1, hn) :=
      if method == "see" then
        let c := chooseT1 t h inf
        (c.1, (attemptStep method r acc t c.1 y).1, h)
      else
        let s := controlledStep method useInf r acc t y h inf umin umax
        (s.t1, s.y1, s.nextStep)
    if tr ≤ t1 then
      let yr : FV :=
        if tr < t1 then
          (if isLinearInterp method then interpolateLinear t y t1 y1 tr
           else interpolateOrder3 t y (r.eval t y) t1 y1 (r.eval t1 y1) tr)
        else y1
      ([t1] ++ y1.xs ++ [tr] ++ yr.xs, n + 1)
    else istepLoop method useInf r acc umin umax tr fuel t1 y1 hn (n + 1)

def doIstep (toks : List String) : String :=
  match toks with
  | method :: ui :: rest =>
    match parseRhs rest with
    | some (r, rest) =>
      let fs := rest.map hexToFloat
      let acc := fs.head!
      let t0 := (fs.drop 1).head!
      let y0 : FV := ⟨(fs.drop 2).take r.ny⟩
      match fs.drop (2 + r.ny) with
      | [hcur, umin, umax, tr] =>
        let hc := match optOf umin, optOf umax with
          | some a, some b => if hcur < a then a else if b < hcur then b else hcur
          | some a, none => if hcur < a then a else hcur
          | none, some b => if b < hcur then b else hcur
          | none, none => hcur
        let (out, n) := istepLoop method (ui == "1") r acc (optOf umin) (optOf umax) tr 1000000 t0 y0 hc 0
        fmtFloats "O istep" out ++ " " ++ toString n
      | _ => "O istep ERR"
    | none => "O istep ERR"
  | _ => "O istep ERR"

def main : IO Unit := do
  let lines ← readStdinLines
  let out ← IO.getStdout
  for ln in lines do
    if ln.startsWith "I " then out.putStrLn ln.trimAscii.toString
    match tokens ln with
    | "I" :: "traj" :: rest => out.putStrLn (doTraj rest)
    | "I" :: "vstep" :: rest => out.putStrLn (doVstep rest)
    | "I" :: "istep" :: rest => out.putStrLn (doIstep rest)
    | "I" :: fn :: _ => out.putStrLn ("O " ++ fn ++ " 1")   -- implementation-only records (P lines)
    | _ => pure ()
