import SimbodyModel.Proto
import SimbodyModel.C26
/-!
Driver for C26 (`flow = driver_first`):  `drv_C26 gen <seed> <n> [mode]`

Generates legal operation sequences (legality and "reference argument is safe" are decided by the
model: `C26.wlegal`, `C26.wrefOK`) and prints, after every `I …` record, the observation the model
predicts (`O obs thrown live | size cap v… | …` for the three arrays).

modes: ""        Array_<Counted,unsigned>           (all operations, safe element references)
       int       Array_<int,unsigned>
       moveonly  Array_<MoveOnly,unsigned>          (the operations a move-only type admits)
       small     Array_<Counted,signed char>        (max_size 127: capacity clamp, growth exception)
       alias     Array_<Counted>: value argument is an element that the operation reallocates/shifts;
                 the expected observation is the *specification* (`C26.spec`, what std::vector gives)
       alias_asan  same reallocating cases on an element type without the liveness registry (ASan stream)
       ptr       CloneOnWritePtr / ClonePtr / ReferencePtr / ResetOnCopy / ReinitOnCopy
-/
open Proto C26

abbrev Gen := StateM SplitMix

def rnd (n : Nat) : Gen Nat := fun g => g.below n
def coin : Gen Bool := fun g => g.bool
/-- true with probability num/den -/
def chance (num den : Nat) : Gen Bool := do return (← rnd den) < num

structure GS where
  w : World
  nv : Int := 1           -- next fresh value
  et : String := "C"
  mx : Nat := 2147483647

def refTok : Ref → String
  | .ext v => s!"e{v}"
  | .slot i => s!"s{i}"

def listTok (vs : List Elt) : String :=
  vs.foldl (fun s v => s ++ " " ++ toString v) (toString vs.length)

def opTok : Op → String
  | .pushBack r => s!"pushBack {refTok r}"
  | .pushBackMove r => s!"pushBackMove {refTok r}"
  | .emplaceBack r => s!"emplaceBack {refTok r}"
  | .pushBackDefault => "pushBackDefault"
  | .popBack => "popBack"
  | .insert p r => s!"insert {p} {refTok r}"
  | .emplace p r => s!"emplace {p} {refTok r}"
  | .insertN p n r => s!"insertN {p} {n} {refTok r}"
  | .insertRange p vs => s!"insertRange {p} {listTok vs}"
  | .erase f l => s!"erase {f} {l}"
  | .eraseOne p => s!"eraseOne {p}"
  | .eraseFast p => s!"eraseFast {p}"
  | .clear => "clear"
  | .resize n => s!"resize {n}"
  | .resizeFill n r => s!"resizeFill {n} {refTok r}"
  | .reserve n => s!"reserve {n}"
  | .shrinkToFit => "shrinkToFit"
  | .assignN n v => s!"assignN {n} {v}"
  | .assignRange vs => s!"assignRange {listTok vs}"
  | .fill r => s!"fill {refTok r}"
  | .deallocate => "deallocate"
  | .setElt i v => s!"setElt {i} {v}"
  | .viewFill off len off2 len2 r => s!"viewFill {off} {len} {off2} {len2} {refTok r}"
  | .viewAssign off vs => s!"viewAssign {off} {listTok vs}"

def wopTok : WOp → String
  | .on k op => s!"I op {k} {opTok op}"
  | .swap i j => s!"I w swap {i} {j}"
  | .copyAssign i j => s!"I w copyAssign {i} {j}"
  | .moveAssign i j => s!"I w moveAssign {i} {j}"
  | .copyCtor i j => s!"I w copyCtor {i} {j}"
  | .moveCtor i j => s!"I w moveCtor {i} {j}"
  | .viewCopy i off j off2 len => s!"I w viewCopy {i} {off} {j} {off2} {len}"

def arrTok (size cap : Nat) (vs : List Elt) : String :=
  vs.foldl (fun s v => s ++ " " ++ toString v) s!" | {size} {cap}"

def obsTok (w : World) : String :=
  let live := w.log.ctor - w.log.dtor
  w.arrs.foldl (fun s a => s ++ arrTok a.size a.cap (abs a)) s!"O obs {if w.thrown then 1 else 0} {live}"

def fresh (st : GS) : Elt × GS := (st.nv, { st with nv := st.nv + 1 })

def freshList (st : GS) (n : Nat) : List Elt × GS :=
  ((List.range n).map (fun i => st.nv + (Int.ofNat i)), { st with nv := st.nv + Int.ofNat n })

/-- a value argument: an element of the array itself (one time in three) or an external value -/
def pickRef (a : Arr) (st : GS) (mk : Ref → Op) : Gen (Op × GS) := do
  let wantSlot ← chance 1 3
  if wantSlot && a.size > 0 then
    let i ← rnd a.size
    let op := mk (.slot i)
    -- any element may be passed (const T&, T&& or emplace argument): the repaired code copies/moves it safely
    if legal st.mx a op then return (op, st)
  let (v, st) := fresh st
  return (mk (.ext v), st)

/-- one operation on array `a`; `big` = the `small`-index mode, which drives sizes up to max_size -/
def genOp (a : Arr) (st : GS) (big : Bool) : Gen (Op × GS) := do
  let sz := a.size
  let lim := if big then 120 else 40
  let grow := if big then 40 else 7
  let shrinkBias ← if sz > lim then chance (if big then 1 else 3) 4 else pure false
  let k ← if shrinkBias then (do return 100 + (← rnd 6)) else rnd 30
  let moveOnly := st.et == "M"
  match k with
  | 0 | 1 | 2 =>
    if moveOnly then (if st.et == "I" then (do let (v, st) := fresh st; return (.pushBackMove (.ext v), st)) else pickRef a st .pushBackMove)
    else pickRef a st .pushBack
  | 3 => if st.et == "I" then (do let (v, st) := fresh st; return (.pushBackMove (.ext v), st)) else pickRef a st .pushBackMove
  | 4 => if moveOnly then (do let (v, st) := fresh st; return (.emplaceBack (.ext v), st)) else pickRef a st .emplaceBack
  | 5 => return (.pushBackDefault, st)
  | 6 | 100 => if sz > 0 then return (.popBack, st) else return (.pushBackDefault, st)
  | 7 | 8 =>
    let p ← rnd (sz + 1)
    if moveOnly then let (v, st) := fresh st; return (.emplace p (.ext v), st)
    else pickRef a st (.insert p)
  | 9 =>
    let p ← rnd (sz + 1)
    if moveOnly then (do let (v, st) := fresh st; return (.emplace p (.ext v), st)) else pickRef a st (.emplace p)
  | 10 | 11 =>
    let p ← rnd (sz + 1); let n ← rnd grow
    if moveOnly then let (v, st) := fresh st; return (.emplace p (.ext v), st)
    else if sz + n ≤ st.mx then pickRef a st (.insertN p n) else return (.shrinkToFit, st)
  | 12 | 13 =>
    let p ← rnd (sz + 1); let n ← rnd grow
    if moveOnly then return (.shrinkToFit, st)
    else if sz + n ≤ st.mx then let (vs, st) := freshList st n; return (.insertRange p vs, st) else return (.clear, st)
  | 14 | 101 | 102 =>
    let f ← rnd (sz + 1); let l ← rnd (sz + 1 - f)
    return (.erase f (f + l), st)
  | 15 | 103 => if sz > 0 then (do let p ← rnd sz; return (.eraseOne p, st)) else return (.shrinkToFit, st)
  | 16 | 104 => if sz > 0 then (do let p ← rnd sz; return (.eraseFast p, st)) else return (.reserve 3, st)
  | 17 => if (← chance 1 3) then return (.clear, st) else return (.shrinkToFit, st)
  | 18 | 105 => let n ← rnd (min st.mx (sz + grow) + 1); return (.resize n, st)
  | 19 =>
    let n ← rnd (min st.mx (sz + grow) + 1)
    if moveOnly then return (.resize n, st) else pickRef a st (.resizeFill n)
  | 20 => let n ← rnd (min st.mx (a.cap + grow + 3) + 1); return (.reserve n, st)
  | 21 => return (.shrinkToFit, st)
  | 22 =>
    if moveOnly then return (.shrinkToFit, st) else
    let n ← rnd (if big then 100 else 12); let (v, st) := fresh st; return (.assignN n v, st)
  | 23 =>
    if moveOnly then return (.reserve (sz + 2), st) else
    let n ← rnd (if big then 100 else 12); let (vs, st) := freshList st n; return (.assignRange vs, st)
  | 24 => if moveOnly then return (.shrinkToFit, st) else pickRef a st .fill
  | 25 => if (← chance 1 4) then return (.deallocate, st) else return (.shrinkToFit, st)
  | 26 =>
    if sz > 0 then (do let i ← rnd sz; let (v, st) := fresh st; return (.setElt i v, st))
    else return (.pushBackDefault, st)
  | 27 | 28 =>
    if moveOnly then return (.shrinkToFit, st) else
    let off ← rnd (sz + 1); let len ← rnd (sz - off + 1)
    let off2 ← rnd (len + 1); let len2 ← rnd (len - off2 + 1)
    pickRef a st (.viewFill off len off2 len2)
  | _ =>
    if moveOnly then return (.shrinkToFit, st) else
    if big && sz < st.mx && (← chance 1 3) then
      -- fill up to max_size exactly: throws unless capacity()+n still fits (the growth test uses capacity)
      let p ← rnd (sz + 1); let (vs, st) := freshList st (st.mx - sz); return (.insertRange p vs, st)
    else
    let off ← rnd (sz + 1); let len ← rnd (sz - off + 1)
    let (vs, st) := freshList st len
    return (.viewAssign off vs, st)

def genWOp (st : GS) (big : Bool) : Gen (WOp × GS) := do
  let moveOnly := st.et == "M"
  let cross ← chance 1 9
  if cross then
    let i ← rnd 3; let j ← rnd 3
    let k ← rnd 6
    match k with
    | 0 => return (.swap i j, st)
    | 1 => return (if moveOnly then .swap i j else .copyAssign i j, st)
    | 2 => return (if i = j then .swap i j else .moveAssign i j, st)
    | 3 => return (if moveOnly then .swap i j else .copyCtor i j, st)
    | 4 => return (.moveCtor i j, st)
    | _ =>
      if moveOnly || i = j then return (.swap i j, st) else
      let ai := st.w.get i; let aj := st.w.get j
      let len ← rnd (min ai.size aj.size + 1)
      let off ← rnd (ai.size - len + 1); let off2 ← rnd (aj.size - len + 1)
      return (.viewCopy i off j off2 len, st)
  else
    let k ← (do let r ← rnd 5; return (if r < 3 then 0 else r - 2))
    let (op, st) ← genOp (st.w.get k) st big
    return (.on k op, st)

def emptyWorld : World := { arrs := [{}, {}, {}] }

/-- A *macro record*: one real API call whose expected observation is the fold of already-modelled
(and proved) operations — constructors, single-pass input-iterator overloads, same-array view
assignment and the documented exceptions of `ArrayView_` assignment. -/
structure Macro where
  line : String
  ops : List WOp
  forceThrown : Bool := false

def pushAll (k : Nat) (vs : List Elt) : List WOp := vs.map (fun v => WOp.on k (.pushBack (.ext v)))

def genMacro (st : GS) : Gen (Macro × GS) := do
  let i ← rnd 3
  let a := st.w.get i
  let sz := a.size
  let kind ← rnd 13
  let n ← rnd 9
  match kind with
  | 12 =>     -- emplace / insert through a non-owner handle onto a(off,len), len ≥ 1, ending before the last element:
              -- "No elements can be inserted into a non-owner array" (SimTK_ERRCHK_ALWAYS) — nothing may change
    if sz < 2 then return ({ line := s!"I w viewSelf {i} 0 0 0", ops := [.on i (.viewAssign 0 [])] }, st) else
    let len0 ← rnd (sz - 1); let len := len0 + 1
    let off ← rnd (sz - len)
    let how ← rnd 3
    let (v, st) := fresh st
    return ({ line := s!"I w shareEmplace {i} {off} {len} {how} {v}", ops := [], forceThrown := true }, st)
  | 10 =>     -- non-owner Array_ handle (DontCopy constructor / shareData) onto a(off,len): fill / assign(n,v) through it
    let off ← rnd (sz + 1); let len ← rnd (sz - off + 1)
    let (v, st) := fresh st
    let how ← rnd 3
    return ({ line := s!"I w shareFill {i} {off} {len} {how} {v}", ops := [.on i (.viewFill off len 0 len (.ext v))] }, st)
  | 11 =>     -- non-owner handle = other array of the same size (elementwise assignment branch of operator=)
    let off ← rnd (sz + 1); let len ← rnd (sz - off + 1)
    let (vs, st) := freshList st len
    return ({ line := s!"I w shareAssign {i} {off} {listTok vs}", ops := [.on i (.viewAssign off vs)] }, st)
  | 0 =>      -- Array_(n): n default-constructed elements, exact allocation
    return ({ line := s!"I w ctorN {i} {n}",
              ops := [.on i .deallocate, .on i (.reserve n), .on i (.assignRange (List.replicate n defaultVal))] }, st)
  | 1 =>      -- Array_(n, v)
    let (v, st) := fresh st
    return ({ line := s!"I w ctorNV {i} {n} {v}",
              ops := [.on i .deallocate, .on i (.reserve n), .on i (.assignRange (List.replicate n v))] }, st)
  | 2 | 3 =>  -- Array_(first,last1): pointers / std::vector / converting Array_<int> / forward iterators / initializer_list
    let (vs, st) := freshList st n
    let how ← rnd 5
    return ({ line := s!"I w ctorRange {i} {how} {listTok vs}",
              ops := [.on i .deallocate, .on i (.reserve n), .on i (.assignRange vs)] }, st)
  | 4 =>      -- Array_(InputIterator, InputIterator): push_back one at a time
    let (vs, st) := freshList st n
    return ({ line := s!"I w ctorInput {i} {listTok vs}", ops := WOp.on i .deallocate :: pushAll i vs }, st)
  | 5 =>      -- assign(InputIterator, InputIterator): clear(), then push_back one at a time
    let (vs, st) := freshList st n
    return ({ line := s!"I w assignInput {i} {listTok vs}", ops := WOp.on i .clear :: pushAll i vs }, st)
  | 6 =>      -- insert(p, InputIterator, InputIterator): insert one at a time
    let p ← rnd (sz + 1)
    let (vs, st) := freshList st (n % 5)
    let ops := (List.range vs.length).map (fun q => WOp.on i (.insert (p + q) (.ext (vs.getD q 0))))
    return ({ line := s!"I w insertInput {i} {p} {listTok vs}", ops := ops }, st)
  | 7 | 8 =>  -- a(off,len) = a(off2,len) on the SAME array: elementwise if disjoint, exception if the ranges overlap
    let len ← rnd (sz / 2 + 1)
    let off ← rnd (sz - len + 1); let off2 ← rnd (sz - len + 1)
    let overlap := len > 0 && off < off2 + len && off2 < off + len
    if overlap then
      return ({ line := s!"I w viewSelf {i} {off} {off2} {len}", ops := [], forceThrown := true }, st)
    else
      return ({ line := s!"I w viewSelf {i} {off} {off2} {len}",
                ops := [.on i (.viewAssign off (((abs a).drop off2).take len))] }, st)
  | _ =>      -- a_i(off,len) = a_j(off2,len2) with len ≠ len2: "same size" exception, nothing assigned
    let j := (i + 1) % 3
    let b := st.w.get j
    let len ← rnd (sz + 1); let len2 ← rnd (b.size + 1)
    if len = len2 then
      return ({ line := s!"I w viewCopy {i} 0 {j} 0 {len}", ops := [.viewCopy i 0 j 0 len] }, st)
    else
      return ({ line := s!"I w viewMismatch {i} {len} {j} {len2}", ops := [], forceThrown := true }, st)

partial def genNormal (out : IO.FS.Stream) (et : String) (mx : Nat) (big : Bool) (n : Nat) (g : SplitMix) : IO Unit := do
  let mut g := g
  let mut left := n
  while left > 0 do
    let (len, g1) := g.below 250
    g := g1
    let caseLen := min left (len + 30)
    out.putStrLn s!"I new {et} {mx}"
    out.putStrLn (obsTok emptyWorld)
    let mut st : GS := { w := emptyWorld, et := et, mx := mx }
    left := left - 1
    for _ in [0:caseLen] do
      if left = 0 then break
      let (useMacro, g1) := g.below 10
      g := g1
      if useMacro = 0 && et != "M" then
        let ((m, st1), g1) := (genMacro st).run g
        g := g1
        st := st1
        -- fold the modelled operations; every one of them must be legal where it is applied
        let mut w := st.w
        let mut ok := true
        let mut thrown := m.forceThrown
        for op in m.ops do
          if ok && wlegal mx w op then
            w := wstepCurrent mx w op
            thrown := thrown || w.thrown
          else ok := false
        if ok then
          out.putStrLn m.line
          out.putStrLn (obsTok { w with thrown := thrown })
          st := { st with w := { w with thrown := false } }
          left := left - 1
      else
        let ((wop, st1), g1) := (genWOp st big).run g
        g := g1
        st := st1
        if wlegal mx st.w wop then
          let w' := wstepCurrent mx st.w wop
          out.putStrLn (wopTok wop)
          out.putStrLn (obsTok w')
          st := { st with w := { w' with thrown := false } }
          left := left - 1

/-- aliasing streams: build an array, then one operation whose value argument is an element that the
operation reallocates (`realloc`) or shifts (`shift`).  Expected observation = specification. -/
partial def genAlias (out : IO.FS.Stream) (et : String) (mx : Nat) (reallocOnly : Bool) (rvalue : Bool) (n : Nat) (g : SplitMix) : IO Unit := do
  let mut g := g
  let mut left := n
  while left > 0 do
    -- build: sz elements, either exactly full or with spare capacity
    let (sz0, g1) := g.below 12; g := g1
    let sz := sz0 + 1
    let vs := (List.range sz).map (fun i => Int.ofNat (10 * (i + 1)))
    let (full, g1) := g.bool; g := g1
    let full := full || reallocOnly
    let mut w := emptyWorld
    let build : List WOp :=
      if full then [.on 0 (.assignRange vs), .on 0 .shrinkToFit, .on 0 (.reserve sz)]
      else [.on 0 (.assignRange vs), .on 0 (.reserve (sz + 8))]
    for b in build do
      w := wstep mx w b
    let a := w.get 0
    let (i, g1) := g.below sz; g := g1
    let (kind, g1) := g.below 4; g := g1
    let (p0, g1) := g.below (sz + 1); g := g1
    let (nn, g1) := g.below 4; g := g1
    let isFull := a.cap = a.size
    -- choose an operation for which `refOK` is false
    let p := if isFull then p0 else min p0 i      -- in place: the element must be at or after p
    let op : Op :=
      if rvalue then
        -- the rvalue / emplace family (not guarded by commit 06f34988)
        match kind with
        | 0 => if isFull then .emplaceBack (.slot i) else .emplace p (.slot i)
        | 1 => if isFull then .pushBackMove (.slot i) else .emplace p (.slot i)
        | _ => .emplace p (.slot i)
      else
      match kind with
      | 0 => if isFull then .pushBack (.slot i) else .insert p (.slot i)
      | 1 => .insert p (.slot i)
      | 2 => .insertN p (nn + 1) (.slot i)
      | _ => if isFull then .resizeFill (sz + nn + 1) (.slot i) else .insertN p (nn + 1) (.slot i)
    if legal mx a op && !refOK a op then
      let r := step mx a w.log op               -- the model as the code is: gives the capacity
      let expect := spec (abs a) op             -- what a correct container holds afterwards
      -- one self-contained record: element type, max_size, the building operations, then the aliasing call
      let segs := (build ++ [WOp.on 0 op]).foldl (fun s b => s ++ " | " ++ ((wopTok b).drop 2).toString) ""
      out.putStrLn (s!"I seq {et} {mx}" ++ segs)
      out.putStrLn (s!"O obs 0 {expect.length}" ++ arrTok expect.length r.arr.cap expect ++ " | 0 0 | 0 0")
      -- commentary (not compared): what the transcribed algorithm does with the aliased reference
      out.putStrLn s!"# model-as-is: violations={r.log.viol - w.log.viol} contents={abs r.arr}"
      left := left - 1

/-! ### pointer wrappers -/

def optTok : Option Elt → String
  | none => "null"
  | some v => toString v

structure PS where
  h : Heap := {}                 -- CloneOnWritePtr heap
  cow : List Ptr := [none, none, none, none]
  h2 : Heap := {}                -- ClonePtr heap
  cl : List Ptr := [none, none, none, none]
  rp : List Ptr := [none, none, none]          -- ReferencePtr variables (pointing at targets 0..2)
  tg : List Elt := [100, 200, 300]             -- the targets' values
  roc : List Elt := [0, 0, 0]                  -- ResetOnCopy
  ri : List Reinit := [Reinit.make 7, Reinit.make 8, Reinit.make 9]

def PS.obs (s : PS) : String :=
  let c := s.cow.foldl (fun acc p => acc ++ s!" | {optTok (Cow.get s.h p)} {Cow.useCount s.h p}") s!"O ptr cow {s.h.liveCount} {s.h.doubleFree}"
  let d := s.cl.foldl (fun acc p => acc ++ s!" | {optTok (Clone.get s.h2 p)}") s!" # clone {s.h2.liveCount} {s.h2.doubleFree}"
  let r := s.rp.foldl (fun acc p => acc ++ s!" | {match p with | none => "null" | some t => toString t}") " # refp"
  let t := s.tg.foldl (fun acc v => acc ++ s!" {v}") " # tg"
  let o := s.roc.foldl (fun acc v => acc ++ s!" {v}") " # roc"
  let i := s.ri.foldl (fun acc v => acc ++ s!" {v.value}/{v.reinit}") " # ri"
  c ++ d ++ r ++ t ++ o ++ i

partial def genPtr (out : IO.FS.Stream) (n : Nat) (g : SplitMix) : IO Unit := do
  let mut g := g
  let mut left := n
  let mut nv : Int := 1
  while left > 0 do
    out.putStrLn "I ptr new"
    let mut s : PS := {}
    out.putStrLn s.obs
    left := left - 1
    let (len, g1) := g.below 150; g := g1
    for _ in [0:len + 20] do
      if left = 0 then break
      let (fam, g1) := g.below 10; g := g1
      let (k, g1) := g.below 4; g := g1
      let (j, g1) := g.below 4; g := g1
      let (o, g1) := g.below 10; g := g1
      nv := nv + 1
      let v := nv
      if fam < 4 then
        -- CloneOnWritePtr
        let pk := s.cow.getD k none; let pj := s.cow.getD j none
        match o with
        | 0 | 1 =>
          let (h, _) := Cow.reset s.h pk
          let (h, p) := Cow.make h v
          s := { s with h := h, cow := s.cow.set k p }; out.putStrLn s!"I cow make {k} {v}"
        | 2 | 3 =>
          let (h, p) := Cow.copyAssign s.h pk pj
          s := { s with h := h, cow := s.cow.set k p }; out.putStrLn s!"I cow copy {k} {j}"
        | 4 =>
          if k = j then
            out.putStrLn s!"I cow detach {k}"
            let (h, p) := Cow.detach s.h pk
            s := { s with h := h, cow := s.cow.set k p }
          else if v % 2 = 0 then
            let (h, _) := Cow.reset s.h pk
            let (h, p) := Cow.copyCtor h pj
            s := { s with h := h, cow := s.cow.set k p }; out.putStrLn s!"I cow cctor {k} {j}"
          else   -- destroy k, move-construct it from j
            let (h, p, q) := Cow.moveAssign s.h pk pj
            s := { s with h := h, cow := (s.cow.set k p).set j q }; out.putStrLn s!"I cow mctor {k} {j}"
        | 5 | 6 =>
          if pk.isSome then
            let (h, p) := Cow.write s.h pk v
            s := { s with h := h, cow := s.cow.set k p }; out.putStrLn s!"I cow write {k} {v}"
          else
            let (h, p) := Cow.make s.h v
            s := { s with h := h, cow := s.cow.set k p }; out.putStrLn s!"I cow make {k} {v}"
        | 7 =>
          let (h, p) := Cow.reset s.h pk
          s := { s with h := h, cow := s.cow.set k p }; out.putStrLn s!"I cow reset {k}"
        | 8 =>
          if k = j then
            let (h, p, raw) := Cow.release s.h pk
            let h := match raw with | none => h | some x => h.free x
            s := { s with h := h, cow := s.cow.set k p }; out.putStrLn s!"I cow release {k}"
          else
            let (h, p, q) := Cow.moveAssign s.h pk pj
            s := { s with h := h, cow := (s.cow.set k p).set j q }; out.putStrLn s!"I cow move {k} {j}"
        | _ =>
          s := { s with cow := (s.cow.set k pj).set j pk }; out.putStrLn s!"I cow swap {k} {j}"
      else if fam < 7 then
        -- ClonePtr
        let pk := s.cl.getD k none; let pj := s.cl.getD j none
        match o with
        | 0 | 1 =>
          let (h, _) := Clone.reset s.h2 pk
          let (h, p) := Clone.make h v
          s := { s with h2 := h, cl := s.cl.set k p }; out.putStrLn s!"I clone make {k} {v}"
        | 2 | 3 =>
          if k = j then
            out.putStrLn s!"I clone copy {k} {k}"      -- self assignment: `if (&src != this)` — nothing happens
          else
            let (h, p) := Clone.copyAssign s.h2 pk pj
            s := { s with h2 := h, cl := s.cl.set k p }; out.putStrLn s!"I clone copy {k} {j}"
        | 4 =>
          if k = j then
            out.putStrLn s!"I clone reset {k}"
            let (h, p) := Clone.reset s.h2 pk
            s := { s with h2 := h, cl := s.cl.set k p }
          else if v % 2 = 0 then
            let (h, _) := Clone.reset s.h2 pk
            let (h, p) := Clone.copyCtor h pj
            s := { s with h2 := h, cl := s.cl.set k p }; out.putStrLn s!"I clone cctor {k} {j}"
          else
            let (h, _) := Clone.reset s.h2 pk
            s := { s with h2 := h, cl := (s.cl.set k pj).set j none }; out.putStrLn s!"I clone mctor {k} {j}"
        | 5 | 6 =>
          if pk.isSome then
            s := { s with h2 := Clone.write s.h2 pk v }; out.putStrLn s!"I clone write {k} {v}"
          else
            let (h, p) := Clone.make s.h2 v
            s := { s with h2 := h, cl := s.cl.set k p }; out.putStrLn s!"I clone make {k} {v}"
        | 7 =>
          let (h, p) := Clone.reset s.h2 pk
          s := { s with h2 := h, cl := s.cl.set k p }; out.putStrLn s!"I clone reset {k}"
        | 8 =>
          if k = j then
            out.putStrLn s!"I clone reset {k}"
            let (h, p) := Clone.reset s.h2 pk
            s := { s with h2 := h, cl := s.cl.set k p }
          else
            let (h, p, q) := Clone.moveAssign s.h2 pk pj
            s := { s with h2 := h, cl := (s.cl.set k p).set j q }; out.putStrLn s!"I clone move {k} {j}"
        | _ =>
          s := { s with cl := (s.cl.set k pj).set j pk }; out.putStrLn s!"I clone swap {k} {j}"
      else
        let k := k % 3; let j := j % 3
        match o with
        | 0 =>
          let (t, g1) := g.below 3; g := g1
          s := { s with rp := s.rp.set k (RefPtr.reset (some t)) }; out.putStrLn s!"I refp set {k} {t}"
        | 1 =>
          if k = j then
            out.putStrLn s!"I refp copy {k} {k}"        -- self assignment keeps the pointer
          else
            s := { s with rp := s.rp.set k (RefPtr.copyAssign (s.rp.getD k none) (s.rp.getD j none)) }
            out.putStrLn s!"I refp copy {k} {j}"
        | 2 =>
          if k = j then
            s := { s with rp := s.rp.set k none }; out.putStrLn s!"I refp reset {k}"
          else if v % 2 = 0 then
            s := { s with rp := s.rp.set k (RefPtr.copyCtor (s.rp.getD j none)) }; out.putStrLn s!"I refp cctor {k} {j}"
          else
            let (p, q) := RefPtr.moveCtor (s.rp.getD j none)
            s := { s with rp := (s.rp.set k p).set j q }; out.putStrLn s!"I refp mctor {k} {j}"
        | 3 =>
          if k = j then
            s := { s with rp := s.rp.set k none }; out.putStrLn s!"I refp reset {k}"
          else
            let (p, q) := RefPtr.moveAssign (s.rp.getD k none) (s.rp.getD j none)
            s := { s with rp := (s.rp.set k p).set j q }; out.putStrLn s!"I refp move {k} {j}"
        | 4 =>
          match s.rp.getD k none with
          | some t => s := { s with tg := s.tg.set t v }; out.putStrLn s!"I refp write {k} {v}"
          | none => s := { s with rp := s.rp.set k (some 0) }; out.putStrLn s!"I refp set {k} 0"
        | 5 =>
          s := { s with roc := s.roc.set k (ResetOnCopy.assignValue (s.roc.getD k 0) v) }; out.putStrLn s!"I roc set {k} {v}"
        | 6 =>
          if k = j || v % 2 = 0 then     -- includes self assignment `x = x`, which also resets
            s := { s with roc := s.roc.set k (ResetOnCopy.copyAssign (s.roc.getD k 0) (s.roc.getD j 0)) }; out.putStrLn s!"I roc copy {k} {j}"
          else if v % 3 = 0 then
            s := { s with roc := s.roc.set k (ResetOnCopy.moveCtor (s.roc.getD j 0)) }; out.putStrLn s!"I roc mctor {k} {j}"
          else
            s := { s with roc := s.roc.set k (ResetOnCopy.copyCtor (s.roc.getD j 0)) }; out.putStrLn s!"I roc cctor {k} {j}"
        | 7 =>
          s := { s with ri := s.ri.set k ((s.ri.getD k default).assignValue v) }; out.putStrLn s!"I ri set {k} {v}"
        | 8 =>
          if k = j && v % 3 = 0 then
            s := { s with ri := s.ri.set k (Reinit.make v) }; out.putStrLn s!"I ri make {k} {v}"
          else if k = j || v % 2 = 0 then    -- includes self assignment: value := own reinit value
            s := { s with ri := s.ri.set k (Reinit.copyAssign (s.ri.getD k default) (s.ri.getD j default)) }; out.putStrLn s!"I ri copy {k} {j}"
          else if v % 3 = 0 then
            s := { s with ri := s.ri.set k (Reinit.moveCtor (s.ri.getD j default)) }; out.putStrLn s!"I ri mctor {k} {j}"
          else
            s := { s with ri := s.ri.set k (Reinit.copyCtor (s.ri.getD j default)) }; out.putStrLn s!"I ri cctor {k} {j}"
        | _ =>
          if k = j then
            s := { s with ri := s.ri.set k (Reinit.make v) }; out.putStrLn s!"I ri make {k} {v}"
          else if v % 2 = 0 then
            s := { s with ri := s.ri.set k (Reinit.moveAssign (s.ri.getD k default) (s.ri.getD j default)) }; out.putStrLn s!"I ri move {k} {j}"
          else
            s := { s with roc := s.roc.set k (ResetOnCopy.moveAssign (s.roc.getD k 0) (s.roc.getD j 0)) }; out.putStrLn s!"I roc move {k} {j}"
      out.putStrLn s.obs
      left := left - 1

def main (args : List String) : IO UInt32 := do
  let out ← IO.getStdout
  match args with
  | "gen" :: seedS :: nS :: rest =>
    let seed := seedS.toNat!
    let n := nS.toNat!
    let mode := rest.headD ""
    let g : SplitMix := ⟨UInt64.ofNat (seed * 7919 + mode.length * 104729 + 12345)⟩
    match mode with
    | "" => genNormal out "C" 2147483647 false n g
    | "int" => genNormal out "I" 2147483647 false n g
    | "moveonly" => genNormal out "M" 2147483647 false n g
    | "small" => genNormal out "S" 127 true n g
    | "alias" => genAlias out "C" 2147483647 false false n g
    | "alias_asan" => genAlias out "A" 2147483647 true false (min n 40) g
    | "alias_emplace" => genAlias out "C" 2147483647 false true n g
    | "alias_emplace_asan" => genAlias out "A" 2147483647 true true (min n 40) g
    | "ptr" => genPtr out n g
    | _ => IO.eprintln s!"unknown mode {mode}"; return 2
    return 0
  | _ =>
    IO.eprintln "usage: drv_C26 gen <seed> <n> [mode]"
    return 2
