import SimbodyModel.Proto
import SimbodyModel.C04
/-!
Driver for C04.  One record per random tree:

  I jac caseSeed nbMax nb nu nt ncols  <body>*nb  u[nu] v[nu] udot[nu] F[6(nb+1)]  <task>*nt  fS[3nt] FA[6nt]  cols[ncols]
    <body> = id parent u0 d  l[3] R[9 row-major] H[6d column-major: w,v per column] a[6]
    <task> = body p_B[3]

answered by (all through the definitions of SimbodyModel/C04.lean at `K := Float`)

  O Ju      J v                     6(nb+1)   (Ground first)
  O Vstate  J u                     6(nb+1)
  O JtF     ~J F                    nu
  O JSu     station operator        3nt
  O JStf    station transpose       nu
  O JFu     frame operator          6nt
  O JFtF    frame transpose         nu
  O A       accelerations(udot)     6(nb+1)
  O bias    total Coriolis          6(nb+1)
  O biasS   station bias            3nt
  O biasF   frame bias              6nt
  O Jcols   calcSystemJacobian, selected columns, column by column (6(nb+1) each)
  O JSrows  calcStationJacobian, rows (task,i), selected columns
  O JFrows  calcFrameJacobian,   rows (task,i), selected columns
-/
open Proto C04

structure Cur where
  toks : Array String
  pos : Nat

def Cur.nat (c : Cur) : Nat × Cur := ((c.toks.getD c.pos "0").toNat!, { c with pos := c.pos + 1 })
def Cur.flt (c : Cur) : Float × Cur := (hexToFloat (c.toks.getD c.pos "0"), { c with pos := c.pos + 1 })
def Cur.flts (c : Cur) (n : Nat) : List Float × Cur :=
  ((List.range n).map (fun i => hexToFloat (c.toks.getD (c.pos + i) "0")), { c with pos := c.pos + n })
def Cur.nats (c : Cur) (n : Nat) : List Nat × Cur :=
  ((List.range n).map (fun i => (c.toks.getD (c.pos + i) "0").toNat!), { c with pos := c.pos + n })

def v3 (l : List Float) : V3 Float := ⟨l.getD 0 0, l.getD 1 0, l.getD 2 0⟩
def sv (l : List Float) : SV Float := ⟨v3 l, v3 (l.drop 3)⟩

structure RawBody where
  b : Bd Float
  parent : Nat
  a : SV Float

def readBody (c : Cur) : RawBody × Cur :=
  let (id, c) := c.nat
  let (parent, c) := c.nat
  let (u0, c) := c.nat
  let (d, c) := c.nat
  let (l, c) := c.flts 3
  let (r, c) := c.flts 9
  let (h, c) := c.flts (6 * d)
  let (a, c) := c.flts 6
  let H := (List.range d).map (fun k => sv (h.drop (6 * k)))
  let R := [v3 r, v3 (r.drop 3), v3 (r.drop 6)]
  ({ b := { id := id, u0 := u0, l := v3 l, H := H, R := R }, parent := parent, a := sv a }, c)

def readBodies : Nat → Cur → List RawBody × Cur
  | 0, c => ([], c)
  | n + 1, c =>
    let (b, c) := readBody c
    let (bs, c) := readBodies n c
    (b :: bs, c)

/-- children of body `p`, recursively (fuel bounds the depth) -/
def build (bs : List RawBody) : Nat → Nat → List (Tr Float)
  | 0, _ => []
  | fuel + 1, p => (bs.filter (fun b => b.parent == p)).map (fun b => Tr.node b.b (build bs fuel b.b.id))

def chunks (k : Nat) : Nat → List Float → List (List Float)
  | 0, _ => []
  | n + 1, l => l.take k :: chunks k n (l.drop k)

def allBodies (nb : Nat) (vals : BodyVals Float) : List Float :=
  ((List.range (nb + 1)).map (fun i => SV.toList (lookup i vals))).flatten

def handle (toks : List String) : List String :=
  let c : Cur := ⟨toks.toArray, 2⟩        -- skip caseSeed, nbMax (generator parameters, for replay)
  let (nb, c) := c.nat
  let (nu, c) := c.nat
  let (nt, c) := c.nat
  let (ncols, c) := c.nat
  let (bs, c) := readBodies nb c
  let (u, c) := c.flts nu
  let (v, c) := c.flts nu
  let (ud, c) := c.flts nu
  let (Fl, c) := c.flts (6 * (nb + 1))
  let (rawTasks, c) :=
    (List.range nt).foldl (fun (acc : List (Nat × V3 Float) × Cur) _ =>
      let (b, c1) := acc.2.nat
      let (p, c2) := c1.flts 3
      (acc.1 ++ [(b, v3 p)], c2)) (([] : List (Nat × V3 Float)), c)
  let (fS, c) := c.flts (3 * nt)
  let (FA, c) := c.flts (6 * nt)
  let (cols, _) := c.nats ncols
  let ts := build bs (nb + 1) 0
  let Farr := (chunks 6 (nb + 1) Fl).map sv |>.toArray
  let F : Nat → SV Float := fun i => Farr.getD i SV.zero
  let aArr : Array (SV Float) := Id.run do
    let mut arr := Array.replicate (nb + 1) (SV.zero : SV Float)
    for b in bs do arr := arr.setIfInBounds b.b.id b.a
    return arr
  let a : Nat → SV Float := fun i => aArr.getD i SV.zero
  let Rof : Nat → List (V3 Float) := fun i =>
    match bs.find? (fun b => b.b.id == i) with
    | some b => b.b.R
    | none => []          -- Ground: identity
  let tasks : List (C04.Task Float) := rawTasks.map (fun (b, p) => ⟨b, rotate (Rof b) p⟩)
  let Vst := sysJ ts u
  let w : Nat → V3 Float := fun i => (lookup i Vst).w
  let fSl := (chunks 3 nt fS).map v3
  let FAl := (chunks 6 nt FA).map sv
  let Jcols := cols.map (fun j => allBodies nb (sysJ ts (unitL nu j)))
  let sel (row : List Float) : List Float := cols.map (fun j => row.getD j 0)
  let JS := calcStationJ ts nu tasks
  let JF := calcFrameJ ts nu tasks
  [ fmtFloats "O Ju" (allBodies nb (sysJ ts v)),
    fmtFloats "O Vstate" (allBodies nb Vst),
    fmtFloats "O JtF" (sysJTflat ts nu F),
    fmtFloats "O JSu" ((mulStationJ ts tasks v).map V3.toList).flatten,
    fmtFloats "O JStf" (mulStationJT ts nu tasks fSl),
    fmtFloats "O JFu" ((mulFrameJ ts tasks v).map SV.toList).flatten,
    fmtFloats "O JFtF" (mulFrameJT ts nu tasks FAl),
    fmtFloats "O A" (allBodies nb (sysAcc ts a ud)),
    fmtFloats "O bias" (allBodies nb (sysBias ts a)),
    fmtFloats "O biasS" ((biasStationJ ts a w tasks).map V3.toList).flatten,
    fmtFloats "O biasF" ((biasFrameJ ts a w tasks).map SV.toList).flatten,
    fmtFloats "O Jcols" Jcols.flatten,
    fmtFloats "O JSrows" ((JS.map (fun rows => (rows.map sel).flatten)).flatten),
    fmtFloats "O JFrows" ((JF.map (fun rows => (rows.map sel).flatten)).flatten) ]

def main : IO Unit := do
  let lines ← readStdinLines
  let out ← IO.getStdout
  for ln in lines do
    match tokens ln with
    | "I" :: "jac" :: rest =>
      out.putStrLn ln.trimAscii.toString
      for o in handle rest do out.putStrLn o
    | "I" :: fn :: _ =>
      out.putStrLn ln.trimAscii.toString
      out.putStrLn ("O " ++ fn ++ " ERR")
    | _ => pure ()
