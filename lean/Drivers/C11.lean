import SimbodyModel.Proto
import SimbodyModel.C11
/-!
Driver for C11.  One record per simulated trajectory, taken at its final state:

  I energy|energyF|energyC caseSeed scenario integ accExp nb <body>*nb
    <body> = m p[3] I[6: xx yy zz xy xz yz, about the body origin, in Ground] r[3] V[6] A[6]

answered with (definitions of SimbodyModel/C11.lean at `K := Float`)

  O ke       ½ Σ ~V M V
  O mom      Σ Phi(r) M V                      (6)
  O power    Σ ~V (M A + b)                    (not for energyC: constrained systems)
  O momrate  Σ Phi(r) (M A + b)                (energy; energyF: `momrate+mom`, the same plus the momentum, so that the
                                                0-vs-0 comparison of a free-floating system has a scale; the harness side is the applied forces about the
                                                Ground origin plus, for ground-attached trees, the base mobilizer reactions)
-/
open Proto C04 C11

def v3 (l : List Float) : V3 Float := ⟨l.getD 0 0, l.getD 1 0, l.getD 2 0⟩
def sv (l : List Float) : SV Float := ⟨v3 l, v3 (l.drop 3)⟩

structure BodyRec where
  b : RB Float
  r : V3 Float
  V : SV Float
  A : SV Float

def readBodies : Nat → List Float → List BodyRec
  | 0, _ => []
  | n + 1, l =>
    let m := l.getD 0 0
    let p := v3 (l.drop 1)
    let i := l.drop 4
    let I : Sym3 Float := ⟨i.getD 0 0, i.getD 1 0, i.getD 2 0, i.getD 3 0, i.getD 4 0, i.getD 5 0⟩
    let r := v3 (l.drop 10)
    let V := sv (l.drop 13)
    let A := sv (l.drop 19)
    ⟨⟨m, p, I⟩, r, V, A⟩ :: readBodies n (l.drop 25)

def svSum (l : List (SV Float)) : SV Float := l.foldl SV.add SV.zero

def handle (kind : String) (toks : List String) : List String :=
  let nb := (toks.getD 4 "0").toNat!
  let bs := readBodies nb ((toks.drop 5).map hexToFloat)
  let ke := 0.5 * (bs.map (fun x => ke2 x.b x.V)).foldl (· + ·) 0
  let mom := svSum (bs.map (fun x => momG x.b x.r x.V))
  let fin := bs.map (fun x => SV.add (mulM x.b x.A) (gyro x.b x.V.w))
  let power := (List.zipWith (fun x f => SV.dot x.V f) bs fin).foldl (· + ·) 0
  let momrate := svSum (List.zipWith (fun x f => phi x.r f) bs fin)
  [fmtFloats "O ke" [ke], fmtFloats "O mom" (SV.toList mom)]
    ++ (if kind == "energyC" then [] else [fmtFloats "O power" [power]])
    ++ (if kind == "energy" then [fmtFloats "O momrate" (SV.toList momrate)] else [])
    ++ (if kind == "energyF" then [fmtFloats "O momrate+mom" (SV.toList (SV.add momrate mom))] else [])

def main : IO Unit := do
  let lines ← readStdinLines
  let out ← IO.getStdout
  for ln in lines do
    match tokens ln with
    | "I" :: kind :: rest =>
      out.putStrLn ln.trimAscii.toString
      if kind == "energy" || kind == "energyF" || kind == "energyC" then
        for o in handle kind rest do out.putStrLn o
      else if kind == "coverage" then out.putStrLn "O coverage 0"     -- bookkeeping record of the harness (no model content)
      else out.putStrLn ("O " ++ kind ++ " ERR")
    | _ => pure ()
