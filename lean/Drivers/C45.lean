import SimbodyModel.Proto
import SimbodyModel.C45
/-!
Driver for C45.
  `I span T nElem <origin: xB w vB p t> {1 xB w vB P tP Q tQ arc | 2 xB w vB p tin tout}* <term: xB w vB p t>`
      -> `O span L Ldot power <6 per unit force: moment, force>`
  `I path T nPts <xB w vB p>*`  (all straight)  -> `O path L Ldot power`
-/
open Proto C45

structure Cur where
  toks : Array String
  pos : Nat

def Cur.int (c : Cur) : Nat × Cur := ((c.toks.getD c.pos "0").toNat!, { c with pos := c.pos + 1 })
def Cur.flt (c : Cur) : Float × Cur := (hexToFloat (c.toks.getD c.pos "0"), { c with pos := c.pos + 1 })
def Cur.v3 (c : Cur) : V3 Float × Cur :=
  let (x, c) := c.flt; let (y, c) := c.flt; let (z, c) := c.flt
  (⟨x, y, z⟩, c)
def Cur.kin (c : Cur) : Kin Float × Cur :=
  let (x, c) := c.v3; let (w, c) := c.v3; let (v, c) := c.v3
  (⟨x, w, v⟩, c)
def Cur.endPt (c : Cur) : EndPt Float × Cur :=
  let (k, c) := c.kin; let (p, c) := c.v3; let (t, c) := c.v3
  (⟨k, p, t⟩, c)

instance : Inhabited (V3 Float) := ⟨⟨0, 0, 0⟩⟩
instance : Inhabited (Kin Float) := ⟨⟨default, default, default⟩⟩

def v3s (v : V3 Float) : List Float := [v.x, v.y, v.z]

def spanRecord (toks : Array String) : String := Id.run do
  let c : Cur := ⟨toks, 2⟩        -- tokens 0,1: generator seed and case index (for replay)
  let (T, c) := c.flt
  let (nElem, c) := c.int
  let (origin, c) := c.endPt
  let mut cur := c
  let mut elems : Array (Elem Float) := #[]
  for _ in [0:nElem] do
    let (kind, c1) := cur.int
    let (k, c2) := c1.kin
    if kind == 1 then
      let (P, c3) := c2.v3; let (tP, c4) := c3.v3; let (Q, c5) := c4.v3; let (tQ, c6) := c5.v3; let (arc, c7) := c6.flt
      elems := elems.push (.curve k P tP Q tQ arc); cur := c7
    else
      let (p, c3) := c2.v3; let (tin, c4) := c3.v3; let (tout, c5) := c4.v3
      elems := elems.push (.via k p tin tout); cur := c5
  let (term, _) := cur.endPt
  let path : Path Float := ⟨origin, elems.toList, term⟩
  let L := length Float.sqrt path
  let Ld := lengthDot Float.sqrt path
  let pw := cablePower path T
  let fs := (unitForces path).flatMap (fun F => v3s F.m ++ v3s F.f)
  return fmtFloats "O span" ([L, Ld, pw] ++ fs ++ v3s (totalForce path) ++ v3s (totalMoment path))

def pathRecord (toks : Array String) : String := Id.run do
  let c : Cur := ⟨toks, 2⟩
  let (T, c) := c.flt
  let (nPts, c) := c.int
  let mut cur := c
  let mut pts : Array (Kin Float × V3 Float) := #[]
  for _ in [0:nPts] do
    let (k, c1) := cur.kin
    let (p, c2) := c1.v3
    pts := pts.push (k, p); cur := c2
  if pts.size < 2 then return "O path ERR"
  -- tangents of an all-straight path are the segment directions
  let dir (i : Nat) : V3 Float := unit Float.sqrt (V3.sub (pts[i + 1]!).2 (pts[i]!).2)
  let origin : EndPt Float := ⟨(pts[0]!).1, (pts[0]!).2, dir 0⟩
  let last := pts.size - 1
  let term : EndPt Float := ⟨(pts[last]!).1, (pts[last]!).2, dir (last - 1)⟩
  let elems : List (Elem Float) := (List.range (pts.size - 2)).map (fun j =>
    let i := j + 1
    Elem.via (pts[i]!).1 (pts[i]!).2 (dir (i - 1)) (dir i))
  let path : Path Float := ⟨origin, elems, term⟩
  return fmtFloats "O path" [length Float.sqrt path, lengthDot Float.sqrt path, cablePower path T]

def main : IO Unit := do
  let lines ← readStdinLines
  let out ← IO.getStdout
  for ln in lines do
    if ln.startsWith "I " then out.putStrLn ln.trimAscii.toString
    match tokens ln with
    | "I" :: "span" :: rest => out.putStrLn (spanRecord rest.toArray)
    | "I" :: "path" :: rest => out.putStrLn (pathRecord rest.toArray)
    | "I" :: "floor" :: _ => out.putStrLn "O floor 1"
    | "I" :: fn :: _ => out.putStrLn ("O " ++ fn ++ " ERR")
    | _ => pure ()
