import SimbodyModel.Proto
import SimbodyModel.C36
/-! Driver for C36.  Records (all numbers as hex doubles, `<cls>` = input class tag):
* `obb.q  cls X(12) size(3) p(3) o(3) d(3)`            → contains, nearest point + dist², ray hit/distance
* `tri.q cls tetra(12) face p(3) L0 L1 L2` → `O tri.q point(3) u v` (`findNearestPointToFace`)
* `mesh.q cls kind seed sub nq (p(3) o(3) d(3))* nV V… nF F… <tree>`  → per query `O mesh.nearest d² point` and `O mesh.ray hit dist`
  tree (pre-order): `1 box(15) <child1> <child2>` | `0 box(15) k f₁…f_k`, box = rotation rows(9) origin(3) size(3)
* `sph2 cls p0 p1`, `sph3 cls a b c`                    → centre, radius
* `topo cls nV nF nE fv(3nF) fe(3nF) ev(2nE) ef(2nE)`   → 1 iff the adjacency tables are consistent
* `p.*`                                                 → `O p.… -` (implementation-side predicates only) -/
open Proto Geom Geom.Msh

def fl (xs : List Float) : String := xs.foldl (fun s x => s ++ " " ++ floatToHex x) ""
def tolGeo : Float := Float.pow 2.220446049250313e-16 0.875
def negInf : Float := -1.7976931348623157e308

def v3at (a : Array Float) (i : Nat) : V3 Float := ⟨a[i]!, a[i+1]!, a[i+2]!⟩
def obbAt (a : Array Float) (i : Nat) : Obb Float :=
  ⟨⟨⟨v3at a i, v3at a (i+3), v3at a (i+6)⟩, v3at a (i+9)⟩, v3at a (i+12)⟩

instance : Inhabited (Obb Float) := ⟨⟨⟨⟨⟨1, 0, 0⟩, ⟨0, 1, 0⟩, ⟨0, 0, 1⟩⟩, ⟨0, 0, 0⟩⟩, ⟨0, 0, 0⟩⟩⟩
instance : Inhabited (XT Float) := ⟨.leaf default []⟩
instance : Inhabited (V3 Float) := ⟨⟨0, 0, 0⟩⟩

partial def parseTree (a : Array Float) (i : Nat) : XT Float × Nat :=
  let tag := a[i]!
  let box := obbAt a (i+1)
  if tag == 0 then
    let k := a[i+16]!.toUInt64.toNat
    let faces := (List.range k).map (fun j => a[i+17+j]!.toUInt64.toNat)
    (.leaf box faces, i + 17 + k)
  else
    let (c1, i1) := parseTree a (i+16)
    let (c2, i2) := parseTree a i1
    (.node box c1 c2, i2)

def meshQuery (a : Array Float) : List String := Id.run do
  -- a[0..2] = generator parameters of the harness (kind, seed, subdivision); a[3] = number of queries; 9 numbers each
  let nq := a[3]!.toUInt64.toNat
  let iq := 3
  let i0 := 4 + 9*nq
  let nV := a[i0]!.toUInt64.toNat
  let vs := (List.range nV).toArray.map (fun i => v3at a (i0 + 1 + 3*i))
  let iF := i0 + 1 + 3*nV
  let nF := a[iF]!.toUInt64.toNat
  let fs := (List.range nF).toArray.map (fun i => (a[iF+1+3*i]!.toUInt64.toNat, a[iF+2+3*i]!.toUInt64.toNat, a[iF+3+3*i]!.toUInt64.toNat))
  let (tree, _) := parseTree a (iF + 1 + 3*nF)
  let tri3 (f : Nat) : V3 Float × V3 Float × V3 Float := let (i, j, k) := fs[f]!; (vs[i]!, vs[j]!, vs[k]!)
  let mut out : List String := []
  for q in [0:nq] do
    let p := v3at a (iq + 1 + 9*q); let o := v3at a (iq + 4 + 9*q); let d := v3at a (iq + 7 + 9*q)
    -- nearest point
    let rN := meshNearest tri3 tree p
    match rN with
    | some f => let (v1, v2, v3) := tri3 f; let r := triNearest v1 v2 v3 p
                out := out ++ ["O mesh.nearest" ++ fl (V3.normSq (V3.sub r.1 p) :: r.1.toList)]
    | none => out := out ++ ["O mesh.nearest NONE"]
    -- ray
    let cR (f : Nat) : Option Float :=
      let (v1, v2, v3) := tri3 f
      let cr := V3.cross (V3.sub v2 v1) (V3.sub v3 v1)
      let n := V3.smul (1 / Float.sqrt (V3.normSq cr)) cr
      triRay n v1 v2 v3 o d
    let rR := meshRay negInf cR tree o d
    match rR with
    | some f => out := out ++ ["O mesh.ray 1" ++ fl [(cR f).getD 0]]
    | none => out := out ++ ["O mesh.ray 0"]
  return out

def topoOf (a : Array Float) : Topo :=
  let n (i : Nat) : Nat := a[i]!.toUInt64.toNat
  let nV := n 0; let nF := n 1; let nE := n 2
  let fv := (List.range nF).toArray.map (fun f => (n (3 + 3*f), n (4 + 3*f), n (5 + 3*f)))
  let o1 := 3 + 3*nF
  let fe := (List.range nF).toArray.map (fun f => (n (o1 + 3*f), n (o1 + 1 + 3*f), n (o1 + 2 + 3*f)))
  let o2 := o1 + 3*nF
  let ev := (List.range nE).toArray.map (fun e => (n (o2 + 2*e), n (o2 + 1 + 2*e)))
  let o3 := o2 + 2*nE
  let ef := (List.range nE).toArray.map (fun e => (n (o3 + 2*e), n (o3 + 1 + 2*e)))
  ⟨nV, fv, fe, ev, ef⟩

def handle (fn : String) (a : Array Float) : List String :=
  match fn with
  | "obb.q" =>
    let b := obbAt a 0; let p := v3at a 15; let o := v3at a 18; let d := v3at a 21
    let np := b.nearest p
    let ray := match b.ray negInf o d with | none => " 0" | some t => " 1" ++ fl [t]
    ["O obb.q " ++ (if b.contains p then "1" else "0") ++ fl (np.toList ++ [b.dist2 p]) ++ ray]
  | "mesh.q" => meshQuery a
  | "tri.q" =>      -- tetra(12) face(1) p(3) + the face's vertices in the library's order (9): `findNearestPointToFace`, uv = (1-s-t, s)
    let p := v3at a 13
    let r := triNearest (v3at a 16) (v3at a 19) (v3at a 22) p
    ["O tri.q" ++ fl (r.1.toList ++ [1 - r.2.1 - r.2.2, r.2.1])]
  | "sph2" => let s := sphere2 Float.sqrt tolGeo (v3at a 0) (v3at a 3); ["O sph2" ++ fl (s.1.toList ++ [s.2])]
  | "sph3" => let s := sphere3 Float.sqrt tolGeo (v3at a 0) (v3at a 3) (v3at a 6) false; ["O sph3" ++ fl (s.1.toList ++ [s.2])]
  | "topo" => ["O topo " ++ (if (topoOf a).consistent then "1" else "0")]
  | _ => ["O " ++ fn ++ " ERR"]

def main : IO Unit := do
  let lines ← readStdinLines
  let out ← IO.getStdout
  for ln in lines do
    match tokens ln with
    | "I" :: fn :: rest =>
      out.putStrLn ln.trimAscii.toString
      if fn.startsWith "p." then out.putStrLn ("O " ++ fn ++ " -")
      else for l in handle fn ((rest.drop 1).map hexToFloat).toArray do out.putStrLn l
    | _ => pure ()
