import SimbodyModel.Proto
import SimbodyModel.C25
import SimbodyModel.C25_machine
import SimbodyModel.C25_small
/-!
Driver for C25 (`flow = driver_first`):

  drv_C25 gen <seed> <n>          random legal op sequences over M0..M3 V0 V1 R0 R1 (mode "big")
  drv_C25 gen <seed> <n> small    Vec/Row/Mat/SymMat/negator/conjugate records

Every `I …` line is followed by the model's expected `O …` observation(s), computed by the model definitions
instantiated at `Float` (all values are small integers, so every operation is exact in binary64).
-/
open Proto C25

/-! ### formatting -/
def fmtXOp : XOp → String
  | .v (.block i j m n) => s!"b,{i},{j},{m},{n}"
  | .v (.row i) => s!"r,{i}"
  | .v (.col j) => s!"c,{j}"
  | .v .diag => "d"
  | .v .transpose => "t"
  | .v .negate => "n"
  | .v (.index _ ix) => ix.foldl (fun s k => s ++ s!",{k}") "i"
  | .sub i m => s!"s,{i},{m}"
  | .idx ix => ix.foldl (fun s k => s ++ s!",{k}") "i"

def fmtExpr (e : Expr) : String :=
  e.xs.foldl (fun s x => s ++ "/" ++ fmtXOp x) (nameOfIdx e.obj)

def hx (x : Float) : String := floatToHex x

def fmtOp : Op Float → String
  | .new o nr nc vals => vals.foldl (fun s x => s ++ " " ++ hx x) s!"I new {nameOfIdx o} {nr} {nc}"
  | .resize o m n v => s!"I resize {nameOfIdx o} {m} {n} {hx v}"
  | .resizeKeep o m n v => s!"I resizeKeep {nameOfIdx o} {m} {n} {hx v}"
  | .clear o => s!"I clear {nameOfIdx o}"
  | .lock o => s!"I lock {nameOfIdx o}"
  | .unlock o => s!"I unlock {nameOfIdx o}"
  | .set e i j v => s!"I set {fmtExpr e} {i} {j} {hx v}"
  | .fill e v => s!"I fill {fmtExpr e} {hx v}"
  | .zero e => s!"I zero {fmtExpr e}"
  | .sassign e v => s!"I sassign {fmtExpr e} {hx v}"
  | .copy d s => s!"I copy {fmtExpr d} {fmtExpr s}"
  | .add d s => s!"I add {fmtExpr d} {fmtExpr s}"
  | .sub d s => s!"I sub {fmtExpr d} {fmtExpr s}"
  | .scale d s => s!"I scale {fmtExpr d} {hx s}"
  | .negip d => s!"I negip {fmtExpr d}"
  | .eadd d s => s!"I eadd {fmtExpr d} {hx s}"
  | .esubfrom d s => s!"I esubfrom {fmtExpr d} {hx s}"
  | .emul d s => s!"I emul {fmtExpr d} {fmtExpr s}"
  | .rowscale d s => s!"I rowscale {fmtExpr d} {fmtExpr s}"
  | .colscale d s => s!"I colscale {fmtExpr d} {fmtExpr s}"
  | .mul o a b => s!"I mul {nameOfIdx o} {fmtExpr a} {fmtExpr b}"
  | .mulv o a b => s!"I mulv {nameOfIdx o} {fmtExpr a} {fmtExpr b}"
  | .dot a b => s!"I dot {fmtExpr a} {fmtExpr b}"
  | .plus o a b => s!"I plus {nameOfIdx o} {fmtExpr a} {fmtExpr b}"
  | .minus o a b => s!"I minus {nameOfIdx o} {fmtExpr a} {fmtExpr b}"
  | .smul o a s => s!"I smul {nameOfIdx o} {fmtExpr a} {hx s}"
  | .deep o a => s!"I deep {nameOfIdx o} {fmtExpr a}"
  | .read e => s!"I read {fmtExpr e}"
  | .nrm2 e => s!"I nrm2 {fmtExpr e}"
  | .sum e => s!"I sum {fmtExpr e}"
  | .get e i j => s!"I get {fmtExpr e} {i} {j}"
  | .vassign o e => s!"I vassign {nameOfIdx o} {fmtExpr e}"
  | .sdiv d s => s!"I sdiv {fmtExpr d} {hx s}"
  | .norms e => s!"I norms {fmtExpr e}"
  | .abs e => s!"I abs {fmtExpr e}"
  | .einv e => s!"I einv {fmtExpr e}"
  | .ediv a b => s!"I ediv {fmtExpr a} {fmtExpr b}"
  | .rcscale e r c => s!"I rcscale {fmtExpr e} {fmtExpr r} {fmtExpr c}"

def opName : Op Float → String
  | .new .. => "new" | .resize .. => "resize" | .resizeKeep .. => "resizeKeep" | .clear .. => "clear"
  | .lock .. => "lock" | .unlock .. => "unlock" | .set .. => "set" | .fill .. => "fill" | .zero .. => "zero"
  | .sassign .. => "sassign" | .copy .. => "copy" | .add .. => "add" | .sub .. => "sub" | .scale .. => "scale"
  | .negip .. => "negip" | .eadd .. => "eadd" | .esubfrom .. => "esubfrom" | .emul .. => "emul"
  | .rowscale .. => "rowscale" | .colscale .. => "colscale" | .mul .. => "mul" | .mulv .. => "mulv"
  | .dot .. => "dot" | .plus .. => "plus" | .minus .. => "minus" | .smul .. => "smul" | .deep .. => "deep"
  | .read .. => "read" | .nrm2 .. => "nrm2" | .sum .. => "sum" | .get .. => "get" | .vassign .. => "vassign"
  | .sdiv .. => "sdiv" | .norms .. => "norms" | .abs .. => "abs" | .einv .. => "einv" | .ediv .. => "ediv"
  | .rcscale .. => "rcscale"

def fmtDense (tag : String) (d : Dense Float) : String :=
  (d.toList.foldl (fun s x => s ++ " " ++ hx x) s!"O {tag} {d.nr} {d.nc}")

def absF (x : Float) : Nat := x.abs.toUInt64.toNat
def scalF : Scal Float :=
  ⟨absF, Float.abs, Float.sqrt, fun a b => if a < b then b else a, fun x => x == 0,
   fun s x => (x / s).floor == x / s, Float.ofNat⟩
/-- records whose model answer involves a square root or a division carry a tolerance line -/
def needsTol : Op Float → Bool
  | .norms .. => true | .einv .. => true | .ediv .. => true | _ => false

/-! ### random generation -/
abbrev Gen := StateM SplitMix

def rnd (n : Nat) : Gen Nat := fun g => g.below n
def rndBool : Gen Bool := fun g => g.bool
/-- small integer in [-9, 9] as a Float -/
def rndVal : Gen Float := do
  let k ← rnd 19
  return Float.ofInt (Int.ofNat k - 9)
def rndScalar : Gen Float := do
  let k ← rnd 7
  return Float.ofInt (Int.ofNat k - 3)

/-- a dimension in 0..12, biased towards 2..7 -/
def rndDim : Gen Nat := do
  let r ← rnd 10
  if r == 0 then rnd 2 else if r ≤ 6 then do let k ← rnd 6; return k + 2 else rnd 13

/-- strictly increasing random subset of {0..n-1} -/
def rndSubset (n : Nat) : Gen (List Nat) := do
  let mut out : List Nat := []
  for k in [0:n] do
    if (← rnd 3) != 0 then out := out ++ [k]
  return out

/-- a sub-range (offset, length) of [0,n): mostly non-empty, sometimes empty (also at the far end) -/
def rndRange (n : Nat) : Gen (Nat × Nat) := do
  if n == 0 || (← rnd 8) == 0 then
    let i ← rnd (n + 1); let m ← rnd (n - i + 1); return (i, if (← rnd 2) == 0 then 0 else m)
  else
    let i ← rnd n; let m ← rnd (n - i); return (i, m + 1)

/-- current shape and static kind of handle `o` -/
def handleShape (st : St Float) (o : Nat) : Nat × Nat × Kind :=
  match st[o]? with
  | some ob => (ob.nr, ob.nc, ob.kind)
  | none => (0, 0, .mat)

/-- random view steps on a thing of the given shape/kind; `idxOK` allows `index` steps -/
def rndSteps (depth : Nat) (nr nc : Nat) (k : Kind) (idxOK : Bool) : Gen (List XOp) := do
  let mut xs : List XOp := []
  let mut nr := nr
  let mut nc := nc
  let mut k := k
  for _ in [0:depth] do
    let c ← rnd 12
    -- choose a step legal for the current shape
    let step : Option XOp ←
      if c ≤ 2 then do
        let (i, m) ← rndRange nr
        let (j, n) ← rndRange nc
        pure (some (.v (.block i j m n)))
      else if c == 3 then
        if nr > 0 then do let i ← rnd nr; pure (some (.v (.row i))) else pure none
      else if c == 4 then
        if nc > 0 then do let j ← rnd nc; pure (some (.v (.col j))) else pure none
      else if c == 5 then pure (some (.v .diag))
      else if c ≤ 7 then pure (some (.v .transpose))
      else if c ≤ 9 then pure (some (.v .negate))
      else if c == 10 then
        match k with
        | .vec => do let (i, m) ← rndRange nr; pure (some (.sub i m))
        | .row => do let (j, n) ← rndRange nc; pure (some (.sub j n))
        | .mat => pure none
      else
        if !idxOK then pure none else
        match k with
        | .vec => do let ix ← rndSubset nr; pure (some (.idx ix))
        | .row => do let ix ← rndSubset nc; pure (some (.idx ix))
        | .mat => pure none
    match step with
    | none => pure ()
    | some x =>
      xs := xs ++ [x]
      match elabX k [x] with
      | some ([op], k') =>
        let s := op.shape (nr, nc)
        nr := s.1; nc := s.2; k := k'
      | _ => pure ()
  return xs

def rndExpr (st : St Float) (idxOK : Bool) : Gen Expr := do
  let o ← rnd 8
  let (nr, nc, k) := handleShape st o
  let depth ← rnd 4
  let xs ← rndSteps depth nr nc k idxOK
  return ⟨o, xs⟩

/-- does the expression use `index` on a non-contiguous source (the known-finding input class)? -/
def exprNoncontig (st : St Float) (e : Expr) : Bool :=
  match resolveExpr st e with
  | some r => match st[r.owner]? with
    | some ob => noncontigIndex ob.layout r.ops || hasEmptyIndex r.ops || (ob.born1 && hasIndex r.ops)
    | none => false
  | none => false

/-- index() results whose SHAPE the pinned C++ gets wrong (orientation finding): further view steps on them
could be illegal for the real object, so such an index step must be the last step of the expression -/
def orientRiskBad (st : St Float) (e : Expr) : Bool :=
  match resolveExpr st e with
  | some r => match st[r.owner]? with
    | some ob =>
      let risk := hasEmptyIndex r.ops || (ob.born1 && hasIndex r.ops)
      let rec idxOnlyLast : List VOp → Bool
        | [] => true
        | [_] => true
        | .index _ _ :: _ => false
        | _ :: rest => idxOnlyLast rest
      risk && !idxOnlyLast r.ops
    | none => false
  | none => false

/-- a random expression with a prescribed shape, not addressing owner `avoid` -/
def rndExprShaped (st : St Float) (m n : Nat) (avoid : Nat) (wantVec : Bool) : Gen (Option Expr) := do
  let mut found : Option Expr := none
  for _ in [0:12] do
    if found.isSome then break
    let o ← rnd 8
    let base := match st[o]? with
      | some ob => if ob.isOwner then o else ob.base
      | none => o
    if base == avoid then continue
    let (nr, nc, k) := handleShape st o
    let pre ← rnd 3       -- 0: none, 1: negate first, 2: transpose first
    let (nr', nc', k', xs0) :=
      if pre == 2 then (nc, nr, k.after .transpose, [XOp.v .transpose])
      else if pre == 1 then (nr, nc, k, [XOp.v .negate]) else (nr, nc, k, [])
    if wantVec then
      -- need static type Vector: a column of something, or a sub-vector of a vector
      if n != 1 then continue
      if k' == .vec && nr' ≥ m then
        let i ← rnd (nr' - m + 1)
        found := some ⟨o, xs0 ++ [.sub i m]⟩
      else if nc' > 0 && nr' ≥ m then
        let j ← rnd nc'; let i ← rnd (nr' - m + 1)
        found := some ⟨o, xs0 ++ [.v (.col j), .sub i m]⟩
      else if m == min nr' nc' then
        found := some ⟨o, xs0 ++ [.v .diag]⟩
    else if nr' ≥ m && nc' ≥ n then
      if nr' == m && nc' == n && (← rnd 2) == 0 then found := some ⟨o, xs0⟩
      else if n == 1 && m == min nr' nc' && (← rnd 3) == 0 then found := some ⟨o, xs0 ++ [.v .diag]⟩
      else
        let i ← rnd (nr' - m + 1); let j ← rnd (nc' - n + 1)
        found := some ⟨o, xs0 ++ [.v (.block i j m n)]⟩
  return found

def shapeOfExpr (st : St Float) (e : Expr) : Option (Nat × Nat × Kind × Nat) :=
  match resolveExpr st e with
  | some r => if r.legal then some (r.view.nr, r.view.nc, r.kind, r.owner) else none
  | none => none

/-- row vector expression of a prescribed length (static type RowVector) -/
def rndRowExpr (st : St Float) (n : Nat) : Gen (Option Expr) := do
  let mut found : Option Expr := none
  for _ in [0:12] do
    if found.isSome then break
    let o ← rnd 8
    let (nr, nc, k) := handleShape st o
    if k == .row && nc ≥ n then
      let j ← rnd (nc - n + 1); found := some ⟨o, [.sub j n]⟩
    else if k == .vec && nr ≥ n then
      let j ← rnd (nr - n + 1); found := some ⟨o, [.v .transpose, .sub j n]⟩
    else if nr > 0 && nc ≥ n then
      let i ← rnd nr; let j ← rnd (nc - n + 1); found := some ⟨o, [.v (.row i), .sub j n]⟩
  return found

/-- propose one random operation (may be illegal; the caller checks with `step`) -/
def propose (st : St Float) : Gen (Option (Op Float)) := do
  let c ← rnd 105
  if c ≥ 100 then
    -- guaranteed share: sums / norms / reads over TRANSPOSED proper SUB-BLOCKS (block of transpose, transpose of block),
    -- on column-ordered owners and on row-ordered ones (a Matrix_ constructed with one row, then grown)
    let o0 ← rnd 4
    -- half of the time prefer a row-ordered owner if one exists
    let ro := (List.range 4).filter fun i => match st[i]? with | some x => x.isOwner && x.rowOrder | none => false
    let pick ← rnd (max 1 ro.length)
    let pref ← rndBool
    let o := if !ro.isEmpty && pref then ro.getD pick o0 else o0
    match st[o]? with
    | none => return none
    | some ob =>
      if !ob.isOwner then return none
      if ro.isEmpty && c ≤ 102 && viewCount st o == 0 then
        -- make this handle row-ordered: construct it 1×n ...
        let n ← rnd 5
        let mut vals : Array Float := #[]
        for _ in [0:n + 2] do vals := vals.push (← rndVal)
        return some (.new o 1 (n + 2) vals)
      if ob.rowOrder && ob.nr < 3 then
        -- ... and let it grow (the helper, and with it the storage order, survives)
        let m ← rnd 5; let n ← rnd 5
        return some (.resizeKeep o (m + 3) (n + 3) (← rndVal))
      if ob.nr < 3 || ob.nc < 3 then return none
      let m ← rnd (ob.nr - 2); let n ← rnd (ob.nc - 2)
      let m := m + 1; let n := n + 1                     -- 1 ≤ m ≤ nr-2, 1 ≤ n ≤ nc-2: strictly smaller
      let i ← rnd (ob.nr - m); let j ← rnd (ob.nc - n)
      let i := i + 1; let j := if j + n < ob.nc then j else 0
      let bt ← rndBool
      let xs : List XOp := if bt then [.v (.block i j m n), .v .transpose] else [.v .transpose, .v (.block j i n m)]
      let xs := if (← rnd 4) == 0 then xs ++ [.v .negate] else xs
      let e : Expr := ⟨o, xs⟩
      let r ← rnd 5
      return some (if r == 0 then .sum e else if r == 1 then .nrm2 e else if r == 2 then .norms e else if r == 3 then .read e
                   else .sum e)
  else if c < 6 then
    let o ← rnd 8
    let (nr, nc) ← (do
      let a ← rndDim; let b ← rndDim
      pure (match kindOfIdx o with | .mat => (a, b) | .vec => (a, 1) | .row => (1, b)))
    let mut vals : Array Float := #[]
    for _ in [0:nr * nc] do vals := vals.push (← rndVal)
    return some (.new o nr nc vals)
  else if c < 9 then
    let o ← rnd 8; let a ← rndDim; let b ← rndDim; let v ← rndVal
    let (m, n) := match kindOfIdx o with | .mat => (a, b) | .vec => (a, 1) | .row => (1, b)
    let (cr, cc, _) := handleShape st o
    let same ← rnd 4
    let (m, n) := if same == 0 then (cr, cc) else (m, n)
    if (← rndBool) then return some (.resize o m n v) else return some (.resizeKeep o m n v)
  else if c < 10 then
    let o ← rnd 8
    let r ← rnd 4
    return some (if r == 0 then .clear o else if r == 1 then .lock o else .unlock o)
  else if c < 16 then
    let e ← rndExpr st true
    if exprNoncontig st e then return none
    match shapeOfExpr st e with
    | some (nr, nc, _, _) =>
      if nr == 0 || nc == 0 then return none
      let i ← rnd nr; let j ← rnd nc; let v ← rndVal
      return some (.set e i j v)
    | none => return none
  else if c < 20 then
    let e ← rndExpr st true; let v ← rndVal
    if exprNoncontig st e then return none
    let r ← rnd 3
    return some (if r == 0 then .fill e v else if r == 1 then .zero e else .sassign e v)
  else if c < 44 then
    -- in-place binary operations with a shape-matched source (one time in four the source may live in the same
    -- owner as the destination; the model then requires the two views to be disjoint)
    let d ← rndExpr st true
    if exprNoncontig st d then return none
    match shapeOfExpr st d with
    | none => return none
    | some (nr, nc, _, own0) =>
      let own := if (← rnd 4) == 0 then 99 else own0
      let r ← rnd 8
      if r == 5 then
        match (← rndExprShaped st nr 1 own true) with
        | some s => return some (.rowscale d s)
        | none => return none
      else if r == 6 then
        match (← rndExprShaped st nc 1 own true) with
        | some s => return some (.colscale d s)
        | none => return none
      else
        match (← rndExprShaped st nr nc own false) with
        | some s =>
          return some (if r ≤ 1 then .copy d s else if r == 2 then .add d s else if r == 3 then .sub d s
                       else if r == 4 then .emul d s else .copy d s)
        | none => return none
  else if c < 52 then
    let d ← rndExpr st true; let s ← rndScalar; let v ← rndVal
    if exprNoncontig st d then return none
    let r ← rnd 5
    if r == 4 then
      let k ← rnd 4
      return some (.sdiv d (if k == 0 then 2 else if k == 1 then -2 else if k == 2 then 4 else -1))
    return some (if r == 0 then .scale d s else if r == 1 then .negip d else if r == 2 then .eadd d v else .esubfrom d v)
  else if c < 55 then
    -- whole-owner assignment from an arbitrary view (reallocating copy)
    let o ← rnd 8
    let s ← rndExpr st false
    return some (.copy ⟨o, []⟩ s)
  else if c < 70 then
    -- products
    let a ← rndExpr st false
    match shapeOfExpr st a with
    | none => return none
    | some (_, nc, _, _) =>
      let r ← rnd 3
      if r == 0 then
        let n ← rndDim
        match (← rndExprShaped st nc n 99 false) with
        | some b => let o ← rnd 4; return some (.mul o a b)
        | none => return none
      else if r == 1 then
        match (← rndExprShaped st nc 1 99 true) with
        | some b => let o ← rnd 2; return some (.mulv (4 + o) a b)
        | none => return none
      else
        match (← rndRowExpr st nc), (← rndExprShaped st nc 1 99 true) with
        | some ra, some b => return some (.dot ra b)
        | _, _ => return none
  else if c < 80 then
    let a ← rndExpr st false
    match shapeOfExpr st a with
    | none => return none
    | some (nr, nc, _, _) =>
      let o ← rnd 4
      let r ← rnd 4
      if r == 0 then let s ← rndScalar; return some (.smul o a s)
      else if r == 1 then return some (.deep o a)
      else
        match (← rndExprShaped st nr nc 99 false) with
        | some b => return some (if r == 2 then .plus o a b else .minus o a b)
        | none => return none
  else if c < 94 then
    -- readers; a few of them use index() on arbitrary (possibly non-contiguous) sources
    let idxAny ← rnd 4
    let e ← rndExpr st true
    if orientRiskBad st e then return none
    if exprNoncontig st e && idxAny != 0 then return none
    let r ← rnd 9
    if r == 0 || exprNoncontig st e then return some (.read e)
    else if r == 1 then return some (.nrm2 e)
    else if r == 2 then return some (.sum e)
    else if r == 4 then return some (.norms e)
    else if r == 5 then return some (.abs e)
    else if r == 6 then return some (.einv e)
    else if r == 7 then
      match shapeOfExpr st e with
      | some (nr, nc, _, _) =>
        match (← rndExprShaped st nr nc 99 false) with
        | some b => return some (.ediv e b)
        | none => return none
      | none => return none
    else if r == 8 then
      match shapeOfExpr st e with
      | some (nr, nc, _, _) =>
        match (← rndExprShaped st nr 1 99 true), (← rndExprShaped st nc 1 99 true) with
        | some rr, some cc => return some (.rcscale e rr cc)
        | _, _ => return none
      | none => return none
    else
      match shapeOfExpr st e with
      | some (nr, nc, _, _) =>
        if nr == 0 || nc == 0 then return none
        let i ← rnd nr; let j ← rnd nc
        return some (.get e i j)
      | none => return none
  else if c < 96 then
    -- writes through index() views of contiguous sources
    let e ← rndExpr st true
    if exprNoncontig st e then return none
    let v ← rndVal
    return some (.fill e v)
  else if c < 98 then
    -- input classes of the known findings (read-only, so the state never depends on them)
    let r ← rnd 3
    if r == 0 then
      -- index() on the diagonal / a row of a column-ordered matrix (non-contiguous source)
      let o ← rnd 4
      let (nr, nc, _) := handleShape st o
      if min nr nc < 2 then return none
      if (← rndBool) then
        let ix ← rndSubset (min nr nc); return some (.read ⟨o, [.v .diag, .idx ix]⟩)
      else
        let i ← rnd nr; let ix ← rndSubset nc; return some (.read ⟨o, [.v (.row i), .idx ix]⟩)
    else if r == 1 then
      -- a RowVector_ constructed with one element, grown, then indexed
      let o ← rnd 2
      let o := 6 + o
      match st[o]? with
      | some ob =>
        if ob.isOwner && ob.born1 && ob.nc ≥ 2 then
          let ix ← rndSubset ob.nc; return some (.read ⟨o, [.idx ix]⟩)
        else if ob.isOwner && ob.born1 then
          let n ← rnd 4; return some (.resize o 1 (n + 3) (← rndVal))
        else return some (.new o 1 1 #[← rndVal])
      | none => return none
    else
      -- (-~A) * (-B): negator<conjugate> × negator<complex> element products in the complex variant
      let a ← rnd 4; let b ← rnd 4; let o ← rnd 4
      let (anr, anc, _) := handleShape st a
      let (bnr, bnc, _) := handleShape st b
      if anr == 0 || anc == 0 || bnr < anr || bnc == 0 then return none
      let i ← rnd (bnr - anr + 1); let n ← rnd bnc
      return some (.mul o ⟨a, [.v .transpose, .v .negate]⟩ ⟨b, [.v .negate, .v (.block i 0 anr (n + 1))]⟩)
  else if c < 99 then
    -- source and destination in the SAME owner, disjoint: `A.col(j1) op= A.col(j2)`, rows, disjoint blocks
    let o ← rnd 4
    let (nr, nc, _) := handleShape st o
    if nr < 2 || nc < 2 then return none
    let k ← rnd 3
    let (d, s) ← (do
      if k == 0 then
        let j1 ← rnd nc; let j2 ← rnd nc
        pure (Expr.mk o [.v (.col j1)], Expr.mk o [.v (.col j2)])
      else if k == 1 then
        let i1 ← rnd nr; let i2 ← rnd nr
        pure (Expr.mk o [.v (.row i1)], Expr.mk o [.v (.row i2)])
      else
        let m ← rnd (nr / 2); let n ← rnd nc
        let m := m + 1; let n := n + 1
        let j1 ← rnd (nc - n + 1); let j2 ← rnd (nc - n + 1)
        pure (Expr.mk o [.v (.block 0 j1 m n)], Expr.mk o [.v (.block (nr - m) j2 m n), .v .negate]))
    let r ← rnd 4
    return some (if r == 0 then .copy d s else if r == 1 then .add d s else if r == 2 then .sub d s else .emul d s)
  else
    let o ← rnd 4
    let e ← rndExpr st false
    return some (.vassign o e)

def emitStep (st : St Float) (op : Op Float) : Option (St Float × List String) :=
  match step scalF st op with
  | .illegal => none
  | .exc cls => some (st, [fmtOp op, s!"O {opName op} EXC:{cls}"])
  | .ok st' results touched =>
    let rl := results.map fun (t, d) => fmtDense t d
    let objs := (reportSet st' touched).map fun i =>
      let own := match st'[i]? with | some o => if o.isOwner then "owner" else "view" | none => "?"
      fmtDense s!"obj {nameOfIdx i} {own}" (contents st' i)
    some (st', [fmtOp op] ++ (if needsTol op then ["T 1e-12 0"] else []) ++ rl ++
               (if rl.isEmpty && objs.isEmpty then [s!"O {opName op} ok"] else objs))

partial def genBig (n : Nat) : Gen (List String) := do
  let mut st : St Float := initSt Float
  let mut out : Array String := #[]
  let mut made := 0
  let mut tries := 0
  -- start by giving every handle some contents
  for o in [0:8] do
    let a ← rndDim; let b ← rndDim
    let (nr, nc) := match kindOfIdx o with | .mat => (a + 1, b + 1) | .vec => (a + 1, 1) | .row => (1, b + 1)
    let mut vals : Array Float := #[]
    for _ in [0:nr * nc] do vals := vals.push (← rndVal)
    match emitStep st (.new o nr nc vals) with
    | some (st', lines) => st := st'; out := out ++ lines.toArray; made := made + 1
    | none => pure ()
  while made < n && tries < 200 * n + 1000 do
    tries := tries + 1
    match (← propose st) with
    | none => pure ()
    | some op =>
      match emitStep st op with
      | some (st', lines) => st := st'; out := out ++ lines.toArray; made := made + 1
      | none => pure ()
  return out.toList

/-! ### small mode: Vec / Mat / SymMat / negator / conjugate -/
def fl (tag : String) (xs : List Float) : String := fmtFloats tag xs

def rndV3 : Gen (V3 Float) := do return ⟨← rndVal, ← rndVal, ← rndVal⟩
def rndM33 : Gen (M33 Float) := do
  return ⟨← rndVal, ← rndVal, ← rndVal, ← rndVal, ← rndVal, ← rndVal, ← rndVal, ← rndVal, ← rndVal⟩
def rndM22 : Gen (M22 Float) := do return ⟨← rndVal, ← rndVal, ← rndVal, ← rndVal⟩

def rndMatN (n : Nat) : Gen (List (List Float)) := do
  let mut rows : List (List Float) := []
  for _ in [0:n] do
    let mut r : List Float := []
    for _ in [0:n] do
      let k ← rnd 7
      r := r ++ [Float.ofInt (Int.ofNat k - 3)]
    rows := rows ++ [r]
  return rows

def symLayout (n : Nat) : List Float :=
  (List.range n).flatMap fun i => (List.range (i + 1)).map fun j => Float.ofNat (symIx n i j)

def smallRecord : Gen (List String) := do
  let c ← rnd 19
  if c == 17 then
    -- general Mat<M,N> * Mat<N,P>, transposes, Row * Mat (sizes 1..6, non-square)
    let shapes : List (Nat × Nat × Nat) := [(1,1,1), (2,3,4), (4,4,4), (5,5,5), (6,6,6), (3,2,5), (1,4,1), (6,1,6), (4,6,2)]
    let (m, n, p) := shapes.getD (← rnd shapes.length) (1,1,1)
    let mut a : List (List Float) := []
    for _ in [0:m] do
      let mut r : List Float := []
      for _ in [0:n] do r := r ++ [← rndScalar]
      a := a ++ [r]
    let mut b : List (List Float) := []
    for _ in [0:n] do
      let mut r : List Float := []
      for _ in [0:p] do r := r ++ [← rndScalar]
      b := b ++ [r]
    let mut v : List Float := []
    for _ in [0:m] do v := v ++ [← rndScalar]
    let ab := lmul n p a b
    return [fl s!"I matmn {m} {n} {p}" (a.flatten ++ b.flatten ++ v),
            fl "O matmn" (ab.flatten ++ (ltranspose m n a).flatten ++ (lmul n m (ltranspose n p b) (ltranspose m n a)).flatten
                          ++ (ltranspose m p ab).flatten ++ lrowmul m n v a)]
  else if c == 18 then
    -- Vec<N> / Row<N> arithmetic at sizes 1, 4, 5, 6 (and 2, 3)
    let sizes : List Nat := [1, 2, 3, 4, 5, 6]
    let n := sizes.getD (← rnd sizes.length) 1
    let mut a : List Float := []
    let mut b : List Float := []
    for _ in [0:n] do a := a ++ [← rndVal]; b := b ++ [← rndVal]
    let s ← rndScalar
    return [fl s!"I vecn {n}" (a ++ b ++ [s]),
            fl "O vecn" (lvadd a b ++ lvsub a b ++ lvneg a ++ lvscale a s ++ [lvdot a b] ++ (louter a b).flatten
                         ++ lvadd (lvneg a) b ++ [lvdot a a])]
  else if c == 16 then
    -- harness-only: all mixed products / sums / differences of {complex, conjugate, real} × {plain, negator}
    let xs := [← rndVal, ← rndVal, ← rndVal, ← rndVal, ← rndVal, ← rndVal]
    return [fl "I scalarmix" xs, "O scalarmix ok"]
  else if c == 0 then
    let m ← rndM22
    return [fl "I det2" m.toList, fl "O det2" [m.det]]
  else if c == 1 then
    let m ← rndM33
    return [fl "I det3" m.toList, fl "O det3" [m.det, m.transpose.det, m.neg.det]]
  else if c == 2 then
    let m ← rndM33
    if m.det == 0 then return []
    return [fl "I inv3" m.toList, "T 1e-9 1e-12", fl "O inv3" m.inverse.toList]
  else if c == 3 then
    let m ← rndM22
    if m.det == 0 then return []
    return [fl "I inv2" m.toList, "T 1e-9 1e-12", fl "O inv2" m.inverse.toList]
  else if c == 4 then
    let a ← rndM33; let b ← rndM33; let v ← rndV3
    return [fl "I mul33" (a.toList ++ b.toList ++ v.toList),
            fl "O mul33" ((a.mul b).toList ++ (a.mulVec v).toList ++ (a.transpose.mul b).toList
                          ++ (a.neg.mul b.transpose).toList ++ (a.transpose.mulVec v).toList ++ (a.add b).toList)]
  else if c == 5 then
    let a ← rndV3; let b ← rndV3
    return [fl "I cross" (a.toList ++ b.toList),
            fl "O cross" ((a.cross b).toList ++ [a.dot b] ++ (crossMat a).toList ++ ((crossMat a).mulVec b).toList)]
  else if c == 6 then
    let a : V2 Float := ⟨← rndVal, ← rndVal⟩; let b : V2 Float := ⟨← rndVal, ← rndVal⟩
    return [fl "I cross2" [a.x, a.y, b.x, b.y], fl "O cross2" [a.cross b]]
  else if c == 7 then
    let e ← rndV3; let f ← rndV3
    let s := S33.ofRows e.x e.y e.z f.x f.y f.z
    let v ← rndV3
    return [fl "I sym3" [e.x, e.y, e.z, f.x, f.y, f.z, v.x, v.y, v.z],
            fl "O sym3" (s.packed ++ s.toM33.toList ++ [s.det] ++ (s.toM33.mulVec v).toList ++ (s.add s).packed)]
  else if c == 8 then
    let e ← rndV3; let f ← rndV3
    let s := S33.ofRows e.x e.y e.z f.x f.y f.z
    if s.det == 0 then return []
    return [fl "I syminv3" [e.x, e.y, e.z, f.x, f.y, f.z], "T 1e-9 1e-12", fl "O syminv3" s.inverse.packed]
  else if c == 9 then
    let n ← rnd 6
    let n := n + 1
    return [s!"I symlayout {n}", fl s!"O symlayout {n}" (symLayout n)]
  else if c == 10 then
    let n ← rnd 3
    let n := n + 4
    let m ← rndMatN n
    return [fl s!"I detn {n}" m.flatten, fl "O detn" [detN n m]]
  else if c == 11 then
    -- negator<Real> scalars
    let x ← rndVal; let y ← rndVal
    let nx := Negator.recast x; let ny := Negator.recast y
    return [fl "I negscalar" [x, y],
            fl "O negscalar" [nx.val, nx.neg, nx.addP y, Negator.pAdd y nx, (nx.addN ny).val, (nx.subP y).val,
                              Negator.pSub y nx, (nx.subN ny).val, (nx.mulP y).val, (Negator.pMul y nx).val, nx.mulN ny,
                              (nx.addAssign y).val, (nx.subAssign y).val, (nx.mulAssign y).val, (Negator.ofVal x).val]]
  else if c == 12 then
    -- Vec<3,negator<Real>>
    let a ← rndV3; let b ← rndV3; let s ← rndScalar
    let na := V3.recastN a; let nb := V3.recastN b
    return [fl "I negvec" (a.toList ++ b.toList ++ [s]),
            fl "O negvec" (na.valN.toList ++ (na.addNP b).toList ++ (na.subNP b).valN.toList ++ (na.addNN nb).valN.toList
                           ++ (na.crossNP b).valN.toList ++ (V3.crossPN a nb).valN.toList ++ (na.crossNN nb).toList
                           ++ [(na.dotNP b).val] ++ (na.smulN s).valN.toList)]
  else if c == 13 then
    -- conjugate<Real>
    let a : Cx Float := ⟨← rndVal, ← rndVal⟩; let b : Cx Float := ⟨← rndVal, ← rndVal⟩
    let ca := Conj.recast a; let cb := Conj.recast b
    let pr (z : Cx Float) : List Float := [z.re, z.im]
    return [fl "I conj" [a.re, a.im, b.re, b.im],
            fl "O conj" (pr ca.val ++ pr (ca.mulC cb).val ++ pr (ca.mulX b).val ++ pr (ca.addC cb).val
                         ++ pr (ca.addX b).val ++ pr (ca.subX b).val ++ pr ca.neg ++ pr (Conj.ofCx a).val
                         ++ pr (a.mul b) ++ pr (a.conj.mul b.conj))]
  else if c == 14 then
    let a ← rndM22; let b ← rndM22
    return [fl "I mul22" (a.toList ++ b.toList), fl "O mul22" ((a.mul b).toList ++ (a.transpose.mul b).toList ++ [(a.mul b).det])]
  else
    let a ← rndV3; let b ← rndV3; let s ← rndScalar
    return [fl "I vec3" (a.toList ++ b.toList ++ [s]),
            fl "O vec3" ((a.add b).toList ++ (a.sub b).toList ++ a.neg.toList ++ (a.smul s).toList ++ [a.dot a])]

partial def genSmall (n : Nat) : Gen (List String) := do
  let mut out : Array String := #[]
  let mut made := 0
  let mut tries := 0
  while made < n && tries < 10 * n + 100 do
    tries := tries + 1
    let r ← smallRecord
    if !r.isEmpty then
      out := out ++ r.toArray; made := made + 1
  return out.toList

def main (args : List String) : IO UInt32 := do
  let out ← IO.getStdout
  match args with
  | "gen" :: seedS :: nS :: rest =>
    let seed := seedS.toNat!
    let n := nS.toNat!
    let mode := rest.headD ""
    let g : SplitMix := ⟨UInt64.ofNat (seed * 1000003 + 25)⟩
    let lines :=
      if mode == "small" then (genSmall n g).1
      else
        -- several independent sequences of at most 400 operations each (fresh handles per sequence)
        let per := 400
        let nseq := (n + per - 1) / per
        ((List.range nseq).foldl (fun (acc : List String × SplitMix) k =>
          let cnt := if k + 1 == nseq then n - per * k else per
          let (ls, g') := genBig cnt acc.2
          (acc.1 ++ ["I reset"] ++ ["O reset ok"] ++ ls, g')) ([], g)).1
    for ln in lines do out.putStrLn ln
    return 0
  | _ =>
    IO.eprintln "usage: drv_C25 gen <seed> <n> [small]"
    return 2
