import SimbodyModel.Proto
import SimbodyModel.TreeDyn
import SimbodyModel.TreeDynIO
import SimbodyModel.C02
/-! Driver for C02: answers `I fwdinv …` with the model's `fwd`, `fwdA`, `inv`, `realize`, `jt`. -/
open Proto TreeDyn

def readSVs (c : Cur) (n : Nat) : Array (SV Float) × Cur :=
  let (l, c') := c.svs n
  (l.toArray, c')

def answer (toks : List String) : List String :=
  let (h, c) := parseHeader toks
  let nu := h.nu
  let nb := h.nb
  let (a, c) := readSVs c nb
  let (b, c) := readSVs c nb
  let (fB, c) := readSVs c (nb + 1)
  let (f, c) := c.flts nu
  let (udotK, _) := c.flts nu
  -- bias table indexed by body index (0 = Ground: unused)
  let bias : Array (Bias Float) := (Array.range (nb + 1)).map (fun i =>
    if i == 0 then ⟨SV.zero, SV.zero, fB.getD 0 SV.zero⟩
    else ⟨a.getD (i - 1) SV.zero, b.getD (i - 1) SV.zero, fB.getD i SV.zero⟩)
  let roots := forest h.bodies
  let abi := abiForest roots
  let fwd := forwardDynamics abi bias f
  let udot := (udotOf nu fwd).toList
  let inv := inverseDynamics roots bias f udotK
  -- documented argument conventions: zero-length arrays mean all-zero (combination k: bit0 f, bit1 F, bit2 udot)
  let zeroU : Array Float := Array.replicate nu 0
  let biasNoF : Array (Bias Float) := bias.map (fun x => { x with F := SV.zero })
  let argconv : List Float := (List.range 8).foldr (fun k acc =>
      let fz := k % 2 == 1
      let bz := (k / 2) % 2 == 1
      let uz := (k / 4) % 2 == 1
      (residualOf nu (inverseDynamics roots (if bz then biasNoF else bias) (if fz then zeroU else f)
          (if uz then zeroU else udotK))).toList ++ acc) []
  let accOf (r : List (Body Float × SV Float × SV Float × List Float)) : List Float :=
    h.bodies.foldr (fun (b : Body Float) (acc : List Float) =>
      match r.find? (fun x => x.1.idx == b.idx) with
      | some x => x.2.1.toList ++ acc
      | none => acc) []
  -- calcTreeEquivalentMobilityForces(F) = J'F - C = -(residual at udot = 0, f = 0, body forces F)
  let treeEq := (residualOf nu (inverseDynamics roots bias zeroU zeroU)).toList.map (fun x => -x)
  [ outLine "fwd" udot,
    outLine "fwdA" (C02.accelList fwd h.bodies),
    outLine "inv" (residualOf nu inv).toList,
    outLine "realize" udot,
    outLine "jt" (multiplyByJT roots nu fB).toList,
    outLine "argconv" argconv,
    outLine "accUdot" (accOf inv ++ accOf (inverseDynamics roots bias f zeroU)),
    outLine "treeEquiv" treeEq ]

def main : IO Unit := do
  let lines ← readStdinLines
  let out ← IO.getStdout
  for ln in lines do
    if ln.startsWith "I " then
      out.putStrLn ln.trimAscii.toString
      match tokens ln with
      | "I" :: "fwdinv" :: rest => for o in answer rest do out.putStrLn o
      | "I" :: "summary" :: _ => out.putStrLn "O summary 1"
      | _ => out.putStrLn "O ERR"
