import SimbodyModel.Proto
import SimbodyModel.C43
/-!
Driver for C43 (records described in harness/C43.cpp).
-/
open Proto C43

structure Cur where
  toks : Array String
  pos : Nat

def Cur.int (c : Cur) : Nat × Cur := ((c.toks.getD c.pos "0").toNat!, { c with pos := c.pos + 1 })
def Cur.flt (c : Cur) : Float × Cur := (hexToFloat (c.toks.getD c.pos "0"), { c with pos := c.pos + 1 })

def rq (num : Int) (den : Nat) : Rat := mkRat num den
def optRat (x : Float) : Option Rat := if x.isInf || x.isNaN then none else some (floatToRat x)

def asmRecord (toks : Array String) : String := Id.run do
  let c : Cur := ⟨toks, 2⟩      -- tokens 0,1: generator seed and case index (replay)
  let (mode, c) := c.int; let (_useRMS, c) := c.int; let (_nRep, c) := c.int; let (nq, c) := c.int
  let (tolF, c) := c.flt; let (initErrF, c) := c.flt; let (initGoalF, c) := c.flt
  let (postErr, c) := c.flt; let (postGoal, c) := c.flt
  let post : Seen Float := ⟨postErr, postGoal⟩
  let mut cur := c
  let (threw, c) := cur.int; let (retF, c) := c.flt; let (finalErrF, c) := c.flt; let (finalGoalF, c) := c.flt
  cur := c
  let mut qs : Array (QInfo Rat) := #[]
  for _ in [0:nq] do
    let (kind, c1) := cur.int; let (lo, c2) := c1.flt; let (hi, c3) := c2.flt; let (q0, c4) := c3.flt; let (q1, c5) := c4.flt
    qs := qs.push ⟨kind, optRat lo, optRat hi, floatToRat q0, floatToRat q1⟩; cur := c5
  -- decision logic over the very doubles the implementation compared (exact: only comparisons and tol*tol)
  let decide (optThrew : Bool) := if mode == 0 then assembleDecide optThrew tolF initErrF initGoalF post else trackDecide optThrew tolF initErrF initGoalF post
  -- whether the optimizer left by an exception is not observable: the implementation must agree with one of the two
  let d0 := decide false
  let dec := match d0, threw != 0 with
    | .ok _ _ _, true => decide true
    | _, _ => d0
  match dec with
  | .failed => return "O asm 0 " ++ floatToHex 0.0 ++ " 1"
  | .ok goal _ _ =>
    if threw != 0 then return "O asm 1 " ++ floatToHex goal ++ " 1" else
    let tol := floatToRat tolF
    let slack : Rat := if mode == 0 then 0 else rq 1 1000000000000 * (1 + floatToRat initGoalF)
    let acc := acceptAsm tol (rq 10000001 1000000000000000) slack (floatToRat initErrF) (floatToRat initGoalF)
                (floatToRat retF) (floatToRat finalErrF) (floatToRat finalGoalF) qs.toList
    return "O asm 1 " ++ floatToHex goal ++ (if acc then " 1" else " 0")

def goalRecord (toks : Array String) : String := Id.run do
  let c : Cur := ⟨toks, 2⟩      -- tokens 0,1: generator seed and case index (replay)
  let (gw, c) := c.flt; let (n, c) := c.int
  let mut cur := c
  let mut ms : Array (Float × P3 Float × Option (P3 Float)) := #[]
  for _ in [0:n] do
    let (w, c1) := cur.flt
    let (px, c2) := c1.flt; let (py, c3) := c2.flt; let (pz, c4) := c3.flt
    let (ox, c5) := c4.flt; let (oy, c6) := c5.flt; let (oz, c7) := c6.flt
    let o : Option (P3 Float) := if ox.isFinite && oy.isFinite && oz.isFinite then some ⟨ox, oy, oz⟩ else none
    ms := ms.push (w, ⟨px, py, pz⟩, o); cur := c7
  return fmtFloats "O goal" [totalGoal [(gw, markersGoal ms.toList)]]

def osgoalRecord (toks : Array String) : String := Id.run do
  let c : Cur := ⟨toks, 2⟩      -- tokens 0,1: generator seed and case index (replay)
  let (gw, c) := c.flt; let (n, c) := c.int
  let mut cur := c
  let mut ss : Array (Float × Float) := #[]
  for _ in [0:n] do
    let (w, c1) := cur.flt; let (a, c2) := c1.flt
    ss := ss.push (w, a); cur := c2
  return fmtFloats "O osgoal" [totalGoal [(gw, osensorsGoal ss.toList)]]

def freeqRecord (toks : Array String) : String := Id.run do
  let c : Cur := ⟨toks, 2⟩      -- tokens 0,1: generator seed and case index (replay)
  let (nq, c) := c.int; let (nL, c) := c.int
  let mut cur := c
  let mut locked : Array Nat := #[]
  for _ in [0:nL] do
    let (q, c1) := cur.int
    locked := locked.push q; cur := c1
  let (nR, c) := cur.int
  cur := c
  let mut ranges : Array (Nat × Float × Float) := #[]
  for _ in [0:nR] do
    let (q, c1) := cur.int; let (lo, c2) := c1.flt; let (hi, c3) := c2.flt
    ranges := ranges.push (q, lo, hi); cur := c3
  let free := freeQs nq locked.toList
  let inf : Float := 1.0 / 0.0
  -- bounds exist only if some *free* q is restricted; the public getter then reports (-Inf, Inf) for the others
  let body := free.foldl (fun s q =>
    match freeBound ranges.toList q with
    | some (lo, hi) => s ++ s!" {q} " ++ floatToHex lo ++ " " ++ floatToHex hi
    | none => s ++ s!" {q} " ++ floatToHex (-inf) ++ " " ++ floatToHex inf) ""
  return s!"O freeq {free.length}" ++ body

def opfRecord (toks : Array String) : String := Id.run do
  let c : Cur := ⟨toks, 2⟩      -- tokens 0,1: generator seed and case index (replay)
  let (n, c) := c.int
  let mut cur := c
  let mut items : Array (Float × Float) := #[]
  for _ in [0:n] do
    let (w, c1) := cur.flt
    let (px, c2) := c1.flt; let (py, c3) := c2.flt; let (pz, c4) := c3.flt
    let (tx, c5) := c4.flt; let (ty, c6) := c5.flt; let (tz, c7) := c6.flt
    items := items.push (w, distSq (⟨px, py, pz⟩ : P3 Float) ⟨tx, ty, tz⟩); cur := c7
  return fmtFloats "O opf" [wrms Float.sqrt items.toList]

def lemRecord (toks : Array String) : String :=
  let loop := (toks.getD 2 "0") != "0"
  match (toks.toList.drop 3).map hexToFloat with
  | [pe0, pe1] =>
    let a := floatToRat pe0; let b := floatToRat pe1
    -- with a loop constraint the start and the result satisfy it only to the constraint tolerance
    let slack : Rat := (if loop then rq 1 1000000 else rq 1 1000000000000) * (1 + (if a < 0 then -a else a))
    if b ≤ a + slack then "O lem 1" else "O lem 0"
  | _ => "O lem ERR"

def main : IO Unit := do
  let lines ← readStdinLines
  let out ← IO.getStdout
  for ln in lines do
    if ln.startsWith "I " then out.putStrLn ln.trimAscii.toString
    match tokens ln with
    | "I" :: "asm" :: rest => out.putStrLn (asmRecord rest.toArray)
    | "I" :: "goal" :: rest => out.putStrLn (goalRecord rest.toArray)
    | "I" :: "osgoal" :: rest => out.putStrLn (osgoalRecord rest.toArray)
    | "I" :: "freeq" :: rest => out.putStrLn (freeqRecord rest.toArray)
    | "I" :: "opf" :: rest => out.putStrLn (opfRecord rest.toArray)
    | "I" :: "lem" :: rest => out.putStrLn (lemRecord rest.toArray)
    | "I" :: "floor" :: _ => out.putStrLn "O floor 1"
    | "I" :: fn :: _ => out.putStrLn ("O " ++ fn ++ " ERR")
    | _ => pure ()
