import SimbodyModel.TreeDyn
/-!
# C15 — system mass, mass centre, momentum, central inertia as per-body sums (Mathlib-free, polymorphic)

Mirrors the loops of `SimbodyMatterSubsystem.cpp` (`calcSystemMass`, `calcSystemMassCenterLocationInGround`,
`calcSystemMassPropertiesInGround`, `calcSystemCentralInertiaInGround`, `calcSystemMassCenterVelocityInGround`,
`calcSystemMassCenterAccelerationInGround`, `calcSystemMomentumAboutGroundOrigin`, `calcSystemCentralMomentum`) at the level of
Ground-frame per-body quantities: spatial inertia `Mk_G = (m, p, G)` about the body origin, origin location `pos`,
spatial velocity `V = (w, v)` and acceleration `A = (alpha, a)` of the body frame.  Re-expression of body-frame mass
properties in Ground (`reexpress`) is C29's subject; here the inputs are already in Ground.
Composite-body inertias are `TreeDyn.compositeInertias` (`calcCompositeBodyInertiasInward`).
The C++ guards `if (mass != 0)` before dividing by the total mass; the model divides (generated systems have mass > 0).
-/
namespace C15
open TreeDyn
variable {K : Type} [Add K] [Sub K] [Mul K] [Neg K] [Div K] [OfNat K 0] [OfNat K 1] [OfNat K 2]

structure BodyKin (K : Type) where
  Mk : SpI K
  pos : V3 K
  V : SV K
  A : SV K

namespace BodyKin
/-- mass centre location in Ground: `X_GB * com` -/
def comLoc (b : BodyKin K) : V3 K := b.pos.add b.Mk.p
/-- `findStationVelocityInGround(com)`: `v + w % r` -/
def comVel (b : BodyKin K) : V3 K := b.V.v.add (b.V.w.cross b.Mk.p)
/-- `findStationAccelerationInGround(com)`: `a + alpha % r + w % (w % r)` -/
def comAcc (b : BodyKin K) : V3 K := (b.A.v.add (b.A.w.cross b.Mk.p)).add (b.V.w.cross (b.V.w.cross b.Mk.p))
/-- central inertia in Ground: `m (G − pointMassAt(p))` -/
def centralInertia (b : BodyKin K) : Sym3 K := Sym3.smul b.Mk.m (b.Mk.G.sub (Sym3.pointMassAt b.Mk.p))
/-- inertia about the Ground origin (`calcTransformedMassProps(~X_GB)`): central + point mass at the mass centre -/
def originInertia (b : BodyKin K) : Sym3 K :=
  Sym3.smul b.Mk.m ((b.Mk.G.sub (Sym3.pointMassAt b.Mk.p)).add (Sym3.pointMassAt b.comLoc))
/-- `calcBodyMomentumAboutBodyMassCenterInGround`: `(I_c w, m v_c)` -/
def centralMomentum (b : BodyKin K) : SV K := ⟨b.centralInertia.mulVec b.V.w, V3.smul b.Mk.m b.comVel⟩
/-- the body's contribution to `calcSystemMomentumAboutGroundOrigin`: `(I_c w + r % (m v_c), m v_c)` -/
def originMomentum (b : BodyKin K) : SV K :=
  let c := b.centralMomentum
  ⟨c.w.add (b.comLoc.cross c.v), c.v⟩
end BodyKin

def sumK (xs : List K) : K := xs.foldl (· + ·) 0
def sumV3 (xs : List (V3 K)) : V3 K := xs.foldl V3.add V3.zero
def sumSym (xs : List (Sym3 K)) : Sym3 K := xs.foldl Sym3.add Sym3.zero

def sysMass (bs : List (BodyKin K)) : K := sumK (bs.map (fun b => b.Mk.m))
def weighted (bs : List (BodyKin K)) (f : BodyKin K → V3 K) : V3 K := sumV3 (bs.map (fun b => V3.smul b.Mk.m (f b)))
def divV3 (v : V3 K) (s : K) : V3 K := ⟨v.x / s, v.y / s, v.z / s⟩
def sysCom (bs : List (BodyKin K)) : V3 K := divV3 (weighted bs BodyKin.comLoc) (sysMass bs)
def sysComVel (bs : List (BodyKin K)) : V3 K := divV3 (weighted bs BodyKin.comVel) (sysMass bs)
def sysComAcc (bs : List (BodyKin K)) : V3 K := divV3 (weighted bs BodyKin.comAcc) (sysMass bs)
/-- inertia of `calcSystemMassPropertiesInGround` (about the Ground origin) -/
def sysOriginInertia (bs : List (BodyKin K)) : Sym3 K := sumSym (bs.map BodyKin.originInertia)
/-- `calcSystemCentralInertiaInGround = I_origin − M pointMassAt(com)` -/
def sysCentralInertia (bs : List (BodyKin K)) : Sym3 K :=
  (sysOriginInertia bs).sub (Sym3.smul (sysMass bs) (Sym3.pointMassAt (sysCom bs)))
def sysMomentumOrigin (bs : List (BodyKin K)) : SV K :=
  (bs.map BodyKin.originMomentum).foldl SV.add SV.zero
/-- `calcSystemCentralMomentum`: shift the angular part to the system mass centre -/
def sysCentralMomentum (bs : List (BodyKin K)) : SV K :=
  let m := sysMomentumOrigin bs
  ⟨m.w.sub ((sysCom bs).cross m.v), m.v⟩

end C15
