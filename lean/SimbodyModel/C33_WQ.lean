import SimbodyModel.C33_PE
/-!
# C33 — parallel executors, part 3: `ParallelWorkQueue` as a labelled transition system

Transcribed from `SimTKcommon/src/ParallelWorkQueue.cpp` (`threadBody`, `addTask`, `flush`, `markTaskCompleted`,
`~ParallelWorkQueueImpl`).  One producer thread (`Tid.main`, the usage the documentation describes) executes a
program of `add` / `flush` operations and then the destructor; `n` worker threads run `threadBody`.

* `queueMutex` = `mutex : Option Tid`;  `waitForTaskCondition` (workers wait, `addTask` does `notify_one`, the
  destructor `notify_all`) and `queueFullCondition` (only the producer waits — in `addTask` for room, in `flush` for
  `pendingTasks == 0` — workers do `notify_one`) are modelled as in `C33_PE`: `…Chk` evaluates the predicate holding
  the mutex, `…Blocked` is membership of the wait set, wake-ups (notified or spurious) lead to `…Reacq`;
* `notify_one` on `waitForTaskCondition` wakes *some* blocked worker: the action carries the choice `pick`;
* variables as in the code: `taskQueue` (`queue`, task ids), `pendingTasks`, `finished`, the workers' local
  `decrementTaskCount` (`dec`);
* unlocked reads in the worker's loop condition `!owner.isFinished() || !taskQueue.empty()` are one step without the
  mutex (finding F9);
* ghost: `execCount t` (number of completed `task->execute(); delete task;` for task id `t`), `loc t`.
-/
namespace C33.WQ
open C33.PE (upd)

inductive Tid
  | main
  | worker (w : Nat)
deriving DecidableEq, Repr

inductive WPc
  | loopTest        -- `while (!owner.isFinished() || !taskQueue.empty())`      (unlocked reads)
  | lockAcq         -- `unique_lock lock(queueMutex)`
  | mark            -- holding: `if (decrementTaskCount) { markTaskCompleted(); decrementTaskCount = false; }`
  | waitChk         -- holding: predicate `!taskQueue.empty() || owner.isFinished()`
  | blocked         -- inside `waitForTaskCondition.wait`
  | reacq
  | take            -- holding: `front/pop` if non-empty; `queueFullCondition.notify_one(); lock.unlock()`
  | run (t : Nat)   -- `task->execute(); delete task; decrementTaskCount = true`
  | exitLock        -- after the loop: `if (decrementTaskCount) lock_guard`
  | exitMark        -- holding: `markTaskCompleted()`; unlock
  | done
deriving DecidableEq, Repr

inductive PPc
  | idle
  | addLock | addChk | addBlocked | addReacq
  | flushLock | flushChk | flushBlocked | flushReacq
  | dLock | dSet | join | final
deriving DecidableEq, Repr

inductive Op | add | flush
deriving DecidableEq, Repr

/-- where a task currently is (ghost) -/
inductive Loc
  | fresh               -- not yet added
  | queued
  | running (w : Nat)
  | finished            -- executed and deleted
deriving DecidableEq, Repr

inductive Act
  | step (t : Tid) (pick : Nat)
  | spurious (t : Tid)
deriving DecidableEq, Repr

structure Worker where
  pc : WPc
  /-- local `decrementTaskCount` -/
  dec : Bool

structure State where
  n : Nat
  queueSize : Nat
  finished : Bool
  mutex : Option Tid
  queue : List Nat
  /-- `pendingTasks` -/
  pending : Nat
  ppc : PPc
  todo : List Op
  /-- id of the next task the producer will create -/
  nextId : Nat
  wk : Nat → Worker
  -- ghost
  execCount : Nat → Nat
  loc : Nat → Loc
  /-- number of completed (executed and deleted) tasks -/
  completed : Nat
  /-- for every `flush()` that has returned: (`completed`, `nextId`) at that moment -/
  flushLog : List (Nat × Nat)

def init (n queueSize : Nat) (todo : List Op) : State :=
  { n := n, queueSize := queueSize, finished := false, mutex := none, queue := [], pending := 0, ppc := .idle,
    todo := todo, nextId := 0, wk := fun _ => ⟨.loopTest, false⟩, execCount := fun _ => 0, loc := fun _ => .fresh,
    completed := 0, flushLog := [] }

/-- `queueFullCondition.notify_one()`: only the producer can be waiting on it -/
def wakeProd : PPc → PPc
  | .addBlocked => .addReacq
  | .flushBlocked => .flushReacq
  | p => p

/-- lowest-numbered blocked worker below `k` -/
def firstBlocked (wk : Nat → Worker) : Nat → Option Nat
  | 0 => none
  | k + 1 => match firstBlocked wk k with
    | some v => some v
    | none => if (wk k).pc = .blocked then some k else none

/-- `waitForTaskCondition.notify_one()`: wakes worker `pick` if it is blocked, otherwise some blocked worker if
there is one -/
def wakeOne (wk : Nat → Worker) (n pick : Nat) : Nat → Worker :=
  let target := if pick < n ∧ (wk pick).pc = .blocked then some pick else firstBlocked wk n
  match target with
  | some v => upd wk v { wk v with pc := .reacq }
  | none => wk

/-- `waitForTaskCondition.notify_all()` -/
def wakeAll (wk : Nat → Worker) : Nat → Worker :=
  fun v => if (wk v).pc = .blocked then { wk v with pc := .reacq } else wk v

def allDone (wk : Nat → Worker) : Nat → Bool
  | 0 => true
  | k + 1 => allDone wk k && ((wk k).pc == .done)

def stepWorker (s : State) (w : Nat) : Option State :=
  if w < s.n then
    let x := s.wk w
    match x.pc with
    | .loopTest =>
      some { s with wk := upd s.wk w { x with pc := if !s.finished || !s.queue.isEmpty then .lockAcq else .exitLock } }
    | .lockAcq =>
      if s.mutex = none then some { s with mutex := some (.worker w), wk := upd s.wk w { x with pc := .mark } } else none
    | .mark =>
      if x.dec then
        some { s with pending := s.pending - 1, ppc := wakeProd s.ppc, wk := upd s.wk w { pc := .waitChk, dec := false } }
      else some { s with wk := upd s.wk w { x with pc := .waitChk } }
    | .waitChk =>
      if !s.queue.isEmpty || s.finished then some { s with wk := upd s.wk w { x with pc := .take } }
      else some { s with mutex := none, wk := upd s.wk w { x with pc := .blocked } }
    | .blocked => none
    | .reacq =>
      if s.mutex = none then some { s with mutex := some (.worker w), wk := upd s.wk w { x with pc := .waitChk } }
      else none
    | .take =>
      match s.queue with
      | t :: rest =>
        some { s with queue := rest, loc := upd s.loc t (.running w), ppc := wakeProd s.ppc, mutex := none,
                      wk := upd s.wk w { x with pc := .run t } }
      | [] => some { s with ppc := wakeProd s.ppc, mutex := none, wk := upd s.wk w { x with pc := .loopTest } }
    | .run t =>
      some { s with execCount := upd s.execCount t (s.execCount t + 1), loc := upd s.loc t .finished,
                    completed := s.completed + 1,
                    wk := upd s.wk w { pc := .loopTest, dec := true } }
    | .exitLock =>
      if x.dec then
        if s.mutex = none then some { s with mutex := some (.worker w), wk := upd s.wk w { x with pc := .exitMark } }
        else none
      else some { s with wk := upd s.wk w { x with pc := .done } }
    | .exitMark =>
      some { s with pending := s.pending - 1, ppc := wakeProd s.ppc, mutex := none,
                    wk := upd s.wk w { pc := .done, dec := false } }
    | .done => none
  else none

def stepMain (s : State) (pick : Nat) : Option State :=
  match s.ppc with
  | .idle =>
    match s.todo with
    | .add :: rest => some { s with todo := rest, ppc := .addLock }
    | .flush :: rest => some { s with todo := rest, ppc := .flushLock }
    | [] => some { s with ppc := .dLock }
  | .addLock => if s.mutex = none then some { s with mutex := some .main, ppc := .addChk } else none
  | .addChk =>
    if s.queue.length < s.queueSize then
      some { s with queue := s.queue ++ [s.nextId], loc := upd s.loc s.nextId .queued, nextId := s.nextId + 1,
                    pending := s.pending + 1, wk := wakeOne s.wk s.n pick, mutex := none, ppc := .idle }
    else some { s with mutex := none, ppc := .addBlocked }
  | .addBlocked => none
  | .addReacq => if s.mutex = none then some { s with mutex := some .main, ppc := .addChk } else none
  | .flushLock => if s.mutex = none then some { s with mutex := some .main, ppc := .flushChk } else none
  | .flushChk =>
    if s.pending = 0 then some { s with mutex := none, flushLog := s.flushLog ++ [(s.completed, s.nextId)], ppc := .idle }
    else some { s with mutex := none, ppc := .flushBlocked }
  | .flushBlocked => none
  | .flushReacq => if s.mutex = none then some { s with mutex := some .main, ppc := .flushChk } else none
  | .dLock => if s.mutex = none then some { s with mutex := some .main, ppc := .dSet } else none
  | .dSet => some { s with finished := true, wk := wakeAll s.wk, mutex := none, ppc := .join }
  | .join => if allDone s.wk s.n then some { s with ppc := .final } else none
  | .final => none

def step (s : State) : Act → Option State
  | .step .main pick => stepMain s pick
  | .step (.worker w) _ => stepWorker s w
  | .spurious .main =>
    match s.ppc with
    | .addBlocked => some { s with ppc := .addReacq }
    | .flushBlocked => some { s with ppc := .flushReacq }
    | _ => none
  | .spurious (.worker w) =>
    if w < s.n ∧ (s.wk w).pc = .blocked then some { s with wk := upd s.wk w { s.wk w with pc := .reacq } } else none

def run (s : State) : List Act → State
  | [] => s
  | a :: as => run ((step s a).getD s) as

inductive Reach (n queueSize : Nat) (todo : List Op) : State → Prop
  | init : Reach n queueSize todo (init n queueSize todo)
  | step {s s' : State} (a : Act) : Reach n queueSize todo s → step s a = some s' → Reach n queueSize todo s'

end C33.WQ
