import SimbodyModel.Proto
/-!
# C44 — impulse solvers: model of `Simbody/src/PGSImpulseSolver.cpp` (projected Gauss–Seidel) and the PLUS contract

`PGSImpulseSolver::solve`: right-hand side assembly (`verrStart + verrApplied − [A+D]·piExpand`), `doRowSum(s)`,
`doUpdate(s)` (block update: all row sums of a group are taken before any element of the group is changed; rows
with non-positive diagonal are skipped), the projections `boundUnilateral / boundScalar / boundVector /
boundFriction`, the sweep order (unconditional, contact normals, contact friction, bounded, state-limited,
constraint-limited), the RMS error bookkeeping, SOR reduction when the enforced error grew, the convergence test,
and the final `verrStart −= (A+D)·pi`.  `UniSpeedRT` rows are not processed by the C++ at all (their multipliers
stay 0); the model mirrors that.

Polymorphic in the scalar `K`; `sqrt` is a parameter.  Vectors are `Array K` read with `getD · 0`; the matrix
is an array of rows.

`PLUSImpulseSolver::solve` (Newton / active-set search) is not modelled; `plusAccept` is the exact-rational
acceptance contract on what it returned.
-/
namespace C44

variable {K : Type} [Add K] [Sub K] [Mul K] [Neg K] [Div K] [OfNat K 0] [OfNat K 1]
variable [LT K] [DecidableLT K] [LE K] [DecidableLE K]

abbrev Vec' (K : Type) := Array K

def vget (v : Array K) (i : Nat) : K := v.getD i 0
def vset (v : Array K) (i : Nat) (x : K) : Array K := v.setIfInBounds i x
def mget (A : Array (Array K)) (r c : Nat) : K := (A.getD r #[]).getD c 0

def square (x : K) : K := x * x
def absK (x : K) : K := if x < 0 then -x else x
def maxK (a b : K) : K := if a < b then b else a

/-- `doRowSum`: `Σ_{c ∈ columns} A(row,c)·pi[c] + D[row]·pi[row]` -/
def doRowSum (columns : List Nat) (row : Nat) (A : Array (Array K)) (D pi : Array K) : K :=
  columns.foldl (fun s c => s + mget A row c * vget pi c) 0 + vget D row * vget pi row

/-- `doRowSums`: all sums are taken on the *same* `pi` -/
def doRowSums (columns rows : List Nat) (A : Array (Array K)) (D pi : Array K) : List K :=
  rows.map (fun r => doRowSum columns r A D pi)

/-- `doUpdate`: returns the new `pi` and the squared error `er²` -/
def doUpdate (row : Nat) (A : Array (Array K)) (D rhs : Array K) (sor rowSum : K) (pi : Array K) : Array K × K :=
  let Arr := mget A row row + vget D row
  let er := vget rhs row - rowSum
  let pi' := if 0 < Arr then vset pi row (vget pi row + sor * er / Arr) else pi
  (pi', square er)

/-- `doUpdates` over a group: sequential element updates with the pre-computed row sums -/
def doUpdates (A : Array (Array K)) (D rhs : Array K) (sor : K) : List Nat → List K → Array K → K → Array K × K
  | r :: rows, s :: sums, pi, er2 =>
    let u := doUpdate r A D rhs sor s pi
    doUpdates A D rhs sor rows sums u.1 (er2 + u.2)
  | _, _, pi, er2 => (pi, er2)

/-- a block (Jacobi-within-the-group) update of the rows of one constraint -/
def updateGroup (columns rows : List Nat) (A : Array (Array K)) (D rhs : Array K) (sor : K) (pi : Array K) :
    Array K × K :=
  doUpdates A D rhs sor rows (doRowSums columns rows A D pi) pi 0

/-! ### projections -/

/-- `boundUnilateral`: `if (sign*pi > 0) {pi=0; UniOff} else UniActive`; returns (pi', active?) -/
def boundUnilateral (sign pi : K) : K × Bool := if 0 < sign * pi then (0, false) else (pi, true)

/-- `boundScalar`: result code 4 = SlipHigh, 0 = SlipLow, 2 = Engaged -/
def boundScalar (lb pi ub : K) : K × Nat :=
  if ub < pi then (ub, 4) else if pi < lb then (lb, 0) else (pi, 2)

def normSq (vs : List K) : K := vs.foldl (fun s v => s + square v) 0

/-- the common core of `boundVector`/`boundFriction`: if `‖v‖² > limit²` scale `v` by `sqrt(limit²/‖v‖²)`;
returns (v', rolling?) -/
def scaleToLimit (sqrt : K → K) (limit2 : K) (vs : List K) : List K × Bool :=
  let n2 := normSq vs
  if n2 ≤ limit2 then (vs, true)
  else
    let scale := sqrt (limit2 / n2)
    (vs.map (fun v => v * scale), false)

def gather (pi : Array K) (ix : List Nat) : List K := ix.map (vget pi)
def scatter : Array K → List Nat → List K → Array K
  | pi, i :: ix, v :: vs => scatter (vset pi i v) ix vs
  | pi, _, _ => pi

/-- `boundVector(maxLen, IV, pi)` -/
def boundVector (sqrt : K → K) (maxLen : K) (IV : List Nat) (pi : Array K) : Array K × Bool :=
  let (vs, rolling) := scaleToLimit sqrt (square maxLen) (gather pi IV)
  (if rolling then pi else scatter pi IV vs, rolling)

/-- `boundFriction(mu, IN, IF, pi)` -/
def boundFriction (sqrt : K → K) (mu : K) (IN IF : List Nat) (pi : Array K) : Array K × Bool :=
  let N2 := normSq (gather pi IN)
  let (vs, rolling) := scaleToLimit sqrt (mu * mu * N2) (gather pi IF)
  (if rolling then pi else scatter pi IF vs, rolling)

/-! ### problem description -/

structure UniContact (K : Type) where
  Nk : Nat
  sign : K
  Fk : List Nat          -- empty or two friction multipliers
  type : Nat             -- 0 Observing, 1 Known, 2 Participating
  mu : K

structure Bounded (K : Type) where
  ix : Nat
  lb : K
  ub : K

structure StateLtd (K : Type) where
  Fk : List Nat
  knownN : K
  mu : K

structure ConsLtd (K : Type) where
  Fk : List Nat
  Nk : List Nat
  mu : K

structure Problem (K : Type) where
  m : Nat
  A : Array (Array K)
  D : Array K
  participating : List Nat
  expanding : List Nat
  piExpand : Array K
  verrStart : Array K
  verrApplied : Array K        -- empty or length m
  uncond : List (List Nat)
  uniContact : List (UniContact K)
  bounded : List (Bounded K)
  stateLtd : List (StateLtd K)
  consLtd : List (ConsLtd K)

/-- `rhs = verrStart (+ verrApplied) − (A[·,expanding]·piExpand + D∘piExpand)` (the last only if `expanding ≠ ∅`) -/
def assembleRhs (P : Problem K) : Array K :=
  let v1 : Array K := if P.verrApplied.size = 0 then P.verrStart
    else (Array.range P.m).map (fun i => vget P.verrStart i + vget P.verrApplied i)
  if P.expanding.isEmpty then v1
  else (Array.range P.m).map (fun r =>
    vget v1 r - (P.expanding.foldl (fun s c => s + mget P.A r c * vget P.piExpand c) 0
                 + vget P.D r * vget P.piExpand r))

/-- running state of a sweep: the iterate and the two squared-error sums -/
structure St (K : Type) where
  pi : Array K
  sum2all : K
  sum2enf : K

/-- run one stage: fold a step over the constraints of one kind, collecting the condition code of each -/
def foldStage {α : Type} (f : St K → α → St K × Nat) : List α → St K → St K × List Nat
  | [], st => (st, [])
  | x :: xs, st =>
    let (st', c) := f st x
    let (st'', cs) := foldStage f xs st'
    (st'', c :: cs)

def fricCode (rolling : Bool) : Nat := if rolling then 3 else 1

section Stages
variable (sqrt : K → K) (cols : List Nat) (A : Array (Array K)) (D rhs piExpand : Array K) (sor : K)

/-- UNCONDITIONAL: always enforced -/
def stepUncond (st : St K) (g : List Nat) : St K × Nat :=
  let (pi', er2) := updateGroup cols g A D rhs sor st.pi
  ({ pi := pi', sum2all := st.sum2all + er2, sum2enf := st.sum2enf + er2 }, 0)

/-- UNILATERAL CONTACT NORMAL (only `Participating`); code 9 = not touched, 0 = UniOff, 1 = UniActive -/
def stepNormal (st : St K) (c : UniContact K) : St K × Nat :=
  if c.type = 2 then
    let rowSum := doRowSum cols c.Nk A D st.pi
    let (pi', er2) := doUpdate c.Nk A D rhs sor rowSum st.pi
    let (v, active) := boundUnilateral c.sign (vget pi' c.Nk)
    ({ pi := vset pi' c.Nk v, sum2all := st.sum2all + er2,
       sum2enf := if active then st.sum2enf + er2 else st.sum2enf }, if active then 1 else 0)
  else (st, 9)

/-- UNILATERAL CONTACT FRICTION (not `Observing`, has friction); limit `mu·|pi[Nk] + piExpand[Nk]|` -/
def stepFriction (st : St K) (c : UniContact K) : St K × Nat :=
  if c.type ≠ 0 ∧ ¬ c.Fk.isEmpty then
    let (pi', er2) := updateGroup cols c.Fk A D rhs sor st.pi
    let N := absK (vget pi' c.Nk + vget piExpand c.Nk)
    let (pi'', rolling) := boundVector sqrt (c.mu * N) c.Fk pi'
    ({ pi := pi'', sum2all := st.sum2all + er2,
       sum2enf := if rolling then st.sum2enf + er2 else st.sum2enf }, fricCode rolling)
  else (st, 9)

/-- BOUNDED scalar -/
def stepBounded (st : St K) (b : Bounded K) : St K × Nat :=
  let rowSum := doRowSum cols b.ix A D st.pi
  let (pi', er2) := doUpdate b.ix A D rhs sor rowSum st.pi
  let (v, code) := boundScalar b.lb (vget pi' b.ix) b.ub
  ({ pi := vset pi' b.ix v, sum2all := st.sum2all + er2,
     sum2enf := if code = 2 then st.sum2enf + er2 else st.sum2enf }, code)

/-- STATE LIMITED FRICTION: limit `mu·knownN` -/
def stepStateLtd (st : St K) (s : StateLtd K) : St K × Nat :=
  let (pi', er2) := updateGroup cols s.Fk A D rhs sor st.pi
  let (pi'', rolling) := boundVector sqrt (s.mu * s.knownN) s.Fk pi'
  ({ pi := pi'', sum2all := st.sum2all + er2,
     sum2enf := if rolling then st.sum2enf + er2 else st.sum2enf }, fricCode rolling)

/-- CONSTRAINT LIMITED FRICTION: limit `mu·‖pi[Nk]‖` -/
def stepConsLtd (st : St K) (c : ConsLtd K) : St K × Nat :=
  let (pi', er2) := updateGroup cols c.Fk A D rhs sor st.pi
  let (pi'', rolling) := boundFriction sqrt c.mu c.Nk c.Fk pi'
  ({ pi := pi'', sum2all := st.sum2all + er2,
     sum2enf := if rolling then st.sum2enf + er2 else st.sum2enf }, fricCode rolling)
end Stages

/-- result of one sweep -/
structure Sweep (K : Type) where
  pi : Array K
  sum2all : K
  sum2enf : K
  uniCond : List Nat
  fricCond : List Nat
  bndCond : List Nat
  stateCond : List Nat
  consCond : List Nat

/-- one PGS iteration (the body of the `for its` loop up to the error norms), in the C++ order -/
def sweep (sqrt : K → K) (P : Problem K) (rhs : Array K) (sor : K) (pi0 : Array K) : Sweep K :=
  let cols := P.participating
  let st0 : St K := { pi := pi0, sum2all := 0, sum2enf := 0 }
  let r1 := foldStage (stepUncond cols P.A P.D rhs sor) P.uncond st0
  let r2 := foldStage (stepNormal cols P.A P.D rhs sor) P.uniContact r1.1
  let r3 := foldStage (stepFriction sqrt cols P.A P.D rhs P.piExpand sor) P.uniContact r2.1
  let r4 := foldStage (stepBounded cols P.A P.D rhs sor) P.bounded r3.1
  let r5 := foldStage (stepStateLtd sqrt cols P.A P.D rhs sor) P.stateLtd r4.1
  let r6 := foldStage (stepConsLtd sqrt cols P.A P.D rhs sor) P.consLtd r5.1
  { pi := r6.1.pi, sum2all := r6.1.sum2all, sum2enf := r6.1.sum2enf, uniCond := r2.2, fricCond := r3.2,
    bndCond := r4.2, stateCond := r5.2, consCond := r6.2 }

structure Result (K : Type) where
  converged : Bool
  iters : Nat
  pi : Array K
  verrOut : Array K
  normRMSenf : K
  last : Sweep K

/-- the iteration loop of `PGSImpulseSolver::solve`.  `ofNat p` converts the participating count; `sorMin = .1`,
`sorFac = .8` are the literals of the SOR reduction; `inf` is `Infinity` (initial `normRMSenf`). -/
def pgsLoop (sqrt : K → K) (P : Problem K) (rhs : Array K) (pK tol sorMin sorFac : K) :
    Nat → Nat → K → K → Sweep K → Bool × Nat × K × Sweep K
  | 0, its, _, normEnf, sw => (false, its, normEnf, sw)
  | fuel + 1, its, sor, prevNormEnf, sw =>
    let sw' := sweep sqrt P rhs sor sw.pi
    let normEnf := sqrt (sw'.sum2enf / pK)
    let rate := normEnf / prevNormEnf
    let sor' := if 1 < rate then (if sorMin < sor then maxK (sorFac * sor) sorMin else sor) else sor
    if normEnf < tol then (true, its, normEnf, sw')
    else pgsLoop sqrt P rhs pK tol sorMin sorFac fuel (its + 1) sor' normEnf sw'

/-- `PGSImpulseSolver::solve` -/
def pgsSolve (sqrt : K → K) (P : Problem K) (pK tol sor0 sorMin sorFac inf : K) (maxIters : Nat) : Result K :=
  let rhs := assembleRhs P
  let pi0 : Array K := Array.replicate P.m 0
  let sw0 : Sweep K := { pi := pi0, sum2all := 0, sum2enf := 0,
                         uniCond := P.uniContact.map (fun _ => 9), fricCond := P.uniContact.map (fun _ => 9),
                         bndCond := [], stateCond := [], consCond := [] }
  if P.participating.isEmpty then
    -- `p == 0`: returns before the final verr update (verrStart holds the assembled rhs)
    { converged := true, iters := 0, pi := pi0, verrOut := rhs, normRMSenf := inf, last := sw0 }
  else
    let (conv, its, nrm, sw) := pgsLoop sqrt P rhs pK tol sorMin sorFac maxIters 1 sor0 inf sw0
    let verrOut := (Array.range P.m).map (fun r =>
      vget rhs r - (List.range P.m).foldl (fun s c => s + mget P.A r c * vget sw.pi c) 0 - vget P.D r * vget sw.pi r)
    { converged := conv, iters := its, pi := sw.pi, verrOut := verrOut, normRMSenf := nrm, last := sw }

/-! ## Kind-K contract for PLUS (exact rational arithmetic on the returned doubles)

`plusAccept`: (1) every participating unilateral normal impulse does not pull (`sign·π ≤ 0`), (2) every contact
friction impulse lies in the cone `π_x²+π_y² ≤ ((1+tol)·|μ|·|π_z+πE_z| + tol·scale)²` (exact: no square root needed), (3) bounded
multipliers are within `[lb−tol·s, ub+tol·s]`, (4) if `checkLinear` (only unconditional rows) the residual of
`[A+D]π = rhs` on the participating rows is at most `tol·scale` in every component. -/
def ratAbs (x : Rat) : Rat := if x < 0 then -x else x

def plusAccept (P : Problem Rat) (rhs pi : Array Rat) (tol scale : Rat) (checkLinear : Bool) : Bool :=
  let slack := tol * scale
  P.uniContact.all (fun c =>
      (c.type ≠ 2 || decide (c.sign * vget pi c.Nk ≤ slack)) &&
      (c.type = 0 || c.Fk.isEmpty ||
        decide (normSq (gather pi c.Fk) ≤
          square ((1 + tol) * ratAbs c.mu * ratAbs (vget pi c.Nk + vget P.piExpand c.Nk) + slack)))) &&
  P.bounded.all (fun b => decide (b.lb - slack ≤ vget pi b.ix) && decide (vget pi b.ix ≤ b.ub + slack)) &&
  (!checkLinear || P.participating.all (fun r =>
      decide (ratAbs (doRowSum P.participating r P.A P.D pi - vget rhs r) ≤ slack)))

end C44
