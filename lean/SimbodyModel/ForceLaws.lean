/-!
# ForceLaws — executable model of simbody's built-in force elements (C12, C13, C37, C38)

Mathlib-free, polymorphic in the scalar `K`: proved over any (linear ordered) field in
`SimbodyProofs/C38.lean`, `C12.lean`, `C13.lean`, `C37.lean`; executed over `Float` by
`SimbodyModel/ForceLawsDriver.lean` (drivers `drv_C12/13/37/38`).

Every `…Force` / `…PE` definition mirrors the corresponding `calcForce` / `calcPotentialEnergy` of
`Simbody/src/Force.cpp`, `Force_Gravity.cpp`, `Force_LinearBushing.cpp`, `HuntCrossleyForce.cpp`,
`ElasticFoundationForce.cpp`, `SmoothSphereHalfSpaceForce.cpp`, `ExponentialSpringForce.cpp`,
`CompliantContactSubsystem.cpp` formula by formula ("exported-kinematics" mode: the inputs are the body
poses `X_GB` and spatial velocities `V_GB` the implementation reports, plus the element's parameters).
Every `doc…` definition is written from the header documentation only
(`Simbody/include/simbody/internal/Force*.h`, `HuntCrossleyForce.h`, …).

`sqrt`, `exp`, `tanh`, `pow` enter as *function parameters* (libm is trusted-base item 7).

Conventions
* `V3`  vectors expressed in Ground unless said otherwise;
* `M33` a rotation matrix by rows, `Pose = (R_GB, p_GB)`, `Vel = (w_GB, v_GB)`;
* `SpF` a spatial force as the C++ accumulates it in `bodyForces[b]`: moment about the body origin and
  force, both expressed in Ground.
-/
namespace ForceLaws

structure V3 (K : Type) where
  x : K
  y : K
  z : K
deriving Repr

/-- 3×3 matrix by rows -/
structure M33 (K : Type) where
  r0 : V3 K
  r1 : V3 K
  r2 : V3 K
deriving Repr

/-- `Transform X_GB`: rotation and origin location -/
structure Pose (K : Type) where
  R : M33 K
  p : V3 K
deriving Repr

/-- `SpatialVec V_GB`: angular velocity and velocity of the body origin, in Ground -/
structure Vel (K : Type) where
  w : V3 K
  v : V3 K
deriving Repr

/-- spatial force accumulated in `bodyForces[b]`: moment about the body origin, force; in Ground -/
structure SpF (K : Type) where
  m : V3 K
  f : V3 K
deriving Repr

/-! ## Jets `K[ε]/(ε²)` (DESIGN §1.3): time derivatives without analysis -/
structure Jet (K : Type) where
  re : K
  eps : K
deriving Repr

section JetInst
variable {K : Type}
instance [Add K] : Add (Jet K) := ⟨fun a b => ⟨a.re + b.re, a.eps + b.eps⟩⟩
instance [Sub K] : Sub (Jet K) := ⟨fun a b => ⟨a.re - b.re, a.eps - b.eps⟩⟩
instance [Neg K] : Neg (Jet K) := ⟨fun a => ⟨-a.re, -a.eps⟩⟩
instance [Add K] [Mul K] : Mul (Jet K) := ⟨fun a b => ⟨a.re * b.re, a.re * b.eps + a.eps * b.re⟩⟩
instance [Sub K] [Mul K] [Div K] : Div (Jet K) :=
  ⟨fun a b => ⟨a.re / b.re, (a.eps * b.re - a.re * b.eps) / (b.re * b.re)⟩⟩
instance [OfNat K 0] [OfNat K n] : OfNat (Jet K) n := ⟨⟨OfNat.ofNat n, 0⟩⟩
/-- branch conditions are decided by the value -/
instance [LT K] : LT (Jet K) := ⟨fun a b => a.re < b.re⟩
instance [LT K] [DecidableLT K] : DecidableLT (Jet K) := fun a b => inferInstanceAs (Decidable (a.re < b.re))
/-- a constant (time-independent parameter) -/
def Jet.const [OfNat K 0] (a : K) : Jet K := ⟨a, 0⟩
/-- jet of `√`: `√(a+εb) = √a + ε b/(2√a)` (side condition `√a ≠ 0` in the theorems) -/
def Jet.sqrt [Mul K] [Div K] [OfNat K 2] (sqrt : K → K) (a : Jet K) : Jet K :=
  ⟨sqrt a.re, a.eps / (2 * sqrt a.re)⟩
/-- jet of `exp`: `exp(a+εb) = exp a + ε b exp a` -/
def Jet.exp [Mul K] (exp : K → K) (a : Jet K) : Jet K := ⟨exp a.re, a.eps * exp a.re⟩
end JetInst

section Ops
variable {K : Type} [Add K] [Sub K] [Mul K] [Neg K] [Div K]

namespace V3
instance : Add (V3 K) := ⟨fun a b => ⟨a.x + b.x, a.y + b.y, a.z + b.z⟩⟩
instance : Sub (V3 K) := ⟨fun a b => ⟨a.x - b.x, a.y - b.y, a.z - b.z⟩⟩
instance : Neg (V3 K) := ⟨fun a => ⟨-a.x, -a.y, -a.z⟩⟩
def smul (s : K) (a : V3 K) : V3 K := ⟨s * a.x, s * a.y, s * a.z⟩
def divS (a : V3 K) (s : K) : V3 K := ⟨a.x / s, a.y / s, a.z / s⟩
def dot (a b : V3 K) : K := a.x * b.x + a.y * b.y + a.z * b.z
/-- `a % b` -/
def cross (a b : V3 K) : V3 K := ⟨a.y * b.z - a.z * b.y, a.z * b.x - a.x * b.z, a.x * b.y - a.y * b.x⟩
def normSq (a : V3 K) : K := dot a a
end V3
open V3

namespace M33
/-- `R * v` -/
def mulVec (R : M33 K) (v : V3 K) : V3 K := ⟨dot R.r0 v, dot R.r1 v, dot R.r2 v⟩
/-- `~R * v` -/
def tmulVec (R : M33 K) (v : V3 K) : V3 K := smul v.x R.r0 + smul v.y R.r1 + smul v.z R.r2
def col0 (R : M33 K) : V3 K := ⟨R.r0.x, R.r1.x, R.r2.x⟩
def col1 (R : M33 K) : V3 K := ⟨R.r0.y, R.r1.y, R.r2.y⟩
def col2 (R : M33 K) : V3 K := ⟨R.r0.z, R.r1.z, R.r2.z⟩
def transpose (R : M33 K) : M33 K := ⟨R.col0, R.col1, R.col2⟩
/-- `A * B` -/
def mul (A B : M33 K) : M33 K :=
  ⟨⟨dot A.r0 B.col0, dot A.r0 B.col1, dot A.r0 B.col2⟩,
   ⟨dot A.r1 B.col0, dot A.r1 B.col1, dot A.r1 B.col2⟩,
   ⟨dot A.r2 B.col0, dot A.r2 B.col1, dot A.r2 B.col2⟩⟩
end M33

namespace Pose
/-- `X_GB * s`: location in Ground of station `s` of B -/
def apply (X : Pose K) (s : V3 K) : V3 K := X.p + X.R.mulVec s
/-- `~X_GB * g` (`findStationAtGroundPoint`) -/
def invApply (X : Pose K) (g : V3 K) : V3 K := X.R.tmulVec (g - X.p)
/-- `X_GB * X_BF` -/
def comp (X : Pose K) (Y : Pose K) : Pose K := ⟨X.R.mul Y.R, X.p + X.R.mulVec Y.p⟩
end Pose

variable [OfNat K 0]

def V3.zero : V3 K := ⟨0, 0, 0⟩
def SpF.zero : SpF K := ⟨V3.zero, V3.zero⟩
def SpF.add (a b : SpF K) : SpF K := ⟨a.m + b.m, a.f + b.f⟩
def SpF.neg (a : SpF K) : SpF K := ⟨-a.m, -a.f⟩

/-- `MobilizedBody::findStationVelocityInGround(state, s)` = `v + w % (R*s)` -/
def stationVel (X : Pose K) (V : Vel K) (s : V3 K) : V3 K := V.v + cross V.w (X.R.mulVec s)

/-- the meaning of "a force `F` (in Ground) applied to the point of body B whose offset from the body
origin is `sG` (in Ground)": `MobilizedBody::applyForceToBodyPoint` adds `SpatialVec(sG % F, F)` -/
def applyAt (sG F : V3 K) : SpF K := ⟨cross sG F, F⟩

/-- `MobilizedBody::applyForceToBodyPoint(state, stationInB, F, bodyForces)` -/
def applyForceToBodyPoint (X : Pose K) (station F : V3 K) : SpF K := applyAt (X.R.mulVec station) F

/-- power delivered by a spatial force on a body moving with `V` -/
def SpF.power (F : SpF K) (V : Vel K) : K := dot F.m V.w + dot F.f V.v

/-- the spatial force shifted to the Ground origin: what `Σ` of these must vanish for Newton's third law -/
def SpF.aboutGround (F : SpF K) (X : Pose K) : SpF K := ⟨F.m + cross X.p F.f, F.f⟩

/-- lift of a pose moving with spatial velocity `V`: `Ṙ = [w]× R`, `ṗ = v` (DESIGN §3 item 6) -/
def liftV3 (a da : V3 K) : V3 (Jet K) := ⟨⟨a.x, da.x⟩, ⟨a.y, da.y⟩, ⟨a.z, da.z⟩⟩
def constV3 (a : V3 K) : V3 (Jet K) := ⟨⟨a.x, 0⟩, ⟨a.y, 0⟩, ⟨a.z, 0⟩⟩
def liftPose (X : Pose K) (V : Vel K) : Pose (Jet K) :=
  let c0 := X.R.col0; let c1 := X.R.col1; let c2 := X.R.col2
  let d0 := cross V.w c0; let d1 := cross V.w c1; let d2 := cross V.w c2
  ⟨⟨⟨⟨c0.x, d0.x⟩, ⟨c1.x, d1.x⟩, ⟨c2.x, d2.x⟩⟩,
    ⟨⟨c0.y, d0.y⟩, ⟨c1.y, d1.y⟩, ⟨c2.y, d2.y⟩⟩,
    ⟨⟨c0.z, d0.z⟩, ⟨c1.z, d1.z⟩, ⟨c2.z, d2.z⟩⟩⟩,
   liftV3 X.p V.v⟩

/-! ## Two-point elements (`Force.cpp`) -/
section TwoPoint
variable [OfNat K 1] [OfNat K 2]

/-- `Force::TwoPointLinearSpringImpl::calcForce`: returns (`bodyForces[body1] +=`, `bodyForces[body2] +=`) -/
def tpSpringForce (sqrt : K → K) (k x0 : K) (X1 X2 : Pose K) (s1 s2 : V3 K) : SpF K × SpF K :=
  let s1_G := X1.R.mulVec s1
  let s2_G := X2.R.mulVec s2
  let p1_G := X1.p + s1_G
  let p2_G := X2.p + s2_G
  let r_G := p2_G - p1_G
  let d := sqrt (normSq r_G)
  let stretch := d - x0
  let frcScalar := k * stretch
  let f1_G := smul (frcScalar / d) r_G
  (⟨cross s1_G f1_G, f1_G⟩, ⟨-(cross s2_G f1_G), -f1_G⟩)

/-- `Force::TwoPointLinearSpringImpl::calcPotentialEnergy` -/
def tpSpringPE (sqrt : K → K) (k x0 : K) (X1 X2 : Pose K) (s1 s2 : V3 K) : K :=
  let s1_G := X1.R.mulVec s1
  let s2_G := X2.R.mulVec s2
  let p1_G := X1.p + s1_G
  let p2_G := X2.p + s2_G
  let r_G := p2_G - p1_G
  let d := sqrt (normSq r_G)
  let stretch := d - x0
  k * stretch * stretch / 2

/-- documented law (Force.h): "if d is the unit vector from point1 to point2, and x the current separation,
we have f = k(x-x0) and we apply a force f*d to point1 and -f*d to point2" -/
def docTpSpringForce (sqrt : K → K) (k x0 : K) (X1 X2 : Pose K) (s1 s2 : V3 K) : SpF K × SpF K :=
  let P1 := X1.apply s1
  let P2 := X2.apply s2
  let x := sqrt (normSq (P2 - P1))
  let d := divS (P2 - P1) x
  let f := k * (x - x0)
  (applyAt (P1 - X1.p) (smul f d), applyAt (P2 - X2.p) (-(smul f d)))

/-- documented: "pe = 1/2 k (x-x0)^2" -/
def docTpSpringPE (sqrt : K → K) (k x0 : K) (X1 X2 : Pose K) (s1 s2 : V3 K) : K :=
  let x := sqrt (normSq (X2.apply s2 - X1.apply s1))
  1 / 2 * k * ((x - x0) * (x - x0))

/-- `Force::TwoPointLinearDamperImpl::calcForce` (`UnitVec3 d(p2_G-p1_G)` normalises by the norm) -/
def tpDamperForce (sqrt : K → K) (damping : K) (X1 X2 : Pose K) (V1 V2 : Vel K) (s1 s2 : V3 K) : SpF K × SpF K :=
  let s1_G := X1.R.mulVec s1
  let s2_G := X2.R.mulVec s2
  let p1_G := X1.p + s1_G
  let p2_G := X2.p + s2_G
  let v1_G := stationVel X1 V1 s1
  let v2_G := stationVel X2 V2 s2
  let vRel := v2_G - v1_G
  let r := p2_G - p1_G
  let d := divS r (sqrt (normSq r))
  let frc := damping * dot vRel d
  let f1_G := smul frc d
  (⟨cross s1_G f1_G, f1_G⟩, ⟨-(cross s2_G f1_G), -f1_G⟩)

/-- documented: "If the relative (scalar) velocity between the points is v, then we apply a force of
magnitude f=c*|v| to each point in a direction which opposes their separation" (resists changes in the
distance): on point 1 the force `c v d`, `v = ḋistance`, `d` the unit vector from point 1 to point 2 -/
def docTpDamperForce (sqrt : K → K) (c : K) (X1 X2 : Pose K) (V1 V2 : Vel K) (s1 s2 : V3 K) : SpF K × SpF K :=
  let P1 := X1.apply s1
  let P2 := X2.apply s2
  let x := sqrt (normSq (P2 - P1))
  let d := divS (P2 - P1) x
  let v := dot (stationVel X2 V2 s2 - stationVel X1 V1 s1) d
  (applyAt (P1 - X1.p) (smul (c * v) d), applyAt (P2 - X2.p) (-(smul (c * v) d)))

/-- `Force::TwoPointLinearDamperImpl::calcPotentialEnergy`: `return 0` -/
def tpDamperPE : K := 0

/-- `Force::TwoPointConstantForceImpl::calcPotentialEnergy`: `return 0` -/
def tpConstPE : K := 0

/-- `Force::TwoPointConstantForceImpl::calcForce` -/
def tpConstForce (sqrt : K → K) (force : K) (X1 X2 : Pose K) (s1 s2 : V3 K) : SpF K × SpF K :=
  let s1_G := X1.R.mulVec s1
  let s2_G := X2.R.mulVec s2
  let p1_G := X1.p + s1_G
  let p2_G := X2.p + s2_G
  let r_G := p2_G - p1_G
  let x := sqrt (normSq r_G)
  let d := divS r_G x
  let f2_G := smul force d
  (⟨-(cross s1_G f2_G), -f2_G⟩, ⟨cross s2_G f2_G, f2_G⟩)

/-- documented: "A positive force acts to separate the points": `+f d` on point 2, `−f d` on point 1 -/
def docTpConstForce (sqrt : K → K) (f : K) (X1 X2 : Pose K) (s1 s2 : V3 K) : SpF K × SpF K :=
  let P1 := X1.apply s1
  let P2 := X2.apply s2
  let d := divS (P2 - P1) (sqrt (normSq (P2 - P1)))
  (applyAt (P1 - X1.p) (-(smul f d)), applyAt (P2 - X2.p) (smul f d))
end TwoPoint

/-! ## One-body constant elements -/

/-- `Force::ConstantForceImpl::calcForce` -/
def constForce (X : Pose K) (station force : V3 K) : SpF K :=
  let station_G := X.R.mulVec station
  ⟨cross station_G force, force⟩

/-- documented: "A constant force applied to a body station. The force is a vector fixed forever in the Ground frame" -/
def docConstForce (X : Pose K) (station force : V3 K) : SpF K := applyAt (X.apply station - X.p) force

/-- `Force::ConstantForceImpl::calcPotentialEnergy`, `ConstantTorqueImpl::calcPotentialEnergy`: `return 0` -/
def constForcePE : K := 0
def constTorquePE : K := 0

/-- `Force::ConstantTorqueImpl::calcForce`: `bodyForces[body][0] += torque` -/
def constTorque (torque : V3 K) : SpF K := ⟨torque, V3.zero⟩

/-! ## Mobility elements: generalized force on one mobility -/
section Mobility
variable [OfNat K 1] [OfNat K 2] [LT K] [DecidableLT K]

/-- `Force::MobilityLinearSpringImpl::calcForce` -/
def mobSpringForce (k q0 q : K) : K := -k * (q - q0)
/-- `Force::MobilityLinearSpringImpl::calcPotentialEnergy` : `k*square(q-q0)/2` -/
def mobSpringPE (k q0 q : K) : K := k * ((q - q0) * (q - q0)) / 2
/-- documented (property statement / Force_MobilityLinearSpring.h): force `-k(q-q0)`, `pe = 1/2 k (q-q0)^2` -/
def docMobSpringForce (k q0 q : K) : K := -(k * (q - q0))
def docMobSpringPE (k q0 q : K) : K := 1 / 2 * k * ((q - q0) * (q - q0))

/-- `Force::MobilityLinearDamperImpl::calcForce` -/
def mobDamperForce (damping u : K) : K := -damping * u
/-- documented: "-c*u" -/
def docMobDamperForce (c u : K) : K := -(c * u)

/-- `Force::MobilityConstantForceImpl::calcForce`, `MobilityDiscreteForceImpl::calcForce` -/
def mobConstForce (f : K) : K := f
/-- `MobilityLinearDamperImpl::calcPotentialEnergy` returns 0; `MobilityConstantForceImpl`, `MobilityDiscreteForceImpl`,
`DiscreteForcesImpl` do not override `ForceImpl::calcPotentialEnergy` (returns 0); `GlobalDamperImpl` returns 0 -/
def mobDamperPE : K := 0
def mobConstPE : K := 0
def globalDamperPE : K := 0

def kmin (a b : K) : K := if b < a then b else a     -- std::min(a,b)
def kmax (a b : K) : K := if a < b then b else a     -- std::max(a,b)

/-- `Force::MobilityLinearStopImpl::calcForce`; the test `param.k == 0` is `¬(k<0) ∧ ¬(0<k)`;
`qdot` is what `getOneQDot` returns (the C++ uses 0 instead when `d == 0`, which multiplies to the same) -/
def mobStopForce (k d qLow qHigh q qdot : K) : K :=
  if ¬ (k < 0) ∧ ¬ (0 < k) then 0 else
  let qd : K := if ¬ (d < 0) ∧ ¬ (0 < d) then 0 else qdot
  if qHigh < q then
    let x := q - qHigh
    let fraw := k * x * (1 + d * qd)
    kmin 0 (-fraw)
  else if q < qLow then
    let x := q - qLow
    let fraw := k * x * (1 - d * qd)
    kmax 0 (-fraw)
  else 0

/-- `Force::MobilityLinearStopImpl::calcPotentialEnergy` -/
def mobStopPE (k qLow qHigh q : K) : K :=
  if ¬ (k < 0) ∧ ¬ (0 < k) then 0 else
  if qHigh < q then let x := q - qHigh; k * x * x / 2
  else if q < qLow then let x := q - qLow; k * x * x / 2
  else 0

/-- documented (Force_MobilityLinearStop.h, "Theory"):
```
      {           0,             q_low <= q <= q_high
  f = { min(0, -k*x*(1+d*qdot)), q > q_high, x=q-q_high
      { max(0, -k*x*(1-d*qdot)), q < q_low,  x=q-q_low
``` -/
def docMobStopForce (k d qLow qHigh q qdot : K) : K :=
  if qHigh < q then kmin 0 (-(k * (q - qHigh) * (1 + d * qdot)))
  else if q < qLow then kmax 0 (-(k * (q - qLow) * (1 - d * qdot)))
  else 0

/-- documented stiffness energy `1/2 k x^2` of the engaged stop -/
def docMobStopPE (k qLow qHigh q : K) : K :=
  if qHigh < q then 1 / 2 * k * ((q - qHigh) * (q - qHigh))
  else if q < qLow then 1 / 2 * k * ((q - qLow) * (q - qLow))
  else 0

/-- `Force::GlobalDamperImpl::calcForce`: `mobilityForces -= damping*u` -/
def globalDamperForce (damping : K) (u : List K) : List K := u.map (fun ui => -(damping * ui))
/-- documented: "Each generalized speed u_i feels a force -dampingFactor*u_i" -/
def docGlobalDamperForce (c : K) (u : List K) : List K := u.map (fun ui => -c * ui)

/-- power of mobility forces `Σ fᵢ uᵢ` -/
def mobPower : List K → List K → K
  | f :: fs, u :: us => f * u + mobPower fs us
  | _, _ => 0

/-! ### CableSpring (`CableSpring.cpp`): tension law on the cable length `L` and its rate `Ldot` -/
structure CableOut (K : Type) where
  f : K
  powerLoss : K
  pe : K
  x : K

/-- `CableSpring::Impl::calcTensionAndPowerLoss` + `calcPotentialEnergy`; `calcStretch = max(0, L-L0)` -/
def cableSpring (k c L0 L Ldot : K) : CableOut K :=
  let x0 := L - L0
  let x := kmax 0 x0
  let pe := k * x * x / 2
  if ¬ (x < 0) ∧ ¬ (0 < x) then ⟨0, 0, pe, x⟩ else
  let f_stretch := k * x
  let xdot := Ldot
  let diss := f_stretch * c * xdot
  let f_rate := kmax (-f_stretch) diss
  ⟨f_stretch + f_rate, f_rate * xdot, pe, x⟩

/-- the cable spring's energy as a function of the length alone -/
def cablePE (k L0 L : K) : K := let x := kmax 0 (L - L0); k * x * x / 2

/-- documented (CableSpring.h, Theory): `x=max(0,L-L0)`, `f_stretch = k*x`, `f_rate = max(-f_stretch, f_stretch*c*xdot)`,
`f = f_stretch + f_rate`, `pe = k*x^2/2`, `powerLoss = f_rate * xdot` -/
def docCableSpring (k c L0 L Ldot : K) : CableOut K :=
  let x := kmax 0 (L - L0)
  let f_stretch := k * x
  let f_rate := kmax (-f_stretch) (f_stretch * c * Ldot)
  ⟨f_stretch + f_rate, f_rate * Ldot, k * (x * x) / 2, x⟩
end Mobility

/-! ## Gravity -/
section Gravity
variable [OfNat K 1] [LT K] [DecidableLT K]

/-- what the gravity elements read of one mobilized body (Ground excluded): mass, mass centre station,
pose, and (for `Force::Gravity`) the exclusion flag -/
structure GBody (K : Type) where
  mass : K
  com : V3 K
  X : Pose K
  immune : Bool

/-- `Force::UniformGravityImpl::calcForce`, body loop -/
def uniformGravityForce (g : V3 K) (bodies : List (GBody K)) : List (SpF K) :=
  bodies.map fun b =>
    let com_B_G := b.X.R.mulVec b.com
    let frc_G := smul b.mass g
    ⟨cross com_B_G frc_G, frc_G⟩

/-- `Force::UniformGravityImpl::calcPotentialEnergy`: `pe -= m*(~g*com_G + g.norm()*zeroHeight)`; `gmag` is `g.norm()`
(the pinned source had `+ zeroHeight` without the magnitude: finding fixed in /repo 5f9a9c23) -/
def uniformGravityPE (g : V3 K) (gmag zeroHeight : K) (bodies : List (GBody K)) : K :=
  bodies.foldl (fun pe b =>
    let com_B_G := b.X.R.mulVec b.com
    let com_G := b.X.p + com_B_G
    pe - b.mass * (dot g com_G + gmag * zeroHeight)) 0

/-- documented (Force.h): "A uniform gravitational force applied to every body in the system … specified by a
vector in the Ground frame": `m g` at each body's mass centre -/
def docUniformGravityForce (g : V3 K) (bodies : List (GBody K)) : List (SpF K) :=
  bodies.map fun b => applyAt (b.X.apply b.com - b.X.p) (smul b.mass g)

/-- documented: "You can optionally specify a height at which the gravitational potential energy is zero":
`Σ m |g| (h − zeroHeight)`, `h` = height of the mass centre along `−g/|g|`, i.e. `−m g·p − m |g| zeroHeight`;
`gmag` is `|g|` -/
def docUniformGravityPE (g : V3 K) (gmag zeroHeight : K) (bodies : List (GBody K)) : K :=
  bodies.foldl (fun pe b => pe + (-(b.mass * dot g (b.X.apply b.com)) - b.mass * gmag * zeroHeight)) 0

/-- `Force::GravityImpl::ensureForceCacheValid` + `calcForce`: `d` down direction, `g` magnitude.
With `g == 0` the precalculated zeros are used; immune bodies keep their precalculated zero. -/
def gravityForce (d : V3 K) (g : K) (bodies : List (GBody K)) : List (SpF K) :=
  if ¬ (g < 0) ∧ ¬ (0 < g) then bodies.map (fun _ => SpF.zero) else
  let gravity := smul g d
  bodies.map fun b =>
    if b.immune then SpF.zero else
    let p_CB_G := b.X.R.mulVec b.com
    let F_CB_G := smul b.mass gravity
    ⟨cross p_CB_G F_CB_G, F_CB_G⟩

/-- `Force::GravityImpl::calcPotentialEnergy` (`fc.pe -= m*(~gravity*p_G_CB + zeroPEOffset)`) -/
def gravityPE (d : V3 K) (g z : K) (bodies : List (GBody K)) : K :=
  if ¬ (g < 0) ∧ ¬ (0 < g) then 0 else
  let gravity := smul g d
  let zeroPEOffset := g * z
  bodies.foldl (fun pe b =>
    if b.immune then pe else
    let p_CB_G := b.X.R.mulVec b.com
    let p_G_CB := b.X.p + p_CB_G
    pe - b.mass * (dot gravity p_G_CB + zeroPEOffset)) 0

/-- documented (Force_Gravity.h): "Each body B that has not been explicitly excluded will experience a force
fb = mb*g*d, applied to its center of mass" -/
def docGravityForce (d : V3 K) (g : K) (bodies : List (GBody K)) : List (SpF K) :=
  bodies.map fun b =>
    if b.immune then SpF.zero else applyAt (b.X.apply b.com - b.X.p) (smul (b.mass * g) d)

/-- documented: "potential energy for a body B is mb*g*hb where … hb=pb*(-d) - hz" -/
def docGravityPE (d : V3 K) (g hz : K) (bodies : List (GBody K)) : K :=
  bodies.foldl (fun pe b =>
    if b.immune then pe else pe + b.mass * g * (dot (b.X.apply b.com) (-d) - hz)) 0
end Gravity

/-! ## LinearBushing (`Force_LinearBushing.cpp`) -/
section Bushing
variable [OfNat K 1] [OfNat K 2]

/-- six scalars, rotational then translational -/
structure Vec6 (K : Type) where
  r : V3 K
  t : V3 K
deriving Repr

/-- `Rotation::setRotationToBodyFixedXYZ(cq, sq)` : `R = Rx(q0) Ry(q1) Rz(q2)` -/
def bodyXYZ (c s : V3 K) : M33 K :=
  let c0 := c.x; let c1 := c.y; let c2 := c.z; let s0 := s.x; let s1 := s.y; let s2 := s.z
  ⟨⟨c1 * c2, -(c1 * s2), s1⟩,
   ⟨s2 * c0 + s0 * s1 * c2, c0 * c2 - s0 * s1 * s2, -(s0 * c1)⟩,
   ⟨s0 * s2 - s1 * (c0 * c2), s0 * c2 + s1 * (s2 * c0), c0 * c1⟩⟩

/-- `Rotation::calcNForBodyXYZInBodyFrame(cq, sq)` (only elements 1 and 2 of `cq`,`sq` are referenced) -/
def bushingN (c s : V3 K) : M33 K :=
  let s1 := s.y; let c1 := c.y; let s2 := s.z; let c2 := c.z
  let ooc1 := 1 / c1
  let s2oc1 := s2 * ooc1; let c2oc1 := c2 * ooc1
  ⟨⟨c2oc1, -s2oc1, 0⟩, ⟨s2, c2, 0⟩, ⟨-s1 * c2oc1, s1 * s2oc1, 1⟩⟩

/-- everything `ensurePositionCacheValid` / `ensureVelocityCacheValid` / `ensureForceCacheValid` compute -/
structure BushingOut (K : Type) where
  X_FM : Pose K
  q : Vec6 K
  qdot : Vec6 K
  f : Vec6 K
  F_GB1 : SpF K
  F_GB2 : SpF K
  pe : K
  power : K

/-- `Force::LinearBushingImpl`: `qr` are the three body-fixed XYZ Euler angles extracted from `R_FM`
(`convertRotationToBodyFixedXYZ`, libm `atan2`; supplied by the caller), `cq`,`sq` their cosines and sines. -/
def bushing (X_GB1 X_GB2 : Pose K) (V_GB1 V_GB2 : Vel K) (X_B1F X_B2M : Pose K) (k c : Vec6 K)
    (qr cq sq : V3 K) : BushingOut K :=
  -- ensurePositionCacheValid
  let X_GF := X_GB1.comp X_B1F
  let X_GM := X_GB2.comp X_B2M
  let X_FM : Pose K := ⟨X_GF.R.transpose.mul X_GM.R, X_GF.R.tmulVec (X_GM.p - X_GF.p)⟩
  let p_B1F_G := X_GB1.R.mulVec X_B1F.p
  let p_B2M_G := X_GB2.R.mulVec X_B2M.p
  let p_FM_G := X_GF.R.mulVec X_FM.p
  let q : Vec6 K := ⟨qr, X_FM.p⟩
  -- ensureVelocityCacheValid
  let V_GF : Vel K := ⟨V_GB1.w, V_GB1.v + cross V_GB1.w p_B1F_G⟩
  let V_GM : Vel K := ⟨V_GB2.w, V_GB2.v + cross V_GB2.w p_B2M_G⟩
  let V_FM_G : Vel K := ⟨V_GM.w - V_GF.w, V_GM.v - V_GF.v⟩
  let V_FM : Vel K := ⟨X_GF.R.tmulVec V_FM_G.w, X_GF.R.tmulVec (V_FM_G.v - cross V_GF.w p_FM_G)⟩
  let w_FM_M := X_FM.R.tmulVec V_FM.w
  let N_FM := bushingN cq sq
  let qdot : Vec6 K := ⟨N_FM.mulVec w_FM_M, V_FM.v⟩
  -- ensureForceCacheValid
  let fk : Vec6 K := ⟨⟨k.r.x * q.r.x, k.r.y * q.r.y, k.r.z * q.r.z⟩, ⟨k.t.x * q.t.x, k.t.y * q.t.y, k.t.z * q.t.z⟩⟩
  let pe2 := fk.r.x * q.r.x + fk.r.y * q.r.y + fk.r.z * q.r.z + fk.t.x * q.t.x + fk.t.y * q.t.y + fk.t.z * q.t.z
  let fv : Vec6 K := ⟨⟨c.r.x * qdot.r.x, c.r.y * qdot.r.y, c.r.z * qdot.r.z⟩,
                      ⟨c.t.x * qdot.t.x, c.t.y * qdot.t.y, c.t.z * qdot.t.z⟩⟩
  let power := fv.r.x * qdot.r.x + fv.r.y * qdot.r.y + fv.r.z * qdot.r.z
             + fv.t.x * qdot.t.x + fv.t.y * qdot.t.y + fv.t.z * qdot.t.z
  let f : Vec6 K := ⟨-(fk.r + fv.r), -(fk.t + fv.t)⟩
  let fB2_q := f.r
  let fM_F := f.t
  let mB2_M := N_FM.tmulVec fB2_q
  let mB2_G := X_GM.R.mulVec mB2_M
  let fM_G := X_GF.R.mulVec fM_F
  let F_GM : SpF K := ⟨mB2_G, fM_G⟩
  let F_GF : SpF K := ⟨-(mB2_G + cross p_FM_G fM_G), -fM_G⟩
  let F_GB2 : SpF K := ⟨F_GM.m + cross p_B2M_G F_GM.f, F_GM.f⟩
  let F_GB1 : SpF K := ⟨F_GF.m + cross p_B1F_G F_GF.f, F_GF.f⟩
  ⟨X_FM, q, qdot, f, F_GB1, F_GB2, pe2 / 2, power⟩

/-- documented (Force_LinearBushing.h, Theory): `f_i = -(k_i*q_i + c_i*qdot_i)` -/
def docBushingF (k c q qdot : Vec6 K) : Vec6 K :=
  ⟨⟨-(k.r.x * q.r.x + c.r.x * qdot.r.x), -(k.r.y * q.r.y + c.r.y * qdot.r.y), -(k.r.z * q.r.z + c.r.z * qdot.r.z)⟩,
   ⟨-(k.t.x * q.t.x + c.t.x * qdot.t.x), -(k.t.y * q.t.y + c.t.y * qdot.t.y), -(k.t.z * q.t.z + c.t.z * qdot.t.z)⟩⟩
/-- documented: "Each contribution to potential energy is e_i = k_i*q_i^2/2" -/
def docBushingPE (k q : Vec6 K) : K :=
  k.r.x * (q.r.x * q.r.x) / 2 + k.r.y * (q.r.y * q.r.y) / 2 + k.r.z * (q.r.z * q.r.z) / 2
  + k.t.x * (q.t.x * q.t.x) / 2 + k.t.y * (q.t.y * q.t.y) / 2 + k.t.z * (q.t.z * q.t.z) / 2
/-- documented: "dissipate power at a rate p_i = c_i*qdot_i^2" -/
def docBushingPower (c qdot : Vec6 K) : K :=
  c.r.x * (qdot.r.x * qdot.r.x) + c.r.y * (qdot.r.y * qdot.r.y) + c.r.z * (qdot.r.z * qdot.r.z)
  + c.t.x * (qdot.t.x * qdot.t.x) + c.t.y * (qdot.t.y * qdot.t.y) + c.t.z * (qdot.t.z * qdot.t.z)
def Vec6.dot (a b : Vec6 K) : K := V3.dot a.r b.r + V3.dot a.t b.t
end Bushing

/-! ## Parameter changes and the force cache of `GeneralForceSubsystem` (kind D)

`GeneralForceSubsystem::realizeSubsystemDynamicsImpl` re-uses the forces of elements whose
`dependsOnlyOnPositions()` is true until `realizePosition` (or enable/disable) clears
`cachedForcesAreValid`; writing a parameter invalidates the stage the parameter variable was allocated
with. -/
structure ElemCache (F : Type) where
  /-- forces cached at the last position realization, if still valid -/
  cached : Option F

/-- realize Dynamics: what the subsystem adds for this element, and the cache afterwards -/
def realizeDyn {P F : Type} (posOnly : Bool) (calcF : P → F) (params : P) (c : ElemCache F) : F × ElemCache F :=
  if posOnly then
    match c.cached with
    | some f => (f, c)
    | none => (calcF params, ⟨some (calcF params)⟩)
  else (calcF params, c)

/-- `updParams(state)`: the write invalidates Position (and so the cache) iff the variable was allocated
with a stage ≤ Position -/
def setParams {F : Type} (invalidatesPosition : Bool) (c : ElemCache F) : ElemCache F :=
  if invalidatesPosition then ⟨none⟩ else c

/-! ## Compliant contact (C37) -/
section Contact
variable [OfNat K 1] [OfNat K 2] [OfNat K 3] [OfNat K 4] [OfNat K 5] [LT K] [DecidableLT K] [LE K] [DecidableLE K]

def kminc (a b : K) : K := if b < a then b else a     -- std::min(a,b)

/-- Hollars' friction blend (HuntCrossleyForce.h, ElasticFoundationForce.h, SmoothSphereHalfSpaceForce.h):
`min(vs/vt,1)*(ud+2(us-ud)/(1+(vs/vt)^2))+uv*vs`, `vrel = vs/vt` -/
def hollars (us ud uv vrel vslip : K) : K :=
  kminc vrel 1 * (ud + 2 * (us - ud) / (1 + vrel * vrel)) + uv * vslip

/-- `HuntCrossleyForceImpl::Parameters` (stiffness is stored as `stiffness^(2/3)`) -/
structure HCParams (K : Type) where
  stiffness : K
  dissipation : K
  us : K
  ud : K
  uv : K

/-- what `HuntCrossleyForceImpl::calcForce` reads of a `PointContact` -/
structure PointContact (K : Type) where
  location : V3 K
  normal : V3 K
  depth : K
  radius : K

/-- one contact with everything its force depends on -/
structure HCContact (K : Type) where
  b1 : Nat
  b2 : Nat
  p1 : HCParams K
  p2 : HCParams K
  c : PointContact K
  X1 : Pose K
  X2 : Pose K
  V1 : Vel K
  V2 : Vel K

/-- combination rule `2 a b/(a+b)` guarded as in the C++ (`has… ? … : 0`) -/
def combineMu (a b : K) : K :=
  if (a < 0 ∨ 0 < a) ∨ (b < 0 ∨ 0 < b) then 2 * a * b / (a + b) else 0

structure HCOut (K : Type) where
  F1 : SpF K
  F2 : SpF K
  pe : K
  /-- scalar normal force `f` (0 when `f <= 0`) -/
  fn : K
  /-- friction vector (part of the force on body 2) -/
  fric : V3 K
  vtangent : V3 K
  /-- Hertz force `fH`, approach speed `vnormal`, combined dissipation `c` -/
  fH : K
  vnormal : K
  cdiss : K

/-- body of the loop in `HuntCrossleyForceImpl::calcForce` for one `PointContact`;
`F1`,`F2` are what is applied to the bodies of surface 1 and surface 2 -/
def hcContact (sqrt : K → K) (transitionVelocity : K) (h : HCContact K) : HCOut K :=
  let param1 := h.p1; let param2 := h.p2
  let s1 := param2.stiffness / (param1.stiffness + param2.stiffness)
  let s2 := 1 - s1
  let depth := h.c.depth
  let normal := h.c.normal
  let location := h.c.location + smul (depth * (1 / 2 - s1)) normal
  let k := param1.stiffness * s1
  let c := param1.dissipation * s1 + param2.dissipation * s2
  let radius := h.c.radius
  let fH := 4 / 3 * k * depth * sqrt (radius * k * depth)
  let pe := 2 / 5 * fH * depth
  let station1 := h.X1.invApply location
  let station2 := h.X2.invApply location
  let v1 := stationVel h.X1 h.V1 station1
  let v2 := stationVel h.X2 h.V2 station2
  let v := v1 - v2
  let vnormal := dot v normal
  let vtangent := v - smul vnormal normal
  let f := fH * (1 + 3 / 2 * c * vnormal)
  if f ≤ 0 then ⟨SpF.zero, SpF.zero, pe, 0, V3.zero, vtangent, fH, vnormal, c⟩ else
  let force0 := smul f normal
  let vslip := sqrt (normSq vtangent)
  let fric : V3 K :=
    if vslip < 0 ∨ 0 < vslip then
      let us := combineMu param1.us param2.us
      let ud := combineMu param1.ud param2.ud
      let uv := combineMu param1.uv param2.uv
      let vrel := vslip / transitionVelocity
      let ffriction := f * hollars us ud uv vrel vslip
      divS (smul ffriction vtangent) vslip
    else V3.zero
  let force := force0 + fric
  ⟨applyForceToBodyPoint h.X1 station1 (-force), applyForceToBodyPoint h.X2 station2 force, pe, f, fric, vtangent, fH, vnormal, c⟩

/-- contributions `(body, spatial force)` of the whole contact list — the loop as the property requires it:
every contact contributes independently (`continue`, not `return`, when `f <= 0`) -/
def hcLoop (sqrt : K → K) (vt : K) (cs : List (HCContact K)) : List (Nat × SpF K) :=
  cs.flatMap fun h => let o := hcContact sqrt vt h; [(h.b1, o.F1), (h.b2, o.F2)]

/-- the reported potential energy: `pe += 2/5 fH depth` for every point contact -/
def hcPE (sqrt : K → K) (vt : K) (cs : List (HCContact K)) : K :=
  cs.foldl (fun pe h => pe + (hcContact sqrt vt h).pe) 0

/-- total on body `b` of a contribution list -/
def bodyTotal (b : Nat) (l : List (Nat × SpF K)) : SpF K :=
  l.foldl (fun acc e => if e.1 = b then SpF.add acc e.2 else acc) SpF.zero

/-- documented (HuntCrossleyForce.h): `k = (4/3) sqrt(R) E`, `E = (s1*E1^(2/3))^(3/2)`, `f = k x^(3/2) (1 + 3/2 c xdot)`;
`e23 = s1·E1^(2/3)`; powers `a^(3/2)` written `a·√a` -/
def docHertzForce (sqrt : K → K) (R e23 c x xdot : K) : K :=
  let E := e23 * sqrt e23
  let k := 4 / 3 * sqrt R * E
  k * (x * sqrt x) * (1 + 3 / 2 * c * xdot)
/-- documented: `pe = 2/5 k x^(5/2)` -/
def docHertzPE (sqrt : K → K) (R e23 x : K) : K :=
  let E := e23 * sqrt e23
  let k := 4 / 3 * sqrt R * E
  2 / 5 * k * (x * x * sqrt x)

/-! ### Elastic foundation, per spring (`ElasticFoundationForceImpl::processContact`, loop body) -/
structure EFParams (K : Type) where
  stiffness : K
  dissipation : K
  us : K
  ud : K
  uv : K

structure EFOut (K : Type) where
  F1 : SpF K
  F2 : SpF K
  pe : K
  f : K
  fric : V3 K
  forceDir : V3 K
  vtangent : V3 K
  /-- displacement `x` and its rate `vnormal` (relative velocity along the displacement direction) -/
  x : K
  vnormal : K

/-- one displaced spring: `nearestPoint` (Ground) on the other object, `springPosInGround`, `area` (already
scaled by `areaScale`); body 1 carries the mesh -/
def efSpring (sqrt : K → K) (transitionVelocity : K) (param : EFParams K) (area : K)
    (nearestPoint springPosInGround : V3 K) (X1 X2 : Pose K) (V1 V2 : Vel K) : EFOut K :=
  let displacement := nearestPoint - springPosInGround
  let distance := sqrt (normSq displacement)
  if ¬ (distance < 0) ∧ ¬ (0 < distance) then ⟨SpF.zero, SpF.zero, 0, 0, V3.zero, V3.zero, V3.zero, distance, 0⟩ else
  let forceDir := divS displacement distance
  let station1 := X1.invApply nearestPoint
  let station2 := X2.invApply nearestPoint
  let v1 := stationVel X1 V1 station1
  let v2 := stationVel X2 V2 station2
  let v := v2 - v1
  let vnormal := dot v forceDir
  let vtangent := v - smul vnormal forceDir
  let f := param.stiffness * area * distance * (1 + param.dissipation * vnormal)
  let force0 : V3 K := if 0 < f then smul f forceDir else V3.zero
  let vslip := sqrt (normSq vtangent)
  let fric : V3 K :=
    if 0 < f ∧ (vslip < 0 ∨ 0 < vslip) then
      let vrel := vslip / transitionVelocity
      let ffriction := f * hollars param.us param.ud param.uv vrel vslip
      divS (smul ffriction vtangent) vslip
    else V3.zero
  let force := force0 + fric
  ⟨applyForceToBodyPoint X1 station1 force, applyForceToBodyPoint X2 station2 (-force),
   param.stiffness * area * normSq displacement / 2, (if 0 < f then f else 0), fric, forceDir, vtangent, distance, vnormal⟩

/-- documented (ElasticFoundationForce.h): `f = k*a*x*(1+c*v)` along the displacement direction -/
def docEFForce (k a x c v : K) : K := k * a * x * (1 + c * v)

/-! ### Hertz contact of `CompliantContactSubsystem` (`calcHertzContactForce`, circular: `e = 1`) -/
def step5 (x : K) : K := let x3 := x * x * x; x3 * (2 * 5 + x * (2 * 3 * x - 3 * 5))

/-- `stribeck(us,ud,uv,v)`: the friction coefficient used by `calcHertzContactForce` -/
def stribeck (us ud uv v : K) : K :=
  let mu_wet := uv * v
  let mu_dry := if 3 ≤ v then ud else if 1 ≤ v then us - (us - ud) * step5 ((v - 1) / 2) else us * step5 v
  mu_dry + mu_wet

/-- effective friction coefficient `2ab/(a+b)` guarded `if (u != 0) u /= (a+b)` -/
def combineMu2 (a b : K) : K :=
  let u := 2 * a * b
  if u < 0 ∨ 0 < u then u / (a + b) else u

structure HertzMat (K : Type) where
  k23 : K
  c : K
  us : K
  ud : K
  uv : K

structure HertzOut (K : Type) where
  valid : Bool
  contactPt : V3 K
  force : V3 K     -- on surface 2, at the contact point
  pe : K
  powerLoss : K
  fNormal : K
  fric : V3 K
  velTangent : V3 K
  /-- Hertz force `fH`, penetration rate `xdot`, velocity `vel` of surface 2's contact point in S1 -/
  fH : K
  xdot : K
  vel : V3 K

/-- `calcHertzContactForce` in the S1 frame: `normal_S1` away from surface 1, `origin_S1`, `depth`,
relative velocity `(w12, v12)` of S2 in S1, `p12` origin of S2 in S1, effective radius `R`, correction `e`;
`signif` is `SignificantReal` -/
def hertzContact (sqrt : K → K) (signif vtrans : K) (mat1 mat2 : HertzMat K)
    (normal origin : V3 K) (depth : K) (p12 w12 v12 : V3 K) (R e : K) : HertzOut K :=
  if depth ≤ 0 then ⟨false, V3.zero, V3.zero, 0, 0, 0, V3.zero, V3.zero, 0, 0, V3.zero⟩ else
  let k1 := mat1.k23; let k2 := mat2.k23
  let c1 := mat1.c; let c2 := mat2.c
  let s1 := k2 / (k1 + k2)
  let s2 := 1 - s1
  let x := depth
  let contactPt := origin + smul (x * (1 / 2 - s1)) normal
  let k := k1 * s1
  let c := c1 * s1 + c2 * s2
  let fH := e * (4 / 3) * k * x * sqrt (R * k * x)
  let contactPt2 := contactPt - p12
  let vel := v12 + cross w12 contactPt2
  let xdot := -(dot vel normal)
  let velNormal := smul (-xdot) normal
  let velTangent := vel - velNormal
  let fHC := fH * (3 / 2) * c * xdot
  let fNormal := fH + fHC
  if fNormal ≤ 0 then ⟨true, contactPt, V3.zero, 0, 0, 0, V3.zero, velTangent, fH, xdot, vel⟩ else
  let forceH := smul fH normal
  let forceHC := smul fHC normal
  let potentialEnergy := 2 / 5 * fH * x
  let powerHC := fHC * xdot
  let vslipSq := normSq velTangent
  let fricPair : V3 K × K :=
    if signif * signif < vslipSq then
      let vslip := sqrt vslipSq
      let us := combineMu2 mat1.us mat2.us
      let ud := combineMu2 mat1.ud mat2.ud
      let uv := combineMu2 mat1.uv mat2.uv
      let v := vslip * (1 / vtrans)
      let mu := stribeck us ud (uv * vtrans) v
      let fFriction := fNormal * mu
      (smul (-fFriction / vslip) velTangent, fFriction * vslip)
    else (V3.zero, 0)
  let forceLoss := forceHC + fricPair.1
  let forceTotal := forceH + forceLoss
  ⟨true, contactPt, forceTotal, potentialEnergy, powerHC + fricPair.2, fNormal, fricPair.1, velTangent, fH, xdot, vel⟩

/-- `findRelativeVelocity(X_GS1, V_GS1, X_GS2, V_GS2)`: velocity of S2 in S1, expressed in S1 -/
def findRelativeVelocity (X_FA : Pose K) (V_FA : Vel K) (X_FB : Pose K) (V_FB : Vel K) : Vel K :=
  let p_AB_F := X_FB.p - X_FA.p
  let w := V_FB.w - V_FA.w
  let pdot := V_FB.v - V_FA.v
  let v := pdot - cross V_FA.w p_AB_F
  ⟨X_FA.R.tmulVec w, X_FA.R.tmulVec v⟩

/-- `findFrameVelocityInGround(state, X_BS)` -/
def frameVel (X : Pose K) (V : Vel K) (X_BS : Pose K) : Vel K := ⟨V.w, stationVel X V X_BS.p⟩

/-- `CompliantContactSubsystemImpl::realizeSubsystemDynamicsImpl` for one contact force given in Ground:
contact point `cp`, spatial force on surface 2 at the contact point `(m, f)` (`F2cpt`; the moment is zero for the Hertz
generators, non-zero for the elastic-foundation and brick generators): returns (on body 1, on body 2)
`F2 = (m + r2 % f, f)`, `F1 = (-m + r1 % -f, -f)` -/
def compliantApply (cp m f : V3 K) (X1 X2 : Pose K) : SpF K × SpF K :=
  let r1 := cp - X1.p
  let r2 := cp - X2.p
  (⟨-m + cross r1 (-f), -f⟩, ⟨m + cross r2 f, f⟩)

/-! ### SmoothSphereHalfSpaceForce -/
structure SmoothParams (K : Type) where
  stiffness : K
  dissipation : K
  us : K
  ud : K
  uv : K
  vt : K
  cf : K
  bd : K
  bv : K

structure SmoothOut (K : Type) where
  F1 : SpF K      -- on the sphere body
  F2 : SpF K      -- on the half-space body
  pe : K
  indentation : K
  vnormal : K
  fh_smooth : K
  fhc_smooth : K
  fric : V3 K
  vtangent : V3 K
  normal : V3 K

/-- `SmoothSphereHalfSpaceForceImpl::calcForce`; `Xs`,`Vs` sphere body, `Xh`,`Vh` half-space body,
`loc` sphere centre station, `Xhs` half-space frame in its body, `radius` -/
def smoothSphere (sqrt tanh : K → K) (pow : K → K → K) (P : SmoothParams K)
    (Xs Xh : Pose K) (Vs Vh : Vel K) (loc : V3 K) (Xhs : Pose K) (radius : K) : SmoothOut K :=
  let locInHalf := Xh.invApply (Xs.apply loc)
  let dist := locInHalf - Xhs.p
  let indentation := -(dot dist (-(Xhs.R.col0)) - radius)
  let originG := Xs.apply loc
  let normal := Xh.R.mulVec Xhs.R.col0
  let contactPoint := originG + smul radius normal
  let contactPointAdj := contactPoint - smul (1 / 2 * indentation) normal
  let station1 := Xs.invApply contactPointAdj
  let station2 := Xh.invApply contactPointAdj
  let v1 := stationVel Xs Vs station1
  let v2 := stationVel Xh Vh station2
  let v := v1 - v2
  let vnormal := dot v normal
  let vtangent := v - smul vnormal normal
  let k := 1 / 2 * pow P.stiffness (2 / 3)
  let fh_pos := 4 / 3 * k * sqrt (radius * k) * pow (sqrt (indentation * indentation + P.cf)) (3 / 2)
  let fh_smooth := fh_pos * (1 / 2 + 1 / 2 * tanh (P.bd * indentation))
  let pe := 2 / 5 * fh_smooth * indentation
  let c := P.dissipation
  let fhc_pos := fh_smooth * (1 + 3 / 2 * c * vnormal)
  let fhc_smooth := fhc_pos * (1 / 2 + 1 / 2 * tanh (P.bv * (vnormal + 2 / (3 * c))))
  let force0 := smul fhc_smooth normal
  let aux := normSq vtangent + P.cf
  let vslip := sqrt aux
  let vrel := vslip / P.vt
  let ff := fhc_smooth * hollars P.us P.ud P.uv vrel vslip
  let fric := divS (smul ff vtangent) vslip
  let force := force0 + fric
  ⟨applyForceToBodyPoint Xs station1 (-force), applyForceToBodyPoint Xh station2 force, pe,
   indentation, vnormal, fh_smooth, fhc_smooth, fric, vtangent, normal⟩

/-- documented (SmoothSphereHalfSpaceForce.h): `fh_pos = (4/3) k (R k)^(1/2) ((x^2+cf)^(1/2))^(3/2)`,
`fh_smooth = fh_pos (1/2+(1/2)tanh(bd x))`, `fhc_pos = fh_smooth (1+(3/2) c v)`,
`fhc_smooth = fhc_pos (1/2+(1/2) tanh(bv (v+(2/(3 c)))))`, `k = 0.5 E^(2/3)` -/
def docSmoothNormal (sqrt tanh : K → K) (pow : K → K → K) (E c cf bd bv R x v : K) : K :=
  let k := 1 / 2 * pow E (2 / 3)
  let fh_pos := 4 / 3 * k * sqrt (R * k) * pow (sqrt (x * x + cf)) (3 / 2)
  let fh_smooth := fh_pos * (1 / 2 + 1 / 2 * tanh (bd * x))
  let fhc_pos := fh_smooth * (1 + 3 / 2 * c * v)
  fhc_pos * (1 / 2 + 1 / 2 * tanh (bv * (v + 2 / (3 * c))))

/-! ### ExponentialSpringForce, normal force (`calcNormalForce`) -/
structure ExpOut (K : Type) where
  fzElas : K
  fzDamp : K
  fz : K

/-- `ExponentialSpringForceImpl::calcNormalForce`: `pz`,`vz` station height and normal speed in the contact plane -/
def expNormal (exp : K → K) (d0 d1 d2 kvNorm maxNormalForce pz vz : K) : ExpOut K :=
  let fzElas := d1 * exp (-d2 * (pz - d0))
  let fzDamp := -kvNorm * vz * fzElas
  let fz := fzElas + fzDamp
  let o1 : ExpOut K := if fz < 0 then ⟨fzElas, -fzElas, 0⟩ else ⟨fzElas, fzDamp, fz⟩
  if maxNormalForce < o1.fz then ⟨maxNormalForce - o1.fzDamp, o1.fzDamp, maxNormalForce⟩ else o1

/-- `ExponentialSpringForceImpl::calcPotentialEnergy`, normal part: `energy = dataDyn.fzElas / d2`
(`fzElas` as left by the clamps of `calcNormalForce`; the friction-spring term is zero without friction) -/
def expPE (exp : K → K) (d0 d1 d2 kvNorm maxNormalForce pz vz : K) : K :=
  (expNormal exp d0 d1 d2 kvNorm maxNormalForce pz vz).fzElas / d2

/-- strain energy of the exponential spring as a function of the height alone: `d₁exp(−d₂(pz−d₀))/d₂`
(what `expPE` is whenever the cap `maxNormalForce` is not active) -/
def expElasticPE (exp : K → K) (d0 d1 d2 pz : K) : K := d1 * exp (-d2 * (pz - d0)) / d2

/-- documented (ExponentialSpringForce.h): `fz = d₁exp(−d₂(pz−d₀)) (1 − cz vz)` -/
def docExpNormal (exp : K → K) (d0 d1 d2 cz pz vz : K) : K := d1 * exp (-(d2 * (pz - d0))) * (1 - cz * vz)

/-- `ExponentialSpringForceImpl::calcForce`, application: `f_G` on the body at its station, `−f_G` on Ground at the
station's Ground location (`ground.applyForceToBodyPoint(state, p_G, -f_G)`); Ground's pose is the identity -/
def expSpringApply (X : Pose K) (station f_G : V3 K) : SpF K × SpF K :=
  (applyForceToBodyPoint X station f_G, applyAt (X.apply station) (-f_G))

/-- station height and normal speed: `p_P = ~X_GP * p_G`, `v_P = ~R_GP * v_G` -/
def expStationKin (X_GP X : Pose K) (V : Vel K) (station : V3 K) : K × K :=
  ((X_GP.invApply (X.apply station)).z, (X_GP.R.tmulVec (stationVel X V station)).z)
end Contact

end Ops
end ForceLaws
