/-!
# ForceLaws — executable model of simbody's built-in force elements (C12, C13, C37, C38)

Mathlib-free, polymorphic in the scalar `K`: proved over any (linear ordered) field in
`SimbodyProofs/C38.lean`, `C12.lean`, `C13.lean`, `C37.lean`; executed over `Float` by
`SimbodyModel/ForceLawsDriver.lean` (drivers `drv_C12/13/37/38`).

Every `…Force` / `…PE` definition mirrors the corresponding `calcForce` / `calcPotentialEnergy` of
`Simbody/src/Force.cpp`, `Force_Gravity.cpp`, `Force_LinearBushing.cpp`, `HuntCrossleyForce.cpp`,
`ElasticFoundationForce.cpp`, `SmoothSphereHalfSpaceForce.cpp`, `ExponentialSpringForce.cpp`,
`CompliantContactSubsystem.cpp` formula by formula ("exported-kinematics" mode: the inputs are the body
poses `X_GB` and spatial velocities `V_GB` the implementation reports, plus the element's parameters).
Every `doc…` definition is written from the header documentation only
(`Simbody/include/simbody/internal/Force*.h`, `HuntCrossleyForce.h`, …).

`sqrt`, `exp`, `tanh`, `pow` enter as *function parameters* (libm is trusted-base item 7).

Conventions
* `V3`  vectors expressed in Ground unless said otherwise;
* `M33` a rotation matrix by rows, `Pose = (R_GB, p_GB)`, `Vel = (w_GB, v_GB)`;
* `SpF` a spatial force as the C++ accumulates it in `bodyForces[b]`: moment about the body origin and
  force, both expressed in Ground.
-/
namespace ForceLaws

structure V3 (K : Type) where
  x : K
  y : K
  z : K
deriving Repr

/-- 3×3 matrix by rows -/
structure M33 (K : Type) where
  r0 : V3 K
  r1 : V3 K
  r2 : V3 K
deriving Repr

/-- `Transform X_GB`: rotation and origin location -/
structure Pose (K : Type) where
  R : M33 K
  p : V3 K
deriving Repr

/-- `SpatialVec V_GB`: angular velocity and velocity of the body origin, in Ground -/
structure Vel (K : Type) where
  w : V3 K
  v : V3 K
deriving Repr

/-- spatial force accumulated in `bodyForces[b]`: moment about the body origin, force; in Ground -/
structure SpF (K : Type) where
  m : V3 K
  f : V3 K
deriving Repr

/-! ## Jets `K[ε]/(ε²)` (DESIGN §1.3): time derivatives without analysis -/
structure Jet (K : Type) where
  re : K
  eps : K
deriving Repr

section JetInst
variable {K : Type}
instance [Add K] : Add (Jet K) := ⟨fun a b => ⟨a.re + b.re, a.eps + b.eps⟩⟩
instance [Sub K] : Sub (Jet K) := ⟨fun a b => ⟨a.re - b.re, a.eps - b.eps⟩⟩
instance [Neg K] : Neg (Jet K) := ⟨fun a => ⟨-a.re, -a.eps⟩⟩
instance [Add K] [Mul K] : Mul (Jet K) := ⟨fun a b => ⟨a.re * b.re, a.re * b.eps + a.eps * b.re⟩⟩
instance [Sub K] [Mul K] [Div K] : Div (Jet K) :=
  ⟨fun a b => ⟨a.re / b.re, (a.eps * b.re - a.re * b.eps) / (b.re * b.re)⟩⟩
instance [OfNat K 0] [OfNat K n] : OfNat (Jet K) n := ⟨⟨OfNat.ofNat n, 0⟩⟩
/-- branch conditions are decided by the value -/
instance [LT K] : LT (Jet K) := ⟨fun a b => a.re < b.re⟩
instance [LT K] [DecidableLT K] : DecidableLT (Jet K) := fun a b => inferInstanceAs (Decidable (a.re < b.re))
/-- a constant (time-independent parameter) -/
def Jet.const [OfNat K 0] (a : K) : Jet K := ⟨a, 0⟩
/-- jet of `√`: `√(a+εb) = √a + ε b/(2√a)` (side condition `√a ≠ 0` in the theorems) -/
def Jet.sqrt [Mul K] [Div K] [OfNat K 2] (sqrt : K → K) (a : Jet K) : Jet K :=
  ⟨sqrt a.re, a.eps / (2 * sqrt a.re)⟩
end JetInst

section Ops
variable {K : Type} [Add K] [Sub K] [Mul K] [Neg K] [Div K]

namespace V3
instance : Add (V3 K) := ⟨fun a b => ⟨a.x + b.x, a.y + b.y, a.z + b.z⟩⟩
instance : Sub (V3 K) := ⟨fun a b => ⟨a.x - b.x, a.y - b.y, a.z - b.z⟩⟩
instance : Neg (V3 K) := ⟨fun a => ⟨-a.x, -a.y, -a.z⟩⟩
def smul (s : K) (a : V3 K) : V3 K := ⟨s * a.x, s * a.y, s * a.z⟩
def divS (a : V3 K) (s : K) : V3 K := ⟨a.x / s, a.y / s, a.z / s⟩
def dot (a b : V3 K) : K := a.x * b.x + a.y * b.y + a.z * b.z
/-- `a % b` -/
def cross (a b : V3 K) : V3 K := ⟨a.y * b.z - a.z * b.y, a.z * b.x - a.x * b.z, a.x * b.y - a.y * b.x⟩
def normSq (a : V3 K) : K := dot a a
end V3
open V3

namespace M33
/-- `R * v` -/
def mulVec (R : M33 K) (v : V3 K) : V3 K := ⟨dot R.r0 v, dot R.r1 v, dot R.r2 v⟩
/-- `~R * v` -/
def tmulVec (R : M33 K) (v : V3 K) : V3 K := smul v.x R.r0 + smul v.y R.r1 + smul v.z R.r2
def col0 (R : M33 K) : V3 K := ⟨R.r0.x, R.r1.x, R.r2.x⟩
def col1 (R : M33 K) : V3 K := ⟨R.r0.y, R.r1.y, R.r2.y⟩
def col2 (R : M33 K) : V3 K := ⟨R.r0.z, R.r1.z, R.r2.z⟩
def transpose (R : M33 K) : M33 K := ⟨R.col0, R.col1, R.col2⟩
/-- `A * B` -/
def mul (A B : M33 K) : M33 K :=
  ⟨⟨dot A.r0 B.col0, dot A.r0 B.col1, dot A.r0 B.col2⟩,
   ⟨dot A.r1 B.col0, dot A.r1 B.col1, dot A.r1 B.col2⟩,
   ⟨dot A.r2 B.col0, dot A.r2 B.col1, dot A.r2 B.col2⟩⟩
end M33

namespace Pose
/-- `X_GB * s`: location in Ground of station `s` of B -/
def apply (X : Pose K) (s : V3 K) : V3 K := X.p + X.R.mulVec s
/-- `~X_GB * g` (`findStationAtGroundPoint`) -/
def invApply (X : Pose K) (g : V3 K) : V3 K := X.R.tmulVec (g - X.p)
/-- `X_GB * X_BF` -/
def comp (X : Pose K) (Y : Pose K) : Pose K := ⟨X.R.mul Y.R, X.p + X.R.mulVec Y.p⟩
end Pose

variable [OfNat K 0]

def V3.zero : V3 K := ⟨0, 0, 0⟩
def SpF.zero : SpF K := ⟨V3.zero, V3.zero⟩
def SpF.add (a b : SpF K) : SpF K := ⟨a.m + b.m, a.f + b.f⟩
def SpF.neg (a : SpF K) : SpF K := ⟨-a.m, -a.f⟩

/-- `MobilizedBody::findStationVelocityInGround(state, s)` = `v + w % (R*s)` -/
def stationVel (X : Pose K) (V : Vel K) (s : V3 K) : V3 K := V.v + cross V.w (X.R.mulVec s)

/-- the meaning of "a force `F` (in Ground) applied to the point of body B whose offset from the body
origin is `sG` (in Ground)": `MobilizedBody::applyForceToBodyPoint` adds `SpatialVec(sG % F, F)` -/
def applyAt (sG F : V3 K) : SpF K := ⟨cross sG F, F⟩

/-- `MobilizedBody::applyForceToBodyPoint(state, stationInB, F, bodyForces)` -/
def applyForceToBodyPoint (X : Pose K) (station F : V3 K) : SpF K := applyAt (X.R.mulVec station) F

/-- power delivered by a spatial force on a body moving with `V` -/
def SpF.power (F : SpF K) (V : Vel K) : K := dot F.m V.w + dot F.f V.v

/-- the spatial force shifted to the Ground origin: what `Σ` of these must vanish for Newton's third law -/
def SpF.aboutGround (F : SpF K) (X : Pose K) : SpF K := ⟨F.m + cross X.p F.f, F.f⟩

/-- lift of a pose moving with spatial velocity `V`: `Ṙ = [w]× R`, `ṗ = v` (DESIGN §3 item 6) -/
def liftV3 (a da : V3 K) : V3 (Jet K) := ⟨⟨a.x, da.x⟩, ⟨a.y, da.y⟩, ⟨a.z, da.z⟩⟩
def constV3 (a : V3 K) : V3 (Jet K) := ⟨⟨a.x, 0⟩, ⟨a.y, 0⟩, ⟨a.z, 0⟩⟩
def liftPose (X : Pose K) (V : Vel K) : Pose (Jet K) :=
  let c0 := X.R.col0; let c1 := X.R.col1; let c2 := X.R.col2
  let d0 := cross V.w c0; let d1 := cross V.w c1; let d2 := cross V.w c2
  ⟨⟨⟨⟨c0.x, d0.x⟩, ⟨c1.x, d1.x⟩, ⟨c2.x, d2.x⟩⟩,
    ⟨⟨c0.y, d0.y⟩, ⟨c1.y, d1.y⟩, ⟨c2.y, d2.y⟩⟩,
    ⟨⟨c0.z, d0.z⟩, ⟨c1.z, d1.z⟩, ⟨c2.z, d2.z⟩⟩⟩,
   liftV3 X.p V.v⟩

/-! ## Two-point elements (`Force.cpp`) -/
section TwoPoint
variable [OfNat K 1] [OfNat K 2]

/-- `Force::TwoPointLinearSpringImpl::calcForce`: returns (`bodyForces[body1] +=`, `bodyForces[body2] +=`) -/
def tpSpringForce (sqrt : K → K) (k x0 : K) (X1 X2 : Pose K) (s1 s2 : V3 K) : SpF K × SpF K :=
  let s1_G := X1.R.mulVec s1
  let s2_G := X2.R.mulVec s2
  let p1_G := X1.p + s1_G
  let p2_G := X2.p + s2_G
  let r_G := p2_G - p1_G
  let d := sqrt (normSq r_G)
  let stretch := d - x0
  let frcScalar := k * stretch
  let f1_G := smul (frcScalar / d) r_G
  (⟨cross s1_G f1_G, f1_G⟩, ⟨-(cross s2_G f1_G), -f1_G⟩)

/-- `Force::TwoPointLinearSpringImpl::calcPotentialEnergy` -/
def tpSpringPE (sqrt : K → K) (k x0 : K) (X1 X2 : Pose K) (s1 s2 : V3 K) : K :=
  let s1_G := X1.R.mulVec s1
  let s2_G := X2.R.mulVec s2
  let p1_G := X1.p + s1_G
  let p2_G := X2.p + s2_G
  let r_G := p2_G - p1_G
  let d := sqrt (normSq r_G)
  let stretch := d - x0
  k * stretch * stretch / 2

/-- documented law (Force.h): "if d is the unit vector from point1 to point2, and x the current separation,
we have f = k(x-x0) and we apply a force f*d to point1 and -f*d to point2" -/
def docTpSpringForce (sqrt : K → K) (k x0 : K) (X1 X2 : Pose K) (s1 s2 : V3 K) : SpF K × SpF K :=
  let P1 := X1.apply s1
  let P2 := X2.apply s2
  let x := sqrt (normSq (P2 - P1))
  let d := divS (P2 - P1) x
  let f := k * (x - x0)
  (applyAt (P1 - X1.p) (smul f d), applyAt (P2 - X2.p) (-(smul f d)))

/-- documented: "pe = 1/2 k (x-x0)^2" -/
def docTpSpringPE (sqrt : K → K) (k x0 : K) (X1 X2 : Pose K) (s1 s2 : V3 K) : K :=
  let x := sqrt (normSq (X2.apply s2 - X1.apply s1))
  1 / 2 * k * ((x - x0) * (x - x0))

/-- `Force::TwoPointLinearDamperImpl::calcForce` (`UnitVec3 d(p2_G-p1_G)` normalises by the norm) -/
def tpDamperForce (sqrt : K → K) (damping : K) (X1 X2 : Pose K) (V1 V2 : Vel K) (s1 s2 : V3 K) : SpF K × SpF K :=
  let s1_G := X1.R.mulVec s1
  let s2_G := X2.R.mulVec s2
  let p1_G := X1.p + s1_G
  let p2_G := X2.p + s2_G
  let v1_G := stationVel X1 V1 s1
  let v2_G := stationVel X2 V2 s2
  let vRel := v2_G - v1_G
  let r := p2_G - p1_G
  let d := divS r (sqrt (normSq r))
  let frc := damping * dot vRel d
  let f1_G := smul frc d
  (⟨cross s1_G f1_G, f1_G⟩, ⟨-(cross s2_G f1_G), -f1_G⟩)

/-- documented: "If the relative (scalar) velocity between the points is v, then we apply a force of
magnitude f=c*|v| to each point in a direction which opposes their separation" (resists changes in the
distance): on point 1 the force `c v d`, `v = ḋistance`, `d` the unit vector from point 1 to point 2 -/
def docTpDamperForce (sqrt : K → K) (c : K) (X1 X2 : Pose K) (V1 V2 : Vel K) (s1 s2 : V3 K) : SpF K × SpF K :=
  let P1 := X1.apply s1
  let P2 := X2.apply s2
  let x := sqrt (normSq (P2 - P1))
  let d := divS (P2 - P1) x
  let v := dot (stationVel X2 V2 s2 - stationVel X1 V1 s1) d
  (applyAt (P1 - X1.p) (smul (c * v) d), applyAt (P2 - X2.p) (-(smul (c * v) d)))

/-- `Force::TwoPointConstantForceImpl::calcForce` -/
def tpConstForce (sqrt : K → K) (force : K) (X1 X2 : Pose K) (s1 s2 : V3 K) : SpF K × SpF K :=
  let s1_G := X1.R.mulVec s1
  let s2_G := X2.R.mulVec s2
  let p1_G := X1.p + s1_G
  let p2_G := X2.p + s2_G
  let r_G := p2_G - p1_G
  let x := sqrt (normSq r_G)
  let d := divS r_G x
  let f2_G := smul force d
  (⟨-(cross s1_G f2_G), -f2_G⟩, ⟨cross s2_G f2_G, f2_G⟩)

/-- documented: "A positive force acts to separate the points": `+f d` on point 2, `−f d` on point 1 -/
def docTpConstForce (sqrt : K → K) (f : K) (X1 X2 : Pose K) (s1 s2 : V3 K) : SpF K × SpF K :=
  let P1 := X1.apply s1
  let P2 := X2.apply s2
  let d := divS (P2 - P1) (sqrt (normSq (P2 - P1)))
  (applyAt (P1 - X1.p) (-(smul f d)), applyAt (P2 - X2.p) (smul f d))
end TwoPoint

/-! ## One-body constant elements -/

/-- `Force::ConstantForceImpl::calcForce` -/
def constForce (X : Pose K) (station force : V3 K) : SpF K :=
  let station_G := X.R.mulVec station
  ⟨cross station_G force, force⟩

/-- documented: "A constant force applied to a body station. The force is a vector fixed forever in the Ground frame" -/
def docConstForce (X : Pose K) (station force : V3 K) : SpF K := applyAt (X.apply station - X.p) force

/-- `Force::ConstantTorqueImpl::calcForce`: `bodyForces[body][0] += torque` -/
def constTorque (torque : V3 K) : SpF K := ⟨torque, V3.zero⟩

/-! ## Mobility elements: generalized force on one mobility -/
section Mobility
variable [OfNat K 1] [OfNat K 2] [LT K] [DecidableLT K]

/-- `Force::MobilityLinearSpringImpl::calcForce` -/
def mobSpringForce (k q0 q : K) : K := -k * (q - q0)
/-- `Force::MobilityLinearSpringImpl::calcPotentialEnergy` : `k*square(q-q0)/2` -/
def mobSpringPE (k q0 q : K) : K := k * ((q - q0) * (q - q0)) / 2
/-- documented (property statement / Force_MobilityLinearSpring.h): force `-k(q-q0)`, `pe = 1/2 k (q-q0)^2` -/
def docMobSpringForce (k q0 q : K) : K := -(k * (q - q0))
def docMobSpringPE (k q0 q : K) : K := 1 / 2 * k * ((q - q0) * (q - q0))

/-- `Force::MobilityLinearDamperImpl::calcForce` -/
def mobDamperForce (damping u : K) : K := -damping * u
/-- documented: "-c*u" -/
def docMobDamperForce (c u : K) : K := -(c * u)

/-- `Force::MobilityConstantForceImpl::calcForce`, `MobilityDiscreteForceImpl::calcForce` -/
def mobConstForce (f : K) : K := f

def kmin (a b : K) : K := if b < a then b else a     -- std::min(a,b)
def kmax (a b : K) : K := if a < b then b else a     -- std::max(a,b)

/-- `Force::MobilityLinearStopImpl::calcForce`; the test `param.k == 0` is `¬(k<0) ∧ ¬(0<k)`;
`qdot` is what `getOneQDot` returns (the C++ uses 0 instead when `d == 0`, which multiplies to the same) -/
def mobStopForce (k d qLow qHigh q qdot : K) : K :=
  if ¬ (k < 0) ∧ ¬ (0 < k) then 0 else
  let qd : K := if ¬ (d < 0) ∧ ¬ (0 < d) then 0 else qdot
  if qHigh < q then
    let x := q - qHigh
    let fraw := k * x * (1 + d * qd)
    kmin 0 (-fraw)
  else if q < qLow then
    let x := q - qLow
    let fraw := k * x * (1 - d * qd)
    kmax 0 (-fraw)
  else 0

/-- `Force::MobilityLinearStopImpl::calcPotentialEnergy` -/
def mobStopPE (k qLow qHigh q : K) : K :=
  if ¬ (k < 0) ∧ ¬ (0 < k) then 0 else
  if qHigh < q then let x := q - qHigh; k * x * x / 2
  else if q < qLow then let x := q - qLow; k * x * x / 2
  else 0

/-- documented (Force_MobilityLinearStop.h, "Theory"):
```
      {           0,             q_low <= q <= q_high
  f = { min(0, -k*x*(1+d*qdot)), q > q_high, x=q-q_high
      { max(0, -k*x*(1-d*qdot)), q < q_low,  x=q-q_low
``` -/
def docMobStopForce (k d qLow qHigh q qdot : K) : K :=
  if qHigh < q then kmin 0 (-(k * (q - qHigh) * (1 + d * qdot)))
  else if q < qLow then kmax 0 (-(k * (q - qLow) * (1 - d * qdot)))
  else 0

/-- documented stiffness energy `1/2 k x^2` of the engaged stop -/
def docMobStopPE (k qLow qHigh q : K) : K :=
  if qHigh < q then 1 / 2 * k * ((q - qHigh) * (q - qHigh))
  else if q < qLow then 1 / 2 * k * ((q - qLow) * (q - qLow))
  else 0

/-- `Force::GlobalDamperImpl::calcForce`: `mobilityForces -= damping*u` -/
def globalDamperForce (damping : K) (u : List K) : List K := u.map (fun ui => -(damping * ui))
/-- documented: "Each generalized speed u_i feels a force -dampingFactor*u_i" -/
def docGlobalDamperForce (c : K) (u : List K) : List K := u.map (fun ui => -c * ui)

/-- power of mobility forces `Σ fᵢ uᵢ` -/
def mobPower : List K → List K → K
  | f :: fs, u :: us => f * u + mobPower fs us
  | _, _ => 0
end Mobility

/-! ## Gravity -/
section Gravity
variable [OfNat K 1] [LT K] [DecidableLT K]

/-- what the gravity elements read of one mobilized body (Ground excluded): mass, mass centre station,
pose, and (for `Force::Gravity`) the exclusion flag -/
structure GBody (K : Type) where
  mass : K
  com : V3 K
  X : Pose K
  immune : Bool

/-- `Force::UniformGravityImpl::calcForce`, body loop -/
def uniformGravityForce (g : V3 K) (bodies : List (GBody K)) : List (SpF K) :=
  bodies.map fun b =>
    let com_B_G := b.X.R.mulVec b.com
    let frc_G := smul b.mass g
    ⟨cross com_B_G frc_G, frc_G⟩

/-- `Force::UniformGravityImpl::calcPotentialEnergy`: `pe -= m*(~g*com_G + zeroHeight)` -/
def uniformGravityPE (g : V3 K) (zeroHeight : K) (bodies : List (GBody K)) : K :=
  bodies.foldl (fun pe b =>
    let com_B_G := b.X.R.mulVec b.com
    let com_G := b.X.p + com_B_G
    pe - b.mass * (dot g com_G + zeroHeight)) 0

/-- documented (Force.h): "A uniform gravitational force applied to every body in the system … specified by a
vector in the Ground frame": `m g` at each body's mass centre -/
def docUniformGravityForce (g : V3 K) (bodies : List (GBody K)) : List (SpF K) :=
  bodies.map fun b => applyAt (b.X.apply b.com - b.X.p) (smul b.mass g)

/-- documented: "You can optionally specify a height at which the gravitational potential energy is zero":
`Σ m |g| (h − zeroHeight)`, `h` = height of the mass centre along `−g/|g|`, i.e. `−m g·p − m |g| zeroHeight`;
`gmag` is `|g|` -/
def docUniformGravityPE (g : V3 K) (gmag zeroHeight : K) (bodies : List (GBody K)) : K :=
  bodies.foldl (fun pe b => pe + (-(b.mass * dot g (b.X.apply b.com)) - b.mass * gmag * zeroHeight)) 0

/-- `Force::GravityImpl::ensureForceCacheValid` + `calcForce`: `d` down direction, `g` magnitude.
With `g == 0` the precalculated zeros are used; immune bodies keep their precalculated zero. -/
def gravityForce (d : V3 K) (g : K) (bodies : List (GBody K)) : List (SpF K) :=
  if ¬ (g < 0) ∧ ¬ (0 < g) then bodies.map (fun _ => SpF.zero) else
  let gravity := smul g d
  bodies.map fun b =>
    if b.immune then SpF.zero else
    let p_CB_G := b.X.R.mulVec b.com
    let F_CB_G := smul b.mass gravity
    ⟨cross p_CB_G F_CB_G, F_CB_G⟩

/-- `Force::GravityImpl::calcPotentialEnergy` (`fc.pe -= m*(~gravity*p_G_CB + zeroPEOffset)`) -/
def gravityPE (d : V3 K) (g z : K) (bodies : List (GBody K)) : K :=
  if ¬ (g < 0) ∧ ¬ (0 < g) then 0 else
  let gravity := smul g d
  let zeroPEOffset := g * z
  bodies.foldl (fun pe b =>
    if b.immune then pe else
    let p_CB_G := b.X.R.mulVec b.com
    let p_G_CB := b.X.p + p_CB_G
    pe - b.mass * (dot gravity p_G_CB + zeroPEOffset)) 0

/-- documented (Force_Gravity.h): "Each body B that has not been explicitly excluded will experience a force
fb = mb*g*d, applied to its center of mass" -/
def docGravityForce (d : V3 K) (g : K) (bodies : List (GBody K)) : List (SpF K) :=
  bodies.map fun b =>
    if b.immune then SpF.zero else applyAt (b.X.apply b.com - b.X.p) (smul (b.mass * g) d)

/-- documented: "potential energy for a body B is mb*g*hb where … hb=pb*(-d) - hz" -/
def docGravityPE (d : V3 K) (g hz : K) (bodies : List (GBody K)) : K :=
  bodies.foldl (fun pe b =>
    if b.immune then pe else pe + b.mass * g * (dot (b.X.apply b.com) (-d) - hz)) 0
end Gravity

end Ops
end ForceLaws
