import SimbodyModel.TreeDyn
/-!
# C02 — what the correspondence compares (all defined by the shared tree model `TreeDyn`)

`calcAccelerationIgnoringConstraints` = `TreeDyn.forwardDynamics` (`calcUDotPass1Inward/Pass2Outward`),
`calcResidualForceIgnoringConstraints` = `TreeDyn.inverseDynamics`
(`calcBodyAccelerationsFromUdotOutward` + `calcInverseDynamicsPass2Inward`),
`multiplyBySystemJacobianTranspose` = `TreeDyn.multiplyByJT`.
The velocity-dependent bias terms `a` (mobilizer Coriolis acceleration) and `b` (gyroscopic force) are inputs.
-/
namespace C02
open TreeDyn
variable {K : Type} [Add K] [Sub K] [Mul K] [Neg K] [Div K] [OfNat K 0] [OfNat K 1] [OfNat K 2]

/-- body accelerations in body-index order -/
def accelList (r : List (AccNode K)) (bodies : List (Body K)) : List K :=
  bodies.foldr (fun (b : Body K) (acc : List K) =>
    match r.find? (fun (x : AccNode K) => x.body.idx == b.idx) with
    | some x => x.A.toList ++ acc
    | none => acc) []

end C02
