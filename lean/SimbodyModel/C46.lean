/-!
# C46 — determinism and isolation: model (kind D)

Two parts.

1. `Sym` / `Cls`: the vocabulary of the *binary inventory* (`Gen/Statics.lean`, regenerated from the rebuilt libraries
   on every run) and of its hand-reviewed classification.

2. A process-level model of "several simulations and unrelated library calls interleaved in one process":
   the process state is a global part `G` (all static-storage objects) plus one private state per simulation instance
   (`System`, `State`, `Integrator` objects are heap objects owned by the caller).  An operation of instance `i` is
   a function `G → σ → G × σ`: it may read and write the globals and instance `i`'s own objects, nothing else.
   `run` executes a schedule (list of instance ids).  `count` is what the Lean driver predicts for a schedule.
-/
namespace C46

/-- writable output sections that hold static-storage objects -/
inductive Sect
  | data | bss | tdata | tbss
  deriving DecidableEq, Repr

/-- one writable static-storage object of a rebuilt library (normalised, see checks/C46.py).
`key` is the name as a number (`key! "<name>"`, SimbodyModel/C46_key.lean); `name` is carried for the reader. -/
structure Sym where
  lib : String
  sect : Sect
  guard : Bool       -- the `guard variable for` the object `name`
  key : Nat
  leaf : Nat         -- `key!` of the unqualified identifier (text after the last `::`, `.N` dropped)
  name : String
  deriving Repr

/-- a `static` non-const object declaration seen in the library *sources* (regex view, checks/C46.py) -/
structure SrcStatic where
  file : String
  leaf : Nat         -- `key! "<identifier>"`
  fileLeaf : Nat     -- `key! "<file>:<identifier>"`
  name : String
  deriving Repr

/-- reviewed classes of mutable static storage (why the object cannot make one simulation depend on another) -/
inductive Cls
  | constAfterInit     -- written only by static initialisation or a thread-safe first-use initialisation with a value
                       -- that does not depend on the caller; never written afterwards
  | threadScratch      -- thread_local scratch, (re)initialised by its user before every use
  | diagnostics        -- influences only error text / printing / debug output, never a computed result
  | seedCounter        -- consumed only by `Random` objects the user did not seed
  | idCounter          -- monotone counter handing out identities/tags; only compared for equality
  | firstUseId         -- `static const Id id = newId();` fixed at first use from an idCounter, constant afterwards
  | scratchOverwritten -- function-local scratch that its only user fully overwrites before reading
  | xmlOption          -- process-wide XML text-handling option changed only by an explicit API call
  | idempotentRegistry -- lazily filled table whose content is a fixed function of the key (same value whoever fills it)
  | vendoredUnused     -- storage of vendored code paths that Simbody's API never drives (f2c/Fortran interface glue)
  | toolchain          -- C/C++ runtime and linker artefacts (iostream init, dso handle, crtstuff, TLS guards, DW.ref)
  | visualizerIO       -- Visualizer process plumbing (pipes); not part of simulation
  | verifHook          -- exists only in -DSIMBODY_VERIF builds: null/zero by default, written by no library code, only by a
                       -- verification harness that injects values on purpose
  deriving DecidableEq, Repr

/-- what a class asserts about every library operation (the two halves of "cannot make one simulation depend on
another"): `frozen` objects are never written by an operation; `irrelevant` objects may be written, but no
operation's result depends on their current value -/
inductive Role
  | frozen | irrelevant
  deriving DecidableEq, Repr

/-- the role each reviewed class claims.  Lazy first-use initialisation of a `constAfterInit` object is modelled as
already done: its logical value is the (caller-independent) value of its initialiser. -/
def Cls.role : Cls → Role
  | .constAfterInit => .frozen
  | .xmlOption => .frozen            -- changed only by an explicit user call, which is not a simulation operation
  | .vendoredUnused => .frozen
  | .toolchain => .frozen
  | .visualizerIO => .frozen
  | .verifHook => .frozen
  | .threadScratch => .irrelevant
  | .scratchOverwritten => .irrelevant
  | .diagnostics => .irrelevant
  | .seedCounter => .irrelevant      -- for simulations that do not use un-seeded `Random` objects
  | .idCounter => .irrelevant
  | .firstUseId => .irrelevant
  | .idempotentRegistry => .irrelevant

/-! ### interleaved execution -/

/-- process state: globals + private state of every instance -/
structure World (G σ : Type) where
  g : G
  inst : Nat → σ

/-- execute one operation of instance `i` -/
def stepInst {G σ : Type} (op : Nat → G → σ → G × σ) (w : World G σ) (i : Nat) : World G σ :=
  let r := op i w.g (w.inst i)
  { g := r.1, inst := fun k => if k = i then r.2 else w.inst k }

/-- execute a schedule -/
def run {G σ : Type} (op : Nat → G → σ → G × σ) (w : World G σ) (sched : List Nat) : World G σ :=
  sched.foldl (stepInst op) w

/-- the instance alone: `n` operations starting from global state `g` -/
def alone {G σ : Type} (op : Nat → G → σ → G × σ) (i : Nat) : Nat → G → σ → G × σ
  | 0, g, s => (g, s)
  | n + 1, g, s => let r := alone op i n g s; op i r.1 r.2

/-- number of operations instance `i` performs in a schedule (what the driver prints) -/
def count (sched : List Nat) (i : Nat) : Nat := (sched.filter (· == i)).length

end C46
