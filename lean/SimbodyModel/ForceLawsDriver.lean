import SimbodyModel.Proto
import SimbodyModel.ForceLaws
/-!
# Line-protocol driver shared by C12, C13, C37, C38 (`Drivers/C12.lean` … call `ForceLawsDriver.main`)

Every `I <elem> …` record of `harness/ForceLaws.cpp` is echoed and answered by `O <elem> …` computed with the
definitions of `SimbodyModel/ForceLaws.lean` instantiated at `Float` (`sqrt := Float.sqrt`, …).
Integers travel as decimal tokens, doubles as 16-hex-digit bit patterns.
-/
namespace ForceLawsDriver
open Proto ForceLaws ForceLaws.V3

/-- token reader -/
structure Rd where
  toks : Array String
  pos : Nat := 0

abbrev RM := StateM Rd

def tok : RM String := do
  let r ← get
  set { r with pos := r.pos + 1 }
  return r.toks.getD r.pos "0"

def rF : RM Float := do return hexToFloat (← tok)
def rN : RM Nat := do return (← tok).toNat!
def rV3 : RM (V3 Float) := do
  let x ← rF; let y ← rF; let z ← rF
  return ⟨x, y, z⟩
def rM33 : RM (M33 Float) := do
  let a ← rV3; let b ← rV3; let c ← rV3
  return ⟨a, b, c⟩
/-- pose: rotation row-major then origin -/
def rPose : RM (Pose Float) := do
  let R ← rM33; let p ← rV3
  return ⟨R, p⟩
def rVel : RM (Vel Float) := do
  let w ← rV3; let v ← rV3
  return ⟨w, v⟩
def rVec6 : RM (Vec6 Float) := do
  let a ← rV3; let b ← rV3
  return ⟨a, b⟩
def rList (n : Nat) (one : RM α) : RM (List α) := do
  let mut out : Array α := #[]
  for _ in [0:n] do
    out := out.push (← one)
  return out.toList

def v3l (v : V3 Float) : List Float := [v.x, v.y, v.z]
def spfl (F : SpF Float) : List Float := v3l F.m ++ v3l F.f
def v6l (v : Vec6 Float) : List Float := v3l v.r ++ v3l v.t

/-- what the harness prints for a two-body element: `bodyForces[b1]` then `bodyForces[b2]` -/
def pairOut (b1 b2 : Nat) (F : SpF Float × SpF Float) : List Float :=
  if b1 == b2 then let s := SpF.add F.1 F.2; spfl s ++ spfl s else spfl F.1 ++ spfl F.2

def fsqrt : Float → Float := Float.sqrt

def absF (x : Float) : Float := if x < 0 then -x else x
def maxAbs (l : List Float) : Float := l.foldl (fun m x => if absF x > m then absF x else m) 0

def m33l (R : M33 Float) : List Float := v3l R.r0 ++ v3l R.r1 ++ v3l R.r2

def rGBody (withImmune : Bool) : RM (GBody Float) := do
  let m ← rF; let c ← rV3; let X ← rPose
  let im ← if withImmune then rN else pure 0
  return ⟨m, c, X, im != 0⟩

instance : Inhabited (Pose Float × Vel Float) := ⟨(⟨⟨⟨1,0,0⟩,⟨0,1,0⟩,⟨0,0,1⟩⟩, ⟨0,0,0⟩⟩, ⟨⟨0,0,0⟩,⟨0,0,0⟩⟩)⟩

def rHCParams : RM (HCParams Float) := do
  let k ← rF; let c ← rF; let us ← rF; let ud ← rF; let uv ← rF
  return ⟨k, c, us, ud, uv⟩

/-- accumulate a contribution list into per-body totals for bodies `0..nb-1` -/
def totals (nb : Nat) (l : List (Nat × SpF Float)) : List Float :=
  (List.range nb).flatMap fun b => spfl (bodyTotal b l)

/-- the exported part of an `hc` record: number of bodies, transition velocity, body kinematics, contacts -/
def rHCScene : RM (Nat × Float × List (Pose Float × Vel Float) × List (HCContact Float)) := do
    let nscene ← rN; let _ ← rList nscene tok
    let nb ← rN; let vt ← rF
    let kin ← rList (nb + 1) (do let X ← rPose; let V ← rVel; return (X, V))
    let nc ← rN
    let cs ← rList nc (do
      let b1 ← rN; let b2 ← rN; let p1 ← rHCParams; let p2 ← rHCParams
      let loc ← rV3; let n ← rV3; let depth ← rF; let radius ← rF
      let k1 := kin.getD b1 default; let k2 := kin.getD b2 default
      let q1 : HCParams Float := { p1 with stiffness := Float.pow p1.stiffness (2/3) }
      let q2 : HCParams Float := { p2 with stiffness := Float.pow p2.stiffness (2/3) }
      return ({ b1 := b1, b2 := b2, p1 := q1, p2 := q2, c := ⟨loc, n, depth, radius⟩,
                X1 := k1.1, X2 := k2.1, V1 := k1.2, V2 := k2.2 } : HCContact Float))
    return (nb, vt, kin, cs)

/-- the springs of an `ef` record evaluated by the model: per spring the outputs and whether its mesh is on body 1
(role 0) or on the other body (role 1, mesh–mesh contact); `F1` of a spring acts on the body carrying its mesh -/
def rEFScene : RM (Vel Float × Vel Float × List (Nat × EFOut Float)) := do
    let nscene ← rN; let _ ← rList nscene tok
    let vt ← rF
    let _bOther ← rN
    let X1 ← rPose; let V1 ← rVel; let X2 ← rPose; let V2 ← rVel
    let ng ← rN
    let groups ← rList ng (do
      let role ← rN
      let k ← rF; let c ← rF; let us ← rF; let ud ← rF; let uv ← rF
      let ns ← rN
      rList ns (do
        let area ← rF; let np ← rV3; let sp ← rV3
        let o := if role == 0 then efSpring fsqrt vt ⟨k, c, us, ud, uv⟩ area np sp X1 X2 V1 V2
                 else efSpring fsqrt vt ⟨k, c, us, ud, uv⟩ area np sp X2 X1 V2 V1
        return (role, o)))
    return (V1, V2, groups.flatten)

def handle (fn : String) : RM (Option (List Float)) := do
  match fn with
  -- ------------------------------------------------------------------ non-contact elements (C38/C12/C13)
  | "tpSpring" =>
    let _nb ← rN; let b1 ← rN; let b2 ← rN; let k ← rF; let x0 ← rF; let s1 ← rV3; let s2 ← rV3; let X1 ← rPose; let X2 ← rPose
    return some (pairOut b1 b2 (tpSpringForce fsqrt k x0 X1 X2 s1 s2) ++ [tpSpringPE fsqrt k x0 X1 X2 s1 s2])
  | "tpDamper" =>
    let _nb ← rN; let b1 ← rN; let b2 ← rN; let c ← rF; let s1 ← rV3; let s2 ← rV3
    let X1 ← rPose; let V1 ← rVel; let X2 ← rPose; let V2 ← rVel
    return some (pairOut b1 b2 (tpDamperForce fsqrt c X1 X2 V1 V2 s1 s2) ++ [0])
  | "tpConst" =>
    let _nb ← rN; let b1 ← rN; let b2 ← rN; let f ← rF; let s1 ← rV3; let s2 ← rV3; let X1 ← rPose; let X2 ← rPose
    return some (pairOut b1 b2 (tpConstForce fsqrt f X1 X2 s1 s2) ++ [0])
  | "constForce" =>
    let st ← rV3; let f ← rV3; let X ← rPose
    return some (spfl (constForce X st f) ++ [0])
  | "constTorque" =>
    let t ← rV3
    return some (spfl (constTorque t) ++ [0])
  | "mobSpring" =>
    let k ← rF; let q0 ← rF; let q ← rF
    return some [mobSpringForce k q0 q, mobSpringPE k q0 q]
  | "mobDamper" =>
    let c ← rF; let u ← rF
    return some [mobDamperForce c u, 0]
  | "mobConst" =>
    let f ← rF
    return some [mobConstForce f, 0]
  | "mobStop" =>
    let k ← rF; let d ← rF; let lo ← rF; let hi ← rF; let q ← rF; let qd ← rF
    return some [mobStopForce k d lo hi q qd, mobStopPE k lo hi q]
  | "discrete" =>
    -- DiscreteForces: exactly what was set (body force replaced, point force added, mobility force replaced); no energy
    let m ← rV3; let f ← rV3; let st ← rV3; let fp ← rV3; let fm ← rF; let X ← rPose
    let F := SpF.add ⟨m, f⟩ (applyForceToBodyPoint X st fp)
    return some (spfl F ++ [mobConstForce fm, 0])
  | "dissStop" =>
    -- dissipation term of the stop = power + d(PE)/dt, the latter as the jet derivative of the coded energy
    let k ← rF; let d ← rF; let lo ← rF; let hi ← rF; let q ← rF; let qd ← rF
    let rate := (mobStopPE (K := Jet Float) (Jet.const k) (Jet.const lo) (Jet.const hi) ⟨q, qd⟩).eps
    return some [mobStopForce k d lo hi q qd * qd + rate]
  | "globalDamper" =>
    let c ← rF; let n ← rN; let u ← rList n rF
    return some (globalDamperForce c u ++ [0])
  | "uniformGravity" =>
    let g ← rV3; let z ← rF; let nb ← rN; let bs ← rList nb (rGBody false)
    return some ((uniformGravityForce g bs).flatMap spfl ++ [uniformGravityPE g (Float.sqrt (dot g g)) z bs])
  | "gravity" =>
    let d ← rV3; let g ← rF; let z ← rF; let nb ← rN; let bs ← rList nb (rGBody true)
    return some ((gravityForce d g bs).flatMap spfl ++ [gravityPE d g z bs])
  | "bushing" =>
    let _nb ← rN; let b1 ← rN; let b2 ← rN
    let X1 ← rPose; let V1 ← rVel; let X2 ← rPose; let V2 ← rVel
    let XF ← rPose; let XM ← rPose; let k ← rVec6; let c ← rVec6; let qr ← rV3
    let cq : V3 Float := ⟨Float.cos qr.x, Float.cos qr.y, Float.cos qr.z⟩
    let sq : V3 Float := ⟨Float.sin qr.x, Float.sin qr.y, Float.sin qr.z⟩
    let o := bushing X1 X2 V1 V2 XF XM k c qr cq sq
    -- consistency of the supplied Euler angles with the model's own R_FM
    let Rq := bodyXYZ cq sq
    let resid := maxAbs ((m33l Rq).zipWith (· - ·) (m33l o.X_FM.R))
    return some (pairOut b1 b2 (o.F_GB1, o.F_GB2) ++ [o.pe, o.power] ++ v6l o.q ++ v6l o.qdot ++ v6l o.f ++ [resid])
  | "pc" => return some [0]
  -- ------------------------------------------------------------------ compliant contact (C37/C12/C13)
  | "hc" =>
    let (nb, vt, _kin, cs) ← rHCScene
    return some (totals (nb + 1) (hcLoop fsqrt vt cs) ++ [hcPE fsqrt vt cs])
  | "dissHC" =>
    -- power of the model's body forces + Σ fH·vnormal (= d(PE)/dt at fixed contact geometry, theorem hertzPE_rate)
    let (_nb, vt, kin, cs) ← rHCScene
    let power := (hcLoop fsqrt vt cs).foldl (fun a e => a + e.2.power (kin.getD e.1 default).2) 0
    let rate := cs.foldl (fun a h => let o := hcContact fsqrt vt h; a + o.fH * o.vnormal) 0
    return some [power + rate]
  | "smooth" =>
    let _bs ← rN; let _bh ← rN
    let st ← rF; let di ← rF; let us ← rF; let ud ← rF; let uv ← rF; let vt ← rF; let cf ← rF; let bd ← rF; let bv ← rF
    let radius ← rF; let loc ← rV3; let Xhs ← rPose
    let Xs ← rPose; let Vs ← rVel; let Xh ← rPose; let Vh ← rVel
    let o := smoothSphere fsqrt Float.tanh Float.pow ⟨st, di, us, ud, uv, vt, cf, bd, bv⟩ Xs Xh Vs Vh loc Xhs radius
    return some (spfl o.F1 ++ spfl o.F2 ++ [o.pe])
  | "expn" =>
    let d0 ← rF; let d1 ← rF; let d2 ← rF; let cz ← rF; let maxF ← rF; let _mus ← rF; let _muk ← rF
    let station ← rV3; let XP ← rPose; let X ← rPose; let V ← rVel
    let (pz, vz) := expStationKin XP X V station
    let o := expNormal Float.exp d0 d1 d2 cz maxF pz vz
    return some [o.fzElas, o.fzDamp, o.fz]
  | "ef" =>
    let (_, _, outs) ← rEFScene
    let onB1 := outs.foldl (fun a e => SpF.add a (if e.1 == 0 then e.2.F1 else e.2.F2)) SpF.zero
    let onB2 := outs.foldl (fun a e => SpF.add a (if e.1 == 0 then e.2.F2 else e.2.F1)) SpF.zero
    let pe := outs.foldl (fun a e => a + e.2.pe) 0
    return some (spfl onB1 ++ spfl onB2 ++ [pe])
  | "dissEF" =>
    -- Σ over springs: power + k a x·vnormal, with k a x = 2 pe / x (x ≠ 0), written through the model's outputs
    let (V1, V2, outs) ← rEFScene
    let d := outs.foldl (fun a e =>
      let o := e.2
      let kax := if o.x == 0 then 0 else 2 * o.pe / o.x
      let p := if e.1 == 0 then o.F1.power V1 + o.F2.power V2 else o.F1.power V2 + o.F2.power V1
      a + p + kax * o.vnormal) 0
    return some [d]
  | "expnPE" =>
    let d0 ← rF; let d1 ← rF; let d2 ← rF; let cz ← rF; let maxF ← rF; let _mus ← rF; let _muk ← rF
    let station ← rV3; let XP ← rPose; let X ← rPose; let V ← rVel
    let (pz, vz) := expStationKin XP X V station
    let o := expNormal Float.exp d0 d1 d2 cz maxF pz vz
    return some [o.fzElas, o.fzDamp, o.fz, expPE Float.exp d0 d1 d2 cz maxF pz vz]
  | "cable" =>
    let k ← rF; let c ← rF; let L0 ← rF; let L ← rF; let Ld ← rF
    let o := cableSpring k c L0 L Ld
    return some [o.f, o.powerLoss, o.pe]
  | "hertz" =>
    let nscene ← rN; let _ ← rList nscene tok
    let nb ← rN; let vtrans ← rF; let signif ← rF
    let kin ← rList (nb + 1) (do let X ← rPose; let V ← rVel; return (X, V))
    let nc ← rN
    let res ← rList nc (do
      let b1 ← rN; let b2 ← rN; let XBS1 ← rPose; let XBS2 ← rPose
      let rMat : RM (HertzMat Float) := do
        let k ← rF; let c ← rF; let us ← rF; let ud ← rF; let uv ← rF
        return ⟨Float.pow k (2/3), c, us, ud, uv⟩
      let m1 ← rMat; let m2 ← rMat
      let normal ← rV3; let origin ← rV3; let depth ← rF; let R ← rF
      let k1 := kin.getD b1 default; let k2 := kin.getD b2 default
      let X_GS1 := k1.1.comp XBS1; let X_GS2 := k2.1.comp XBS2
      let V_GS1 := frameVel k1.1 k1.2 XBS1; let V_GS2 := frameVel k2.1 k2.2 XBS2
      let V12 := findRelativeVelocity X_GS1 V_GS1 X_GS2 V_GS2
      -- X_S1S2.p = ~X_GS1 * p_GS2
      let p12 := X_GS1.invApply X_GS2.p
      let o := hertzContact fsqrt signif vtrans m1 m2 normal origin depth p12 V12.w V12.v R 1
      let cpG := X_GS1.apply o.contactPt
      let fG := X_GS1.R.mulVec o.force
      let ap := compliantApply cpG V3.zero fG k1.1 k2.1
      return (o.valid, v3l cpG ++ v3l fG ++ [o.pe, o.powerLoss], [(b1, ap.1), (b2, ap.2)], o.pe))
    let valid := res.filter (·.1)
    return some (valid.flatMap (·.2.1) ++ totals (nb + 1) (valid.flatMap (·.2.2.1)) ++ [valid.foldl (fun a r => a + r.2.2.2) 0])
  | _ => return none

def main : IO Unit := do
  let lines ← readStdinLines
  let out ← IO.getStdout
  for ln in lines do
    match tokens ln with
    | "I" :: fn :: args =>
      out.putStrLn ln.trimAscii.toString
      let (r, _) := (handle fn).run { toks := args.toArray }
      match r with
      | some xs => out.putStrLn (fmtFloats ("O " ++ fn) xs)
      | none => out.putStrLn ("O " ++ fn ++ " ERR")
    | _ => pure ()

end ForceLawsDriver
