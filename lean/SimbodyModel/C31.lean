import SimbodyModel.Gen.SFMTParams
/-!
# C31 — SFMT-19937 and `SimTK::Random` (kind D: bit-exact; Mathlib-free)

Mirrors, function by function, the *standard C* path (no `HAVE_SSE2`, no `HAVE_ALTIVEC`, little
endian, no `ONLY64`) of `/repo/SimTKcommon/Random/src/SFMT.cpp` and
`/repo/SimTKcommon/Random/src/Random.cpp`.  The SFMT parameters are **not** written here: they come
from `SimbodyModel/Gen/SFMTParams.lean`, regenerated from the source header on every run.

* state: `Array UInt32` of `N32 = 624` words; 128-bit word `i` is words `4i … 4i+3` (`w128_t.u[0..3]`);
* `rshift128 / lshift128 / doRecursion / genRandAll / genRandArray / periodCertification /
  initGenRand / genRand32 / genRand64 / fillArray64` = the C functions of the same name;
* `to_res53` (SFMT.h): `v * (1.0/18446744073709551616.0L)` returned as `double`, i.e. the binary64
  round-to-nearest-even of `v`, times `2⁻⁶⁴` (the `long double` product is exact): `roundTo53`;
* `Random::RandomImpl` (1024-entry buffer refilled by `fill_array64`), `UniformImpl`, `GaussianImpl`
  polymorphic in the scalar `K` (executed at `Float`, proved over ordered fields / `ℚ`);
* `roundNearestEven : Rat → Rat`, the exact model of binary64 rounding in the normal range, used for
  the boundary witnesses (finding F8).
-/
namespace C31
open C31.Gen

/-! ## SFMT.cpp -/

/-- `N = MEXP/128 + 1` 128-bit words -/
def N : Nat := MEXP / 128 + 1
def N32 : Nat := N * 4
def N64 : Nat := N * 2

/-- `w128_t` (standard C variant: `uint32_t u[4]`) -/
structure W128 where
  u0 : UInt32
  u1 : UInt32
  u2 : UInt32
  u3 : UInt32
deriving DecidableEq, Repr, Inhabited

@[inline] def cat64 (hi lo : UInt32) : UInt64 := (hi.toUInt64 <<< 32) ||| lo.toUInt64

/-- `rshift128(out, in, shift)`: 128-bit right shift by `shift*8` bits (little-endian lanes); `0 < shift < 8` -/
def rshift128 (x : W128) (shift : Nat) : W128 :=
  let th := cat64 x.u3 x.u2
  let tl := cat64 x.u1 x.u0
  let s : UInt64 := (shift * 8).toUInt64
  let oh := th >>> s
  let ol := (tl >>> s) ||| (th <<< (64 - s))
  ⟨ol.toUInt32, (ol >>> 32).toUInt32, oh.toUInt32, (oh >>> 32).toUInt32⟩

/-- `lshift128(out, in, shift)` -/
def lshift128 (x : W128) (shift : Nat) : W128 :=
  let th := cat64 x.u3 x.u2
  let tl := cat64 x.u1 x.u0
  let s : UInt64 := (shift * 8).toUInt64
  let oh := (th <<< s) ||| (tl >>> (64 - s))
  let ol := tl <<< s
  ⟨ol.toUInt32, (ol >>> 32).toUInt32, oh.toUInt32, (oh >>> 32).toUInt32⟩

/-- `do_recursion(r, a, b, c, d)` (the `#else` branch: not `ONLY64`) -/
def doRecursion (a b c d : W128) : W128 :=
  let x := lshift128 a SL2
  let y := rshift128 c SR2
  let sr1 := SR1.toUInt32
  let sl1 := SL1.toUInt32
  ⟨a.u0 ^^^ x.u0 ^^^ ((b.u0 >>> sr1) &&& MSK1) ^^^ y.u0 ^^^ (d.u0 <<< sl1),
   a.u1 ^^^ x.u1 ^^^ ((b.u1 >>> sr1) &&& MSK2) ^^^ y.u1 ^^^ (d.u1 <<< sl1),
   a.u2 ^^^ x.u2 ^^^ ((b.u2 >>> sr1) &&& MSK3) ^^^ y.u2 ^^^ (d.u2 <<< sl1),
   a.u3 ^^^ x.u3 ^^^ ((b.u3 >>> sr1) &&& MSK4) ^^^ y.u3 ^^^ (d.u3 <<< sl1)⟩

@[inline] def getW (st : Array UInt32) (i : Nat) : W128 :=
  ⟨st[4 * i]!, st[4 * i + 1]!, st[4 * i + 2]!, st[4 * i + 3]!⟩

@[inline] def setW (st : Array UInt32) (i : Nat) (w : W128) : Array UInt32 :=
  (((st.set! (4 * i) w.u0).set! (4 * i + 1) w.u1).set! (4 * i + 2) w.u2).set! (4 * i + 3) w.u3

@[inline] def pushW (st : Array UInt32) (w : W128) : Array UInt32 :=
  (((st.push w.u0).push w.u1).push w.u2).push w.u3

/-- index of operand `b` in `gen_rand_all`: `i + POS1` in the first loop, `i + POS1 - N` in the second -/
def idxB (i : Nat) : Nat := if i < N - POS1 then i + POS1 else i + POS1 - N

/-- one iteration of either loop of `gen_rand_all` (in place; `r1`,`r2` carried by value, which equals the
pointer semantics of the C code because `sfmt[N-2]`, `sfmt[N-1]` are overwritten only in the last two
iterations, when `r1`,`r2` no longer point at them) -/
def genRandAllStep (acc : Array UInt32 × W128 × W128) (i : Nat) : Array UInt32 × W128 × W128 :=
  let (st, r1, r2) := acc
  let r := doRecursion (getW st i) (getW st (idxB i)) r1 r2
  (setW st i r, r2, r)

/-- `gen_rand_all(data)` -/
def genRandAll (st : Array UInt32) : Array UInt32 :=
  ((List.range N).foldl genRandAllStep (st, getW st (N - 2), getW st (N - 1))).1

/-- one iteration of the four recursion loops of `gen_rand_array` (their bodies differ only in where
operands `a` and `b` live; `arr` holds the `i` words generated so far):
loop 1 (`i < N-POS1`): `a = sfmt[i]`, `b = sfmt[i+POS1]`; loop 2 (`i < N`): `a = sfmt[i]`, `b = array[i+POS1-N]`;
loops 3,4 (`i ≥ N`): `a = array[i-N]`, `b = array[i+POS1-N]`. -/
def genRandArrayStep (st : Array UInt32) (acc : Array UInt32 × W128 × W128) (i : Nat) :
    Array UInt32 × W128 × W128 :=
  let (arr, r1, r2) := acc
  let a := if i < N then getW st i else getW arr (i - N)
  let b := if i < N - POS1 then getW st (i + POS1) else getW arr (i + POS1 - N)
  let r := doRecursion a b r1 r2
  (pushW arr r, r2, r)

/-- `gen_rand_array(array, size, data)` (`size ≥ N` 128-bit words): returns the filled array (as `4·size`
32-bit words) and the new state `sfmt[j] = array[j + size - N]` -/
def genRandArray (st : Array UInt32) (size : Nat) : Array UInt32 × Array UInt32 :=
  let arr := ((List.range size).foldl (genRandArrayStep st)
                (Array.mkEmpty (4 * size), getW st (N - 2), getW st (N - 1))).1
  (arr, arr.extract (4 * (size - N)) (4 * size))

/-- the xor-fold `for (i = 16; i > 0; i >>= 1) inner ^= inner >> i; inner &= 1` (the C variable is a
signed `int`; an arithmetic shift changes only bits above those that reach bit 0, so bit 0 is the parity
of the 32 bits either way) -/
def parityFold (x : UInt32) : UInt32 :=
  let x := x ^^^ (x >>> 16)
  let x := x ^^^ (x >>> 8)
  let x := x ^^^ (x >>> 4)
  let x := x ^^^ (x >>> 2)
  let x := x ^^^ (x >>> 1)
  x &&& 1

def parityVec : List UInt32 := [PARITY1, PARITY2, PARITY3, PARITY4]

/-- the `inner` value computed at the top of `period_certification` -/
def parityInner (st : Array UInt32) : UInt32 :=
  parityFold ((st[0]! &&& PARITY1) ^^^ (st[1]! &&& PARITY2) ^^^ (st[2]! &&& PARITY3) ^^^ (st[3]! &&& PARITY4))

/-- lowest set bit position search of the modification loop: first `(i, work)` with `work & parity[i] ≠ 0` -/
def firstParityBit : Option (Nat × UInt32) :=
  let cands := (List.range 4).flatMap (fun i => (List.range 32).map (fun j => (i, (1 : UInt32) <<< j.toUInt32)))
  cands.find? (fun (i, work) => (work &&& parityVec[i]!) != 0)

/-- `period_certification(data)` -/
def periodCertification (st : Array UInt32) : Array UInt32 :=
  if parityInner st == 1 then st
  else match firstParityBit with
    | some (i, work) => st.set! i (st[i]! ^^^ work)
    | none => st

structure SFMT where
  st : Array UInt32
  idx : Nat
deriving DecidableEq, Repr

def initStep (acc : Array UInt32 × UInt32) (i : Nat) : Array UInt32 × UInt32 :=
  let (st, prev) := acc
  let v : UInt32 := (1812433253 : UInt32) * (prev ^^^ (prev >>> 30)) + i.toUInt32
  (st.push v, v)

/-- `init_gen_rand(seed, data)` -/
def initGenRand (seed : UInt32) : SFMT :=
  let st := ((List.range (N32 - 1)).foldl (fun acc k => initStep acc (k + 1))
              ((Array.mkEmpty N32).push seed, seed)).1
  ⟨periodCertification st, N32⟩

/-- `gen_rand32(data)` -/
def genRand32 (s : SFMT) : UInt32 × SFMT :=
  let s := if s.idx ≥ N32 then { st := genRandAll s.st, idx := 0 } else s
  (s.st[s.idx]!, { s with idx := s.idx + 1 })

/-- `gen_rand64(data)` (`psfmt64[idx/2]`, little endian; requires even `idx`) -/
def genRand64 (s : SFMT) : UInt64 × SFMT :=
  let s := if s.idx ≥ N32 then { st := genRandAll s.st, idx := 0 } else s
  (cat64 s.st[s.idx + 1]! s.st[s.idx]!, { s with idx := s.idx + 2 })

/-- pairs of 32-bit words as little-endian 64-bit words -/
def to64 (a : Array UInt32) : Array UInt64 :=
  (List.range (a.size / 2)).foldl (fun o k => o.push (cat64 a[2 * k + 1]! a[2 * k]!)) (Array.mkEmpty (a.size / 2))

/-- `fill_array64(array, size, data)` (`size` even, `≥ N64`, `idx = N32`) -/
def fillArray64 (s : SFMT) (size : Nat) : Array UInt64 × SFMT :=
  let (arr, st') := genRandArray s.st (size / 2)
  (to64 arr, { st := st', idx := N32 })

/-- `fill_array32(array, size, data)` (`size` multiple of 4, `≥ N32`) -/
def fillArray32 (s : SFMT) (size : Nat) : Array UInt32 × SFMT :=
  let (arr, st') := genRandArray s.st (size / 4)
  (arr, { st := st', idx := N32 })

/-! ## `to_res53` -/

/-- binary64 round-to-nearest-even of a natural number `v` (as a natural number; `v < 2¹⁰²⁴`) -/
def roundTo53 (v : Nat) : Nat :=
  if v < 2 ^ 53 then v else
  let e := v.log2 - 52
  let q := v / 2 ^ e
  let r := v % 2 ^ e
  let half := 2 ^ (e - 1)
  let q' := if r > half ∨ (r = half ∧ q % 2 = 1) then q + 1 else q
  q' * 2 ^ e

/-- numerator over `2⁶⁴` of `to_res53(v)` -/
def res53Num (v : UInt64) : Nat := roundTo53 v.toNat

/-- exact conversion of a `res53Num` to `Float` (the numerator has ≤ 53 significant bits and is ≤ 2⁶⁴) -/
def res53ToFloat (n : Nat) : Float :=
  -- `UInt64.toFloat` is the hardware conversion (exact here: ≤ 53 significant bits); `Float.ofNat` is avoided
  -- because it runs Lean's software float model.  `0x3bf0000000000000` is 2⁻⁶⁴.
  if n ≥ 2 ^ 64 then 1.0 else n.toUInt64.toFloat * Float.ofBits 0x3bf0000000000000

/-- exact conversion to `Rat` -/
def res53ToRat (n : Nat) : Rat := mkRat (Int.ofNat n) (2 ^ 64)

/-! ## Random.cpp -/

def bufferSize : Nat := 1024

/-- `Random::RandomImpl` (the discrete part: SFMT state, buffer, `nextIndex`) -/
structure RandomImpl where
  sfmt : SFMT
  buffer : Array UInt64
  nextIndex : Nat
deriving DecidableEq, Repr

/-- `RandomImpl::setSeed(int seed)` (`seed` already converted to `uint32_t`); the buffer keeps its stale contents -/
def RandomImpl.setSeed (g : RandomImpl) (seed : UInt32) : RandomImpl :=
  { g with nextIndex := bufferSize, sfmt := initGenRand seed }

/-- a freshly constructed generator seeded with `seed` (constructor: `init_gen_rand(++nextSeed)`) -/
def RandomImpl.new (seed : UInt32) : RandomImpl :=
  ⟨initGenRand seed, Array.replicate bufferSize 0, bufferSize⟩

/-- the raw 64-bit word consumed by `getNextRandom()` -/
def RandomImpl.nextRaw (g : RandomImpl) : UInt64 × RandomImpl :=
  let g := if g.nextIndex ≥ bufferSize then
      let (buf, s) := fillArray64 g.sfmt bufferSize
      { sfmt := s, buffer := buf, nextIndex := 0 }
    else g
  (g.buffer[g.nextIndex]!, { g with nextIndex := g.nextIndex + 1 })

/-- the first `n` raw words -/
def RandomImpl.rawDraws : Nat → RandomImpl → List UInt64
  | 0, _ => []
  | n + 1, g => let (v, g') := g.nextRaw; v :: rawDraws n g'

section Scalar
variable {K : Type} [Add K] [Sub K] [Mul K] [Neg K] [Div K] [OfNat K 0] [OfNat K 1] [OfNat K 2]
  [LT K] [DecidableLT K] [LE K] [DecidableLE K] [BEq K]

/-- `Random::Uniform::UniformImpl` -/
structure Uniform (K : Type) where
  rng : RandomImpl
  min : K
  max : K
  range : K

/-- `UniformImpl(min, max)`: `range(max-min)` -/
def Uniform.new (seed : UInt32) (min max : K) : Uniform K := ⟨RandomImpl.new seed, min, max, max - min⟩
def Uniform.setMin (u : Uniform K) (v : K) : Uniform K := { u with min := v, range := u.max - v }
def Uniform.setMax (u : Uniform K) (v : K) : Uniform K := { u with max := v, range := v - u.min }
def Uniform.setSeed (u : Uniform K) (seed : UInt32) : Uniform K := { u with rng := u.rng.setSeed seed }

/-- the formula of `UniformImpl::getValue`: `min + getNextRandom()*range` -/
@[inline] def uniformFormula (min range u : K) : K := min + u * range

/-- `UniformImpl::getValue()`; `cv` converts the `to_res53` numerator to the scalar type -/
def Uniform.getValue (cv : Nat → K) (u : Uniform K) : K × Uniform K :=
  let (raw, g) := u.rng.nextRaw
  (uniformFormula u.min u.range (cv (res53Num raw)), { u with rng := g })

/-- `Random::Uniform::getIntValue()`: `(int) std::floor(getImpl().getValue())`; `floorI` is `floor` followed by the
conversion to `int` (exact for |value| < 2³¹) -/
def Uniform.getIntValue (cv : Nat → K) (floorI : K → Int) (u : Uniform K) : Int × Uniform K :=
  let (v, u') := u.getValue cv
  (floorI v, u')

/-- `GaussianImpl` -/
structure Gaussian (K : Type) where
  rng : RandomImpl
  mean : K
  stddev : K
  nextGaussian : K
  nextGaussianIsValid : Bool

def Gaussian.new (seed : UInt32) (mean stddev : K) : Gaussian K := ⟨RandomImpl.new seed, mean, stddev, 0, false⟩

/-- `GaussianImpl::setSeed`: reseeds and drops the cached second value -/
def Gaussian.setSeed (g : Gaussian K) (seed : UInt32) : Gaussian K :=
  { g with rng := g.rng.setSeed seed, nextGaussianIsValid := false }

/-- the `do { … } while (r2 >= 1.0 || r2 == 0.0)` loop; `fuel` bounds the number of iterations
(each iteration is accepted with probability π/4; the drivers use 1000) -/
def polarLoop (cv : Nat → K) : Nat → RandomImpl → Option (K × K × K) × RandomImpl
  | 0, g => (none, g)
  | fuel + 1, g =>
    let (ra, g) := g.nextRaw
    let (rb, g) := g.nextRaw
    let x : K := 2 * cv (res53Num ra) - 1
    let y : K := 2 * cv (res53Num rb) - 1
    let r2 : K := x * x + y * y
    if r2 ≥ 1 || r2 == 0 then polarLoop cv fuel g else (some (x, y, r2), g)

/-- `GaussianImpl::getValue()`; `log`, `sqrt` are parameters (libm) -/
def Gaussian.getValue (cv : Nat → K) (log sqrt : K → K) (fuel : Nat) (g : Gaussian K) : K × Gaussian K :=
  if g.nextGaussianIsValid then
    (g.mean + g.stddev * g.nextGaussian, { g with nextGaussianIsValid := false })
  else
    match polarLoop cv fuel g.rng with
    | (some (x, y, r2), rng) =>
      let multiplier := sqrt ((-2 * log r2) / r2)
      (g.mean + g.stddev * x * multiplier,
       { g with rng := rng, nextGaussian := y * multiplier, nextGaussianIsValid := true })
    | (none, rng) => (g.mean, { g with rng := rng, nextGaussian := 0, nextGaussianIsValid := false })

end Scalar

/-! ## exact binary64 rounding on `ℚ` (normal range) -/

def pow2 (e : Int) : Rat := if e ≥ 0 then (2 : Rat) ^ e.toNat else 1 / (2 : Rat) ^ (-e).toNat

/-- `⌊log₂ x⌋` for `x > 0` -/
def ilog2 (x : Rat) : Int :=
  let d : Int := (x.num.toNat.log2 : Int) - (x.den.log2 : Int)
  if pow2 d ≤ x then d else d - 1

/-- round to nearest, ties to even, to a 53-bit significand with unbounded exponent: exact binary64
rounding whenever `2⁻¹⁰²² ≤ |x|` and the result is `< 2¹⁰²⁴` -/
def roundNearestEven (x : Rat) : Rat :=
  if x = 0 then 0 else
  let a := if x < 0 then -x else x
  let ulp := pow2 (ilog2 a - 52)
  let q := a / ulp
  let n := q.floor
  let f := q - n
  let n' : Int := if f > 1 / 2 ∨ (f = 1 / 2 ∧ n % 2 = 1) then n + 1 else n
  let r := (n' : Rat) * ulp
  if x < 0 then -r else r

/-- the rounded evaluation of `min + u*(max-min)` exactly as `UniformImpl` computes it in binary64 -/
def uniformFl (min max u : Rat) : Rat :=
  let fl := roundNearestEven
  fl (min + fl (u * fl (max - min)))

end C31
