import SimbodyModel.C33
/-!
# C33 — parallel executors, part 2: `ParallelExecutor` as a labelled transition system

Transcribed from `SimTKcommon/src/ParallelExecutor.cpp` (`ParallelExecutorImpl::execute`, `~ParallelExecutorImpl`,
`incrementWaitingThreads`, `threadBody`) for `numMaxThreads = n ≥ 2` (the branch that uses threads).

* one *caller* thread (`Tid.main`) that issues the `execute(task, times)` calls listed in `todo` and then runs the
  destructor; `n` worker threads (`Tid.worker w`, `w < n`) running `threadBody`;
* `std::mutex runMutex` = `mutex : Option Tid` (owner); a `lock()` step is enabled only when it is `none`;
* `condition_variable::wait(lock, pred)` = `while (!pred()) wait(lock)`: program counter `waitChk` evaluates the
  predicate holding the mutex and either proceeds or releases the mutex and becomes `blocked`;  a `blocked` thread
  moves to `reacq` when notified (`notify_all`/`notify_one`) or by a *spurious wake-up* (`Act.spurious`), then
  re-acquires the mutex and evaluates the predicate again;
* variables exactly as in the code: `finished`, `running[i]` (`ThreadInfo::running`), `currentTaskCount`
  (`count`), `waitingThreadCount` (`waiting`), the workers' locals `index`, `count`;
* user callbacks have a duration where it matters: `inExec` = inside `task.execute(index)`, `inFin` = inside
  `task.finish()` (called by `incrementWaitingThreads` holding the mutex);
* unlocked accesses are modelled as such (no mutex needed for the step): the reads of `finished` in the two loop
  tests (finding F9) and the write `info.running = false`;
* ghost state (never read by a step): per-worker callback log of the current `execute`, `counted`, and `hist`
  (snapshot of the logs taken when `execute` returns).

A schedule is a `List Act`; `run` applies it (disabled actions are skipped), so every interleaving, with spurious
wake-ups anywhere, is a schedule.
-/
namespace C33.PE

inductive Tid
  | main
  | worker (w : Nat)
deriving DecidableEq, Repr

/-- worker program counter (one value per shared-memory access / callback boundary of `threadBody`) -/
inductive WPc
  | loopTest   -- `while (!executor.isFinished())`             (unlocked read)
  | lockAcq    -- `std::unique_lock<std::mutex> lock(mutex)`
  | waitChk    -- holding the mutex: predicate `info.running`
  | blocked    -- inside `runCondition.wait`, mutex released
  | reacq      -- woken: re-acquire the mutex
  | unlock1    -- `lock.unlock()`
  | test2      -- `if (!executor.isFinished())`; `count = getCurrentTaskCount()`   (unlocked reads)
  | init       -- `task.initialize(); index = info.index`
  | exec       -- `while (index < count)`
  | inExec     -- inside `task.execute(index)`; then `index += threadCount`
  | clearRun   -- `info.running = false`                        (unlocked write)
  | finLock    -- `incrementWaitingThreads`: `lock_guard`
  | inFin      -- inside `task.finish()` holding the mutex; then `waitingThreadCount++`, notify, unlock
  | done       -- `threadBody` returned
deriving DecidableEq, Repr

/-- caller program counter -/
inductive MPc
  | idle       -- between API calls
  | lock       -- `execute`: `unique_lock lock(runMutex)`
  | setup      -- holding: `currentTask/Count = …; waitingThreadCount = 0; running[*] = true; notify_all()`
  | waitChk    -- holding: predicate `waitingThreadCount == threads.size()`
  | blocked    -- inside `waitCondition.wait`
  | reacq
  | dLock      -- destructor: lock
  | dSet       -- `finished = true; running[*] = true; notify_all(); unlock()`
  | join       -- `threads[i].join()` for all i
  | final
deriving DecidableEq, Repr

/-- user callbacks of one worker (logged on completion) -/
inductive WEv
  | init
  | exec (i : Nat)
  | fin
deriving DecidableEq, Repr

inductive Act
  | step (t : Tid)
  | spurious (t : Tid)
deriving DecidableEq, Repr

def upd {α : Type} (f : Nat → α) (i : Nat) (v : α) : Nat → α := fun j => if j = i then v else f j

/-- everything that belongs to one worker thread: its `ThreadInfo::running` flag (shared with the caller), its
program counter and locals, and two ghost components -/
structure Worker where
  pc : WPc
  /-- `ThreadInfo::running` -/
  running : Bool
  /-- local `index` -/
  idx : Nat
  /-- local `count` -/
  cnt : Nat
  /-- ghost: callbacks completed by this worker during the current `execute` -/
  log : List WEv
  /-- ghost: has incremented `waitingThreadCount` during the current `execute` -/
  counted : Bool

structure State where
  /-- `threads.size()` = `numMaxThreads` -/
  n : Nat
  finished : Bool
  /-- owner of `runMutex` -/
  mutex : Option Tid
  /-- `currentTaskCount` -/
  count : Nat
  /-- `waitingThreadCount` -/
  waiting : Nat
  mpc : MPc
  /-- the `times` arguments of the `execute` calls the caller still has to issue -/
  todo : List Nat
  /-- argument of the `execute` call in progress -/
  times : Nat
  wk : Nat → Worker
  /-- ghost: for every completed `execute`, the workers' logs at the moment it returned -/
  hist : List (List (List WEv))
  /-- ghost: the `times` of the completed `execute` calls -/
  doneTimes : List Nat

def init (n : Nat) (todo : List Nat) : State :=
  { n := n, finished := false, mutex := none, count := 0, waiting := 0, mpc := .idle, todo := todo, times := 0,
    wk := fun _ => ⟨.loopTest, false, 0, 0, [], false⟩, hist := [], doneTimes := [] }

/-- effect of `runCondition.notify_all()` on one worker -/
def wake (pc : WPc) : WPc := if pc = .blocked then .reacq else pc

/-- `waitCondition.notify_one()` (the caller is the only thread that ever waits on it) -/
def wakeMain (pc : MPc) : MPc := if pc = .blocked then .reacq else pc

/-- all workers have returned (what `join` waits for) -/
def allDone (wk : Nat → Worker) : Nat → Bool
  | 0 => true
  | k + 1 => allDone wk k && ((wk k).pc == .done)

def stepWorker (s : State) (w : Nat) : Option State :=
  if w < s.n then
    let x := s.wk w
    match x.pc with
    | .loopTest => some { s with wk := upd s.wk w { x with pc := if s.finished then .done else .lockAcq } }
    | .lockAcq =>
      if s.mutex = none then some { s with mutex := some (.worker w), wk := upd s.wk w { x with pc := .waitChk } }
      else none
    | .waitChk =>
      if x.running then some { s with wk := upd s.wk w { x with pc := .unlock1 } }
      else some { s with mutex := none, wk := upd s.wk w { x with pc := .blocked } }
    | .blocked => none
    | .reacq =>
      if s.mutex = none then some { s with mutex := some (.worker w), wk := upd s.wk w { x with pc := .waitChk } }
      else none
    | .unlock1 => some { s with mutex := none, wk := upd s.wk w { x with pc := .test2 } }
    | .test2 =>
      if s.finished then some { s with wk := upd s.wk w { x with pc := .loopTest } }
      else some { s with wk := upd s.wk w { x with cnt := s.count, pc := .init } }
    | .init => some { s with wk := upd s.wk w { x with log := x.log ++ [.init], idx := w, pc := .exec } }
    | .exec =>
      if x.idx < x.cnt then some { s with wk := upd s.wk w { x with pc := .inExec } }
      else some { s with wk := upd s.wk w { x with pc := .clearRun } }
    | .inExec =>
      some { s with wk := upd s.wk w { x with log := x.log ++ [.exec x.idx], idx := x.idx + s.n, pc := .exec } }
    | .clearRun => some { s with wk := upd s.wk w { x with running := false, pc := .finLock } }
    | .finLock =>
      if s.mutex = none then some { s with mutex := some (.worker w), wk := upd s.wk w { x with pc := .inFin } }
      else none
    | .inFin =>
      some { s with wk := upd s.wk w { x with log := x.log ++ [.fin], counted := true, pc := .loopTest },
                    waiting := s.waiting + 1,
                    mpc := if s.waiting + 1 = s.n then wakeMain s.mpc else s.mpc,
                    mutex := none }
    | .done => none
  else none

def stepMain (s : State) : Option State :=
  match s.mpc with
  | .idle =>
    match s.todo with
    | t :: rest => some { s with times := t, todo := rest, mpc := .lock }
    | [] => some { s with mpc := .dLock }
  | .lock => if s.mutex = none then some { s with mutex := some .main, mpc := .setup } else none
  | .setup =>
    some { s with count := s.times, waiting := 0,
                  wk := fun v => { s.wk v with running := true, pc := wake (s.wk v).pc, log := [], counted := false },
                  mpc := .waitChk }
  | .waitChk =>
    if s.waiting = s.n then
      some { s with mutex := none, hist := s.hist ++ [(List.range s.n).map (fun v => (s.wk v).log)],
                    doneTimes := s.doneTimes ++ [s.times], mpc := .idle }
    else some { s with mutex := none, mpc := .blocked }
  | .blocked => none
  | .reacq => if s.mutex = none then some { s with mutex := some .main, mpc := .waitChk } else none
  | .dLock => if s.mutex = none then some { s with mutex := some .main, mpc := .dSet } else none
  | .dSet =>
    some { s with finished := true,
                  wk := fun v => { s.wk v with running := true, pc := wake (s.wk v).pc },
                  mutex := none, mpc := .join }
  | .join => if allDone s.wk s.n then some { s with mpc := .final } else none
  | .final => none

/-- one atomic step of the chosen thread (`none` = not enabled) -/
def step (s : State) : Act → Option State
  | .step .main => stepMain s
  | .step (.worker w) => stepWorker s w
  | .spurious .main => if s.mpc = .blocked then some { s with mpc := .reacq } else none
  | .spurious (.worker w) =>
    if w < s.n ∧ (s.wk w).pc = .blocked then some { s with wk := upd s.wk w { s.wk w with pc := .reacq } } else none

/-- run a schedule; actions that are not enabled are skipped -/
def run (s : State) : List Act → State
  | [] => s
  | a :: as => run ((step s a).getD s) as

/-- reachable states: every prefix of every schedule from an initial state -/
inductive Reach (n : Nat) (todo : List Nat) : State → Prop
  | init : Reach n todo (init n todo)
  | step {s s' : State} (a : Act) : Reach n todo s → step s a = some s' → Reach n todo s'

/-- the complete callback log of worker `w` for `execute(task, count)` with `n` workers -/
def fullLog (n count w : Nat) : List WEv := [.init] ++ (stripe n count w).map .exec ++ [.fin]

/-- what `hist` must contain for a completed `execute(task, times)` -/
def roundLog (n times : Nat) : List (List WEv) := (List.range n).map (fullLog n times)

/-- the indices in a worker log -/
def execsOf : List WEv → List Nat
  | [] => []
  | .exec i :: r => i :: execsOf r
  | _ :: r => execsOf r

end C33.PE
