import SimbodyModel.Gen.StringConv
/-!
# C32 — text and serialization round trips (kind D; Mathlib-free)

Mirrors
* `SimTKcommon/src/String.cpp`: `cleanUp` (trim + lower), `tryConvertToBool/Float/Double` **as coded** (`!sstream.fail()`),
  `String.h`: the generic `tryConvertStringTo<T>` (fail / eof / `std::ws` / eof test);
* libstdc++ `num_get` for the C locale, as far as the generated strings need it: `_M_extract_float` accumulation +
  `strtod` full-consumption check + overflow ⇒ failbit; `_M_extract_int` (base 10, sign, overflow ⇒ failbit); `bool` as `long` ∈ {0,1};
* `Serialize.h`: `readOneTokenUnformatted`, `readUnformatted` for scalars, complex, Vec, Mat, and `Array_`/`Vector_` (variable length),
  `writeUnformatted` separators;
* vendored TinyXML: `TiXmlBase::EncodeString`, `GetEntity`/`GetChar` entity decoding, `ReadText` with and without white-space
  condensing.

Strings are `List Char` with one `Char` per byte.

`SimbodyModel/Gen/StringConv.lean` (regenerated from `String.cpp` on every run) says whether the three specialised
conversions end with `return !sstream.fail();` (the pinned tree) or with a whole-string test; the model follows the code.
-/
namespace C32

/-! ## characters -/

/-- `std::isspace` in the C locale -/
def isSpace (c : Char) : Bool := c = ' ' || c = '\t' || c = '\n' || c = '\x0b' || c = '\x0c' || c = '\r'

def isDigit (c : Char) : Bool := '0' ≤ c && c ≤ '9'

def toLowerC (c : Char) : Char := if 'A' ≤ c && c ≤ 'Z' then Char.ofNat (c.toNat + 32) else c

def dropWS : List Char → List Char
  | [] => []
  | c :: cs => if isSpace c then dropWS cs else c :: cs

/-- `String::trimWhiteSpace` -/
def trimWS (s : List Char) : List Char := (dropWS (dropWS s).reverse).reverse

/-- `cleanUp(in) = String(in).trimWhiteSpace().toLower()` -/
def cleanUp (s : List Char) : List Char := (trimWS s).map toLowerC

/-! ## the acceptance logic, stream extraction as a parameter -/

/-- an `operator>>`: `none` = failbit set, `some (v, rest)` = value and unread remainder of the stream -/
abbrev Extract (α : Type) := List Char → Option (α × List Char)

/-- generic `tryConvertStringTo<T>` (String.h): `if (fail) return false; if (eof) return true; std::ws; return eof` -/
def tryConvertGeneric {α} (ex : Extract α) (s : List Char) : Option α :=
  match ex s with
  | none => none
  | some (v, rest) => if rest.all isSpace then some v else none

/-- the documented rule: the whole string, apart from surrounding white space, is consumed by the extraction -/
def WholeString {α} (ex : Extract α) (s : List Char) (v : α) : Prop :=
  ∃ rest, ex s = some (v, rest) ∧ rest.all isSpace = true

def spNaN : List Char := "nan".toList
def spPosInf : List (List Char) := ["inf".toList, "infinity".toList, "+inf".toList, "+infinity".toList]
def spNegInf : List (List Char) := ["-inf".toList, "-infinity".toList]

/-- `String::tryConvertToDouble` / `tryConvertToFloat` **as coded**: `sstream >> out; return !sstream.fail();` -/
def tryConvertRealCoded {α} (ex : Extract α) (nan pinf ninf : α) (s : List Char) : Option α :=
  let a := cleanUp s
  if a = spNaN then some nan
  else if spPosInf.contains a then some pinf
  else if spNegInf.contains a then some ninf
  else (ex a).map (·.1)

/-- the minimal repair: same special spellings, then the generic template's test -/
def tryConvertRealFixed {α} (ex : Extract α) (nan pinf ninf : α) (s : List Char) : Option α :=
  let a := cleanUp s
  if a = spNaN then some nan
  else if spPosInf.contains a then some pinf
  else if spNegInf.contains a then some ninf
  else tryConvertGeneric ex a

/-- `String::tryConvertToBool` as coded (`ex` is `operator>>(bool&)`) -/
def tryConvertBoolCoded (ex : Extract Bool) (s : List Char) : Option Bool :=
  let a := cleanUp s
  if a = "true".toList then some true
  else if a = "false".toList then some false
  else (ex a).map (·.1)

def tryConvertBoolFixed (ex : Extract Bool) (s : List Char) : Option Bool :=
  let a := cleanUp s
  if a = "true".toList then some true
  else if a = "false".toList then some false
  else tryConvertGeneric ex a

/-! ## libstdc++ extraction (C locale) -/

def takeDigits : List Char → List Char × List Char
  | [] => ([], [])
  | c :: cs => if isDigit c then let (d, r) := takeDigits cs; (c :: d, r) else ([], c :: cs)

def digitsToNat (ds : List Char) : Nat := ds.foldl (fun a c => a * 10 + (c.toNat - 48)) 0

/-- what `_M_extract_float` accumulates: sign, integer digits, optional `.`, fraction digits, optional exponent
(`e`, optional sign, digits) — the exponent part is entered only after a mantissa digit. -/
structure FloatLit where
  neg : Bool
  intDigits : List Char
  fracDigits : List Char
  sawE : Bool
  expNeg : Bool
  expSign : Bool          -- an explicit sign followed the `e`
  expDigits : List Char
deriving Repr, DecidableEq

/-- optional sign: `(negative, rest)` -/
def takeSign : List Char → Bool × List Char
  | '+' :: r => (false, r)
  | '-' :: r => (true, r)
  | s => (false, s)

/-- optional `.` followed by digits -/
def takeFrac : List Char → List Char × List Char
  | '.' :: r => takeDigits r
  | s => ([], s)

/-- optional exponent, entered only after a mantissa digit (`mant`): `e`/`E`, optional sign, digits.
Returns `(sawE, expNeg, expSign, expDigits)` and the rest. -/
def takeExp (mant : Bool) : List Char → (Bool × Bool × Bool × List Char) × List Char
  | [] => ((false, false, false, []), [])
  | c :: r =>
    if (c = 'e' || c = 'E') && mant then
      let (esign, eneg, r) := match r with
        | '+' :: r' => (true, false, r')
        | '-' :: r' => (true, true, r')
        | _ => (false, false, r)
      let (ed, r) := takeDigits r
      ((true, eneg, esign, ed), r)
    else ((false, false, false, []), c :: r)

/-- accumulate the literal and return the unread rest (leading white space skipped by the sentry) -/
def scanFloat (s : List Char) : FloatLit × List Char :=
  let (neg, s) := takeSign (dropWS s)
  let (ip, s) := takeDigits s
  let (fp, s) := takeFrac s
  let mant := !(ip.isEmpty && fp.isEmpty)
  let ((sawE, eneg, esign, ed), s) := takeExp mant s
  (⟨neg, ip, fp, sawE, eneg, esign, ed⟩, s)

/-- `strtod` consumes the whole accumulated string iff there is a mantissa digit and, when an `e` was accumulated,
at least one exponent digit -/
def FloatLit.valid (l : FloatLit) : Bool :=
  !(l.intDigits.isEmpty && l.fracDigits.isEmpty) && (!l.sawE || !l.expDigits.isEmpty)

/-- decimal value: `mantissa · 10^exp10` (sign kept apart) -/
def FloatLit.mantissa (l : FloatLit) : Nat := digitsToNat (l.intDigits ++ l.fracDigits)
def FloatLit.exp10 (l : FloatLit) : Int :=
  (if l.expNeg then -(digitsToNat l.expDigits : Int) else (digitsToNat l.expDigits : Int)) - (l.fracDigits.length : Int)

def pow2 (e : Int) : Rat := if e ≥ 0 then (2 : Rat) ^ e.toNat else 1 / (2 : Rat) ^ (-e).toNat
def pow10 (e : Int) : Rat := if e ≥ 0 then (10 : Rat) ^ e.toNat else 1 / (10 : Rat) ^ (-e).toNat

/-- `⌊log₂ x⌋` for `x > 0` -/
def ilog2 (x : Rat) : Int :=
  let d : Int := (x.num.toNat.log2 : Int) - (x.den.log2 : Int)
  if pow2 d ≤ x then d else d - 1

/-- round-to-nearest-even of `x ≥ 0` to precision `prec` with minimum exponent `emin` of the unit in the last place
(`prec=53, emin=-1074` binary64; `prec=24, emin=-149` binary32); no overflow handling here -/
def roundPos (prec : Nat) (emin : Int) (x : Rat) : Rat :=
  if x = 0 then 0 else
  let e := ilog2 x - (prec - 1 : Nat)
  let e := if e < emin then emin else e
  let ulp := pow2 e
  let q := x / ulp
  let n := q.floor
  let f := q - n
  let n' : Int := if f > 1 / 2 ∨ (f = 1 / 2 ∧ n % 2 = 1) then n + 1 else n
  (n' : Rat) * ulp

/-- a parsed real: sign and magnitude (exact dyadic rational); `-0` is `⟨true, 0⟩` -/
structure RealV where
  neg : Bool
  mag : Rat
deriving DecidableEq, Repr

inductive FV | nan | inf (neg : Bool) | fin (v : RealV)
deriving DecidableEq, Repr

/-- `strtod`/`strtof` value of a valid literal: `none` = overflow (libstdc++ then sets failbit) -/
def FloatLit.value (prec : Nat) (emin emaxp1 : Int) (l : FloatLit) : Option RealV :=
  let m := l.mantissa
  let e := l.exp10
  if m = 0 then some ⟨l.neg, 0⟩
  -- decimal magnitude far outside the format: decided without building 10^e
  else if e + (l.intDigits.length + l.fracDigits.length : Nat) > 400 then none
  else if e + (l.intDigits.length + l.fracDigits.length : Nat) < -400 then some ⟨l.neg, 0⟩
  else
    let r := roundPos prec emin ((m : Rat) * pow10 e)
    if r ≥ pow2 emaxp1 then none else some ⟨l.neg, r⟩

/-- `operator>>(double&)` -/
def extractReal (prec : Nat) (emin emaxp1 : Int) : Extract FV := fun s =>
  let (l, rest) := scanFloat s
  if l.valid then (l.value prec emin emaxp1).map (fun v => (FV.fin v, rest)) else none

def extractDouble : Extract FV := extractReal 53 (-1074) 1024
def extractFloat : Extract FV := extractReal 24 (-149) 128

/-- `_M_extract_int` base 10 into a signed type with range `[lo, hi]`: sign, digits, overflow ⇒ failbit -/
def extractInt (lo hi : Int) : Extract Int := fun s =>
  let s := dropWS s
  let (neg, s) := match s with
    | '+' :: r => (false, r)
    | '-' :: r => (true, r)
    | _ => (false, s)
  let (ds, rest) := takeDigits s
  if ds.isEmpty then none else
  let v : Int := if neg then -(digitsToNat ds : Int) else (digitsToNat ds : Int)
  if v < lo ∨ v > hi then none else some (v, rest)

/-- `operator>>(bool&)` without `boolalpha`: a `long` that must be 0 or 1 -/
def extractBool : Extract Bool := fun s =>
  match extractInt (-9223372036854775808) 9223372036854775807 s with
  | some (0, rest) => some (false, rest)
  | some (1, rest) => some (true, rest)
  | _ => none

/-- libstdc++ `operator>>(istream&, std::complex<double>&)`: `(re,im)`, `(re)` or `re` -/
def extractComplex : Extract (FV × FV) := fun s =>
  match dropWS s with
  | '(' :: r =>
    match extractDouble r with
    | none => none
    | some (re, r) =>
      match dropWS r with
      | ',' :: r =>
        match extractDouble r with
        | none => none
        | some (im, r) =>
          match dropWS r with
          | ')' :: r => some ((re, im), r)
          | _ => none
      | ')' :: r => some ((re, FV.fin ⟨false, 0⟩), r)
      | _ => none
  | _ => (extractDouble s).map (fun (re, r) => ((re, FV.fin ⟨false, 0⟩), r))

/-- `String::tryConvertTo<std::complex<double>>`: the generic template over the std extraction (no NaN/Inf spellings) -/
def tryConvertComplex (s : List Char) : Option (FV × FV) := tryConvertGeneric extractComplex s

/-- `String::tryConvertToDouble` as the current source has it (`Gen.checksRestDouble` is read off its final `return`) -/
def tryConvertDouble (s : List Char) : Option FV :=
  if Gen.checksRestDouble then tryConvertRealFixed extractDouble .nan (.inf false) (.inf true) s
  else tryConvertRealCoded extractDouble .nan (.inf false) (.inf true) s
def tryConvertFloat (s : List Char) : Option FV :=
  if Gen.checksRestFloat then tryConvertRealFixed extractFloat .nan (.inf false) (.inf true) s
  else tryConvertRealCoded extractFloat .nan (.inf false) (.inf true) s
def tryConvertBool (s : List Char) : Option Bool :=
  if Gen.checksRestBool then tryConvertBoolFixed extractBool s else tryConvertBoolCoded extractBool s
def tryConvertInt (lo hi : Int) (s : List Char) : Option Int := tryConvertGeneric (extractInt lo hi) s

/-! ## unformatted token streams (Serialize.h) -/

def takeToken : List Char → List Char × List Char
  | [] => ([], [])
  | c :: cs => if isSpace c then ([], c :: cs) else let (t, r) := takeToken cs; (c :: t, r)

/-- `readOneTokenUnformatted`: skip white space, read a maximal run of non-white characters; `none` if there is none -/
def readToken (s : List Char) : Option (List Char × List Char) :=
  match dropWS s with
  | [] => none
  | c :: cs => some (takeToken (c :: cs))

/-- text as `writeUnformatted` lays it out: each scalar `v` printed by `sh`, preceded by a separator
(`[]` before the first, `" "` between elements, `"\n"` between matrix rows; any white space is accepted on reading) -/
def render {α} (sh : α → List Char) : List (List Char × α) → List Char
  | [] => []
  | (sep, v) :: r => sep ++ sh v ++ render sh r

/-- `readUnformatted<T>` for a fixed-size aggregate of `n` scalars (`Vec`, `Mat`, `complex`, nested): the next `n` tokens,
each converted with `conv`; fails if a token is missing or does not convert -/
def readFixed {α} (conv : List Char → Option α) : Nat → List Char → Option (List α × List Char)
  | 0, s => some ([], s)
  | n + 1, s => match readToken s with
    | none => none
    | some (t, r) => match conv t with
      | none => none
      | some v => match readFixed conv n r with
        | none => none
        | some (vs, r') => some (v :: vs, r')

/-- `readUnformatted(Array_<T>&)` with elements of `k` scalars each:
`std::ws(in); while (!in.eof() && readUnformatted(in, element)) push_back; return !in.fail();`
`eof` is reached only when a token extraction ran into the end of the stream, i.e. when nothing (not even white space)
follows the last token. -/
def readArrayFuel {α} (conv : List Char → Option α) (k : Nat) : Nat → List Char → Option (List (List α))
  | 0, _ => none
  | f + 1, s =>
    if s.isEmpty then some []                       -- in.eof()
    else match readFixed conv k s with
      | none => none                                -- failbit (bad token, missing token, or only white space left)
      | some (e, r) => (readArrayFuel conv k f r).map (e :: ·)

def readArray {α} (conv : List Char → Option α) (k : Nat) (s : List Char) : Option (List (List α)) :=
  let s := dropWS s                                 -- the initial std::ws
  readArrayFuel conv k (s.length + 1) s

/-! ## TinyXML escaping -/

def hexDigitUpper (n : Nat) : Char := if n < 10 then Char.ofNat (48 + n) else Char.ofNat (55 + n)

/-- TinyXML `IsWhiteSpace(c)`: `isspace(c) || c == '\n' || c == '\r'` -/
def isXmlWS (c : Char) : Bool := isSpace c

/-- the pass-through loop of `EncodeString` for `&#x…`: copies characters up to (not including) the first `;`
found at an index ≥ 1, but never the last character of the string (`while (i < length-1)`).
Returns (copied, remaining). -/
def passThrough : List Char → List Char × List Char
  | [] => ([], [])
  | [c] => ([], [c])
  | c :: d :: r => if d = ';' then ([c], d :: r) else let (p, q) := passThrough (d :: r); (c :: p, q)

/-- `TiXmlBase::EncodeString(str, out, keepQuotes)`; `condense` = the global `condenseWhiteSpace` flag -/
def encodeFuel (keepQuotes condense : Bool) : Nat → List Char → List Char
  | 0, _ => []
  | _, [] => []
  | f + 1, c :: rest =>
    match c, rest with
    | '&', '#' :: 'x' :: _ =>
      let (p, q) := passThrough (c :: rest)
      p ++ encodeFuel keepQuotes condense f q
    | _, _ =>
      if c = '&' then "&amp;".toList ++ encodeFuel keepQuotes condense f rest
      else if c = '<' then "&lt;".toList ++ encodeFuel keepQuotes condense f rest
      else if c = '>' then "&gt;".toList ++ encodeFuel keepQuotes condense f rest
      else if c = '"' && !keepQuotes then "&quot;".toList ++ encodeFuel keepQuotes condense f rest
      else if c = '\'' && !keepQuotes then "&apos;".toList ++ encodeFuel keepQuotes condense f rest
      else if c.toNat < 32 && (condense || !isXmlWS c) then
        ['&', '#', 'x', hexDigitUpper (c.toNat / 16), hexDigitUpper (c.toNat % 16), ';'] ++ encodeFuel keepQuotes condense f rest
      else c :: encodeFuel keepQuotes condense f rest

def encode (keepQuotes condense : Bool) (s : List Char) : List Char := encodeFuel keepQuotes condense (s.length + 1) s

def hexVal (c : Char) : Option Nat :=
  if '0' ≤ c && c ≤ '9' then some (c.toNat - 48)
  else if 'a' ≤ c && c ≤ 'f' then some (c.toNat - 87)
  else if 'A' ≤ c && c ≤ 'F' then some (c.toNat - 55) else none

def parseRadix (radix : Nat) (ds : List Char) : Option Nat :=
  ds.foldl (fun acc c => match acc, hexVal c with
    | some a, some d => if d < radix then some (a * radix + d) else none
    | _, _ => none) (some 0)

def splitAtSemi : List Char → Option (List Char × List Char)
  | [] => none
  | c :: cs => if c = ';' then some ([], cs) else (splitAtSemi cs).map (fun (a, b) => (c :: a, b))

def startsWith (p s : List Char) : Bool := p.isPrefixOf s

/-- a numeric character reference yields the single byte `(char)ucs`: on this tree `TiXmlDocument::Parse` never leaves
`TIXML_ENCODING_UNKNOWN` (the declaration's encoding is looked up through an outer `node` variable that the inner
declaration shadows), so `GetEntity` takes its non-UTF-8 branch and `GetChar` copies bytes one at a time -/
def charRef (u : Nat) : List Char := [Char.ofNat (u % 256)]

/-- the digits `GetEntity` evaluates: it finds the first `;` and walks *backwards* from it until it meets the stop
character (`x` resp. `#`), so only the characters after the **last** stop character before the `;` count -/
def afterLast (stop : Char) (l : List Char) : List Char :=
  l.foldl (fun acc c => if c = stop then [] else acc ++ [c]) []

/-- `TiXmlBase::GetEntity` at a `&`: `none` = parse error (returns 0), otherwise the characters
produced (possibly none: an unrecognised `&` is dropped) and the remaining input -/
def getEntity (s : List Char) : Option (List Char × List Char) :=
  match s with
  | '&' :: '#' :: 'x' :: c :: r =>
    -- hexadecimal: needs a `;` at or after `c`; the characters walked over must be hex digits
    (splitAtSemi (c :: r)).bind (fun (seg, rest) => (parseRadix 16 (afterLast 'x' seg)).map (fun u => (charRef u, rest)))
  | ['&', '#', 'x'] => none
  | '&' :: '#' :: c :: r =>
    (splitAtSemi (c :: r)).bind (fun (seg, rest) => (parseRadix 10 (afterLast '#' seg)).map (fun u => (charRef u, rest)))
  | '&' :: r =>
    if startsWith "amp;".toList r then some (['&'], r.drop 4)
    else if startsWith "lt;".toList r then some (['<'], r.drop 3)
    else if startsWith "gt;".toList r then some (['>'], r.drop 3)
    else if startsWith "quot;".toList r then some (['"'], r.drop 5)
    else if startsWith "apos;".toList r then some (['\''], r.drop 5)
    else some ([], r)
  | _ => none

/-- `ReadText` keeping all white space: decode up to (not including) the first raw `endc`
(`<` for element text, the quote character for attribute values) -/
def decodeKeepFuel (endc : Char) : Nat → List Char → Option (List Char)
  | 0, _ => some []
  | _, [] => some []
  | f + 1, c :: r =>
    if c = endc then some []
    else if c = '&' then (getEntity (c :: r)).bind (fun (o, rest) => (decodeKeepFuel endc f rest).map (o ++ ·))
    else (decodeKeepFuel endc f r).map (c :: ·)

def decodeKeep (endc : Char) (s : List Char) : Option (List Char) := decodeKeepFuel endc (s.length + 1) s

/-- `ReadText` with white-space condensing: leading white space skipped, runs become one blank, trailing dropped;
entity-decoded characters are never treated as white space -/
def decodeCondFuel : Nat → Bool → List Char → Option (List Char)
  | 0, _, _ => some []
  | _, _, [] => some []
  | f + 1, pendingWS, c :: r =>
    if c = '<' then some []
    else if isXmlWS c then decodeCondFuel f true r
    else
      let pre := if pendingWS then [' '] else []
      if c = '&' then (getEntity (c :: r)).bind (fun (o, rest) => (decodeCondFuel f false rest).map (pre ++ o ++ ·))
      else (decodeCondFuel f false r).map (pre ++ c :: ·)

def decodeCond (s : List Char) : Option (List Char) := decodeCondFuel (s.length + 1) false (dropWS s)

/-- value of an element whose content is the raw character data `s` (`TiXmlElement::ReadValue` + `TiXmlText::Blank`):
no text node if only white space precedes the next `<`; a text node whose decoded value is blank is discarded -/
def elementText (cond : Bool) (s : List Char) : Option (List Char) :=
  match dropWS s with
  | [] => some []
  | c :: _ =>
    if c = '<' then some [] else
    (if cond then decodeCond s else decodeKeep '<' s).map (fun t => if t.all isXmlWS then [] else t)

/-- `TiXmlDocument::LoadFile` end-of-line normalisation (XML 1.0 §2.11), applied to the whole file before parsing:
`\r\n` and a lone `\r` both become `\n` -/
def normalizeNL : List Char → List Char
  | [] => []
  | '\r' :: '\n' :: r => '\n' :: normalizeNL r
  | '\r' :: r => '\n' :: normalizeNL r
  | c :: r => c :: normalizeNL r

/-- what a text value becomes after `write` then `read` -/
def textRoundTrip (cond : Bool) (t : List Char) : Option (List Char) :=
  elementText cond (encode true cond t ++ "</t>".toList)

/-- what an attribute value becomes after `write` then `read` (quotes are always encoded, so the closing quote is the
first raw quote character; attribute values always keep their white space) -/
def attrRoundTrip (cond : Bool) (v : List Char) : Option (List Char) :=
  decodeKeep '"' (encode false cond v ++ "\" />".toList)

/-- text / attribute value after `writeToFile` then `readFromFile` (same encoder, then the end-of-line normalisation) -/
def textRoundTripFile (cond : Bool) (t : List Char) : Option (List Char) :=
  elementText cond (normalizeNL (encode true cond t ++ "</t>".toList))
def attrRoundTripFile (cond : Bool) (v : List Char) : Option (List Char) :=
  decodeKeep '"' (normalizeNL (encode false cond v ++ "\" />".toList))

/-- the documented effect of condensing on a text value -/
def condense (s : List Char) : List Char :=
  let rec go : Bool → List Char → List Char
    | _, [] => []
    | p, c :: r => if isXmlWS c then go true r else (if p then [' ', c] else [c]) ++ go false r
  go false (dropWS s)

end C32
