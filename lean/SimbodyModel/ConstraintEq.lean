/-!
# ConstraintEq — executable model of Simbody's built-in constraint equations (C07; used by C08–C10)

Mirrors, formula by formula, `Simbody/src/ConstraintImpl.h` (PointInPlane, PointOnLine, ConstantAngle, Ball,
ConstantOrientation, Weld, NoSlip1D, ConstantCoordinate, ConstantSpeed, ConstantAcceleration),
`Constraint_RodImpl.h` + `Constraint_Rod.cpp` (Rod), `Constraint_PointOnPlaneContactImpl.h`, `Constraint.cpp`
(CoordinateCoupler, SpeedCoupler, PrescribedMotion, the Ground→Ancestor conversions
`calcConstrainedBodyTransformInAncestor`, `calcConstrainedBodyVelocityInAncestor`,
`convertBodyAccelToConstrainedBodyAccel`) and `SpatialAlgebra.h` (`findRelativeVelocity/Acceleration`).

Mathlib-free and polymorphic in the scalar `K` (only `+ - * neg 0`): proved over any commutative ring / field in
`SimbodyProofs/C07.lean`, executed over `Float` in `Drivers/C07.lean`, and evaluated over the dual numbers
`Jet1 K = K[ε]/(ε²)` (defined here, Mathlib-free, so the *same* definitions run on them) to state
"velocity error = time derivative of position error".

Conventions (as in the C++): every vector is expressed in the constraint's Ancestor frame `A`; `X_AB = (R_AB, p_AB)`
is the pose of constrained body `B` in `A`, `V_AB = (w, v)` its spatial velocity, `A_AB = (b, a)` its spatial
acceleration; forces on a constrained body are spatial forces `(torque about Bo, force)` in `A`.
-/
namespace ConstraintEq

/-! ## dual numbers (first-order jets) -/
structure Jet1 (K : Type) where
  val : K
  eps : K
deriving Repr

namespace Jet1
variable {K : Type} [Add K] [Sub K] [Mul K] [Neg K] [OfNat K 0]
instance : Add (Jet1 K) := ⟨fun a b => ⟨a.val + b.val, a.eps + b.eps⟩⟩
instance : Sub (Jet1 K) := ⟨fun a b => ⟨a.val - b.val, a.eps - b.eps⟩⟩
instance : Mul (Jet1 K) := ⟨fun a b => ⟨a.val * b.val, a.val * b.eps + a.eps * b.val⟩⟩
instance : Neg (Jet1 K) := ⟨fun a => ⟨-a.val, -a.eps⟩⟩
instance : OfNat (Jet1 K) 0 := ⟨⟨0, 0⟩⟩
/-- a constant (time-independent quantity) -/
def const (x : K) : Jet1 K := ⟨x, 0⟩
end Jet1

/-! ## Vec3 / Mat33 / Transform / SpatialVec -/
structure V3 (K : Type) where
  x : K
  y : K
  z : K
deriving Repr

/-- 3×3 matrix stored by rows (as `Mat33`) -/
structure M33 (K : Type) where
  r0 : V3 K
  r1 : V3 K
  r2 : V3 K
deriving Repr

/-- `Transform`: rotation `R` and origin location `p` -/
structure Xf (K : Type) where
  R : M33 K
  p : V3 K
deriving Repr

/-- `SpatialVec`: angular part `w` (angular velocity / angular acceleration / torque), linear part `v` -/
structure SV (K : Type) where
  w : V3 K
  v : V3 K
deriving Repr

variable {K : Type} [Add K] [Sub K] [Mul K] [Neg K] [OfNat K 0]

namespace V3
def add (a b : V3 K) : V3 K := ⟨a.x + b.x, a.y + b.y, a.z + b.z⟩
def sub (a b : V3 K) : V3 K := ⟨a.x - b.x, a.y - b.y, a.z - b.z⟩
def neg (a : V3 K) : V3 K := ⟨-a.x, -a.y, -a.z⟩
def smul (s : K) (a : V3 K) : V3 K := ⟨s * a.x, s * a.y, s * a.z⟩
def dot (a b : V3 K) : K := a.x * b.x + a.y * b.y + a.z * b.z
/-- `a % b` -/
def cross (a b : V3 K) : V3 K := ⟨a.y * b.z - a.z * b.y, a.z * b.x - a.x * b.z, a.x * b.y - a.y * b.x⟩
def zero : V3 K := ⟨0, 0, 0⟩
def toList (a : V3 K) : List K := [a.x, a.y, a.z]
end V3

namespace M33
/-- `R * v` -/
def mulVec (R : M33 K) (v : V3 K) : V3 K := ⟨V3.dot R.r0 v, V3.dot R.r1 v, V3.dot R.r2 v⟩
/-- `~R * v` -/
def tmulVec (R : M33 K) (v : V3 K) : V3 K :=
  ⟨R.r0.x * v.x + R.r1.x * v.y + R.r2.x * v.z,
   R.r0.y * v.x + R.r1.y * v.y + R.r2.y * v.z,
   R.r0.z * v.x + R.r1.z * v.y + R.r2.z * v.z⟩
def col0 (R : M33 K) : V3 K := ⟨R.r0.x, R.r1.x, R.r2.x⟩
def col1 (R : M33 K) : V3 K := ⟨R.r0.y, R.r1.y, R.r2.y⟩
def col2 (R : M33 K) : V3 K := ⟨R.r0.z, R.r1.z, R.r2.z⟩
def transpose (R : M33 K) : M33 K := ⟨R.col0, R.col1, R.col2⟩
/-- `R * S` -/
def mul (R S : M33 K) : M33 K :=
  let c0 := R.mulVec S.col0; let c1 := R.mulVec S.col1; let c2 := R.mulVec S.col2
  ⟨⟨c0.x, c1.x, c2.x⟩, ⟨c0.y, c1.y, c2.y⟩, ⟨c0.z, c1.z, c2.z⟩⟩
/-- `~R * S` -/
def tmul (R S : M33 K) : M33 K := R.transpose.mul S
end M33

namespace SV
def zero : SV K := ⟨V3.zero, V3.zero⟩
def add (a b : SV K) : SV K := ⟨a.w.add b.w, a.v.add b.v⟩
def sub (a b : SV K) : SV K := ⟨a.w.sub b.w, a.v.sub b.v⟩
def toList (a : SV K) : List K := a.w.toList ++ a.v.toList
/-- power pairing `~F * V` of a spatial force with a spatial velocity -/
def dot (a b : SV K) : K := a.w.dot b.w + a.v.dot b.v
end SV

/-- pose, velocity and acceleration of one frame (in whatever frame they are measured/expressed) -/
structure Kin (K : Type) where
  X : Xf K
  V : SV K
  A : SV K
deriving Repr

/-! ## Ground → Ancestor conversion (Constraint.cpp, SpatialAlgebra.h) -/

/-- `~X_GA * X_GB`  (calcConstrainedBodyTransformInAncestor) -/
def relPose (XA XB : Xf K) : Xf K := ⟨XA.R.tmul XB.R, XA.R.tmulVec (XB.p.sub XA.p)⟩

/-- `findRelativeVelocity(X_GA, V_GA, X_GB, V_GB)` / calcConstrainedBodyVelocityInAncestor -/
def relVel (XA : Xf K) (VA : SV K) (XB : Xf K) (VB : SV K) : SV K :=
  let p_AB_G := XB.p.sub XA.p
  let p_AB_G_dot := VB.v.sub VA.v
  let w_AB_G := VB.w.sub VA.w
  let v_AB_G := p_AB_G_dot.sub (VA.w.cross p_AB_G)
  ⟨XA.R.tmulVec w_AB_G, XA.R.tmulVec v_AB_G⟩

/-- `findRelativeAcceleration(X_GA,V_GA,A_GA, X_GB,V_GB,A_GB)` (convertBodyAccelToConstrainedBodyAccel) -/
def relAcc (XA : Xf K) (VA AA : SV K) (XB : Xf K) (VB AB : SV K) : SV K :=
  let p := XB.p.sub XA.p
  let w_FA := VA.w; let w_FB := VB.w; let b_FA := AA.w; let b_FB := AB.w
  let pd := VB.v.sub VA.v
  let pdd := AB.v.sub AA.v
  let w_AB_F := w_FB.sub w_FA
  let v_AB_F := pd.sub (w_FA.cross p)
  let w_AB_F_dot := b_FB.sub b_FA
  let v_AB_F_dot := pdd.sub ((b_FA.cross p).add (w_FA.cross pd))
  let b_AB_F := w_AB_F_dot.sub (w_FA.cross w_AB_F)
  let a_AB_F := v_AB_F_dot.sub (w_FA.cross v_AB_F)
  ⟨XA.R.tmulVec b_AB_F, XA.R.tmulVec a_AB_F⟩

/-- kinematics of `B` relative to (measured and expressed in) the ancestor `A`, both given in Ground -/
def toAncestor (a b : Kin K) : Kin K :=
  ⟨relPose a.X b.X, relVel a.X a.V b.X b.V, relAcc a.X a.V a.A b.X b.V b.A⟩

/-! ## station helpers of ConstraintImpl -/

/-- `X_AB * p_BS` (findStationLocation) -/
def stationLoc (X : Xf K) (s : V3 K) : V3 K := (X.R.mulVec s).add X.p
/-- `~X_AB * p_AS` (shift to Bo, re-express in B) -/
def invXf (X : Xf K) (p : V3 K) : V3 K := X.R.tmulVec (p.sub X.p)
/-- `V_AB[1] + V_AB[0] % (R_AB*p_BS)` (findStationVelocity) -/
def stationVel (X : Xf K) (V : SV K) (s : V3 K) : V3 K := V.v.add (V.w.cross (X.R.mulVec s))
/-- velocity of the point whose offset from Bo, expressed in A, is `r` -/
def stationVelA (V : SV K) (r : V3 K) : V3 K := V.v.add (V.w.cross r)
/-- `a + b % r + w % (w % r)` (findStationAcceleration), `r = R_AB*p_BS` -/
def stationAcc (X : Xf K) (V A : SV K) (s : V3 K) : V3 K :=
  let r := X.R.mulVec s
  (A.v.add (A.w.cross r)).add (V.w.cross (V.w.cross r))
/-- same with the A-expressed offset given (findStationInAAcceleration / …LocationVelocityAcceleration:
the Coriolis term is `w % (w % r)`) -/
def stationAccA (V A : SV K) (r : V3 K) : V3 K :=
  (A.v.add (A.w.cross r)).add (V.w.cross (V.w.cross r))
/-- spatial force `(r % f, f)` of a force `f` applied at A-expressed offset `r` (addInStationInAForce) -/
def stationForceA (r f : V3 K) : SV K := ⟨r.cross f, f⟩
/-- addInStationForce: station given in B -/
def stationForce (X : Xf K) (s f : V3 K) : SV K := stationForceA (X.R.mulVec s) f
/-- addInBodyTorque -/
def bodyTorque (t : V3 K) : SV K := ⟨t, V3.zero⟩

/-- `x + x` stands for the C++ literal product `2.*x` (exact in binary floating point) -/
def twice (a : V3 K) : V3 K := a.add a

/-! ## Constraint::PointInPlane  (plane body B = constrained body 0, follower F = constrained body 1) -/
namespace PointInPlane
structure Par (K : Type) where
  n : V3 K      -- plane normal in B
  h : K         -- plane height
  s : V3 K      -- follower station in F

def perr (c : Par K) (XB XF : Xf K) : K :=
  let p_AS := stationLoc XF c.s
  let p_BC := invXf XB p_AS
  V3.dot p_BC c.n - c.h

def pverr (c : Par K) (XB XF : Xf K) (VB VF : SV K) : K :=
  let p_AS := stationLoc XF c.s
  let p_BC := invXf XB p_AS
  let n_A := XB.R.mulVec c.n
  let v_AS := stationVel XF VF c.s
  let v_AC := stationVel XB VB p_BC
  V3.dot (v_AS.sub v_AC) n_A

def paerr (c : Par K) (XB XF : Xf K) (VB VF AB AF : SV K) : K :=
  let p_AS := stationLoc XF c.s
  let p_BC := invXf XB p_AS
  let n_A := XB.R.mulVec c.n
  let w_AB := VB.w
  let v_AS := stationVel XF VF c.s
  let v_AC := stationVel XB VB p_BC
  let a_AS := stationAcc XF VF AF c.s
  let a_AC := stationAcc XB VB AB p_BC
  V3.dot ((a_AS.sub a_AC).sub ((twice w_AB).cross (v_AS.sub v_AC))) n_A

/-- forces on (B, F) from multiplier `lam` -/
def forces (c : Par K) (XB XF : Xf K) (lam : K) : SV K × SV K :=
  let p_AS := stationLoc XF c.s
  let p_BC := invXf XB p_AS
  let force_A := XB.R.mulVec (V3.smul lam c.n)
  (stationForce XB p_BC force_A.neg, stationForce XF c.s force_A)
end PointInPlane

/-! ## Constraint::PointOnLine  (line body B = 0, follower F = 1); `x`,`y` are the two plane normals the Impl
derives at realizeTopology (`z.perp()`, `z % x`) — constants in B -/
namespace PointOnLine
structure Par (K : Type) where
  x : V3 K
  y : V3 K
  P : V3 K      -- point on line, in B
  s : V3 K      -- follower station in F

def perr (c : Par K) (XB XF : Xf K) : K × K :=
  let p_AS := stationLoc XF c.s
  let p_BC := invXf XB p_AS
  let p_PC := p_BC.sub c.P
  (V3.dot p_PC c.x, V3.dot p_PC c.y)

def pverr (c : Par K) (XB XF : Xf K) (VB VF : SV K) : K × K :=
  let p_AS := stationLoc XF c.s
  let p_BC := invXf XB p_AS
  let v_AS := stationVel XF VF c.s
  let v_AC := stationVel XB VB p_BC
  let v_CS_B := XB.R.tmulVec (v_AS.sub v_AC)
  (V3.dot v_CS_B c.x, V3.dot v_CS_B c.y)

def paerr (c : Par K) (XB XF : Xf K) (VB VF AB AF : SV K) : K × K :=
  let p_AS := stationLoc XF c.s
  let p_BC := invXf XB p_AS
  let w_AB := VB.w
  let v_AS := stationVel XF VF c.s
  let v_AC := stationVel XB VB p_BC
  let a_AS := stationAcc XF VF AF c.s
  let a_AC := stationAcc XB VB AB p_BC
  let a_CS_B := XB.R.tmulVec ((a_AS.sub a_AC).sub ((twice w_AB).cross (v_AS.sub v_AC)))
  (V3.dot a_CS_B c.x, V3.dot a_CS_B c.y)

def forces (c : Par K) (XB XF : Xf K) (l0 l1 : K) : SV K × SV K :=
  let p_AS := stationLoc XF c.s
  let p_BC := invXf XB p_AS
  let force_B := (V3.smul l0 c.x).add (V3.smul l1 c.y)
  let force_A := XB.R.mulVec force_B
  (stationForce XB p_BC force_A.neg, stationForce XF c.s force_A)
end PointOnLine

/-! ## Constraint::ConstantAngle (base B = 0, follower F = 1) -/
namespace ConstantAngle
structure Par (K : Type) where
  b : V3 K       -- axis fixed in B
  f : V3 K       -- axis fixed in F
  cosA : K       -- cos(defaultAngle)

def perr (c : Par K) (XB XF : Xf K) : K :=
  V3.dot (XB.R.mulVec c.b) (XF.R.mulVec c.f) - c.cosA

def pverr (c : Par K) (XB XF : Xf K) (VB VF : SV K) : K :=
  let b_A := XB.R.mulVec c.b; let f_A := XF.R.mulVec c.f
  V3.dot (VF.w.sub VB.w) (f_A.cross b_A)

def paerr (c : Par K) (XB XF : Xf K) (VB VF AB AF : SV K) : K :=
  let b_A := XB.R.mulVec c.b; let f_A := XF.R.mulVec c.f
  let w_AB := VB.w; let w_AF := VF.w
  V3.dot (AF.w.sub AB.w) (f_A.cross b_A)
    + V3.dot (w_AF.sub w_AB) (((w_AF.cross f_A).cross b_A).sub ((w_AB.cross b_A).cross f_A))

def forces (c : Par K) (XB XF : Xf K) (lam : K) : SV K × SV K :=
  let b_A := XB.R.mulVec c.b; let f_A := XF.R.mulVec c.f
  let torque_F_A := V3.smul lam (f_A.cross b_A)
  (bodyTorque torque_F_A.neg, bodyTorque torque_F_A)
end ConstantAngle

/-! ## orientation rows shared by ConstantOrientation and Weld -/
namespace Orient
/-- `(~RFx*RBy, ~RFy*RBz, ~RFz*RBx)` with `RB = R_AB*defaultRB`, `RF = R_AF*defaultRF` -/
def perr (RB RF : M33 K) : V3 K :=
  ⟨V3.dot RF.col0 RB.col1, V3.dot RF.col1 RB.col2, V3.dot RF.col2 RB.col0⟩
def pverr (RB RF : M33 K) (w_AB w_AF : V3 K) : V3 K :=
  let w_BF := w_AF.sub w_AB
  ⟨V3.dot w_BF (RF.col0.cross RB.col1), V3.dot w_BF (RF.col1.cross RB.col2), V3.dot w_BF (RF.col2.cross RB.col0)⟩
def paerr1 (w_AB w_AF w_BF b_BF f b : V3 K) : K :=
  V3.dot b_BF (f.cross b) + V3.dot w_BF (((w_AF.cross f).cross b).sub ((w_AB.cross b).cross f))
def paerr (RB RF : M33 K) (w_AB w_AF b_AB b_AF : V3 K) : V3 K :=
  let w_BF := w_AF.sub w_AB; let b_BF := b_AF.sub b_AB
  ⟨paerr1 w_AB w_AF w_BF b_BF RF.col0 RB.col1, paerr1 w_AB w_AF w_BF b_BF RF.col1 RB.col2,
   paerr1 w_AB w_AF w_BF b_BF RF.col2 RB.col0⟩
def torqueF (RB RF : M33 K) (lam : V3 K) : V3 K :=
  ((V3.smul lam.x (RF.col0.cross RB.col1)).add (V3.smul lam.y (RF.col1.cross RB.col2))).add
    (V3.smul lam.z (RF.col2.cross RB.col0))
end Orient

namespace ConstantOrientation
structure Par (K : Type) where
  RB : M33 K
  RF : M33 K
def perr (c : Par K) (XB XF : Xf K) : V3 K := Orient.perr (XB.R.mul c.RB) (XF.R.mul c.RF)
def pverr (c : Par K) (XB XF : Xf K) (VB VF : SV K) : V3 K :=
  Orient.pverr (XB.R.mul c.RB) (XF.R.mul c.RF) VB.w VF.w
def paerr (c : Par K) (XB XF : Xf K) (VB VF AB AF : SV K) : V3 K :=
  Orient.paerr (XB.R.mul c.RB) (XF.R.mul c.RF) VB.w VF.w AB.w AF.w
def forces (c : Par K) (XB XF : Xf K) (lam : V3 K) : SV K × SV K :=
  let t := Orient.torqueF (XB.R.mul c.RB) (XF.R.mul c.RF) lam
  (bodyTorque t.neg, bodyTorque t)
end ConstantOrientation

/-! ## Constraint::Ball (B1 = 0, B2 = 1).  NB: `perr` is measured in A between the two *stations*, while
`pverr`/`paerr` use the material point C of B1 coincident with the station of B2 -/
namespace Ball
structure Par (K : Type) where
  p1 : V3 K
  p2 : V3 K
def perr (c : Par K) (X1 X2 : Xf K) : V3 K := (stationLoc X2 c.p2).sub (stationLoc X1 c.p1)
def pverr (c : Par K) (X1 X2 : Xf K) (V1 V2 : SV K) : V3 K :=
  let p_AS := stationLoc X2 c.p2
  let p_BC := invXf X1 p_AS
  (stationVel X2 V2 c.p2).sub (stationVel X1 V1 p_BC)
def paerr (c : Par K) (X1 X2 : Xf K) (V1 V2 A1 A2 : SV K) : V3 K :=
  let p_AS := stationLoc X2 c.p2
  let p_BC := invXf X1 p_AS
  (stationAcc X2 V2 A2 c.p2).sub (stationAcc X1 V1 A1 p_BC)
def forces (c : Par K) (X1 X2 : Xf K) (lam : V3 K) : SV K × SV K :=
  let p_AS := stationLoc X2 c.p2
  let p_BC := invXf X1 p_AS
  (stationForce X1 p_BC lam.neg, stationForce X2 c.p2 lam)
end Ball

/-! ## Constraint::Weld (B = 0, F = 1): three orientation rows then three Ball-like rows -/
namespace Weld
structure Par (K : Type) where
  FB : Xf K     -- defaultFrameB
  FF : Xf K     -- defaultFrameF
def perr (c : Par K) (XB XF : Xf K) : V3 K × V3 K :=
  (Orient.perr (XB.R.mul c.FB.R) (XF.R.mul c.FF.R), (stationLoc XF c.FF.p).sub (stationLoc XB c.FB.p))
def pverr (c : Par K) (XB XF : Xf K) (VB VF : SV K) : V3 K × V3 K :=
  let p_AF2 := stationLoc XF c.FF.p
  let p_BC := invXf XB p_AF2
  (Orient.pverr (XB.R.mul c.FB.R) (XF.R.mul c.FF.R) VB.w VF.w,
   (stationVel XF VF c.FF.p).sub (stationVel XB VB p_BC))
def paerr (c : Par K) (XB XF : Xf K) (VB VF AB AF : SV K) : V3 K × V3 K :=
  let p_AF2 := stationLoc XF c.FF.p
  let p_BC := invXf XB p_AF2
  (Orient.paerr (XB.R.mul c.FB.R) (XF.R.mul c.FF.R) VB.w VF.w AB.w AF.w,
   (stationAcc XF VF AF c.FF.p).sub (stationAcc XB VB AB p_BC))
def forces (c : Par K) (XB XF : Xf K) (torques force_A : V3 K) : SV K × SV K :=
  let t := Orient.torqueF (XB.R.mul c.FB.R) (XF.R.mul c.FF.R) torques
  let p_AF2 := stationLoc XF c.FF.p
  let p_BC := invXf XB p_AF2
  ((bodyTorque t.neg).add (stationForce XB p_BC force_A.neg), (bodyTorque t).add (stationForce XF c.FF.p force_A))
end Weld

/-! ## Constraint::NoSlip1D (case C = 0, moving B0 = 1, B1 = 2): one nonholonomic equation -/
namespace NoSlip1D
structure Par (K : Type) where
  P : V3 K      -- contact point in C
  n : V3 K      -- no-slip direction in C
def verr (c : Par K) (XC X0 X1 : Xf K) (V0 V1 : SV K) : K :=
  let p_AP := stationLoc XC c.P
  let p_P0 := invXf X0 p_AP
  let p_P1 := invXf X1 p_AP
  let n_A := XC.R.mulVec c.n
  let v_AP0 := stationVel X0 V0 p_P0
  let v_AP1 := stationVel X1 V1 p_P1
  V3.dot (v_AP1.sub v_AP0) n_A
def vaerr (c : Par K) (XC X0 X1 : Xf K) (VC V0 V1 A0 A1 : SV K) : K :=
  let p_AP := stationLoc XC c.P
  let p_P0 := invXf X0 p_AP
  let p_P1 := invXf X1 p_AP
  let n_A := XC.R.mulVec c.n
  let v_AP0 := stationVel X0 V0 p_P0
  let v_AP1 := stationVel X1 V1 p_P1
  let w_AC := VC.w
  let a_AP0 := stationAcc X0 V0 A0 p_P0
  let a_AP1 := stationAcc X1 V1 A1 p_P1
  V3.dot ((a_AP1.sub a_AP0).sub (w_AC.cross (v_AP1.sub v_AP0))) n_A
/-- forces on (C, B0, B1) -/
def forces (c : Par K) (XC X0 X1 : Xf K) (lam : K) : SV K × SV K × SV K :=
  let p_AP := stationLoc XC c.P
  let p_P0 := invXf X0 p_AP
  let p_P1 := invXf X1 p_AP
  let force_A := XC.R.mulVec (V3.smul lam c.n)
  (SV.zero, stationForce X0 p_P0 force_A.neg, stationForce X1 p_P1 force_A)
end NoSlip1D

/-! ## Constraint::Rod (F = body 1 = constrained body 0, B = body 2 = constrained body 1);
`sqrt` and the reciprocal are parameters (libm / hardware division are trusted-base items) -/
namespace Rod
structure Par (K : Type) where
  pF : V3 K
  pB : V3 K
  d : K

def pvec (c : Par K) (XF XB : Xf K) : V3 K := (stationLoc XB c.pB).sub (stationLoc XF c.pF)

def perr (sqrt : K → K) (c : Par K) (XF XB : Xf K) : K :=
  let p := pvec c XF XB
  sqrt (V3.dot p p) - c.d

/-- `Cz = p_SfSb * (1/r)` -/
def Cz (sqrt inv : K → K) (c : Par K) (XF XB : Xf K) : V3 K :=
  let p := pvec c XF XB
  let r := sqrt (V3.dot p p)
  V3.smul (inv r) p   -- p * oor (commutative product; the C++ writes `p_SfSb_A * oor`)

def pdvec (c : Par K) (XF XB : Xf K) (VF VB : SV K) : V3 K :=
  (stationVelA VB (XB.R.mulVec c.pB)).sub (stationVelA VF (XF.R.mulVec c.pF))

def pverr (sqrt inv : K → K) (c : Par K) (XF XB : Xf K) (VF VB : SV K) : K :=
  V3.dot (pdvec c XF XB VF VB) (Cz sqrt inv c XF XB)

def paerr (sqrt inv : K → K) (c : Par K) (XF XB : Xf K) (VF VB AF AB : SV K) : K :=
  let p := pvec c XF XB
  let r := sqrt (V3.dot p p)
  let oor := inv r
  let cz := Cz sqrt inv c XF XB
  let pd := pdvec c XF XB VF VB
  let czd := V3.smul oor (pd.sub (V3.smul (V3.dot pd cz) cz))
  let a_ASf := stationAccA VF AF (XF.R.mulVec c.pF)
  let a_ASb := stationAccA VB AB (XB.R.mulVec c.pB)
  V3.dot (a_ASb.sub a_ASf) cz + V3.dot pd czd

/-- forces on (F, B) -/
def forces (sqrt inv : K → K) (c : Par K) (XF XB : Xf K) (lam : K) : SV K × SV K :=
  let force_A := V3.smul lam (Cz sqrt inv c XF XB)
  let fB := stationForceA (XB.R.mulVec c.pB) force_A
  let fF := stationForceA (XF.R.mulVec c.pF) force_A
  (⟨fF.w.neg, fF.v.neg⟩, fB)
end Rod

/-! ## Constraint::PointOnPlaneContact (surface body S = 0, follower B = 1): one holonomic (normal) and two
nonholonomic (tangential, no-slip) equations; `XP` is the plane frame fixed in S -/
namespace PointOnPlaneContact
structure Par (K : Type) where
  XP : Xf K
  pF : V3 K
def perr (c : Par K) (XS XB : Xf K) : K :=
  let p_AF := stationLoc XB c.pF
  let p_SC := invXf XS p_AF
  V3.dot (p_SC.sub c.XP.p) c.XP.R.col2
/-- relative velocity of F and the coincident point C of S, in A -/
def vCF (c : Par K) (XS XB : Xf K) (VS VB : SV K) : V3 K :=
  let p_BF_A := XB.R.mulVec c.pF
  let p_AF := XB.p.add p_BF_A
  let v_AF := stationVelA VB p_BF_A
  let p_SC_A := p_AF.sub XS.p
  let v_AC := stationVelA VS p_SC_A
  v_AF.sub v_AC
def pverr (c : Par K) (XS XB : Xf K) (VS VB : SV K) : K :=
  V3.dot (vCF c XS XB VS VB) (XS.R.mulVec c.XP.R.col2)
/-- `(a_AF-a_AC) - (2 w_AS) % (v_AF-v_AC)` -/
def aRel (c : Par K) (XS XB : Xf K) (VS VB AS AB : SV K) : V3 K :=
  let p_BF_A := XB.R.mulVec c.pF
  let p_AF := XB.p.add p_BF_A
  let v_AF := stationVelA VB p_BF_A
  let a_AF := (AB.v.add (AB.w.cross p_BF_A)).add (VB.w.cross (VB.w.cross p_BF_A))
  let p_SC_A := p_AF.sub XS.p
  let v_AC := stationVelA VS p_SC_A
  let a_AC := (AS.v.add (AS.w.cross p_SC_A)).add (VS.w.cross (VS.w.cross p_SC_A))
  (a_AF.sub a_AC).sub ((twice VS.w).cross (v_AF.sub v_AC))
def paerr (c : Par K) (XS XB : Xf K) (VS VB AS AB : SV K) : K :=
  V3.dot (XS.R.mulVec c.XP.R.col2) (aRel c XS XB VS VB AS AB)
/-- the nonholonomic pair uses `findStationVelocity(S, ~X_AS*p_AF)` (i.e. `R_AS*(~R_AS*(p_AF-p_AS))`) -/
def verr (c : Par K) (XS XB : Xf K) (VS VB : SV K) : K × K :=
  let p_AF := stationLoc XB c.pF
  let p_SC := invXf XS p_AF
  let v_AF := stationVel XB VB c.pF
  let v_AC := stationVel XS VS p_SC
  let v := v_AF.sub v_AC
  (V3.dot (XS.R.mulVec c.XP.R.col0) v, V3.dot (XS.R.mulVec c.XP.R.col1) v)
def vaerr (c : Par K) (XS XB : Xf K) (VS VB AS AB : SV K) : K × K :=
  let a := aRel c XS XB VS VB AS AB
  (V3.dot (XS.R.mulVec c.XP.R.col0) a, V3.dot (XS.R.mulVec c.XP.R.col1) a)
/-- forces on (S, B) from the three multipliers (normal, then the two tangential) -/
def forces (c : Par K) (XS XB : Xf K) (ln l0 l1 : K) : SV K × SV K :=
  let p_BF_A := XB.R.mulVec c.pF
  let p_AF := XB.p.add p_BF_A
  let p_SC_A := p_AF.sub XS.p
  let fN := V3.smul ln (XS.R.mulVec c.XP.R.col2)
  let fT := (V3.smul l0 (XS.R.mulVec c.XP.R.col0)).add (V3.smul l1 (XS.R.mulVec c.XP.R.col1))
  let onB := (stationForceA p_BF_A fN).add (stationForceA p_BF_A fT)
  let sN := stationForceA p_SC_A fN; let sT := stationForceA p_SC_A fT
  (⟨(sN.w.add sT.w).neg, (sN.v.add sT.v).neg⟩, onB)
end PointOnPlaneContact

/-! ## mobility-level constraints (no constrained bodies).  Arguments are the constrained generalized
coordinates/speeds with their first and second time derivatives -/

/-- one constrained coordinate: value, first and second derivative -/
structure Q3 (K : Type) where
  q : K
  qd : K
  qdd : K
deriving Repr

namespace ConstantCoordinate
def perr (pos : K) (x : Q3 K) : K := x.q - pos
def pverr (x : Q3 K) : K := x.qd
def paerr (x : Q3 K) : K := x.qdd
def qforce (lam : K) : K := lam
end ConstantCoordinate

namespace ConstantSpeed
def verr (speed : K) (u : K) : K := u - speed
def vaerr (udot : K) : K := udot
def uforce (lam : K) : K := lam
end ConstantSpeed

namespace ConstantAcceleration
def aerr (acc : K) (udot : K) : K := udot - acc
def uforce (lam : K) : K := lam
end ConstantAcceleration

/-- `Σ a_i b_i` -/
def dotL : List K → List K → K
  | a :: as, b :: bs => a * b + dotL as bs
  | _, _ => 0

/-- `Σ_i Σ_j H_ij x_i y_j`, `H` given by rows -/
def quadL : List (List K) → List K → List K → K
  | row :: rows, x :: xs, ys => x * dotL row ys + quadL rows xs ys
  | _, _, _ => 0

/-! CoordinateCoupler relative to the user Function's value `f`, gradient `g` and Hessian `H` at the current q -/
namespace CoordinateCoupler
def perr (f : K) : K := f
def pverr (g : List K) (qd : List K) : K := dotL g qd
def paerr (g : List K) (H : List (List K)) (qd qdd : List K) : K := quadL H qd qd + dotL g qdd
def qforces (g : List K) (lam : K) : List K := g.map (fun gi => lam * gi)
end CoordinateCoupler

/-! SpeedCoupler `f(u, q)`: the first `nu` arguments are speeds (constrained), the rest coordinates;
`g` is the full gradient, `xd` the time derivatives of the arguments (`udot` for speeds, `qdot` for coordinates) -/
namespace SpeedCoupler
def verr (f : K) : K := f
def vaerr (g : List K) (xd : List K) : K := dotL g xd
def uforces (nu : Nat) (g : List K) (lam : K) : List K := (g.take nu).map (fun gi => gi * lam)
end SpeedCoupler

/-! PrescribedMotion `q = f(t)`: `f`, `f'`, `f''` at the current time -/
namespace PrescribedMotion
def perr (x : Q3 K) (f : K) : K := x.q - f
def pverr (x : Q3 K) (fd : K) : K := x.qd - fd
def paerr (x : Q3 K) (fdd : K) : K := x.qdd - fdd
def qforce (lam : K) : K := lam
end PrescribedMotion

end ConstraintEq
