/-!
# C42 — executable model of `SimTK::MultibodyGraphMaker::generateGraph` (kind D, exact)

Branch-by-branch functional transcription of `SimTKmath/src/MultibodyGraphMaker.cpp`:
`generateGraph`, `growTree`, `breakLoops`, `splitBody`, `chooseNewBaseBody`, `connectBodyToGround`,
`addMobilizerForJoint`, `findHeaviestUnassignedForwardJoint/ReverseJoint`, `bodiesAreConnected`.

Representation
* bodies, joints, joint types, mobilizers, loop constraints are referred to by their C++ index
  (`bodies[0]` is Ground; joint types 0 = weld (0 mobilities, good loop joint), 1 = free (6, good), then the
  user's types in `addJointType` order); names are a driver concern;
* per-body / per-joint *mutable* fields (`level`, `mobilizer`, `master`, `slaves`, `loopConstraint`) are total
  functions `Nat → _` updated pointwise (`upd`), `none` standing for the C++ `-1`;
* `Body::jointsAsParent/jointsAsChild` are the joints with that parent/child in increasing joint number — exactly
  what `addJoint` builds when no joint has been deleted (delete/clear are outside the property);
* masses are natural numbers (the comparison `>` on small integer-valued doubles is exact); Ground's mass
  (`Infinity`) and a slave's mass (`NaN`) are never read by the algorithm;
* the three `while/for(;;)` loops carry fuel; `SimbodyProofs/C42.lean` proves the fuel is never exhausted
  (`terminates`).  `assert`s are no-ops in the release build and are modelled as such: `addMob` mirrors the
  `if / else if` of `addMobilizerForJoint` including the (unreachable) case where neither body is in the tree.
-/
namespace C42

inductive Err
  | masslessFree          -- "body … is massless but free (no joint)"
  | masslessNotInternal   -- "body … is massless but not internal and not welded to a massful body"
  | terminalMassless      -- growTree(): "… invalid tree containing a terminal massless body"
  | fuel                  -- model artefact only (proved unreachable)
  deriving DecidableEq, Repr

structure JType where
  nmob : Nat
  good : Bool          -- haveGoodLoopJointAvailable

structure Joint where
  type : Nat
  parent : Nat
  child : Nat
  mustLoop : Bool
  addedBase : Bool     -- isAddedBaseJoint

structure BodyIn where
  mass : Nat
  mustBase : Bool

/-- the input of `generateGraph`: what `addJointType`, `addBody`, `addJoint` recorded -/
structure Input where
  userTypes : List JType
  bodies : List BodyIn     -- index 0 = Ground (its mass and flag are ignored by `addBody`)
  joints : List Joint

structure Mob where
  joint : Nat
  level : Nat
  inb : Nat
  outb : Nat
  rev : Bool

structure LoopC where
  type : Nat
  joint : Nat
  parent : Nat
  child : Nat

/-- pointwise update of a total function -/
def upd {α : Type} (f : Nat → α) (i : Nat) (v : α) : Nat → α := fun k => if k = i then v else f k

structure St where
  nb : Nat                      -- bodies.size(): Ground + input bodies + slaves
  joints : List Joint           -- input joints + added base joints
  level : Nat → Option Nat      -- Body::level      (none = -1 = not in tree)
  bmob : Nat → Option Nat       -- Body::mobilizer
  master : Nat → Option Nat     -- Body::master
  slaves : Nat → List Nat       -- Body::slaves
  jmob : Nat → Option Nat       -- Joint::mobilizer
  jloop : Nat → Option Nat      -- Joint::loopConstraint
  mobs : List Mob               -- mobilizers, in order
  cons : List LoopC             -- loop constraints, in order

def allTypes (g : Input) : List JType := ⟨0, true⟩ :: ⟨6, true⟩ :: g.userTypes
def typeOf (g : Input) (t : Nat) : JType := (allTypes g).getD t ⟨0, true⟩
def massOf (g : Input) (b : Nat) : Nat := (g.bodies.getD b ⟨0, false⟩).mass
def mustBaseOf (g : Input) (b : Nat) : Bool := (g.bodies.getD b ⟨0, false⟩).mustBase
def jointAt (s : St) (j : Nat) : Joint := s.joints.getD j ⟨0, 0, 0, false, false⟩
def inTree (s : St) (b : Nat) : Bool := (s.level b).isSome

def jointsAsParent (s : St) (b : Nat) : List Nat :=
  (List.range s.joints.length).filter (fun j => (jointAt s j).parent == b)
def jointsAsChild (s : St) (b : Nat) : List Nat :=
  (List.range s.joints.length).filter (fun j => (jointAt s j).child == b)

def init (g : Input) : St :=
  { nb := g.bodies.length, joints := g.joints,
    level := fun b => if b = 0 then some 0 else none,
    bmob := fun _ => none, master := fun _ => none, slaves := fun _ => [],
    jmob := fun _ => none, jloop := fun _ => none, mobs := [], cons := [] }

/-- `bodiesAreConnected(b1,b2)` -/
def bodiesAreConnected (s : St) (b1 b2 : Nat) : Bool :=
  (jointsAsParent s b1).any (fun j => (jointAt s j).child == b2) ||
  (jointsAsChild s b1).any (fun j => (jointAt s j).parent == b2)

/-- `connectBodyToGround(b)`: `addJoint("#ground_b", free, ground, b, false)` + `isAddedBaseJoint = true` -/
def connectToGround (s : St) (b : Nat) : St :=
  { s with joints := s.joints ++ [⟨1, 0, b, false, true⟩] }

/-- body of the first loop of `generateGraph` for body `bn` -/
def checkBody (g : Input) (s : St) (bn : Nat) : Except Err St :=
  let asC := jointsAsChild s bn
  let asP := jointsAsParent s bn
  let nJoints := asC.length + asP.length
  if massOf g bn = 0 ∧ nJoints = 0 then .error .masslessFree
  else if massOf g bn = 0 ∧ nJoints = 1 ∧
      0 < (typeOf g (jointAt s (match asC with | [] => asP.headD 0 | j :: _ => j)).type).nmob then
    .error .masslessNotInternal
  else if nJoints = 0 ∨ (mustBaseOf g bn = true ∧ bodiesAreConnected s bn 0 = false) then
    .ok (connectToGround s bn)
  else .ok s

/-- `addMobilizerForJoint(j)` -/
def addMob (s : St) (j : Nat) : St :=
  let jt := jointAt s j
  let mobNum := s.mobs.length
  let s1 : St :=
    match s.level jt.parent with
    | some lp =>       -- parent in tree: child is the outboard body (forward joint)
      { s with level := upd s.level jt.child (some (lp + 1)),
               mobs := s.mobs ++ [⟨j, lp + 1, jt.parent, jt.child, false⟩],
               bmob := upd s.bmob jt.child (some mobNum) }
    | none =>
      match s.level jt.child with
      | some lc =>     -- child in tree: parent is the outboard body (reverse joint)
        { s with level := upd s.level jt.parent (some (lc + 1)),
                 mobs := s.mobs ++ [⟨j, lc + 1, jt.child, jt.parent, true⟩],
                 bmob := upd s.bmob jt.parent (some mobNum) }
      | none => s
  { s1 with jmob := upd s1.jmob j (some mobNum) }

/-- `findHeaviestUnassignedForwardJoint(inb)`; accumulator = (jointNum, maxMass) -/
def findFwd (g : Input) (s : St) (inb : Nat) : Option Nat :=
  ((jointsAsParent s inb).foldl (fun (acc : Option Nat × Nat) j =>
      let jt := jointAt s j
      if (s.jmob j).isSome then acc
      else if jt.mustLoop then acc
      else if inTree s jt.child then acc
      else if massOf g jt.child > acc.2 then (some j, massOf g jt.child) else acc) (none, 0)).1

/-- `findHeaviestUnassignedReverseJoint(inb)` -/
def findRev (g : Input) (s : St) (inb : Nat) : Option Nat :=
  ((jointsAsChild s inb).foldl (fun (acc : Option Nat × Nat) j =>
      let jt := jointAt s j
      if (s.jmob j).isSome then acc
      else if jt.mustLoop then acc
      else if inTree s jt.parent then acc
      else if massOf g jt.parent > acc.2 then (some j, massOf g jt.parent) else acc) (none, 0)).1

/-- `mobilizers.back().outboardBody` -/
def lastOutb (s : St) : Nat := match s.mobs.getLast? with | some m => m.outb | none => 0

/-- the inner `while(true)` of `growTree` (extend a branch past a mobile massless body) -/
def extend (g : Input) : Nat → St → List Nat → Except Err (St × List Nat)
  | 0, _, _ => .error .fuel
  | fuel + 1, s, added =>
    let bNum := lastOutb s
    match findFwd g s bNum with
    | some jf =>
      if 0 < massOf g (jointAt s jf).child then .ok (addMob s jf, jf :: added)
      else match findRev g s bNum with
        | some jr =>
          if 0 < massOf g (jointAt s jr).parent then .ok (addMob s jr, jr :: added)
          else extend g fuel (addMob s jf) (jf :: added)
        | none => extend g fuel (addMob s jf) (jf :: added)
    | none =>
      match findRev g s bNum with
      | some jr =>
        if 0 < massOf g (jointAt s jr).parent then .ok (addMob s jr, jr :: added)
        else extend g fuel (addMob s jr) (jr :: added)
      | none => .error .terminalMassless

/-- level of the endpoint of a joint that is in the tree (`parent.level` if the parent is in the tree, else
`child.level`) -/
def inbLevel (s : St) (jt : Joint) : Nat :=
  match s.level jt.parent with | some l => l | none => (s.level jt.child).getD 0

/-- loop state of `growTree`: the graph, `jointsAdded`, `anyMobilizerAdded` -/
structure GS where
  s : St
  added : List Nat
  any : Bool

/-- body of the `for jNum` loop of `growTree` at outboard level `level` -/
def growJoint (g : Input) (level : Nat) (st : GS) (jNum : Nat) : Except Err GS :=
  let s := st.s
  let joint := jointAt s jNum
  match s.jmob jNum with
  | some m =>
    if st.added.contains jNum && (s.mobs.getD m ⟨0, 0, 0, 0, false⟩).level == level
    then .ok { st with any := true } else .ok st
  | none =>
    if joint.mustLoop then .ok st
    else if inTree s joint.parent == inTree s joint.child then .ok st       -- !(p.isInTree ^ c.isInTree)
    else if inbLevel s joint + 1 != level
      then .ok st                                                           -- "not time yet"
    else
      let s1 := addMob s jNum
      let added := jNum :: st.added
      if (typeOf g joint.type).nmob == 0 || 0 < massOf g (lastOutb s1) then .ok ⟨s1, added, true⟩
      else match extend g (s1.nb + 1) s1 added with
        | .ok (s2, added2) => .ok ⟨s2, added2, true⟩
        | .error e => .error e

/-- the `for (level=1;;++level)` loop of `growTree` -/
def growLevels (g : Input) : Nat → Nat → St → List Nat → Except Err St
  | 0, _, _, _ => .error .fuel
  | fuel + 1, level, s, added =>
    match (List.range s.joints.length).foldlM (growJoint g level) ⟨s, added, false⟩ with
    | .error e => .error e
    | .ok st => if st.any then growLevels g fuel (level + 1) st.s st.added else .ok st.s

def growTree (g : Input) (s : St) : Except Err St := growLevels g (s.nb + 1) 1 s []

/-- accumulator of `chooseNewBaseBody`: parentOnlyBodySeen, bestBody, nChildren (`none` = -1) -/
structure CB where
  seen : Bool
  best : Option Nat
  nCh : Option Nat

def chooseStep (s : St) (acc : CB) (bx : Nat) : CB :=
  if inTree s bx then acc
  else if acc.seen && !(jointsAsChild s bx).isEmpty then acc
  else if !acc.seen && (jointsAsChild s bx).isEmpty then
    ⟨true, some bx, some (jointsAsParent s bx).length⟩
  else if (match acc.nCh with | none => true | some n => decide (n < (jointsAsParent s bx).length)) then
    ⟨acc.seen, some bx, some (jointsAsParent s bx).length⟩
  else acc

def chooseNewBaseBody (s : St) : Option Nat :=
  ((List.range' 1 (s.nb - 1)).foldl (chooseStep s) ⟨false, none, none⟩).best

/-- step 2 of `generateGraph`: `while(true) { growTree(); b = chooseNewBaseBody(); if (b<0) break; connect(b); }` -/
def outer (g : Input) : Nat → St → Except Err St
  | 0, _ => .error .fuel
  | fuel + 1, s =>
    match growTree g s with
    | .error e => .error e
    | .ok s1 =>
      match chooseNewBaseBody s1 with
      | none => .ok s1
      | some b => outer g fuel (connectToGround s1 b)

/-- body of the loop of `breakLoops` (with `splitBody` inlined) -/
def breakStep (g : Input) (s : St) (jx : Nat) : St :=
  if (s.jmob jx).isSome then s else
  let ji := jointAt s jx
  if (typeOf g ji.type).good then
    { s with cons := s.cons ++ [⟨ji.type, jx, ji.parent, ji.child⟩],
             jloop := upd s.jloop jx (some s.cons.length) }
  else
    let sx := s.nb                    -- splitBody: next available body number
    let mobNum := s.mobs.length
    let level := match s.level ji.parent with | some l => l + 1 | none => 0
    { s with nb := s.nb + 1,
             master := upd s.master sx (some ji.child),
             slaves := upd s.slaves ji.child (s.slaves ji.child ++ [sx]),
             jmob := upd s.jmob jx (some mobNum),
             bmob := upd s.bmob sx (some mobNum),
             mobs := s.mobs ++ [⟨jx, level, ji.parent, sx, false⟩],
             level := upd s.level sx (some level) }

def breakLoops (g : Input) (s : St) : St := (List.range s.joints.length).foldl (breakStep g) s

def step1 (g : Input) : Except Err St :=
  (List.range' 1 (g.bodies.length - 1)).foldlM (checkBody g) (init g)

/-- `generateGraph()` -/
def generate (g : Input) : Except Err St :=
  match step1 g with
  | .error e => .error e
  | .ok s1 =>
    match outer g (g.bodies.length + 1) s1 with
    | .error e => .error e
    | .ok s2 => .ok (breakLoops g s2)

/-- legality of an input (what `addJointType/addBody/addJoint` accept; `addJoint` does not check the documented
precondition parent ≠ child, so self-joints are legal here too): there is a Ground body, joint endpoints and types exist -/
def Input.wf (g : Input) : Bool :=
  decide (0 < g.bodies.length) &&
  g.joints.all (fun j => decide (j.parent < g.bodies.length) && decide (j.child < g.bodies.length) &&
                         decide (j.type < (allTypes g).length) && !j.addedBase) &&
  g.userTypes.all (fun t => decide (t.nmob ≤ 6))

end C42
