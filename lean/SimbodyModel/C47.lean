import SimbodyModel.C34
/-!
# C47 — closed-form geodesics: executable model

`ContactGeometry::Sphere::Impl::shootGeodesicInDirectionAnalytically` (great circle) and
`ContactGeometry::Cylinder::Impl::shootGeodesicInDirectionAnalytically` (helix): the Frenet frame at the start
(`Rotation::setRotationFromTwoAxes(normal, Y, tangentApprox, X)`), and the knot at arc length `s`, written with the
trig pair `(c, s) = (cos φ, sin φ)` of the angle turned so far (the code applies a constant incremental rotation per
knot; the closed form is the same curve).  Angles enter only through trig pairs (`c² + s² = 1`), time derivatives
through jets with the lift `ċ = −s φ̇`, `ṡ = c φ̇` (DESIGN.md §1.3).
-/
namespace Geom
namespace Geo
variable {K : Type} [Add K] [Sub K] [Mul K] [Neg K] [Div K]
variable [OfNat K 0] [OfNat K 1] [OfNat K 2] [LT K] [DecidableLT K]

/-- start frame: outward normal `n` (unit, given) and the approximate tangent projected into the tangent plane:
`uveck = unit(n × ta)`, `tangent = unit(uveck × n)`, `binormal = −uveck` (x = tangent, y = normal, z = binormal) -/
def startTangent (sqrt : K → K) (n ta : V3 K) : V3 K := V3.unit sqrt (V3.cross (V3.unit sqrt (V3.cross n ta)) n)
def startBinormal (sqrt : K → K) (n ta : V3 K) : V3 K := V3.neg (V3.unit sqrt (V3.cross n ta))

/-- one knot of a geodesic: arc length, point, tangent, Jacobi scalars (rot, rotDot, trans, transDot) -/
structure Knot (K : Type) where
  s : K
  point : V3 K
  tangent : V3 K
  jRot : K
  jRotDot : K
  jTrans : K
  jTransDot : K

/-! ## sphere of radius `r`: great circle through `n` (unit normal at the start) with unit tangent `t ⟂ n` -/
namespace Sph
/-- the knot at arc length `sArc`; `(c, s)` is the trig pair of `sArc / r` -/
def knot (r : K) (n t : V3 K) (sArc c s : K) : Knot K :=
  let nq : V3 K := V3.add (V3.smul c n) (V3.smul s t)           -- normal at the knot
  let tq : V3 K := V3.add (V3.smul (-s) n) (V3.smul c t)        -- tangent at the knot
  ⟨sArc, V3.smul r nq, tq,
   -(V3.dot n tq) * r,          -- jacobiRot      = −(n_P · t_Q) r
   V3.dot n nq,                 -- jacobiRotDot   =  n_P · n_Q
   V3.dot t tq,                 -- jacobiTrans    =  t_P · t_Q
   -(V3.dot t nq) / r⟩          -- jacobiTransDot = −(t_P · n_Q)/r
end Sph

/-! ## cylinder of radius `R` about z: helix from the point with unit normal `n0 = (nx, ny, 0)`, height `h0`, unit tangent `t0 ⟂ n0` -/
namespace Cyl
/-- angular rate `dφ/ds = −b_z / R`, `b = t × n` the binormal -/
def omega (R : K) (n0 t0 : V3 K) : K := -((V3.cross t0 n0).z) / R
/-- rotate about z by the trig pair -/
def rotZ (c s : K) (v : V3 K) : V3 K := ⟨c * v.x - s * v.y, s * v.x + c * v.y, v.z⟩
/-- the knot at arc length `sArc`; `(c, s)` is the trig pair of `φ = omega · sArc` -/
def knot (R : K) (n0 t0 : V3 K) (h0 sArc c s : K) : Knot K :=
  let nq := rotZ c s n0
  ⟨sArc, ⟨nq.x * R + 0, nq.y * R + 0, nq.z * R + (h0 + sArc * t0.z)⟩, rotZ c s t0, sArc, 1, 1, 0⟩
end Cyl

/-! ## the loop as coded: `R = dR * R` with a constant incremental rotation (review E, C47 M1)

The code does not evaluate the closed form at `k·Δφ`; it keeps a Frenet frame `R` (columns x = tangent, y = normal,
z = binormal) and multiplies it from the left by the same `dR = Rotation(Δφ, axis)` once per knot. -/
/-- `Rotation(angle, unitAxis)` as a matrix (Rodrigues), from the trig pair `(c, s)` of the angle -/
def axisAngle (u : V3 K) (c s : K) : M3 K :=
  ⟨⟨c + (1 - c) * u.x * u.x, (1 - c) * u.x * u.y - s * u.z, (1 - c) * u.x * u.z + s * u.y⟩,
   ⟨(1 - c) * u.y * u.x + s * u.z, c + (1 - c) * u.y * u.y, (1 - c) * u.y * u.z - s * u.x⟩,
   ⟨(1 - c) * u.z * u.x - s * u.y, (1 - c) * u.z * u.y + s * u.x, c + (1 - c) * u.z * u.z⟩⟩
/-- the frame with the given columns -/
def frameOfCols (x y z : V3 K) : M3 K := ⟨⟨x.x, y.x, z.x⟩, ⟨x.y, y.y, z.y⟩, ⟨x.z, y.z, z.z⟩⟩
/-- the frame after `k` passes through `R = dR * R` -/
def frameIter (dR : M3 K) : Nat → M3 K → M3 K
  | 0, R => R
  | k + 1, R => M3.mul dR (frameIter dR k R)
/-- the trig pair of `k·Δφ` obtained from the pair `(cd, sd)` of `Δφ` by the addition law -/
def trigIter (cd sd : K) : Nat → K × K
  | 0 => (1, 0)
  | k + 1 => ((trigIter cd sd k).1 * cd - (trigIter cd sd k).2 * sd, (trigIter cd sd k).2 * cd + (trigIter cd sd k).1 * sd)

namespace Sph
/-- the knot the sphere loop writes from its current frame `R` (`t_Q`, `n_Q` = columns x, y); `nP`, `tP` are the start axes -/
def knotOfFrame (r : K) (nP tP : V3 K) (R : M3 K) (sArc : K) : Knot K :=
  let tq := M3.col0 R
  let nq := M3.col1 R
  ⟨sArc, V3.smul r nq, tq, -(V3.dot nP tq) * r, V3.dot nP nq, V3.dot tP tq, -(V3.dot tP nq) / r⟩
/-- knot `k` of the loop: start frame (t, n, t × n), axis = −binormal = −(t × n), `(cd, sd)` = trig pair of `dAngle` -/
def knotLoop (r : K) (n t : V3 K) (cd sd : K) (k : Nat) (sArc : K) : Knot K :=
  knotOfFrame r n t (frameIter (axisAngle (V3.neg (V3.cross t n)) cd sd) k (frameOfCols t n (V3.cross t n))) sArc
end Sph

namespace Cyl
/-- knot `k` of the cylinder loop: `dR = Rotation(dAngle, ZAxis)` -/
def knotLoop (R : K) (n0 t0 : V3 K) (h0 : K) (cd sd : K) (k : Nat) (sArc : K) : Knot K :=
  let F := frameIter (axisAngle (⟨0, 0, 1⟩ : V3 K) cd sd) k (frameOfCols t0 n0 (V3.cross t0 n0))
  let nq := M3.col1 F
  ⟨sArc, ⟨nq.x * R + 0, nq.y * R + 0, nq.z * R + (h0 + sArc * t0.z)⟩, M3.col0 F, sArc, 1, 1, 0⟩
end Cyl

/-! ## legacy two-point interface (`calcGeodesicAnalytical`): arc angle of the great circle through P and Q -/
/-- `angle = atan2(|e1 × eQ|, e1 · eQ)`, taken right- or left-handed according to the sign of the mean hint moment `M` -/
def sphArcAngle (atan2 : K → K → K) (twoPi : K) (sinA cosA M : K) : K :=
  let temp := atan2 sinA cosA
  let right := if temp < 0 then temp + twoPi else temp
  let left := if temp < 0 then temp else temp - twoPi
  if M < 0 then left else right

/-- `Sphere::calcGeodesicAnalytical`: length of the arc from P to Q chosen by the tangent hints -/
def sphPQLength (sqrt : K → K) (atan2 : K → K → K) (twoPi : K) (r : K) (P Q tP tQ : V3 K) : K :=
  let e1 := V3.unit sqrt P
  let eQ := V3.unit sqrt Q
  let axis := V3.cross e1 eQ
  let sinA := sqrt (V3.normSq axis)
  let cosA := V3.dot e1 eQ
  let e3 := V3.sdiv axis sinA
  let MP := V3.dot (V3.cross e1 tP) e3
  let MQ := V3.dot (V3.cross eQ tQ) e3
  let angle := sphArcAngle atan2 twoPi sinA cosA ((MP + MQ) / 2)
  absK (r * angle)

/-- `Cylinder::calcGeodesicAnalytical`: length of the helix from P to Q chosen by the tangent hints -/
def cylPQLength (sqrt : K → K) (atan2 : K → K → K) (twoPi : K) (R : K) (P Q tP tQ : V3 K) : K :=
  let temp := atan2 Q.y Q.x - atan2 P.y P.x
  let right := if temp < 0 then temp + twoPi else temp
  let left := if temp < 0 then temp else temp - twoPi
  let MP := P.x * tP.y - P.y * tP.x
  let MQ := Q.x * tQ.y - Q.y * tQ.x
  let angle := if (MP + MQ) / 2 < 0 then left else right
  let m := (Q.z - P.z) / (angle * R)
  R * sqrt (1 + m * m) * absK angle

end Geo
end Geom
