import SimbodyModel.Proto
/-!
# C41 — Function objects, smooth steps and spline evaluation (Mathlib-free model)

Mirrors, formula by formula,
* `SimTKcommon/Scalar/include/SimTKcommon/Scalar.h`: `stepUp/stepDown/stepAny`, `dstep…`, `d2step…`, `d3step…`
  and `clampInPlace`;
* `SimTKcommon/include/SimTKcommon/internal/Function.h`: `Function_<T>::Constant`, `Linear`, `Polynomial`,
  `Sinusoid`, `Step` (`calcValue`, `calcDerivative`);
* `SimTKmath/Geometry/src/gcvspl.cpp`: `SimTK_splder_` (Woltring's B-spline evaluation/differentiation,
  natural-spline end conditions) and `search_` (interval location), as called by
  `GCVSPLUtil::splder` / `Spline_::calcValue/calcDerivative`.

Everything is polymorphic in the scalar `K` (only the operations are assumed); it is proved about over
fields / ordered fields / the polynomial ring `K[X]` (SimbodyProofs/C41.lean) and executed over `Float`
(Drivers/C41.lean).  Integer-to-scalar conversions of the C++ (`coeff *= polyOrder-i-j`, `z *= j`) enter as
the parameter `ofNat : Nat → K`; `sin`/`cos` of the phase enter as the pair `(s, c)`.
-/
namespace C41

variable {K : Type} [Add K] [Sub K] [Mul K] [Neg K] [Div K]
variable [OfNat K 0] [OfNat K 1] [OfNat K 2] [OfNat K 3] [OfNat K 6] [OfNat K 10] [OfNat K 15]
variable [OfNat K 30] [OfNat K 60] [OfNat K 360]

/-! ## Scalar.h: smooth steps -/

/-- `stepUp(x) = x*x*x*(10+x*(6*x-15))` -/
def stepUp (x : K) : K := x * x * x * (10 + x * (6 * x - 15))
/-- `stepDown(x) = 1 - stepUp(x)` -/
def stepDown (x : K) : K := 1 - stepUp x
/-- `dstepUp(x) = 30*xxm1*xxm1` with `xxm1 = x*(x-1)` -/
def dstepUp (x : K) : K := let xxm1 := x * (x - 1); 30 * xxm1 * xxm1
def dstepDown (x : K) : K := -dstepUp x
/-- `d2stepUp(x) = 60*x*(1+x*(2*x-3))` -/
def d2stepUp (x : K) : K := 60 * x * (1 + x * (2 * x - 3))
def d2stepDown (x : K) : K := -d2stepUp x
/-- `d3stepUp(x) = 60+360*x*(x-1)` -/
def d3stepUp (x : K) : K := 60 + 360 * x * (x - 1)
def d3stepDown (x : K) : K := -d3stepUp x

/-- the un-clamped body of `stepAny` (what the formula is inside the transition interval) -/
def stepAnyCore (y0 yRange x0 ooxr x : K) : K := y0 + yRange * stepUp ((x - x0) * ooxr)
def dstepAnyCore (yRange x0 ooxr x : K) : K := yRange * ooxr * dstepUp ((x - x0) * ooxr)
/-- `square(oneOverXRange)` is `ooxr*ooxr` -/
def d2stepAnyCore (yRange x0 ooxr x : K) : K := yRange * (ooxr * ooxr) * d2stepUp ((x - x0) * ooxr)
/-- `cube(oneOverXRange)` is `ooxr*ooxr*ooxr` -/
def d3stepAnyCore (yRange x0 ooxr x : K) : K := yRange * (ooxr * ooxr * ooxr) * d3stepUp ((x - x0) * ooxr)

section Ordered
variable [LT K] [DecidableLT K] [LE K] [DecidableLE K]

/-- `clampInPlace(low, v, high)`: `if (v<low) v=low; else if (v>high) v=high;` -/
def clamp (low v high : K) : K := if v < low then low else if high < v then high else v

def stepAny (y0 yRange x0 ooxr x : K) : K := y0 + yRange * stepUp (clamp 0 ((x - x0) * ooxr) 1)
def dstepAny (yRange x0 ooxr x : K) : K := yRange * ooxr * dstepUp (clamp 0 ((x - x0) * ooxr) 1)
def d2stepAny (yRange x0 ooxr x : K) : K := yRange * (ooxr * ooxr) * d2stepUp (clamp 0 ((x - x0) * ooxr) 1)
def d3stepAny (yRange x0 ooxr x : K) : K :=
  yRange * (ooxr * ooxr * ooxr) * d3stepUp (clamp 0 ((x - x0) * ooxr) 1)

/-! ## Function.h: `Function_<T>::Step` -/

/-- `sign(x)` as a scalar: `x>0 ? 1 : (x<0 ? -1 : 0)` -/
def sign (x : K) : K := if 0 < x then 1 else if x < 0 then -1 else 0

/-- the members `setParameters` precomputes -/
structure StepFn (K : Type) where
  y0 : K
  y1 : K
  yr : K
  x0 : K
  x1 : K
  ooxr : K
  sgn : K

def StepFn.mk' (y0 y1 x0 x1 : K) : StepFn K :=
  let ooxr := 1 / (x1 - x0)
  { y0 := y0, y1 := y1, yr := y1 - y0, x0 := x0, x1 := x1, ooxr := ooxr, sgn := sign ooxr }

/-- `Step::calcValue` -/
def StepFn.value (f : StepFn K) (x : K) : K :=
  if (x - f.x0) * f.sgn ≤ 0 then f.y0
  else if 0 ≤ (x - f.x1) * f.sgn then f.y1
  else
    let s := stepAny 0 1 f.x0 f.ooxr x
    f.y0 + s * f.yr

/-- `Step::calcDerivative` for `derivOrder ∈ {1,2,3}` (other orders throw in the C++) -/
def StepFn.deriv (f : StepFn K) (order : Nat) (x : K) : K :=
  if (x - f.x0) * f.sgn ≤ 0 then 0
  else if 0 ≤ (x - f.x1) * f.sgn then 0
  else match order with
    | 1 => dstepAny 1 f.x0 f.ooxr x * f.yr
    | 2 => d2stepAny 1 f.x0 f.ooxr x * f.yr
    | 3 => d3stepAny 1 f.x0 f.ooxr x * f.yr
    | _ => 0
end Ordered

/-! ## Function.h: Constant, Linear, Polynomial, Sinusoid -/

def constValue (v : K) : K := v
def constDeriv (_v : K) : K := 0

/-- `Linear::calcValue`: `value=0; for i<x.size(): value += x[i]*c[i]; value += c[x.size()]` -/
def linAcc : K → List K → List K → K
  | acc, c :: cs, x :: xs => linAcc (acc + x * c) cs xs
  | acc, c :: _, [] => acc + c
  | acc, [], _ => acc
def linearValue (coeffs xs : List K) : K := linAcc 0 coeffs xs

/-- `Linear::calcDerivative`: one index -> that coefficient; two or more -> 0 -/
def linearDeriv (coeffs : List K) (derivComponents : List Nat) : K :=
  match derivComponents with
  | [j] => coeffs.getD j 0
  | _ => 0

/-- Horner loop `value = value*arg + coefficients[i]`, coefficients in order of decreasing powers -/
def horner (coeffs : List K) (x : K) : K := coeffs.foldl (fun v a => v * x + a) 0

def polyValue (coeffs : List K) (x : K) : K := horner coeffs x

/-- inner loop `for j<derivOrder: coeff *= polyOrder-i-j` (the int is converted to `T`) -/
def polyDerivCoeff (ofNat : Nat → K) (polyOrder i derivOrder : Nat) (c : K) : K :=
  (List.range derivOrder).foldl (fun coeff j => coeff * ofNat (polyOrder - i - j)) c

/-- the coefficients the outer loop `for i <= polyOrder-derivOrder` feeds to Horner -/
def polyDerivCoeffs (ofNat : Nat → K) (coeffs : List K) (derivOrder : Nat) : List K :=
  let polyOrder := coeffs.length - 1
  if coeffs.length < derivOrder + 1 then []
  else (List.range (polyOrder - derivOrder + 1)).map
        (fun i => polyDerivCoeff ofNat polyOrder i derivOrder (coeffs.getD i 0))

/-- `Polynomial::calcDerivative` -/
def polyDeriv (ofNat : Nat → K) (coeffs : List K) (derivOrder : Nat) (x : K) : K :=
  horner (polyDerivCoeffs ofNat coeffs derivOrder) x

/-- `w^n` by repeated multiplication (stands for `std::pow(w, order)`) -/
def npow (w : K) : Nat → K
  | 0 => 1
  | n + 1 => npow w n * w

/-- `Sinusoid::calcDerivative` (order 0 is `calcValue`), written as the pair of coefficients
`(α, β)` of the returned value `α·sin(wt+p) + β·cos(wt+p)` -/
def sinusoidCoefs (order : Nat) (a w : K) : K × K :=
  match order with
  | 0 => (a, 0)
  | 1 => (0, a * w)
  | 2 => (-a * w * w, 0)
  | 3 => (0, -a * w * w * w)
  | _ =>
    let sgn : K := if (order / 2) % 2 = 1 then -1 else 1
    let wn := npow w order
    if order % 2 = 1 then (0, sgn * a * wn) else (sgn * a * wn, 0)

/-- value of the `order`-th derivative given `s = sin(wt+p)`, `c = cos(wt+p)`: `α·s + β·c` (one of the two
coefficients is always the literal 0, so over `Float` this is the C++ expression up to the sign of zero) -/
def sinusoidDeriv (order : Nat) (a w s c : K) : K :=
  let ab := sinusoidCoefs order a w
  ab.1 * s + ab.2 * c

/-! ## gcvspl.cpp: `search_` and `SimTK_splder_` -/

section Spline
variable [LT K] [DecidableLT K] [LE K] [DecidableLE K]

/-- `search_`: `l = 0` if `t < x[1]`, `l = n` if `t >= x[n]`, else the `l` with `x[l] <= t < x[l+1]`
(1-based).  The initial guess the C++ passes only affects speed; for strictly increasing knots the result is
the number of knots `<= t`. -/
def searchL (x : Array K) (n : Nat) (t : K) : Nat :=
  if t < x.getD 0 0 then 0
  else if x.getD (n - 1) 0 ≤ t then n
  else (List.range n).foldl (fun cnt i => if x.getD i 0 ≤ t then cnt + 1 else cnt) 0

/-- The body of `SimTK_splder_(ider, m, n, t, x, c, l, q)` after the interval index `l` has been found: value (`ider = 0`) or `ider`-th derivative at `t` of the
natural spline of order `2m` with knots `x[1..n]` and B-spline coefficients `c[1..n]`.  Arrays are
addressed 1-based exactly as in the f2c source (`q`, `x`, `c` shifted by one). -/
def splderAt (ofNat : Nat → K) (ider m n : Nat) (l0 : Nat) (t : K) (x c : Array K) : K := Id.run do
  let X : Int → K := fun i => x.getD (i - 1).toNat 0
  let C : Int → K := fun i => c.getD (i - 1).toNat 0
  let m2 : Int := 2 * (m : Int)
  let k : Int := m2 - (ider : Int)
  if k < 1 then return 0
  let l : Int := (l0 : Nat)
  let tt := t
  let mp1 : Int := m + 1
  let npm : Int := (n : Int) + m
  let m2m1 : Int := m2 - 1
  let k1 : Int := k - 1
  let nk : Int := (n : Int) - k
  let lk : Int := l - k
  let lk1 : Int := lk + 1
  let mut jl : Int := l + 1
  let ju : Int := l + m2
  let mut ii : Int := (n : Int) - m2
  let mut ml : Int := -l
  let mut q : Array K := Array.replicate (2 * m + 2) 0
  let Q : Array K → Int → K := fun q i => q.getD i.toNat 0
  -- for (j = jl; j <= ju; ++j)
  for jn in [0:(ju - jl + 1).toNat] do
    let j : Int := jl + jn
    if mp1 ≤ j ∧ j ≤ npm then
      q := q.setIfInBounds (j + ml).toNat (C (j - m))
    else
      q := q.setIfInBounds (j + ml).toNat 0
  if ider > 0 then
    jl := jl - m2
    ml := ml + m2
    for i0 in [0:ider] do
      let i : Int := (i0 : Int) + 1
      jl := jl + 1
      ii := ii + 1
      let j1 : Int := max 1 jl
      let j2 : Int := min l ii
      let mi : Int := m2 - i
      let mut j : Int := j2 + 1
      if j1 ≤ j2 then
        for _ in [0:(j2 - j1 + 1).toNat] do
          j := j - 1
          let jm := ml + j
          q := q.setIfInBounds jm.toNat ((Q q jm - Q q (jm - 1)) / (X (j + mi) - X j))
      if jl < 1 then
        let i1 : Int := i + 1
        j := ml + 1
        if i1 ≤ ml then
          for _ in [0:(ml - i1 + 1).toNat] do
            j := j - 1
            q := q.setIfInBounds j.toNat (-(Q q (j - 1)))
    for j0 in [0:k.toNat] do
      let j : Int := (j0 : Int) + 1
      q := q.setIfInBounds j.toNat (Q q (j + ider))
  if k1 ≥ 1 then
    for i0 in [0:k1.toNat] do
      let i : Int := (i0 : Int) + 1
      let nki : Int := nk + i
      let mut ir : Int := k
      let mut jj : Int := l
      let ki : Int := k - i
      let nki1 : Int := nki + 1
      if l ≥ nki1 then
        for _ in [0:(l - nki1 + 1).toNat] do
          q := q.setIfInBounds ir.toNat (Q q (ir - 1) + (tt - X jj) * Q q ir)
          jj := jj - 1
          ir := ir - 1
      let lk1i : Int := lk1 + i
      let j1 : Int := max 1 lk1i
      let j2 : Int := min l nki
      if j1 ≤ j2 then
        for _ in [0:(j2 - j1 + 1).toNat] do
          let xjki := X (jj + ki)
          let z := Q q ir
          q := q.setIfInBounds ir.toNat (z + (xjki - tt) * (Q q (ir - 1) - z) / (xjki - X jj))
          ir := ir - 1
          jj := jj - 1
      if lk1i ≤ 0 then
        jj := ki
        let lk1i1 : Int := 1 - lk1i
        for _ in [0:lk1i1.toNat] do
          q := q.setIfInBounds ir.toNat (Q q ir + (X jj - tt) * Q q (ir - 1))
          jj := jj - 1
          ir := ir - 1
  let mut z := Q q k
  if ider > 0 then
    for j0 in [0:(m2m1 - k + 1).toNat] do
      z := z * ofNat (k + j0).toNat
  return z

/-- `SimTK_splder_` proper: locate the knot interval with `search_`, then evaluate there.  (`splderAt` is everything
after the `search_` call; it uses no comparison of scalars, so it can also be run over a polynomial ring.) -/
def splder (ofNat : Nat → K) (ider m n : Nat) (t : K) (x c : Array K) : K :=
  splderAt ofNat ider m n (searchL x n t) t x c
end Spline

end C41
