/-!
# C22 — event detection, localisation and ordering: model

Mirrors, formula by formula / branch by branch,
* `Event::classifyTransition`, `Event::maskTransition`, `EventTriggerInfo::calcTransitionMask`,
  `EventTriggerInfo::calcTransitionToReport`  (SimTKcommon/Simulation/include/SimTKcommon/internal/Event.h),
* `IntegratorRep::estimateRootTime`, `IntegratorRep::findEventCandidates`, `EventSorter`/`calcEventOrder`
  (SimTKmath/Integrators/src/IntegratorRep.h),
* the event part of `AbstractIntegratorRep::takeOneStep` (first pass, "localized already" shortcut, the
  `do … while ((tHigh-tLow) > narrowestWindow)` localisation loop with bias / side memory / forced
  `tMid = tReport`)  (SimTKmath/Integrators/src/AbstractIntegratorRep.cpp),
* the choice of `t1` in `takeOneStep` (0.95 / 1.001 rule) used to replay fixed-step runs,
* the dispatch loop of `TimeStepperRep::stepTo` (SimTKmath/Integrators/src/TimeStepper.cpp) as a function of the
  integrator's return statuses.

Polymorphic in the scalar `K` (proved over any linear ordered field in `SimbodyProofs/C22.lean`, executed at
`Float` by `Drivers/C22.lean`).  Trigger function values at probe times are an ORACLE `eval : K → Nat → K`.
`Event::Trigger` values are the bit masks of the C++ enum (0 none, 1 PositiveToNegative/Falling,
2 NegativeToPositive/Rising, 3 AnySignChange).  Mathlib-free.
-/
namespace C22

/-- `SimTK::sign(x)` : -1, 0, 1 -/
def sign {K : Type} [LT K] [DecidableLT K] [OfNat K 0] (x : K) : Int :=
  if 0 < x then 1 else if x < 0 then -1 else 0

/-- `Event::classifyTransition(before, after)` (arguments are signs) -/
def classifyTransition (before after : Int) : Nat :=
  if before = after then 0
  else if before = 0 then 0      -- do not report transitions away from zero
  else if before = 1 then 1      -- PositiveToNegative
  else 2                         -- NegativeToPositive

/-- `Event::maskTransition(transition, mask)` = `Trigger(transition & mask)` -/
def maskTransition (transition mask : Nat) : Nat := Nat.land transition mask

/-- `EventTriggerInfo::calcTransitionMask()` -/
def calcTransitionMask (rising falling : Bool) : Nat :=
  Nat.lor (if rising then 2 else 0) (if falling then 1 else 0)

/-- `EventTriggerInfo::calcTransitionToReport(transitionSeen)` -/
def calcTransitionToReport (t : Nat) : Nat :=
  if Nat.land t 2 ≠ 0 then 2 else if Nat.land t 1 ≠ 0 then 1 else 0

/-- per-trigger data the integrator reads from `EventTriggerInfo` -/
structure TrigInfo (K : Type) where
  mask   : Nat     -- calcTransitionMask()
  window : K       -- getRequiredLocalizationTimeWindow()
  id     : Nat     -- getEventId()

section
variable {K : Type} [Add K] [Sub K] [Mul K] [Div K] [LT K] [LE K] [DecidableLT K] [DecidableLE K]
  [OfNat K 0] [OfNat K 1] [OfNat K 2]

/-- `std::max(a,b)` = `(a < b) ? b : a` -/
def mx (a b : K) : K := if a < b then b else a
/-- `std::min(a,b)` = `(b < a) ? b : a` -/
def mn (a b : K) : K := if b < a then b else a
/-- `x == 0` for non-NaN `x` -/
def isZero (x : K) : Bool := !(decide (x < 0)) && !(decide (0 < x))

/-- `IntegratorRep::estimateRootTime`; `tenth` is the literal `0.1` of the buffer zone -/
def estimateRootTime (tenth tLow fLow tHigh fHigh bias minWindow : K) : K :=
  let h := tHigh - tLow
  if isZero fLow || isZero fHigh || decide (h ≤ minWindow) then
    tLow + h / 2                                   -- bisecting
  else
    let x := fHigh / (fHigh - bias * fLow)         -- secant method
    let tRoot := tHigh - x * h
    let bufferZone := mx (tenth * h) (minWindow / 2)
    let tRoot := mx tRoot (tLow + bufferZone)
    mn tRoot (tHigh - bufferZone)

/-- result of `findEventCandidates` -/
structure Cands (K : Type) where
  cands     : List Nat     -- trigger indices
  ests      : List K       -- timeEstimates
  trans     : List Nat     -- transitions (as reported)
  earliest  : K            -- earliestTimeEst
  narrowest : K            -- narrowestWindow

/-- one iteration of the `for` loop of `findEventCandidates` for trigger index `e` -/
def fecStep (tenth accTs : K) (infos : Nat → TrigInfo K) (tLow : K) (eLow : Nat → K) (tHigh : K) (eHigh : Nat → K)
    (bias minWindow : K) (acc : Cands K) (e : Nat) : Cands K :=
  let seen := maskTransition (classifyTransition (sign (eLow e)) (sign (eHigh e))) (infos e).mask
  if seen ≠ 0 then
    let est := estimateRootTime tenth tLow (eLow e) tHigh (eHigh e) bias minWindow
    { cands := acc.cands ++ [e],
      ests := acc.ests ++ [est],
      trans := acc.trans ++ [calcTransitionToReport seen],
      earliest := mn acc.earliest est,
      narrowest := mx (mn acc.narrowest (accTs * (infos e).window)) minWindow }
  else acc

/-- `IntegratorRep::findEventCandidates`; `viable` = the list to look at (all triggers `0..n-1` on the first
pass), `inf` = `Infinity`, `accTs` = `accuracyInUse*timeScaleInUse` -/
def findEventCandidates (tenth inf accTs : K) (infos : Nat → TrigInfo K) (viable : List Nat)
    (tLow : K) (eLow : Nat → K) (tHigh : K) (eHigh : Nat → K) (bias minWindow : K) : Cands K :=
  viable.foldl (fecStep tenth accTs infos tLow eLow tHigh eHigh bias minWindow)
    { cands := [], ests := [], trans := [], earliest := inf, narrowest := inf }

/-- state of the localisation loop -/
structure Loc (K : Type) where
  tLow  : K
  eLow  : Nat → K
  tHigh : K
  eHigh : Nat → K
  bias  : K
  side2 : Int      -- sideTwoItersAgo
  side1 : Int      -- sidePrevIter
  c     : Cands K  -- eventCandidates / eventTimeEstimates / eventCandidateTransitions / earliestTimeEst / narrowestWindow

/-- one pass through the body of the `do … while` localisation loop -/
def locIter (tenth inf accTs : K) (infos : Nat → TrigInfo K) (eval : K → Nat → K) (tReport minWindow : K)
    (s : Loc K) : Loc K :=
  let bias :=
    if s.side2 ≠ 0 ∧ s.side1 ≠ 0 then
      (if s.side2 ≠ s.side1 then 1 else if s.side1 < 0 then s.bias / 2 else s.bias * 2)
    else s.bias
  let tMid := if s.tLow < tReport ∧ tReport < s.tHigh then tReport else s.c.earliest
  let eMid := eval tMid
  let lo := findEventCandidates tenth inf accTs infos s.c.cands s.tLow s.eLow tMid eMid bias minWindow
  if lo.cands ≠ [] then
    { s with tHigh := tMid, eHigh := eMid, bias := bias, side2 := s.side1, side1 := -1, c := lo }
  else
    let hi := findEventCandidates tenth inf accTs infos s.c.cands tMid eMid s.tHigh s.eHigh bias minWindow
    { s with tLow := tMid, eLow := eMid, bias := bias, side2 := s.side1, side1 := 1, c := hi }

/-- the `do … while ((tHigh-tLow) > narrowestWindow)` loop, with fuel -/
def locLoop (tenth inf accTs : K) (infos : Nat → TrigInfo K) (eval : K → Nat → K) (tReport minWindow : K) :
    Nat → Loc K → Option (Loc K)
  | 0, _ => none
  | fuel + 1, s =>
    let s' := locIter tenth inf accTs infos eval tReport minWindow s
    if s'.c.narrowest < s'.tHigh - s'.tLow then locLoop tenth inf accTs infos eval tReport minWindow fuel s'
    else some s'

/-- result of the event part of `takeOneStep`: `none` = no event (or out of fuel: `fuelOut`) -/
structure LocResult (K : Type) where
  tLow  : K
  tHigh : K
  c     : Cands K

inductive LocOutcome (K : Type) where
  | noEvent
  | event (r : LocResult K)
  | fuelOut

/-- event detection and localisation of `takeOneStep` after a successful step from `t0` to `t1`;
`n` = number of triggers -/
def localize (tenth inf accTs : K) (infos : Nat → TrigInfo K) (eval : K → Nat → K) (n : Nat)
    (t0 t1 tReport minWindow : K) (fuel : Nat) : LocOutcome K :=
  let e0 := eval t0
  let e1 := eval t1
  let first := findEventCandidates tenth inf accTs infos (List.range n) t0 e0 t1 e1 1 minWindow
  if first.cands = [] then .noEvent
  else if t1 - t0 ≤ first.narrowest ∧ ¬ (t0 < tReport ∧ tReport < t1) then
    .event { tLow := t0, tHigh := t1, c := first }       -- localized already
  else
    match locLoop tenth inf accTs infos eval tReport minWindow fuel
        { tLow := t0, eLow := e0, tHigh := t1, eHigh := e1, bias := 1, side2 := 0, side1 := 0, c := first } with
    | none => .fuelOut
    | some s => .event { tLow := s.tLow, tHigh := s.tHigh, c := s.c }

/-- the choice of the trial end time `t1` in `takeOneStep` (`c095`, `c1001` are the literals 0.95 and 1.001) -/
def chooseT1 (c095 c1001 t0 h tMax : K) : K :=
  if tMax < t0 + c095 * h then tMax
  else if t0 + c1001 * h < tMax then t0 + h
  else tMax

/-- `EventSorter::operator<` on (estTime, id) -/
def sorterLt (a b : K × Nat) : Bool :=
  if a.1 < b.1 then true else if b.1 < a.1 then false else decide (a.2 < b.2)

/-- insertion into a list sorted by `sorterLt` (stable) -/
def insertSorted (x : K × Nat) : List (K × Nat) → List (K × Nat)
  | [] => [x]
  | y :: ys => if sorterLt x y then x :: y :: ys else y :: insertSorted x ys

/-- `calcEventOrder` + the permutation applied by `setTriggeredEvents`: events sorted by estimated time, ties by id
(`std::sort` with a strict weak order whose ties are identical keys only when ids coincide) -/
def sortEvents (evs : List (K × Nat)) : List (K × Nat) := evs.foldr insertSorted []

end

/-! ### `TimeStepperRep::stepTo` dispatch (discrete) -/

/-- what the time stepper does after one `integ->stepTo` return -/
inductive TSAction where
  | continueLoop          -- `continue`
  | returnToCaller        -- `return status`
  | report                -- `system.reportEvents(… Scheduled …)` (then continue or return)
  | handle (cause : Nat)  -- `system.handleEvents` with Event::Cause (2 Triggered, 3 Scheduled, 4 TimeAdvanced, 6 Termination) + reinitialize
  deriving DecidableEq, Repr

/-- the `switch (status)` of `TimeStepperRep::stepTo` (status = Integrator::SuccessfulStepStatus code) -/
def tsDispatch (status : Nat) : Option TSAction :=
  match status with
  | 5 => some .continueLoop         -- ReachedStepLimit
  | 7 => some .continueLoop         -- StartOfContinuousInterval
  | 1 => some .report               -- ReachedReportTime
  | 3 => some (.handle 3)           -- ReachedScheduledEvent
  | 4 => some (.handle 4)           -- TimeHasAdvanced
  | 2 => some (.handle 2)           -- ReachedEventTrigger
  | 6 => some (.handle 6)           -- EndOfSimulation
  | _ => none

end C22
