/-!
# `key! "name"` — a name as a natural number, computed at elaboration time

Comparing `String` literals inside the kernel costs ~0.25 s per comparison with this toolchain, a `Nat` comparison
nothing.  The C46 inventory (generated) and its allow-list (hand-written) therefore carry every object name as
`key! "<name>"`: the macro below expands the literal, when the file is elaborated, to the number whose base-256
digits are the UTF-8 bytes of the name (big-endian) — an injective encoding for names without NUL bytes.  Both sides
use this same macro, so no encoding has to be trusted from the Python generator.
-/
namespace C46

/-- base-256 big-endian value of the UTF-8 bytes -/
def keyOfString (s : String) : Nat := s.toUTF8.foldl (fun acc b => acc * 256 + b.toNat) 0

open Lean in
macro "key! " s:str : term => return Syntax.mkNumLit (toString (keyOfString s.getString))

end C46
