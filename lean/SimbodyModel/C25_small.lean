import SimbodyModel.Proto
/-!
# C25 — fixed-size Vec / Row / Mat / SymMat arithmetic, negator and conjugate adaptors (kind A, polymorphic in K)

Formulas transcribed from `SmallMatrixMixed.h` (`det`, `inverse`, `cross`, `crossMat`), `SymMat.h` (packed
storage: diagonal first, then the strict lower triangle by columns; `lowerIx`), `negator.h`, `conjugate.h`.
Proved over any commutative ring / field in `SimbodyProofs/C25.lean`, executed over `Float` by `Drivers/C25.lean`.
-/
namespace C25

variable {K : Type} [Add K] [Sub K] [Mul K] [Neg K]

/-! ## Vec3 / Vec2 -/
structure V3 (K : Type) where
  x : K
  y : K
  z : K
deriving Repr

structure V2 (K : Type) where
  x : K
  y : K
deriving Repr

namespace V3
def add (a b : V3 K) : V3 K := ⟨a.x + b.x, a.y + b.y, a.z + b.z⟩
def sub (a b : V3 K) : V3 K := ⟨a.x - b.x, a.y - b.y, a.z - b.z⟩
def neg (a : V3 K) : V3 K := ⟨-a.x, -a.y, -a.z⟩
def smul (a : V3 K) (s : K) : V3 K := ⟨a.x * s, a.y * s, a.z * s⟩
/-- `~a * b` -/
def dot (a b : V3 K) : K := a.x * b.x + a.y * b.y + a.z * b.z
/-- `cross(Vec3,Vec3)`: `(a[1]*b[2]-a[2]*b[1], a[2]*b[0]-a[0]*b[2], a[0]*b[1]-a[1]*b[0])` -/
def cross (a b : V3 K) : V3 K :=
  ⟨a.y * b.z - a.z * b.y, a.z * b.x - a.x * b.z, a.x * b.y - a.y * b.x⟩
def toList (a : V3 K) : List K := [a.x, a.y, a.z]
end V3

/-- 2d cross product `a[0]*b[1]-a[1]*b[0]` -/
def V2.cross (a b : V2 K) : K := a.x * b.y - a.y * b.x

/-! ## Mat22 / Mat33 (fields in row order, as the `Mat` element constructors take them) -/
structure M22 (K : Type) where
  a00 : K
  a01 : K
  a10 : K
  a11 : K
deriving Repr

structure M33 (K : Type) where
  a00 : K
  a01 : K
  a02 : K
  a10 : K
  a11 : K
  a12 : K
  a20 : K
  a21 : K
  a22 : K
deriving Repr

namespace M22
def mul (a b : M22 K) : M22 K :=
  ⟨a.a00 * b.a00 + a.a01 * b.a10, a.a00 * b.a01 + a.a01 * b.a11,
   a.a10 * b.a00 + a.a11 * b.a10, a.a10 * b.a01 + a.a11 * b.a11⟩
def transpose (a : M22 K) : M22 K := ⟨a.a00, a.a10, a.a01, a.a11⟩
/-- `det(Mat22)`: `m(0,0)*m(1,1) - m(0,1)*m(1,0)` -/
def det (m : M22 K) : K := m.a00 * m.a11 - m.a01 * m.a10
def toList (a : M22 K) : List K := [a.a00, a.a01, a.a10, a.a11]
end M22

namespace M33
def mul (a b : M33 K) : M33 K :=
  ⟨a.a00 * b.a00 + a.a01 * b.a10 + a.a02 * b.a20, a.a00 * b.a01 + a.a01 * b.a11 + a.a02 * b.a21,
   a.a00 * b.a02 + a.a01 * b.a12 + a.a02 * b.a22,
   a.a10 * b.a00 + a.a11 * b.a10 + a.a12 * b.a20, a.a10 * b.a01 + a.a11 * b.a11 + a.a12 * b.a21,
   a.a10 * b.a02 + a.a11 * b.a12 + a.a12 * b.a22,
   a.a20 * b.a00 + a.a21 * b.a10 + a.a22 * b.a20, a.a20 * b.a01 + a.a21 * b.a11 + a.a22 * b.a21,
   a.a20 * b.a02 + a.a21 * b.a12 + a.a22 * b.a22⟩
def mulVec (a : M33 K) (v : V3 K) : V3 K :=
  ⟨a.a00 * v.x + a.a01 * v.y + a.a02 * v.z, a.a10 * v.x + a.a11 * v.y + a.a12 * v.z,
   a.a20 * v.x + a.a21 * v.y + a.a22 * v.z⟩
def add (a b : M33 K) : M33 K :=
  ⟨a.a00 + b.a00, a.a01 + b.a01, a.a02 + b.a02, a.a10 + b.a10, a.a11 + b.a11, a.a12 + b.a12,
   a.a20 + b.a20, a.a21 + b.a21, a.a22 + b.a22⟩
def neg (a : M33 K) : M33 K :=
  ⟨-a.a00, -a.a01, -a.a02, -a.a10, -a.a11, -a.a12, -a.a20, -a.a21, -a.a22⟩
def transpose (a : M33 K) : M33 K := ⟨a.a00, a.a10, a.a20, a.a01, a.a11, a.a21, a.a02, a.a12, a.a22⟩
/-- `det(Mat33)` -/
def det (m : M33 K) : K :=
  m.a00 * (m.a11 * m.a22 - m.a12 * m.a21) - m.a01 * (m.a10 * m.a22 - m.a12 * m.a20)
    + m.a02 * (m.a10 * m.a21 - m.a11 * m.a20)
def toList (a : M33 K) : List K := [a.a00, a.a01, a.a02, a.a10, a.a11, a.a12, a.a20, a.a21, a.a22]
end M33

/-- `crossMat(Vec3)` -/
def crossMat [OfNat K 0] (v : V3 K) : M33 K := ⟨0, -v.z, v.y, v.z, 0, -v.x, -v.y, v.x, 0⟩

section inverse
variable [Div K] [OfNat K 1]

def M22.one [OfNat K 0] : M22 K := ⟨1, 0, 0, 1⟩
def M33.one [OfNat K 0] : M33 K := ⟨1, 0, 0, 0, 1, 0, 0, 0, 1⟩

/-- `inverse(Mat22)`: `ood = 1/det`, `( ood*m11, -ood*m01, -ood*m10, ood*m00 )` -/
def M22.inverse (m : M22 K) : M22 K :=
  let ood := 1 / m.det
  ⟨ood * m.a11, -ood * m.a01, -ood * m.a10, ood * m.a00⟩

/-- `inverse(Mat33)` with the same intermediate 2×2 determinants as the C++ -/
def M33.inverse (m : M33 K) : M33 K :=
  let d00 := m.a11 * m.a22 - m.a12 * m.a21
  let nd01 := m.a12 * m.a20 - m.a10 * m.a22
  let d02 := m.a10 * m.a21 - m.a11 * m.a20
  let d := m.a00 * d00 + m.a01 * nd01 + m.a02 * d02
  let ood := 1 / d
  let nd10 := m.a02 * m.a21 - m.a01 * m.a22
  let d11 := m.a00 * m.a22 - m.a02 * m.a20
  let nd12 := m.a01 * m.a20 - m.a00 * m.a21
  let d20 := m.a01 * m.a12 - m.a02 * m.a11
  let nd21 := m.a02 * m.a10 - m.a00 * m.a12
  let d22 := m.a00 * m.a11 - m.a01 * m.a10
  ⟨ood * d00, ood * nd10, ood * d20,
   ood * nd01, ood * d11, ood * nd21,
   ood * d02, ood * nd12, ood * d22⟩
end inverse

/-! ## SymMat: packed storage, diagonal first then the strict lower triangle by columns -/

/-- `SymMat::lowerIx(i,j)` for `j < i < n`: `(i-j-1) + j*(M-1) - (j*(j-1))/2` -/
def lowerIx (n i j : Nat) : Nat := (i - j - 1) + j * (n - 1) - (j * (j - 1)) / 2

/-- index into the packed array `d[]` of element (i,j), `j ≤ i < n` -/
def symIx (n i j : Nat) : Nat := if i = j then i else n + lowerIx n i j

/-- `SymMat33` in storage order: d0 d1 d2 | l0=a10 l1=a20 l2=a21 -/
structure S33 (K : Type) where
  d0 : K
  d1 : K
  d2 : K
  l10 : K
  l20 : K
  l21 : K
deriving Repr

namespace S33
/-- the element constructor `SymMat33(e0, e1,e2, e3,e4,e5)` takes the lower triangle by rows -/
def ofRows (e0 e1 e2 e3 e4 e5 : K) : S33 K := ⟨e0, e2, e5, e1, e3, e4⟩
def toM33 (s : S33 K) : M33 K := ⟨s.d0, s.l10, s.l20, s.l10, s.d1, s.l21, s.l20, s.l21, s.d2⟩
def add (a b : S33 K) : S33 K := ⟨a.d0 + b.d0, a.d1 + b.d1, a.d2 + b.d2, a.l10 + b.l10, a.l20 + b.l20, a.l21 + b.l21⟩
/-- `det(SymMat33)` (real elements: upper = lower) -/
def det (s : S33 K) : K :=
  s.d0 * (s.d1 * s.d2 - s.l21 * s.l21) - s.l10 * (s.l10 * s.d2 - s.l21 * s.l20)
    + s.l20 * (s.l10 * s.l21 - s.d1 * s.l20)
def packed (s : S33 K) : List K := [s.d0, s.d1, s.d2, s.l10, s.l20, s.l21]
/-- `inverse(SymMat33)` as documented: the formula of `inverse(Mat33)` on the symmetric elements
`s(i,j) = s(j,i)`, returning the packed lower triangle.  (The pinned C++ evaluates `s(1,2)`, `s(0,2)` through
`SymMat::operator()(i,j)`, which is only valid for `i ≥ j`: finding, see notes/C25.md.) -/
def inverse [Div K] [OfNat K 1] (s : S33 K) : S33 K :=
  let d00 := s.d1 * s.d2 - s.l21 * s.l21
  let nd01 := s.l21 * s.l20 - s.l10 * s.d2
  let d02 := s.l10 * s.l21 - s.d1 * s.l20
  let d := s.d0 * d00 + s.l10 * nd01 + s.l20 * d02
  let ood := 1 / d
  let d11 := s.d0 * s.d2 - s.l20 * s.l20
  let nd12 := s.l10 * s.l20 - s.d0 * s.l21
  let d22 := s.d0 * s.d1 - s.l10 * s.l10
  ⟨ood * d00, ood * d11, ood * d22, ood * nd01, ood * d02, ood * nd12⟩
end S33

/-! ## general n×n determinant: Laplace expansion along the first row (the recursive template `det(Mat<M,M>)`) -/

def dropNth {α : Type} : Nat → List α → List α
  | _, [] => []
  | 0, _ :: t => t
  | n + 1, h :: t => h :: dropNth n t

/-- `result += sign*m(0,j)*det(m2.dropCol(j)); sign = -sign`.  Fuel = the dimension. -/
def detN [OfNat K 0] [OfNat K 1] : Nat → List (List K) → K
  | 0, _ => 1
  | fuel + 1, m =>
    match m with
    | [] => 1
    | r0 :: rest =>
      let n := r0.length
      ((List.range n).foldl (fun (acc : K × K) j =>
        let minor := rest.map (dropNth j)
        (acc.1 + acc.2 * (r0.getD j 0) * detN fuel minor, -acc.2)) ((0 : K), (1 : K))).1

/-! ## general M×N `Mat`, `Vec<N>`, `Row<N>` as lists (sizes 1..6, non-square products) -/

def lget [OfNat K 0] (m : List (List K)) (i j : Nat) : K := (m.getD i []).getD j 0
/-- `Mat<M,N> * Mat<N,P>`: element (i,j) = Σ_k a(i,k) b(k,j) -/
def lmul [OfNat K 0] (n p : Nat) (a b : List (List K)) : List (List K) :=
  a.map fun row => (List.range p).map fun j => (List.range n).foldl (fun acc k => acc + row.getD k 0 * lget b k j) 0
/-- `~m` of an M×N matrix -/
def ltranspose [OfNat K 0] (m n : Nat) (a : List (List K)) : List (List K) :=
  (List.range n).map fun j => (List.range m).map fun i => lget a i j
def lvadd (a b : List K) : List K := List.zipWith (· + ·) a b
def lvsub (a b : List K) : List K := List.zipWith (· - ·) a b
def lvscale (a : List K) (s : K) : List K := a.map (· * s)
def lvneg (a : List K) : List K := a.map (fun x => -x)
/-- `~a * b` (Row × Vec) -/
def lvdot [OfNat K 0] (a b : List K) : K := (List.zipWith (· * ·) a b).foldl (· + ·) 0
/-- `a * ~b` (Vec × Row): outer product -/
def louter (a b : List K) : List (List K) := a.map fun x => b.map fun y => x * y
/-- `~a * m` (Row × Mat) for an N×P matrix -/
def lrowmul [OfNat K 0] (n p : Nat) (a : List K) (m : List (List K)) : List K :=
  (List.range p).map fun j => (List.range n).foldl (fun acc k => acc + a.getD k 0 * lget m k j) 0

/-! ## negator<N>: same memory as N, value −v -/
structure Negator (K : Type) where
  v : K
deriving Repr

namespace Negator
/-- the value denoted (`operator N()`, one negation) -/
def val (a : Negator K) : K := -a.v
/-- `negator<N>::recast(x)`: reinterpret at zero cost, value `-x` -/
def recast (x : K) : Negator K := ⟨x⟩
/-- construct from a value: `v = -t` -/
def ofVal (x : K) : Negator K := ⟨-x⟩
/-- unary minus is free: returns the stored `N` -/
def neg (a : Negator K) : K := a.v
/-- `negator + B`: `r - (-l)` as a plain number -/
def addP (l : Negator K) (r : K) : K := r - l.v
/-- `A + negator`: `l - (-r)` -/
def pAdd (l : K) (r : Negator K) : K := l - r.v
/-- `negator + negator`: recast of `(-l) + (-r)` -/
def addN (l r : Negator K) : Negator K := ⟨r.v + l.v⟩
/-- `negator - B`: recast (negated) of `r + (-l)` -/
def subP (l : Negator K) (r : K) : Negator K := ⟨r + l.v⟩
/-- `A - negator`: `l + (-r)` -/
def pSub (l : K) (r : Negator K) : K := l + r.v
/-- `negator - negator`: recast (negated) of `(-l) - (-r)` i.e. stored `l.v - r.v` -/
def subN (l r : Negator K) : Negator K := ⟨l.v - r.v⟩
/-- `negator * B`: recast (negated) of `(-l)*r` -/
def mulP (l : Negator K) (r : K) : Negator K := ⟨l.v * r⟩
def pMul (l : K) (r : Negator K) : Negator K := ⟨l * r.v⟩
/-- `negator * negator`: `(-l)*(-r)` as a plain number -/
def mulN (l r : Negator K) : K := l.v * r.v
/-- `nn += t`: `v -= t` -/
def addAssign (a : Negator K) (t : K) : Negator K := ⟨a.v - t⟩
/-- `nn -= t`: `v += t` -/
def subAssign (a : Negator K) (t : K) : Negator K := ⟨a.v + t⟩
/-- `nn *= t`: `v *= t` -/
def mulAssign (a : Negator K) (t : K) : Negator K := ⟨a.v * t⟩
end Negator

/-- `Vec<3,negator<Real>>` arithmetic as the templates instantiate it -/
def V3.valN (a : V3 (Negator K)) : V3 K := ⟨a.x.val, a.y.val, a.z.val⟩
/-- `(-a)` for a `Vec3 a`: reinterpretation -/
def V3.recastN (a : V3 K) : V3 (Negator K) := ⟨⟨a.x⟩, ⟨a.y⟩, ⟨a.z⟩⟩
/-- `cross(Vec<3,negator>, Vec3)`: products are negators, their difference a negator -/
def V3.crossNP (a : V3 (Negator K)) (b : V3 K) : V3 (Negator K) :=
  ⟨(a.y.mulP b.z).subN (a.z.mulP b.y), (a.z.mulP b.x).subN (a.x.mulP b.z), (a.x.mulP b.y).subN (a.y.mulP b.x)⟩
/-- `cross(Vec3, Vec<3,negator>)` -/
def V3.crossPN (a : V3 K) (b : V3 (Negator K)) : V3 (Negator K) :=
  ⟨(Negator.pMul a.y b.z).subN (Negator.pMul a.z b.y), (Negator.pMul a.z b.x).subN (Negator.pMul a.x b.z),
   (Negator.pMul a.x b.y).subN (Negator.pMul a.y b.x)⟩
/-- `cross(Vec<3,negator>, Vec<3,negator>)`: products are plain numbers -/
def V3.crossNN (a b : V3 (Negator K)) : V3 K :=
  ⟨a.y.mulN b.z - a.z.mulN b.y, a.z.mulN b.x - a.x.mulN b.z, a.x.mulN b.y - a.y.mulN b.x⟩
def V3.addNP (a : V3 (Negator K)) (b : V3 K) : V3 K := ⟨a.x.addP b.x, a.y.addP b.y, a.z.addP b.z⟩
def V3.subNP (a : V3 (Negator K)) (b : V3 K) : V3 (Negator K) := ⟨a.x.subP b.x, a.y.subP b.y, a.z.subP b.z⟩
def V3.addNN (a b : V3 (Negator K)) : V3 (Negator K) := ⟨a.x.addN b.x, a.y.addN b.y, a.z.addN b.z⟩
def V3.smulN (a : V3 (Negator K)) (s : K) : V3 (Negator K) := ⟨a.x.mulP s, a.y.mulP s, a.z.mulP s⟩
/-- `~(-a) * b` -/
def V3.dotNP [OfNat K 0] (a : V3 (Negator K)) (b : V3 K) : Negator K :=
  ((a.x.mulP b.x).addN (a.y.mulP b.y)).addN (a.z.mulP b.z)

/-! ## complex numbers and conjugate<R>: stored (re, negIm), value re − negIm·i -/
structure Cx (K : Type) where
  re : K
  im : K
deriving Repr

namespace Cx
def add (a b : Cx K) : Cx K := ⟨a.re + b.re, a.im + b.im⟩
def sub (a b : Cx K) : Cx K := ⟨a.re - b.re, a.im - b.im⟩
def mul (a b : Cx K) : Cx K := ⟨a.re * b.re - a.im * b.im, a.re * b.im + a.im * b.re⟩
def conj (a : Cx K) : Cx K := ⟨a.re, -a.im⟩
def neg (a : Cx K) : Cx K := ⟨-a.re, -a.im⟩
end Cx

structure Conj (K : Type) where
  re : K
  negIm : K
deriving Repr

namespace Conj
def val (c : Conj K) : Cx K := ⟨c.re, -c.negIm⟩
/-- `conjugate(const complex&)` / `operator=(complex)`: `re = c.real(); negIm = -c.imag()` -/
def ofCx (c : Cx K) : Conj K := ⟨c.re, -c.im⟩
/-- reinterpret a complex as its conjugate (what `~` does to an element) -/
def recast (c : Cx K) : Conj K := ⟨c.re, c.im⟩
/-- `conj *= conj` -/
def mulC (a c : Conj K) : Conj K := ⟨a.re * c.re - a.negIm * c.negIm, a.re * c.negIm + a.negIm * c.re⟩
/-- `conj *= complex` -/
def mulX (a : Conj K) (t : Cx K) : Conj K := ⟨a.re * t.re + a.negIm * t.im, a.negIm * t.re - a.re * t.im⟩
/-- `conj += conj` -/
def addC (a c : Conj K) : Conj K := ⟨a.re + c.re, a.negIm + c.negIm⟩
/-- `conj += complex` -/
def addX (a : Conj K) (c : Cx K) : Conj K := ⟨a.re + c.re, a.negIm - c.im⟩
/-- `conj -= complex` -/
def subX (a : Conj K) (c : Cx K) : Conj K := ⟨a.re - c.re, a.negIm + c.im⟩
/-- unary minus: `complex(-re, negIm)` -/
def neg (a : Conj K) : Cx K := ⟨-a.re, a.negIm⟩
end Conj

end C25
