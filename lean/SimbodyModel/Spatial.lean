/-!
# Spatial — shared executable model of SimTKcommon/Mechanics (Mathlib-free)

Plain structures over a polymorphic scalar `K`; every definition mirrors the C++ formula by formula
(`Rotation.h/.cpp`, `Quaternion.h/.cpp`, `Transform.h`, `UnitVec.h`, `CoordinateAxis.h`,
`MassProperties.h/.cpp`, `SpatialAlgebra.h`).  The same definitions are
* proved about over an arbitrary (ordered) field in `SimbodyProofs/C27.lean`, `C28.lean`, `C29.lean`,
* executed over `Float` by the drivers `Drivers/C27.lean` … and compared with the real library.

Conventions
* angles enter only as trig pairs `Trig K = (c, s)`; theorems assume `c*c + s*s = 1`;
* `sqrt`, `atan2` are *parameters* of the few functions that need them (libm is trusted base);
* `a ≥ b` of the C++ is written `¬ a < b` (only `[LT K] [DecidableLT K]` is required);
* time derivatives are carried by `Jet K = K[ε]/(ε²)`; all arithmetic classes are instantiated for it so
  the very same model code runs on jets;
* `Rotation`, `Inertia`, `UnitInertia` are abbreviations (`Mat33`, `SymMat33`, `SymMat33`): the C++ classes are
  thin wrappers with exactly that data.
-/
namespace Spatial

/-! ## Carriers -/

@[ext] structure Vec3 (K : Type) where
  x : K
  y : K
  z : K
deriving Repr

/-- row-major 3×3: `mij` is row `i`, column `j` -/
@[ext] structure Mat33 (K : Type) where
  m00 : K
  m01 : K
  m02 : K
  m10 : K
  m11 : K
  m12 : K
  m20 : K
  m21 : K
  m22 : K
deriving Repr

/-- `SymMat<3,P>`: diagonal then lower triangle `(1,0) (2,0) (2,1)`; argument order of
`Inertia_(xx,yy,zz,xy,xz,yz)` -/
@[ext] structure SymMat33 (K : Type) where
  xx : K
  yy : K
  zz : K
  xy : K
  xz : K
  yz : K
deriving Repr

/-- `Quaternion_<P>` / `Vec<4,P>`: scalar part first -/
@[ext] structure Quaternion (K : Type) where
  w : K
  x : K
  y : K
  z : K
deriving Repr

abbrev Rotation := Mat33
abbrev Inertia := SymMat33
abbrev UnitInertia := SymMat33

/-- `Transform_<P>` X_BF = (R_BF, p_BF) -/
@[ext] structure Transform (K : Type) where
  R : Mat33 K
  p : Vec3 K
deriving Repr

/-- `SpatialVec`: `[0]` rotational part `w`, `[1]` translational part `v` -/
@[ext] structure SpatialVec (K : Type) where
  w : Vec3 K
  v : Vec3 K
deriving Repr

/-- `SpatialMat` = 2×2 blocks of 3×3 -/
@[ext] structure SpatialMat (K : Type) where
  a00 : Mat33 K
  a01 : Mat33 K
  a10 : Mat33 K
  a11 : Mat33 K
deriving Repr

/-- `SpatialInertia_<P>`: mass, mass centre, unit inertia about the origin -/
@[ext] structure SpatialInertia (K : Type) where
  m : K
  p : Vec3 K
  G : SymMat33 K
deriving Repr

/-- `ArticulatedInertia_<P>`: `[J F; ~F M]` -/
@[ext] structure ArticulatedInertia (K : Type) where
  M : SymMat33 K
  J : SymMat33 K
  F : Mat33 K
deriving Repr

/-- `MassProperties_<P>` -/
@[ext] structure MassProperties (K : Type) where
  mass : K
  com : Vec3 K
  G : SymMat33 K
deriving Repr

/-- cosine and sine of an angle -/
@[ext] structure Trig (K : Type) where
  c : K
  s : K
deriving Repr

/-- `CoordinateAxis` -/
inductive Axis | X | Y | Z
deriving DecidableEq, Repr

namespace Axis
/-- `getNextAxis` -/
def next : Axis → Axis | X => Y | Y => Z | Z => X
/-- `getPreviousAxis` -/
def prev : Axis → Axis | X => Z | Y => X | Z => Y
/-- `getThirdAxis` (argument must differ from `a`) -/
def third (a b : Axis) : Axis := if a.next ≠ b then a.next else b.next
/-- `isReverseCyclical` -/
def isReverseCyclical (a b : Axis) : Bool := a.prev == b
def toIdx : Axis → Nat | X => 0 | Y => 1 | Z => 2
def ofIdx (n : Nat) : Axis := if n % 3 = 0 then X else if n % 3 = 1 then Y else Z
/-- position of `r` in the ordered triple `(i, j, third)` -/
def pos (i j r : Axis) : Axis := if r = i then X else if r = j then Y else Z
end Axis

/-! ## Jets (dual numbers) -/

/-- `K[ε]/(ε²)`: value and first derivative -/
@[ext] structure Jet (K : Type) where
  re : K
  eps : K
deriving Repr

namespace Jet
variable {K : Type}
instance [Add K] : Add (Jet K) := ⟨fun a b => ⟨a.re + b.re, a.eps + b.eps⟩⟩
instance [Sub K] : Sub (Jet K) := ⟨fun a b => ⟨a.re - b.re, a.eps - b.eps⟩⟩
instance [Neg K] : Neg (Jet K) := ⟨fun a => ⟨-a.re, -a.eps⟩⟩
instance [Add K] [Mul K] : Mul (Jet K) := ⟨fun a b => ⟨a.re * b.re, a.re * b.eps + a.eps * b.re⟩⟩
instance [Sub K] [Mul K] [Div K] : Div (Jet K) :=
  ⟨fun a b => ⟨a.re / b.re, (a.eps * b.re - a.re * b.eps) / (b.re * b.re)⟩⟩
instance (n : Nat) [OfNat K n] [OfNat K 0] : OfNat (Jet K) n := ⟨⟨OfNat.ofNat n, 0⟩⟩
/-- a constant -/
def const [OfNat K 0] (a : K) : Jet K := ⟨a, 0⟩
end Jet

/-! ## Componentwise maps and jets of vectors (value part / derivative part of jet-valued objects) -/
def Vec3.map {α β : Type} (f : α → β) (v : Vec3 α) : Vec3 β := ⟨f v.x, f v.y, f v.z⟩
def Quaternion.map {α β : Type} (f : α → β) (q : Quaternion α) : Quaternion β := ⟨f q.w, f q.x, f q.y, f q.z⟩
def Mat33.map {α β : Type} (f : α → β) (m : Mat33 α) : Mat33 β :=
  ⟨f m.m00, f m.m01, f m.m02, f m.m10, f m.m11, f m.m12, f m.m20, f m.m21, f m.m22⟩
/-- the jet `v + ε vd` -/
def Vec3.jet {K : Type} (v vd : Vec3 K) : Vec3 (Jet K) := ⟨⟨v.x, vd.x⟩, ⟨v.y, vd.y⟩, ⟨v.z, vd.z⟩⟩
def Quaternion.jet {K : Type} (q qd : Quaternion K) : Quaternion (Jet K) := ⟨⟨q.w, qd.w⟩, ⟨q.x, qd.x⟩, ⟨q.y, qd.y⟩, ⟨q.z, qd.z⟩⟩

section Algebra
variable {K : Type} [Add K] [Sub K] [Mul K] [Neg K] [Div K] [OfNat K 0] [OfNat K 1] [OfNat K 2]

/-! ## Trig pairs -/
namespace Trig
/-- the pair of `-θ` -/
def neg (t : Trig K) : Trig K := ⟨t.c, -t.s⟩
/-- the pair of `θ₁ + θ₂` (angle-sum formulas; this *is* the specification of `cos`/`sin` of a sum) -/
def add (a b : Trig K) : Trig K := ⟨a.c * b.c - a.s * b.s, a.s * b.c + a.c * b.s⟩
/-- jet of a trig pair moving with angle rate `qd`: `ċ = -s q̇`, `ṡ = c q̇` (trusted convention, DESIGN §3.6) -/
def lift (t : Trig K) (qd : K) : Trig (Jet K) := ⟨⟨t.c, -(t.s * qd)⟩, ⟨t.s, t.c * qd⟩⟩
end Trig

/-! ## Vec3 -/
namespace Vec3
def add (a b : Vec3 K) : Vec3 K := ⟨a.x + b.x, a.y + b.y, a.z + b.z⟩
def sub (a b : Vec3 K) : Vec3 K := ⟨a.x - b.x, a.y - b.y, a.z - b.z⟩
def neg (a : Vec3 K) : Vec3 K := ⟨-a.x, -a.y, -a.z⟩
def smul (s : K) (a : Vec3 K) : Vec3 K := ⟨s * a.x, s * a.y, s * a.z⟩
def divS (a : Vec3 K) (s : K) : Vec3 K := ⟨a.x / s, a.y / s, a.z / s⟩
def dot (a b : Vec3 K) : K := a.x * b.x + a.y * b.y + a.z * b.z
/-- `a % b` -/
def cross (a b : Vec3 K) : Vec3 K := ⟨a.y * b.z - a.z * b.y, a.z * b.x - a.x * b.z, a.x * b.y - a.y * b.x⟩
def normSq (a : Vec3 K) : K := dot a a
def zero : Vec3 K := ⟨0, 0, 0⟩
def get (a : Vec3 K) : Axis → K | .X => a.x | .Y => a.y | .Z => a.z
/-- `UnitVec(axis)` -/
def unit : Axis → Vec3 K | .X => ⟨1, 0, 0⟩ | .Y => ⟨0, 1, 0⟩ | .Z => ⟨0, 0, 1⟩
/-- `v / v.norm()` -/
def normalize (sqrt : K → K) (a : Vec3 K) : Vec3 K := divS a (sqrt (normSq a))
end Vec3

/-! ## Mat33 -/
namespace Mat33
def get (m : Mat33 K) : Axis → Axis → K
  | .X, .X => m.m00 | .X, .Y => m.m01 | .X, .Z => m.m02
  | .Y, .X => m.m10 | .Y, .Y => m.m11 | .Y, .Z => m.m12
  | .Z, .X => m.m20 | .Z, .Y => m.m21 | .Z, .Z => m.m22
def ofFn (f : Axis → Axis → K) : Mat33 K :=
  ⟨f .X .X, f .X .Y, f .X .Z, f .Y .X, f .Y .Y, f .Y .Z, f .Z .X, f .Z .Y, f .Z .Z⟩
def transpose (m : Mat33 K) : Mat33 K := ⟨m.m00, m.m10, m.m20, m.m01, m.m11, m.m21, m.m02, m.m12, m.m22⟩
def mul (a b : Mat33 K) : Mat33 K :=
  ⟨a.m00 * b.m00 + a.m01 * b.m10 + a.m02 * b.m20, a.m00 * b.m01 + a.m01 * b.m11 + a.m02 * b.m21,
   a.m00 * b.m02 + a.m01 * b.m12 + a.m02 * b.m22,
   a.m10 * b.m00 + a.m11 * b.m10 + a.m12 * b.m20, a.m10 * b.m01 + a.m11 * b.m11 + a.m12 * b.m21,
   a.m10 * b.m02 + a.m11 * b.m12 + a.m12 * b.m22,
   a.m20 * b.m00 + a.m21 * b.m10 + a.m22 * b.m20, a.m20 * b.m01 + a.m21 * b.m11 + a.m22 * b.m21,
   a.m20 * b.m02 + a.m21 * b.m12 + a.m22 * b.m22⟩
def mulVec (a : Mat33 K) (v : Vec3 K) : Vec3 K :=
  ⟨a.m00 * v.x + a.m01 * v.y + a.m02 * v.z, a.m10 * v.x + a.m11 * v.y + a.m12 * v.z,
   a.m20 * v.x + a.m21 * v.y + a.m22 * v.z⟩
/-- `~a * v` -/
def tmulVec (a : Mat33 K) (v : Vec3 K) : Vec3 K := mulVec (transpose a) v
def add (a b : Mat33 K) : Mat33 K :=
  ⟨a.m00 + b.m00, a.m01 + b.m01, a.m02 + b.m02, a.m10 + b.m10, a.m11 + b.m11, a.m12 + b.m12,
   a.m20 + b.m20, a.m21 + b.m21, a.m22 + b.m22⟩
def sub (a b : Mat33 K) : Mat33 K :=
  ⟨a.m00 - b.m00, a.m01 - b.m01, a.m02 - b.m02, a.m10 - b.m10, a.m11 - b.m11, a.m12 - b.m12,
   a.m20 - b.m20, a.m21 - b.m21, a.m22 - b.m22⟩
def neg (a : Mat33 K) : Mat33 K :=
  ⟨-a.m00, -a.m01, -a.m02, -a.m10, -a.m11, -a.m12, -a.m20, -a.m21, -a.m22⟩
def smul (s : K) (a : Mat33 K) : Mat33 K :=
  ⟨s * a.m00, s * a.m01, s * a.m02, s * a.m10, s * a.m11, s * a.m12, s * a.m20, s * a.m21, s * a.m22⟩
/-- `Mat33(s)`: scalar on the diagonal -/
def diag (s : K) : Mat33 K := ⟨s, 0, 0, 0, s, 0, 0, 0, s⟩
def one : Mat33 K := diag 1
def zero : Mat33 K := diag 0
def det (a : Mat33 K) : K :=
  a.m00 * (a.m11 * a.m22 - a.m12 * a.m21) - a.m01 * (a.m10 * a.m22 - a.m12 * a.m20)
    + a.m02 * (a.m10 * a.m21 - a.m11 * a.m20)
/-- `diag().sum()` -/
def trace (a : Mat33 K) : K := a.m00 + a.m11 + a.m22
/-- `crossMat(v)`: `crossMat v * w = v × w` -/
def crossMat (v : Vec3 K) : Mat33 K := ⟨0, -v.z, v.y, v.z, 0, -v.x, -v.y, v.x, 0⟩
def col (a : Mat33 K) : Axis → Vec3 K
  | .X => ⟨a.m00, a.m10, a.m20⟩ | .Y => ⟨a.m01, a.m11, a.m21⟩ | .Z => ⟨a.m02, a.m12, a.m22⟩
def row (a : Mat33 K) : Axis → Vec3 K
  | .X => ⟨a.m00, a.m01, a.m02⟩ | .Y => ⟨a.m10, a.m11, a.m12⟩ | .Z => ⟨a.m20, a.m21, a.m22⟩
def ofCols (c0 c1 c2 : Vec3 K) : Mat33 K := ⟨c0.x, c1.x, c2.x, c0.y, c1.y, c2.y, c0.z, c1.z, c2.z⟩
/-- matrix whose column `axis a` is `va`, etc. (`setRotationColFromUnitVecTrustMe` three times) -/
def ofAxisCols (a : Axis) (va : Vec3 K) (b : Axis) (vb : Vec3 K) (vc : Vec3 K) : Mat33 K :=
  ofFn fun r c => if c = a then va.get r else if c = b then vb.get r else vc.get r
/-- entries given in the local order `(i, j, third)` written to rows/columns `i, j, third` of the result:
`R[i][i] = L00; R[i][j] = L01; …` -/
def place (i j : Axis) (L : Mat33 K) : Mat33 K := ofFn fun r c => L.get (Axis.pos i j r) (Axis.pos i j c)
/-- the cofactor matrix transposed (adjugate) -/
def adj (a : Mat33 K) : Mat33 K :=
  ⟨a.m11 * a.m22 - a.m12 * a.m21, a.m02 * a.m21 - a.m01 * a.m22, a.m01 * a.m12 - a.m02 * a.m11,
   a.m12 * a.m20 - a.m10 * a.m22, a.m00 * a.m22 - a.m02 * a.m20, a.m02 * a.m10 - a.m00 * a.m12,
   a.m10 * a.m21 - a.m11 * a.m20, a.m01 * a.m20 - a.m00 * a.m21, a.m00 * a.m11 - a.m01 * a.m10⟩
end Mat33

/-! ## SymMat33 -/
namespace SymMat33
def toMat33 (s : SymMat33 K) : Mat33 K := ⟨s.xx, s.xy, s.xz, s.xy, s.yy, s.yz, s.xz, s.yz, s.zz⟩
/-- lower triangle of a full matrix -/
def ofLower (m : Mat33 K) : SymMat33 K := ⟨m.m00, m.m11, m.m22, m.m10, m.m20, m.m21⟩
def add (a b : SymMat33 K) : SymMat33 K := ⟨a.xx + b.xx, a.yy + b.yy, a.zz + b.zz, a.xy + b.xy, a.xz + b.xz, a.yz + b.yz⟩
def sub (a b : SymMat33 K) : SymMat33 K := ⟨a.xx - b.xx, a.yy - b.yy, a.zz - b.zz, a.xy - b.xy, a.xz - b.xz, a.yz - b.yz⟩
def smul (s : K) (a : SymMat33 K) : SymMat33 K := ⟨s * a.xx, s * a.yy, s * a.zz, s * a.xy, s * a.xz, s * a.yz⟩
/-- `SymMat33(s)`: scalar on the diagonal -/
def diag (s : K) : SymMat33 K := ⟨s, s, s, 0, 0, 0⟩
def mulVec (a : SymMat33 K) (v : Vec3 K) : Vec3 K := (toMat33 a).mulVec v
def trace (a : SymMat33 K) : K := a.xx + a.yy + a.zz
/-- sum of the principal 2×2 minors (second characteristic-polynomial coefficient) -/
def minors2 (a : SymMat33 K) : K :=
  (a.xx * a.yy - a.xy * a.xy) + (a.xx * a.zz - a.xz * a.xz) + (a.yy * a.zz - a.yz * a.yz)
def det (a : SymMat33 K) : K := (toMat33 a).det
end SymMat33

/-! ## Rotation: constructors (`setRotationFrom*`) -/
namespace Rotation

/-- `setRotationFromAngleAboutX/Y/Z(cosAngle, sinAngle)` -/
def aboutAxis (t : Trig K) : Axis → Mat33 K
  | .X => ⟨1, 0, 0, 0, t.c, -t.s, 0, t.s, t.c⟩
  | .Y => ⟨t.c, 0, t.s, 0, 1, 0, -t.s, 0, t.c⟩
  | .Z => ⟨t.c, -t.s, 0, t.s, t.c, 0, 0, 0, 1⟩

/-- `setTwoAngleTwoAxesBodyFixedForwardCyclicalRotation` (requires `i ≠ j`) -/
def twoAngleBodyFwd (t1 : Trig K) (i : Axis) (t2 : Trig K) (j : Axis) : Mat33 K :=
  Mat33.place i j
    ⟨t2.c, 0, t2.s,
     t2.s * t1.s, t1.c, -t1.s * t2.c,
     -t2.s * t1.c, t1.s, t1.c * t2.c⟩

/-- `setThreeAngleTwoAxesBodyFixedForwardCyclicalRotation` (sequence `i j i`, `i ≠ j`) -/
def threeAngleTwoAxesBodyFwd (t1 : Trig K) (i : Axis) (t2 : Trig K) (j : Axis) (t3 : Trig K) : Mat33 K :=
  let s1c3 := t1.s * t3.c
  let s3c1 := t3.s * t1.c
  let s1s3 := t1.s * t3.s
  let c1c3 := t1.c * t3.c
  Mat33.place i j
    ⟨t2.c, t2.s * t3.s, t2.s * t3.c,
     t1.s * t2.s, c1c3 - t2.c * s1s3, -s3c1 - t2.c * s1c3,
     -t2.s * t1.c, s1c3 + t2.c * s3c1, -s1s3 + t2.c * c1c3⟩

/-- `setThreeAngleThreeAxesBodyFixedForwardCyclicalRotation` (sequence `i j k`, all different) -/
def threeAngleThreeAxesBodyFwd (t1 : Trig K) (i : Axis) (t2 : Trig K) (j : Axis) (t3 : Trig K) : Mat33 K :=
  let s1c3 := t1.s * t3.c
  let s3c1 := t3.s * t1.c
  let s1s3 := t1.s * t3.s
  let c1c3 := t1.c * t3.c
  Mat33.place i j
    ⟨t2.c * t3.c, -t3.s * t2.c, t2.s,
     s3c1 + t2.s * s1c3, c1c3 - t2.s * s1s3, -t1.s * t2.c,
     s1s3 - t2.s * c1c3, s1c3 + t2.s * s3c1, t1.c * t2.c⟩

/-- `setRotationFromTwoAnglesTwoAxes(bodyOrSpace, angle1, axis1, angle2, axis2)`;
`space = true` is `SpaceRotationSequence` -/
def fromTwoAngles (space : Bool) (t1 : Trig K) (ax1 : Axis) (t2 : Trig K) (ax2 : Axis) : Mat33 K :=
  if ax1 = ax2 then aboutAxis (Trig.add t1 t2) ax1 else
  -- space sequence: switch order of axes and angles
  let a1 := if space then t2 else t1
  let x1 := if space then ax2 else ax1
  let a2 := if space then t1 else t2
  let x2 := if space then ax1 else ax2
  -- reverse cyclical: negate the angles
  let rev := x1.isReverseCyclical x2
  let a1 := if rev then a1.neg else a1
  let a2 := if rev then a2.neg else a2
  twoAngleBodyFwd a1 x1 a2 x2

/-- `setRotationFromThreeAnglesThreeAxes` -/
def fromThreeAngles (space : Bool) (t1 : Trig K) (ax1 : Axis) (t2 : Trig K) (ax2 : Axis)
    (t3 : Trig K) (ax3 : Axis) : Mat33 K :=
  if ax2 = ax1 then fromTwoAngles space (Trig.add t1 t2) ax1 t3 ax3 else
  if ax2 = ax3 then fromTwoAngles space t1 ax1 (Trig.add t2 t3) ax3 else
  let a1 := if space then t3 else t1
  let x1 := if space then ax3 else ax1
  let a3 := if space then t1 else t3
  let x3 := if space then ax1 else ax3
  let rev := x1.isReverseCyclical ax2
  let a1 := if rev then a1.neg else a1
  let a2 := if rev then t2.neg else t2
  let a3 := if rev then a3.neg else a3
  if x1 = x3 then threeAngleTwoAxesBodyFwd a1 x1 a2 ax2 a3
  else threeAngleThreeAxesBodyFwd a1 x1 a2 ax2 a3

/-- `setRotationToBodyFixedXYZ(c, s)` (the 18-flop special case) -/
def bodyFixedXYZ (t0 t1 t2 : Trig K) : Mat33 K :=
  let s0s1 := t0.s * t1.s
  let s2c0 := t2.s * t0.c
  let c0c2 := t0.c * t2.c
  let nc1 := -t1.c
  ⟨t1.c * t2.c, t2.s * nc1, t1.s,
   s2c0 + s0s1 * t2.c, c0c2 - s0s1 * t2.s, t0.s * nc1,
   t0.s * t2.s - t1.s * c0c2, t0.s * t2.c + t1.s * s2c0, t0.c * t1.c⟩

/-- `setRotationFromQuaternion` (29 flops; no normalisation) -/
def fromQuaternion (q : Quaternion K) : Mat33 K :=
  let q00 := q.w * q.w
  let q11 := q.x * q.x
  let q22 := q.y * q.y
  let q33 := q.z * q.z
  let q01 := q.w * q.x
  let q02 := q.w * q.y
  let q03 := q.w * q.z
  let q12 := q.x * q.y
  let q13 := q.x * q.z
  let q23 := q.y * q.z
  let q00mq11 := q00 - q11
  let q22mq33 := q22 - q33
  ⟨q00 + q11 - q22 - q33, 2 * (q12 - q03), 2 * (q13 + q02),
   2 * (q12 + q03), q00mq11 + q22mq33, 2 * (q23 - q01),
   2 * (q13 - q02), 2 * (q23 + q01), q00mq11 - q22mq33⟩

/-- `reexpressSymMat33`: `R S ~R` by Featherstone's 57-flop trick (valid for orthonormal `R`) -/
def reexpressSymMat33 (R : Mat33 K) (S : SymMat33 K) : SymMat33 K :=
  let a := S.xx
  let b := S.yy
  let c := S.zz
  let d := S.xy
  let e := S.xz
  let f := S.yz
  -- L = [a-c d; d b-c; 2e 2f]
  let l00 := a - c
  let l11 := b - c
  let l20 := 2 * e
  let l21 := 2 * f
  -- Y = [R[1]*L(0) R[1]*L(1); R[2]*L(0) R[2]*L(1)]
  let y00 := R.m10 * l00 + R.m11 * d + R.m12 * l20
  let y01 := R.m10 * d + R.m11 * l11 + R.m12 * l21
  let y10 := R.m20 * l00 + R.m21 * d + R.m22 * l20
  let y11 := R.m20 * d + R.m21 * l11 + R.m22 * l21
  let z10 := y00 * R.m00 + y01 * R.m01
  let z11 := y00 * R.m10 + y01 * R.m11
  let z20 := y10 * R.m00 + y11 * R.m01
  let z21 := y10 * R.m10 + y11 * R.m11
  let z22 := y10 * R.m20 + y11 * R.m21
  let z00 := (l00 + l11) - (z11 + z22)
  let rv0 := R.m01 * e - R.m00 * f
  let rv1 := R.m11 * e - R.m10 * f
  let rv2 := R.m21 * e - R.m20 * f
  ⟨z00 + c, z11 + c, z22 + c, z10 + rv2, z20 - rv1, z21 + rv0⟩

end Rotation

/-! ## Quaternion -/
namespace Quaternion
def normSq (q : Quaternion K) : K := q.w * q.w + q.x * q.x + q.y * q.y + q.z * q.z
def smul (s : K) (q : Quaternion K) : Quaternion K := ⟨s * q.w, s * q.x, s * q.y, s * q.z⟩
def divS (q : Quaternion K) (s : K) : Quaternion K := ⟨q.w / s, q.x / s, q.y / s, q.z / s⟩
def neg (q : Quaternion K) : Quaternion K := ⟨-q.w, -q.x, -q.y, -q.z⟩
def add (a b : Quaternion K) : Quaternion K := ⟨a.w + b.w, a.x + b.x, a.y + b.y, a.z + b.z⟩
def dot (a b : Quaternion K) : K := a.w * b.w + a.x * b.x + a.y * b.y + a.z * b.z
/-- `normalizeThis()` for magnitude ≥ eps: `q *= 1/|q|` -/
def normalize (sqrt : K → K) (q : Quaternion K) : Quaternion K := smul (1 / sqrt (normSq q)) q
/-- Hamilton product as coded in `multiply` (before the normalising constructor) -/
def hamilton (a b : Quaternion K) : Quaternion K :=
  ⟨a.w * b.w - a.x * b.x - a.y * b.y - a.z * b.z,
   a.w * b.x + a.x * b.w + a.y * b.z - a.z * b.y,
   a.w * b.y - a.x * b.z + a.y * b.w + a.z * b.x,
   a.w * b.z + a.x * b.y - a.y * b.x + a.z * b.w⟩
/-- `multiply`: Hamilton product, then `Quaternion_(w,x,y,z)` normalises -/
def multiply (sqrt : K → K) (a b : Quaternion K) : Quaternion K := normalize sqrt (hamilton a b)
end Quaternion

end Algebra

/-! ## Definitions that compare scalars -/
section Ordered
variable {K : Type} [Add K] [Sub K] [Mul K] [Neg K] [Div K] [OfNat K 0] [OfNat K 1] [OfNat K 2]
  [LT K] [DecidableLT K]

def absK (x : K) : K := if x < 0 then -x else x
/-- `std::max(a,b)` = `(a < b) ? b : a` -/
def maxK (a b : K) : K := if a < b then b else a

namespace Vec3
def abs (a : Vec3 K) : Vec3 K := ⟨absK a.x, absK a.y, absK a.z⟩
/-- the axis chosen by `UnitVec::perp` (`u[0] <= u[1] ? (u[0] <= u[2] ? 0 : 2) : (u[1] <= u[2] ? 1 : 2)`) -/
def perpAxis (v : Vec3 K) : Axis :=
  let u := abs v
  if ¬ u.y < u.x then (if ¬ u.z < u.x then .X else .Z) else (if ¬ u.z < u.y then .Y else .Z)
/-- `UnitVec::perp()` -/
def perp (sqrt : K → K) (v : Vec3 K) : Vec3 K := normalize sqrt (cross v (unit (perpAxis v)))
end Vec3

namespace Quaternion
/-- `setQuaternionFromAngleAxis(a, v)`: `h` is the trig pair of the *half* angle `a/2` -/
def fromAngleAxis (h : Trig K) (v : Vec3 K) : Quaternion K :=
  let ca2 := if h.c < 0 then -h.c else h.c
  let sa2 := if h.c < 0 then -h.s else h.s
  ⟨ca2, sa2 * v.x, sa2 * v.y, sa2 * v.z⟩
/-- `convertQuaternionToAngleAxis()`; returns `[a vx vy vz]` -/
def toAngleAxis (sqrt : K → K) (atan2 : K → K → K) (pi epsSq : K) (q : Quaternion K) : Quaternion K :=
  let sa2 := sqrt (q.x * q.x + q.y * q.y + q.z * q.z)
  if sa2 < epsSq then ⟨0, 1, 0, 0⟩ else
  let angle := 2 * atan2 sa2 q.w
  let angle := if pi < angle then angle - 2 * pi else angle
  ⟨angle, q.x / sa2, q.y / sa2, q.z / sa2⟩
end Quaternion

namespace Rotation

/-- which branch `convertRotationToQuaternion` takes: 0 = trace largest, 1..3 = that diagonal largest -/
def quatBranch (R : Mat33 K) : Nat :=
  let tr := R.trace
  if ¬ tr < R.m00 ∧ ¬ tr < R.m11 ∧ ¬ tr < R.m22 then 0
  else if ¬ R.m00 < R.m11 ∧ ¬ R.m00 < R.m22 then 1
  else if ¬ R.m11 < R.m22 then 2 else 3

/-- the un-normalised 4-vector `4 q[m] q` of `convertRotationToQuaternion` -/
def quatPre (R : Mat33 K) : Quaternion K :=
  let tr := R.trace
  match quatBranch R with
  | 0 => ⟨1 + tr, R.m21 - R.m12, R.m02 - R.m20, R.m10 - R.m01⟩
  | 1 => ⟨R.m21 - R.m12, 1 - (tr - 2 * R.m00), R.m01 + R.m10, R.m02 + R.m20⟩
  | 2 => ⟨R.m02 - R.m20, R.m01 + R.m10, 1 - (tr - 2 * R.m11), R.m12 + R.m21⟩
  | _ => ⟨R.m10 - R.m01, R.m02 + R.m20, R.m12 + R.m21, 1 - (tr - 2 * R.m22)⟩

/-- `convertRotationToQuaternion()` -/
def toQuaternion (sqrt : K → K) (R : Mat33 K) : Quaternion K :=
  let q := quatPre R
  let scale := sqrt (Quaternion.normSq q)
  let scale := if q.w < 0 then -scale else scale
  Quaternion.divS q scale

/-- `setRotationFromApproximateMat33` -/
def fromApproximateMat33 (sqrt : K → K) (m : Mat33 K) : Mat33 K := fromQuaternion (toQuaternion sqrt m)

/-- `setRotationFromAngleAboutUnitVector(angle, v)`: `h` = trig pair of `angle/2` -/
def fromAngleAboutUnitVector (h : Trig K) (v : Vec3 K) : Mat33 K :=
  fromQuaternion (Quaternion.fromAngleAxis h v)

/-- `setRotationFromAngleAboutNonUnitVector` -/
def fromAngleAboutNonUnitVector (sqrt : K → K) (h : Trig K) (v : Vec3 K) : Mat33 K :=
  fromAngleAboutUnitVector h (Vec3.normalize sqrt v)

/-- `convertRotationToAngleAxis()` -/
def toAngleAxis (sqrt : K → K) (atan2 : K → K → K) (pi epsSq : K) (R : Mat33 K) : Quaternion K :=
  Quaternion.toAngleAxis sqrt atan2 pi epsSq (toQuaternion sqrt R)

/-- `setRotationFromOneAxis(uveci, axisi)` -/
def fromOneAxis (sqrt : K → K) (u : Vec3 K) (axi : Axis) : Mat33 K :=
  let uj := Vec3.perp sqrt u
  let uk := Vec3.normalize sqrt (Vec3.cross u uj)
  Mat33.ofAxisCols axi u axi.next uj uk

/-- `setRotationFromTwoAxes(uveci, axisi, vecjApprox, axisjApprox)`; `sqrtEps` is `SimTK::SqrtEps`;
`vjZero` is the outcome of the exact test `vecjApprox.normSqr() == 0` -/
def fromTwoAxes (sqrt : K → K) (sqrtEps : K) (u : Vec3 K) (axi : Axis) (vj : Vec3 K) (axj : Axis)
    (vjZero : Bool) : Mat33 K :=
  if vjZero ∨ axi = axj then fromOneAxis sqrt u axi else
  let veck := Vec3.cross u vj
  if Vec3.normSq veck < sqrtEps * Vec3.normSq vj then fromOneAxis sqrt u axi else
  let uk := Vec3.normalize sqrt veck
  let uj := Vec3.normalize sqrt (Vec3.cross uk u)
  let axisj := axi.next
  let axisk := axisj.next
  if axisj ≠ axj then Mat33.ofAxisCols axi u axisk uj (Vec3.neg uk)
  else Mat33.ofAxisCols axi u axisj uj uk

/-! ### Rotation → angles (arguments handed to `atan2` are exposed as `(sin-like, cos-like)` pairs) -/

/-- `convertOneAxisRotationToOneAngle`: the pair handed to `atan2` -/
def oneAngleArgs (R : Mat33 K) (ax : Axis) : K × K :=
  let j := ax.next
  let k := j.next
  ((R.get k j - R.get j k) / 2, (R.get j j + R.get k k) / 2)

def toOneAngle (atan2 : K → K → K) (R : Mat33 K) (ax : Axis) : K :=
  let a := oneAngleArgs R ax
  atan2 a.1 a.2

def sq (x : K) : K := x * x
def signOf (x : K) : K := if 0 < x then 1 else -1

/-- `convertTwoAxesBodyFixedRotationToTwoAngles`: the two `atan2` argument pairs (before the
reverse-cyclical negation of the results) -/
def twoAnglesBodyArgs (sqrt : K → K) (R : Mat33 K) (a1 a2 : Axis) : (K × K) × (K × K) :=
  let i := a1
  let j := a2
  let k := a1.third a2
  let g := R.get
  let sin1 := (g k j + signOf (g k j) * sqrt (sq (g j i) + sq (g j k))) / 2
  let cos1 := (g j j + signOf (g j j) * sqrt (sq (g k i) + sq (g k k))) / 2
  let sin2 := (g i k + signOf (g i k) * sqrt (sq (g j i) + sq (g k i))) / 2
  let cos2 := (g i i + signOf (g i i) * sqrt (sq (g j k) + sq (g k k))) / 2
  ((sin1, cos1), (sin2, cos2))

def toTwoAnglesBody (sqrt : K → K) (atan2 : K → K → K) (R : Mat33 K) (a1 a2 : Axis) : K × K :=
  let a := twoAnglesBodyArgs sqrt R a1 a2
  let th1 := atan2 a.1.1 a.1.2
  let th2 := atan2 a.2.1 a.2.2
  if a1.isReverseCyclical a2 then (-th1, -th2) else (th1, th2)

/-- `convertTwoAxesRotationToTwoAngles(bodyOrSpace, axis1, axis2)` -/
def toTwoAngles (sqrt : K → K) (atan2 : K → K → K) (space : Bool) (R : Mat33 K) (ax1 ax2 : Axis) : K × K :=
  if ax1 = ax2 then
    let th := toOneAngle atan2 R ax1 / 2
    (th, th)
  else
    let x1 := if space then ax2 else ax1
    let x2 := if space then ax1 else ax2
    let ans := toTwoAnglesBody sqrt atan2 R x1 x2
    if space then (ans.2, ans.1) else ans

/-- `convertTwoAxesBodyFixedRotationToThreeAngles` (sequence `i j i`); `eps4` is `4*Eps` -/
def toThreeAnglesTwoAxesBody (sqrt : K → K) (atan2 : K → K → K) (eps4 : K) (R : Mat33 K) (a1 a2 : Axis) :
    K × K × K :=
  let i := a1
  let j := a2
  let k := a1.third a2
  let g := R.get
  let rev := a1.isReverseCyclical a2
  let plusMinus : K := if rev then -1 else 1
  let minusPlus : K := if rev then 1 else -1
  let rsum := sqrt ((sq (g i j) + sq (g i k) + sq (g j i) + sq (g k i)) / 2)
  let th2 := atan2 rsum (g i i)
  if eps4 < rsum then
    (atan2 (g j i) (minusPlus * g k i), th2, atan2 (g i j) (plusMinus * g i k))
  else if 0 < g i i then
    let spos := plusMinus * g k j + minusPlus * g j k
    let cpos := g j j + g k k
    (atan2 spos cpos, th2, 0)
  else
    let sneg := plusMinus * g k j + plusMinus * g j k
    let cneg := g j j - g k k
    (atan2 sneg cneg, th2, 0)

/-- `convertThreeAxesBodyFixedRotationToThreeAngles` (sequence `i j k`) -/
def toThreeAnglesThreeAxesBody (sqrt : K → K) (atan2 : K → K → K) (eps4 : K) (R : Mat33 K) (a1 a2 a3 : Axis) :
    K × K × K :=
  let i := a1
  let j := a2
  let k := a3
  let g := R.get
  let rev := a1.isReverseCyclical a2
  let plusMinus : K := if rev then -1 else 1
  let minusPlus : K := if rev then 1 else -1
  let rsum := sqrt ((sq (g i i) + sq (g i j) + sq (g j k) + sq (g k k)) / 2)
  let th2 := atan2 (plusMinus * g i k) rsum
  if eps4 < rsum then
    (atan2 (minusPlus * g j k) (g k k), th2, atan2 (minusPlus * g i j) (g i i))
  else if 0 < plusMinus * g i k then
    let spos := g j i + plusMinus * g k j
    let cpos := g j j + minusPlus * g k i
    (atan2 spos cpos, th2, 0)
  else
    let sneg := plusMinus * (g k j + minusPlus * g j i)
    let cneg := g j j + plusMinus * g k i
    (atan2 sneg cneg, th2, 0)

/-- `convertThreeAxesRotationToThreeAngles(bodyOrSpace, axis1, axis2, axis3)` -/
def toThreeAngles (sqrt : K → K) (atan2 : K → K → K) (eps4 : K) (three : K) (space : Bool) (R : Mat33 K)
    (ax1 ax2 ax3 : Axis) : K × K × K :=
  if ax1 = ax2 ∧ ax1 = ax3 then
    let th := toOneAngle atan2 R ax1 / three
    (th, th, th)
  else if ax2 = ax1 then
    let xz := toTwoAngles sqrt atan2 space R ax1 ax3
    let th := xz.1 / 2
    (th, th, xz.2)
  else if ax2 = ax3 then
    let xz := toTwoAngles sqrt atan2 space R ax1 ax3
    let th := xz.2 / 2
    (xz.1, th, th)
  else
    let x1 := if space then ax3 else ax1
    let x3 := if space then ax1 else ax3
    let ans := if x1 = x3 then toThreeAnglesTwoAxesBody sqrt atan2 eps4 R x1 ax2
               else toThreeAnglesThreeAxesBody sqrt atan2 eps4 R x1 ax2 x3
    if space then (ans.2.2, ans.2.1, ans.1) else ans

end Rotation
end Ordered

/-! ## Transform / InverseTransform -/
section TransformSec
variable {K : Type} [Add K] [Sub K] [Mul K] [Neg K] [Div K] [OfNat K 0] [OfNat K 1] [OfNat K 2]

namespace Transform
def identity : Transform K := ⟨Mat33.one, Vec3.zero⟩
/-- `X_BF.compose(X_FY)` -/
def compose (a b : Transform K) : Transform K := ⟨a.R.mul b.R, Vec3.add a.p (a.R.mulVec b.p)⟩
/-- the explicit `Transform` equal to `~X` (`InverseTransform::R()`, `::p()`) -/
def invert (a : Transform K) : Transform K := ⟨a.R.transpose, Vec3.neg (a.R.tmulVec a.p)⟩
/-- `(~X).compose(X_FY)`: as coded in `InverseTransform_::compose` (`X` holds the stored `R_FB, p_FB`) -/
def invCompose (x y : Transform K) : Transform K :=
  ⟨x.R.transpose.mul y.R, x.R.tmulVec (Vec3.sub y.p x.p)⟩
/-- `X.compose(~Y)`: as coded in `Transform_::compose(const InverseTransform_&)` -/
def composeInv (x y : Transform K) : Transform K :=
  ⟨x.R.mul y.R.transpose, Vec3.add x.p (x.R.mulVec (invert y).p)⟩
def xformFrameVecToBase (a : Transform K) (v : Vec3 K) : Vec3 K := a.R.mulVec v
def xformBaseVecToFrame (a : Transform K) (v : Vec3 K) : Vec3 K := a.R.tmulVec v
/-- `X * s` -/
def shiftFrameStationToBase (a : Transform K) (s : Vec3 K) : Vec3 K := Vec3.add a.p (a.R.mulVec s)
def shiftBaseStationToFrame (a : Transform K) (s : Vec3 K) : Vec3 K := a.R.tmulVec (Vec3.sub s a.p)
/-- `(~X) * s` as coded in `InverseTransform_::shiftFrameStationToBase` -/
def invShiftFrameStationToBase (a : Transform K) (s : Vec3 K) : Vec3 K := a.R.tmulVec (Vec3.sub s a.p)
/-- `InverseTransform_::shiftBaseStationToFrame` -/
def invShiftBaseStationToFrame (a : Transform K) (s : Vec3 K) : Vec3 K := Vec3.add (a.R.mulVec s) a.p
/-- `pInv()` -/
def pInv (a : Transform K) : Vec3 K := Vec3.neg (a.R.tmulVec a.p)
end Transform
end TransformSec

/-! ## Spatial vectors and matrices, mass properties (MassProperties.h, SpatialAlgebra.h) -/
section Mass
variable {K : Type} [Add K] [Sub K] [Mul K] [Neg K] [Div K] [OfNat K 0] [OfNat K 1] [OfNat K 2]

namespace SpatialVec
def add (a b : SpatialVec K) : SpatialVec K := ⟨a.w.add b.w, a.v.add b.v⟩
def sub (a b : SpatialVec K) : SpatialVec K := ⟨a.w.sub b.w, a.v.sub b.v⟩
def neg (a : SpatialVec K) : SpatialVec K := ⟨a.w.neg, a.v.neg⟩
def smul (s : K) (a : SpatialVec K) : SpatialVec K := ⟨Vec3.smul s a.w, Vec3.smul s a.v⟩
/-- `~a * b` -/
def dot (a b : SpatialVec K) : K := a.w.dot b.w + a.v.dot b.v
/-- `R * V` (both halves) -/
def rot (R : Mat33 K) (a : SpatialVec K) : SpatialVec K := ⟨R.mulVec a.w, R.mulVec a.v⟩
/-- `~R * V` -/
def trot (R : Mat33 K) (a : SpatialVec K) : SpatialVec K := ⟨R.tmulVec a.w, R.tmulVec a.v⟩
end SpatialVec

namespace SpatialMat
def mulVec (m : SpatialMat K) (a : SpatialVec K) : SpatialVec K :=
  ⟨(m.a00.mulVec a.w).add (m.a01.mulVec a.v), (m.a10.mulVec a.w).add (m.a11.mulVec a.v)⟩
def mul (a b : SpatialMat K) : SpatialMat K :=
  ⟨(a.a00.mul b.a00).add (a.a01.mul b.a10), (a.a00.mul b.a01).add (a.a01.mul b.a11),
   (a.a10.mul b.a00).add (a.a11.mul b.a10), (a.a10.mul b.a01).add (a.a11.mul b.a11)⟩
def transpose (a : SpatialMat K) : SpatialMat K :=
  ⟨a.a00.transpose, a.a10.transpose, a.a01.transpose, a.a11.transpose⟩
def add (a b : SpatialMat K) : SpatialMat K := ⟨a.a00.add b.a00, a.a01.add b.a01, a.a10.add b.a10, a.a11.add b.a11⟩
end SpatialMat

namespace Inertia
/-- `Inertia_::pointMassAt(p, m)` -/
def pointMassAt (p : Vec3 K) (m : K) : SymMat33 K :=
  let mpx := m * p.x
  let mpy := m * p.y
  let mpz := m * p.z
  let mxx := mpx * p.x
  let myy := mpy * p.y
  let mzz := mpz * p.z
  let nmx := -mpx
  let nmy := -mpy
  ⟨myy + mzz, mxx + mzz, mxx + myy, nmx * p.y, nmx * p.z, nmy * p.z⟩
/-- `shiftToMassCenter(CF, mass)` -/
def shiftToMassCenter (I : SymMat33 K) (cf : Vec3 K) (m : K) : SymMat33 K := I.sub (pointMassAt cf m)
/-- `shiftFromMassCenter(p, mass)` -/
def shiftFromMassCenter (I : SymMat33 K) (p : Vec3 K) (m : K) : SymMat33 K := I.add (pointMassAt p m)
/-- `reexpress(R_FB)` = `(~R_FB).reexpressSymMat33(I)` -/
def reexpress (I : SymMat33 K) (R : Mat33 K) : SymMat33 K := Rotation.reexpressSymMat33 R.transpose I
end Inertia

namespace UnitInertia
/-- `UnitInertia_::pointMassAt(p)` = `crossMatSq(p)` -/
def pointMassAt (p : Vec3 K) : SymMat33 K :=
  let xx := p.x * p.x
  let yy := p.y * p.y
  let zz := p.z * p.z
  let nx := -p.x
  let ny := -p.y
  ⟨yy + zz, xx + zz, xx + yy, nx * p.y, nx * p.z, ny * p.z⟩
def shiftToCentroid (G : SymMat33 K) (cf : Vec3 K) : SymMat33 K := G.sub (pointMassAt cf)
def shiftFromCentroid (G : SymMat33 K) (p : Vec3 K) : SymMat33 K := G.add (pointMassAt p)
def reexpress (G : SymMat33 K) (R : Mat33 K) : SymMat33 K := Inertia.reexpress G R
end UnitInertia

namespace SpatialInertia
def calcMassMoment (s : SpatialInertia K) : Vec3 K := Vec3.smul s.m s.p
def calcInertia (s : SpatialInertia K) : SymMat33 K := SymMat33.smul s.m s.G
/-- `operator*(SpatialVec)`: `m * (G*w + p×v, v - p×w)` -/
def mulVec (s : SpatialInertia K) (a : SpatialVec K) : SpatialVec K :=
  SpatialVec.smul s.m ⟨(s.G.mulVec a.w).add (s.p.cross a.v), a.v.sub (s.p.cross a.w)⟩
/-- `reexpress(R_FB)` -/
def reexpress (s : SpatialInertia K) (R : Mat33 K) : SpatialInertia K :=
  ⟨s.m, R.tmulVec s.p, UnitInertia.reexpress s.G R⟩
/-- `shift(S)`: origin moves from `OF` to `OF+S` -/
def shift (s : SpatialInertia K) (S : Vec3 K) : SpatialInertia K :=
  let g1 := UnitInertia.shiftToCentroid s.G s.p
  let pNew := s.p.sub S
  ⟨s.m, pNew, UnitInertia.shiftFromCentroid g1 pNew⟩
/-- `transform(X_FB)` -/
def transform (s : SpatialInertia K) (X : Transform K) : SpatialInertia K := (s.shift X.p).reexpress X.R
/-- `operator+=` -/
def add (a b : SpatialInertia K) : SpatialInertia K :=
  let mtot := a.m + b.m
  let oomtot := 1 / mtot
  ⟨mtot, Vec3.smul oomtot (a.calcMassMoment.add b.calcMassMoment),
   SymMat33.smul oomtot (a.calcInertia.add b.calcInertia)⟩
/-- `toSpatialMat()` -/
def toSpatialMat (s : SpatialInertia K) : SpatialMat K :=
  let off := Mat33.crossMat (Vec3.smul s.m s.p)
  ⟨Mat33.smul s.m s.G.toMat33, off, off.neg, Mat33.diag s.m⟩
end SpatialInertia

namespace ArticulatedInertia
/-- `ArticulatedInertia_(const SpatialInertia_&)` -/
def ofSpatialInertia (s : SpatialInertia K) : ArticulatedInertia K :=
  ⟨SymMat33.diag s.m, s.calcInertia, Mat33.crossMat s.calcMassMoment⟩
/-- `operator*(SpatialVec)`: `(J*w + F*v, ~F*w + M*v)` -/
def mulVec (P : ArticulatedInertia K) (a : SpatialVec K) : SpatialVec K :=
  ⟨(P.J.mulVec a.w).add (P.F.mulVec a.v), (P.F.tmulVec a.w).add (P.M.mulVec a.v)⟩
/-- `halfCrossDiff(v, F, G)`: lower half of `vx*F - G*vx` (MassProperties.cpp) -/
def halfCrossDiff (v : Vec3 K) (F G : Mat33 K) : SymMat33 K :=
  { xx := v.y * (F.m20 + G.m02) - v.z * (F.m10 + G.m01)
    xy := v.z * (F.m00 - G.m11) - v.x * F.m20 + v.y * G.m12
    yy := v.z * (F.m01 + G.m10) - v.x * (F.m21 + G.m12)
    xz := v.x * F.m10 - v.z * G.m21 - v.y * (F.m00 - G.m22)
    yz := v.x * (F.m11 - G.m22) - v.y * F.m01 + v.z * G.m20
    zz := v.x * (F.m12 + G.m21) - v.y * (F.m02 + G.m20) }
/-- `shift(s)`: `F' = F + sx*M`, `J' = J + (sx*~F - F'*sx)` -/
def shift (P : ArticulatedInertia K) (s : Vec3 K) : ArticulatedInertia K :=
  let Fp := P.F.add ((Mat33.crossMat s).mul P.M.toMat33)
  let Jp := P.J.add (halfCrossDiff s P.F.transpose Fp)
  ⟨P.M, Jp, Fp⟩
def add (a b : ArticulatedInertia K) : ArticulatedInertia K := ⟨a.M.add b.M, a.J.add b.J, a.F.add b.F⟩
def toSpatialMat (P : ArticulatedInertia K) : SpatialMat K := ⟨P.J.toMat33, P.F, P.F.transpose, P.M.toMat33⟩
end ArticulatedInertia

namespace MassProperties
/-- `MassProperties_(m, com, Inertia)` for `m ≠ 0`: the unit inertia is `inertia * (1/m)` -/
def ofInertia (m : K) (com : Vec3 K) (I : SymMat33 K) : MassProperties K := ⟨m, com, SymMat33.smul (1 / m) I⟩
def calcInertia (mp : MassProperties K) : SymMat33 K := SymMat33.smul mp.mass mp.G
def calcCentralInertia (mp : MassProperties K) : SymMat33 K :=
  mp.calcInertia.sub (Inertia.pointMassAt mp.com mp.mass)
def calcShiftedInertia (mp : MassProperties K) (newOrigin : Vec3 K) : SymMat33 K :=
  mp.calcCentralInertia.add (Inertia.pointMassAt (newOrigin.sub mp.com) mp.mass)
def calcTransformedInertia (mp : MassProperties K) (X : Transform K) : SymMat33 K :=
  Inertia.reexpress (mp.calcShiftedInertia X.p) X.R
def calcShiftedMassProps (mp : MassProperties K) (newOrigin : Vec3 K) : MassProperties K :=
  ofInertia mp.mass (mp.com.sub newOrigin) (mp.calcShiftedInertia newOrigin)
def calcTransformedMassProps (mp : MassProperties K) (X : Transform K) : MassProperties K :=
  ofInertia mp.mass (X.shiftBaseStationToFrame mp.com) (mp.calcTransformedInertia X)
def reexpress (mp : MassProperties K) (R : Mat33 K) : MassProperties K :=
  ⟨mp.mass, R.tmulVec mp.com, UnitInertia.reexpress mp.G R⟩
def toSpatialMat (mp : MassProperties K) : SpatialMat K :=
  let m01 := Mat33.smul mp.mass (Mat33.crossMat mp.com)
  ⟨Mat33.smul mp.mass mp.G.toMat33, m01, m01.transpose, Mat33.diag mp.mass⟩
def toSpatialInertia (mp : MassProperties K) : SpatialInertia K := ⟨mp.mass, mp.com, mp.G⟩
end MassProperties

/-! ### SpatialAlgebra.h -/
/-- `shiftVelocityBy(V_AB, r_A)` -/
def shiftVelocityBy (V : SpatialVec K) (r : Vec3 K) : SpatialVec K := ⟨V.w, V.v.add (V.w.cross r)⟩
/-- `shiftForceBy(F_AP, r_A)` -/
def shiftForceBy (F : SpatialVec K) (r : Vec3 K) : SpatialVec K := ⟨F.w.sub (r.cross F.v), F.v⟩
/-- `shiftAccelerationBy(A_AB, w_AB, r_A)` -/
def shiftAccelerationBy (A : SpatialVec K) (w r : Vec3 K) : SpatialVec K :=
  ⟨A.w, (A.v.add (A.w.cross r)).add (w.cross (w.cross r))⟩
def shiftVelocityFromTo (V : SpatialVec K) (fromP toQ : Vec3 K) : SpatialVec K := shiftVelocityBy V (toQ.sub fromP)
def shiftForceFromTo (F : SpatialVec K) (fromP toQ : Vec3 K) : SpatialVec K := shiftForceBy F (toQ.sub fromP)
def shiftAccelerationFromTo (A : SpatialVec K) (w fromP toQ : Vec3 K) : SpatialVec K :=
  shiftAccelerationBy A w (toQ.sub fromP)
/-- `findRelativeVelocityInF(p_AB_F, V_FA, V_FB)` -/
def findRelativeVelocityInF (p : Vec3 K) (VA VB : SpatialVec K) : SpatialVec K :=
  ⟨VB.w.sub VA.w, (VB.v.sub VA.v).sub (VA.w.cross p)⟩
/-- `findRelativeVelocity(X_FA, V_FA, X_FB, V_FB)` -/
def findRelativeVelocity (XA : Transform K) (VA : SpatialVec K) (XB : Transform K) (VB : SpatialVec K) : SpatialVec K :=
  SpatialVec.trot XA.R (findRelativeVelocityInF (XB.p.sub XA.p) VA VB)
/-- `findRelativeAccelerationInF(p_AB_F, V_FA, A_FA, V_FB, A_FB)` -/
def findRelativeAccelerationInF (p : Vec3 K) (VA AA VB AB : SpatialVec K) : SpatialVec K :=
  let pdot := VB.v.sub VA.v
  let pdotdot := AB.v.sub AA.v
  let wAB := VB.w.sub VA.w
  let vAB := pdot.sub (VA.w.cross p)
  let wABdot := AB.w.sub AA.w
  let vABdot := pdotdot.sub ((AA.w.cross p).add (VA.w.cross pdot))
  ⟨wABdot.sub (VA.w.cross wAB), vABdot.sub (VA.w.cross vAB)⟩
def findRelativeAcceleration (XA : Transform K) (VA AA : SpatialVec K) (XB : Transform K) (VB AB : SpatialVec K) :
    SpatialVec K :=
  SpatialVec.trot XA.R (findRelativeAccelerationInF (XB.p.sub XA.p) VA AA VB AB)
/-- `reverseRelativeVelocityInA(X_AB, V_AB)` -/
def reverseRelativeVelocityInA (X : Transform K) (V : SpatialVec K) : SpatialVec K :=
  (shiftVelocityBy V X.p.neg).neg
def reverseRelativeVelocity (X : Transform K) (V : SpatialVec K) : SpatialVec K :=
  SpatialVec.trot X.R (reverseRelativeVelocityInA X V)

/-- `PhiMatrix(l).toSpatialMat()` -/
def phiMat (l : Vec3 K) : SpatialMat K := ⟨Mat33.one, Mat33.crossMat l, Mat33.zero, Mat33.one⟩
/-- `PhiMatrixTranspose.toSpatialMat()` -/
def phiTMat (l : Vec3 K) : SpatialMat K := ⟨Mat33.one, Mat33.zero, Mat33.crossMat l.neg, Mat33.one⟩
/-- `phi * v` -/
def phiMulVec (l : Vec3 K) (a : SpatialVec K) : SpatialVec K := ⟨a.w.add (l.cross a.v), a.v⟩
/-- `~phi * v` -/
def phiTMulVec (l : Vec3 K) (a : SpatialVec K) : SpatialVec K := ⟨a.w, a.v.add (a.w.cross l)⟩
/-- `phi * m` -/
def phiMulMat (l : Vec3 K) (m : SpatialMat K) : SpatialMat K :=
  let x := Mat33.crossMat l
  ⟨m.a00.add (x.mul m.a10), m.a01.add (x.mul m.a11), m.a10, m.a11⟩
/-- `m * phi` -/
def matMulPhi (m : SpatialMat K) (l : Vec3 K) : SpatialMat K :=
  let x := Mat33.crossMat l
  ⟨m.a00, (m.a00.mul x).add m.a01, m.a10, (m.a10.mul x).add m.a11⟩
/-- `~phi * m` -/
def phiTMulMat (l : Vec3 K) (m : SpatialMat K) : SpatialMat K :=
  let x := Mat33.crossMat l
  ⟨m.a00, m.a01, m.a10.sub (x.mul m.a00), m.a11.sub (x.mul m.a01)⟩
/-- `m * ~phi` -/
def matMulPhiT (m : SpatialMat K) (l : Vec3 K) : SpatialMat K :=
  let x := Mat33.crossMat l
  ⟨m.a00.sub (m.a01.mul x), m.a01, m.a10.sub (m.a11.mul x), m.a11⟩
end Mass

section MassOrdered
variable {K : Type} [Add K] [Sub K] [Mul K] [Neg K] [OfNat K 0] [OfNat K 1] [OfNat K 2] [LT K] [DecidableLT K]

/-- `Inertia_::isValidInertiaMatrix(m)`; `signif` is `NTraits<P>::getSignificant()`.  (The NaN test is not
modelled: the model's scalars have no NaN.) -/
def Inertia.isValidInertiaMatrix (signif : K) (m : SymMat33 K) : Bool :=
  if m.xx < 0 ∨ m.yy < 0 ∨ m.zz < 0 then false else      -- diagonals must be nonnegative
  let slop := maxK (0 + m.xx + m.yy + m.zz) 1 * signif
  if ¬ (¬ m.xx + m.yy + slop < m.zz ∧ ¬ m.xx + m.zz + slop < m.yy ∧ ¬ m.yy + m.zz + slop < m.xx) then false else
  -- products: p = (xy, xz, yz)
  if ¬ (¬ m.xx + slop < absK (2 * m.yz) ∧ ¬ m.yy + slop < absK (2 * m.xz) ∧ ¬ m.zz + slop < absK (2 * m.xy)) then false
  else true
end MassOrdered

/-! ### Closed-form unit inertias of simple shapes -/
section Shapes
variable {K : Type} [Add K] [Mul K] [Div K] [OfNat K 0] [OfNat K 1] [OfNat K 2] [OfNat K 3] [OfNat K 4] [OfNat K 5]
namespace UnitInertia
def sphere (r : K) : SymMat33 K := SymMat33.diag ((2 / 5) * r * r)
def cylinderAlongZ (r hz : K) : SymMat33 K :=
  let ixx := (r * r) / 4 + (hz * hz) / 3
  ⟨ixx, ixx, (r * r) / 2, 0, 0, 0⟩
def cylinderAlongY (r hy : K) : SymMat33 K :=
  let ixx := (r * r) / 4 + (hy * hy) / 3
  ⟨ixx, (r * r) / 2, ixx, 0, 0, 0⟩
def cylinderAlongX (r hx : K) : SymMat33 K :=
  let iyy := (r * r) / 4 + (hx * hx) / 3
  ⟨(r * r) / 2, iyy, iyy, 0, 0, 0⟩
def brick (hx hy hz : K) : SymMat33 K :=
  let oo3 : K := 1 / 3
  let hx2 := hx * hx
  let hy2 := hy * hy
  let hz2 := hz * hz
  ⟨oo3 * (hy2 + hz2), oo3 * (hx2 + hz2), oo3 * (hx2 + hy2), 0, 0, 0⟩
def ellipsoid (hx hy hz : K) : SymMat33 K :=
  let hx2 := hx * hx
  let hy2 := hy * hy
  let hz2 := hz * hz
  ⟨(hy2 + hz2) / 5, (hx2 + hz2) / 5, (hx2 + hy2) / 5, 0, 0, 0⟩
end UnitInertia
end Shapes

end Spatial
