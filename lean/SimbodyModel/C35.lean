import SimbodyModel.C34
/-!
# C35 — collision detection: executable model of the closed-form pairs of
`SimTKmath/Geometry/src/CollisionDetectionAlgorithm.cpp`

`HalfSpaceSphere`, `SphereSphere`, `HalfSpaceEllipsoid` (`processObjects`), and the order dispatch of
`GeneralContactSubsystem` (look up `(type1,type2)`, else `(type2,type1)` with the arguments swapped).
The iterative pairs (`ConvexConvex`: MPR + Newton; the mesh pairs) are not modelled — they are decided by
implementation-side contract predicates in `harness/C35.cpp`.

A contact is `PointContact(surf1, surf2, location, normal, radius…, depth)`; the normal points from surface 1
towards surface 2 (ground frame).
-/
namespace Geom
namespace Col
variable {K : Type} [Add K] [Sub K] [Mul K] [Neg K] [Div K]
variable [OfNat K 0] [OfNat K 1] [OfNat K 2] [LT K] [DecidableLT K]

structure Contact (K : Type) where
  s1 : Nat
  s2 : Nat
  point : V3 K
  normal : V3 K
  depth : K
  rad1 : K       -- principal relative radii of curvature (equal for circular contacts)
  rad2 : K

/-- `HalfSpaceSphere::processObjects`: `X1` = half-space frame, `p2` = sphere centre in ground -/
def hsSphere (i1 i2 : Nat) (X1 : Xf K) (p2 : V3 K) (r : K) : Option (Contact K) :=
  let loc := Xf.inv X1 p2
  let depth := r + loc.x
  if 0 < depth then
    some ⟨i1, i2, Xf.app X1 ⟨depth / 2, loc.y, loc.z⟩, M3.mulVec X1.R ⟨-1, 0, 0⟩, depth, r, r⟩
  else none

/-- `SphereSphere::processObjects`; `distIsZero` is the test `dist == 0` -/
def sphereSphere (sqrt : K → K) (i1 i2 : Nat) (p1 p2 : V3 K) (r1 r2 : K) : Option (Contact K) :=
  let delta := V3.sub p2 p1
  let dist := sqrt (V3.normSq delta)
  if dist < 0 ∨ 0 < dist then        -- `if (dist == 0) return;`
    let depth := r1 + r2 - dist
    if 0 < depth then
      let radius := r1 * r2 / (r1 + r2)
      let n := V3.sdiv delta dist
      some ⟨i1, i2, V3.add p1 (V3.smul (r1 - depth / 2) n), n, depth, radius, radius⟩
    else none
  else none

/-- the part of `HalfSpaceEllipsoid::processObjects` that works in the ellipsoid frame: `T = ~X1*X2`;
returns (normal, location, depth) -/
def hsEllLocal (sqrt : K → K) (T : Xf K) (a : V3 K) : V3 K × V3 K × K :=
  let r2 : V3 K := ⟨a.x * a.x, a.y * a.y, a.z * a.z⟩
  let n := M3.tmulVec T.R ⟨-1, 0, 0⟩
  let l0 : V3 K := ⟨n.x * r2.x, n.y * r2.y, n.z * r2.z⟩
  let loc := V3.sdiv l0 (-(sqrt (n.x * l0.x + n.y * l0.y + n.z * l0.z)))
  (n, loc, (Xf.app T loc).x)

/-- eigenvalues of the 2×2 curvature matrix via the quadratic `λ² − (dxx+dyy)λ + (dxx dyy − dxy²)`,
returned as radii `1/√λ` sorted ascending (the order in which the root finder returns the two roots is not
part of the contract) -/
def hsEllRadii (sqrt : K → K) (T : Xf K) (a : V3 K) : K × K :=
  let ri2 : V3 K := ⟨1 / (a.x * a.x), 1 / (a.y * a.y), 1 / (a.z * a.z)⟩
  let v1 := M3.tmulVec T.R ⟨0, 1, 0⟩
  let v2 := M3.tmulVec T.R ⟨0, 0, 1⟩
  let dxx := v1.x * v1.x * ri2.x + v1.y * v1.y * ri2.y + v1.z * v1.z * ri2.z
  let dyy := v2.x * v2.x * ri2.x + v2.y * v2.y * ri2.y + v2.z * v2.z * ri2.z
  let dxy := v1.x * v2.x * ri2.x + v1.y * v2.y * ri2.y + v1.z * v2.z * ri2.z
  let tr := dxx + dyy
  let det := dxx * dyy - dxy * dxy
  let s := sqrt (tr * tr - (2 + 2) * det)
  (1 / sqrt ((tr + s) / 2), 1 / sqrt ((tr - s) / 2))

def hsEllipsoid (sqrt : K → K) (i1 i2 : Nat) (X1 X2 : Xf K) (a : V3 K) : Option (Contact K) :=
  let T := Xf.invComp X1 X2
  let (n, loc, depth) := hsEllLocal sqrt T a
  if 0 < depth then
    let (ra, rb) := hsEllRadii sqrt T a
    some ⟨i1, i2, Xf.app X2 (V3.add loc (V3.smul (depth / 2) n)), M3.mulVec X2.R n, depth, ra, rb⟩
  else none

/-! ## order dispatch of `GeneralContactSubsystem` -/
inductive Shape (K : Type)
  | halfSpace
  | sphere (r : K)
  | ellipsoid (a : V3 K)

/-- a placed surface: index in the contact set, shape, ground transform -/
structure Placed (K : Type) where
  idx : Nat
  shape : Shape K
  X : Xf K

/-- the algorithm registered for the ordered type pair, applied to the two objects in that order.  `convex` stands for
`CollisionDetectionAlgorithm::ConvexConvex::processObjects` (MPR + Newton, not modelled), which the C++ registers for
(Ellipsoid, Sphere) and (Ellipsoid, Ellipsoid); every other ordered pair of these shapes has no registered algorithm. -/
def registered (sqrt : K → K) (convex : Placed K → Placed K → Option (Contact K)) (A B : Placed K) :
    Option (Option (Contact K)) :=
  match A.shape, B.shape with
  | .halfSpace, .sphere r => some (hsSphere A.idx B.idx A.X B.X.p r)
  | .sphere r1, .sphere r2 => some (sphereSphere sqrt A.idx B.idx A.X.p B.X.p r1 r2)
  | .halfSpace, .ellipsoid a => some (hsEllipsoid sqrt A.idx B.idx A.X B.X a)
  | .ellipsoid _, .sphere _ => some (convex A B)
  | .ellipsoid _, .ellipsoid _ => some (convex A B)
  | _, _ => none

/-- `getAlgorithm(t1,t2)`, else `getAlgorithm(t2,t1)` with swapped arguments, else no detection -/
def detect (sqrt : K → K) (convex : Placed K → Placed K → Option (Contact K)) (A B : Placed K) : Option (Contact K) :=
  match registered sqrt convex A B with
  | some c => c
  | none => match registered sqrt convex B A with
    | some c => c
    | none => none

/-- the normal of a contact oriented from the surface with index `i` to the other one -/
def Contact.normalFrom (c : Contact K) (i : Nat) : V3 K := if c.s1 = i then c.normal else V3.neg c.normal

end Col
end Geom
