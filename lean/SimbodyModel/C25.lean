import SimbodyModel.Proto
/-!
# C25 — Matrix_/Vector_/RowVector_ objects and views; Vec/Row/Mat/SymMat arithmetic; negator/conjugate

Mathlib-free executable model (kind D for the index maps and the object/view state machine, kind A for the
small fixed-size arithmetic).  Mirrors

* `SimTKcommon/BigMatrix/src/ElementFilter.h`       (`EltIndexer::postIndexBy`, `ElementFilter::Indexer`)
* `SimTKcommon/BigMatrix/src/MatrixHelperRep_Full.h` / `_Vector.h` / `MatrixHelper.cpp`
  (pointer arithmetic of block / row / column / diagonal / transpose views: `AView.apply`)
* `SimTKcommon/BigMatrix/include/.../MatrixBase.h`, `VectorBase.h`, `BigMatrix.h` (operators; dense reference `Dense`)
* `SimTKcommon/SmallMatrix/include/.../SmallMatrixMixed.h` (`det`, `inverse`, `cross`, `crossMat`), `SymMat.h` (packed layout)
* `SimTKcommon/Scalar/include/.../negator.h`, `conjugate.h`

Two layers describe a view:
* **logical**: every view-taking operation `op : VOp` is an index map `op.map : child (i,j) ↦ parent (i',j')`
  together with `op.shape`/`op.legal`; a view expression is a list of `VOp`s applied to an owner;
* **physical**: `AView` = (offset, row stride, column stride, shape, negation flag) into the owner's flat store,
  updated by `AView.apply` exactly like the C++ helpers move their data pointer / stride / leading dimension.
`SimbodyProofs/C25.lean` proves that the two agree (`view_compose`), that legal views address distinct in-bounds
store cells (`view_injective`) and that a write through a view changes exactly the viewed cells.

`index()` views are modelled with their *documented* meaning (element k of the view is element `ix[k]` of the
source vector); the pinned C++ ignores the stride of a non-contiguous source (finding, see notes/C25.md).
-/
namespace C25

/-! ## 1. Index maps -/

/-- `EltIndexer` of ElementFilter.h: regular spacing as partial derivatives (dr/di, dr/dj, dc/di, dc/dj). -/
structure EltIndexer where
  drdi : Int
  drdj : Int
  dcdi : Int
  dcdj : Int
deriving Repr, DecidableEq

namespace EltIndexer
def identity : EltIndexer := ⟨1, 0, 0, 1⟩
def row (e : EltIndexer) (i j : Int) : Int := e.drdi * i + e.drdj * j
def col (e : EltIndexer) (i j : Int) : Int := e.dcdi * i + e.dcdj * j
def transpose (e : EltIndexer) : EltIndexer := ⟨e.drdj, e.drdi, e.dcdj, e.dcdi⟩
/-- `EltIndexer::postIndexBy` (coefficients transcribed in the C++ order) -/
def postIndexBy (e post : EltIndexer) : EltIndexer :=
  ⟨e.drdi * post.drdi + e.drdj * post.dcdi,
   e.drdj * post.dcdj + e.drdi * post.drdj,
   e.dcdi * post.drdi + e.dcdj * post.dcdi,
   e.dcdj * post.dcdj + e.dcdi * post.drdj⟩
end EltIndexer

/-- `ElementFilter::Indexer`: an `EltIndexer` with the indices of the (0,0) element. -/
structure Indexer where
  r0 : Int
  c0 : Int
  drdx : Int
  drdy : Int
  dcdx : Int
  dcdy : Int
deriving Repr, DecidableEq

namespace Indexer
def row (e : Indexer) (x y : Int) : Int := e.r0 + e.drdx * x + e.drdy * y
def col (e : Indexer) (x y : Int) : Int := e.c0 + e.dcdx * x + e.dcdy * y
/-- `Indexer(const Indexer& old, const Indexer& ix)` -/
def compose (old ix : Indexer) : Indexer :=
  ⟨old.row ix.r0 ix.c0, old.col ix.r0 ix.c0,
   old.drdx * ix.drdx + old.drdy * ix.dcdx,
   old.drdy * ix.dcdy + old.drdx * ix.drdy,
   old.dcdx * ix.drdx + old.dcdy * ix.dcdx,
   old.dcdy * ix.dcdy + old.dcdx * ix.drdy⟩
def transpose (e : Indexer) : Indexer := ⟨e.r0, e.c0, e.drdy, e.drdx, e.dcdy, e.dcdx⟩
end Indexer

/-- strictly increasing list of naturals (what `IndexedVectorHelper` insists on) -/
def strictInc : List Nat → Bool
  | [] => true
  | [_] => true
  | a :: b :: rest => a < b && strictInc (b :: rest)

/-- The view-taking operations of the public API (`MatrixBase::block/row/col/diag/transpose/negate`,
`VectorBase::index`, `RowVectorBase::index`; `v(i,m)` sub-vectors are blocks). -/
inductive VOp
  | block (i j m n : Nat)
  | row (i : Nat)
  | col (j : Nat)
  | diag
  | transpose
  | negate
  | index (isRow : Bool) (ix : List Nat)
deriving Repr, DecidableEq

namespace VOp
/-- shape of the view given the shape of what is viewed -/
def shape : VOp → Nat × Nat → Nat × Nat
  | .block _ _ m n, _ => (m, n)
  | .row _, (_, nc) => (1, nc)
  | .col _, (nr, _) => (nr, 1)
  | .diag, (nr, nc) => (min nr nc, 1)
  | .transpose, (nr, nc) => (nc, nr)
  | .negate, s => s
  | .index isRow ix, _ => if isRow then (1, ix.length) else (ix.length, 1)

/-- is the call legal on a matrix of that shape? (the release build does not check) -/
def legal : VOp → Nat × Nat → Bool
  | .block i j m n, (nr, nc) => i + m ≤ nr && j + n ≤ nc
  | .row i, (nr, _) => i < nr
  | .col j, (_, nc) => j < nc
  | .diag, _ => true
  | .transpose, _ => true
  | .negate, _ => true
  | .index isRow ix, (nr, nc) =>
      strictInc ix && ix.all (fun k => k < (if isRow then nc else nr)) && (if isRow then nr == 1 else nc == 1)

/-- index map: element (i,j) of the view is element `map (i,j)` of what is viewed -/
def map : VOp → Nat × Nat → Nat × Nat
  | .block i0 j0 _ _, (i, j) => (i0 + i, j0 + j)
  | .row i0, (i, j) => (i0 + i, j)
  | .col j0, (i, j) => (i, j0 + j)
  | .diag, (i, j) => (i + j, i + j)
  | .transpose, (i, j) => (j, i)
  | .negate, p => p
  | .index isRow ix, (i, j) => if isRow then (0, ix.getD (i + j) 0) else (ix.getD (i + j) 0, 0)

def flipsSign : VOp → Bool
  | .negate => true
  | _ => false
end VOp

/-- shape after a whole view expression (first element of the list is applied first) -/
def shapeOf : List VOp → Nat × Nat → Nat × Nat
  | [], s => s
  | op :: rest, s => shapeOf rest (op.shape s)

/-- legality of a whole view expression -/
def legalAll : List VOp → Nat × Nat → Bool
  | [], _ => true
  | op :: rest, s => op.legal s && legalAll rest (op.shape s)

/-- composed index map of a view expression: view (i,j) ↦ owner (i',j') -/
def mapAll : List VOp → Nat × Nat → Nat × Nat
  | [], p => p
  | op :: rest, p => op.map (mapAll rest p)

/-- is the view negated with respect to the owner? -/
def negAll : List VOp → Bool
  | [] => false
  | op :: rest => xor op.flipsSign (negAll rest)

/-! ## 2. Physical view descriptors (what the C++ helpers hold) -/

/-- data-pointer offset, shape, row stride, column stride into the owner's store, negated element type.
A `VectorHelper` (`getElt_(i,j) = getElt_(i+j)`) is the case `rs = cs = stride`. -/
structure AView where
  off : Nat
  nr : Nat
  nc : Nat
  rs : Nat
  cs : Nat
  neg : Bool
deriving Repr, DecidableEq

namespace AView
def addr (v : AView) (i j : Nat) : Nat := v.off + i * v.rs + j * v.cs
def shape (v : AView) : Nat × Nat := (v.nr, v.nc)

/-- owner layouts: `FullColOrderScalarHelper(nr,nc)` (leading dimension nr), `ContiguousVectorScalarHelper(n,isRow)` -/
def ownerMatrix (nr nc : Nat) : AView := ⟨0, nr, nc, 1, nr, false⟩
/-- a `Matrix_` constructed with exactly one row (and not one column) gets the outline `Row`, for which
`MatrixStorage::calcDefaultStorage` picks row order: `FullRowOrderScalarHelper` (leading dimension nc); the helper
object — and with it the storage order — survives later resizes -/
def ownerMatrixRowOrder (nr nc : Nat) : AView := ⟨0, nr, nc, nc, 1, false⟩
def ownerVector (n : Nat) : AView := ⟨0, n, 1, 1, 1, false⟩
def ownerRowVector (n : Nat) : AView := ⟨0, 1, n, 1, 1, false⟩

/-- `MatrixHelper(mc, h, i, j, m, n)`: `n==1` → `createColumnView_` (a VectorHelper whose stride is the row
spacing), `m==1` → `createRowView_` (stride = column spacing), else `createBlockView_` (data pointer moves). -/
def block (v : AView) (i0 j0 m n : Nat) : AView :=
  if n = 1 then ⟨v.addr i0 j0, m, 1, v.rs, v.rs, v.neg⟩
  else if m = 1 then ⟨v.addr i0 j0, 1, n, v.cs, v.cs, v.neg⟩
  else ⟨v.addr i0 j0, m, n, v.rs, v.cs, v.neg⟩

/-- `createDiagonalView_`: stride `getElt_(1,1) - getElt_(0,0)` -/
def diag (v : AView) : AView := ⟨v.off, min v.nr v.nc, 1, v.rs + v.cs, v.rs + v.cs, v.neg⟩

/-- `createTransposeView_`: row-order helper over the same data and leading dimension -/
def transpose (v : AView) : AView := ⟨v.off, v.nc, v.nr, v.cs, v.rs, v.neg⟩

/-- `negate()`: reinterpret the elements as `negator<E>` -/
def negate (v : AView) : AView := { v with neg := !v.neg }

/-- apply a view operation; `index` views are not regularly spaced (`none`) -/
def apply (v : AView) : VOp → Option AView
  | .block i j m n => some (v.block i j m n)
  | .row i => some (v.block i 0 1 v.nc)
  | .col j => some (v.block 0 j v.nr 1)
  | .diag => some v.diag
  | .transpose => some v.transpose
  | .negate => some v.negate
  | .index _ _ => none

def applyAll (v : AView) : List VOp → Option AView
  | [] => some v
  | op :: rest => match v.apply op with
    | some w => w.applyAll rest
    | none => none
end AView

/-! ## 3. Store access through a resolved view; dense reference operations -/

/-- a resolved view: shape, sign and the store address of each element -/
structure RView where
  nr : Nat
  nc : Nat
  neg : Bool
  addr : Nat → Nat → Nat

/-- resolve a view expression on an owner with layout `own` (store address of owner element (r,c) = `own.addr r c`).
Regularly spaced expressions go through the physical descriptors, `index` views through the index maps. -/
def resolve (own : AView) (ops : List VOp) : RView :=
  match own.applyAll ops with
  | some v => ⟨v.nr, v.nc, v.neg, v.addr⟩
  | none =>
    let s := shapeOf ops own.shape
    ⟨s.1, s.2, negAll ops, fun i j => let p := mapAll ops (i, j); own.addr p.1 p.2⟩

/-- all index pairs of an nr×nc matrix, column by column -/
def indexPairs (nr nc : Nat) : List (Nat × Nat) :=
  (List.range nc).flatMap fun j => (List.range nr).map fun i => (i, j)

variable {K : Type} [Add K] [Sub K] [Mul K] [Neg K] [OfNat K 0]

/-- logical value of element (i,j) seen through the view -/
def rget (s : Array K) (v : RView) (i j : Nat) : K :=
  let x := s.getD (v.addr i j) 0
  if v.neg then -x else x

/-- store the logical value `x` into element (i,j) of the view -/
def rset (s : Array K) (v : RView) (i j : Nat) (x : K) : Array K :=
  s.setIfInBounds (v.addr i j) (if v.neg then -x else x)

/-- write `f i j` into every element of the view -/
def writeView (s : Array K) (v : RView) (f : Nat → Nat → K) : Array K :=
  (indexPairs v.nr v.nc).foldl (fun acc p => rset acc v p.1 p.2 (f p.1 p.2)) s

/-- a dense matrix value (the "real matrix" a view denotes) -/
structure Dense (K : Type) where
  nr : Nat
  nc : Nat
  el : Nat → Nat → K

def denseOf (s : Array K) (v : RView) : Dense K := ⟨v.nr, v.nc, fun i j => rget s v i j⟩

def sumTo (n : Nat) (f : Nat → K) : K := (List.range n).foldl (fun acc k => acc + f k) 0

namespace Dense
def add (a b : Dense K) : Dense K := ⟨a.nr, a.nc, fun i j => a.el i j + b.el i j⟩
def sub (a b : Dense K) : Dense K := ⟨a.nr, a.nc, fun i j => a.el i j - b.el i j⟩
def scale (a : Dense K) (s : K) : Dense K := ⟨a.nr, a.nc, fun i j => a.el i j * s⟩
def neg (a : Dense K) : Dense K := ⟨a.nr, a.nc, fun i j => -(a.el i j)⟩
def emul (a b : Dense K) : Dense K := ⟨a.nr, a.nc, fun i j => a.el i j * b.el i j⟩
def addScalar (a : Dense K) (s : K) : Dense K := ⟨a.nr, a.nc, fun i j => a.el i j + s⟩
def subFromScalar (a : Dense K) (s : K) : Dense K := ⟨a.nr, a.nc, fun i j => s - a.el i j⟩
/-- `M = diag(r) * M` -/
def rowScale (a r : Dense K) : Dense K := ⟨a.nr, a.nc, fun i j => a.el i j * r.el i 0⟩
/-- `M = M * diag(c)` -/
def colScale (a c : Dense K) : Dense K := ⟨a.nr, a.nc, fun i j => a.el i j * c.el j 0⟩
def transpose (a : Dense K) : Dense K := ⟨a.nc, a.nr, fun i j => a.el j i⟩
def mul (a b : Dense K) : Dense K := ⟨a.nr, b.nc, fun i j => sumTo a.nc fun k => a.el i k * b.el k j⟩
/-- scalar assignment `M = s`: `s` on the diagonal, zero elsewhere -/
def scalarMat (nr nc : Nat) (s : K) : Dense K := ⟨nr, nc, fun i j => if i = j then s else 0⟩
def const (nr nc : Nat) (s : K) : Dense K := ⟨nr, nc, fun _ _ => s⟩
def normSqr (a : Dense K) : K := sumTo a.nc fun j => sumTo a.nr fun i => a.el i j * a.el i j
def sum (a : Dense K) : K := sumTo a.nc fun j => sumTo a.nr fun i => a.el i j
def colSum (a : Dense K) : Dense K := ⟨1, a.nc, fun _ j => sumTo a.nr fun i => a.el i j⟩
def rowSum (a : Dense K) : Dense K := ⟨a.nr, 1, fun i _ => sumTo a.nc fun j => a.el i j⟩
/-- elements in row-major order -/
def toList (a : Dense K) : List K :=
  (List.range a.nr).flatMap fun i => (List.range a.nc).map fun j => a.el i j
end Dense

namespace Dense
/-- `M(i,j) * (r[i]*c[j])` (`rowAndColScale`) -/
def rowAndColScale (a r c : Dense K) : Dense K := ⟨a.nr, a.nc, fun i j => a.el i j * (r.el i 0 * c.el j 0)⟩
/-- elementwise function application (`abs()`) -/
def mapEl (f : K → K) (a : Dense K) : Dense K := ⟨a.nr, a.nc, fun i j => f (a.el i j)⟩
/-- fold of a binary function over all elements (`normInf` = fold of max over |x|) -/
def foldEl (f : K → K → K) (init : K) (a : Dense K) : K :=
  (indexPairs a.nr a.nc).foldl (fun acc p => f acc (a.el p.1 p.2)) init
def ediv [Div K] (a b : Dense K) : Dense K := ⟨a.nr, a.nc, fun i j => a.el i j / b.el i j⟩
def einv [Div K] [OfNat K 1] (a : Dense K) : Dense K := ⟨a.nr, a.nc, fun i j => 1 / a.el i j⟩
def allEl (p : K → Bool) (a : Dense K) : Bool := (indexPairs a.nr a.nc).all fun q => p (a.el q.1 q.2)
end Dense

/-- store addresses of all elements of a resolved view -/
def RView.addrList (v : RView) : List Nat := (indexPairs v.nr v.nc).map fun p => v.addr p.1 p.2
/-- two views of the same store share no cell -/
def RView.disjoint (a b : RView) : Bool := let lb := b.addrList; a.addrList.all fun x => !lb.contains x

/-! ### `index()` as coded (MatrixHelper.cpp:350-381) versus as documented

The two index constructors build `IndexedVectorHelper(esz, cppEsz, n, isRow, ix, vh.getElt_(0))`, whose element k is at
`data + eltSize*ix[k]`: the source's stride (or index table) is ignored.  `indexAsCoded` is that address map (in
elements), `indexDocumented` the one the view should have.  They agree exactly when the source is contiguous
(`SimbodyProofs/C25.lean`: `index_as_coded_iff`), which is the known finding as a statement about the model. -/
def AView.indexAsCoded (v : AView) (ix : List Nat) (k : Nat) : Nat := v.addr 0 0 + ix.getD k 0
def AView.indexDocumented (v : AView) (isRow : Bool) (ix : List Nat) (k : Nat) : Nat :=
  if isRow then v.addr 0 (ix.getD k 0) else v.addr (ix.getD k 0) 0

/-- fresh column-major store of an nr×nc owner from row-major values -/
def storeOfRowMajor (nr nc : Nat) (vals : Array K) : Array K :=
  Array.ofFn (n := nr * nc) fun k => vals.getD ((k.val % nr) * nc + k.val / nr) 0

/-- `resizeKeep`: new column-major store keeping the overlapping block, other cells `fillv` -/
def resizeKeepStore (s : Array K) (nr nc nr' nc' : Nat) (fillv : K) : Array K :=
  Array.ofFn (n := nr' * nc') fun k =>
    let i := k.val % nr'
    let j := k.val / nr'
    if i < nr ∧ j < nc then s.getD (i + j * nr) 0 else fillv

end C25
