/-!
# C26 — `Array_<T,X>` as a slot machine, and the pointer wrappers (Mathlib-free, executable)

Mirrors `SimTKcommon/include/SimTKcommon/internal/Array.h` routine by routine.

* A heap block is a `List Cell`; a `Cell` is `none` (raw, unconstructed memory) or `some v`
  (a live object with value `v`).  `c[i]?` therefore has three states: `none` (outside the
  block), `some none` (raw), `some (some v)` (live).
* Every element operation of the C++ (`new(p) T(..)`, `p->~T()`, `*p = v`, reading `*p`) is one
  of the primitives `construct / destruct / assignAt / read / moveOut`; they keep a `Log` with the
  number of constructions, destructions and *discipline violations* (construct on a live or
  out-of-block cell, destruct / read / assign of a cell that is not live).
* Arguments taken by `const T&` are modelled **as references** (`Ref`): an external value or
  *slot i of this array*.  A slot reference is resolved when the C++ dereferences it — after a
  reallocation it dangles (`RRef.dangling`), after an in-place shift it reads whatever the slot
  holds then (`RRef.cur`).
* `mx` is `ArrayIndexTraits<X>::max_size()`.
-/
namespace C26

abbrev Elt := Int
abbrev Cell := Option Elt
abbrev Block := List Cell

/-- what reading a dead object yields in the model (the harness' `Counted` mirrors it) -/
def deadVal : Elt := -1
/-- state of a moved-from object -/
def movedVal : Elt := -2
/-- `T()` -/
def defaultVal : Elt := 0

structure Log where
  ctor : Nat := 0
  dtor : Nat := 0
  viol : Nat := 0
deriving Repr, DecidableEq, Inhabited

def isLive (c : Block) (i : Nat) : Bool :=
  match c[i]? with
  | some (some _) => true
  | _ => false

def isRaw (c : Block) (i : Nat) : Bool :=
  match c[i]? with
  | some none => true
  | _ => false

/-- `new(&c[i]) T(v)` -/
def construct (c : Block) (L : Log) (i : Nat) (v : Elt) : Block × Log :=
  (c.set i (some v), { L with ctor := L.ctor + 1, viol := L.viol + (if isRaw c i then 0 else 1) })

/-- `c[i].~T()` -/
def destruct (c : Block) (L : Log) (i : Nat) : Block × Log :=
  (c.set i none, { L with dtor := L.dtor + 1, viol := L.viol + (if isLive c i then 0 else 1) })

/-- read `c[i]` (copy source) -/
def read (c : Block) (L : Log) (i : Nat) : Elt × Log :=
  match c[i]? with
  | some (some v) => (v, L)
  | _ => (deadVal, { L with viol := L.viol + 1 })

/-- `c[i] = v` (T::operator=) -/
def assignAt (c : Block) (L : Log) (i : Nat) (v : Elt) : Block × Log :=
  if isLive c i then (c.set i (some v), L) else (c, { L with viol := L.viol + 1 })

/-- `std::move(c[i])` consumed by a move constructor: yields the value, leaves a moved-from object -/
def moveOut (c : Block) (L : Log) (i : Nat) : Elt × Block × Log :=
  match c[i]? with
  | some (some v) => (v, c.set i (some movedVal), L)
  | _ => (deadVal, c, { L with viol := L.viol + 1 })

/-- a `const T&` argument -/
inductive Ref
  | ext (v : Elt)     -- refers to an object outside this array
  | slot (i : Nat)    -- refers to element `i` of this array (`a[i]`)
deriving Repr, DecidableEq, Inhabited

/-- a reference at the moment it is dereferenced -/
inductive RRef
  | val (v : Elt)
  | cur (i : Nat)     -- slot `i` of the block the array uses now
  | dangling          -- slot of a block that has been freed
deriving Repr, DecidableEq

def Ref.inPlace : Ref → RRef
  | .ext v => .val v
  | .slot i => .cur i

def Ref.afterRealloc : Ref → RRef
  | .ext v => .val v
  | .slot _ => .dangling

def readRef (c : Block) (L : Log) : RRef → Elt × Log
  | .val v => (v, L)
  | .cur i => read c L i
  | .dangling => (deadVal, { L with viol := L.viol + 1 })

/-! ## loops of Array.h -/

/-- `moveOneElement(to, from)`: `new(to) T(std::move(*from)); from->~T();` (same block) -/
def moveOneElement (c : Block) (L : Log) (to frm : Nat) : Block × Log :=
  let (v, c, L) := moveOut c L frm
  let (c, L) := construct c L to v
  destruct c L frm

/-- `moveConstructThenDestructSource(dst+b, dst+b+n, src+s)` between two blocks -/
def moveRange (dst src : Block) (L : Log) (b s : Nat) : Nat → Block × Block × Log
  | 0 => (dst, src, L)
  | n + 1 =>
    let (v, src, L) := moveOut src L s
    let (dst, L) := construct dst L b v
    let (src, L) := destruct src L s
    moveRange dst src L (b + 1) (s + 1) n

/-- `destruct(b, b+n)` -/
def destructRange (c : Block) (L : Log) (b : Nat) : Nat → Block × Log
  | 0 => (c, L)
  | n + 1 =>
    let (c, L) := destruct c L b
    destructRange c L (b + 1) n

/-- `defaultConstruct(b, b+n)` -/
def defaultConstructRange (c : Block) (L : Log) (b : Nat) : Nat → Block × Log
  | 0 => (c, L)
  | n + 1 =>
    let (c, L) := construct c L b defaultVal
    defaultConstructRange c L (b + 1) n

/-- `fillConstruct(b, b+n, v)`: the reference is dereferenced for every copy -/
def fillConstruct (c : Block) (L : Log) (r : RRef) (b : Nat) : Nat → Block × Log
  | 0 => (c, L)
  | n + 1 =>
    let (v, L) := readRef c L r
    let (c, L) := construct c L b v
    fillConstruct c L r (b + 1) n

/-- `copyConstruct(b, b+|vs|, src)` from a source range outside this array -/
def copyConstructList (c : Block) (L : Log) (b : Nat) : List Elt → Block × Log
  | [] => (c, L)
  | v :: vs =>
    let (c, L) := construct c L b v
    copyConstructList c L (b + 1) vs

/-- `moveElementsDown(p, n)` with `m = end()-p` elements to move: `for (; p != end(); ++p) moveOneElement(p-n,p)` -/
def moveElementsDown (c : Block) (L : Log) (n : Nat) (p : Nat) : Nat → Block × Log
  | 0 => (c, L)
  | m + 1 =>
    let (c, L) := moveOneElement c L (p - n) p
    moveElementsDown c L n (p + 1) m

/-- `moveElementsUp(p, n)` with `m = end()-p` elements to move, last one first -/
def moveElementsUp (c : Block) (L : Log) (n : Nat) (p : Nat) : Nat → Block × Log
  | 0 => (c, L)
  | m + 1 =>
    let (c, L) := moveOneElement c L (p + m + n) (p + m)
    moveElementsUp c L n p m

/-- `ArrayView_::fill`: `for (d = begin()+b; d != begin()+b+n; ++d) *d = fillValue;` -/
def fillAssign (c : Block) (L : Log) (r : RRef) (b : Nat) : Nat → Block × Log
  | 0 => (c, L)
  | n + 1 =>
    let (v, L) := readRef c L r
    let (c, L) := assignAt c L b v
    fillAssign c L r (b + 1) n

/-- elementwise `*p++ = *src++` from a source outside this array -/
def assignList (c : Block) (L : Log) (b : Nat) : List Elt → Block × Log
  | [] => (c, L)
  | v :: vs =>
    let (c, L) := assignAt c L b v
    assignList c L (b + 1) vs

/-! ## the array -/

structure Arr where
  cells : Block := []      -- the heap block; `cells.length` = allocated()
  size : Nat := 0
deriving Repr, DecidableEq, Inhabited

def Arr.cap (a : Arr) : Nat := a.cells.length

structure Res where
  arr : Arr
  log : Log
  thrown : Bool := false
deriving Repr

def allocN (n : Nat) : Block := List.replicate n none

def minAlloc (mx : Nat) : Nat := min mx 4

/-- `calcNewCapacityForGrowthBy`; `none` = the `SimTK_ERRCHK3_ALWAYS(isGrowthOK(n))` exception -/
def calcNewCapacityForGrowthBy (mx cap n : Nat) : Option Nat :=
  if cap + n ≤ mx then
    let mustHave := cap + n
    let wantToHave := if cap ≤ mx / 2 then 2 * cap else mx
    some (max (max mustHave wantToHave) (minAlloc mx))
  else none

/-- `growAtEnd(n)`; the old block is freed -/
def growAtEnd (mx : Nat) (a : Arr) (L : Log) (n : Nat) : Option (Arr × Log) :=
  match calcNewCapacityForGrowthBy mx a.cap n with
  | none => none
  | some nc =>
    let (nw, _, L) := moveRange (allocN nc) a.cells L 0 0 a.size
    some ({ cells := nw, size := a.size }, L)

/-- `insertGapAt(p, n)`: array with a raw gap `[p, p+n)`, and whether it reallocated -/
def insertGapAt (mx : Nat) (a : Arr) (L : Log) (p n : Nat) : Option (Arr × Log × Bool) :=
  if n = 0 then some (a, L, false)
  else if a.cap ≥ a.size + n then
    let (c, L) := moveElementsUp a.cells L n p (a.size - p)
    some ({ a with cells := c }, L, false)
  else
    match calcNewCapacityForGrowthBy mx a.cap n with
    | none => none
    | some nc =>
      let (nw, old, L) := moveRange (allocN nc) a.cells L 0 0 p
      let (nw, _, L) := moveRange nw old L (p + n) p (a.size - p)
      some ({ cells := nw, size := a.size }, L, true)

def resolve (r : Ref) (realloc : Bool) : RRef := if realloc then r.afterRealloc else r.inPlace

/-- `push_back(const T& value)` -/
def pushBack (mx : Nat) (a : Arr) (L : Log) (r : Ref) : Res :=
  if a.cap = a.size then
    match growAtEnd mx a L 1 with
    | none => ⟨a, L, true⟩
    | some (a, L) =>
      let (v, L) := readRef a.cells L r.afterRealloc
      let (c, L) := construct a.cells L a.size v
      ⟨{ cells := c, size := a.size + 1 }, L, false⟩
  else
    let (v, L) := readRef a.cells L r.inPlace
    let (c, L) := construct a.cells L a.size v
    ⟨{ cells := c, size := a.size + 1 }, L, false⟩

/-- `std::move(value)` consumed by a move constructor, for a `T&&` argument -/
def moveRef (c : Block) (L : Log) : RRef → Elt × Block × Log
  | .val v => (v, c, L)                 -- a temporary
  | .cur i => moveOut c L i             -- an element of the current block: left moved-from
  | .dangling => (deadVal, c, { L with viol := L.viol + 1 })

/-- `push_back(T&& value)` as coded: `growAtEnd` first, then `moveConstruct(end(), std::move(value))` -/
def pushBackMove (mx : Nat) (a : Arr) (L : Log) (r : Ref) : Res :=
  if a.cap = a.size then
    match growAtEnd mx a L 1 with
    | none => ⟨a, L, true⟩
    | some (a, L) =>
      let (v, c, L) := moveRef a.cells L r.afterRealloc
      let (c, L) := construct c L a.size v
      ⟨{ cells := c, size := a.size + 1 }, L, false⟩
  else
    let (v, c, L) := moveRef a.cells L r.inPlace
    let (c, L) := construct c L a.size v
    ⟨{ cells := c, size := a.size + 1 }, L, false⟩

/-- `push_back()` -/
def pushBackDefault (mx : Nat) (a : Arr) (L : Log) : Res := pushBack mx a L (.ext defaultVal)

/-- `pop_back()` -/
def popBack (a : Arr) (L : Log) : Res :=
  let (c, L) := destruct a.cells L (a.size - 1)
  ⟨{ cells := c, size := a.size - 1 }, L, false⟩

/-- `insert(p, const T& value)` -/
def insert (mx : Nat) (a : Arr) (L : Log) (p : Nat) (r : Ref) : Res :=
  match insertGapAt mx a L p 1 with
  | none => ⟨a, L, true⟩
  | some (a, L, re) =>
    let (v, L) := readRef a.cells L (resolve r re)
    let (c, L) := construct a.cells L p v
    ⟨{ cells := c, size := a.size + 1 }, L, false⟩

/-- `insert(p, n, const T& value)` -/
def insertN (mx : Nat) (a : Arr) (L : Log) (p n : Nat) (r : Ref) : Res :=
  match insertGapAt mx a L p n with
  | none => ⟨a, L, true⟩
  | some (a, L, re) =>
    let (c, L) := fillConstruct a.cells L (resolve r re) p n
    ⟨{ cells := c, size := a.size + n }, L, false⟩

/-- `insert(p, first, last1)` with a random-access source outside the array -/
def insertRange (mx : Nat) (a : Arr) (L : Log) (p : Nat) (vs : List Elt) : Res :=
  match insertGapAt mx a L p vs.length with
  | none => ⟨a, L, true⟩
  | some (a, L, _) =>
    let (c, L) := copyConstructList a.cells L p vs
    ⟨{ cells := c, size := a.size + vs.length }, L, false⟩

/-- `erase(first, last1)` -/
def erase (a : Arr) (L : Log) (first last : Nat) : Res :=
  let n := last - first
  if n = 0 then ⟨a, L, false⟩
  else
    let (c, L) := destructRange a.cells L first n
    let (c, L) := moveElementsDown c L n (first + n) (a.size - (first + n))
    ⟨{ cells := c, size := a.size - n }, L, false⟩

/-- `erase(p)` -/
def eraseOne (a : Arr) (L : Log) (p : Nat) : Res :=
  let (c, L) := destruct a.cells L p
  let (c, L) := moveElementsDown c L 1 (p + 1) (a.size - (p + 1))
  ⟨{ cells := c, size := a.size - 1 }, L, false⟩

/-- `eraseFast(p)` -/
def eraseFast (a : Arr) (L : Log) (p : Nat) : Res :=
  let (c, L) := destruct a.cells L p
  let (c, L) := if p + 1 ≠ a.size then moveOneElement c L p (a.size - 1) else (c, L)
  ⟨{ cells := c, size := a.size - 1 }, L, false⟩

/-- `clear()` -/
def clear (a : Arr) (L : Log) : Res :=
  let (c, L) := destructRange a.cells L 0 a.size
  ⟨{ cells := c, size := 0 }, L, false⟩

/-- `reserve(n)` -/
def reserve (a : Arr) (L : Log) (n : Nat) : Res :=
  if a.cap ≥ n then ⟨a, L, false⟩
  else
    let (nw, _, L) := moveRange (allocN n) a.cells L 0 0 a.size
    ⟨{ cells := nw, size := a.size }, L, false⟩

/-- `resize(n)` -/
def resize (a : Arr) (L : Log) (n : Nat) : Res :=
  if n = a.size then ⟨a, L, false⟩
  else if n < a.size then erase a L n a.size
  else
    let r := reserve a L n
    let (c, L) := defaultConstructRange r.arr.cells r.log a.size (n - a.size)
    ⟨{ cells := c, size := n }, L, false⟩

/-- `resize(n, const T& initVal)` -/
def resizeFill (a : Arr) (L : Log) (n : Nat) (r : Ref) : Res :=
  if n = a.size then ⟨a, L, false⟩
  else if n < a.size then erase a L n a.size
  else
    let re := decide (a.cap < n)
    let rs := reserve a L n
    let (c, L) := fillConstruct rs.arr.cells rs.log (resolve r re) a.size (n - a.size)
    ⟨{ cells := c, size := n }, L, false⟩

/-- `shrink_to_fit()` -/
def shrinkToFit (a : Arr) (L : Log) : Res :=
  if a.cap - a.size / 4 ≤ a.size then ⟨a, L, false⟩
  else
    let (nw, _, L) := moveRange (allocN a.size) a.cells L 0 0 a.size
    ⟨{ cells := nw, size := a.size }, L, false⟩

/-- `reallocateIfAdvisable(n)` (array already cleared) -/
def reallocateIfAdvisable (mx : Nat) (c : Block) (n : Nat) : Block :=
  if c.length < n ∨ c.length / 2 > max (minAlloc mx) n then allocN n else c

/-- `assign(n, fillValue)` for an owner; `fillValue` must not be an element (as for std::vector) -/
def assignN (mx : Nat) (a : Arr) (L : Log) (n : Nat) (v : Elt) : Res :=
  let r := clear a L
  let c := reallocateIfAdvisable mx r.arr.cells n
  let (c, L) := fillConstruct c r.log (.val v) 0 n
  ⟨{ cells := c, size := n }, L, false⟩

/-- `assign(first, last1)` / `operator=(const Array_&)` / `operator=(std::vector)`: source outside the array -/
def assignRange (mx : Nat) (a : Arr) (L : Log) (vs : List Elt) : Res :=
  let r := clear a L
  let c := reallocateIfAdvisable mx r.arr.cells vs.length
  let (c, L) := copyConstructList c r.log 0 vs
  ⟨{ cells := c, size := vs.length }, L, false⟩

/-- `fill(const T& fillValue)` -/
def fill (a : Arr) (L : Log) (r : Ref) : Res :=
  let (c, L) := fillAssign a.cells L r.inPlace 0 a.size
  ⟨{ a with cells := c }, L, false⟩

/-- `deallocate()` -/
def deallocate (a : Arr) (L : Log) : Res :=
  let r := clear a L
  ⟨{ cells := [], size := 0 }, r.log, false⟩

/-- `a[i] = v` -/
def setElt (a : Arr) (L : Log) (i : Nat) (v : Elt) : Res :=
  let (c, L) := assignAt a.cells L i v
  ⟨{ a with cells := c }, L, false⟩

/-- `a(off,len)(off2,len2).fill(value)` — sub-range view of a sub-range view -/
def viewFill (a : Arr) (L : Log) (off off2 len2 : Nat) (r : Ref) : Res :=
  let (c, L) := fillAssign a.cells L r.inPlace (off + off2) len2
  ⟨{ a with cells := c }, L, false⟩

/-- `a(off,len) = src` (elementwise assignment through a view; source outside the array) -/
def viewAssign (a : Arr) (L : Log) (off : Nat) (vs : List Elt) : Res :=
  let (c, L) := assignList a.cells L off vs
  ⟨{ a with cells := c }, L, false⟩

/-- `Array_(const Array_& src)` / `Array_(first,last1)` / `Array_(n, v)`: exactly-sized allocation -/
def constructFrom (L : Log) (vs : List Elt) : Res :=
  let (c, L) := copyConstructList (allocN vs.length) L 0 vs
  ⟨{ cells := c, size := vs.length }, L, false⟩

/-! ## operations as data -/

inductive Op
  | pushBack (r : Ref)
  | pushBackMove (r : Ref)      -- push_back(T&&): a temporary (`ext`) or `std::move(a[i])`
  | emplaceBack (r : Ref)       -- emplace_back(const T&)-style argument: a value or `a[i]`
  | pushBackDefault
  | popBack
  | insert (p : Nat) (r : Ref)
  | emplace (p : Nat) (r : Ref)
  | insertN (p n : Nat) (r : Ref)
  | insertRange (p : Nat) (vs : List Elt)
  | erase (first last : Nat)
  | eraseOne (p : Nat)
  | eraseFast (p : Nat)
  | clear
  | resize (n : Nat)
  | resizeFill (n : Nat) (r : Ref)
  | reserve (n : Nat)
  | shrinkToFit
  | assignN (n : Nat) (v : Elt)
  | assignRange (vs : List Elt)
  | fill (r : Ref)
  | deallocate
  | setElt (i : Nat) (v : Elt)
  | viewFill (off len off2 len2 : Nat) (r : Ref)
  | viewAssign (off : Nat) (vs : List Elt)
deriving Repr, Inhabited

def step (mx : Nat) (a : Arr) (L : Log) : Op → Res
  | .pushBack r => pushBack mx a L r
  | .pushBackMove r => pushBackMove mx a L r
  | .emplaceBack r => pushBack mx a L r          -- as coded: grow, then `new(end()) T(args…)`
  | .pushBackDefault => pushBackDefault mx a L
  | .popBack => popBack a L
  | .insert p r => insert mx a L p r
  | .emplace p r => insert mx a L p r             -- as coded: insertGapAt, then `new(gap) T(args…)`
  | .insertN p n r => insertN mx a L p n r
  | .insertRange p vs => insertRange mx a L p vs
  | .erase f l => erase a L f l
  | .eraseOne p => eraseOne a L p
  | .eraseFast p => eraseFast a L p
  | .clear => clear a L
  | .resize n => resize a L n
  | .resizeFill n r => resizeFill a L n r
  | .reserve n => reserve a L n
  | .shrinkToFit => shrinkToFit a L
  | .assignN n v => assignN mx a L n v
  | .assignRange vs => assignRange mx a L vs
  | .fill r => fill a L r
  | .deallocate => deallocate a L
  | .setElt i v => setElt a L i v
  | .viewFill off _ off2 len2 r => viewFill a L off off2 len2 r
  | .viewAssign off vs => viewAssign a L off vs

/-- preconditions of the API (violating them is UB in the release build, so the generator never does) -/
def legal (mx : Nat) (a : Arr) : Op → Bool
  | .pushBack (.slot i) => i < a.size
  | .pushBackMove (.slot i) => i < a.size
  | .emplaceBack (.slot i) => i < a.size
  | .popBack => 0 < a.size
  | .insert p (.slot i) => p ≤ a.size ∧ i < a.size
  | .insert p _ => p ≤ a.size
  | .emplace p (.slot i) => p ≤ a.size ∧ i < a.size
  | .emplace p _ => p ≤ a.size
  | .insertN p n (.slot i) => p ≤ a.size ∧ i < a.size ∧ a.size + n ≤ mx
  | .insertN p n _ => p ≤ a.size ∧ a.size + n ≤ mx
  | .insertRange p vs => p ≤ a.size ∧ a.size + vs.length ≤ mx
  | .erase f l => f ≤ l ∧ l ≤ a.size
  | .eraseOne p => p < a.size
  | .eraseFast p => p < a.size
  | .resize n => n ≤ mx
  | .resizeFill n (.slot i) => n ≤ mx ∧ i < a.size
  | .resizeFill n _ => n ≤ mx
  | .reserve n => n ≤ mx
  | .assignN n _ => n ≤ mx
  | .assignRange vs => vs.length ≤ mx
  | .fill (.slot i) => i < a.size
  | .setElt i _ => i < a.size
  | .viewFill off len off2 len2 (.slot i) => off + len ≤ a.size ∧ off2 + len2 ≤ len ∧ i < a.size
  | .viewFill off len off2 len2 _ => off + len ≤ a.size ∧ off2 + len2 ≤ len
  | .viewAssign off vs => off + vs.length ≤ a.size
  | _ => true

/-- "the value argument is not an element that the operation disturbs before reading it":
external values always; an element `a[i]` only when the operation neither reallocates nor shifts it -/
def refOK (a : Arr) : Op → Bool
  | .pushBack (.slot _) => a.cap ≠ a.size
  | .pushBackMove (.slot _) => a.cap ≠ a.size
  | .emplaceBack (.slot _) => a.cap ≠ a.size
  | .insert p (.slot i) => a.size + 1 ≤ a.cap ∧ i < p
  | .emplace p (.slot i) => a.size + 1 ≤ a.cap ∧ i < p
  | .insertN p n (.slot i) => n = 0 ∨ (a.size + n ≤ a.cap ∧ i < p)
  | .resizeFill n (.slot _) => n ≤ a.cap
  | _ => true

/-- does the operation take its value from an element of the array itself? -/
def aliases : Op → Bool
  | .pushBack (.slot _) | .insert _ (.slot _) | .insertN _ _ (.slot _) | .resizeFill _ (.slot _)
  | .pushBackMove (.slot _) | .emplaceBack (.slot _) | .emplace _ (.slot _)
  | .fill (.slot _) | .viewFill _ _ _ _ (.slot _) => true
  | _ => false

/-! ## the proposed repair of F3: copy an element argument before reallocating / shifting
(`notes/C26.md`: `if (isElementOfThisArray(value)) { T valueCopy(value); … }`) -/

/-- the element index when the repaired code takes its private copy first -/
def copySlot (a : Arr) : Op → Option Nat
  | .pushBack (.slot i) => if a.cap = a.size then some i else none
  | .insert _ (.slot i) => some i
  | .insertN _ n (.slot i) => if n ≠ 0 then some i else none
  | .resizeFill n (.slot i) => if n > a.cap then some i else none
  | _ => none

/-- the three operations that commit 06f34988 left without an `isElementOfThisArray` guard
(`push_back(T&&)`, `emplace_back`, `emplace`): for them the current code still needs `refOK` -/
def unguardedOK (a : Arr) : Op → Bool
  | .pushBackMove r => refOK a (.pushBackMove r)
  | .emplaceBack r => refOK a (.emplaceBack r)
  | .emplace p r => refOK a (.emplace p r)
  | _ => true

def Op.withValue (v : Elt) : Op → Op
  | .pushBack _ => .pushBack (.ext v)
  | .insert p _ => .insert p (.ext v)
  | .insertN p n _ => .insertN p n (.ext v)
  | .resizeFill n _ => .resizeFill n (.ext v)
  | .emplaceBack _ => .emplaceBack (.ext v)
  | .emplace p _ => .emplace p (.ext v)
  | op => op

def stepFixed (mx : Nat) (a : Arr) (L : Log) (op : Op) : Res :=
  match copySlot a op with
  | some i =>
    let (v, L) := read a.cells L i                                   -- T valueCopy(value);
    let r := step mx a { L with ctor := L.ctor + 1 } (op.withValue v)
    { r with log := { r.log with dtor := r.log.dtor + 1 } }          -- ~valueCopy
  | none => step mx a L op

/-! ### the code as it is now (/repo after 06f34988, f70ab3a8 and ff598e36)

* `push_back(T&&)` with an element argument that must reallocate: remember the element's index, grow,
  then move from the element's *new* location;
* `emplace_back` / `emplace` that must reallocate: allocate the new block, construct the new element
  directly in its final slot there **from the still-live arguments**, then move the old elements around
  it and free the old block (libstdc++'s scheme; no temporary);
* `emplace` in the middle without reallocation: build a temporary first (the elements shift), then
  make the gap and move the temporary in; appending with spare capacity constructs in place. -/

/-- `emplace_back(args…)` -/
def emplaceBack2 (mx : Nat) (a : Arr) (L : Log) (r : Ref) : Res :=
  if a.cap = a.size then
    match calcNewCapacityForGrowthBy mx a.cap 1 with
    | none => ⟨a, L, true⟩
    | some nc =>
      let (v, L) := readRef a.cells L r.inPlace                 -- the old block is still alive
      let (nw, L) := construct (allocN nc) L a.size v            -- new(newData+size()) T(args…)
      let (nw, _, L) := moveRange nw a.cells L 0 0 a.size
      ⟨{ cells := nw, size := a.size + 1 }, L, false⟩
  else
    let (v, L) := readRef a.cells L r.inPlace
    let (c, L) := construct a.cells L a.size v
    ⟨{ cells := c, size := a.size + 1 }, L, false⟩

/-- `emplace(p, args…)` -/
def emplace2 (mx : Nat) (a : Arr) (L : Log) (p : Nat) (r : Ref) : Res :=
  if a.cap ≠ a.size then
    if p = a.size then
      let (v, L) := readRef a.cells L r.inPlace                 -- appending: nothing moves
      let (c, L) := construct a.cells L a.size v
      ⟨{ cells := c, size := a.size + 1 }, L, false⟩
    else
      let (v, L) := readRef a.cells L r.inPlace                 -- T newElement(args…);
      let rs := insert mx a { L with ctor := L.ctor + 1 } p (.ext v)   -- insertGapAt; moveConstruct(gap, std::move(newElement))
      { rs with log := { rs.log with dtor := rs.log.dtor + 1 } } -- ~newElement
  else
    match calcNewCapacityForGrowthBy mx a.cap 1 with
    | none => ⟨a, L, true⟩
    | some nc =>
      let (v, L) := readRef a.cells L r.inPlace
      let (nw, L) := construct (allocN nc) L p v                 -- new(newData+before) T(args…)
      let (nw, old, L) := moveRange nw a.cells L 0 0 p
      let (nw, _, L) := moveRange nw old L (p + 1) p (a.size - p)
      ⟨{ cells := nw, size := a.size + 1 }, L, false⟩

/-- **the current code**: `stepFixed` (the four `const T&` guards) plus the three rvalue/emplace repairs -/
def stepFixed2 (mx : Nat) (a : Arr) (L : Log) : Op → Res
  | .pushBackMove (.slot i) =>
    if a.cap = a.size then
      match growAtEnd mx a L 1 with
      | none => ⟨a, L, true⟩
      | some (a', L') => pushBackMove mx a' L' (.slot i)                 -- now in place: `std::move(data()[i])`
    else step mx a L (.pushBackMove (.slot i))
  | .emplaceBack r => emplaceBack2 mx a L r
  | .emplace p r => emplace2 mx a L p r
  | op => stepFixed mx a L op

/-- operation sequences with the code as it is now (/repo after 06f34988 and f70ab3a8) -/
def runCurrent (mx : Nat) (a : Arr) (L : Log) : List Op → Arr × Log
  | [] => (a, L)
  | op :: ops => let r := stepFixed2 mx a L op; runCurrent mx r.arr r.log ops

/-! ## the specification: what `std::vector` does -/

def Ref.value (vs : List Elt) : Ref → Elt
  | .ext v => v
  | .slot i => vs.getD i deadVal

/-- replace the range `[p, q)` of `vs` by `ws` -/
def splice (vs : List Elt) (p q : Nat) (ws : List Elt) : List Elt := vs.take p ++ (ws ++ vs.drop q)

def spec (vs : List Elt) : Op → List Elt
  | .pushBack r => vs ++ [r.value vs]
  | .pushBackMove (.ext v) => vs ++ [v]
  | .pushBackMove (.slot i) => vs.set i movedVal ++ [vs.getD i deadVal]     -- the source element is left moved-from
  | .emplaceBack r => vs ++ [r.value vs]
  | .pushBackDefault => vs ++ [defaultVal]
  | .popBack => vs.take (vs.length - 1)
  | .insert p r => splice vs p p [r.value vs]
  | .emplace p r => splice vs p p [r.value vs]
  | .insertN p n r => splice vs p p (List.replicate n (r.value vs))
  | .insertRange p ws => splice vs p p ws
  | .erase f l => splice vs f l []
  | .eraseOne p => splice vs p (p + 1) []
  | .eraseFast p => (vs.set p (vs.getD (vs.length - 1) deadVal)).take (vs.length - 1)   -- last element takes the place
  | .clear => []
  | .resize n => if n ≤ vs.length then vs.take n else vs ++ List.replicate (n - vs.length) defaultVal
  | .resizeFill n r => if n ≤ vs.length then vs.take n else vs ++ List.replicate (n - vs.length) (r.value vs)
  | .reserve _ => vs
  | .shrinkToFit => vs
  | .assignN n v => List.replicate n v
  | .assignRange ws => ws
  | .fill r => List.replicate vs.length (r.value vs)
  | .deallocate => []
  | .setElt i v => vs.set i v
  | .viewFill off _ off2 len2 r => splice vs (off + off2) (off + off2 + len2) (List.replicate len2 (r.value vs))
  | .viewAssign off ws => splice vs off (off + ws.length) ws

/-- abstraction function: the values of the first `size` cells -/
def abs (a : Arr) : List Elt := (a.cells.take a.size).map (fun c => c.getD deadVal)

/-- capacity after an operation that `std::vector`-like growth policy prescribes (used by the
driver in the aliasing streams, where the expected *contents* are the specification's) -/
def run (mx : Nat) (a : Arr) (L : Log) : List Op → Arr × Log
  | [] => (a, L)
  | op :: ops => let r := step mx a L op; run mx r.arr r.log ops

/-! ## several arrays -/

inductive WOp
  | on (k : Nat) (op : Op)
  | swap (i j : Nat)                       -- a_i.swap(a_j)
  | copyAssign (i j : Nat)                 -- a_i = a_j
  | moveAssign (i j : Nat)                 -- a_i = std::move(a_j)   (swap)
  | copyCtor (i j : Nat)                   -- destroy a_i; new(a_i) Array_(a_j)
  | moveCtor (i j : Nat)                   -- destroy a_i; new(a_i) Array_(std::move(a_j))
  | viewCopy (i off j off2 len : Nat)      -- a_i(off,len) = a_j(off2,len)   (i ≠ j)
deriving Repr, Inhabited

structure World where
  arrs : List Arr
  log : Log := {}
  thrown : Bool := false
deriving Repr

def World.get (w : World) (k : Nat) : Arr := w.arrs.getD k {}

def wstep (mx : Nat) (w : World) : WOp → World
  | .on k op =>
    let r := step mx (w.get k) w.log op
    { arrs := w.arrs.set k r.arr, log := r.log, thrown := r.thrown }
  | .swap i j =>
    let ai := w.get i; let aj := w.get j
    { arrs := (w.arrs.set i aj).set j ai, log := w.log }
  | .moveAssign i j =>
    let ai := w.get i; let aj := w.get j
    { arrs := (w.arrs.set i aj).set j ai, log := w.log }
  | .copyAssign i j =>
    if i = j then { w with thrown := false } else
    let r := assignRange mx (w.get i) w.log (abs (w.get j))
    { arrs := w.arrs.set i r.arr, log := r.log }
  | .copyCtor i j =>
    if i = j then { w with thrown := false } else
    let d := deallocate (w.get i) w.log
    let r := constructFrom d.log (abs (w.get j))
    { arrs := w.arrs.set i r.arr, log := r.log }
  | .moveCtor i j =>
    if i = j then { w with thrown := false } else
    let d := deallocate (w.get i) w.log
    { arrs := (w.arrs.set i (w.get j)).set j d.arr, log := d.log }
  | .viewCopy i off j off2 len =>
    let r := viewAssign (w.get i) w.log off (((abs (w.get j)).drop off2).take len)
    { arrs := w.arrs.set i r.arr, log := r.log }

def wlegal (mx : Nat) (w : World) : WOp → Bool
  | .on k op => k < w.arrs.length ∧ legal mx (w.get k) op
  | .swap i j | .moveAssign i j | .copyAssign i j | .copyCtor i j | .moveCtor i j =>
    i < w.arrs.length ∧ j < w.arrs.length
  | .viewCopy i off j off2 len =>
    i < w.arrs.length ∧ j < w.arrs.length ∧ i ≠ j ∧ off + len ≤ (w.get i).size ∧ off2 + len ≤ (w.get j).size

def wrefOK (w : World) : WOp → Bool
  | .on k op => refOK (w.get k) op
  | _ => true

/-- the specification at the level of several `std::vector`s -/
def wspec (vss : List (List Elt)) : WOp → List (List Elt)
  | .on k op => vss.set k (spec (vss.getD k []) op)
  | .swap i j => (vss.set i (vss.getD j [])).set j (vss.getD i [])
  | .moveAssign i j => (vss.set i (vss.getD j [])).set j (vss.getD i [])      -- documented: swaps
  | .copyAssign i j => vss.set i (vss.getD j [])
  | .copyCtor i j => vss.set i (vss.getD j [])
  | .moveCtor i j => if i = j then vss else (vss.set i (vss.getD j [])).set j []
  | .viewCopy i off j off2 len =>
    vss.set i (splice (vss.getD i []) off (off + len) (((vss.getD j []).drop off2).take len))

/-- world step with the single-array algorithm of the current code (`stepFixed2`) — what the driver executes -/
def wstepCurrent (mx : Nat) (w : World) : WOp → World
  | .on k op =>
    let r := stepFixed2 mx (w.get k) w.log op
    { arrs := w.arrs.set k r.arr, log := r.log, thrown := r.thrown }
  | op => wstep mx w op

def wrun (mx : Nat) (w : World) : List WOp → World
  | [] => w
  | op :: ops => wrun mx (wstep mx w op) ops

/-! ## pointer wrappers

A tiny heap of clonable objects: `objs[i] = some v` is a live heap object with value `v`.
`count` cells are modelled alongside (`cnt[i]` = the shared use count owned by object `i`). -/

structure Heap where
  objs : List (Option Elt) := []
  cnts : List Nat := []             -- use count of object i (CloneOnWritePtr only; 0 when unmanaged/deleted)
  doubleFree : Nat := 0
deriving Repr, DecidableEq, Inhabited

def Heap.alloc (h : Heap) (v : Elt) (cnt : Nat) : Nat × Heap :=
  (h.objs.length, { h with objs := h.objs ++ [some v], cnts := h.cnts ++ [cnt] })

def Heap.free (h : Heap) (p : Nat) : Heap :=
  match h.objs[p]? with
  | some (some _) => { h with objs := h.objs.set p none, cnts := h.cnts.set p 0 }
  | _ => { h with doubleFree := h.doubleFree + 1 }

def Heap.val (h : Heap) (p : Nat) : Elt := (h.objs.getD p none).getD deadVal
def Heap.cnt (h : Heap) (p : Nat) : Nat := h.cnts.getD p 0
def Heap.write (h : Heap) (p : Nat) (v : Elt) : Heap :=
  match h.objs[p]? with
  | some (some _) => { h with objs := h.objs.set p (some v) }
  | _ => { h with doubleFree := h.doubleFree + 1 }
def Heap.incr (h : Heap) (p : Nat) : Heap := { h with cnts := h.cnts.set p (h.cnt p + 1) }
def Heap.decr (h : Heap) (p : Nat) : Heap := { h with cnts := h.cnts.set p (h.cnt p - 1) }
def Heap.liveCount (h : Heap) : Nat := (h.objs.filter Option.isSome).length

/-- a smart pointer value: `none` = nullptr -/
abbrev Ptr := Option Nat

namespace Cow   -- CloneOnWritePtr<T>

/-- `reset()` -/
def reset (h : Heap) (p : Ptr) : Heap × Ptr :=
  match p with
  | none => (h, none)
  | some x =>
    let h := h.decr x
    if h.cnt x = 0 then (h.free x, none) else (h, none)

/-- `shareWith(src)` into an empty pointer -/
def shareWith (h : Heap) (src : Ptr) : Heap × Ptr :=
  match src with
  | none => (h, none)
  | some x => (h.incr x, some x)

/-- `CloneOnWritePtr(const T& x)`: clone and own -/
def make (h : Heap) (v : Elt) : Heap × Ptr :=
  let (x, h) := h.alloc v 1
  (h, some x)

/-- copy constructor -/
def copyCtor (h : Heap) (src : Ptr) : Heap × Ptr := shareWith h src

/-- copy assignment `dst = src` -/
def copyAssign (h : Heap) (dst src : Ptr) : Heap × Ptr :=
  if src ≠ dst then
    let (h, _) := reset h dst
    shareWith h src
  else (h, dst)

/-- `detach()` -/
def detach (h : Heap) (p : Ptr) : Heap × Ptr :=
  match p with
  | none => (h, none)
  | some x =>
    if h.cnt x > 1 then
      let h := h.decr x
      let (y, h) := h.alloc (h.val x) 1
      (h, some y)
    else (h, some x)

/-- `*p.upd() = v` -/
def write (h : Heap) (p : Ptr) (v : Elt) : Heap × Ptr :=
  let (h, p) := detach h p
  match p with
  | none => (h, none)
  | some x => (h.write x v, some x)

def get (h : Heap) (p : Ptr) : Option Elt := p.map h.val
def useCount (h : Heap) (p : Ptr) : Nat := match p with | none => 0 | some x => h.cnt x

/-- `release()` : detach, give up ownership (object stays on the heap, unmanaged) -/
def release (h : Heap) (p : Ptr) : Heap × Ptr × Ptr :=
  let (h, p) := detach h p
  match p with
  | none => (h, none, none)
  | some x => ({ h with cnts := h.cnts.set x 0 }, none, some x)

/-- move assignment `dst = std::move(src)` (distinct containers): `reset(); moveFrom(src)` -/
def moveAssign (h : Heap) (dst src : Ptr) : Heap × Ptr × Ptr :=
  let (h, _) := reset h dst
  (h, src, none)

end Cow

namespace Clone   -- ClonePtr<T>

def make (h : Heap) (v : Elt) : Heap × Ptr :=
  let (x, h) := h.alloc v 0
  (h, some x)

def cloneOrNull (h : Heap) (src : Ptr) : Heap × Ptr :=
  match src with
  | none => (h, none)
  | some x => make h (h.val x)

def reset (h : Heap) (p : Ptr) : Heap × Ptr :=
  match p with
  | none => (h, none)
  | some x => (h.free x, none)

def copyCtor (h : Heap) (src : Ptr) : Heap × Ptr := cloneOrNull h src

/-- `dst = src` for distinct containers: `reset(cloneOrNull(src.p))` — clone first, then delete the old -/
def copyAssign (h : Heap) (dst src : Ptr) : Heap × Ptr :=
  let (h, c) := cloneOrNull h src
  if c ≠ dst then
    let (h, _) := reset h dst
    (h, c)
  else (h, dst)

def write (h : Heap) (p : Ptr) (v : Elt) : Heap :=
  match p with
  | none => h
  | some x => h.write x v

def get (h : Heap) (p : Ptr) : Option Elt := p.map h.val

/-- move assignment (distinct containers): `reset(src.p); src.p = nullptr` -/
def moveAssign (h : Heap) (dst src : Ptr) : Heap × Ptr × Ptr :=
  if src ≠ dst then
    let (h, _) := reset h dst
    (h, src, none)
  else (h, dst, none)

end Clone

/-! `ReferencePtr<T>`: a bare pointer that is nulled by copying -/
namespace RefPtr
def copyCtor (_src : Ptr) : Ptr := none
def copyAssign (_dst _src : Ptr) : Ptr := none            -- `if (&src != this) reset();`
def moveCtor (src : Ptr) : Ptr × Ptr := (src, none)       -- (new, source afterwards)
def moveAssign (_dst src : Ptr) : Ptr × Ptr := (src, none)
def reset (t : Ptr) : Ptr := t
end RefPtr

/-! `ResetOnCopy<T>` -/
namespace ResetOnCopy
def copyCtor (_src : Elt) : Elt := defaultVal
def copyAssign (_dst _src : Elt) : Elt := defaultVal
def moveCtor (src : Elt) : Elt := src
def moveAssign (_dst src : Elt) : Elt := src
def assignValue (_dst v : Elt) : Elt := v
end ResetOnCopy

/-- `ReinitOnCopy<T>`: (value, reinit value) -/
structure Reinit where
  value : Elt
  reinit : Elt
deriving Repr, DecidableEq, Inhabited

namespace Reinit
def make (v : Elt) : Reinit := ⟨v, v⟩
def copyCtor (src : Reinit) : Reinit := make src.reinit
def copyAssign (dst _src : Reinit) : Reinit := { dst with value := dst.reinit }
def moveCtor (src : Reinit) : Reinit := src
def moveAssign (dst src : Reinit) : Reinit := { dst with value := src.value }
def assignValue (dst : Reinit) (v : Elt) : Reinit := { dst with value := v }
end Reinit

end C26
