import SimbodyModel.Proto
/-!
# C39 — Optimizers: simbody's own decision logic + exact acceptance contract (Mathlib-free)

The optimisation algorithms themselves (L-BFGS, L-BFGS-B, IPOPT, CMA-ES) are vendored and are NOT modelled.
Modelled here:

* `select` — `Optimizer::constructOptimizerRep` (Optimizer.cpp): explicit request, CFSQP load failure falling back,
  `BestAvailable` table on `getNumConstraints() > 0` / `getHasLimits()`, the `APIARGCHECK` on
  `UnknownOptimizerAlgorithm` / `UserSuppliedOptimizerAlgorithm`, and the dimension checks of the `*Optimizer`
  constructors (`construct`);
* `gradientWrapperCalls` / `jacobianWrapperCalls` — which user virtuals `OptimizerRep::gradientFuncWrapper` /
  `constraintJacobianWrapper` (OptimizerRep.cpp) invoke, and `stencil` — the points the `Differentiator` then asks
  the objective at (`Differentiator.cpp`: `hEst = accFac*max(|y0|,YMin)`, `h = (y0+hEst)-y0`);
* `lbfgsConverged` — the termination test simbody substituted in lbfgs.cpp (scaled infinity norm);
* the *contract* (kind K): executable predicates, polymorphic in the ordered scalar `K`, run over exact `Rat` on
  the doubles the implementation returned: `fTruthful`, `notWorse`, `allInBox`, `feasible`, `kktOK`
  (certificate that the designed optimum really is one), `near`, and their conjunction `accept`.

Vectors are functions `Nat → K` used below an explicit dimension `n` (sums by recursion on `n`), which keeps
linearity lemmas unconditional.
-/
namespace C39

/-! ## Algorithm selection (Optimizer.cpp) -/

/-- `enum OptimizerAlgorithm` (Optimizer.h), in declaration order 0..7 -/
inductive Alg
  | bestAvailable | interiorPoint | lbfgs | lbfgsb | cfsqp | cmaes | unknown | userSupplied
deriving DecidableEq, Repr

def Alg.toCode : Alg → Nat
  | .bestAvailable => 0 | .interiorPoint => 1 | .lbfgs => 2 | .lbfgsb => 3
  | .cfsqp => 4 | .cmaes => 5 | .unknown => 6 | .userSupplied => 7

def Alg.ofCode : Nat → Alg
  | 0 => .bestAvailable | 1 => .interiorPoint | 2 => .lbfgs | 3 => .lbfgsb
  | 4 => .cfsqp | 5 => .cmaes | 6 => .unknown | _ => .userSupplied

/-- the `if(!newRep)` block: choice by problem features -/
def bestAvailable (numConstraints : Nat) (hasLimits : Bool) : Alg :=
  if numConstraints > 0 then .interiorPoint
  else if hasLimits then .lbfgsb
  else .lbfgs

/-- `Optimizer::constructOptimizerRep(sys, algorithm)`: `none` where the code throws.  `cfsqpLoads` is whether
`new CFSQPOptimizer` succeeds (it throws when the shared library cannot be bound; the code catches and falls
back to the default choice). -/
def select (cfsqpLoads : Bool) (req : Alg) (numConstraints : Nat) (hasLimits : Bool) : Option Alg :=
  let newRep : Option Alg :=
    match req with
    | .interiorPoint => some .interiorPoint
    | .lbfgsb => some .lbfgsb
    | .lbfgs => some .lbfgs
    | .cfsqp => if cfsqpLoads then some .cfsqp else none
    | .cmaes => some .cmaes
    | _ => none
  if req = .unknown ∨ req = .userSupplied then none
  else match newRep with
    | some a => some a
    | none => some (bestAvailable numConstraints hasLimits)

/-- smallest dimension each `*Optimizer` constructor accepts (`n < 1` throws; CMAES: `VALUECHECK(2, n, …)`) -/
def minDim : Alg → Nat
  | .cmaes => 2
  | _ => 1

/-- selection followed by the constructor's dimension check -/
def construct (cfsqpLoads : Bool) (req : Alg) (numConstraints : Nat) (hasLimits : Bool) (n : Nat) : Option Alg :=
  match select cfsqpLoads req numConstraints hasLimits with
  | some a => if minDim a ≤ n then some a else none
  | none => none

/-- algorithms documented to honour parameter limits -/
def honoursLimits : Alg → Bool
  | .lbfgsb | .interiorPoint | .cmaes | .cfsqp => true
  | _ => false

/-- algorithms that handle general constraints -/
def handlesConstraints : Alg → Bool
  | .interiorPoint | .cfsqp => true
  | _ => false

/-- descent methods (monotone line search from the start point) -/
def isDescent : Alg → Bool
  | .lbfgs | .lbfgsb => true
  | _ => false

/-! ## Wrapper logic (OptimizerRep.cpp) -/

inductive UserCall | objective | gradient | constraints | jacobian
deriving DecidableEq, Repr

/-- number of stencil evaluations of one numerical gradient/Jacobian: `order` per parameter
(`ForwardDifference` order 1, `CentralDifference` order 2) -/
def stencilSize (order n : Nat) : Nat := order * n

/-- `gradientFuncWrapper`: user virtuals invoked by one call -/
def gradientWrapperCalls (numGrad : Bool) (order n : Nat) : List UserCall :=
  if numGrad then .objective :: List.replicate (stencilSize order n) .objective
  else [.gradient]

/-- `constraintJacobianWrapper` (`m` constraints; `valuesNull` is the structure query) -/
def jacobianWrapperCalls (m : Nat) (valuesNull numJac : Bool) (order n : Nat) : List UserCall :=
  if m = 0 then []
  else if valuesNull then []
  else if numJac then .constraints :: List.replicate (stencilSize order n) .constraints
  else [.jacobian]

section Scalar
variable {K : Type} [Add K] [Sub K] [Mul K] [Neg K] [Div K]
variable [OfNat K 0] [OfNat K 1] [OfNat K 2]
variable [LE K] [DecidableLE K] [LT K] [DecidableLT K] [DecidableEq K]

def absK (x : K) : K := if x < 0 then -x else x
def maxK (a b : K) : K := if a < b then b else a

/-! ## Differentiator stencil (executed over `Float`, bit-exact against the logged evaluations) -/

/-- `h = cleanUpH(accFac*max(|y0|,YMin), y0)` -/
def stepH (accFac ymin y0 : K) : K :=
  let hEst := accFac * maxK (absK y0) ymin
  (y0 + hEst) - y0

/-- points at which `calcGradient`/`calcJacobian` evaluate the user function, in call order -/
def stencil (order : Nat) (accFac ymin : K) (y0 : List K) : List (List K) :=
  (List.range y0.length).flatMap (fun i =>
    let yi := y0.getD i 0
    let h := stepH accFac ymin yi
    if order = 1 then [y0.set i (yi + h)]
    else [y0.set i (yi + h), y0.set i (yi - h)])

/-! ## Finite sums and linear algebra below a dimension -/

def sumN : Nat → (Nat → K) → K
  | 0, _ => 0
  | n + 1, f => sumN n f + f n

def dot (n : Nat) (x y : Nat → K) : K := sumN n (fun i => x i * y i)

/-- `A = L Lᵀ + μ I` -/
def gramA (n : Nat) (L : Nat → Nat → K) (mu : K) (i j : Nat) : K :=
  sumN n (fun k => L i k * L j k) + (if i = j then mu else 0)

def matVec (n : Nat) (A : Nat → Nat → K) (x : Nat → K) (i : Nat) : K := sumN n (fun j => A i j * x j)

/-- `f(x) = ½ xᵀA x − bᵀx` -/
def quadF (n : Nat) (A : Nat → Nat → K) (b x : Nat → K) : K :=
  dot n x (matVec n A x) / 2 - dot n b x

def quadGrad (n : Nat) (A : Nat → Nat → K) (b x : Nat → K) (i : Nat) : K := matVec n A x i - b i

/-- Rosenbrock-like `Σ_{i<n-1} [cR (x_{i+1} − x_i²)² + (1 − x_i)²] + (1 − x_{n-1})²` -/
def rosenF (n : Nat) (cR : K) (x : Nat → K) : K :=
  sumN (n - 1) (fun i => cR * ((x (i + 1) - x i * x i) * (x (i + 1) - x i * x i)) + (1 - x i) * (1 - x i))
    + (1 - x (n - 1)) * (1 - x (n - 1))

def sub (x y : Nat → K) : Nat → K := fun i => x i - y i
def normSq (n : Nat) (x : Nat → K) : K := dot n x x

/-! ## lbfgs.cpp termination test (simbody's substitution, "sherm 100303") -/

/-- `converged = max_i |g_i| · (1/max(0.1,|f|)) · max(1,|x_i|) <= eps`; `tenth` is the literal `0.1` -/
def lbfgsConverged (n : Nat) (tenth eps f : K) (x g : Nat → K) : Bool :=
  (List.range n).all (fun i => decide (absK (g i) * maxK 1 (absK (x i)) ≤ eps * maxK tenth (absK f)))

/-! ## Contract predicates -/

def geLo (l : Option K) (v : K) : Bool := match l with | none => true | some a => decide (a ≤ v)
def leHi (h : Option K) (v : K) : Bool := match h with | none => true | some a => decide (v ≤ a)

def inBox (n : Nat) (lo hi : Nat → Option K) (x : Nat → K) : Bool :=
  (List.range n).all (fun i => geLo (lo i) (x i) && leHi (hi i) (x i))

/-- every logged evaluation point inside the box -/
def allInBox (n : Nat) (lo hi : Nat → Option K) (pts : List (Nat → K)) : Bool := pts.all (inBox n lo hi)

/-- `clamp` of the start point onto the box (what L-BFGS-B does before its first evaluation) -/
def clampTo (lo hi : Nat → Option K) (x : Nat → K) : Nat → K := fun i =>
  let v := match lo i with | some a => maxK a (x i) | none => x i
  match hi i with | some a => (if a < v then a else v) | none => v

def conVal (n : Nat) (C : Nat → Nat → K) (d : Nat → K) (x : Nat → K) (r : Nat) : K :=
  sumN n (fun j => C r j * x j) - d r

/-- rows `0..nEq-1`: `|c_r(x)| ≤ ctol`; rows `nEq..nEq+nIneq-1`: `c_r(x) ≥ −ctol` -/
def feasible (n nEq nIneq : Nat) (C : Nat → Nat → K) (d : Nat → K) (ctol : K) (x : Nat → K) : Bool :=
  (List.range nEq).all (fun r => decide (-ctol ≤ conVal n C d x r) && decide (conVal n C d x r ≤ ctol))
  && (List.range nIneq).all (fun r => decide (-ctol ≤ conVal n C d x (nEq + r)))

def loSlackZero (l : Option K) (z v : K) : Bool :=
  match l with | some a => decide (z * (v - a) = 0) | none => decide (z = 0)
def hiSlackZero (h : Option K) (z v : K) : Bool :=
  match h with | some a => decide (z * (a - v) = 0) | none => decide (z = 0)

/-- exact KKT certificate for `min quadF` s.t. `C_eq x = d_eq`, `C_in x ≥ d_in`, `lo ≤ x ≤ hi` at `xs` -/
def kktOK (n nEq nIneq : Nat) (A : Nat → Nat → K) (b : Nat → K) (C : Nat → Nat → K) (d : Nat → K)
    (lo hi : Nat → Option K) (xs mult zlo zhi : Nat → K) : Bool :=
  feasible n nEq nIneq C d 0 xs
  && inBox n lo hi xs
  && (List.range n).all (fun i =>
        decide (quadGrad n A b xs i = sumN (nEq + nIneq) (fun r => C r i * mult r) + zlo i - zhi i))
  && (List.range nIneq).all (fun r =>
        decide (0 ≤ mult (nEq + r)) && decide (mult (nEq + r) * conVal n C d xs (nEq + r) = 0))
  && (List.range n).all (fun i =>
        decide (0 ≤ zlo i) && decide (0 ≤ zhi i)
        && loSlackZero (lo i) (zlo i) (xs i) && hiSlackZero (hi i) (zhi i) (xs i))

/-- `‖x − xs‖² ≤ bound²` -/
def near (n : Nat) (x xs : Nat → K) (boundSq : K) : Bool := decide (normSq n (sub x xs) ≤ boundSq)

/-- `|fret − F| ≤ tolF (1 + |F|)` -/
def fTruthful (tolF fret F : K) : Bool := decide (absK (fret - F) ≤ tolF * (1 + absK F))

/-- `F(x_ret) ≤ F(start) + slack` -/
def notWorse (Fret Fstart slack : K) : Bool := decide (Fret ≤ Fstart + slack)

/-! ## The record the harness exports and its acceptance -/

structure Problem (K : Type) where
  n : Nat
  nEq : Nat
  nIneq : Nat
  ptype : Nat            -- 0 quadratic, 1 Rosenbrock-like
  cR : K
  L : Nat → Nat → K
  b : Nat → K
  lo : Nat → Option K
  hi : Nat → Option K
  C : Nat → Nat → K
  d : Nat → K

structure Cert (K : Type) where
  xs : Nat → K
  mult : Nat → K
  zlo : Nat → K
  zhi : Nat → K

structure Outcome (K : Type) where
  alg : Alg
  x0 : Nat → K
  fret : K
  xret : Nat → K
  evals : List (Nat → K)      -- logged evaluation points (plus the component-wise envelope of all of them)
  ctol : K
  tolF : K                    -- tolerance of `fTruthful`
  slack : K                   -- rounding slack of `notWorse`
  loE : Nat → Option K        -- limits the evaluations are held to (IPOPT: documented relaxation)
  hiE : Nat → Option K
  checkEvals : Bool           -- evaluations claimed inside limits (not for an infeasible IPOPT start / stencils)
  boundSq : K                 -- square of the distance bound to the certified minimiser

def Problem.A (P : Problem K) : Nat → Nat → K := gramA P.n P.L 1

def Problem.F (P : Problem K) (x : Nat → K) : K :=
  if P.ptype = 0 then quadF P.n P.A P.b x else rosenF P.n P.cR x

/-- failed clauses of the contract (empty list = accepted) -/
def failures (P : Problem K) (cert : Option (Cert K)) (o : Outcome K) : List String :=
  let hasLim := (List.range P.n).any (fun i => (P.lo i).isSome || (P.hi i).isSome)
  let c1 := if fTruthful o.tolF o.fret (P.F o.xret) then [] else ["ftruth"]
  let start := if o.alg = .lbfgsb then clampTo P.lo P.hi o.x0 else o.x0
  let c2 := if isDescent o.alg then (if notWorse (P.F o.xret) (P.F start) o.slack then [] else ["descent"]) else []
  let c3 := if honoursLimits o.alg && hasLim then
              (if inBox P.n P.lo P.hi o.xret then [] else ["retbox"])
              ++ (if o.checkEvals then (if allInBox P.n o.loE o.hiE o.evals then [] else ["evalbox"]) else [])
            else []
  let c4 := if o.alg = .interiorPoint then
              (if feasible P.n P.nEq P.nIneq P.C P.d o.ctol o.xret then [] else ["feasible"]) else []
  let c5 := match cert with
    | none => []
    | some c =>
      (if kktOK P.n P.nEq P.nIneq P.A P.b P.C P.d P.lo P.hi c.xs c.mult c.zlo c.zhi then [] else ["kktcert"])
      ++ (if near P.n o.xret c.xs o.boundSq then [] else ["nearopt"])
  c1 ++ c2 ++ c3 ++ c4 ++ c5

def accept (P : Problem K) (cert : Option (Cert K)) (o : Outcome K) : Bool :=
  (failures P cert o).isEmpty

end Scalar
end C39
