import SimbodyModel.Proto
import SimbodyModel.Mobilizer
/-!
# Line-protocol glue for the mobilizer family drivers (C03, C05, C06), `K := Float`

Record layout written by `harness/mobilizer_common.h`:

    I mob <type> <rev> <euler> <axisX> par[8] X_PF[12] X_BM[12] q[7] u[6] station[3] udot[6] vq[7] vu[6]

(`X[12]` = rotation row-major then translation; unused slots are 0).  The only thing done here besides parsing and
printing is evaluating `cos`, `sin`, `1/|quat|`, `1/cos q1` — the q-pool precalculations of the C++ nodes.
-/
namespace MobilizerIO
open Mobilizer Proto

def mobTypeOf : String → Option MobType
  | "pin" => some .pin | "slider" => some .slider | "cylinder" => some .cylinder
  | "bendstretch" => some .bendStretch | "universal" => some .universal | "planar" => some .planar
  | "gimbal" => some .gimbal | "bushing" => some .bushing | "ball" => some .ball | "free" => some .free
  | "translation" => some .translation | "screw" => some .screw | "spherical" => some .sphericalCoords
  | "ellipsoid" => some .ellipsoid | "lineorientation" => some .lineOrientation | "freeline" => some .freeLine
  | "weld" => some .weld | "cantilever" => some .cantilever
  | _ => none

def m33Of (l : List Float) : M33 Float :=
  match l with
  | [a, b, c, d, e, f, g, h, i] => ⟨a, b, c, d, e, f, g, h, i⟩
  | _ => M33.one
def xfOf (l : List Float) : Xf Float :=
  ⟨m33Of (l.take 9), ⟨l.getD 9 0, l.getD 10 0, l.getD 11 0⟩⟩
def v3Of (l : List Float) : V3 Float := ⟨l.getD 0 0, l.getD 1 0, l.getD 2 0⟩

def m33L (A : M33 Float) : List Float := [A.xx, A.xy, A.xz, A.yx, A.yy, A.yz, A.zx, A.zy, A.zz]
def v3L (v : V3 Float) : List Float := [v.x, v.y, v.z]
def xfL (X : Xf Float) : List Float := m33L X.R ++ v3L X.p
def svL (V : SV Float) : List Float := v3L V.w ++ v3L V.v
def hL (H : List (SV Float)) : List Float := H.foldr (fun h acc => svL h ++ acc) []

/-- the per-body part of a record -/
structure Body where
  spec : Spec Float
  rev : Bool
  C : Coords Float
  X_PF : Xf Float
  X_MB : Xf Float
  u : List Float

/-- q-pool precalculations (`performQPrecalculations`) -/
def mkCoords (q : List Float) : Coords Float :=
  let n := Float.sqrt (q.getD 0 0 * q.getD 0 0 + q.getD 1 0 * q.getD 1 0 + q.getD 2 0 * q.getD 2 0 + q.getD 3 0 * q.getD 3 0)
  ⟨q, q.map Float.cos, q.map Float.sin, 1 / n, 1 / Float.cos (q.getD 1 0)⟩

/-- `ty rev euler axisX` + par[8] X_PF[12] X_BM[12] q[7] u[6] (45 numbers) -/
def parseBody (ty rev euler axisX : String) (d : List Float) : Option Body := do
  let t ← mobTypeOf ty
  let par0 := d.take 8
  let par : List Float :=
    if t = .sphericalCoords then
      [Float.cos (par0.getD 0 0), Float.sin (par0.getD 0 0), Float.cos (par0.getD 1 0), Float.sin (par0.getD 1 0),
       par0.getD 2 0, par0.getD 3 0, par0.getD 4 0]
    else if t = .cantilever then [par0.getD 0 0, (2.0 / 3.0) * par0.getD 0 0, (4.0 / 15.0) * par0.getD 0 0]
    else par0
  let S : Spec Float := ⟨t, euler == "1", par, axisX == "1"⟩
  let X_PF := xfOf ((d.drop 8).take 12)
  let X_BM := xfOf ((d.drop 20).take 12)
  let q := ((d.drop 32).take 7).take S.nq
  let u := ((d.drop 39).take 6).take S.nu
  -- the model composes with X_MB = ~X_BM (`RigidBodyNode` stores `X_MB = ~X_BM`)
  pure ⟨S, rev == "1", mkCoords q, X_PF, Xf.inv X_BM, u⟩

structure Case where
  body : Body
  station : V3 Float
  udot : List Float
  vq : List Float
  vu : List Float
  /-- the six `udot` slots unclipped (C05 uses them as a target spatial velocity) -/
  target : SV Float

def parseCase (toks : List String) : Option Case :=
  match toks with
  | ty :: rev :: euler :: axisX :: rest =>
    let d := rest.map hexToFloat
    if d.length < 67 then none else
    match parseBody ty rev euler axisX d with
    | none => none
    | some b =>
      some ⟨b, v3Of ((d.drop 45).take 3), ((d.drop 48).take 6).take b.spec.nu,
            ((d.drop 54).take 7).take b.spec.nq, ((d.drop 61).take 6).take b.spec.nu,
            ⟨v3Of ((d.drop 48).take 3), v3Of ((d.drop 51).take 3)⟩⟩
  | _ => none

def Body.kin (b : Body) (X_GP : Xf Float) (V_GP : SV Float) : BodyKin Float :=
  b.spec.realize b.C b.rev X_GP V_GP b.X_PF b.X_MB b.u

def line (tag : String) (xs : List Float) : String := fmtFloats ("O " ++ tag) xs

end MobilizerIO
