import SimbodyModel.TreeDyn
/-!
# C14 — mobilizer reaction forces (defined by the shared tree model `TreeDyn`)

* `calcMobilizerReactionForces` / `findMobilizerReactionOnBodyAtOriginInGround`: `F_B = z⁺ + P⁺ A⁺`
  (`TreeDyn.reactionAtOrigin` on the result of `TreeDyn.forwardDynamics`), shifted to `M` by `shiftForceBy(F_B, p_BM_G)`;
* `findMobilizerReactionOnParentAtOriginInGround`: `shiftForceBy(−F_B, p_BP_G)`, `p_BP_G = −l`;
  `…AtFInGround`: a further `shiftForceBy(·, p_PF_G)`;
* `calcMobilizerReactionForcesUsingFreebodyMethod`: the force through the mobilizer computed by the Newton–Euler
  (inverse dynamics) pass from the body accelerations: `F = Mk A + b − F_applied + Σ Φ_c F_c`.
-/
namespace C14
open TreeDyn
variable {K : Type} [Add K] [Sub K] [Mul K] [Neg K] [Div K] [OfNat K 0] [OfNat K 1] [OfNat K 2]

/-- reaction on the body at `M` -/
def reactionAtM (fB : SV K) (pBM : V3 K) : SV K := shiftForceBy fB pBM
/-- reaction on the parent at the parent's origin: equal and opposite, moved from `Bo` to `Po` -/
def reactionOnParent (fB : SV K) (l : V3 K) : SV K := shiftForceBy fB.neg l.neg
/-- reaction on the parent at `F` -/
def reactionOnParentAtF (fB : SV K) (l pPF : V3 K) : SV K := shiftForceBy (reactionOnParent fB l) pPF

/-- look a body's value up (by body index) in a preorder result list and emit in body-index order -/
def inBodyOrder {α : Type} (bodies : List (Body K)) (r : List α) (idxOf : α → Nat) (out : α → List K) : List K :=
  bodies.foldr (fun (b : Body K) (acc : List K) =>
    match r.find? (fun x => idxOf x == b.idx) with
    | some x => out x ++ acc
    | none => acc) []

end C14
