import SimbodyModel.Proto
/-!
# C10 — prescribed motion and mobilizer locks: executable model (Mathlib-free, scalar-polymorphic)

Mirrors, formula by formula / branch by branch:

* `SimbodyMatterSubsystemRep::prescribeQ / prescribeU`            (`prescribeQ`, `prescribeU`: scatter + zeroing)
* the udot scatter at the top of `calcTreeAccelerations`          (`scatterKnownUDot`)
* `Motion::calcAllMethods`                                        (`calcAllMethods`)
* `Motion::SinusoidImpl / SteadyImpl::calcPrescribed*`            (`Sinusoid.*`, `Steady.*`); `Motion::Custom` enters
  as the values its callbacks returned
* `MobilizedBodyImpl::lock / lockAt / unlock / getLockLevel / getLockValueAsVector`, lock-by-default
  initialisation of `realizeSubsystemModelImpl`                   (`Mob.lock`, `Mob.lockAt`, `Mob.unlock`, …)
* the free / prescribed / zero partition of q, u, udot and the pool allocation of
  `realizeSubsystemInstanceImpl`, pool filling of `MobilizedBodyImpl::realizeTime/Position/Dynamics` including the
  choice of callback per level and `u = N⁻¹ q̇`, `u̇ = N⁻¹(q̈ − Ṅu)` for holonomic Motions
                                                                  (`instanceMethods`, `MobIn.*PoolVals`, `partition`,
                                                                   `prescribe`, `knownUDot`)
* a DENSE REFERENCE for forward dynamics with prescribed mobilities: block elimination on the mass matrix, in the sign
  convention of the code (`RigidBodyNodeSpec.cpp`:  `M udot + tau = f`, i.e. `tau` sits on the LHS):
      `M_rr udot_r = f_r − M_rp udot_p`,   `tau_p = f_p − M_pr udot_r − M_pp udot_p`        (`elim`)
  `findMotionForces` (`unpackTau`), `calcMotionPower = −Σ tau_i u_i` (`motionPower`).
  The code's own O(n) recursion with prescribed nodes (`z += P(H u̇_p)`, `z⁺ = z`, `tau = eps − ~H(P A⁺)`) is the
  executable `TreeDyn.abiIn / fwdIn / fwdOut` (SimbodyModel/TreeDyn.lean, run by the `aba` records of the C10 driver);
  its abstract twin and the theorems about it are in SimbodyProofs/C10_aba.lean.
-/
namespace C10

/-! ## dual numbers `K[ε]/(ε²)` (time derivative = ε-part) -/
structure Jet1 (K : Type) where
  val : K
  eps : K
deriving Repr

namespace Jet1
variable {K : Type}
instance [Add K] : Add (Jet1 K) := ⟨fun a b => ⟨a.val + b.val, a.eps + b.eps⟩⟩
instance [Sub K] : Sub (Jet1 K) := ⟨fun a b => ⟨a.val - b.val, a.eps - b.eps⟩⟩
instance [Add K] [Mul K] : Mul (Jet1 K) := ⟨fun a b => ⟨a.val * b.val, a.val * b.eps + a.eps * b.val⟩⟩
instance [Neg K] : Neg (Jet1 K) := ⟨fun a => ⟨-a.val, -a.eps⟩⟩
instance [OfNat K 0] : OfNat (Jet1 K) 0 := ⟨⟨0, 0⟩⟩
instance [OfNat K 0] [OfNat K 1] : OfNat (Jet1 K) 1 := ⟨⟨1, 0⟩⟩
/-- a quantity constant in time -/
def const [OfNat K 0] (x : K) : Jet1 K := ⟨x, 0⟩
/-- time itself: `d/dt t = 1` -/
def time [OfNat K 1] (t : K) : Jet1 K := ⟨t, 1⟩
end Jet1

section scalar
variable {K : Type}

/-! ## (a) prescribeQ / prescribeU : scatter of the pools into the state vector -/

/-- `for i: x[idx[i]] = pool[i]` (sequential, as the C++ loop) -/
def scatter : List K → List Nat → List K → List K
  | xs, i :: is, v :: vs => scatter (xs.set i v) is vs
  | xs, _, _ => xs

/-- `for i: x[idx[i]] = 0` -/
def scatterZero [OfNat K 0] : List K → List Nat → List K
  | xs, i :: is => scatterZero (xs.set i 0) is
  | xs, [] => xs

/-- `SimbodyMatterSubsystemRep::prescribeQ`: prescribed q's from the Time-stage pool, known-zero q's to 0 -/
def prescribeQ [OfNat K 0] (q : List K) (presQ : List Nat) (pool : List K) (zeroQ : List Nat) : List K :=
  scatterZero (scatter q presQ pool) zeroQ

/-- `SimbodyMatterSubsystemRep::prescribeU`: prescribed u's from the Position-stage pool, zero u's to 0 -/
def prescribeU [OfNat K 0] (u : List K) (presU : List Nat) (pool : List K) (zeroU : List Nat) : List K :=
  scatterZero (scatter u presU pool) zeroU

/-- top of `calcTreeAccelerations`: `udot[presUDot[i]] = presUDots[i]; udot[zeroUDot[i]] = 0` -/
def scatterKnownUDot [OfNat K 0] (udot : List K) (presUDot : List Nat) (pool : List K) (zeroUDot : List Nat) : List K :=
  scatterZero (scatter udot presUDot pool) zeroUDot

/-! ## (b) Motion classes -/

/-- `Motion::Sinusoid(level, amplitude, rate, phase)` : `m(t) = a * sin(w*t + p)` -/
structure Sinusoid (K : Type) where
  a : K
  w : K
  p : K

namespace Sinusoid
/-- the angle the code hands to `std::sin` / `std::cos`: `defRate*t + defPhase` -/
def angle [Add K] [Mul K] (m : Sinusoid K) (t : K) : K := m.w * t + m.p
/-- `defAmplitude*std::sin(defRate*t + defPhase)` — calcPrescribedPosition / Velocity / Acceleration -/
def value [Mul K] (m : Sinusoid K) (s : K) : K := m.a * s
/-- `defAmplitude*defRate*std::cos(…)` — calcPrescribedPositionDot / VelocityDot -/
def dot [Mul K] (m : Sinusoid K) (c : K) : K := m.a * m.w * c
/-- `-defAmplitude*defRate*defRate*std::sin(…)` — calcPrescribedPositionDotDot -/
def dotdot [Mul K] [Neg K] (m : Sinusoid K) (s : K) : K := -m.a * m.w * m.w * s
end Sinusoid

/-- `Motion::Steady`: `u[i] = rate[i]` (first `nu` of the six stored rates), `udot[i] = 0` -/
structure Steady (K : Type) where
  rates : List K   -- the Vec6 discrete variable `currentU`

namespace Steady
/-- `Steady(mobod, Vec<N> u)`: first N rates given, the rest zero -/
def ofVec [OfNat K 0] (r : List K) : Steady K := ⟨(r ++ List.replicate 6 (0 : K)).take 6⟩
/-- `Steady(mobod, Real u)` / `setRate`: all six rates equal -/
def ofReal (r : K) : Steady K := ⟨List.replicate 6 r⟩
/-- `setOneRate(state, ux, u)` -/
def setOne (m : Steady K) (ux : Nat) (r : K) : Steady K := ⟨m.rates.set ux r⟩
/-- `calcPrescribedVelocity(s, nu, u)` -/
def velocity (m : Steady K) (nu : Nat) : List K := m.rates.take nu
/-- `calcPrescribedVelocityDot(s, nu, udot)` -/
def velocityDot [OfNat K 0] (_m : Steady K) (nu : Nat) : List K := List.replicate nu 0
end Steady

/-! ## (c) levels, methods, lock bookkeeping -/

/-- `Motion::Level` -/
inductive Level | noLevel | acceleration | velocity | position
deriving DecidableEq, Repr, Inhabited

/-- `Motion::Method` -/
inductive Method | noMethod | zero | discrete | prescribed | free | fast
deriving DecidableEq, Repr, Inhabited

def Level.toInt : Level → Int
  | .noLevel => -1 | .acceleration => 0 | .velocity => 1 | .position => 2
def Level.ofInt (i : Int) : Level :=
  if i == 0 then .acceleration else if i == 1 then .velocity else if i == 2 then .position else .noLevel
def Method.toInt : Method → Int
  | .noMethod => -1 | .zero => 0 | .discrete => 1 | .prescribed => 2 | .free => 3 | .fast => 4
def Method.ofInt (i : Int) : Method :=
  if i == 0 then .zero else if i == 1 then .discrete else if i == 2 then .prescribed else if i == 3 then .free
  else if i == 4 then .fast else .noMethod

/-- the three per-level methods `(qMethod, uMethod, udotMethod)` -/
structure Methods where
  q : Method
  u : Method
  udot : Method
deriving DecidableEq, Repr

/-- `SBInstancePerMobodInfo::clear()`: all motion tentatively free -/
def Methods.allFree : Methods := ⟨.free, .free, .free⟩

/-- `Motion::calcAllMethods` (the table in Motion.h); `NoLevel` (disabled motion) is never passed in -/
def calcAllMethods (level : Level) (lm : Method) : Methods :=
  match level with
  | .position =>
      let d := if lm = .prescribed then Method.prescribed else Method.zero
      ⟨lm, d, d⟩
  | .velocity =>
      ⟨if lm = .zero then .discrete else .free, lm, if lm = .prescribed then .prescribed else .zero⟩
  | .acceleration =>
      ⟨.free, if lm = .zero then .discrete else .free, lm⟩
  | .noLevel => Methods.allFree

/-- per-mobilizer bookkeeping: its slice of the state (`q`, `u`) and of `SBInstanceVars`
(`mobilizerLockLevel[mbx]`, `lockedQs[qStart..]`, `lockedUs[uStart..]`; `lockedUs` doubles for locked udots) -/
structure Mob (K : Type) where
  q : List K
  u : List K
  lockLevel : Level
  lockedQ : List K
  lockedU : List K
deriving Repr

namespace Mob
variable [OfNat K 0]

/-- state after `realizeModel`: q = default q, u = 0; `lockedQs` = default q, `lockedUs` = default u = 0
(for a default Acceleration lock they are explicitly overwritten with 0); lock level = `lockByDefault` level -/
def init (defQ : List K) (nu : Nat) (lockByDefault : Level) : Mob K :=
  ⟨defQ, List.replicate nu 0, lockByDefault, defQ, List.replicate nu 0⟩

def zeros (xs : List K) : List K := xs.map (fun _ => (0 : K))

/-- `MobilizedBodyImpl::lock(state, level)` -/
def lock (m : Mob K) (level : Level) : Mob K :=
  match level with
  | .position     => { m with lockLevel := .position, u := zeros m.u, lockedQ := m.q }
  | .velocity     => { m with lockLevel := .velocity, lockedU := m.u }
  | .acceleration => { m with lockLevel := .acceleration, lockedU := zeros m.u }
  | .noLevel      => { m with lockLevel := .noLevel }

/-- `MobilizedBodyImpl::lockAt(state, n, value, level)` with `n` of the right length (`nq` resp. `nu`) -/
def lockAt (m : Mob K) (level : Level) (value : List K) : Mob K :=
  match level with
  | .position     => { m with lockLevel := .position, u := zeros m.u, q := value, lockedQ := value }
  | .velocity     => { m with lockLevel := .velocity, lockedU := value }
  | .acceleration => { m with lockLevel := .acceleration, lockedU := value }
  | .noLevel      => { m with lockLevel := .noLevel }

/-- `MobilizedBodyImpl::unlock` -/
def unlock (m : Mob K) : Mob K := { m with lockLevel := .noLevel }

/-- `MobilizedBody::isLocked` -/
def isLocked (m : Mob K) : Bool := m.lockLevel != .noLevel

/-- `MobilizedBodyImpl::getLockValueAsVector` -/
def lockValue (m : Mob K) : List K :=
  match m.lockLevel with
  | .position => m.lockedQ
  | .velocity => m.lockedU
  | .acceleration => m.lockedU
  | .noLevel => []

/-- user writes to the state (`setQ`, `setU`) do not touch the lock bookkeeping -/
def setQ (m : Mob K) (q : List K) : Mob K := { m with q := q }
def setU (m : Mob K) (u : List K) : Mob K := { m with u := u }
end Mob

/-- what `realizeSubsystemInstanceImpl` needs to know of a `Motion` on a mobilizer -/
structure MotionDesc where
  disabled : Bool
  level : Level
  method : Method
deriving Repr

/-- any entry differs from 0 (`iv.lockedUs[ux+i] != 0`; NaN counts as different, as in C++) -/
def anyNonzero [BEq K] [OfNat K 0] (xs : List K) : Bool := xs.any (fun x => !(x == 0))

/-- the per-mobilizer branch of `realizeSubsystemInstanceImpl`: Ground/Weld (`nq = 0`) is `Zero` everywhere;
a lock wins over a Motion; an enabled Motion decides via `calcAllMethods`; otherwise free. -/
def instanceMethods [BEq K] [OfNat K 0] (nq : Nat) (lockLevel : Level) (lockedU : List K)
    (motion : Option MotionDesc) : Methods :=
  if nq = 0 then ⟨.zero, .zero, .zero⟩ else
  match lockLevel with
  | .acceleration => ⟨.free, .free, if anyNonzero lockedU then .prescribed else .zero⟩
  | .velocity     => ⟨.free, if anyNonzero lockedU then .prescribed else .zero, .zero⟩
  | .position     => ⟨.prescribed, .zero, .zero⟩
  | .noLevel =>
    match motion with
    | some md => if md.disabled then Methods.allFree else calcAllMethods md.level md.method
    | none => Methods.allFree

/-! ## (d) forward dynamics with prescribed mobilities = block elimination on the dense mass matrix -/
section dense
variable [Add K] [Sub K] [Mul K] [Neg K] [Div K] [OfNat K 0]

def dot : List K → List K → K
  | a :: as, b :: bs => a * b + dot as bs
  | _, _ => 0

def matVec (A : List (List K)) (x : List K) : List K := A.map (fun row => dot row x)

/-- `xs[i]` for each `i` of `idx` (missing entries read as 0) -/
def pick (xs : List K) (idx : List Nat) : List K := idx.map (fun i => xs.getD i 0)

/-- rows `ri`, columns `ci` of `A` -/
def subMat (A : List (List K)) (ri ci : List Nat) : List (List K) := ri.map (fun i => pick (A.getD i []) ci)

def vsub (a b : List K) : List K := List.zipWith (fun x y => x - y) a b

/-- one elimination step: rows below the pivot row, with the first column eliminated, and the updated rhs -/
def elimStep (a11 : K) (row1 : List K) (b1 : K) (rows : List (List K)) (bs : List K) : List (List K × K) :=
  (rows.zip bs).map (fun (rb : List K × K) =>
    match rb.1 with
    | ai1 :: rt => let l := ai1 / a11; (List.zipWith (fun x y => x - l * y) rt row1, rb.2 - l * b1)
    | [] => ([], rb.2))

/-- Gaussian elimination without pivoting (enough for an SPD matrix), back substitution; `n` = size (fuel) -/
def gaussSolve : Nat → List (List K) → List K → List K
  | 0, _, _ => []
  | n + 1, A, b =>
    match A, b with
    | (a11 :: row1) :: rows, b1 :: bs =>
      let sub := elimStep a11 row1 b1 rows bs
      let xs := gaussSolve n (sub.map (fun p => p.1)) (sub.map (fun p => p.2))
      ((b1 - dot row1 xs) / a11) :: xs
    | _, _ => []

/-- reduced right-hand side `f_r − M_rp udot_p` -/
def reducedRhs (M : List (List K)) (f : List K) (r p : List Nat) (udp : List K) : List K :=
  vsub (pick f r) (matVec (subMat M r p) udp)

/-- the generalized forces of the prescribed mobilities as the code reports them (LHS convention):
`tau_p = f_p − M_pr udot_r − M_pp udot_p` -/
def tauOf (M : List (List K)) (f : List K) (r p : List Nat) (udr udp : List K) : List K :=
  vsub (vsub (pick f p) (matVec (subMat M p r) udr)) (matVec (subMat M p p) udp)

/-- free accelerations and prescribed-motion forces -/
def elim (M : List (List K)) (f : List K) (r p : List Nat) (udp : List K) : List K × List K :=
  let udr := gaussSolve r.length (subMat M r r) (reducedRhs M f r p udp)
  (udr, tauOf M f r p udr udp)

/-- full udot from its free and prescribed parts -/
def assemble (n : Nat) (r p : List Nat) (udr udp : List K) : List K :=
  scatter (scatter (List.replicate n 0) r udr) p udp

/-- `findMotionForces`: tau unpacked into u-space slots, zero at free mobilities -/
def unpackTau (n : Nat) (p : List Nat) (tau : List K) : List K := scatter (List.replicate n 0) p tau

/-- `calcMotionPower`: `power -= tau[i] * u[presForce[i]]` -/
def motionPower (tau : List K) (p : List Nat) (u : List K) : K :=
  (tau.zip (pick u p)).foldl (fun acc tu => acc - tu.1 * tu.2) 0

end dense

/-! ## (c') instance-stage partition, pools, `System::prescribe` -/
section partitionSec
variable [Add K] [Sub K] [Mul K] [Neg K] [Div K] [OfNat K 0] [BEq K]

/-- one mobilizer as seen by `realizeSubsystemInstanceImpl` and by the pool-filling
`MobilizedBodyImpl::realizeTime / realizePosition / realizeDynamics` -/
structure MobIn (K : Type) where
  qx : Nat
  ux : Nat
  nq : Nat
  nu : Nat
  lockLevel : Level
  lockedQ : List K
  lockedU : List K
  motion : Option MotionDesc
  /-- raw results of the Motion's callbacks at the current state: `calcPrescribedPosition / PositionDot /
  PositionDotDot` (nq each), `calcPrescribedVelocity / VelocityDot / Acceleration` (nu each); a callback that the
  Motion's level does not use may hold anything -/
  cbPos : List K
  cbPosDot : List K
  cbPosDotDot : List K
  cbVel : List K
  cbVelDot : List K
  cbAcc : List K
  /-- kinematic coupling of this mobilizer: its block of `N⁻¹` (nu rows of nq entries; `u = N⁻¹ q̇`) and `Ṅ u` (nq) -/
  nInv : List (List K)
  nDotU : List K

def MobIn.methods (m : MobIn K) : Methods :=
  instanceMethods m.nq m.lockLevel m.lockedU m.motion

def MobIn.locked (m : MobIn K) : Bool := m.lockLevel != .noLevel

/-- `realizeTime`: the q pool of a q-prescribed mobilizer: the lock value, else `calcPrescribedPosition` -/
def MobIn.qPoolVals (m : MobIn K) : List K := if m.locked then m.lockedQ else m.cbPos

/-- `realizePosition`: the u pool of a u-prescribed mobilizer: the lock value; for a holonomic (position-level) Motion
`u = N⁻¹ · calcPrescribedPositionDot` (the code skips the multiplication when q̇ ≡ u, where `N⁻¹ = 1`); else
`calcPrescribedVelocity` -/
def MobIn.uPoolVals (m : MobIn K) : List K :=
  if m.locked then m.lockedU
  else if m.methods.q == .prescribed then matVec m.nInv m.cbPosDot
  else m.cbVel

/-- `realizeDynamics`: the udot pool: the lock value; holonomic: `u̇ = N⁻¹ (calcPrescribedPositionDotDot − Ṅ u)`;
nonholonomic: `calcPrescribedVelocityDot`; acceleration-only: `calcPrescribedAcceleration` -/
def MobIn.udotPoolVals (m : MobIn K) : List K :=
  if m.locked then m.lockedU
  else if m.methods.q == .prescribed then matVec m.nInv (vsub m.cbPosDotDot m.nDotU)
  else if m.methods.u == .prescribed then m.cbVelDot
  else m.cbAcc

/-- `range' start n` if selected -/
def slotsIf (sel : Bool) (start n : Nat) : List Nat := if sel then List.range' start n else []

/-- index lists: walk the mobilizers in order, push `start+i` for those whose method satisfies `sel`
(`ic.presQ.push_back(QIndex(qx+i))` etc.).  Each entry is (first slot `qx`/`ux` from the model cache, slot count
in use, method).  Slots are allocated per mobilizer for the *maximum* nq, so the starts are given, not summed. -/
def collect (sel : Method → Bool) : List (Nat × Nat × Method) → List Nat
  | [] => []
  | (start, n, m) :: rest => slotsIf (sel m) start n ++ collect sel rest

/-- pool values in the same walk -/
def collectVals (sel : Method → Bool) : List (Method × List K) → List K
  | [] => []
  | (m, vs) :: rest => (if sel m then vs else []) ++ collectVals sel rest

def isPres (m : Method) : Bool := m == .prescribed
def isZero (m : Method) : Bool := m == .zero
def isFree (m : Method) : Bool := m == .free
def notFree (m : Method) : Bool := m != .free

/-- `SBInstanceCache` index arrays and the three pools -/
structure Partition (K : Type) where
  presQ : List Nat
  zeroQ : List Nat
  freeQ : List Nat
  presU : List Nat
  zeroU : List Nat
  freeU : List Nat
  presUDot : List Nat
  zeroUDot : List Nat
  freeUDot : List Nat
  presForce : List Nat
  qPool : List K
  uPool : List K
  udotPool : List K
  methods : List Methods

/-- the mobilizers that own slots: Ground / Weld (`nq = 0`) are skipped by the `continue` of the C++ loop -/
def liveMobs (mobs : List (MobIn K)) : List (MobIn K) := mobs.filter (fun m => m.nq != 0)

def qEntries (mobs : List (MobIn K)) : List (Nat × Nat × Method) := (liveMobs mobs).map (fun m => (m.qx, m.nq, m.methods.q))
def uEntries (mobs : List (MobIn K)) : List (Nat × Nat × Method) := (liveMobs mobs).map (fun m => (m.ux, m.nu, m.methods.u))
def udotEntries (mobs : List (MobIn K)) : List (Nat × Nat × Method) := (liveMobs mobs).map (fun m => (m.ux, m.nu, m.methods.udot))

/-- `realizeSubsystemInstanceImpl` (index arrays) + `MobilizedBodyImpl::realizeTime/Position/Dynamics` (pools) -/
def partition (mobs : List (MobIn K)) : Partition K :=
  let live := liveMobs mobs
  { presQ := collect isPres (qEntries mobs), zeroQ := collect isZero (qEntries mobs), freeQ := collect isFree (qEntries mobs),
    presU := collect isPres (uEntries mobs), zeroU := collect isZero (uEntries mobs), freeU := collect isFree (uEntries mobs),
    presUDot := collect isPres (udotEntries mobs), zeroUDot := collect isZero (udotEntries mobs),
    freeUDot := collect isFree (udotEntries mobs), presForce := collect notFree (udotEntries mobs),
    qPool := collectVals isPres (live.map (fun m => (m.methods.q, m.qPoolVals))),
    uPool := collectVals isPres (live.map (fun m => (m.methods.u, m.uPoolVals))),
    udotPool := collectVals isPres (live.map (fun m => (m.methods.udot, m.udotPoolVals))),
    methods := mobs.map (fun m => m.methods) }

/-- `System::prescribe` on the matter subsystem's q and u -/
def prescribe (mobs : List (MobIn K)) (q u : List K) : List K × List K :=
  let P := partition mobs
  (prescribeQ q P.presQ P.qPool P.zeroQ, prescribeU u P.presU P.uPool P.zeroU)

/-- the known entries of udot after `calcTreeAccelerations`' scatter -/
def knownUDot (mobs : List (MobIn K)) (udot : List K) : List K :=
  let P := partition mobs
  scatterKnownUDot udot P.presUDot P.udotPool P.zeroUDot
end partitionSec

end scalar
end C10
