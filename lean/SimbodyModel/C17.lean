import SimbodyModel.C33
/-!
# C17 — force totals are independent of threading and scheduling: model (kind D, Mathlib-free)

Transcribed from `Simbody/src/GeneralForceSubsystem.cpp`: `CalcForcesParallelTask::{initialize, execute, finish}`
with its `thread_local` accumulators, the three modes chosen by `realizeSubsystemDynamicsImpl`
(`All` / `CachedAndNonCached` / `NonCached`), run by `ParallelExecutor::execute(task, 1 + #enabledParallelForces)`
(C33: worker `w` of `n` runs `initialize`, the task indices `stripe n T w` in order, then `finish` under the
executor's mutex).

The force arrays are values of an arbitrary commutative monoid `M` (vectors under componentwise addition).
Locations: the *shared* result/cache arrays living in the State (`shared`) and each worker's thread-local arrays.
Every `+=` on a shared array is two atomic steps (load into a register, store register + increment), so that a lost
update can be exhibited; accesses to thread-local arrays are single steps.

`Config.direct w` lists the contributions that worker `w` adds **directly into the shared arrays, outside the
mutex** — always empty for every worker in the current code; non-empty for worker 0 (task 0, the non-parallel forces) in modes
`CachedAndNonCached` / `NonCached` of the code before /repo commit 199e8a3a (finding F7, `configOld`).
-/
namespace C17

/-- one force element as the subsystem sees it -/
structure ForceElt (M : Type) where
  /-- `shouldBeParallelIfPossible()` -/
  parallel : Bool
  /-- `dependsOnlyOnPositions()` -/
  posOnly : Bool
  /-- what `calcForce` adds (into whatever arrays it is handed) -/
  value : M

inductive Mode | all | cachedAndNonCached | nonCached
deriving DecidableEq, Repr

/-- what the workers have to do for one `calcForcesExecutor->execute(task, T)` -/
structure Config (M : Type) where
  /-- number of worker threads that take part (`ParallelExecutor`: all `numMaxThreads`, or the caller alone) -/
  n : Nat
  /-- increments worker `w` applies directly to the shared arrays without the mutex -/
  direct : Nat → List M
  /-- increments worker `w` accumulates into its thread-local arrays, in order -/
  contribs : Nat → List M

variable {M : Type}

/-- is the force evaluated at all in this mode?  (`NonCached` skips the position-only ones: their sum is in the cache) -/
def evaluated (mode : Mode) (f : ForceElt M) : Bool :=
  match mode with
  | .nonCached => !f.posOnly
  | _ => true

/-- the increments task `k` produces for the thread-local arrays (`execute(k)`).
`old = false`: the code as it is now (after /repo commit 199e8a3a, the fix of finding F7): task 0 hands its
thread-local arrays to every non-parallel force in every mode.
`old = true`: the code before that commit: in modes `CachedAndNonCached` / `NonCached` task 0 handed the SHARED
arrays to the non-parallel forces, so nothing of task 0 went through the thread-local arrays. -/
def taskLocalV (old : Bool) (mode : Mode) (forces : List (ForceElt M)) (k : Nat) : List M :=
  let nonPar := forces.filter (fun f => !f.parallel)
  let par := forces.filter (fun f => f.parallel)
  if k = 0 then
    if old then
      match mode with
      | .all => nonPar.map (·.value)
      | _ => []
    else (nonPar.filter (evaluated mode)).map (·.value)
  else
    match par[k - 1]? with
    | some f => if evaluated mode f then [f.value] else []
    | none => []

/-- the increments task 0 applies directly to the shared arrays, outside the mutex: none in the current code -/
def taskDirectV (old : Bool) (mode : Mode) (forces : List (ForceElt M)) : List M :=
  if old then
    match mode with
    | .all => []
    | _ => ((forces.filter (fun f => !f.parallel)).filter (evaluated mode)).map (·.value)
  else []

/-- `ParallelExecutor(numThreads).execute(task, T)`: worker count -/
def workers (numThreads : Nat) : Nat := C33.peWorkers numThreads

/-- task indices run by worker `w` -/
def tasksOf (numThreads T w : Nat) : List Nat :=
  if numThreads < 2 then (if w = 0 then List.range T else []) else C33.stripe numThreads T w

/-- `realizeSubsystemTopologyImpl`: without any parallel force in the subsystem the non-parallel task is used and
the executor is replaced by `ParallelExecutor(1)` -/
def effectiveThreads (numThreads : Nat) (hasParallel : Bool) : Nat := if hasParallel then numThreads else 1

/-- transcription of `calcForcesExecutor->execute(calcForcesTask, 1 + #enabledParallelForces)` (`forces` = the
enabled force elements in index order; `numThreads` already passed through `effectiveThreads`) -/
def configV (old : Bool) (numThreads : Nat) (mode : Mode) (forces : List (ForceElt M)) : Config M :=
  let T := 1 + (forces.filter (fun f => f.parallel)).length
  { n := workers numThreads,
    direct := fun w => if w = 0 then taskDirectV old mode forces else [],
    contribs := fun w => (tasksOf numThreads T w).flatMap (taskLocalV old mode forces) }

/-- the CURRENT code -/
abbrev configCurrent (numThreads : Nat) (mode : Mode) (forces : List (ForceElt M)) : Config M :=
  configV false numThreads mode forces

/-- the code before the fix of finding F7 (kept for the historical witness theorems) -/
abbrev configOld (numThreads : Nat) (mode : Mode) (forces : List (ForceElt M)) : Config M :=
  configV true numThreads mode forces

/-! ## the subsystem level: which forces exist, which are enabled, which task class is used -/

/-- a force element of the subsystem together with its current enabled flag in the State
(`forceEnabled[i]`; initially `!isDisabledByDefault()`, changed by `setForceIsDisabled`) -/
structure MForce (M : Type) where
  enabled : Bool
  elt : ForceElt M

/-- `realizeSubsystemTopologyImpl`: `hasParallelForces` looks at EVERY force of the subsystem, enabled or not
("they could be enabled in the future"); it selects `CalcForcesParallelTask` vs `CalcForcesNonParallelTask` (+ a
one-thread executor) -/
def subsystemHasParallel (all : List (MForce M)) : Bool := all.any (fun f => f.elt.parallel)

/-- `realizeSubsystemInstanceImpl`: the enabled forces in index order (split into parallel / non-parallel by `configV`) -/
def enabledElts (all : List (MForce M)) : List (ForceElt M) := (all.filter (·.enabled)).map (·.elt)

/-- `execute(k)` of the task class in use: `CalcForcesNonParallelTask::execute` does nothing for `k ≠ 0` -/
def taskLocalC (parallelTask : Bool) (mode : Mode) (forces : List (ForceElt M)) (k : Nat) : List M :=
  if k = 0 then taskLocalV false mode forces 0
  else if parallelTask then taskLocalV false mode forces k else []

/-- one `realizeSubsystemDynamicsImpl` of a subsystem with the given forces and enabled mask.
(For the non-parallel task the code accumulates straight into the State arrays in the caching modes; with its
one-thread executor that is sequential, and it is modelled as thread-local accumulation — same total.) -/
def configSubsystem (numThreads : Nat) (mode : Mode) (all : List (MForce M)) : Config M :=
  let hp := subsystemHasParallel all
  let forces := enabledElts all
  let nt := effectiveThreads numThreads hp
  let T := 1 + (forces.filter (fun f => f.parallel)).length
  { n := workers nt, direct := fun _ => [],
    contribs := fun w => (tasksOf nt T w).flatMap (taskLocalC hp mode forces) }

/-! ## the executor and the task class as subsystem state (order of `setNumberOfThreads` and `realizeTopology`) -/

/-- what `GeneralForceSubsystemRep` holds: the executor's thread count and the class of `calcForcesTask` -/
structure SubState where
  /-- `calcForcesExecutor->getMaxThreads()` -/
  execThreads : Nat
  /-- `calcForcesTask`: `none` before the first `realizeTopology`; `some true` = `CalcForcesParallelTask`
  (thread-local accumulators); `some false` = `CalcForcesNonParallelTask` (accumulators are MEMBERS of the one task
  object: "not thread-safe") -/
  task : Option Bool
deriving DecidableEq, Repr

inductive SubOp
  /-- `setNumberOfThreads(n)` -/
  | setNumberOfThreads (n : Nat)
  /-- `realizeSubsystemTopologyImpl` for a subsystem that has / has no parallel force: chooses the task class and,
  for the non-parallel task, replaces the executor by `ParallelExecutor(1)` -/
  | realizeTopology (hasParallel : Bool)
deriving DecidableEq, Repr

/-- the CURRENT code (after /repo commit e709610d): `setNumberOfThreads` keeps one thread once the non-parallel
task has been chosen (`dynamic_cast<const CalcForcesNonParallelTask*>(calcForcesTask.get())`); it does not invalidate
the topology cache -/
def SubState.apply (s : SubState) : SubOp → SubState
  | .setNumberOfThreads n => { s with execThreads := if s.task = some false then 1 else n }
  | .realizeTopology hp => { execThreads := if hp then s.execThreads else 1, task := some hp }

/-- HISTORICAL: the transition before e709610d — `setNumberOfThreads` replaced the executor unconditionally -/
def SubState.applyOld (s : SubState) : SubOp → SubState
  | .setNumberOfThreads n => { s with execThreads := n }
  | .realizeTopology hp => { execThreads := if hp then s.execThreads else 1, task := some hp }

/-- constructor: `new ParallelExecutor()` (processor count), no task yet -/
def SubState.init (ncpu : Nat) : SubState := ⟨ncpu, none⟩

/-- the combination the code relies on: the non-parallel task is only ever run by a single thread.  This is the
validity condition of the transition-system model below (thread-local accumulators). -/
def ThreadSafe (s : SubState) : Bool := !(s.task == some false) || decide (s.execThreads < 2)

/-- the task in use is the parallel one -/
def SubState.taskParallel (s : SubState) : Bool := s.task == some true

/-- one `realizeSubsystemDynamicsImpl` in subsystem state `st` -/
def configOfState (st : SubState) (mode : Mode) (all : List (MForce M)) : Config M :=
  let forces := enabledElts all
  let T := 1 + (forces.filter (fun f => f.parallel)).length
  { n := workers st.execThreads, direct := fun _ => [],
    contribs := fun w => (tasksOf st.execThreads T w).flatMap (taskLocalC st.taskParallel mode forces) }

/-- content of the position-only cache that `realizeSubsystemDynamicsImpl` adds after a `NonCached` run: the sum
left there by the preceding `CachedAndNonCached` run at the same positions -/
def cacheSum [Add M] [OfNat M 0] (forces : List (ForceElt M)) : M :=
  (forces.filter (·.posOnly)).foldr (fun f acc => f.value + acc) 0

/-! ## transition system -/

inductive Pc
  | init                 -- `initialize()`: zero the thread-local arrays
  | direct (k : Nat)     -- load the shared array for the worker's k-th direct increment          (no mutex)
  | directSt (k : Nat)   -- store register + increment into the shared array                       (no mutex)
  | exec (k : Nat)       -- k-th increment of the thread-local arrays
  | finLock              -- `incrementWaitingThreads`: lock the executor's mutex
  | finLoad              -- `finish()`: load the shared array                                    (mutex held)
  | finStore             -- `finish()`: store register + thread-local array                       (mutex held)
  | finUnlock
  | done
deriving DecidableEq, Repr

structure Worker (M : Type) where
  pc : Pc
  reg : M
  loc : M

structure State (M : Type) where
  shared : M
  mutex : Option Nat
  wk : Nat → Worker M

def upd {α : Type} (f : Nat → α) (i : Nat) (v : α) : Nat → α := fun j => if j = i then v else f j

variable [Add M] [OfNat M 0]

def init (shared0 : M) : State M := { shared := shared0, mutex := none, wk := fun _ => ⟨.init, 0, 0⟩ }

/-- program counter of worker `w` after its `k`-th direct increment -/
def afterDirect (c : Config M) (w k : Nat) : Pc := if k < (c.direct w).length then .direct k else .exec 0

/-- one atomic step of worker `w` (`none` = not enabled / finished) -/
def step (c : Config M) (s : State M) (w : Nat) : Option (State M) :=
  if w < c.n then
    let x := s.wk w
    match x.pc with
    | .init => some { s with wk := upd s.wk w { x with loc := 0, pc := afterDirect c w 0 } }
    | .direct k => some { s with wk := upd s.wk w { x with reg := s.shared, pc := .directSt k } }
    | .directSt k =>
      match (c.direct w)[k]? with
      | some d => some { s with shared := x.reg + d, wk := upd s.wk w { x with pc := afterDirect c w (k + 1) } }
      | none => some { s with wk := upd s.wk w { x with pc := .exec 0 } }
    | .exec k =>
      match (c.contribs w)[k]? with
      | some v => some { s with wk := upd s.wk w { x with loc := x.loc + v, pc := .exec (k + 1) } }
      | none => some { s with wk := upd s.wk w { x with pc := .finLock } }
    | .finLock =>
      if s.mutex = none then some { s with mutex := some w, wk := upd s.wk w { x with pc := .finLoad } } else none
    | .finLoad => some { s with wk := upd s.wk w { x with reg := s.shared, pc := .finStore } }
    | .finStore => some { s with shared := x.reg + x.loc, wk := upd s.wk w { x with pc := .finUnlock } }
    | .finUnlock => some { s with mutex := none, wk := upd s.wk w { x with pc := .done } }
    | .done => none
  else none

/-- run a schedule (a list of worker ids); steps that are not enabled are skipped -/
def run (c : Config M) (s : State M) : List Nat → State M
  | [] => s
  | w :: ws => run c ((step c s w).getD s) ws

/-- the access to the shared arrays a worker is about to make: `some true` = write, `some false` = read -/
def pendingShared : Pc → Option Bool
  | .direct _ => some false
  | .directSt _ => some true
  | .finLoad => some false
  | .finStore => some true
  | _ => none

/-- a data race on the shared force arrays: two different workers are both about to access them and at least
one of the accesses is a write -/
def Race (c : Config M) (s : State M) : Prop :=
  ∃ a b, a < c.n ∧ b < c.n ∧ a ≠ b ∧
    ∃ ra rb, pendingShared (s.wk a).pc = some ra ∧ pendingShared (s.wk b).pc = some rb ∧ (ra = true ∨ rb = true)

/-- a schedule is race free if no state it passes through exhibits a race -/
def RaceFree (c : Config M) (shared0 : M) (sched : List Nat) : Prop :=
  ∀ k, ¬ Race c (run c (init shared0) (sched.take k))

/-- all workers have finished -/
def Complete (c : Config M) (s : State M) : Prop := ∀ w, w < c.n → (s.wk w).pc = .done

def sumList : List M → M
  | [] => 0
  | a :: l => a + sumList l

/-- sum of everything the workers are asked to add -/
def totalOf (c : Config M) : M :=
  sumList ((List.range c.n).map (fun w => sumList (c.direct w) + sumList (c.contribs w)))

/-- serial sum of the forces evaluated in this mode, in index order (what the property demands of the total) -/
def serialSumD (mode : Mode) (forces : List (ForceElt M)) : M :=
  sumList ((forces.filter (evaluated mode)).map (·.value))

/-- a schedule under which every worker runs to completion one after the other (trivially race free): used by
the driver -/
def sequentialSchedule (c : Config M) : List Nat :=
  (List.range c.n).flatMap fun w => List.replicate (2 * (c.direct w).length + (c.contribs w).length + 8) w

/-! ## the non-parallel task run by several workers (what `setNumberOfThreads` AFTER `realizeTopology` produces) -/
namespace NPT

/-- `CalcForcesNonParallelTask` on `n ≥ 2` workers: `initialize()` zeroes, `execute(0)` (worker 0 only) fills and
`finish()` (under the executor's mutex) adds the SAME member array `mem` of the one task object. -/
structure St where
  shared : Nat
  mem : Nat
  pc : Nat → Nat      -- 0 initialize, 1 execute, 2 finish, 3 done

def init : St := ⟨0, 0, fun _ => 0⟩

def step (f : Nat) (s : St) (w : Nat) : St :=
  match s.pc w with
  | 0 => { s with mem := 0, pc := upd s.pc w 1 }
  | 1 => { s with mem := if w = 0 then s.mem + f else s.mem, pc := upd s.pc w 2 }
  | 2 => { s with shared := s.shared + s.mem, pc := upd s.pc w 3 }
  | _ => s

def run (f : Nat) (s : St) : List Nat → St
  | [] => s
  | w :: ws => run f (step f s w) ws

end NPT

end C17
