import SimbodyModel.Gen.ForceParams
/-!
# C16 — executable model of the force-realization caches (kind D, exact)

Transcription of the cache protocol of
  Simbody/src/GeneralForceSubsystem.cpp   (realizeSubsystemPositionImpl / DynamicsImpl, setForceIsDisabled,
                                           cachedForcesAreValid, rigidBody/mobility/particle force caches)
  Simbody/src/Force_Gravity.cpp           (lazy force cache, explicit invalidation in the setters, g = 0 shortcut)
on top of the State stage model of C18 (`C18.upd_lowers_stage`: a variable change leaves every stage at
min(old, invalidated-1); `C18.cache_valid_iff` + `C18.restore_clears_fresh`: a lazy entry with depends-on stage
Position reads valid iff stage ≥ Position and it was marked since Position was last invalidated / since the last
explicit invalidation).  `System::realize` keeps system and subsystem stages equal, so one stage number suffices.

Values are opaque tokens (`Nat`).  What a force element computes is represented by the *snapshot* of the
variable values it reads (`Snap`), so "the result is stale" is "the snapshot differs from the current values".
Mathlib-free.
-/
namespace C16
open Gen

/-- a force element of the modelled system -/
structure Force where
  posOnly : Bool            -- ForceImpl::dependsOnlyOnPositions()
  gravity : Bool := false   -- Force::Gravity: not position-only for the subsystem, keeps its own lazy cache
  paramStages : List Nat    -- stage invalidated by each of its discrete state variables
  setterInval : List Bool := []   -- Force::Gravity: per State-level setter (order of `Gen.gravitySetters`), whether it
                                  -- invalidates the lazy force cache before writing the parameter variable (or does not write)
deriving Repr, DecidableEq, Inhabited

/-- the row of the generated table read as a force element (`Force::Custom`: the user's choice `custom`) -/
def Force.ofClass (c : FClass) (custom : Bool := false) : Force :=
  { posOnly := c.posOnly.getD custom, gravity := c.name == "Force::GravityImpl", paramStages := c.paramStages,
    setterInval := if c.name == "Force::GravityImpl" then Gen.gravitySetters.map (fun s => !s.2.1 || s.2.2) else [] }

abbrev Snap := List Nat

structure Vars where
  opt : Nat := 0     -- Model-stage modelling options (SimbodyMatterSubsystem::setUseEulerAngles)
  inst : Nat := 0    -- every other Instance-stage variable: mobilizer locks, constraint enable flags
  t : Nat := 0
  q : Nat := 0
  u : Nat := 0
  z : Nat := 0
  params : List (List Nat) := []    -- per force, per parameter
  enabled : List Bool := []
  zeroMag : List Bool := []         -- per force: Force::Gravity with magnitude 0 (result independent of q)
deriving Repr, DecidableEq, Inhabited

/-- the variable values force `i` reads -/
def inputs (fs : List Force) (v : Vars) (i : Nat) : Snap :=
  let f := fs.getD i default
  let p := v.params.getD i []
  if f.gravity then (if v.zeroMag.getD i false then 0 :: p else 1 :: v.opt :: v.inst :: v.t :: v.q :: p)
  else if f.posOnly then v.opt :: v.inst :: v.t :: v.q :: p
  else v.opt :: v.inst :: v.t :: v.q :: v.u :: v.z :: p

/-! ### the matter subsystem's lazy cache entries

`SimbodyMatterSubsystemRep::realizeSubsystemTopologyImpl` allocates five entries with
`allocateCacheEntryWithPrerequisites` (table `Gen.matterEntries`, regenerated from the source on every run and pinned
to `ME.expected` by `matter_table_ok` in the proof file): position kinematics (depends on Instance and on q,
guaranteed by Position), composite-body inertias (prerequisite: position kinematics; never computed unless asked
for), articulated-body inertias (prerequisite: position kinematics; guaranteed by Acceleration), velocity kinematics
(u and position kinematics; Velocity), articulated-body velocity (velocity kinematics and articulated-body inertias;
Acceleration).  Their validity rule is C18's (`CacheEntryInfo::isUpToDate`): valid iff stage ≥ computed-by, or
stage ≥ depends-on and marked valid since the depends-on stage version, q/u or a prerequisite entry last changed. -/
inductive ME where
  | pk | cbi | abi | vk | abv
deriving Repr, DecidableEq, Inhabited

def ME.all : List ME := [.pk, .cbi, .abi, .vk, .abv]
def ME.name : ME → String
  | .pk => "treePositionCacheIndex" | .cbi => "compositeBodyInertiaCacheIndex"
  | .abi => "articulatedBodyInertiaCacheIndex" | .vk => "treeVelocityCacheIndex"
  | .abv => "articulatedBodyVelocityCacheIndex"
def ME.comp : ME → Nat
  | .pk => 5 | .cbi => 10 | .abi => 8 | .vk => 6 | .abv => 8
def ME.q : ME → Bool
  | .pk => true | _ => false
def ME.u : ME → Bool
  | .vk => true | _ => false
def ME.pre : ME → List ME
  | .pk => [] | .cbi => [.pk] | .abi => [.pk] | .vk => [.pk] | .abv => [.vk, .abi]
/-- the row of `Gen.matterEntries` that the model transcribes -/
def ME.expected (e : ME) : Gen.MEntry :=
  { name := e.name, dep := 3, comp := e.comp, q := e.q, u := e.u, z := false, pre := e.pre.map ME.name }

/-- the entries invalidated together with `e` (`ListOfDependents::notePrerequisiteChange`, transitively; the proof
file shows this is the closure of `ME.pre`) -/
def ME.dependents : ME → List ME
  | .pk => [.pk, .cbi, .abi, .vk, .abv] | .cbi => [.cbi] | .abi => [.abi, .abv] | .vk => [.vk, .abv] | .abv => [.abv]
/-- the entries invalidated by a change of q, of u (dependents of the entries that list q, u as prerequisite) -/
def ME.qDependents : List ME := [.pk, .cbi, .abi, .vk, .abv]
def ME.uDependents : List ME := [.vk, .abv]
/-- reads u, directly or through a prerequisite entry -/
def ME.readsU : ME → Bool
  | .vk | .abv => true | _ => false
/-- the variable values entry `e` is computed from -/
def minputs (v : Vars) (e : ME) : Snap :=
  if e.readsU then [v.opt, v.inst, v.q, v.u] else [v.opt, v.inst, v.q]

/-- marked-valid flags (version stamp current and "up to date with prerequisites") and contents of the five entries -/
structure MC where
  fPk : Bool := false
  fCbi : Bool := false
  fAbi : Bool := false
  fVk : Bool := false
  fAbv : Bool := false
  sPk : Snap := []
  sCbi : Snap := []
  sAbi : Snap := []
  sVk : Snap := []
  sAbv : Snap := []
deriving Repr, DecidableEq, Inhabited

def MC.flag (m : MC) : ME → Bool
  | .pk => m.fPk | .cbi => m.fCbi | .abi => m.fAbi | .vk => m.fVk | .abv => m.fAbv
def MC.snap (m : MC) : ME → Snap
  | .pk => m.sPk | .cbi => m.sCbi | .abi => m.sAbi | .vk => m.sVk | .abv => m.sAbv
def MC.setFlag (m : MC) (e : ME) (b : Bool) : MC :=
  match e with
  | .pk => { m with fPk := b } | .cbi => { m with fCbi := b } | .abi => { m with fAbi := b }
  | .vk => { m with fVk := b } | .abv => { m with fAbv := b }
def MC.setSnap (m : MC) (e : ME) (s : Snap) : MC :=
  match e with
  | .pk => { m with sPk := s } | .cbi => { m with sCbi := s } | .abi => { m with sAbi := s }
  | .vk => { m with sVk := s } | .abv => { m with sAbv := s }
/-- `CacheEntryInfo::invalidate` for the listed entries -/
def MC.clear (m : MC) (es : List ME) : MC := es.foldl (fun m e => m.setFlag e false) m
/-- compute entry `e` from the values `s` and `markCacheValueRealized` -/
def MC.mark (m : MC) (e : ME) (s : Snap) : MC := (m.setFlag e true).setSnap e s
/-- `realizeXxx` below the computed-by stage: nothing to do if marked valid -/
def MC.ensure (m : MC) (e : ME) (s : Snap) : MC := if m.flag e then m else m.mark e s
/-- what `System::realize` from stage `a` to stage `b` does to the entries: realizeSubsystemPositionImpl calls
realizePositionKinematics, …VelocityImpl realizeVelocityKinematics, …AccelerationImpl realizeArticulatedBodyInertias
and realizeArticulatedBodyVelocity — every entry whose computed-by stage is passed, in that order (composite-body
inertias have none) -/
def MC.toEnsure (a b : Nat) : List ME := [ME.pk, .vk, .abi, .abv].filter (fun e => a < e.comp && e.comp ≤ b)
def MC.advance (m : MC) (a b : Nat) (v : Vars) : MC :=
  (MC.toEnsure a b).foldl (fun m e => m.ensure e (minputs v e)) m

structure St where
  stage : Nat := 2
  vars : Vars := {}
  cachedValid : Bool := false              -- contents of the cache entry cachedForcesAreValid
  cacheTotal : List (Nat × Snap) := []     -- rigidBody / mobility / particle force caches
  total : List (Nat × Snap) := []          -- the System's force arrays as left by the last realizeDynamics
  lazyFresh : List Bool := []              -- per force: Force::Gravity's force cache is marked valid
  lazySnap : List Snap := []               -- per force: what that cache was computed from
  calls : List Nat := []                   -- per force: number of calcForce calls (observable for Custom forces)
  evals : List Nat := []                   -- per force: Force::Gravity::getNumEvaluations
  m : MC := {}                             -- the matter subsystem's lazy cache entries
deriving Repr, DecidableEq, Inhabited

def setAt {α : Type} (l : List α) (i : Nat) (x : α) : List α :=
  match l, i with
  | [], _ => []
  | _ :: as, 0 => x :: as
  | a :: as, i + 1 => a :: setAt as i x

def bumpAt (l : List Nat) (i : Nat) : List Nat := setAt l i (l.getD i 0 + 1)

def anyPosOnly (fs : List Force) : Bool := fs.any (·.posOnly)     -- someForceElementNeedsCaching

/-- `isCacheValueRealized` of a matter-subsystem entry -/
def St.mvalid (st : St) (e : ME) : Bool := decide (e.comp ≤ st.stage) || (decide (3 ≤ st.stage) && st.m.flag e)

/-- `StateImpl::invalidateAll(g)` seen from here: stage, the lazy (depends-on Position) force caches and the
(depends-on Instance) matter entries, whose stage version stamps no longer match -/
def St.inval (st : St) (g : Nat) : St :=
  { st with stage := min st.stage (g - 1),
            lazyFresh := if g ≤ 5 ∧ 5 ≤ st.stage then st.lazyFresh.map (fun _ => false) else st.lazyFresh,
            m := if g ≤ 3 ∧ 3 ≤ st.stage then st.m.clear ME.all else st.m }

/-- `GravityImpl::ensureForceCacheValid` for force `i` -/
def St.ensure (fs : List Force) (st : St) (i : Nat) : St :=
  if st.stage ≥ 5 ∧ st.lazyFresh.getD i false then st
  else if st.vars.zeroMag.getD i false then { st with lazyFresh := setAt st.lazyFresh i true }
  else { st with lazyFresh := setAt st.lazyFresh i true,
                 lazySnap := setAt st.lazySnap i (inputs fs st.vars i),
                 evals := bumpAt st.evals i }

/-- `calcForce` of force `i`: returns its contribution -/
def St.calc (fs : List Force) (st : St) (i : Nat) : St × (Nat × Snap) :=
  let st := { st with calls := bumpAt st.calls i }
  if (fs.getD i default).gravity then
    let st := st.ensure fs i
    (st, (i, st.lazySnap.getD i []))
  else (st, (i, inputs fs st.vars i))

/-- call `calcForce` for the forces `is` in order -/
def St.calcAll (fs : List Force) (st : St) : List Nat → St × List (Nat × Snap)
  | [] => (st, [])
  | i :: is =>
    let (st1, c) := st.calc fs i
    let (st2, cs) := St.calcAll fs st1 is
    (st2, c :: cs)

def enabledIdx (fs : List Force) (v : Vars) (p : Force → Bool) : List Nat :=
  (List.range fs.length).filter (fun i => v.enabled.getD i false && p (fs.getD i default))

/-- `realizeSubsystemDynamicsImpl` -/
def St.dynamics (fs : List Force) (st : St) : St :=
  if !anyPosOnly fs then
    let (st1, cs) := st.calcAll fs (enabledIdx fs st.vars (fun _ => true))
    { st1 with total := cs }
  else if !st.cachedValid then
    -- CachedAndNonCached: one pass over all enabled forces, position-only ones go into the cache
    let (st1, cs) := st.calcAll fs (enabledIdx fs st.vars (fun _ => true))
    let cache := cs.filter (fun c => (fs.getD c.1 default).posOnly)
    let direct := cs.filter (fun c => !(fs.getD c.1 default).posOnly)
    { st1 with cacheTotal := cache, cachedValid := true, total := direct ++ cache }
  else
    let (st1, cs) := st.calcAll fs (enabledIdx fs st.vars (fun f => !f.posOnly))
    { st1 with total := cs ++ st1.cacheTotal }

/-- `System::realize(state, g)`: only the Position and Dynamics stages act on the modelled caches -/
def St.realize (fs : List Force) (st : St) (g : Nat) : St :=
  let st1 := if st.stage < 5 ∧ 5 ≤ g ∧ anyPosOnly fs then { st with cachedValid := false } else st
  let st2 := if st.stage < 7 ∧ 7 ≤ g then St.dynamics fs { st1 with stage := 6 } else st1
  { st2 with stage := max st.stage g, m := st2.m.advance st.stage g st.vars }

inductive Op where
  | setT (v : Nat) | setQ (v : Nat) | setU (v : Nat) | setZ (v : Nat)
  | setParam (i j v : Nat)            -- parameter j of (non-gravity) force i
  | setEnabled (i : Nat) (b : Bool)   -- GeneralForceSubsystem::setForceIsDisabled(state, i, !b)
  | gravSet (i j v : Nat) (zero : Bool) (k : Nat)  -- Force::Gravity setter number k (order of `Gen.gravitySetters`)
                                                   -- changes parameter j (new value v)
  | realize (g : Nat)
  | gravQuery (i : Nat)               -- Force::Gravity::getBodyForces / getPotentialEnergy (stage ≥ Position)
  | peQuery                           -- System::calcPotentialEnergy (stage ≥ Position)
  | setInst (v : Nat)                 -- lock / lockAt / unlock of a mobilizer, Constraint::enable / disable (Instance)
  | setOpt (v : Nat)                  -- SimbodyMatterSubsystem::setUseEulerAngles (Model)
  | mRealize (e : ME)                 -- realizePositionKinematics / …CompositeBodyInertias / … (explicit requests)
  | mInvalidate (e : ME)              -- invalidatePositionKinematics / … (explicit invalidations; const State)
  | invalAll (g : Nat)                -- State::invalidateAll(stage g) without any variable change
deriving Repr, DecidableEq, Inhabited

def setParamVal (ps : List (List Nat)) (i j v : Nat) : List (List Nat) := setAt ps i (setAt (ps.getD i []) j v)

def legal (fs : List Force) (st : St) : Op → Bool
  | .setParam i j _ => match fs[i]? with
      | some f => !f.gravity && j < f.paramStages.length
      | none => false
  | .setEnabled i _ => i < fs.length
  | .gravSet i j _ _ k => match fs[i]? with
      | some f => f.gravity && j < (st.vars.params.getD i []).length && k < f.setterInval.length
      | none => false
  | .mRealize e => st.stage ≥ 3 && e.pre.all st.mvalid
  | .mInvalidate _ => st.stage ≥ 3
  | .invalAll g => 3 ≤ g && g ≤ 9
  | .realize g => g ≤ 9
  | .gravQuery i => st.stage ≥ 5 && (match fs[i]? with | some f => f.gravity | none => false)
  | .peQuery => st.stage ≥ 5
  | _ => true

def step (fs : List Force) (st : St) : Op → St
  | .setT v => { (st.inval 4) with vars := { st.vars with t := v } }
  | .setQ v => { (st.inval 5) with vars := { st.vars with q := v }, m := (st.inval 5).m.clear ME.qDependents }
  | .setU v => { (st.inval 6) with vars := { st.vars with u := v }, m := (st.inval 6).m.clear ME.uDependents }
  | .setZ v => { (st.inval 7) with vars := { st.vars with z := v } }
  | .setParam i j v =>
    -- only through the element's own setter: exists for non-gravity elements and allocated parameters
    match ((fs.getD i default).paramStages)[j]? with
    | some g =>
      if (fs.getD i default).gravity then st
      else { (st.inval g) with vars := { st.vars with params := setParamVal st.vars.params i j v } }
    | none => st
  | .setEnabled i b =>
    -- updDiscreteVariable(forceEnabledIndex) (Instance) is taken before the comparison
    let st1 := st.inval 3
    if st.vars.enabled.getD i false != b then
      { st1 with vars := { st1.vars with enabled := setAt st1.vars.enabled i b },
                 cachedValid := if anyPosOnly fs then false else st1.cachedValid }
    else st1
  | .gravSet i j v zero k =>
    -- invalidateForceCache(state) (if setter k does that: generated table); updParameters(state) (Dynamics); if
    -- the new magnitude is 0 the cache is filled with the (q-independent) zeros right away
    if (fs.getD i default).gravity then
      let st1 := if (fs.getD i default).setterInval.getD k true then { st with lazyFresh := setAt st.lazyFresh i false } else st
      let st2 := st1.inval 7
      let vars := { st2.vars with params := setParamVal st2.vars.params i j v, zeroMag := setAt st2.vars.zeroMag i zero }
      { st2 with vars := vars,
                 lazySnap := if zero then setAt st2.lazySnap i (inputs fs vars i) else st2.lazySnap }
    else st
  | .realize g => st.realize fs (min g 9)      -- Stage::Report is the last stage a System realizes
  | .gravQuery i => if st.stage ≥ 5 ∧ (fs.getD i default).gravity = true then st.ensure fs i else st   -- throws below Position
  | .peQuery =>
    -- calcPotentialEnergy of every enabled force; only Force::Gravity touches a cache
    if st.stage ≥ 5 then (enabledIdx fs st.vars (fun f => f.gravity)).foldl (fun acc i => acc.ensure fs i) st
    else st
  | .setInst v => { (st.inval 3) with vars := { st.vars with inst := v } }
  | .setOpt v => { (st.inval 2) with vars := { st.vars with opt := v } }
  | .mRealize e =>
    -- throws unless the prerequisites are realized; returns at once if the entry is
    if 3 ≤ st.stage ∧ e.pre.all st.mvalid = true then
      (if st.mvalid e then st else { st with m := st.m.mark e (minputs st.vars e) })
    else st
  | .mInvalidate e =>
    -- invalidateAllCacheAtOrAbove(computed-by stage) ("assumed calculated at that stage regardless of the flag"),
    -- then markCacheValueNotRealized, which also invalidates the dependents
    let st1 := if e.comp ≤ 9 then st.inval e.comp else st
    { st1 with m := st1.m.clear e.dependents }
  | .invalAll g => st.inval g

def run (fs : List Force) (st : St) (ops : List Op) : St := ops.foldl (step fs) st

/-- a freshly created State given the variable values `v` (a copy of the default State realized through Model,
then every value set through the same API) -/
def fresh (fs : List Force) (v : Vars) : St :=
  { stage := 2, vars := v,
    lazyFresh := fs.map (fun _ => false),
    lazySnap := (List.range fs.length).map (fun i => if v.zeroMag.getD i false then inputs fs v i else []),
    calls := fs.map (fun _ => 0), evals := fs.map (fun _ => 0) }

/-- the force totals a realization to Dynamics delivers -/
def result (fs : List Force) (st : St) : List (Nat × Snap) := (st.realize fs 7).total

/-- initial state of a system with forces `fs`, parameters `ps`, default enabled flags and gravity magnitudes -/
def init (fs : List Force) (ps : List (List Nat)) (en zero : List Bool) : St :=
  fresh fs { params := ps, enabled := en, zeroMag := zero }

end C16
