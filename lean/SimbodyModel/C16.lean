import SimbodyModel.Gen.ForceParams
/-!
# C16 — executable model of the force-realization caches (kind D, exact)

Transcription of the cache protocol of
  Simbody/src/GeneralForceSubsystem.cpp   (realizeSubsystemPositionImpl / DynamicsImpl, setForceIsDisabled,
                                           cachedForcesAreValid, rigidBody/mobility/particle force caches)
  Simbody/src/Force_Gravity.cpp           (lazy force cache, explicit invalidation in the setters, g = 0 shortcut)
on top of the State stage model of C18 (`C18.upd_lowers_stage`: a variable change leaves every stage at
min(old, invalidated-1); `C18.cache_valid_iff` + `C18.restore_clears_fresh`: a lazy entry with depends-on stage
Position reads valid iff stage ≥ Position and it was marked since Position was last invalidated / since the last
explicit invalidation).  `System::realize` keeps system and subsystem stages equal, so one stage number suffices.

Values are opaque tokens (`Nat`).  What a force element computes is represented by the *snapshot* of the
variable values it reads (`Snap`), so "the result is stale" is "the snapshot differs from the current values".
Mathlib-free.
-/
namespace C16
open Gen

/-- a force element of the modelled system -/
structure Force where
  posOnly : Bool            -- ForceImpl::dependsOnlyOnPositions()
  gravity : Bool := false   -- Force::Gravity: not position-only for the subsystem, keeps its own lazy cache
  paramStages : List Nat    -- stage invalidated by each of its discrete state variables
deriving Repr, DecidableEq, Inhabited

/-- the row of the generated table read as a force element (`Force::Custom`: the user's choice `custom`) -/
def Force.ofClass (c : FClass) (custom : Bool := false) : Force :=
  { posOnly := c.posOnly.getD custom, gravity := c.name == "Force::GravityImpl", paramStages := c.paramStages }

abbrev Snap := List Nat

structure Vars where
  t : Nat := 0
  q : Nat := 0
  u : Nat := 0
  z : Nat := 0
  params : List (List Nat) := []    -- per force, per parameter
  enabled : List Bool := []
  zeroMag : List Bool := []         -- per force: Force::Gravity with magnitude 0 (result independent of q)
deriving Repr, DecidableEq, Inhabited

/-- the variable values force `i` reads -/
def inputs (fs : List Force) (v : Vars) (i : Nat) : Snap :=
  let f := fs.getD i default
  let p := v.params.getD i []
  if f.gravity then (if v.zeroMag.getD i false then 0 :: p else 1 :: v.t :: v.q :: p)
  else if f.posOnly then v.t :: v.q :: p
  else v.t :: v.q :: v.u :: v.z :: p

structure St where
  stage : Nat := 2
  vars : Vars := {}
  cachedValid : Bool := false              -- contents of the cache entry cachedForcesAreValid
  cacheTotal : List (Nat × Snap) := []     -- rigidBody / mobility / particle force caches
  total : List (Nat × Snap) := []          -- the System's force arrays as left by the last realizeDynamics
  lazyFresh : List Bool := []              -- per force: Force::Gravity's force cache is marked valid
  lazySnap : List Snap := []               -- per force: what that cache was computed from
  calls : List Nat := []                   -- per force: number of calcForce calls (observable for Custom forces)
  evals : List Nat := []                   -- per force: Force::Gravity::getNumEvaluations
deriving Repr, DecidableEq, Inhabited

def setAt {α : Type} (l : List α) (i : Nat) (x : α) : List α :=
  match l, i with
  | [], _ => []
  | _ :: as, 0 => x :: as
  | a :: as, i + 1 => a :: setAt as i x

def bumpAt (l : List Nat) (i : Nat) : List Nat := setAt l i (l.getD i 0 + 1)

def anyPosOnly (fs : List Force) : Bool := fs.any (·.posOnly)     -- someForceElementNeedsCaching

/-- `StateImpl::invalidateAll(g)` seen from here: stage, and the lazy (depends-on Position) caches -/
def St.inval (st : St) (g : Nat) : St :=
  { st with stage := min st.stage (g - 1),
            lazyFresh := if g ≤ 5 ∧ 5 ≤ st.stage then st.lazyFresh.map (fun _ => false) else st.lazyFresh }

/-- `GravityImpl::ensureForceCacheValid` for force `i` -/
def St.ensure (fs : List Force) (st : St) (i : Nat) : St :=
  if st.stage ≥ 5 ∧ st.lazyFresh.getD i false then st
  else if st.vars.zeroMag.getD i false then { st with lazyFresh := setAt st.lazyFresh i true }
  else { st with lazyFresh := setAt st.lazyFresh i true,
                 lazySnap := setAt st.lazySnap i (inputs fs st.vars i),
                 evals := bumpAt st.evals i }

/-- `calcForce` of force `i`: returns its contribution -/
def St.calc (fs : List Force) (st : St) (i : Nat) : St × (Nat × Snap) :=
  let st := { st with calls := bumpAt st.calls i }
  if (fs.getD i default).gravity then
    let st := st.ensure fs i
    (st, (i, st.lazySnap.getD i []))
  else (st, (i, inputs fs st.vars i))

/-- call `calcForce` for the forces `is` in order -/
def St.calcAll (fs : List Force) (st : St) : List Nat → St × List (Nat × Snap)
  | [] => (st, [])
  | i :: is =>
    let (st1, c) := st.calc fs i
    let (st2, cs) := St.calcAll fs st1 is
    (st2, c :: cs)

def enabledIdx (fs : List Force) (v : Vars) (p : Force → Bool) : List Nat :=
  (List.range fs.length).filter (fun i => v.enabled.getD i false && p (fs.getD i default))

/-- `realizeSubsystemDynamicsImpl` -/
def St.dynamics (fs : List Force) (st : St) : St :=
  if !anyPosOnly fs then
    let (st1, cs) := st.calcAll fs (enabledIdx fs st.vars (fun _ => true))
    { st1 with total := cs }
  else if !st.cachedValid then
    -- CachedAndNonCached: one pass over all enabled forces, position-only ones go into the cache
    let (st1, cs) := st.calcAll fs (enabledIdx fs st.vars (fun _ => true))
    let cache := cs.filter (fun c => (fs.getD c.1 default).posOnly)
    let direct := cs.filter (fun c => !(fs.getD c.1 default).posOnly)
    { st1 with cacheTotal := cache, cachedValid := true, total := direct ++ cache }
  else
    let (st1, cs) := st.calcAll fs (enabledIdx fs st.vars (fun f => !f.posOnly))
    { st1 with total := cs ++ st1.cacheTotal }

/-- `System::realize(state, g)`: only the Position and Dynamics stages act on the modelled caches -/
def St.realize (fs : List Force) (st : St) (g : Nat) : St :=
  let st1 := if st.stage < 5 ∧ 5 ≤ g ∧ anyPosOnly fs then { st with cachedValid := false } else st
  let st2 := if st.stage < 7 ∧ 7 ≤ g then St.dynamics fs { st1 with stage := 6 } else st1
  { st2 with stage := max st.stage g }

inductive Op where
  | setT (v : Nat) | setQ (v : Nat) | setU (v : Nat) | setZ (v : Nat)
  | setParam (i j v : Nat)            -- parameter j of (non-gravity) force i
  | setEnabled (i : Nat) (b : Bool)   -- GeneralForceSubsystem::setForceIsDisabled(state, i, !b)
  | gravSet (i j v : Nat) (zero : Bool)  -- a Force::Gravity setter that changes parameter j (new value v)
  | realize (g : Nat)
  | gravQuery (i : Nat)               -- Force::Gravity::getBodyForces / getPotentialEnergy (stage ≥ Position)
  | peQuery                           -- System::calcPotentialEnergy (stage ≥ Position)
deriving Repr, DecidableEq, Inhabited

def setParamVal (ps : List (List Nat)) (i j v : Nat) : List (List Nat) := setAt ps i (setAt (ps.getD i []) j v)

def legal (fs : List Force) (st : St) : Op → Bool
  | .setParam i j _ => match fs[i]? with
      | some f => !f.gravity && j < f.paramStages.length
      | none => false
  | .setEnabled i _ => i < fs.length
  | .gravSet i j _ _ => match fs[i]? with
      | some f => f.gravity && j < (st.vars.params.getD i []).length
      | none => false
  | .realize g => g ≤ 9
  | .gravQuery i => st.stage ≥ 5 && (match fs[i]? with | some f => f.gravity | none => false)
  | .peQuery => st.stage ≥ 5
  | _ => true

def step (fs : List Force) (st : St) : Op → St
  | .setT v => { (st.inval 4) with vars := { st.vars with t := v } }
  | .setQ v => { (st.inval 5) with vars := { st.vars with q := v } }
  | .setU v => { (st.inval 6) with vars := { st.vars with u := v } }
  | .setZ v => { (st.inval 7) with vars := { st.vars with z := v } }
  | .setParam i j v =>
    -- only through the element's own setter: exists for non-gravity elements and allocated parameters
    match ((fs.getD i default).paramStages)[j]? with
    | some g =>
      if (fs.getD i default).gravity then st
      else { (st.inval g) with vars := { st.vars with params := setParamVal st.vars.params i j v } }
    | none => st
  | .setEnabled i b =>
    -- updDiscreteVariable(forceEnabledIndex) (Instance) is taken before the comparison
    let st1 := st.inval 3
    if st.vars.enabled.getD i false != b then
      { st1 with vars := { st1.vars with enabled := setAt st1.vars.enabled i b },
                 cachedValid := if anyPosOnly fs then false else st1.cachedValid }
    else st1
  | .gravSet i j v zero =>
    -- invalidateForceCache(state); updParameters(state) (Dynamics); if the new magnitude is 0 the cache is
    -- filled with the (q-independent) zeros right away
    if (fs.getD i default).gravity then
      let st1 := { st with lazyFresh := setAt st.lazyFresh i false }
      let st2 := st1.inval 7
      let vars := { st2.vars with params := setParamVal st2.vars.params i j v, zeroMag := setAt st2.vars.zeroMag i zero }
      { st2 with vars := vars,
                 lazySnap := if zero then setAt st2.lazySnap i (inputs fs vars i) else st2.lazySnap }
    else st
  | .realize g => st.realize fs g
  | .gravQuery i => if st.stage ≥ 5 ∧ (fs.getD i default).gravity = true then st.ensure fs i else st   -- throws below Position
  | .peQuery =>
    -- calcPotentialEnergy of every enabled force; only Force::Gravity touches a cache
    if st.stage ≥ 5 then (enabledIdx fs st.vars (fun f => f.gravity)).foldl (fun acc i => acc.ensure fs i) st
    else st

def run (fs : List Force) (st : St) (ops : List Op) : St := ops.foldl (step fs) st

/-- a freshly created State given the variable values `v` (a copy of the default State realized through Model,
then every value set through the same API) -/
def fresh (fs : List Force) (v : Vars) : St :=
  { stage := 2, vars := v,
    lazyFresh := fs.map (fun _ => false),
    lazySnap := (List.range fs.length).map (fun i => if v.zeroMag.getD i false then inputs fs v i else []),
    calls := fs.map (fun _ => 0), evals := fs.map (fun _ => 0) }

/-- the force totals a realization to Dynamics delivers -/
def result (fs : List Force) (st : St) : List (Nat × Snap) := (st.realize fs 7).total

/-- initial state of a system with forces `fs`, parameters `ps`, default enabled flags and gravity magnitudes -/
def init (fs : List Force) (ps : List (List Nat)) (en zero : List Bool) : St :=
  fresh fs { params := ps, enabled := en, zeroMag := zero }

end C16
