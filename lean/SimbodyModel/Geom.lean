/-!
# Geometry family: shared algebra for C34, C35, C36, C47 (Mathlib-free, scalar-polymorphic)

* `V3 K`     3-vectors over any scalar type carrying the operations used (proved over fields, run on `Float`)
* `M3 K`     3×3 matrices by rows (rotations enter only through `M3` + the orthogonality hypothesis)
* `Jet1 K`   first-order jets `K[ε]/(ε²)`; "X is the derivative of Y" is stated as
             `(Y (lift p h)).e = X p · h` (DESIGN.md §1.3).  The lift of `√` is
             `√(v + e ε) = √v + e/(2√v) ε` (trusted-base item 6: a definition, not a theorem).
-/
namespace Geom

structure V3 (K : Type) where
  x : K
  y : K
  z : K
deriving Repr, BEq

section
variable {K : Type} [Add K] [Sub K] [Mul K] [Neg K] [Div K]

namespace V3
def add (a b : V3 K) : V3 K := ⟨a.x + b.x, a.y + b.y, a.z + b.z⟩
def sub (a b : V3 K) : V3 K := ⟨a.x - b.x, a.y - b.y, a.z - b.z⟩
def neg (a : V3 K) : V3 K := ⟨-a.x, -a.y, -a.z⟩
def smul (s : K) (a : V3 K) : V3 K := ⟨s * a.x, s * a.y, s * a.z⟩
/-- `a / s` componentwise (`Vec3 / Real`) -/
def sdiv (a : V3 K) (s : K) : V3 K := ⟨a.x / s, a.y / s, a.z / s⟩
def dot (a b : V3 K) : K := a.x * b.x + a.y * b.y + a.z * b.z
def cross (a b : V3 K) : V3 K :=
  ⟨a.y * b.z - a.z * b.y, a.z * b.x - a.x * b.z, a.x * b.y - a.y * b.x⟩
def normSq (a : V3 K) : K := dot a a
/-- `UnitVec3(a)`: `a / |a|`, `sqrt` a parameter -/
def unit (sqrt : K → K) (a : V3 K) : V3 K := sdiv a (sqrt (normSq a))
def toList (a : V3 K) : List K := [a.x, a.y, a.z]
end V3

/-- 3×3 matrix by rows -/
structure M3 (K : Type) where
  r0 : V3 K
  r1 : V3 K
  r2 : V3 K

namespace M3
def mulVec (m : M3 K) (v : V3 K) : V3 K := ⟨V3.dot m.r0 v, V3.dot m.r1 v, V3.dot m.r2 v⟩
def col0 (m : M3 K) : V3 K := ⟨m.r0.x, m.r1.x, m.r2.x⟩
def col1 (m : M3 K) : V3 K := ⟨m.r0.y, m.r1.y, m.r2.y⟩
def col2 (m : M3 K) : V3 K := ⟨m.r0.z, m.r1.z, m.r2.z⟩
def transpose (m : M3 K) : M3 K := ⟨col0 m, col1 m, col2 m⟩
/-- `~m * v` -/
def tmulVec (m : M3 K) (v : V3 K) : V3 K := mulVec (transpose m) v
/-- matrix product: row i of `a*b` = (row i of a) · (columns of b) -/
def mul (a b : M3 K) : M3 K :=
  ⟨⟨V3.dot a.r0 (col0 b), V3.dot a.r0 (col1 b), V3.dot a.r0 (col2 b)⟩,
   ⟨V3.dot a.r1 (col0 b), V3.dot a.r1 (col1 b), V3.dot a.r1 (col2 b)⟩,
   ⟨V3.dot a.r2 (col0 b), V3.dot a.r2 (col1 b), V3.dot a.r2 (col2 b)⟩⟩
end M3

/-- rigid transform `X = (R, p)`: `X * v = R v + p`, `~X * v = Rᵀ (v − p)` -/
structure Xf (K : Type) where
  R : M3 K
  p : V3 K

namespace Xf
def app (X : Xf K) (v : V3 K) : V3 K := V3.add (M3.mulVec X.R v) X.p
def inv (X : Xf K) (v : V3 K) : V3 K := M3.tmulVec X.R (V3.sub v X.p)
/-- composition `G ∘ X` (`G * X` of SimTK) -/
def comp (G X : Xf K) : Xf K := ⟨M3.mul G.R X.R, app G X.p⟩
/-- `~X1 * X2`: frame 2 measured in frame 1 -/
def invComp (X1 X2 : Xf K) : Xf K := ⟨M3.mul (M3.transpose X1.R) X2.R, inv X1 X2.p⟩
end Xf

/-! ## first-order jets -/
structure Jet1 (K : Type) where
  v : K
  e : K
deriving Repr

namespace Jet1
instance : Add (Jet1 K) := ⟨fun a b => ⟨a.v + b.v, a.e + b.e⟩⟩
instance : Sub (Jet1 K) := ⟨fun a b => ⟨a.v - b.v, a.e - b.e⟩⟩
instance : Neg (Jet1 K) := ⟨fun a => ⟨-a.v, -a.e⟩⟩
instance : Mul (Jet1 K) := ⟨fun a b => ⟨a.v * b.v, a.v * b.e + a.e * b.v⟩⟩
instance : Div (Jet1 K) := ⟨fun a b => ⟨a.v / b.v, (a.e * b.v - a.v * b.e) / (b.v * b.v)⟩⟩
/-- constants have zero ε-part -/
def const [OfNat K 0] (c : K) : Jet1 K := ⟨c, 0⟩
instance {n : Nat} [OfNat K 0] [OfNat K n] : OfNat (Jet1 K) n := ⟨const (OfNat.ofNat n)⟩
/-- the lift of `√` (definition; needs `sqrt v ≠ 0`) -/
def sqrtJ [OfNat K 2] (sqrt : K → K) (a : Jet1 K) : Jet1 K := ⟨sqrt a.v, a.e / (2 * sqrt a.v)⟩
end Jet1

/-- the point `p + ε h` -/
def liftV (p h : V3 K) : V3 (Jet1 K) := ⟨⟨p.x, h.x⟩, ⟨p.y, h.y⟩, ⟨p.z, h.z⟩⟩
/-- a constant vector as a jet vector -/
def constV [OfNat K 0] (p : V3 K) : V3 (Jet1 K) := ⟨Jet1.const p.x, Jet1.const p.y, Jet1.const p.z⟩
def epsV (a : V3 (Jet1 K)) : V3 K := ⟨a.x.e, a.y.e, a.z.e⟩

end
end Geom
