/-! GENERATED on every run by checks/C32.py (SPEC['gen']) from the current /repo working tree - do not edit.
Source: SimTKcommon/src/String.cpp - the final `return` of String::tryConvertToBool/Float/Double. -/
namespace C32.Gen
/-- SimTKcommon/src/String.cpp:78  `return !sstream.fail();` -/
def recognizedBool : Bool := true
def checksRestBool : Bool := false
/-- SimTKcommon/src/String.cpp:91  `return !sstream.fail();` -/
def recognizedFloat : Bool := true
def checksRestFloat : Bool := false
/-- SimTKcommon/src/String.cpp:104  `return !sstream.fail();` -/
def recognizedDouble : Bool := true
def checksRestDouble : Bool := false
end C32.Gen
