/-! GENERATED on every run by checks/C32.py (SPEC['gen']) from the current /repo working tree - do not edit.
Source: SimTKcommon/src/String.cpp - the final `return` of String::tryConvertToBool/Float/Double. -/
namespace C32.Gen
/-- SimTKcommon/src/String.cpp:88  `return extractedWholeString(sstream);` -/
def recognizedBool : Bool := true
def checksRestBool : Bool := true
/-- SimTKcommon/src/String.cpp:101  `return extractedWholeString(sstream);` -/
def recognizedFloat : Bool := true
def checksRestFloat : Bool := true
/-- SimTKcommon/src/String.cpp:114  `return extractedWholeString(sstream);` -/
def recognizedDouble : Bool := true
def checksRestDouble : Bool := true
end C32.Gen
