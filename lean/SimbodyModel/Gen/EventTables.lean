/-! GENERATED on every run by checks/C22.py (gen) from the current /repo working tree — do not edit.
Truth tables: output of harness/C22_tables.cpp compiled against the tree's headers.
literal bufferFraction: `BufferZone = std::max(Real(0.1*h), minWindow/2)`
literal c095: `tMax < t0 + 0.95*currentStepSize`
literal c1001: `tMax > t0 + 1.001*currentStepSize`
-/
namespace C22.Gen
/-- (before, after, Event::classifyTransition(before, after)) -/
def classifyTable : List (Int × Int × Nat) := [(-1, -1, 0), (-1, 0, 2), (-1, 1, 2), (0, -1, 0), (0, 0, 0), (0, 1, 0), (1, -1, 1), (1, 0, 1), (1, 1, 0)]
/-- (transition, mask, Event::maskTransition(transition, mask)) -/
def maskTable : List (Nat × Nat × Nat) := [(0, 0, 0), (0, 1, 0), (0, 2, 0), (0, 3, 0), (1, 0, 0), (1, 1, 1), (1, 2, 0), (1, 3, 1), (2, 0, 0), (2, 1, 0), (2, 2, 2), (2, 3, 2), (3, 0, 0), (3, 1, 1), (3, 2, 2), (3, 3, 3)]
/-- (rising, falling, EventTriggerInfo::calcTransitionMask()) -/
def flagsTable : List (Bool × Bool × Nat) := [(false, false, 0), (false, true, 1), (true, false, 2), (true, true, 3)]
/-- (transitionSeen, EventTriggerInfo::calcTransitionToReport(transitionSeen)) -/
def reportTable : List (Nat × Nat) := [(1, 1), (2, 2), (3, 2)]
/-- enum Event::Trigger: NoEventTrigger, PositiveToNegative, NegativeToPositive, Falling, Rising, AnySignChange -/
def triggerEnum : List Nat := [0, 1, 2, 1, 2, 3]
/-- EventTriggerInfo defaults: rising, falling -/
def defaultFlags : Bool × Bool := (true, true)
/-- numerator / denominator of the source literal -/
def bufferFraction : Nat × Nat := (1, 10)
def bufferFractionF : Float := 0.1
/-- numerator / denominator of the source literal -/
def c095 : Nat × Nat := (95, 100)
def c095F : Float := 0.95
/-- numerator / denominator of the source literal -/
def c1001 : Nat × Nat := (1001, 1000)
def c1001F : Float := 1.001
end C22.Gen
