/-! GENERATED on every run by checks/C31.py (SPEC['gen']) from the current /repo working tree - do not edit.
Source: SimTKcommon/Random/src/SFMT-params.h (MEXP) and SimTKcommon/Random/src/SFMT-params19937.h (the parameter set selected by MEXP). -/
namespace C31.Gen
def srcFiles : List String := ["SimTKcommon/Random/src/SFMT-params.h", "SimTKcommon/Random/src/SFMT-params19937.h"]
/-- SimTKcommon/Random/src/SFMT-params.h:5  `#define MEXP 19937` -/
def MEXP : Nat := 19937
/-- SimTKcommon/Random/src/SFMT-params19937.h:4  `#define POS1    122` -/
def POS1 : Nat := 122
/-- SimTKcommon/Random/src/SFMT-params19937.h:5  `#define SL1    18` -/
def SL1 : Nat := 18
/-- SimTKcommon/Random/src/SFMT-params19937.h:6  `#define SL2    1` -/
def SL2 : Nat := 1
/-- SimTKcommon/Random/src/SFMT-params19937.h:7  `#define SR1    11` -/
def SR1 : Nat := 11
/-- SimTKcommon/Random/src/SFMT-params19937.h:8  `#define SR2    1` -/
def SR2 : Nat := 1
/-- SimTKcommon/Random/src/SFMT-params19937.h:9  `#define MSK1    0xdfffffefU` -/
def MSK1 : UInt32 := 0xdfffffef
/-- SimTKcommon/Random/src/SFMT-params19937.h:10  `#define MSK2    0xddfecb7fU` -/
def MSK2 : UInt32 := 0xddfecb7f
/-- SimTKcommon/Random/src/SFMT-params19937.h:11  `#define MSK3    0xbffaffffU` -/
def MSK3 : UInt32 := 0xbffaffff
/-- SimTKcommon/Random/src/SFMT-params19937.h:12  `#define MSK4    0xbffffff6U` -/
def MSK4 : UInt32 := 0xbffffff6
/-- SimTKcommon/Random/src/SFMT-params19937.h:13  `#define PARITY1    0x00000001U` -/
def PARITY1 : UInt32 := 0x00000001
/-- SimTKcommon/Random/src/SFMT-params19937.h:14  `#define PARITY2    0x00000000U` -/
def PARITY2 : UInt32 := 0x00000000
/-- SimTKcommon/Random/src/SFMT-params19937.h:15  `#define PARITY3    0x00000000U` -/
def PARITY3 : UInt32 := 0x00000000
/-- SimTKcommon/Random/src/SFMT-params19937.h:16  `#define PARITY4    0x13c9e684U` -/
def PARITY4 : UInt32 := 0x13c9e684
end C31.Gen
