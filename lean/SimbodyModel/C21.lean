/-!
# C21 — integrators keep constrained states on the manifold: model

1. Decision structure (kind D) of `AbstractIntegratorRep::attemptDAEStep` (SimTKmath/Integrators/src/AbstractIntegratorRep.cpp),
   of the step acceptance in `takeOneStep`, and of the three ways a state is handed out
   (`advancedState`, `createInterpolatedState`, `backUpAdvancedStateByInterpolation`), with `System::projectQ/projectU`
   (C09) as an ORACLE that either succeeds or fails.
2. Acceptance contract (kind K) evaluated by the driver in exact rational arithmetic on the doubles a returned state
   exposes: weighted holonomic position errors, unweighted quaternion errors and weighted velocity errors must have
   RMS (or infinity) norm ≤ the constraint tolerance in use — the very test `SimbodyMatterSubsystemRep::projectQ/U` apply.

Mathlib-free; theorems in `SimbodyProofs/C21.lean`.
-/
namespace C21

/-- where a state the integrator may hand out comes from -/
inductive Prov where
  | raw          -- result of an ODE step, not projected
  | prescribed   -- only prescribeQ / prescribeU applied (interpolated state with projection of interpolated states off)
  | projected    -- output of successful projectQ and projectU at the tolerance in use
  deriving DecidableEq, Repr

/-- the branch structure of `AbstractIntegratorRep::attemptDAEStep` on its four decisions:
(converged, provenance of the advanced state, projectQ was called, projectU was called) -/
def attemptDAECore (odeConverged gateExceeded projQok projUok : Bool) : Bool × Prov × Bool × Bool :=
  if !odeConverged then (false, .raw, false, false)
  else if gateExceeded then (true, .raw, false, false)     -- "this step converged, but isn't worth projecting"
  else if !projQok then (false, .raw, true, false)
  else if !projUok then (false, .raw, true, true)
  else (true, .projected, true, true)

/-- one trial step as seen by the decision structure -/
structure Att where
  odeConverged : Bool
  gateExceeded : Bool    -- errNorm > 2^p * accuracy
  projQok : Bool
  projUok : Bool
  errWithinAcc : Bool    -- errNorm <= accuracy (what makes adjustStepSize succeed, C20)
  deriving Repr

/-- `stepSucceeded` of `takeOneStep` on Booleans -/
def stepAcceptedB (hasErrorControl minForced converged errWithinAcc : Bool) : Bool :=
  if hasErrorControl then (converged && errWithinAcc) || minForced else true

/-- the `do … while (!stepSucceeded)` loop of `takeOneStep` over the successive trial steps: provenance of the advanced
state when a step is finally accepted, number of convergence-test failures, number of error-test failures -/
def stepLoop (hasErrCtl forced : Bool) : List Att → Nat → Nat → Option (Prov × Nat × Nat)
  | [], _, _ => none
  | a :: rest, cf, ef =>
    let r := attemptDAECore a.odeConverged a.gateExceeded a.projQok a.projUok
    let cf' := if r.1 then cf else cf + 1
    if stepAcceptedB hasErrCtl forced r.1 a.errWithinAcc then some (r.2.1, cf', ef)
    else stepLoop hasErrCtl forced rest cf' (ef + 1)

section
variable {K : Type} [LT K] [LE K] [DecidableLT K] [DecidableLE K]

/-- what `attemptDAEStep` looks at -/
structure DAEIn (K : Type) where
  odeConverged : Bool   -- attemptODEStep returned true and did not throw
  errNorm : K           -- calcErrorNorm(advanced, yErrEst)
  gate : K              -- std::pow(2, errOrder) * getAccuracyInUse()
  projQok : Bool        -- localProjectQAndQErrEstNoThrow(advanced, …, projectionLimit) succeeded
  projUok : Bool        -- localProjectUAndUErrEstNoThrow(…) succeeded

/-- `AbstractIntegratorRep::attemptDAEStep` : (converged, provenance of the advanced state afterwards) -/
def attemptDAEStep (i : DAEIn K) : Bool × Prov :=
  let r := attemptDAECore i.odeConverged (decide (i.gate < i.errNorm)) i.projQok i.projUok
  (r.1, r.2.1)

/-- acceptance of the trial step in `takeOneStep`: `hasErrorControl ? adjustStepSize(errNorm, …) : true`, where
`adjustStepSize` succeeds iff the error norm is finite and ≤ accuracy (C20 `adjust_success_iff_err_le_acc`) OR the
user's minimum step size clamps the new step size up to the current one (`minForced`); a non-converged step has
`errNorm = Infinity` -/
def stepAccepted (hasErrorControl minForced converged : Bool) (errNorm acc : K) : Bool :=
  if hasErrorControl then (converged && decide (errNorm ≤ acc)) || minForced else true

/-- the ways `stepTo` hands a state to the caller -/
inductive Handed where
  | stepState       -- getState() == advancedState after an accepted step
  | interpolated    -- createInterpolatedState(t): report inside a step or the event before-state at tLow
  | backedUp        -- backUpAdvancedStateByInterpolation(tHigh): the advanced state after an event was localised
  deriving DecidableEq, Repr

/-- provenance of a handed-out state; `none` = the projection threw (no state is handed out) -/
def handOut (projectInterpolated : Bool) (advanced : Prov) (projOK : Bool) : Handed → Option Prov
  | .stepState => some advanced
  | .interpolated =>
      if projectInterpolated then (if projOK then some .projected else none)   -- realizeAndProjectKinematicsWithThrow
      else some .prescribed
  | .backedUp => if projOK then some .projected else none                      -- ignores the user's request not to project
end

/-- what one `Integrator::stepTo` call does to the provenance bookkeeping -/
structure CallObs where
  step       : Option (List Att)   -- `some atts` if the call took an internal step (its trial steps), `none` otherwise
  backedUp   : Bool                -- an event was localised with tHigh < t1: backUpAdvancedStateByInterpolation(tHigh)
  interp     : Bool                -- the state handed out is the interpolated one (report inside a step / event before-state)
  projOK     : Bool                -- every throwing projection of this call succeeded
  deriving Repr

/-- provenance of the advanced state after the call and of the state handed out (`none`: the call throws) -/
def callProv (hasErrCtl forced projectInterpolated : Bool) (adv : Prov) (c : CallObs) : Option (Prov × Prov) :=
  -- every throwing projection inside stepTo propagates (localisation probes, back-up, hand-out interpolation)
  if !c.projOK then none else
  let adv1 : Option Prov :=
    match c.step with
    | none => some adv
    | some atts => (stepLoop hasErrCtl forced atts 0 0).map (·.1)
  match adv1 with
  | none => none
  | some a1 =>
    let adv2 : Option Prov := if c.backedUp then handOut projectInterpolated a1 c.projOK .backedUp else some a1
    match adv2 with
    | none => none
    | some a2 =>
      match (if c.interp then handOut projectInterpolated a2 c.projOK .interpolated
             else handOut projectInterpolated a2 c.projOK .stepState) with
      | none => none
      | some r => some (a2, r)

/-- a whole session: provenance of every handed-out state (stops at a throwing call) -/
def sessionProv (hasErrCtl forced projectInterpolated : Bool) : Prov → List CallObs → List Prov
  | _, [] => []
  | adv, c :: cs =>
    match callProv hasErrCtl forced projectInterpolated adv c with
    | none => []
    | some (a2, r) => r :: sessionProv hasErrCtl forced projectInterpolated a2 cs

/-! ### acceptance contract (kind K) -/
section
variable {K : Type} [Add K] [Mul K] [LE K] [DecidableLE K] [Neg K] [OfNat K 0]

def sumSq (v : List K) : K := v.foldl (fun s x => s + x * x) 0

/-- `v.normRMS() ≤ tol`  ⇔  Σ xᵢ² ≤ n·tol²  (no square root needed); `nK` = `n` as a scalar -/
def acceptRMS (tol nK : K) (v : List K) : Bool := v.isEmpty || decide (sumSq v ≤ nK * (tol * tol))

/-- `v.normInf() ≤ tol` -/
def acceptInf (tol : K) (v : List K) : Bool := v.all (fun x => decide (x ≤ tol) && decide (-x ≤ tol))

def acceptNorm (useInf : Bool) (tol nK : K) (v : List K) : Bool :=
  if useInf then acceptInf tol v else acceptRMS tol nK v

/-- a returned state is on the manifold to tolerance: weighted holonomic perrs, raw quaternion errors, weighted verrs -/
def acceptState (useInf : Bool) (tol : K) (perrW : List K) (nP : K) (quatErr : List K) (nQ : K) (verrW : List K) (nV : K) : Bool :=
  acceptNorm useInf tol nP perrW && acceptNorm useInf tol nQ quatErr && acceptNorm useInf tol nV verrW
end

end C21
