/-!
# C21 — integrators keep constrained states on the manifold: model

1. Decision structure (kind D) of `AbstractIntegratorRep::attemptDAEStep` (SimTKmath/Integrators/src/AbstractIntegratorRep.cpp),
   of the step acceptance in `takeOneStep`, and of the three ways a state is handed out
   (`advancedState`, `createInterpolatedState`, `backUpAdvancedStateByInterpolation`), with `System::projectQ/projectU`
   (C09) as an ORACLE that either succeeds or fails.
2. Acceptance contract (kind K) evaluated by the driver in exact rational arithmetic on the doubles a returned state
   exposes: weighted holonomic position errors, unweighted quaternion errors and weighted velocity errors must have
   RMS (or infinity) norm ≤ the constraint tolerance in use — the very test `SimbodyMatterSubsystemRep::projectQ/U` apply.

Mathlib-free; theorems in `SimbodyProofs/C21.lean`.
-/
namespace C21

/-- where a state the integrator may hand out comes from -/
inductive Prov where
  | raw          -- result of an ODE step, not projected
  | prescribed   -- only prescribeQ / prescribeU applied (interpolated state with projection of interpolated states off)
  | projected    -- output of successful projectQ and projectU at the tolerance in use
  deriving DecidableEq, Repr

section
variable {K : Type} [LT K] [LE K] [DecidableLT K] [DecidableLE K]

/-- what `attemptDAEStep` looks at -/
structure DAEIn (K : Type) where
  odeConverged : Bool   -- attemptODEStep returned true and did not throw
  errNorm : K           -- calcErrorNorm(advanced, yErrEst)
  gate : K              -- std::pow(2, errOrder) * getAccuracyInUse()
  projQok : Bool        -- localProjectQAndQErrEstNoThrow(advanced, …, projectionLimit) succeeded
  projUok : Bool        -- localProjectUAndUErrEstNoThrow(…) succeeded

/-- `AbstractIntegratorRep::attemptDAEStep` : (converged, provenance of the advanced state afterwards) -/
def attemptDAEStep (i : DAEIn K) : Bool × Prov :=
  if !i.odeConverged then (false, .raw)
  else if i.gate < i.errNorm then (true, .raw)      -- "this step converged, but isn't worth projecting"
  else if !i.projQok then (false, .raw)
  else if !i.projUok then (false, .raw)
  else (true, .projected)

/-- acceptance of the trial step in `takeOneStep`: `hasErrorControl ? adjustStepSize(errNorm, …) : true`, where
`adjustStepSize` succeeds iff the error norm is finite and ≤ accuracy (C20 `adjust_success_iff_err_le_acc`) OR the
user's minimum step size clamps the new step size up to the current one (`minForced`); a non-converged step has
`errNorm = Infinity` -/
def stepAccepted (hasErrorControl minForced converged : Bool) (errNorm acc : K) : Bool :=
  if hasErrorControl then (converged && decide (errNorm ≤ acc)) || minForced else true

/-- the ways `stepTo` hands a state to the caller -/
inductive Handed where
  | stepState       -- getState() == advancedState after an accepted step
  | interpolated    -- createInterpolatedState(t): report inside a step or the event before-state at tLow
  | backedUp        -- backUpAdvancedStateByInterpolation(tHigh): the advanced state after an event was localised
  deriving DecidableEq, Repr

/-- provenance of a handed-out state; `none` = the projection threw (no state is handed out) -/
def handOut (projectInterpolated : Bool) (advanced : Prov) (projOK : Bool) : Handed → Option Prov
  | .stepState => some advanced
  | .interpolated =>
      if projectInterpolated then (if projOK then some .projected else none)   -- realizeAndProjectKinematicsWithThrow
      else some .prescribed
  | .backedUp => if projOK then some .projected else none                      -- ignores the user's request not to project
end

/-! ### acceptance contract (kind K) -/
section
variable {K : Type} [Add K] [Mul K] [LE K] [DecidableLE K] [Neg K] [OfNat K 0]

def sumSq (v : List K) : K := v.foldl (fun s x => s + x * x) 0

/-- `v.normRMS() ≤ tol`  ⇔  Σ xᵢ² ≤ n·tol²  (no square root needed); `nK` = `n` as a scalar -/
def acceptRMS (tol nK : K) (v : List K) : Bool := v.isEmpty || decide (sumSq v ≤ nK * (tol * tol))

/-- `v.normInf() ≤ tol` -/
def acceptInf (tol : K) (v : List K) : Bool := v.all (fun x => decide (x ≤ tol) && decide (-x ≤ tol))

def acceptNorm (useInf : Bool) (tol nK : K) (v : List K) : Bool :=
  if useInf then acceptInf tol v else acceptRMS tol nK v

/-- a returned state is on the manifold to tolerance: weighted holonomic perrs, raw quaternion errors, weighted verrs -/
def acceptState (useInf : Bool) (tol : K) (perrW : List K) (nP : K) (quatErr : List K) (nQ : K) (verrW : List K) (nV : K) : Bool :=
  acceptNorm useInf tol nP perrW && acceptNorm useInf tol nQ quatErr && acceptNorm useInf tol nV verrW
end

end C21
