import SimbodyModel.Proto
/-!
# C09 — projection onto the constraint manifold: model of `SimbodyMatterSubsystemRep::projectQ / projectU`

Mirrors `Simbody/src/SimbodyMatterSubsystemRep.cpp` (projectQ ≈ l.4096, normalizeQuaternions ≈ l.4448,
projectU ≈ l.4666, packFreeQ/unpackFreeQ ≈ l.1897, calcWeightedPqrTranspose ≈ l.2640) and
`VectorBase::normRMS / normInf`, `ProjectOptions`, `ProjectResults` (SimTKcommon System.h) branch by branch.

What is modelled
* `normW`      the two norms (RMS and infinity, with the "worst element" index) exactly as `VectorBase` computes
               them, including `n = 0 ↦ (0, -1)`;
* `runQ/runU`  the *control skeleton* of projectQ / projectU as a function of an ORACLE: the constraint-error
               vectors the numerical part (Jacobian, QTZ factorisation, realizePosition) produces after each Newton
               iteration are arbitrary inputs; everything the code *decides* from them (entry norm, projection
               limit, early return, ForceProjection, overshoot target, LocalOnly divergence test and back-step,
               20/7 iteration cap, revert-if-worse, FailedToConverge / FailedToAchieveAccuracy / Succeeded,
               anyChangeMade, quaternion normalisation, throw-or-not) is computed here;
* `acceptsQ/acceptsU`  kind-K contract: a checker on the *observable* `ProjectResults` (+ options);
* `normalizeQuat`  `RigidBodyNodeSpec<Ball|Free|…>::enforceQuaternionConstraints` on one quaternion;
* `pack/unpack`    packFreeQ / unpackFreeQ (and the U twins);
* `minNormWeighted` the documented weighted least-squares step `dq = Wu⁻¹ (Tp Pq Wu⁻¹)⁺ Tp perr` for a full-row-rank
               `Pq` on mobilizers with `qdot = u` (N = identity), restricted to free columns.

Polymorphic in the scalar: proved over any linear ordered field (SimbodyProofs/C09.lean), executed over `Float`
(Drivers/C09.lean).  `sqrt` is a parameter.
-/
namespace C09

/-- `ProjectResults::Status` -/
inductive Status | invalid | succeeded | failedAcc | failedConv
deriving DecidableEq, Repr, Inhabited

def Status.code : Status → Int
  | .invalid => -1 | .succeeded => 0 | .failedAcc => 1 | .failedConv => 2

def Status.ofCode (c : Int) : Status :=
  if c = 0 then .succeeded else if c = 1 then .failedAcc else if c = 2 then .failedConv else .invalid

/-- which q (resp. u) the State holds on return, in the oracle's numbering:
`entry` untouched; `iter n` after `n` Newton iterations; `back n` after `n` iterations with the last one undone
(`updQ(s) += dq`); `saved` the copy `saveQ` taken on entry written back (`updQ(s) = saveQ`). -/
inductive Sel | entry | iter (n : Nat) | back (n : Nat) | saved
deriving DecidableEq, Repr, Inhabited

/-- `ProjectOptions` (`limit = none` is the default `Infinity`); `sig` is `SignificantReal`. `ForceFullNewton` is
read by the code but never used ("TODO: always using full Newton at the moment"). -/
structure Opts (K : Type) where
  acc : K
  overshoot : K
  limit : Option K
  sig : K
  useInf : Bool
  force : Bool
  dontThrow : Bool
  localOnly : Bool

/-- `ProjectResults` after the call (+ whether the call threw, + which state is held: `sel`, `normalized`). `none`
for a norm is the `NaN` that `ProjectResults::clear()` leaves when the field is never set. -/
structure Results (K : Type) where
  status : Status := .invalid
  anyChange : Bool := false
  limitExceeded : Bool := false
  its : Nat := 0
  normIn : Option K := none
  worst : Int := -1
  normOut : Option K := none
  threw : Bool := false
  sel : Sel := .entry
  normalized : Bool := false

section Norms
variable {K : Type} [Add K] [Mul K] [Div K] [Neg K] [OfNat K 0] [OfNat K 1] [LT K] [DecidableLT K]

/-- `std::abs` as far as comparisons can see it -/
def absK (x : K) : K := if x < 0 then -x else x

/-- `std::max(a,b)` is `(a < b) ? b : a` -/
def maxK (a b : K) : K := if a < b then b else a

/-- running state of the norm loops: accumulated value (sum of squares, or max |v|), current maximum, its index, position -/
structure NAcc (K : Type) where
  acc : K
  mx : K
  worst : Int
  pos : Int

/-- `VectorBase::normInf(&worst)`: `maxabs=0; worst=0; for i: a=|v_i|; if (a > maxabs) maxabs=a, worst=i`;
`n = 0 ↦ (0,-1)`.  (A NaN element never satisfies `a > maxabs` and is silently dropped.) -/
def normInfW (xs : List K) : K × Int :=
  match xs with
  | [] => (0, -1)
  | _ =>
    let r := xs.foldl (fun (st : NAcc K) x =>
      let a := absK x
      if st.mx < a then ⟨a, a, st.pos, st.pos + 1⟩ else ⟨st.acc, st.mx, st.worst, st.pos + 1⟩) ⟨0, 0, 0, 0⟩
    (r.mx, r.worst)

/-- the element count as a scalar (`sumsq/n` with `int n` converted) -/
def countK (xs : List K) : K := xs.foldl (fun c _ => c + 1) 0

/-- `VectorBase::normRMS(&worst)`: `sqrt(sumsq/n)`, worst = first index of the largest square; `n = 0 ↦ (0,-1)` -/
def normRMSW (sqrt : K → K) (xs : List K) : K × Int :=
  match xs with
  | [] => (0, -1)
  | _ =>
    let r := xs.foldl (fun (st : NAcc K) x =>
      let v2 := x * x
      if st.mx < v2 then ⟨st.acc + v2, v2, st.pos, st.pos + 1⟩ else ⟨st.acc + v2, st.mx, st.worst, st.pos + 1⟩) ⟨0, 0, 0, 0⟩
    (sqrt (r.acc / countK xs), r.worst)

/-- the norm selected by `ProjectOptions::UseInfinityNorm` -/
def normW (sqrt : K → K) (useInf : Bool) (xs : List K) : K × Int :=
  if useInf then normInfW xs else normRMSW sqrt xs

def norm (sqrt : K → K) (useInf : Bool) (xs : List K) : K := (normW sqrt useInf xs).1

/-- `v.rowScale(w)`: elementwise product (`Tp * perr`) -/
def scale (xs ws : List K) : List K := List.zipWith (· * ·) xs ws

end Norms

section Skeleton
variable {K : Type} [Add K] [Mul K] [Div K] [Neg K] [OfNat K 0] [OfNat K 1] [LT K] [DecidableLT K]
  [LE K] [DecidableLE K] [BEq K]

/-- `normOnEntry > opts.getProjectionLimit()` -/
def exceeds (limit : Option K) (n : K) : Bool :=
  match limit with
  | none => false
  | some l => decide (l < n)

/-- `ProjectOptions::setRequiredAccuracy`: nonpositive (or NaN) requests fall back to the default 1e-4 -/
def setRequiredAccuracy (dflt a : K) : K := if 0 < a then a else dflt

/-- norms on entry of projectQ -/
structure Entry (K : Type) where
  normIn : K
  worst : Int
  perrIn : K
  quatIn : K

/-- entry block of projectQ: weighted perr norm, unweighted quaternion norm, `perrNorm >= quatNorm` picks what is reported -/
def entryNormQ (sqrt : K → K) (useInf : Bool) (perr w quat : List K) : Entry K :=
  let p := normW sqrt useInf (scale perr w)
  let q := normW sqrt useInf quat
  if q.1 ≤ p.1 then ⟨p.1, p.2, p.1, q.1⟩ else ⟨q.1, (perr.length : Int) + q.2, p.1, q.1⟩

/-- what the numerical part of projectQ produced (arbitrary): constraint errors on entry and after every step -/
structure OracleQ (K : Type) where
  perr0 : List K            -- unweighted holonomic errors on entry (mHolo of them)
  w : List K                -- Tp = getQErrWeights(0,mHolo)
  quat0 : List K            -- quaternion errors on entry (mQuats of them)
  chgA : Bool               -- return value of normalizeQuaternions in the early-return block
  quatA : List K            -- quaternion errors after it
  perrIt : Nat → List K     -- perr after Newton iteration i+1
  perrBack : Nat → List K   -- perr recomputed after undoing iteration i+1 (LocalOnly divergence)
  chgB : Bool               -- return value of normalizeQuaternions after a successful Newton loop
  quatB : List K            -- quaternion errors after it

/-- what the numerical part of projectU produced -/
structure OracleU (K : Type) where
  verr0 : List K
  w : List K                -- Tpv = getUErrWeights
  verrIt : Nat → List K
  verrBack : Nat → List K

structure LoopOut (K : Type) where
  its : Nat
  achieved : K
  diverged : Bool
  sel : Sel

/-- the `do { … } while (norm > tryFor && nItsUsed < MaxIterations)` loop shared by projectQ / projectU.
`nrm i` is the norm after iteration `i+1`, `nrmBack i` the norm recomputed after undoing it.  `fuel` = iterations
still allowed. -/
def newtonLoop (localOnly : Bool) (tryFor : K) (nrm nrmBack : Nat → K) : Nat → Nat → K → LoopOut K
  | 0, its, prev => ⟨its, prev, false, .iter its⟩
  | fuel + 1, its, prev =>
    let a := nrm its
    if localOnly && decide (2 ≤ its + 1) && decide (prev < a) then ⟨its + 1, nrmBack its, true, .back (its + 1)⟩
    else if decide (tryFor < a) && decide (0 < fuel) then newtonLoop localOnly tryFor nrm nrmBack fuel (its + 1) a
    else ⟨its + 1, a, false, .iter (its + 1)⟩

def maxItsQ : Nat := 20
def maxItsU : Nat := 7

/-- control skeleton of `SimbodyMatterSubsystemRep::projectQ` -/
def runQ (sqrt : K → K) (o : Opts K) (orc : OracleQ K) : Results K :=
  let nrm := fun xs => norm sqrt o.useInf xs
  let e := entryNormQ sqrt o.useInf orc.perr0 orc.w orc.quat0
  let r0 : Results K := { normIn := some e.normIn, worst := e.worst }
  if exceeds o.limit e.normIn then
    { r0 with limitExceeded := true, status := .failedConv }
  else if e.perrIn == 0 || (decide (e.perrIn ≤ o.acc) && !o.force) then
    if decide (o.acc < e.quatIn) || o.force then
      let qn := nrm orc.quatA
      let r1 : Results K := { r0 with anyChange := orc.chgA, normOut := some qn, normalized := true }
      if o.acc < qn then { r1 with status := .failedAcc, threw := !o.dontThrow }
      else { r1 with status := .succeeded }
    else { r0 with anyChange := false, normOut := some e.normIn, status := .succeeded }
  else
    let tryFor := maxK (o.overshoot * o.acc) o.sig
    let L := newtonLoop o.localOnly tryFor (fun i => nrm (scale (orc.perrIt i) orc.w))
               (fun i => nrm (scale (orc.perrBack i) orc.w)) maxItsQ 0 e.perrIn
    let r1 : Results K := { r0 with anyChange := true, its := L.its }
    if o.acc < L.achieved then
      let worse := decide (e.perrIn ≤ L.achieved)
      { r1 with normOut := some (if worse then e.perrIn else L.achieved), sel := if worse then .saved else L.sel,
                status := if L.diverged then .failedConv else .failedAcc, threw := !o.dontThrow }
    else if orc.quat0.length ≠ 0 then
      let qn := nrm orc.quatB
      let r2 : Results K := { r1 with sel := L.sel, normalized := true }
      if o.acc < qn then { r2 with normOut := some qn, status := .failedAcc, threw := !o.dontThrow }
      else { r2 with normOut := some (maxK L.achieved qn), status := .succeeded }
    else { r1 with sel := L.sel, normOut := some (maxK L.achieved e.quatIn), status := .succeeded }

/-- control skeleton of `SimbodyMatterSubsystemRep::projectU` -/
def runU (sqrt : K → K) (o : Opts K) (orc : OracleU K) : Results K :=
  let nrm := fun xs => norm sqrt o.useInf xs
  let e := normW sqrt o.useInf (scale orc.verr0 orc.w)
  let r0 : Results K := { normIn := some e.1, worst := e.2 }
  if exceeds o.limit e.1 then
    { r0 with limitExceeded := true, status := .failedConv }
  else if e.1 == 0 || (decide (e.1 ≤ o.acc) && !o.force) then
    { r0 with anyChange := false, normOut := some e.1, status := .succeeded }
  else
    let tryFor := maxK (o.overshoot * o.acc) o.sig
    let L := newtonLoop o.localOnly tryFor (fun i => nrm (scale (orc.verrIt i) orc.w))
               (fun i => nrm (scale (orc.verrBack i) orc.w)) maxItsU 0 e.1
    let r1 : Results K := { r0 with anyChange := true, its := L.its }
    if o.acc < L.achieved then
      let worse := decide (e.1 ≤ L.achieved)
      { r1 with normOut := some (if worse then e.1 else L.achieved), sel := if worse then .saved else L.sel,
                status := if L.diverged then .failedConv else .failedAcc, threw := !o.dontThrow }
    else { r1 with sel := L.sel, normOut := some L.achieved, status := .succeeded }

/-- the holonomic error vector of the state selected on return -/
def perrAt (orc : OracleQ K) : Sel → List K
  | .entry => orc.perr0
  | .saved => orc.perr0
  | .iter n => orc.perrIt (n - 1)
  | .back n => orc.perrBack (n - 1)

/-- the quaternion error vector of the state held on return -/
def quatAt (orc : OracleQ K) (r : Results K) : List K :=
  if r.normalized then (if r.its = 0 then orc.quatA else orc.quatB) else orc.quat0

def verrAt (orc : OracleU K) : Sel → List K
  | .entry => orc.verr0
  | .saved => orc.verr0
  | .iter n => orc.verrIt (n - 1)
  | .back n => orc.verrBack (n - 1)

/-- the State a run returns, over an abstract state type: `s0` on entry, `it n` after `n` iterations, `bk n` after
`n` iterations and one back-step, `sv` = `s0` with `saveQ` written back, `nz` = normalizeQuaternions -/
def finalState {S : Type} (s0 : S) (it bk : Nat → S) (sv : S) (nz : S → S) (r : Results K) : S :=
  let base := match r.sel with
    | .entry => s0
    | .saved => sv
    | .iter n => it n
    | .back n => bk n
  if r.normalized then nz base else base

/-! ### kind-K contract on the observable results -/

/-- what the public API lets us see of one call (`restored`: the q (resp. u) held on return is bitwise the q passed in) -/
structure Obs (K : Type) where
  status : Status
  anyChange : Bool
  limitExceeded : Bool
  its : Nat
  normIn : K
  normOut : Option K
  threw : Bool
  restored : Bool

def Results.obs (r : Results K) (dflt : K) : Obs K :=
  ⟨r.status, r.anyChange, r.limitExceeded, r.its, r.normIn.getD dflt, r.normOut, r.threw,
   (r.sel == .entry || r.sel == .saved) && !r.normalized⟩

/-- outcome clauses of the Newton path of projectQ / projectU: between 1 and `maxIts` iterations, a change was made;
Succeeded only with exit norm within the accuracy; FailedToConverge only under LocalOnly from the 2nd iteration on;
thrown iff failed and `!DontThrow`.  When no quaternion can fail afterwards (`noQuat`: projectU, or mQuats = 0) a
failure never returns a worse norm than it got (`n ≤ perrIn`), and exit norm = entry norm means the saved state was
written back (`restored`).  (A FORCED projection that starts within the accuracy and only makes things worse restores
the entry state but still reports failure with exit norm `≤ acc`; hence `… || o.force` in the failure clauses.) -/
def newtonOutcome (o : Opts K) (ob : Obs K) (maxIts : Nat) (noQuat : Bool) (perrIn : K) : Bool :=
  decide (1 ≤ ob.its) && decide (ob.its ≤ maxIts) && ob.anyChange &&
  match ob.normOut with
  | none => false
  | some n =>
    (ob.status == .succeeded && decide (n ≤ o.acc) && !ob.threw) ||
    ((ob.status == .failedAcc || (ob.status == .failedConv && o.localOnly && decide (2 ≤ ob.its))) &&
      (decide (o.acc < n) || o.force) && (ob.threw == !o.dontThrow) &&
      (!noQuat || (decide (n ≤ perrIn) && (!(n == perrIn) || ob.restored))))

/-- the projection-limit exit -/
def limitOutcome (ob : Obs K) : Bool :=
  ob.limitExceeded && ob.status == .failedConv && ob.its == 0 && !ob.anyChange && ob.normOut.isNone && !ob.threw &&
  ob.restored

/-- acceptance of an observed projectQ outcome.  The exit is decided exactly as the code decides it, from the two entry
norms (weighted perr norm, quaternion norm — recomputed by the model from the exported entry errors), then the clause of
that exit must hold. -/
def acceptsQ (o : Opts K) (mQuats : Nat) (perrIn quatIn : K) (ob : Obs K) : Bool :=
  let normIn := if quatIn ≤ perrIn then perrIn else quatIn
  if exceeds o.limit normIn then limitOutcome ob
  else
    !ob.limitExceeded &&
    (if perrIn == 0 || (decide (perrIn ≤ o.acc) && !o.force) then
      if decide (o.acc < quatIn) || o.force then
        -- only quaternions normalised
        ob.its == 0 &&
          (match ob.normOut with
           | none => false
           | some n => (ob.status == .succeeded && decide (n ≤ o.acc) && !ob.threw) ||
                       (ob.status == .failedAcc && decide (o.acc < n) && (ob.threw == !o.dontThrow)))
      else
        -- nothing to do
        ob.status == .succeeded && ob.its == 0 && !ob.anyChange && !ob.threw && ob.restored &&
          (match ob.normOut with | some n => n == normIn | none => false)
    else newtonOutcome o ob maxItsQ (mQuats == 0) perrIn)

/-- acceptance of an observed projectU outcome (`verrIn` = weighted entry norm recomputed by the model) -/
def acceptsU (o : Opts K) (verrIn : K) (ob : Obs K) : Bool :=
  if exceeds o.limit verrIn then limitOutcome ob
  else
    !ob.limitExceeded &&
    (if verrIn == 0 || (decide (verrIn ≤ o.acc) && !o.force) then
      ob.status == .succeeded && ob.its == 0 && !ob.anyChange && !ob.threw && ob.restored &&
        (match ob.normOut with | some n => n == verrIn | none => false)
    else newtonOutcome o ob maxItsU true verrIn)

/-! ### `System::project(state, accuracy)` dispatch (System.cpp) -/

/-- the calls `System::project` makes, in order -/
inductive Step | realizeTime | prescribeQ | realizePosition | projectQ | prescribeU | realizeVelocity | projectU
deriving DecidableEq, Repr

def projectSteps : List Step :=
  [.realizeTime, .prescribeQ, .realizePosition, .projectQ, .prescribeU, .realizeVelocity, .projectU]

/-- `ProjectOptions(accuracy)`: `clear()` (no option set, overshoot 0.1, limit Infinity) then `setRequiredAccuracy` -/
def defaultOpts (dfltAcc dfltOvershoot sig acc : K) : Opts K :=
  ⟨setRequiredAccuracy dfltAcc acc, dfltOvershoot, none, sig, false, false, false, false⟩

/-- `System::project` throws iff its projectQ throws, or else its projectU throws (projectU is not reached after a
throwing projectQ) -/
def projectThrows (threwQ threwU : Bool) : Bool := threwQ || threwU

end Skeleton

/-! ### quaternion normalisation -/
section Quat
variable {K : Type} [Add K] [Sub K] [Mul K] [Div K] [OfNat K 0]

structure Quat (K : Type) where
  w : K
  x : K
  y : K
  z : K

/-- `Vec4::normSqr()`: `sum=0; sum += v_i*v_i` -/
def Quat.normSq (q : Quat K) : K := 0 + q.w * q.w + q.x * q.x + q.y * q.y + q.z * q.z

def Quat.dot (a b : Quat K) : K := 0 + a.w * b.w + a.x * b.x + a.y * b.y + a.z * b.z

/-- `quat = quat / quat.norm()` (each component divided) -/
def normalizeQuat (sqrt : K → K) (q : Quat K) : Quat K :=
  let n := sqrt q.normSq
  ⟨q.w / n, q.x / n, q.y / n, q.z / n⟩

/-- `qerr -= dot(qerr,quat) * quat` : the error estimate loses its component along the (normalised) quaternion -/
def projectErrEst (quat e : Quat K) : Quat K :=
  let d := e.dot quat
  ⟨e.w - d * quat.w, e.x - d * quat.x, e.y - d * quat.y, e.z - d * quat.z⟩

/-- `normalizeQuaternions(s,qErrest)` over all quaternion mobilizers: those whose q is prescribed
(`mobodInfo.qMethod != Motion::Free`, flag `false`) are skipped -/
def normalizeQuatsMasked (sqrt : K → K) (qs : List (Bool × Quat K)) : List (Bool × Quat K) :=
  qs.map (fun p => if p.1 then (p.1, normalizeQuat sqrt p.2) else p)

end Quat

/-! ### packFreeQ / unpackFreeQ -/
section Pack
variable {K : Type}

/-- `packedFreeQ[i] = allQ[freeQX[i]]` -/
def pack (free : List Nat) (all : List K) (dflt : K) : List K := free.map (fun i => all.getD i dflt)

/-- `unpackedFreeQ[freeQX[i]] = packedFreeQ[i]`; other slots keep what `base` holds -/
def unpack (free : List Nat) (packed : List K) (base : List K) : List K :=
  (free.zip packed).foldl (fun b (ip : Nat × K) => b.set ip.1 ip.2) base

end Pack

/-! ### dense helpers and the weighted minimum-norm step (executed at `Float` by the driver) -/
section Dense
variable {K : Type} [Add K] [Sub K] [Mul K] [Div K] [Neg K] [OfNat K 0] [LT K] [DecidableLT K]

def dotL (a b : List K) : K := (List.zipWith (· * ·) a b).foldl (· + ·) 0

def mulVecL (A : List (List K)) (x : List K) : List K := A.map (fun r => dotL r x)

/-- `Aᵀ y` for `A` with `n` columns -/
def mulVecTL (n : Nat) (A : List (List K)) (y : List K) : List K :=
  (List.range n).map (fun j => dotL (A.map (fun r => r.getD j 0)) y)

/-- `A Aᵀ` -/
def gramL (A : List (List K)) : List (List K) := A.map (fun r => A.map (fun s => dotL r s))

/-- take the row whose head has the largest magnitude out of a nonempty list (partial pivoting) -/
def extractPivot : List (List K) → Option (List K × List (List K))
  | [] => none
  | r :: rs =>
    match extractPivot rs with
    | none => some (r, [])
    | some (p, rest) =>
      if absHead r < absHead p then some (p, r :: rest) else some (r, p :: rest)
where absHead (r : List K) : K := let h := r.headD 0; if h < 0 then -h else h

/-- Gaussian elimination on augmented rows `[a₁ … aₙ | b]`, eliminating the first column recursively -/
def solveAug : Nat → List (List K) → List K
  | 0, _ => []
  | n + 1, rows =>
    match extractPivot rows with
    | none => []
    | some (p, rest) =>
      let a := p.headD 0
      let pt := p.tail
      let rest' := rest.map (fun r => let f := r.headD 0 / a; List.zipWith (fun x y => x - f * y) r.tail pt)
      let xs := solveAug n rest'
      let rhs := pt.getLastD 0
      ((rhs - dotL pt.dropLast xs) / a) :: xs

def solveL (M : List (List K)) (b : List K) : List K :=
  solveAug M.length (List.zipWith (fun r bi => r ++ [bi]) M b)

/-- documented weighted least-squares step for N = identity:
`A' = Tp A Wu⁻¹` (rows scaled by `tp`, columns by `winv`), `x = Wu⁻¹ A'ᵀ (A' A'ᵀ)⁻¹ (Tp b)`.
Returns `(x, λ, M)` with `M = A' A'ᵀ` and `M λ = Tp b` so the driver can verify its own solve. -/
def minNormWeighted (n : Nat) (A : List (List K)) (tp winv b : List K) : List K × List K × List (List K) :=
  let A' := List.zipWith (fun r t => List.zipWith (fun a wi => t * a * wi) r winv) A tp
  let M := gramL A'
  let lam := solveL M (List.zipWith (· * ·) tp b)
  (List.zipWith (· * ·) winv (mulVecTL n A' lam), lam, M)

/-- projectU's relative scaling of a change in u: `uRelScale[i] = |u_i|*Wu_i > 1 ? |u_i| : 1/Wu_i`
("max(unit error, u)"); the velocity correction minimises `Σ (du_i / uRelScale_i)²` -/
def uRelScale [OfNat K 1] (u wu : List K) : List K :=
  List.zipWith (fun ui wi => let a := (if ui < 0 then -ui else ui); if 1 < a * wi then a else 1 / wi) u wu

/-- `1/Wu` (`uWeights.elementwiseInvert()`) -/
def invertAll [OfNat K 1] (w : List K) : List K := w.map (fun x => 1 / x)

/-- dense product of an `a×b` by a `b×c` matrix given as row lists (`c` columns) -/
def matMulL (c : Nat) (A B : List (List K)) : List (List K) :=
  A.map (fun r => (List.range c).map (fun j => dotL r (B.map (fun br => br.getD j 0))))

/-- the position step for general mobilizers: `S = Wq⁺ = N Wu⁻¹ N⁺` (nq×nq), `Pqw_r = (Tp Pq S)` restricted to the free
columns, `dfq = Pqw_rᵀ μ` with `(Pqw_r Pqw_rᵀ) μ = Tp perr` (QTZ at full row rank), `dq = S unpack(dfq)`.
Returns `(dq, μ, M)`. -/
def minNormStepN (nq _nu : Nat) (free : List Nat) (Pq Nm NInv : List (List K)) (tp winvU b : List K) :
    List K × List K × List (List K) :=
  let NW := Nm.map (fun r => List.zipWith (· * ·) r winvU)          -- N Wu⁻¹   (nq×nu)
  let S := matMulL nq NW NInv                                        -- nq×nq
  let PS := matMulL nq Pq S                                          -- m×nq
  let Ar := List.zipWith (fun r t => (pack free r 0).map (fun a => t * a)) PS tp
  let M := gramL Ar
  let mu := solveL M (List.zipWith (· * ·) tp b)
  let dfq := mulVecTL free.length Ar mu
  let udfq := unpack free dfq (List.replicate nq 0)
  (mulVecL S udfq, mu, M)

/-- the same step restricted to the free columns (`calcWeightedPqrTranspose` packs rows of `~Pqw`), zero in the
prescribed slots (`unpackFreeQ` into a zero vector).  Returns `(dq, λ, M)`. -/
def minNormStep (n : Nat) (free : List Nat) (A : List (List K)) (tp winv b : List K) :
    List K × List K × List (List K) :=
  let Ar := A.map (fun r => pack free r 0)
  let wr := pack free winv 0
  let r := minNormWeighted free.length Ar tp wr b
  (unpack free r.1 (List.replicate n 0), r.2.1, r.2.2)

end Dense

end C09
