import SimbodyModel.C25
/-!
# C25 — the object / view state machine (Matrix_, Vector_, RowVector_ handles and operations on view expressions)

Eight named handles: `M0..M3 : Matrix_`, `V0 V1 : Vector_`, `R0 R1 : RowVector_`.  A handle is an *owner*
(resizable, owns a flat store: column-major for `Matrix_`, contiguous for vectors) or, after `viewAssign`,
a *view* of another owner.  Every operation takes view expressions `handle/op/op/...`; the model resolves them
with `C25.resolve` and performs the operation with the dense reference of `C25.Dense`.

Legality (`legalOp`) is decided here: illegal calls are undefined behaviour in the release build and are never
generated.  Calls whose documented behaviour is an exception (resizing a view or a locked owner) are legal and
answer `EXC:<class>`.
-/
namespace C25

inductive Kind | mat | vec | row
deriving DecidableEq, Repr

/-- static (C++) type of a view expression -/
def Kind.after : Kind → VOp → Kind
  | _, .block _ _ _ _ => .mat
  | _, .row _ => .row
  | _, .col _ => .vec
  | _, .diag => .vec
  | .mat, .transpose => .mat
  | .vec, .transpose => .row
  | .row, .transpose => .vec
  | k, .negate => k
  | k, .index _ _ => k

structure Obj (K : Type) where
  kind : Kind
  isOwner : Bool
  nr : Nat
  nc : Nat
  store : Array K
  base : Nat            -- index of the owner whose store is viewed (self for owners)
  recipe : List VOp     -- view handles: the view expression on `base`
  rkind : Kind          -- static type of `recipe` on base (unused for owners)
  locked : Bool
  mag : Nat             -- generator's bound on |entry| (also covers the harness-only float/complex variants)
  born1 : Bool          -- a RowVector_ constructed with exactly one element (its helper is column-oriented: finding)
  rowOrder : Bool       -- a Matrix_ constructed with exactly one row (≠ 1 column): row-ordered storage

/-- flat-store layout of an owner handle of the given class, storage order and shape -/
def layoutOf (k : Kind) (rowOrder : Bool) (nr nc : Nat) : AView :=
  match k with
  | .mat => if rowOrder then AView.ownerMatrixRowOrder nr nc else AView.ownerMatrix nr nc
  | .vec => AView.ownerVector nr
  | .row => AView.ownerRowVector nc

def Obj.layout {K} (o : Obj K) : AView := layoutOf o.kind o.rowOrder o.nr o.nc

def kindOfIdx (i : Nat) : Kind := if i < 4 then .mat else if i < 6 then .vec else .row
def nameOfIdx (i : Nat) : String :=
  if i < 4 then s!"M{i}" else if i < 6 then s!"V{i - 4}" else s!"R{i - 6}"

def emptyObj (K : Type) (i : Nat) : Obj K :=
  match kindOfIdx i with
  | .mat => ⟨.mat, true, 0, 0, #[], i, [], .mat, false, 0, false, false⟩
  | .vec => ⟨.vec, true, 0, 1, #[], i, [], .vec, false, 0, false, false⟩
  | .row => ⟨.row, true, 1, 0, #[], i, [], .row, false, 0, false, false⟩

abbrev St (K : Type) := Array (Obj K)

/-- how many view handles currently look at the data of handle `o` (computed, not book-kept) -/
def viewCount {K : Type} (st : Array (Obj K)) (o : Nat) : Nat :=
  (st.toList.filter fun x => !x.isOwner && x.base == o).length
def initSt (K : Type) : St K := (Array.range 8).map (emptyObj K)

/-- one step of a view expression as written in the op line; `sub i m` is `v(i,m)` on a Vector / RowVector -/
inductive XOp
  | v (op : VOp)
  | sub (i m : Nat)
  | idx (ix : List Nat)
deriving Repr

structure Expr where
  obj : Nat
  xs : List XOp
deriving Repr

/-- elaborate the written steps into `VOp`s, tracking the static type; `none` if a step is not offered by the
static type (`v(i,m)` and `index` exist only on vectors / row vectors) -/
def elabX : Kind → List XOp → Option (List VOp × Kind)
  | k, [] => some ([], k)
  | k, .v op :: rest =>
    match op with
    | .index _ _ => none
    | _ => (elabX (k.after op) rest).map fun (l, k') => (op :: l, k')
  | k, .sub i m :: rest =>
    match k with
    | .vec => (elabX .vec rest).map fun (l, k') => (VOp.block i 0 m 1 :: l, k')
    | .row => (elabX .row rest).map fun (l, k') => (VOp.block 0 i 1 m :: l, k')
    | .mat => none
  | k, .idx ix :: rest =>
    match k with
    | .vec => (elabX .vec rest).map fun (l, k') => (VOp.index false ix :: l, k')
    | .row => (elabX .row rest).map fun (l, k') => (VOp.index true ix :: l, k')
    | .mat => none

/-- a fully resolved expression -/
structure Res where
  owner : Nat          -- index of the owner whose store is addressed
  ops : List VOp       -- complete view expression on that owner
  kind : Kind          -- static type
  view : RView
  legal : Bool

variable {K : Type} [Add K] [Sub K] [Mul K] [Neg K] [OfNat K 0]

def resolveExpr (st : St K) (e : Expr) : Option Res :=
  match st[e.obj]? with
  | none => none
  | some o =>
    let b := if o.isOwner then e.obj else o.base
    match st[b]? with
    | none => none
    | some ob =>
      let k0 := o.kind      -- a handle's static type is its declared class, also while it is a view
      match elabX k0 e.xs with
      | none => none
      | some (l, k) =>
        let ops := (if o.isOwner then [] else o.recipe) ++ l
        some ⟨b, ops, k, resolve ob.layout ops, legalAll ops ob.layout.shape && ob.isOwner⟩

/-- does an `index` step act on a source that is not contiguous in memory (stride ≠ 1 with more than one
element, or an already indexed source)?  These are the inputs of the known finding. -/
def noncontigIndex (own : AView) : List VOp → Bool
  | [] => false
  | op :: rest =>
    match op with
    | .index _ _ => !(own.rs == 1 || own.nr * own.nc ≤ 1) || restHasIndexOrTail own rest
    | _ => match own.apply op with
      | some w => noncontigIndex w rest
      | none => false
where
  /-- after an index step: the view is an IndexedVectorHelper; a later index step on more than one element is
  again on a non-contiguous source (conservatively: any later index step) -/
  restHasIndexOrTail (_own : AView) : List VOp → Bool
    | [] => false
    | .index _ _ :: _ => true
    | _ :: r => restHasIndexOrTail _own r

/-- parity of the (Hermitian) transposes: an odd number changes the element type of complex matrices -/
def conjAll : List VOp → Bool
  | [] => false
  | .transpose :: r => !(conjAll r)
  | _ :: r => conjAll r

/-- an `index` step with an empty index list (its result shape 0×1 / 1×0 is taken from the helper's own
row/column flag, which for one-element views need not agree with the static type: finding) -/
def hasEmptyIndex : List VOp → Bool
  | [] => false
  | .index _ [] :: _ => true
  | _ :: r => hasEmptyIndex r

def hasIndex : List VOp → Bool
  | [] => false
  | .index _ _ :: _ => true
  | _ :: r => hasIndex r

/-- what the machine needs to know about the scalar type beyond the ring operations -/
structure Scal (K : Type) where
  absNat : K → Nat          -- |x| of a (small-integer) input as a natural number: magnitude bookkeeping
  abs : K → K
  sqrt : K → K
  max : K → K → K
  isZero : K → Bool
  divides : K → K → Bool    -- `divides s x`: x / s is again an integer
  ofNat : Nat → K

/-- operations -/
inductive Op (K : Type)
  | new (o nr nc : Nat) (vals : Array K)
  | resize (o m n : Nat) (v : K)
  | resizeKeep (o m n : Nat) (v : K)
  | clear (o : Nat)
  | lock (o : Nat)
  | unlock (o : Nat)
  | set (e : Expr) (i j : Nat) (v : K)
  | fill (e : Expr) (v : K)
  | zero (e : Expr)
  | sassign (e : Expr) (v : K)
  | copy (d s : Expr)
  | add (d s : Expr)
  | sub (d s : Expr)
  | scale (d : Expr) (s : K)
  | negip (d : Expr)
  | eadd (d : Expr) (s : K)
  | esubfrom (d : Expr) (s : K)
  | emul (d s : Expr)
  | rowscale (d s : Expr)
  | colscale (d s : Expr)
  | mul (o : Nat) (a b : Expr)
  | mulv (o : Nat) (a b : Expr)
  | dot (a b : Expr)
  | plus (o : Nat) (a b : Expr)
  | minus (o : Nat) (a b : Expr)
  | smul (o : Nat) (a : Expr) (s : K)
  | deep (o : Nat) (a : Expr)
  | read (e : Expr)
  | nrm2 (e : Expr)
  | sum (e : Expr)
  | get (e : Expr) (i j : Nat)
  | vassign (o : Nat) (e : Expr)
  | sdiv (d : Expr) (s : K)             -- `/= s`
  | norms (e : Expr)                    -- norm(), normRMS(), normInf()
  | abs (e : Expr)                      -- abs()
  | einv (e : Expr)                     -- elementwiseInvert()
  | ediv (a b : Expr)                   -- elementwiseDivide(b)
  | rcscale (e r c : Expr)              -- rowAndColScale(r, c)

/-- result of a step: new state, result lines (already formatted by `fmt`), stores touched, or an exception -/
inductive Outcome (K : Type)
  | ok (st : St K) (results : List (String × Dense K)) (touched : List Nat)
  | exc (cls : String)
  | illegal

def shapeOK (k : Kind) (nr nc : Nat) : Bool :=
  match k with
  | .mat => true
  | .vec => nc == 1
  | .row => nr == 1

/-- the flat store of an owner of the given class / storage order holding the dense value `d` -/
def ownerStore (k : Kind) (rowOrder : Bool) (d : Dense K) : Array K :=
  let lay := layoutOf k rowOrder d.nr d.nc
  writeView (Array.replicate (lay.nr * lay.nc) 0) (resolve lay []) d.el

/-- replace the contents of owner `o` by a dense value (reallocating): used by `=` on owners and producers -/
def assignOwner (st : St K) (o : Nat) (d : Dense K) (mag : Nat) : St K :=
  match st[o]? with
  | none => st
  | some ob => st.set! o { ob with nr := d.nr, nc := d.nc, store := ownerStore ob.kind ob.rowOrder d, mag := mag }

/-- may owner `o` be given shape (nr,nc) by reallocation? `none` = fine, `some cls` = documented exception -/
def reshapeCheck (nviews : Nat) (ob : Obj K) (nr nc : Nat) : Option (Option String) :=
  if ob.nr == nr && ob.nc == nc then some none
  else if !ob.isOwner then some (some "OperationNotAllowedOnView")
  else if ob.locked then some (some "Cant")
  -- the size commitment of a Vector_ (RowVector_) is the bit mask 1 on the column (row) count: 0 passes the
  -- mask and would leave an m×0 "vector" whose elements cannot be addressed: never generated
  else if (ob.kind == .vec && nc == 0) || (ob.kind == .row && nr == 0) then none
  else if !shapeOK ob.kind nr nc then some (some "Cant")
  else if nviews != 0 then none             -- would leave dangling views: illegal
  else some none

/-- write a dense value through a resolved destination -/
def writeRes (st : St K) (r : Res) (d : Dense K) (mag : Nat) : St K :=
  match st[r.owner]? with
  | none => st
  | some ob => st.set! r.owner { ob with store := writeView ob.store r.view d.el, mag := mag }

def magOf (st : St K) (r : Res) : Nat := (st[r.owner]?.map (·.mag)).getD 0
def denseRes (st : St K) (r : Res) : Dense K :=
  match st[r.owner]? with
  | some ob => denseOf ob.store r.view
  | none => ⟨0, 0, fun _ _ => 0⟩

def cap : Nat := 4194304   -- 2^22: every value and partial sum stays exactly representable even in binary32

/-- in-place binary operation `d ∘= s` (shapes must agree, no aliasing) -/
def binIP (st : St K) (d s : Expr) (f : Dense K → Dense K → Dense K) (shapeReq : Res → Res → Bool)
    (mag : Nat → Nat → Nat) : Outcome K :=
  match resolveExpr st d, resolveExpr st s with
  | some rd, some rs =>
    -- source and destination may live in the same owner as long as they share no cell (`A.col(0) += A.col(1)`)
    if !(rd.legal && rs.legal) || (rd.owner == rs.owner && !(rd.view.disjoint rs.view)) || !shapeReq rd rs then .illegal else
    let m := max (magOf st rd) (mag (magOf st rd) (magOf st rs))   -- cells outside the view keep their old values
    if m > cap then .illegal else
    .ok (writeRes st rd (f (denseRes st rd) (denseRes st rs)) m) [] [rd.owner]
  | _, _ => .illegal

def sameShape (a b : Res) : Bool := a.view.nr == b.view.nr && a.view.nc == b.view.nc

/-- in-place unary operation -/
def unIP (st : St K) (d : Expr) (f : Dense K → Dense K) (mag : Nat → Nat) : Outcome K :=
  match resolveExpr st d with
  | some rd =>
    if !rd.legal then .illegal else
    let m := max (magOf st rd) (mag (magOf st rd))
    if m > cap then .illegal else
    .ok (writeRes st rd (f (denseRes st rd)) m) [] [rd.owner]
  | none => .illegal

/-- producer `obj = value` (reallocating assignment to a named handle) -/
def produce (st : St K) (o : Nat) (d : Dense K) (mag : Nat) (srcOwners : List Nat) : Outcome K :=
  match st[o]? with
  | none => .illegal
  | some ob =>
    if mag > cap then .illegal else
    if !ob.isOwner then
      -- assignment through a view handle: shapes must agree, and the sources must not alias the viewed owner
      if ob.nr == d.nr && ob.nc == d.nc && !srcOwners.contains ob.base then
        match st[ob.base]? with
        | some bb =>
          let rv := resolve bb.layout ob.recipe
          .ok (st.set! ob.base { bb with store := writeView bb.store rv d.el, mag := max bb.mag mag }) [] [ob.base]
        | none => .illegal
      else .illegal
    else
    match reshapeCheck (viewCount st o) ob d.nr d.nc with
    | none => .illegal
    | some (some cls) => .exc cls
    | some none => .ok (assignOwner st o d mag) [] [o]

def natAbsK (toNat : K → Nat) (x : K) : Nat := toNat x

/-- the step function -/
def step [Div K] [OfNat K 1] (sc : Scal K) (st : St K) : Op K → Outcome K
  | .new o nr nc vals =>
    match st[o]? with
    | none => .illegal
    | some ob =>
      let k := kindOfIdx o
      if !shapeOK k nr nc || vals.size != nr * nc then .illegal else
      if ob.isOwner && viewCount st o != 0 then .illegal else
      -- the handle is destroyed and constructed afresh
      let m := vals.foldl (fun acc x => max acc (sc.absNat x + 3)) 0
      let b1 : Bool := k == .row && nc == 1
      let ro : Bool := k == .mat && nr == 1 && nc != 1
      let d : Dense K := ⟨nr, nc, fun i j => vals.getD (i * nc + j) 0⟩
      let fresh : Obj K := ⟨k, true, nr, nc, ownerStore k ro d, o, [], k, false, m, b1, ro⟩
      .ok (st.set! o fresh) [] [o]
  | .resize o m n v =>
    match st[o]? with
    | none => .illegal
    | some ob =>
      match reshapeCheck (viewCount st o) ob m n with
      | none => .illegal
      | some (some cls) => .exc cls
      | some none =>
        if ob.isOwner then .ok (assignOwner st o (Dense.const m n v) (sc.absNat v + 3)) [] [o]
        else
          -- same shape: no-op resize, then setTo(v) through the view
          match st[ob.base]? with
          | some bb =>
            let rv := resolve bb.layout ob.recipe
            .ok (st.set! ob.base { bb with store := writeView bb.store rv (fun _ _ => v), mag := max bb.mag (sc.absNat v + 3) }) [] [ob.base]
          | none => .illegal
  | .resizeKeep o m n v =>
    match st[o]? with
    | none => .illegal
    | some ob =>
      match reshapeCheck (viewCount st o) ob m n with
      | none => .illegal
      | some (some cls) => .exc cls
      | some none =>
        if !ob.isOwner then .ok st [] [ob.base] else
        let d : Dense K := ⟨m, n, fun i j => if i < ob.nr ∧ j < ob.nc then rget ob.store (resolve ob.layout []) i j else v⟩
        .ok (assignOwner st o d (max ob.mag (sc.absNat v + 3))) [] [o]
  | .clear o =>
    match st[o]? with
    | none => .illegal
    | some ob =>
      if ob.isOwner then
        if viewCount st o != 0 || ob.locked then .illegal else .ok (st.set! o (emptyObj K o)) [] [o]
      else .ok (st.set! o (emptyObj K o)) [] [o]
  | .lock o =>
    match st[o]? with
    | some ob => if ob.isOwner then .ok (st.set! o { ob with locked := true }) [] [o] else .illegal
    | none => .illegal
  | .unlock o =>
    match st[o]? with
    | some ob => if ob.isOwner then .ok (st.set! o { ob with locked := false }) [] [o] else .illegal
    | none => .illegal
  | .set e i j v =>
    match resolveExpr st e with
    | some r =>
      if !r.legal || !(i < r.view.nr && j < r.view.nc) then .illegal else
      match st[r.owner]? with
      | some ob => .ok (st.set! r.owner { ob with store := rset ob.store r.view i j v, mag := max ob.mag (sc.absNat v + 3) }) [] [r.owner]
      | none => .illegal
    | none => .illegal
  | .fill e v => unIP st e (fun d => Dense.const d.nr d.nc v) (fun m => max m (sc.absNat v + 3))
  | .zero e => unIP st e (fun d => Dense.const d.nr d.nc 0) id
  | .sassign e v =>
    match resolveExpr st e with
    | some r =>
      if r.kind == .mat then unIP st e (fun d => Dense.scalarMat d.nr d.nc v) (fun m => max m (sc.absNat v + 3))
      else unIP st e (fun d => Dense.const d.nr d.nc v) (fun m => max m (sc.absNat v + 3))
    | none => .illegal
  | .copy d s =>
    match resolveExpr st d, resolveExpr st s with
    | some rd, some rs =>
      if !(rd.legal && rs.legal) then .illegal else
      let isWholeOwner := d.xs.isEmpty && ((st[d.obj]?.map (·.isOwner)).getD false)
      if isWholeOwner then
        if rd.owner == rs.owner then .illegal else produce st d.obj (denseRes st rs) (magOf st rs) [rs.owner]
      else if !sameShape rd rs || (rd.owner == rs.owner && !(rd.view.disjoint rs.view)) then .illegal
      else .ok (writeRes st rd (denseRes st rs) (max (magOf st rd) (magOf st rs))) [] [rd.owner]
    | _, _ => .illegal
  | .add d s => binIP st d s Dense.add sameShape (· + ·)
  | .sub d s => binIP st d s Dense.sub sameShape (· + ·)
  | .scale d s => unIP st d (fun x => x.scale s) (fun m => m * sc.absNat s)
  | .negip d => unIP st d Dense.neg id
  | .eadd d s => unIP st d (fun x => x.addScalar s) (fun m => m + sc.absNat s + 3)
  | .esubfrom d s => unIP st d (fun x => x.subFromScalar s) (fun m => m + sc.absNat s + 3)
  | .emul d s => binIP st d s Dense.emul sameShape (fun a b => 2 * a * b)
  | .rowscale d s => binIP st d s Dense.rowScale (fun rd rs => rs.kind == .vec && rs.view.nr == rd.view.nr && rs.view.nc == 1)
      (fun a b => 2 * a * b)
  | .colscale d s => binIP st d s Dense.colScale (fun rd rs => rs.kind == .vec && rs.view.nr == rd.view.nc && rs.view.nc == 1)
      (fun a b => 2 * a * b)
  | .mul o a b =>
    match resolveExpr st a, resolveExpr st b with
    | some ra, some rb =>
      if !(ra.legal && rb.legal) || ra.view.nc != rb.view.nr || kindOfIdx o != .mat then .illegal else
      produce st o ((denseRes st ra).mul (denseRes st rb)) (2 * (max 1 ra.view.nc) * magOf st ra * magOf st rb) [ra.owner, rb.owner]
    | _, _ => .illegal
  | .mulv o a b =>
    match resolveExpr st a, resolveExpr st b with
    | some ra, some rb =>
      if !(ra.legal && rb.legal) || ra.view.nc != rb.view.nr || rb.kind != .vec || kindOfIdx o != .vec then .illegal else
      produce st o ((denseRes st ra).mul (denseRes st rb)) (2 * (max 1 ra.view.nc) * magOf st ra * magOf st rb) [ra.owner, rb.owner]
    | _, _ => .illegal
  | .dot a b =>
    match resolveExpr st a, resolveExpr st b with
    | some ra, some rb =>
      if !(ra.legal && rb.legal) || ra.kind != .row || rb.kind != .vec || ra.view.nc != rb.view.nr then .illegal else
      if 2 * (max 1 ra.view.nc) * magOf st ra * magOf st rb > cap then .illegal else
      .ok st [("dot", (denseRes st ra).mul (denseRes st rb))] []
    | _, _ => .illegal
  | .plus o a b =>
    match resolveExpr st a, resolveExpr st b with
    | some ra, some rb =>
      if !(ra.legal && rb.legal) || !sameShape ra rb || kindOfIdx o != .mat then .illegal else
      produce st o ((denseRes st ra).add (denseRes st rb)) (magOf st ra + magOf st rb) [ra.owner, rb.owner]
    | _, _ => .illegal
  | .minus o a b =>
    match resolveExpr st a, resolveExpr st b with
    | some ra, some rb =>
      if !(ra.legal && rb.legal) || !sameShape ra rb || kindOfIdx o != .mat then .illegal else
      produce st o ((denseRes st ra).sub (denseRes st rb)) (magOf st ra + magOf st rb) [ra.owner, rb.owner]
    | _, _ => .illegal
  | .smul o a s =>
    match resolveExpr st a with
    | some ra =>
      if !ra.legal || kindOfIdx o != .mat then .illegal else
      produce st o ((denseRes st ra).scale s) (magOf st ra * sc.absNat s) [ra.owner]
    | none => .illegal
  | .deep o a =>
    match resolveExpr st a with
    | some ra =>
      if !ra.legal || kindOfIdx o != .mat then .illegal else
      produce st o (denseRes st ra) (magOf st ra) [ra.owner]
    | none => .illegal
  | .read e =>
    match resolveExpr st e with
    | some r => if !r.legal then .illegal else .ok st [("read", denseRes st r)] []
    | none => .illegal
  | .nrm2 e =>
    match resolveExpr st e with
    | some r =>
      if !r.legal || 2 * (r.view.nr * r.view.nc) * magOf st r * magOf st r > cap then .illegal else
      let d := denseRes st r
      .ok st [("nrm2", ⟨1, 1, fun _ _ => d.normSqr⟩)] []
    | none => .illegal
  | .sum e =>
    match resolveExpr st e with
    | some r =>
      if !r.legal || (r.view.nr * r.view.nc) * magOf st r > cap then .illegal else
      let d := denseRes st r
      -- `colSum()`/`rowSum()` exist on every MatrixBase, the total `sum()` only on vectors and row vectors
      .ok st ([("colsum", d.colSum), ("rowsum", d.rowSum)] ++
              (if r.kind == .mat then [] else [("sum", ⟨1, 1, fun _ _ => d.sum⟩)])) []
    | none => .illegal
  | .get e i j =>
    match resolveExpr st e with
    | some r =>
      if !r.legal || !(i < r.view.nr && j < r.view.nc) then .illegal else
      let d := denseRes st r
      .ok st [("get", ⟨1, 1, fun _ _ => d.el i j⟩)] []
    | none => .illegal
  | .vassign o e =>
    match st[o]?, resolveExpr st e with
    | some ob, some r =>
      -- the handle must be a Matrix_ that nobody views; the source must be another owner's data, seen through
      -- a view with an un-negated element type (for complex elements an odd number of Hermitian transposes changes the
      -- element type too; the harness's complex variant then only follows the reference) and regular spacing
      if kindOfIdx o != .mat || !r.legal || r.owner == o || negAll r.ops || hasIndex r.ops then .illegal else
      if ob.isOwner && (viewCount st o != 0 || ob.locked) then .illegal else
      let h : Obj K := ⟨.mat, false, r.view.nr, r.view.nc, #[], r.owner, r.ops, r.kind, false, 0, false, false⟩
      .ok (st.set! o h) [] [r.owner, o]
    | _, _ => .illegal
  | .sdiv d s =>
    -- `/= s` multiplies by `1/s`: exact for s = ±1, ±2, ±4; only generated when every viewed entry is divisible
    match resolveExpr st d with
    | some rd =>
      if !rd.legal || sc.isZero s || !((denseRes st rd).allEl (sc.divides s)) then .illegal else
      unIP st d (fun x => x.scale (1 / s)) id
    | none => .illegal
  | .norms e =>
    match resolveExpr st e with
    | some r =>
      if !r.legal || 2 * (r.view.nr * r.view.nc) * magOf st r * magOf st r > cap then .illegal else
      let d := denseRes st r
      let n2 := d.normSqr
      let nelt := r.view.nr * r.view.nc
      let rms : K := if nelt == 0 then 0 else sc.sqrt (n2 / sc.ofNat nelt)
      .ok st ([("norm", ⟨1, 1, fun _ _ => sc.sqrt n2⟩), ("normRMS", ⟨1, 1, fun _ _ => rms⟩)] ++
              (if r.kind == .vec then [("normInf", ⟨1, 1, fun _ _ => (d.mapEl sc.abs).foldEl sc.max 0⟩)] else [])) []
    | none => .illegal
  | .abs e =>
    match resolveExpr st e with
    | some r => if !r.legal then .illegal else .ok st [("abs", (denseRes st r).mapEl sc.abs)] []
    | none => .illegal
  | .einv e =>
    match resolveExpr st e with
    | some r =>
      let d := denseRes st r
      if !r.legal || !(d.allEl fun x => !sc.isZero x) then .illegal else .ok st [("einv", d.einv)] []
    | none => .illegal
  | .ediv a b =>
    match resolveExpr st a, resolveExpr st b with
    | some ra, some rb =>
      let db := denseRes st rb
      if !(ra.legal && rb.legal) || !sameShape ra rb || !(db.allEl fun x => !sc.isZero x) then .illegal else
      .ok st [("ediv", (denseRes st ra).ediv db)] []
    | _, _ => .illegal
  | .rcscale e r c =>
    match resolveExpr st e, resolveExpr st r, resolveExpr st c with
    | some re, some rr, some rc =>
      if !(re.legal && rr.legal && rc.legal) || rr.kind != .vec || rc.kind != .vec || rr.view.nr != re.view.nr
          || rc.view.nr != re.view.nc || 4 * magOf st re * magOf st rr * magOf st rc > cap then .illegal else
      .ok st [("rcscale", (denseRes st re).rowAndColScale (denseRes st rr) (denseRes st rc))] []
    | _, _, _ => .illegal

/-- full logical contents of handle `i` -/
def contents (st : St K) (i : Nat) : Dense K :=
  match st[i]? with
  | some o =>
    if o.isOwner then denseOf o.store (resolve o.layout [])
    else match st[o.base]? with
      | some b => denseOf b.store (resolve b.layout o.recipe)
      | none => ⟨0, 0, fun _ _ => 0⟩
  | none => ⟨0, 0, fun _ _ => 0⟩

/-- handles to report after a step: every handle whose underlying store was touched -/
def reportSet (st : St K) (touched : List Nat) : List Nat :=
  (List.range st.size).filter fun i =>
    match st[i]? with
    | some o => touched.contains (if o.isOwner then i else o.base)
    | none => false

end C25
